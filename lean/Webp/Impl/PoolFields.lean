/-
  Webp.Impl.PoolFields — hand-written classification of every field of every pooled struct of
  deepteams/webp (and of the scratch structs that live inside a pooled object), after reading the
  code.  Core Lean only.  Checked against the go/ast-extracted field lists by `Webp.Props.C11`
  (`fields_covered…`, `reset_fields_really_assigned`, …): a new field, a removed field, a reset
  line removed from Go, a renamed reuse-path function — each breaks the build of those theorems.

  One entry per field, IN DECLARATION ORDER of the Go struct (the check compares the list of names
  with the extracted field list), with its class and — except for `reset`, whose evidence is the
  extractor's — a one-line justification.

  Classes (what makes the field's content at the start of `work` independent of earlier calls):
  * `reset`     — (re)initialised on the reuse path on every path through it; the extractor must
                  find syntactic evidence (`Generated.Fields.assigned`).
  * `rewritten` — a buffer / scratch value whose every element READ during a call is WRITTEN
                  earlier in the same call.  One justification each (file:line of /repo at the
                  time of writing).  These are trusted, not proved; the `history` suite is their
                  dynamic check.
  * `immutable` — set once at construction and never changed (or never referenced at all), or
                  depending only on the key the reuse branch compares (`mbW`, `mbH`).
  * `stale`     — NONE of the above holds on the current tree: a value left by an earlier call can
                  reach the output of a later one.  Reserved for confirmed defects that are not
                  repaired yet; `Webp.Props.C11.no_stale_fields` states that there is none.  (Three
                  were found while writing this file — BackwardRefsScratch.CacheSizeHistoSlab,
                  TokenBuffer.mbStart, Decoder.intraL — and repaired in /repo: 3b95a6c, f2dc645,
                  36b0872; their shrunk histories are kept in /verif/corpus/history.)

  File abbreviations: LE = internal/lossy/encode.go, LD = internal/lossy/decode.go,
  LP = internal/lossy/encode_parallel.go, E = internal/lossless/encode.go, EB = …/encode_backward.go,
  EH = …/encode_histogram.go, EHu = …/encode_huffman.go, EP = …/encode_predictor.go,
  HC = …/hashchain.go, D = internal/lossless/decode.go, DI = …/decode_image.go,
  DT = …/decode_transform.go, H = …/huffman.go.
-/
namespace Webp.Impl.PoolFields

/-- how a field's content at the start of a call is made independent of earlier calls -/
inductive Cls where
  | reset | rewritten | immutable | stale
deriving DecidableEq, Repr

structure Annot where
  /-- the extractor's key of the type (`Generated.Fields.PooledType.name`) -/
  name   : String
  /-- field, class, justification / finding -/
  fields : List (String × Cls × String)

def vp8Encoder : Annot where
  name := "lossy.VP8Encoder"
  fields := [
    ("config", .reset, ""),
    ("width", .reset, ""),
    ("height", .reset, ""),
    ("mbW", .immutable, "pool key: the reuse branch requires enc.mbW == mbW (LE:462, :507)"),
    ("mbH", .immutable, "pool key"),
    ("yPlane", .rewritten, "importImage LE:757-830 / importYCbCr LE:551-563 write all padW×padH bytes (edge columns/rows replicated) on every image-type branch"),
    ("uPlane", .rewritten, "importImage LE:836-941 / importYCbCr LE:571-584 write mbH*8 rows × uvStride bytes = the whole plane (worker and serial path)"),
    ("vPlane", .rewritten, "same loops as uPlane"),
    ("yStride", .immutable, "mbW*16, allocateBuffers LE:595"),
    ("uvStride", .immutable, "mbW*8, allocateBuffers LE:596"),
    ("savedY", .reset, ""),
    ("savedU", .reset, ""),
    ("savedV", .reset, ""),
    ("yuvIn", .rewritten, "MBIterator.Import (encode_iterator.go:130-175) fills the full 16×16 + two 8×8 blocks with replication before any read of the macroblock"),
    ("yuvOut", .rewritten, "FillPredictionContext (encode_iterator.go:262-378) writes every border sample per MB (127/129 at row/col 0); interiors written by Pred*Direct before FTransform/ITransform/Export read them"),
    ("yuvOut2", .rewritten, "always seeded by copy from yuvOut (encode_analysis.go:1090,1389; encode_frame.go:249) before being read"),
    ("yuvP", .rewritten, "only used by PickBestI4Mode (Method 2): block interiors written by mode 0 first; row 0, col 0 and cols 17-20 are written by nobody — zero from allocation on fresh and reused objects alike"),
    ("mbInfo", .reset, ""),
    ("dqm", .reset, ""),
    ("segmentHdr", .reset, ""),
    ("proba", .reset, ""),
    ("tokens", .reset, ""),
    ("nzCounts", .reset, ""),
    ("stats", .reset, ""),
    ("filterHdr", .reset, ""),
    ("mbIterator", .rewritten, "InitIterator (encode_iterator.go:39-68) sets every field at the start of encodeFrame / recordAllTokens"),
    ("numParts", .reset, ""),
    ("topNz", .rewritten, "zeroed at the start of every pass (encode_frame.go:20-22, LP:1508-1510, encode_proba.go:319-321)"),
    ("leftNz", .reset, ""),
    ("topNzDC", .rewritten, "zeroed with topNz (encode_frame.go:23-25, LP:1511-1513, encode_proba.go:322-324)"),
    ("leftNzDC", .reset, ""),
    ("dqY1DC", .reset, ""),
    ("dqY2DC", .reset, ""),
    ("dqY2AC", .reset, ""),
    ("dqUVDC", .reset, ""),
    ("dqUVAC", .reset, ""),
    ("topDerr", .reset, ""),
    ("leftDerr", .reset, ""),
    ("useDerr", .reset, ""),
    ("globalAlpha", .reset, ""),
    ("globalUVAlpha", .reset, ""),
    ("baseQuant", .reset, ""),
    ("numSegments", .reset, ""),
    ("skipProba", .reset, ""),
    ("numSkip", .reset, ""),
    ("maxI4HeaderBits", .reset, ""),
    ("rateCtrl", .reset, ""),
    ("tmpCoeffs", .rewritten, "FTransformDirect/FTransformWHT write all 16 before any read"),
    ("tmpQCoeffs", .rewritten, "QuantizeCoeffs / TrellisQuantizeBlock write out[0..15] (out[0]=0 when firstCoeff=1)"),
    ("tmpDQCoeffs", .rewritten, "DequantCoeffs writes all 16"),
    ("tmpDCCoeffs", .rewritten, "zeroed (encode_analysis.go:1110) or all 16 assigned (encode_frame.go:388) before the WHT"),
    ("tmpWHTDQ", .rewritten, "DequantCoeffs writes all 16"),
    ("tmpWHTBuf", .rewritten, "TransformWHT writes indices 16·i, and only those are read"),
    ("tmpAllQ", .rewritten, "all 16 blocks written per mode (encode_analysis.go:1140) before the reads at :1173/:1193"),
    ("tmpACLevels", .rewritten, "all 256 copied (encode_analysis.go:1193) before isFlat"),
    ("tmpRecon", .rewritten, "ITransformDirect writes the 4×4 block that SSE4x4/TDisto4x4 then read"),
    ("tmpUVLevels", .rewritten, "8×16 entries written per mode (encode_analysis.go:1431) before :1450"),
    ("tmpBestDQ", .rewritten, "first evaluated mode always beats bestScore=MaxUint64, so set for every block (encode_analysis.go:1276,1368) before encode_frame.go:321"),
    ("tmpBestQ", .rewritten, "as tmpBestDQ (encode_analysis.go:1277,1369; read at encode_frame.go:301)"),
    ("tmpBestNz", .reset, ""),
    ("tmpAnSrc", .rewritten, "computeMBAlphaDCTWith fills the full 16×16 with replication (encode_analysis.go:412-424)"),
    ("tmpAnPred", .rewritten, "generateI16Prediction fills the full 16×16 (encode_analysis.go:489-546)"),
    ("tmpAnSrcU", .rewritten, "full 8×8 (encode_analysis.go:617-630)"),
    ("tmpAnSrcV", .rewritten, "full 8×8 (encode_analysis.go:617-630)"),
    ("tmpAnPredU", .rewritten, "full 8×8 (encode_analysis.go:665-670)"),
    ("tmpAnPredV", .rewritten, "full 8×8 (encode_analysis.go:665-670)"),
    ("statTopNz", .rewritten, "zeroed first in collectAllStats (encode_proba.go:176-178) and recordAllTokens (LP:1521-1523)"),
    ("statTopNzDC", .rewritten, "zeroed with statTopNz (encode_proba.go:179-181, LP:1524-1526)"),
    ("parallelRS", .reset, ""),
    ("skipTokens", .reset, ""),
    ("skipExportPlanes", .reset, ""),
    ("itTopY", .rewritten, "InitIterator sets all to 127 (encode_iterator.go:54-56)"),
    ("itTopU", .rewritten, "InitIterator (encode_iterator.go:57-59)"),
    ("itTopV", .rewritten, "InitIterator (encode_iterator.go:60-62)"),
    ("itTopModes", .rewritten, "InitIterator sets BDCPred (:63-65); writeMBModes zeroes it before using it as scratch (encode_syntax.go:352-355)"),
    ("itTopNZ", .rewritten, "NEVER READ: its only accessors SetNZ/GetNZContext have no callers; contents are not cleared on reuse — becomes stale the day they are used"),
    ("analysisAlphas", .rewritten, "analysis zeroes it, then computeAlphas writes every index (encode_analysis.go:40-43)"),
    ("segMapTmp", .rewritten, "smoothSegmentMap copies all w*h entries before the reads (encode_analysis.go:82-106)"),
    ("serialRowR", .rewritten, "extractRow writes all padW entries per row (LE:728-750)"),
    ("serialRowG", .rewritten, "as serialRowR"),
    ("serialRowB", .rewritten, "as serialRowR"),
    ("serialRowA", .rewritten, "as serialRowR"),
    ("serialPlanarR", .rewritten, "2·padW copied per row pair before AccumulateRGBA (LE:924-925)"),
    ("serialPlanarG", .rewritten, "LE:926-927"),
    ("serialPlanarB", .rewritten, "LE:928-929"),
    ("serialPlanarA", .rewritten, "filled with 0xff (no alpha, LE:915-919) or copied (LE:930-933) for every row pair"),
    ("serialTmpRGB", .rewritten, "AccumulateRGBA writes uvWidth*4 entries, all that ConvertRGBA32ToUV reads")]

def tokenBuffer : Annot where
  name := "lossy.TokenBuffer"
  fields := [
    ("pages", .reset, ""),
    ("curPage", .reset, ""),
    ("totalMB", .immutable, "mbW*mbH of the pool key (Init only)"),
    ("mbStart", .rewritten, "MarkMBStart is called for every macroblock, skipped ones included (encode_frame.go, encode_parallel.go, encode_proba.go; fix f2dc645), before EmitTokensPartitioned reads mbStart[k], mbStart[k+1]; the sentinel mbStart[totalMB] is set in EmitTokensPartitioned itself.  Was the finding history:lossy:partitions (corpus/history/lossy_partitions_mbstart.json)"),
    ("allPages", .rewritten, "page pointers retained; tokenPage.count zeroed in Reset/addPage and only tokens[0,count) are read by EmitTokens")]

def lossyDecoder : Annot where
  name := "lossy.Decoder"
  fields := [
    ("frmHdr", .reset, ""),
    ("picHdr", .reset, ""),
    ("filterHdr", .reset, ""),
    ("segHdr", .reset, ""),
    ("mbW", .reset, ""),
    ("mbH", .reset, ""),
    ("mbX", .reset, ""),
    ("mbY", .reset, ""),
    ("tlMBX", .reset, ""),
    ("tlMBY", .reset, ""),
    ("brMBX", .reset, ""),
    ("brMBY", .reset, ""),
    ("br", .reset, ""),
    ("parts", .reset, ""),
    ("numPartsMinusOne", .reset, ""),
    ("proba", .rewritten, "parseHeaders calls ResetProba (LD:291) then parseProba rewrites every band entry: nothing inherited from another file"),
    ("useSkipProba", .reset, ""),
    ("skipP", .reset, ""),
    ("dqm", .rewritten, "ParseQuant writes all 4 entries (decode_quant.go:35-65)"),
    ("filterType", .reset, ""),
    ("fstrengths", .rewritten, "precomputeFilterStrengths writes all [4][2] when filterType>0, otherwise never read; FILevel/HevThresh of level-0 entries are gated by FLimit==0 (decode_frame.go:296)"),
    ("intraT", .reset, ""),
    ("intraL", .reset, ""),
    ("yuvT", .reset, ""),
    ("mbInfo", .reset, ""),
    ("fInfo", .reset, ""),
    ("yuvB", .reset, ""),
    ("mbData", .reset, ""),
    ("cacheY", .reset, ""),
    ("cacheU", .reset, ""),
    ("cacheV", .reset, ""),
    ("cacheYStride", .reset, ""),
    ("cacheUVStride", .reset, ""),
    ("cacheYOff", .immutable, "declared, never referenced"),
    ("cacheUOff", .immutable, "declared, never referenced"),
    ("cacheVOff", .immutable, "declared, never referenced"),
    ("slab", .reset, ""),
    ("AlphaData", .reset, ""),
    ("dcScratch", .rewritten, "zeroed immediately before each use (decode_mb.go:332-335)")]

def parallelState : Annot where
  name := "lossy.parallelState"
  fields := [
    ("workers", .immutable, "slice header from construction; used as [:numWorkers]; contents: lossy.RowWorker"),
    ("rs", .immutable, "pointer from construction; contents: lossy.rowState"),
    ("topY", .rewritten, "encodeFrameParallel re-slices and fills with 127 before the workers start (LP:200-202)"),
    ("topU", .rewritten, "LP:203-205"),
    ("topV", .rewritten, "LP:206-208"),
    ("topModes", .rewritten, "filled with BDCPred (LP:209-211)"),
    ("topNz", .rewritten, "zeroed (LP:212-214)"),
    ("topNzDC", .rewritten, "zeroed (LP:215-217)"),
    ("nextRow", .reset, "")]

def rowState : Annot where
  name := "lossy.rowState"
  fields := [
    ("done", .reset, ""),
    ("waiters", .rewritten, "every Add(+1) in waitFor is paired with Add(-1) before it returns, and every waiter has returned (wg.Wait) before putParallelState: 0 at every Get (Webp.Impl.RowSync models exactly this)"),
    ("mu", .immutable, "unlocked whenever the state is idle"),
    ("cond", .immutable, "newRowSync only")]

def rowWorker : Annot where
  name := "lossy.RowWorker"
  fields := [
    ("yuvIn", .rewritten, "importBlockParallel (LP:431-452) fills both blocks with replication for every MB before any read"),
    ("yuvOut", .rewritten, "fillPredContextParallel (LP:455-560) writes all borders per MB; interiors written by Pred*Direct / copied from yuvOut2 before FTransformDirect reads"),
    ("yuvOut2", .rewritten, "refreshed from yuvOut each MB (LP:632, :754, :1037) before being read"),
    ("yuvP", .rewritten, "Method==2 only, and the parallel path needs Method>=3: unreachable; otherwise as VP8Encoder.yuvP"),
    ("tmpCoeffs", .rewritten, "FTransformDirect/FTransformWHT write all 16"),
    ("tmpQCoeffs", .rewritten, "QuantizeCoeffs/TrellisQuantizeBlock write out[0..15]"),
    ("tmpDQCoeffs", .rewritten, "DequantCoeffs writes all 16"),
    ("tmpDCCoeffs", .rewritten, "zeroed (LP:657) or all assigned before the WHT"),
    ("tmpWHTDQ", .rewritten, "all 16 (LP:698, :1367)"),
    ("tmpWHTBuf", .rewritten, "TransformWHT writes indices 16·i, only those are read"),
    ("tmpAllQ", .rewritten, "all 16 blocks written (LP:679) before :705/:719"),
    ("tmpACLevels", .rewritten, "256 entries written (LP:719) before isFlat"),
    ("tmpRecon", .rewritten, "ITransformDirect (LP:894/:995) writes the cells SSE4x4Direct/TDisto4x4 read"),
    ("tmpUVLevels", .rewritten, "8×16 written (LP:1075) before isFlat (LP:1092)"),
    ("tmpBestDQ", .rewritten, "first candidate always wins against bestScore=^0 (LP:920/:1021)"),
    ("tmpBestQ", .rewritten, "LP:921/:1022"),
    ("tmpBestNz", .rewritten, "LP:922/:1023"),
    ("topDerr", .rewritten, "NEVER READ in the parallel path (\"Skip DC error diffusion in parallel mode\", LP:1324); zeroed only by the worker of row 0"),
    ("leftDerr", .rewritten, "NEVER READ in the parallel path; zeroed per row (LP:284)")]

def importUVWorker : Annot where
  name := "lossy.importUVWorker"
  fields := [
    ("rowR", .rewritten, "importImage LE:870-884 writes [0,w) from the source and [w,padW) by replication, both rows of every pair, before the copies"),
    ("rowG", .rewritten, "as rowR"),
    ("rowB", .rewritten, "as rowR"),
    ("rowA", .rewritten, "as rowR (copied only if hasAlpha)"),
    ("planarR", .rewritten, "[0,2·padW) written per pair (LE:886-887); AccumulateRGBA reads only that range"),
    ("planarG", .rewritten, "LE:888-889"),
    ("planarB", .rewritten, "LE:890-891"),
    ("planarA", .rewritten, "no alpha: whole slice set to 0xff (LE:851-855); alpha: [0,2·padW) per pair (LE:892-895)"),
    ("tmpRGB", .rewritten, "AccumulateRGBA writes dst[0..uvWidth*4), exactly what ConvertRGBA32ToUV reads")]

def boolWriter : Annot where
  name := "bitio.BoolWriter"
  fields := [
    ("range_", .reset, ""),
    ("value", .reset, ""),
    ("run", .reset, ""),
    ("nbBits", .reset, ""),
    ("buf", .reset, ""),
    ("pos", .reset, ""),
    ("err", .reset, "")]

def losslessEncoder : Annot where
  name := "lossless.Encoder"
  fields := [
    ("config", .reset, ""),
    ("width", .reset, ""),
    ("height", .reset, ""),
    ("argb", .rewritten, "sized to len(argb) then fully overwritten by copy(enc.argb, argb) (E:170-175, :217-222); nil after release"),
    ("argbOrig", .reset, ""),
    ("transforms", .reset, ""),
    ("currentWidth", .reset, ""),
    ("usePalette", .reset, ""),
    ("paletteSize", .reset, ""),
    ("palette", .reset, ""),
    ("predictorBits", .reset, ""),
    ("crossColorBits", .reset, ""),
    ("histogramBits", .reset, ""),
    ("cacheBits", .reset, ""),
    ("useSubtractGreen", .reset, ""),
    ("usePredict", .reset, ""),
    ("useCrossColor", .reset, ""),
    ("hasAlpha", .reset, "set to false in acquireEncoder and recomputed from the input in Encode/EncodeToWriter"),
    ("hashChain", .rewritten, "see lossless.HashChain; replaced when too small (E:530-532)"),
    ("bestRefs", .rewritten, "BackwardRefs.Reset() (length 0) at E:541-545 before use; append only"),
    ("candidateRefs", .rewritten, "Reset() at EB:714 / E:719, and every generator starts with refs.Reset()"),
    ("traceRefs", .rewritten, "Reset() at EB:785 and EB:1476"),
    ("traceDistArray", .rewritten, "len-checked (E:559-561) and zeroed on [:pixCount] (EB:790-793); traceBackwards touches only that range"),
    ("huffScratch", .rewritten, "see lossless.HuffmanScratch"),
    ("brScratch", .rewritten, "see lossless.BackwardRefsScratch"),
    ("sortedPalette", .rewritten, "[:paletteSize] then full copy from enc.palette (E:430-436)"),
    ("deltaPalette", .rewritten, "[0] and 1..n-1 all assigned (E:824-833)"),
    ("histoImageBuf", .rewritten, "explicit zero loop then filled (E:606-619)"),
    ("subImageHisto", .rewritten, "Histogram.Clear() zeroes all five count arrays and the stats (E:727-731, EH:92-101)"),
    ("huffCodes", .rewritten, "[:numHistos], all 5 pointers per entry assigned (E:575-588)"),
    ("histoScratch", .rewritten, "see lossless.HistoScratch"),
    ("residualsBuf", .rewritten, "[:len(argb)]; copyImageWithPrediction writes out[y*w+x] for every pixel (EP:448-454, :356)"),
    ("storeCC", .rewritten, "ReuseColorCache sets all three fields and zeroes Colors (colorcache.go:75-87) at E:942"),
    ("writerBuf", .rewritten, "a new LosslessWriter per call (bits/used/cur = 0); bytes are stored, never OR-ed into the buffer; only buf[:cur] is returned, and Encode copies it out (E:195-196)")]

def backwardRefsScratch : Annot where
  name := "lossless.BackwardRefsScratch"
  fields := [
    ("Candidate", .reset, ""),
    ("Trace", .reset, ""),
    ("DistArray", .reset, ""),
    ("Histo", .immutable, "always nil: read at EB:709, never stored; a fresh NewHistogram per call (EB:717)"),
    ("CountsIni", .rewritten, "Lz77Box writes [pixCount-1] then every i down to 0 (EB:209-228)"),
    ("BoxHC", .rewritten, "zero loop then every i in 1..pixCount-1 assigned (EB:272-283, :362/:366)"),
    ("CostsBuf", .rewritten, "newCostManager: [:pixCount] all set to MaxFloat32 (EB:1099-1106)"),
    ("CC", .rewritten, "ReuseColorCache zeroes it immediately before every use (EB:78, :129, :613, :1363, :1469)"),
    ("CacheSizeHistoSlab", .rewritten, "CalculateBestCacheSize re-points Literal at the zeroed CacheSizeLitSlab and Clear()s every slab entry — Literal, Red, Blue, Alpha, Distance and the cached statistics — before the first count is added (fix 3b95a6c; before it only resetStats() ran and the Red/Blue/Alpha/Distance counts of earlier encodes leaked into the cache-size choice: finding history:lossless:q>75, corpus/history/lossless_cache_size_histograms.json).  The extractor still has to see that Clear(): Webp.Props.C11.known_defect_guards"),
    ("CacheSizeLitSlab", .reset, ""),
    ("CacheSizeColorSlab", .reset, "")]

def histoScratch : Annot where
  name := "lossless.HistoScratch"
  fields := [
    ("Slab", .rewritten, "allocateHistoSetReuse sets only Literal/paletteCodeBits/stats (EH:599-620) — same pattern as the CacheSizeHistoSlab defect — but histogramBuild→clearAll (EH:1631) Clear()s every entry before the first read; binID is read only after being written for every entry (EH:1503-1505)"),
    ("LitSlab", .rewritten, "re-pointed (EH:604-608) and zeroed by Clear() over the full h.Literal"),
    ("Ptrs", .rewritten, "every ptrs[i] assigned (EH:609-619)"),
    ("ImageHistoPtrs", .rewritten, "[:0] then append (EH:1418-1419)"),
    ("TileHead", .immutable, "always nil: `tiles` is set to nil (EH:1555) on the only path that could save it back"),
    ("TileTail", .immutable, "always nil (as TileHead)"),
    ("TileNext", .immutable, "always nil (as TileHead)"),
    ("Symbols", .rewritten, "fast path writes 0xFFFF everywhere then assigns (EH:1536-1554); remap path writes every i (EH:1279/1295, :1332-1334)"),
    ("ClusterSlab", .rewritten, "copyFrom copies all 11 Histogram fields (EH:140-152, :1615-1619)"),
    ("ClusterLitSlab", .rewritten, "copy(h.Literal, src.Literal) with equal lengths (EH:1617-1618)")]

def huffmanScratch : Annot where
  name := "lossless.HuffmanScratch"
  fields := [
    ("goodForRle", .immutable, "never referenced"),
    ("tokens", .immutable, "always nil: never assigned, so BuildCodeLengthTokensScratch always allocates"),
    ("treePool", .rewritten, "[:0] then append of full structs (EHu:276-283)"),
    ("treeIdx", .rewritten, "[:0] then append (EHu:284-291)"),
    ("trees", .rewritten, "AllocTree assigns NumSymbols, CodeLengths, Codes on each allocation (EHu:173-176)"),
    ("clBuf", .rewritten, "the slice handed out is zeroed on every allocation (EHu:177-182)"),
    ("cBuf", .rewritten, "as clBuf"),
    ("tNext", .reset, ""),
    ("clOff", .reset, ""),
    ("cOff", .reset, ""),
    ("heap", .rewritten, "pool and indices assigned on every iteration (EHu:299-300)")]

def hashChain : Annot where
  name := "lossless.HashChain"
  fields := [
    ("OffsetLength", .rewritten, "callers zero [0,pixelCount) (E:534-536, :708-710, EB:274-276) and Fill writes every index 0..size-1; the tail [pixelCount:hc.size) stays stale after a larger image but every reader is bounded by xsize*ysize and every stored match ends at ≤ size-1"),
    ("size", .immutable, "NewHashChain only; the object is replaced when too small"),
    ("hashToFirstIndex", .reset, ""),
    ("chainBuf", .rewritten, "fillParallel: [:size] then copy from OffsetLength (HC:325-330)")]

def losslessDecoder : Annot where
  name := "lossless.Decoder"
  fields := [
    ("br", .reset, ""),
    ("Width", .reset, ""),
    ("Height", .reset, ""),
    ("HasAlpha", .reset, ""),
    ("transformWidth", .reset, ""),
    ("pixels", .rewritten, "success implies every position of [0,numPixTrans) was stored (DI:705); the tail of a packed palette image is overwritten by colorIndexInverseTransform before any read (D:166-170)"),
    ("argbCache", .reset, ""),
    ("transformBuf", .rewritten, "each inverse transform writes its whole output before the buffers swap (D:174-178, DT:137-149)"),
    ("hdr", .reset, ""),
    ("transforms", .rewritten, "readTransform sets Type, XSize, YSize, Data and (where read) Bits (DT:32-63); entries ≥ nextTransform are never read"),
    ("nextTransform", .reset, ""),
    ("transformsSeen", .reset, ""),
    ("codeLengthsBuf", .rewritten, "zero loop on [:n] (DI:17-21, :91-95)"),
    ("huffScratch", .rewritten, "see lossless.HuffmanTableScratch"),
    ("colorCacheBuf", .rewritten, "zero loop (D:254-258)"),
    ("htreeGroupsBuf", .rewritten, "HTreeGroup{} per reused entry (DI:244-249)"),
    ("recursionDepth", .reset, "")]

def huffmanTableScratch : Annot where
  name := "lossless.HuffmanTableScratch"
  fields := [
    ("sorted", .reset, ""),
    ("tableSlab", .rewritten, "the handed-out segment is zeroed and 3-index sliced (H:90-96); complete or single-symbol codes fill the whole table"),
    ("slabOff", .reset, "")]

def argbBuf : Annot where
  name := "webp.argbBuf"
  fields := [
    ("data", .rewritten, "[:w*h]; the NRGBA, RGBA and generic At() branches all write argb[y*w+x] for every pixel (encode.go:632-670, :699-736); lossless.Encode copies it before the Put")]

/-- every pooled type, in the extractor's order -/
def all : List Annot :=
  [vp8Encoder, tokenBuffer, lossyDecoder, parallelState, rowState, rowWorker, importUVWorker,
   boolWriter, losslessEncoder, backwardRefsScratch, histoScratch, huffmanScratch, hashChain,
   losslessDecoder, huffmanTableScratch, argbBuf]

/-- all field names, in order -/
def Annot.names (a : Annot) : List String := a.fields.map (·.1)
/-- the fields of one class, in order -/
def Annot.ofClass (a : Annot) (c : Cls) : List String :=
  (a.fields.filter (fun e => e.2.1 == c)).map (·.1)
def Annot.reset (a : Annot) : List String := a.ofClass .reset
def Annot.rewritten (a : Annot) : List String := a.ofClass .rewritten
def Annot.immutable (a : Annot) : List String := a.ofClass .immutable
def Annot.stale (a : Annot) : List String := a.ofClass .stale

end Webp.Impl.PoolFields
