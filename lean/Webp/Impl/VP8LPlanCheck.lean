import Webp.Impl.VP8LEntropyMeta
import Webp.Impl.LosslessAPI
/-
  Executable (Bool) checker for "this stream plan is valid and stands for this ARGB image" — the
  hypothesis `ValidPlanFor` of the C01 API theorem (`Webp.Props.C01Full.encode_decode_roundtrip`).

  The driver (`Driver/C01Full.lean`, suite `c01full`) reconstructs a plan from the bytes of a real
  `webp.Encode` output and evaluates `validPlanFor`; `Webp.Props.C01Full.validPlanFor_sound` proves
        validPlanFor w h argb sp = true  →  ValidPlanFor w h argb sp,
  so a `true` answer plus the theorem give the round trip for that input without running a decoder.

  Every definition here is the Bool twin of a `Prop` of `Webp.Proofs.VP8LEntropyStream` /
  `Webp.Proofs.C01Full*` (those files may not be imported by the driver).  Core Lean only.
-/
namespace Webp.Impl.PlanCheck
open Webp.Go (Res)
open Webp.Spec.VP8L
open Webp.Impl.VP8LEntropy
open Webp.Impl.LTransform (prefixEncode distanceToPlaneCode applyForward forward1 modeFwd)
open Webp.Spec.LTransform (Xf modeInv)

def isOk {ε α : Type} : Res ε α → Bool
  | .ok _ => true
  | _ => false

/-! ### one prefix code -/

def usedList (lens : Array Nat) : List Nat := (List.range lens.size).filter fun i => lens.getD i 0 > 0

def isSimple (lens : Array Nat) : Bool :=
  (usedList lens).isEmpty || (decide ((usedList lens).length ≤ 2) && (usedList lens).all fun i => decide (i < 256))

def lensOK (lens : Array Nat) : Bool := (lens.all fun l => decide (l = 0)) || isOk (buildCode lens)

def vecValid (n : Nat) (lens cl : Array Nat) : Bool :=
  decide (lens.size = n) && (lens.all fun l => decide (l ≤ 15)) && lensOK lens &&
  (isSimple lens ||
    (decide (cl.size = 19) && (cl.all fun l => decide (l ≤ 7)) && isOk (buildCode cl) &&
      (buildCodeLengthTokens lens).toList.all fun t => decide (0 < cl.getD t.code 0)))

def alphabetSize (cb : Nat) : Nat → Nat
  | 0 => greenAlphabetSize cb
  | 4 => numDistanceCodes
  | _ => 256

def vecs5 (cb : Nat) (lens5 cl5 : List (Array Nat)) : Bool :=
  decide (lens5.length = 5) && decide (cl5.length = 5) &&
  (List.range 5).all fun i => vecValid (alphabetSize cb i) (lens5.getD i #[]) (cl5.getD i #[])

def cacheOK (cb : Nat) : Bool := decide (cb = 0) || (decide (1 ≤ cb) && decide (cb ≤ 11))

/-! ### tokens -/

def refToken : PixOrCopy → Token
  | .literal argb => .literal argb
  | .cacheIdx idx => .cache idx
  | .copy len dist => .copy len dist

def tokenValid (w : Nat) (g r b a d : Array Nat) : Token → Bool
  | .literal argb =>
    decide (g.getD ((argb >>> 8) &&& 0xff).toNat 0 ≠ 0) && decide (r.getD ((argb >>> 16) &&& 0xff).toNat 0 ≠ 0) &&
    decide (b.getD (argb &&& 0xff).toNat 0 ≠ 0) && decide (a.getD ((argb >>> 24) &&& 0xff).toNat 0 ≠ 0)
  | .cache idx => decide (g.getD (256 + 24 + idx) 0 ≠ 0)
  | .copy len dist =>
    decide (1 ≤ len) && decide (len ≤ 4096) && decide (1 ≤ dist) && decide (distanceToPlaneCode w dist ≤ 2 ^ 20) &&
    decide (g.getD (256 + (prefixEncode len).1) 0 ≠ 0) &&
    decide (d.getD (prefixEncode (distanceToPlaneCode w dist)).1 0 ≠ 0)

/-- the pixels a token list produces, if it produces exactly `w * h` pixels with no token left -/
def execOK (w h cb : Nat) (toks : List Token) : Option (Array UInt32) :=
  match refDecode listSource (fun _ => 0) w h cb toks with
  | .ok (px, []) => some px
  | _ => none

/-- the pixels of a plan (`#[]` if the token list does not decode) -/
def planPixels (cb : Nat) (p : ImagePlan) : Array UInt32 :=
  match refDecode listSource (fun _ => 0) p.width p.height cb (p.refs.map refToken) with
  | .ok (px, _) => px
  | _ => #[]

def imageValid (cb : Nat) (p : ImagePlan) : Bool :=
  decide (0 < p.width) && cacheOK cb && vecs5 cb p.lens5 p.cl5 &&
  ((p.refs.map refToken).all fun t => tokenValid p.width (p.lens5.getD 0 #[]) (p.lens5.getD 1 #[])
    (p.lens5.getD 2 #[]) (p.lens5.getD 3 #[]) (p.lens5.getD 4 #[]) t) &&
  (execOK p.width p.height cb (p.refs.map refToken)).isSome

/-! ### transforms -/

def xfKind : XfPlan → Nat
  | .predictor .. => 0
  | .crossColor .. => 1
  | .subtractGreen => 2
  | .colorIndexing .. => 3

def xfWidthAfter (w : Nat) : XfPlan → Nat
  | .colorIndexing n _ => packedWidth w n
  | _ => w

def xfValid (w h : Nat) : XfPlan → Bool
  | .predictor bits data => decide (2 ≤ bits) && decide (bits ≤ 9) && decide (data.width = subSampleSize w bits) &&
      decide (data.height = subSampleSize h bits) && imageValid 0 data
  | .crossColor bits data => decide (2 ≤ bits) && decide (bits ≤ 9) && decide (data.width = subSampleSize w bits) &&
      decide (data.height = subSampleSize h bits) && imageValid 0 data
  | .subtractGreen => true
  | .colorIndexing n data => decide (1 ≤ n) && decide (n ≤ 256) && decide (data.width = n) &&
      decide (data.height = 1) && imageValid 0 data

def xfsValid (h : Nat) : Nat → List XfPlan → Bool
  | _, [] => true
  | w, t :: ts => xfValid w h t && xfsValid h (xfWidthAfter w t) ts

def xfsWidth : Nat → List XfPlan → Nat
  | w, [] => w
  | w, t :: ts => xfsWidth (xfWidthAfter w t) ts

def kindsDistinct : List Nat → Bool
  | [] => true
  | k :: ks => (ks.all fun k' => decide (k ≠ k')) && kindsDistinct ks

/-- the transform parameters the plan's transform data decodes to -/
def xfOf : XfPlan → Xf
  | .predictor bits data => .predictor bits (planPixels 0 data)
  | .crossColor bits data => .crossColor bits (planPixels 0 data)
  | .subtractGreen => .subtractGreen
  | .colorIndexing _ data => .colorIndex (deltaDecodePalette (planPixels 0 data))

/-! ### the main image -/

def metaIndexOf (px : UInt32) : Nat := ((px >>> 8) &&& 0xffff).toNat

def tokLen : Token → Nat
  | .copy l _ => l
  | _ => 1

def lensAt (p : MainPlan) (pos i : Nat) : Array Nat :=
  (p.groups.getD (p.histoIdxAt pos) default).lens5.getD i #[]

/-- tail-recursive: every token is expressible with the histogram at its start position -/
def tokensValidFrom (p : MainPlan) : Nat → List Token → Bool
  | _, [] => true
  | pos, t :: ts =>
    if tokenValid p.width (lensAt p pos 0) (lensAt p pos 1) (lensAt p pos 2) (lensAt p pos 3) (lensAt p pos 4) t
    then tokensValidFrom p (pos + tokLen t) ts else false

def entropyOK (p : MainPlan) : Bool :=
  decide (2 ≤ p.histoBits) && decide (p.histoBits ≤ 9) &&
  decide (p.entropy.width = subSampleSize p.width p.histoBits) &&
  decide (p.entropy.height = subSampleSize p.height p.histoBits) &&
  imageValid 0 p.entropy &&
  decide (p.symbols = (planPixels 0 p.entropy).map metaIndexOf) &&
  decide (p.groups.length = p.symbols.foldl max 0 + 1)

def mainValid (cb : Nat) (p : MainPlan) : Bool :=
  decide (0 < p.width) && cacheOK cb && decide (0 < p.groups.length) &&
  (p.groups.all fun g => vecs5 cb g.lens5 g.cl5) &&
  (decide (p.groups.length ≤ 1) || entropyOK p) &&
  tokensValidFrom p 0 (p.refs.map refToken) &&
  (execOK p.width p.height cb (p.refs.map refToken)).isSome

def streamValid (sp : StreamPlanMeta) : Bool :=
  decide (1 ≤ sp.width) && decide (sp.width ≤ 16384) && decide (1 ≤ sp.height) && decide (sp.height ≤ 16384) &&
  kindsDistinct (sp.transforms.map xfKind) && xfsValid sp.height sp.width sp.transforms &&
  decide (sp.main.width = xfsWidth sp.width sp.transforms) && decide (sp.main.height = sp.height) &&
  mainValid sp.cacheBits sp.main

/-! ### the plan stands for the image -/

def planXfs (sp : StreamPlanMeta) : List Xf := sp.transforms.map xfOf

def stepValid (h : Nat) : Xf → Nat → Array UInt32 → Bool
  | .predictor _ tiles, _, _ => tiles.all fun t => decide (min (modeFwd t) 14 = min (modeInv t) 14)
  | .crossColor _ _, _, _ => true
  | .subtractGreen, _, _ => true
  | .colorIndex pal, w, px => decide (px.size = w * h) && (px.all fun p => pal.contains p) && decide (pal.size ≤ 256)

def chainValid (h : Nat) : List Xf → Nat → Array UInt32 → Bool
  | [], _, _ => true
  | t :: ts, w, px => stepValid h t w px && chainValid h ts (t.widthAfter w) (forward1 t w h px)

def planEncodes (sp : StreamPlanMeta) (argb : Array UInt32) : Bool :=
  decide (argb.size = sp.width * sp.height) &&
  decide (planPixels sp.cacheBits sp.main.asImage = applyForward sp.height (planXfs sp) sp.width argb) &&
  chainValid sp.height (planXfs sp) sp.width argb

/-! ### the container's size arithmetic -/

def optLen (d : Webp.Go.Bytes) : Nat := if d.length > 0 then 8 + d.length + d.length % 2 else 0

/-- Bool twin of `Webp.Props.C01Full.ContainerSizeOK` (`SimpleSizeOK` / `SizesOK` of Props/C02.lean) -/
def containerSizeOK (m : Webp.Impl.Writer.Meta) (bs : Webp.Go.Bytes) : Bool :=
  if m.any then
    decide (22 + optLen m.icc + optLen [] + (8 + bs.length + bs.length % 2) + optLen m.exif + optLen m.xmp
      ≤ 4294967287) &&
    decide (m.icc.length ≤ Webp.Impl.Parser.maxMetadataSize) &&
    decide (m.exif.length ≤ Webp.Impl.Parser.maxMetadataSize) &&
    decide (m.xmp.length ≤ Webp.Impl.Parser.maxMetadataSize)
  else decide (12 + (bs.length + bs.length % 2) ≤ Webp.Impl.Parser.maxChunkPayload)

/-- `Encode`'s own dimension check -/
def dimsOK (w h : Nat) : Bool := decide (1 ≤ w) && decide (w ≤ 16383) && decide (1 ≤ h) && decide (h ≤ 16383)

/-- **the per-input certificate** -/
def validPlanFor (w h : Nat) (argb : Array UInt32) (sp : StreamPlanMeta) : Bool :=
  decide (sp.width = w) && decide (sp.height = h) && streamValid sp && planEncodes sp argb

end Webp.Impl.PlanCheck
