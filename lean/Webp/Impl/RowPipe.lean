/-
  Webp.Impl.RowPipe — abstract model of the row-pipelined VP8 encoder
  (/repo/internal/lossy/encode_parallel.go: `encodeFrameParallel`, `encodeRow`,
  `recordAllTokens`).  Core Lean only.

  What is modelled, statement by statement:

  * `ps.nextRow` (atomic ticket counter)                         → `State.next`
      worker loop  `y := int(ps.nextRow.Add(1) - 1); if y >= mbH { return }`   → action `claim w`
      (a failing claim still increments the counter, exactly as `Add(1)` does).
  * `rs.rows[y].done` (atomic progress counter of row y)        → `State.done y`
      `rs.signal(y, x+1)` after every macroblock                → `done y := x+1` in `procEff`
      `rs.waitFor(y-1, min(x+2, mbW))` before every macroblock with `y > 0`
                                                                → guard `procGuard` of `process`
      (the refinement of this guard by mutex/cond/atomics is `Webp.Impl.RowSync`).
  * shared context arrays `topY/topU/topV/topModes/topNz/topNzDC`, all indexed by the macroblock
    column                                                      → `State.top : Nat → Val`
      column `x` of all six arrays is one abstract cell.  `encodeRow` for macroblock (y,x)
        reads  column x   (fillPredContextParallel, pickBestModeParallel `topModes[4x..4x+3]`,
                           `topNz[x]`, `topNzDC[x]`, exportParallel `topLeft* = top*[16x+15]`),
        reads  column x+1 iff `x < mbW-1` (fillPredContextParallel: `topY[(x+1)*16 .. +3]`,
                           the I4 top-right pixels; for the last column it replicates column x),
        writes column x   (exportParallel, updateNZContextParallel)
      and nothing else of the shared arrays.  For `y = 0` the Go code does not read `topY/U/V`
      and `topModes` but uses the constants the arrays were initialised with; reading the
      (still initial) cell is the same thing.
  * the locals of `encodeRow` (`leftY/U/V`, `leftModes`, `topLeftY/U/V`, `leftNz`, `leftNzDC`)
                                                                → `Ctx`, carried in `WState.at`
      re-initialised at every row start (`left0`).
  * everything else a macroblock touches is private to it or read-only during Phase A:
      `enc.mbInfo[y*mbW+x]`, the 16×16 (8×8) block of `enc.yPlane/uPlane/vPlane` at (x,y)
      (imported from and exported to the *same* block, never a neighbour's), `enc.dqm`,
      `enc.proba` (Phase B skips `refreshProbas` while `enc.parallelRS != nil`), `enc.config`.
      The per-worker scratch (`w.yuvIn/yuvOut/yuvOut2/tmp*`) is fully (re)written from the
      three inputs above before it is read (audited; see the report for the two latent
      exceptions `w.yuvP` and `w.topDerr`, both dead on the paths reachable today).
      Hence one macroblock is an *uninterpreted* function
        `f y x top[x] (top[x+1])? left = (newTop[x] , left')`
      whose first component also stands for everything written to `mbInfo`/planes (`out y x`).
  * Phase B (`recordAllTokens`): `enc.parallelRS.waitFor(it.Y, mbW)` at the first column of
    every row, rows in order                                    → action `record`.
  * `wg.Wait()`                                                 → `Final`.
-/
namespace Webp.Impl.RowPipe

/-- point update of a function on `Nat` (a write to one cell of a shared array) -/
def upd {α : Type} (g : Nat → α) (i : Nat) (v : α) : Nat → α :=
  fun j => if j = i then v else g j

/-- point update of a two-dimensional table -/
def upd2 {α : Type} (g : Nat → Nat → α) (i j : Nat) (v : α) : Nat → Nat → α :=
  fun a b => if a = i ∧ b = j then v else g a b

/-- Parameters: grid size, number of workers, and the uninterpreted macroblock function. -/
structure Params (Val Ctx : Type) where
  mbW : Nat
  mbH : Nat
  n   : Nat
  /-- `f y x top topRight? left = (value written to top[x] and out y x, new left context)` -/
  f   : Nat → Nat → Val → Option Val → Ctx → Val × Ctx
  /-- initial content of every shared top cell (127 / BDCPred / 0) -/
  border : Val
  /-- left context at the start of every row (129 / BDCPred / topLeft 127 / nz 0) -/
  left0  : Ctx

/-- worker goroutine: between rows, inside row `y` about to process column `x`, or returned -/
inductive WState (Ctx : Type) where
  | idle
  | at (y x : Nat) (l : Ctx)
  | exited
  deriving DecidableEq

structure State (Val Ctx : Type) where
  /-- `ps.nextRow` -/
  next   : Nat
  /-- `rs.rows[y].done` -/
  done   : Nat → Nat
  worker : Nat → WState Ctx
  /-- shared top context, one cell per macroblock column -/
  top    : Nat → Val
  /-- ghost: which row wrote `top c` last (`none` = still the initial border) -/
  ver    : Nat → Option Nat
  /-- per-macroblock results (`mbInfo`, reconstructed planes) -/
  out    : Nat → Nat → Option Val
  /-- Phase B: number of rows whose tokens have been recorded -/
  recd   : Nat

variable {Val Ctx : Type}

def init (P : Params Val Ctx) : State Val Ctx where
  next := 0
  done := fun _ => 0
  worker := fun _ => .idle
  top := fun _ => P.border
  ver := fun _ => none
  out := fun _ _ => none
  recd := 0

/-- `waitX := int32(x + 2); if waitX > int32(mbW) { waitX = int32(mbW) }` -/
def waitX (mbW x : Nat) : Nat := min (x + 2) mbW

/-- `if y > 0 { rs.waitFor(y-1, waitX) }` has returned -/
def procGuardB (mbW : Nat) (done : Nat → Nat) (y x : Nat) : Bool :=
  y == 0 || decide (waitX mbW x ≤ done (y - 1))

def procGuard (mbW : Nat) (done : Nat → Nat) (y x : Nat) : Prop :=
  y = 0 ∨ waitX mbW x ≤ done (y - 1)

theorem procGuardB_iff (mbW : Nat) (done : Nat → Nat) (y x : Nat) :
    procGuardB mbW done y x = true ↔ procGuard mbW done y x := by
  simp [procGuardB, procGuard]

instance (mbW : Nat) (done : Nat → Nat) (y x : Nat) : Decidable (procGuard mbW done y x) :=
  decidable_of_iff _ (procGuardB_iff mbW done y x)

/-- the top-right cell, read only when there is a column to the right -/
def topRight (mbW : Nat) (top : Nat → Val) (x : Nat) : Option Val :=
  if x + 1 < mbW then some (top (x + 1)) else none

/-- version stamp a fresh read by row `y` must see: the row above, or the border for row 0 -/
def verOf (y : Nat) : Option Nat := if y = 0 then none else some (y - 1)

/-! ### effects of the four actions -/

def claimEff (P : Params Val Ctx) (s : State Val Ctx) (w : Nat) : State Val Ctx :=
  if s.next < P.mbH then
    { s with next := s.next + 1, worker := upd s.worker w (.at s.next 0 P.left0) }
  else
    { s with next := s.next + 1, worker := upd s.worker w .exited }

def procEff (P : Params Val Ctx) (s : State Val Ctx) (w y x : Nat) (l : Ctx) : State Val Ctx :=
  let r := P.f y x (s.top x) (topRight P.mbW s.top x) l
  { s with
    done := upd s.done y (x + 1)
    worker := upd s.worker w (.at y (x + 1) r.2)
    top := upd s.top x r.1
    ver := upd s.ver x (some y)
    out := upd2 s.out y x (some r.1) }

def finEff (s : State Val Ctx) (w : Nat) : State Val Ctx :=
  { s with worker := upd s.worker w .idle }

def recEff (s : State Val Ctx) : State Val Ctx :=
  { s with recd := s.recd + 1 }

inductive Action where
  | claim (w : Nat)
  | process (w : Nat)
  | finishRow (w : Nat)
  | record
  deriving Repr, DecidableEq

/-- labelled transition relation -/
inductive Step (P : Params Val Ctx) : State Val Ctx → Action → State Val Ctx → Prop where
  | claim {s : State Val Ctx} {w : Nat} :
      w < P.n → s.worker w = .idle → Step P s (.claim w) (claimEff P s w)
  | process {s : State Val Ctx} {w y x : Nat} {l : Ctx} :
      w < P.n → s.worker w = .at y x l → x < P.mbW → procGuard P.mbW s.done y x →
      Step P s (.process w) (procEff P s w y x l)
  | finishRow {s : State Val Ctx} {w y : Nat} {l : Ctx} :
      w < P.n → s.worker w = .at y P.mbW l → Step P s (.finishRow w) (finEff s w)
  | record {s : State Val Ctx} :
      s.recd < P.mbH → s.done s.recd = P.mbW → Step P s .record (recEff s)

inductive Reachable (P : Params Val Ctx) : State Val Ctx → Prop where
  | init : Reachable P (init P)
  | step {s s' : State Val Ctx} {a : Action} : Reachable P s → Step P s a s' → Reachable P s'

/-- all workers have returned (`wg.Wait()` passes) and Phase B has recorded every row -/
def Final (P : Params Val Ctx) (s : State Val Ctx) : Prop :=
  (∀ w, w < P.n → s.worker w = .exited) ∧ s.recd = P.mbH

/-- executable version of `Step` -/
def step? (P : Params Val Ctx) (s : State Val Ctx) : Action → Option (State Val Ctx)
  | .claim w =>
    if w < P.n then
      match s.worker w with
      | .idle => some (claimEff P s w)
      | _ => none
    else none
  | .process w =>
    if w < P.n then
      match s.worker w with
      | .at y x l =>
        if x < P.mbW ∧ procGuard P.mbW s.done y x then some (procEff P s w y x l) else none
      | _ => none
    else none
  | .finishRow w =>
    if w < P.n then
      match s.worker w with
      | .at _ x _ => if x = P.mbW then some (finEff s w) else none
      | _ => none
    else none
  | .record =>
    if s.recd < P.mbH ∧ s.done s.recd = P.mbW then some (recEff s) else none

def run? (P : Params Val Ctx) : State Val Ctx → List Action → Option (State Val Ctx)
  | s, [] => some s
  | s, a :: as => match step? P s a with
    | some s' => run? P s' as
    | none => none

def WState.isExited : WState Ctx → Bool
  | .exited => true
  | _ => false

/-- executable version of `Final` -/
def finalB (P : Params Val Ctx) (s : State Val Ctx) : Bool :=
  (List.range P.n).all (fun w => (s.worker w).isExited) && s.recd == P.mbH

/-! ### termination measure -/

def sumTo (g : Nat → Nat) : Nat → Nat
  | 0 => 0
  | n + 1 => sumTo g n + g n

/-- steps a worker still owes by itself: `idle` one (failing) claim, inside a row additionally
    its `finishRow` -/
def wpot : WState Ctx → Nat
  | .idle => 1
  | .at _ _ _ => 2
  | .exited => 0

/-- number of steps still to be taken; every action decreases it by exactly one -/
def measure (P : Params Val Ctx) (s : State Val Ctx) : Nat :=
  2 * (P.mbH - min s.next P.mbH) + sumTo (fun w => wpot (s.worker w)) P.n
    + sumTo (fun y => P.mbW - s.done y) P.mbH + (P.mbH - s.recd)

/-! ### the serial encoder: one raster-order loop with the same `f` -/

structure SerState (Val : Type) where
  top : Nat → Val
  out : Nat → Nat → Option Val

/-- the first `k` macroblocks of row `y`, left to right, starting from `s` -/
def serCols (P : Params Val Ctx) (y : Nat) (s : SerState Val) : Nat → SerState Val × Ctx
  | 0 => (s, P.left0)
  | k + 1 =>
    let p := serCols P y s k
    let r := P.f y k (p.1.top k) (topRight P.mbW p.1.top k) p.2
    ({ top := upd p.1.top k r.1, out := upd2 p.1.out y k (some r.1) }, r.2)

/-- the first `y` rows, top to bottom -/
def serRows (P : Params Val Ctx) : Nat → SerState Val
  | 0 => { top := fun _ => P.border, out := fun _ _ => none }
  | y + 1 => (serCols P y (serRows P y) P.mbW).1

/-- the serial encoder immediately before macroblock (y,x): its top array, results so far, and
    its left context -/
def serialBefore (P : Params Val Ctx) (y x : Nat) : SerState Val × Ctx :=
  serCols P y (serRows P y) x

/-- what the single-threaded raster-order encoder computes for every macroblock -/
def serialOut (P : Params Val Ctx) : Nat → Nat → Option Val := (serRows P P.mbH).out

/-! ### trace validation (no data, guards only)

  Events come from the `verif` hooks of the real encoder:
    `claim w y`  — worker `w` obtained ticket `y` from `nextRow.Add(1)-1` (`y ≥ mbH`: it returns);
    `proc w y x` — worker `w` is past `waitFor` for macroblock (y,x) and has not yet signalled it;
    `record y`   — Phase B is past `waitFor(y, mbW)`.
  The checker keeps exactly the guard-relevant part of `State` in arrays and applies the guards
  of `Step` (`procGuardB` is the very function used by `Step.process`).  `finishRow` has no
  event: a worker that is at column `mbW` finishes its row implicitly at its next claim.
  `strict = true` additionally demands that claims appear in ticket order (`y = next`), which is
  what `Step.claim` does; the default is non-strict because a hook can only log *after* the
  atomic `Add`, so two claims may be logged in the opposite order of their tickets.
-/

inductive Event where
  | claim (w y : Nat)
  | proc (w y x : Nat)
  | record (y : Nat)
  deriving Repr, DecidableEq

/-- worker table entry of the checker: `none` = between rows, `some (y, x)` = inside row y at x -/
structure Chk where
  next    : Nat
  done    : Array Nat            -- size mbH
  claimed : Array Bool           -- size mbH
  workers : Array (Option (Nat × Nat))
  exited  : Array Bool
  recd    : Nat

def Chk.init (mbH : Nat) : Chk where
  next := 0
  done := Array.replicate mbH 0
  claimed := Array.replicate mbH false
  workers := #[]
  exited := #[]
  recd := 0

def Chk.grow (c : Chk) (w : Nat) : Chk :=
  if w < c.workers.size then c else
    { c with workers := c.workers ++ Array.replicate (w + 1 - c.workers.size) none,
             exited := c.exited ++ Array.replicate (w + 1 - c.exited.size) false }

/-- one event; `none` = the event violates a guard of the model -/
def Chk.step (strict : Bool) (mbW mbH : Nat) (c0 : Chk) : Event → Option Chk
  | .claim w y =>
    let c := c0.grow w
    if c.exited.getD w false then none else
    -- implicit finishRow: the worker must be between rows or have completed its row
    let free := match c.workers.getD w none with
      | none => true
      | some (_, x) => x == mbW
    if !free then none else
    if strict && y != c.next then none else
    if y < mbH then
      if c.claimed.getD y true then none else
      some { c with next := c.next + 1, claimed := c.claimed.setIfInBounds y true,
                    workers := c.workers.setIfInBounds w (some (y, 0)) }
    else
      some { c with next := c.next + 1, workers := c.workers.setIfInBounds w none,
                    exited := c.exited.setIfInBounds w true }
  | .proc w y x =>
    let c := c0.grow w
    match c.workers.getD w none with
    | some (y', x') =>
      if y' == y && x' == x && x < mbW && y < mbH
          && procGuardB mbW (fun r => c.done.getD r 0) y x then
        some { c with done := c.done.setIfInBounds y (x + 1),
                      workers := c.workers.setIfInBounds w (some (y, x + 1)) }
      else none
    | none => none
  | .record y =>
    if y == c0.recd && y < mbH && c0.done.getD y 0 == mbW then
      some { c0 with recd := c0.recd + 1 }
    else none

def Chk.run (strict : Bool) (mbW mbH : Nat) : Chk → Nat → List Event → Option Nat
  | _, _, [] => none
  | c, i, e :: es =>
    match c.step strict mbW mbH e with
    | some c' => Chk.run strict mbW mbH c' (i + 1) es
    | none => some i

/-- index of the first event that violates a guard of the model, `none` if the trace is fine -/
def firstBad (strict : Bool) (mbW mbH : Nat) (events : List Event) : Option Nat :=
  Chk.run strict mbW mbH (Chk.init mbH) 0 events

/-- `true` iff every event of the recorded trace satisfies the RowPipe guards -/
def checkTrace (mbW mbH : Nat) (events : List Event) : Bool :=
  (firstBad false mbW mbH events).isNone

/-- as `checkTrace`, claims must also be in ticket order -/
def checkTraceStrict (mbW mbH : Nat) (events : List Event) : Bool :=
  (firstBad true mbW mbH events).isNone

/-! ### the same validation, executed by the model itself

  `modelFirstBad` replays a trace with `step?` on the data-free instance of the model (strict
  claim order).  It is the reference for the array-based checker above: an accepted trace is a
  path of `Step` (`Webp.Props.C10.modelTrace_reachable`), and the two checkers are compared on
  samples in `Props/C10.lean`.  Cost is quadratic in the trace length (closure chains), which is
  why the driver uses the array version. -/

def unitParams (mbW mbH n : Nat) : Params Unit Unit where
  mbW := mbW
  mbH := mbH
  n := n
  f := fun _ _ _ _ _ => ((), ())
  border := ()
  left0 := ()

/-- the actions an event stands for (a claim by a worker at the end of its row includes the
    `finishRow`), or `none` if the event does not fit the worker's state -/
def eventActions (P : Params Unit Unit) (s : State Unit Unit) : Event → Option (List Action)
  | .claim w y =>
    match s.worker w with
    | .idle => if y = s.next then some [.claim w] else none
    | .at _ x _ => if x = P.mbW ∧ y = s.next then some [.finishRow w, .claim w] else none
    | .exited => none
  | .proc w y x =>
    match s.worker w with
    | .at y' x' _ => if y' = y ∧ x' = x then some [.process w] else none
    | _ => none
  | .record y => if y = s.recd then some [.record] else none

def modelRun (P : Params Unit Unit) : State Unit Unit → Nat → List Event → Option Nat × State Unit Unit
  | s, _, [] => (none, s)
  | s, i, e :: es =>
    match eventActions P s e with
    | none => (some i, s)
    | some as =>
      match run? P s as with
      | none => (some i, s)
      | some s' => modelRun P s' (i + 1) es

def eventWorker : Event → Nat
  | .claim w _ => w
  | .proc w _ _ => w
  | .record _ => 0

/-- number of workers mentioned by a trace -/
def traceWorkers (events : List Event) : Nat :=
  events.foldl (fun m e => max m (eventWorker e + 1)) 1

def modelFirstBad (mbW mbH : Nat) (events : List Event) : Option Nat :=
  let P := unitParams mbW mbH (traceWorkers events)
  (modelRun P (init P) 0 events).1

end Webp.Impl.RowPipe
