import Webp.Go.Basic
/-
  Implementation model of the VP8 boolean (arithmetic) coder of /repo/internal/bitio:

    writer_bool.go   BoolWriter : PutBit, PutBitUniform, PutBits, PutSignedBits, flush, Finish
                                  (PutBitBatchPacked is the same statements with the state in locals;
                                   it is tied to `putBit` by the suite "boolcoder")
    reader_bool.go   BoolReader : loadNewBytes, loadFinalBytes, GetBit, GetBitAlt, GetSigned, GetValue,
                                  GetSignedValue, EOF

  statement by statement.  Core Lean only.

  Conventions and the domain in which the model is exact
  -------------------------------------------------------
  * `range` is Go's `range_` (the interval width minus one), `value` Go's `value`; both are `int32` in
    Go and `Nat` here.  From `newWriter` and with `prob ≤ 256` neither leaves `[0, 2^25)`
    (`Webp.Proofs.BoolWriter`: `value + range + 1 ≤ 3·2^(nbBits+15)` with `nbBits ≤ 7`), so no `int32`
    operation wraps; the only way out of the non-negative numbers is `range_ = −1` for `prob = 256`,
    `bit ≠ 0`, and Go then panics in the next statement (`kNorm[-1]`): that is `panicked`, a sticky
    flag (a panicked writer ignores every further call; the harness prints `panic`).
    `prob > 256` (and negative `prob`) are outside the model: no caller in /repo passes them.
  * `PutBit(bit int, …)` only tests `bit != 0`; the model takes the `Bool`.
  * `pos == len(buf)` always holds in Go (`buf` starts empty and every `append` is followed by `pos++`),
    so `pos` is not a field.
  * Reader: `value` is Go's `uint64` `Value` (wraps are explicit, `wrap64`), `range` Go's `uint32`
    `Range`, `bits` Go's `int` `Bits`.  From `newReader`, `0 ≤ Bits ≤ 55` holds whenever a shift by
    `Bits` is executed (a load adds 8 or 56 to a value ≥ −8, or sets 0); the shift helpers still
    answer what Go answers for any count.  `range_` is never 0 at the normalisation step of `GetBit`
    (it is `range − split ≥ 1` or `split + 1`), where Go's `7 ^ (Len32(0) − 1) = −8` would matter.
-/
namespace Webp.Impl.BoolCoder
open Webp.Go (Bytes)

/-! ## tables (writer_bool.go `kNorm`, `kNewRange`; reader_bool.go has identical copies
     `kVP8Log2Range`, `kVP8NewRange`) -/

def kNorm : List Nat := [
  7, 6, 6, 5, 5, 5, 5, 4, 4, 4, 4, 4, 4, 4, 4, 3, 3, 3, 3, 3, 3, 3,
  3, 3, 3, 3, 3, 3, 3, 3, 3, 2, 2, 2, 2, 2, 2, 2, 2, 2, 2, 2, 2, 2,
  2, 2, 2, 2, 2, 2, 2, 2, 2, 2, 2, 2, 2, 2, 2, 2, 2, 2, 2, 1, 1, 1,
  1, 1, 1, 1, 1, 1, 1, 1, 1, 1, 1, 1, 1, 1, 1, 1, 1, 1, 1, 1, 1, 1,
  1, 1, 1, 1, 1, 1, 1, 1, 1, 1, 1, 1, 1, 1, 1, 1, 1, 1, 1, 1, 1, 1,
  1, 1, 1, 1, 1, 1, 1, 1, 1, 1, 1, 1, 1, 1, 1, 1, 1, 0]

def kNewRange : List Nat := [
  127, 127, 191, 127, 159, 191, 223, 127, 143, 159, 175, 191, 207, 223, 239,
  127, 135, 143, 151, 159, 167, 175, 183, 191, 199, 207, 215, 223, 231, 239,
  247, 127, 131, 135, 139, 143, 147, 151, 155, 159, 163, 167, 171, 175, 179,
  183, 187, 191, 195, 199, 203, 207, 211, 215, 219, 223, 227, 231, 235, 239,
  243, 247, 251, 127, 129, 131, 133, 135, 137, 139, 141, 143, 145, 147, 149,
  151, 153, 155, 157, 159, 161, 163, 165, 167, 169, 171, 173, 175, 177, 179,
  181, 183, 185, 187, 189, 191, 193, 195, 197, 199, 201, 203, 205, 207, 209,
  211, 213, 215, 217, 219, 221, 223, 225, 227, 229, 231, 233, 235, 237, 239,
  241, 243, 245, 247, 249, 251, 253, 127]

/-- big-endian number denoted by a byte string -/
def beNum (l : Bytes) : Nat := l.foldl (fun a b => a * 256 + b.toNat) 0

/-! ## BoolWriter -/

structure BoolWriter where
  /-- `range_` : interval width − 1 -/
  range : Nat := 254
  value : Nat := 0
  /-- pending 0xff bytes -/
  run : Nat := 0
  nbBits : Int := -8
  /-- `buf[:pos]` -/
  buf : Bytes := []
  /-- Go panicked (index −1 into `kNorm`/`kNewRange`) -/
  panicked : Bool := false
  deriving Repr, DecidableEq, Inhabited

/-- `NewBoolWriter(n)` / `Reset(n)` (the capacity is not observable) -/
def newWriter : BoolWriter := {}

/-- `bw.buf[bw.pos-1]++` guarded by `bw.pos > 0` (a byte increment: wraps) -/
def incrLast : Bytes → Bytes
  | [] => []
  | [b] => [b + 1]
  | a :: b :: rest => a :: incrLast (b :: rest)

/-- `flush` : emit one byte of `value`, carry into what was emitted, delay 0xff bytes -/
def flush (w : BoolWriter) : BoolWriter :=
  let s : Int := 8 + w.nbBits
  -- `uint(s)` of a negative `s` is a count ≥ 2^63: both shifts answer 0 (never the case: callers have s ≥ 8)
  let bits := if s < 0 then 0 else w.value >>> s.toNat
  let value := w.value - (if s < 0 then 0 else bits <<< s.toNat)
  let nbBits := w.nbBits - 8
  if bits &&& 0xff ≠ 0xff then
    let carry : Bool := bits &&& 0x100 ≠ 0
    let buf := if carry then incrLast w.buf else w.buf
    let buf := if w.run > 0 then buf ++ List.replicate w.run (if carry then (0x00 : UInt8) else 0xff) else buf
    { w with value, nbBits, run := 0, buf := buf ++ [UInt8.ofNat (bits &&& 0xff)] }
  else
    { w with value, nbBits, run := w.run + 1 }

/-- `PutBit(bit, prob)` -/
def putBit (w : BoolWriter) (bit : Bool) (prob : Nat) : BoolWriter :=
  if w.panicked then w else
  let split := (w.range * prob) >>> 8
  if bit && decide (w.range < split + 1) then
    -- `range_` became negative; `range_ < 127` holds and `kNorm[range_]` panics
    { w with panicked := true }
  else
    let value := if bit then w.value + (split + 1) else w.value
    let range := if bit then w.range - (split + 1) else split
    if range < 127 then
      let shift := kNorm.getD range 0
      let w : BoolWriter :=
        { w with range := kNewRange.getD range 0, value := value <<< shift, nbBits := w.nbBits + shift }
      if w.nbBits > 0 then flush w else w
    else
      { w with range, value }

/-- `PutBitUniform(bit)` -/
def putBitUniform (w : BoolWriter) (bit : Bool) : BoolWriter :=
  if w.panicked then w else
  let split := w.range >>> 1
  if bit && decide (w.range < split + 1) then
    { w with panicked := true }
  else
    let value := if bit then w.value + (split + 1) else w.value
    let range := if bit then w.range - (split + 1) else split
    if range < 127 then
      let w : BoolWriter :=
        { w with range := kNewRange.getD range 0, value := value <<< 1, nbBits := w.nbBits + 1 }
      if w.nbBits > 0 then flush w else w
    else
      { w with range, value }

/-- the loop of `PutBits`: `i+1` bits left, the next one is bit `i` of `value` -/
def putBitsLoop (w : BoolWriter) (value : Nat) : Nat → BoolWriter
  | 0 => w
  | i + 1 => putBitsLoop (putBitUniform w (value.testBit i)) value i

/-- `PutBits(value uint32, nbBits int)`: `mask := uint32(1) << uint(nbBits-1)` is 0 for `nbBits ≤ 0`
    and for `nbBits > 32`, and then nothing is written. -/
def putBits (w : BoolWriter) (value : Nat) (n : Nat) : BoolWriter :=
  if n = 0 ∨ n > 32 then w else putBitsLoop w (value % 2^32) n

/-- `PutSignedBits(value int, nbBits int)` -/
def putSignedBits (w : BoolWriter) (value : Int) (n : Int) : BoolWriter :=
  let w := putBitUniform w (value != 0)
  if value = 0 then w
  else if value < 0 then putBits w ((value.natAbs % 2^32 * 2 + 1) % 2^32) (n + 1).toNat
  else putBits w ((value.natAbs % 2^32 * 2) % 2^32) (n + 1).toNat

/-- the writer state just before the last `flush` of `Finish` -/
def finishPad (w : BoolWriter) : BoolWriter :=
  let w := putBits w 0 (9 - w.nbBits).toNat
  { w with nbBits := 0 }

/-- `Finish()` -/
def finish (w : BoolWriter) : Bytes := (flush (finishPad w)).buf

/-- `Pos()` -/
def wpos (w : BoolWriter) : Int := ((w.buf.length + w.run : Nat) : Int) * 8 + (8 + w.nbBits)

/-! ## BoolReader -/

def wrap64 (x : Nat) : Nat := x % 2^64
def wrap32 (x : Nat) : Nat := x % 2^32

/-- `v >> uint(p)` on `uint64` -/
def shrU64 (v : Nat) (p : Int) : Nat := if p < 0 ∨ p ≥ 64 then 0 else v >>> p.toNat
/-- `v << uint(p)` on `uint64` -/
def shlU64 (v : Nat) (p : Int) : Nat := if p < 0 ∨ p ≥ 64 then 0 else wrap64 (v <<< p.toNat)
/-- `a - b` on `uint64` -/
def subU64 (a b : Nat) : Nat := wrap64 (a + 2^64 - b % 2^64)

/-- `bits.Len32` -/
def len32 (x : Nat) : Nat := go 32 x
where
  go : Nat → Nat → Nat
  | 0, _ => 0
  | f + 1, x => if x = 0 then 0 else 1 + go f (x / 2)

structure BoolReader where
  value : Nat := 0
  range : Nat := 254
  bits : Int := -8
  data : Bytes := []
  pos : Nat := 0
  eof : Bool := false
  deriving Repr, DecidableEq, Inhabited

/-- `loadFinalBytes` -/
def loadFinalBytes (r : BoolReader) : BoolReader :=
  if r.pos < r.data.length then
    { r with bits := r.bits + 8,
             value := (r.data.getD r.pos 0).toNat ||| wrap64 (r.value <<< 8),
             pos := r.pos + 1 }
  else if !r.eof then
    { r with value := wrap64 (r.value <<< 8), bits := r.bits + 8, eof := true }
  else
    { r with bits := 0 }

/-- `loadNewBytes`: 7 bytes at once when 8 are available -/
def loadNewBytes (r : BoolReader) : BoolReader :=
  if r.pos + 8 ≤ r.data.length then
    let inp := beNum ((r.data.drop r.pos).take 7)
    { r with value := inp ||| wrap64 (r.value <<< 56), pos := r.pos + 7, bits := r.bits + 56 }
  else loadFinalBytes r

/-- `NewBoolReader(data)` -/
def newReader (data : Bytes) : BoolReader := loadNewBytes { data }

/-- `GetBit(prob uint8)` -/
def getBit (r : BoolReader) (prob : Nat) : Bool × BoolReader :=
  let range := r.range
  let r := if r.bits < 0 then loadNewBytes r else r
  let pos := r.bits
  let split := wrap32 (wrap32 (range * prob) >>> 8)
  let value := wrap32 (shrU64 r.value pos)
  let bit : Bool := value > split
  let range' := if bit then wrap32 (range + 2^32 - split) else wrap32 (split + 1)
  let val' := if bit then subU64 r.value (shlU64 (split + 1) pos) else r.value
  let shift := 7 ^^^ (len32 range' - 1)
  let range'' := wrap32 (range' <<< shift)
  (bit, { r with value := val', bits := r.bits - shift, range := wrap32 (range'' + 2^32 - 1) })

/-- `GetBitAlt(prob uint8)` (tables instead of `Len32`) -/
def getBitAlt (r : BoolReader) (prob : Nat) : Bool × BoolReader :=
  let range := r.range
  let r := if r.bits < 0 then loadNewBytes r else r
  let pos := r.bits
  let split := wrap32 (wrap32 (range * prob) >>> 8)
  let value := wrap32 (shrU64 r.value pos)
  let bit : Bool := value > split
  let range' := if bit then wrap32 (range + 2^32 - (split + 1)) else split
  let val' := if bit then subU64 r.value (shlU64 (split + 1) pos) else r.value
  if range' ≤ 0x7e then
    (bit, { r with value := val', bits := r.bits - kNorm.getD range' 0, range := kNewRange.getD range' 0 })
  else
    (bit, { r with value := val', range := range' })

/-- `GetSigned(v)` : answer `(negative?, reader)`; Go returns `(v ^ mask) - mask`, i.e. `-v` when the
    mask is −1 and `v` otherwise. -/
def getSigned (r : BoolReader) : Bool × BoolReader :=
  let r := if r.bits < 0 then loadNewBytes r else r
  let pos := r.bits
  let split := r.range >>> 1
  let value := wrap32 (shrU64 r.value pos)
  -- `int32(split - value) >> 31`
  let mask : Bool := wrap32 (split + 2^32 - value) ≥ 2^31
  let range := wrap32 (r.range + (if mask then 2^32 - 1 else 0)) ||| 1
  let val' := subU64 r.value (shlU64 (if mask then split + 1 else 0) pos)
  (mask, { r with bits := r.bits - 1, range, value := val' })

/-- the loop of `GetValue`: `i+1` bits left -/
def getValueLoop (r : BoolReader) (v : Nat) : Nat → Nat × BoolReader
  | 0 => (v, r)
  | i + 1 =>
    let (b, r) := getBit r 0x80
    getValueLoop r (v ||| wrap32 ((if b then 1 else 0) <<< i)) i

/-- `GetValue(numBits)` (a `numBits ≤ 0` reads nothing) -/
def getValue (r : BoolReader) (n : Nat) : Nat × BoolReader := getValueLoop r 0 n

/-- `GetSignedValue(numBits)` : `int32(GetValue(n))`, negated (in `int32`) when the sign bit is set -/
def getSignedValue (r : BoolReader) (n : Nat) : Int × BoolReader :=
  let (v, r) := getValue r n
  let value : Int := if v ≥ 2^31 then (v : Int) - 2^32 else v
  let (s, r) := getBit r 0x80
  (if s then (if value = -2^31 then value else -value) else value, r)

/-- decode one bit per probability with `GetBit` -/
def readBits (r : BoolReader) : List Nat → List Bool
  | [] => []
  | p :: ps => let (b, r) := getBit r p; b :: readBits r ps

/-- `readBits` with the final reader -/
def readBitsSt (r : BoolReader) : List Nat → List Bool × BoolReader
  | [] => ([], r)
  | p :: ps =>
    let (b, r) := getBit r p
    let (bs, r) := readBitsSt r ps
    (b :: bs, r)

end Webp.Impl.BoolCoder
