import Webp.Go.Basic
import Webp.Impl.Parser
/-
  Implementation model of /repo/mux/{chunk,demux}.go — `mux.NewDemuxer`.
-/
namespace Webp.Impl.Demux
open Webp.Go
open Webp.Impl.Parser (ccRIFF ccWEBP ccVP8 ccVP8L ccVP8X ccALPH ccANIM ccANMF ccICCP ccEXIF ccXMP
  chunkHeaderSize riffHeaderSize anmfChunkSize animChunkSize vp8xChunkSize maxChunkPayload
  maxImageArea maxFrames maxMetadataSize)

inductive Err where
  | invalidRIFF | truncated | noImage | invalidVP8X | invalidANIM | invalidANMF | invalidFrame
  | metadataTooLarge | tooManyFrames | invalidChunkHeader | chunkTooLarge | other
  deriving Repr, DecidableEq, Inhabited

def Err.toString : Err → String
  | .invalidRIFF => "invalidRIFF" | .truncated => "truncated" | .noImage => "noImage"
  | .invalidVP8X => "invalidVP8X" | .invalidANIM => "invalidANIM" | .invalidANMF => "invalidANMF"
  | .invalidFrame => "invalidFrame" | .metadataTooLarge => "metadataTooLarge"
  | .tooManyFrames => "tooManyFrames" | .invalidChunkHeader => "invalidChunkHeader"
  | .chunkTooLarge => "chunkTooLarge" | .other => "other"

abbrev R := Res Err

inductive Format where | undefined | lossy | lossless | extended
  deriving Repr, DecidableEq, Inhabited

structure Features where
  width : Nat := 0
  height : Nat := 0
  hasAlpha : Bool := false
  hasAnimation : Bool := false
  hasICC : Bool := false
  hasEXIF : Bool := false
  hasXMP : Bool := false
  format : Format := .undefined
  deriving Repr, DecidableEq, Inhabited

structure FrameInfo where
  data : Option Bytes := none
  alphaData : Option Bytes := none
  width : Nat := 0
  height : Nat := 0
  offsetX : Nat := 0
  offsetY : Nat := 0
  duration : Nat := 0
  isKeyframe : Bool := false
  hasAlpha : Bool := false
  blendNone : Bool := false
  disposeBG : Bool := false
  deriving Repr, DecidableEq, Inhabited

structure Chunk where
  id : Nat
  size : Nat
  data : Bytes
  deriving Repr, DecidableEq, Inhabited

structure State where
  chunks : List Chunk := []
  features : Features := {}
  frames : List FrameInfo := []
  iccData : Option Bytes := none
  exifData : Option Bytes := none
  xmpData : Option Bytes := none
  bgColor : Nat := 0
  loopCount : Nat := 0
  deriving Repr, DecidableEq, Inhabited

/-- chunk.go ReadChunkHeader -/
def readChunkHeader (data : Bytes) : R (Nat × Nat) :=
  if data.length < chunkHeaderSize then .err .invalidChunkHeader
  else
    let size := le32 data 4
    if size > maxChunkPayload then .err .chunkTooLarge
    else .ok (le32 data 0, size)

/-- chunk.go ReadChunk: (chunk, consumed) -/
def readChunk (data : Bytes) : R (Chunk × Nat) := do
  let (id, size) ← readChunkHeader data
  let payloadEnd := chunkHeaderSize + size
  if payloadEnd > data.length then .err .other
  else
    let d ← slice data chunkHeaderSize payloadEnd
    let consumed := if size % 2 ≠ 0 ∧ payloadEnd < data.length then payloadEnd + 1 else payloadEnd
    pure (⟨id, size, d⟩, consumed)

/-- demux.go parseVP8Dimensions -/
def parseVP8Dimensions (data : Bytes) : R (Nat × Nat) :=
  if data.length < 10 then .err .invalidFrame
  else if byteAt data 3 ≠ 0x9d ∨ byteAt data 4 ≠ 0x01 ∨ byteAt data 5 ≠ 0x2a then .err .invalidFrame
  else .ok (le16 data 6 % 16384, le16 data 8 % 16384)

/-- demux.go parseVP8LDimensions -/
def parseVP8LDimensions (data : Bytes) : R (Nat × Nat × Bool) :=
  if data.length < 5 then .err .invalidFrame
  else if byteAt data 0 ≠ 0x2f then .err .invalidFrame
  else
    let bits := le32 data 1
    .ok (bits % 16384 + 1, bits / 16384 % 16384 + 1, bits / 268435456 % 2 ≠ 0)

/-- demux.go frameDataHasAlpha -/
def frameDataHasAlpha (data : Bytes) : Bool :=
  if data.length < 5 then false
  else if byteAt data 0 = 0x2f then le32 data 1 / 268435456 % 2 ≠ 0
  else false

/-- mux.go splitAlphaAndBitstream: (alphaData — `none` is Go's nil —, bitstream) -/
def splitAlphaAndBitstream (data : Bytes) : Option Bytes × Bytes :=
  if data.length ≥ chunkHeaderSize ∧ le32 data 0 = ccALPH then
    let alphSize := le32 data 4
    let alphEnd := chunkHeaderSize + alphSize
    if alphEnd ≤ data.length then
      let rest := if alphSize % 2 ≠ 0 ∧ alphEnd < data.length then alphEnd + 1 else alphEnd
      (some ((data.take alphEnd).drop chunkHeaderSize), data.drop rest)
    else (none, data)
  else (none, data)

/-- mux.go frameDimensions (0,0 when the header cannot be parsed) -/
def frameDimensions (data : Bytes) : Nat × Nat :=
  let bs := (splitAlphaAndBitstream data).2
  let tryVP8 : Nat × Nat :=
    if bs.length ≥ 10 then
      match parseVP8Dimensions bs with
      | .ok (w, h) => (w, h)
      | _ => (0, 0)
    else (0, 0)
  if bs.length ≥ 5 ∧ byteAt bs 0 = 0x2f then
    match parseVP8LDimensions bs with
    | .ok (w, h, _) => (w, h)
    | _ => tryVP8
  else tryVP8

def parseANIM (st : State) (data : Bytes) : R State :=
  if data.length < animChunkSize then .err .invalidANIM
  else .ok { st with bgColor := le32 data 0, loopCount := le16 data 4 }

/-- the sub-chunk loop of parseANMF; returns (imageData, alphaData) -/
def anmfSubChunks (fuel : Nat) (fp : Bytes) (pos : Nat) (img alph : Option Bytes) :
    R (Option Bytes × Option Bytes) :=
  match fuel with
  | 0 => .hang
  | fuel + 1 =>
    if pos + chunkHeaderSize > fp.length then .ok (img, alph)
    else do
      let tail ← sliceFrom fp pos
      match readChunkHeader tail with
      | .err _ => .ok (img, alph)
      | .panic => .panic
      | .hang => .hang
      | .ok (subID, subSize) =>
        let subEnd := chunkHeaderSize + subSize
        if subEnd > tail.length then .ok (img, alph)
        else
          let subData ← slice fp (pos + chunkHeaderSize) (pos + subEnd)
          let (img, alph) :=
            if subID = ccVP8 ∨ subID = ccVP8L then (some subData, alph)
            else if subID = ccALPH then (img, some subData)
            else (img, alph)
          let advance := if subSize % 2 ≠ 0 ∧ pos + subEnd < fp.length then subEnd + 1 else subEnd
          anmfSubChunks fuel fp (pos + advance) img alph

/-- demux.go parseANMF -/
def parseANMF (st : State) (data : Bytes) : R State :=
  if data.length < anmfChunkSize then .err .invalidANMF
  else
    let offsetX := le24 data 0 * 2
    let offsetY := le24 data 3 * 2
    let width := le24 data 6 + 1
    let height := le24 data 9 + 1
    let duration := le24 data 12
    let flagByte := byteAt data 15
    if width * height ≥ maxImageArea then .err .invalidANMF
    else do
      let fp ← sliceFrom data anmfChunkSize
      let (img, alph) ← anmfSubChunks (fp.length + 1) fp 0 none none
      let hasAlpha := (alph.getD []).length > 0
      let hasAlpha := if !hasAlpha ∧ (img.getD []).length > 0 then frameDataHasAlpha (img.getD [])
                      else hasAlpha
      if st.frames.length ≥ maxFrames then .err .tooManyFrames
      else
        let fi : FrameInfo := {
          data := img, alphaData := alph, width := width, height := height,
          offsetX := offsetX, offsetY := offsetY, duration := duration,
          isKeyframe := st.frames.length = 0, hasAlpha := hasAlpha,
          blendNone := flagByte / 2 % 2 ≠ 0, disposeBG := flagByte % 2 ≠ 0 }
        pure { st with frames := st.frames ++ [fi] }

/-- loop of parseSingleExtendedFrame: (imageData, alphaData) -/
def singleExtLoop (fuel : Nat) (payload : Bytes) (pos : Nat) (alph : Option Bytes) :
    R (Option Bytes × Option Bytes) :=
  match fuel with
  | 0 => .hang
  | fuel + 1 =>
    if pos + chunkHeaderSize > payload.length then .ok (none, alph)
    else do
      let tail ← sliceFrom payload pos
      match readChunk tail with
      | .err _ => .ok (none, alph)
      | .panic => .panic
      | .hang => .hang
      | .ok (c, n) =>
        if c.id = ccALPH then singleExtLoop fuel payload (pos + n) (some c.data)
        else if c.id = ccVP8 ∨ c.id = ccVP8L then .ok (some c.data, alph)
        else singleExtLoop fuel payload (pos + n) alph

/-- demux.go parseSingleExtendedFrame -/
def parseSingleExtendedFrame (st : State) (payload : Bytes) : R State := do
  let (img, alph) ← singleExtLoop (payload.length + 1) payload 0 none
  match img with
  | none => .err .noImage
  | some imageData =>
    let hasAlpha := (alph.getD []).length > 0
    let hasAlpha := if !hasAlpha then frameDataHasAlpha imageData else hasAlpha
    let (fw, fh) := frameDimensions imageData
    let (width, height) := if fw > 0 ∧ fh > 0 then (fw, fh)
                           else (st.features.width, st.features.height)
    pure { st with frames := [{
      data := some imageData, alphaData := alph, width := width,
      height := height, hasAlpha := hasAlpha, isKeyframe := true }] }

/-- chunk loop of parseExtended -/
def extLoop (fuel : Nat) (st : State) (payload : Bytes) (pos : Nat) : R State :=
  match fuel with
  | 0 => .hang
  | fuel + 1 =>
    if pos + chunkHeaderSize > payload.length then .ok st
    else do
      let tail ← sliceFrom payload pos
      match readChunk tail with
      | .err _ => .ok st
      | .panic => .panic
      | .hang => .hang
      | .ok (c, n) =>
        let st := { st with chunks := st.chunks ++ [c] }
        let st ←
          if c.id = ccICCP then
            (if c.data.length > maxMetadataSize then (.err .metadataTooLarge : R State)
             else pure { st with iccData := some c.data })
          else if c.id = ccEXIF then
            (if c.data.length > maxMetadataSize then (.err .metadataTooLarge : R State)
             else pure { st with exifData := some c.data })
          else if c.id = ccXMP then
            (if c.data.length > maxMetadataSize then (.err .metadataTooLarge : R State)
             else pure { st with xmpData := some c.data })
          else if c.id = ccANIM then
            (if st.features.hasAnimation then parseANIM st c.data else pure st)
          else if c.id = ccANMF then
            (if st.features.hasAnimation then parseANMF st c.data else (.err .invalidANMF : R State))
          else if c.id = ccVP8 ∨ c.id = ccVP8L ∨ c.id = ccALPH then
            (if !st.features.hasAnimation ∧ st.frames.length = 0 then
               parseSingleExtendedFrame st tail
             else pure st)
          else pure st
        extLoop fuel st payload (pos + n)

/-- demux.go parseExtended -/
def parseExtended (payload : Bytes) : R State := do
  let (vp8x, consumed) ← readChunk payload
  if vp8x.size < vp8xChunkSize then .err .invalidVP8X
  else
    let flags ← idx vp8x.data 0
    let flags := flags.toNat
    let b4 ← idx vp8x.data 4; let b5 ← idx vp8x.data 5; let b6 ← idx vp8x.data 6
    let b7 ← idx vp8x.data 7; let b8 ← idx vp8x.data 8; let b9 ← idx vp8x.data 9
    let cw := b4.toNat + b5.toNat * 256 + b6.toNat * 65536 + 1
    let ch := b7.toNat + b8.toNat * 256 + b9.toNat * 65536 + 1
    let feat : Features := {
      width := cw, height := ch, hasAlpha := flags / 16 % 2 ≠ 0,
      hasAnimation := flags / 2 % 2 ≠ 0, hasICC := flags / 32 % 2 ≠ 0,
      hasEXIF := flags / 8 % 2 ≠ 0, hasXMP := flags / 4 % 2 ≠ 0, format := .extended }
    let st : State := { features := feat, chunks := [vp8x] }
    let st ← extLoop (payload.length + 1) st payload consumed
    if st.frames.length = 0 then .err .noImage else pure st

def parseSimpleVP8 (payload : Bytes) : R State := do
  let (c, _) ← readChunk payload
  let (w, h) ← parseVP8Dimensions c.data
  pure { features := { width := w, height := h, format := .lossy },
         frames := [{ data := some c.data, width := w, height := h, isKeyframe := true }],
         chunks := [c] }

def parseSimpleVP8L (payload : Bytes) : R State := do
  let (c, _) ← readChunk payload
  let (w, h, a) ← parseVP8LDimensions c.data
  pure { features := { width := w, height := h, hasAlpha := a, format := .lossless },
         frames := [{ data := some c.data, width := w, height := h, hasAlpha := a, isKeyframe := true }],
         chunks := [c] }

/-- demux.go (*Demuxer).parse.  `guardRiffSize` selects the repaired code (`true`: a RIFF whose
    effective total size is smaller than the 12-byte header is rejected) or the pinned
    original (`false`: `d.data[12:totalSize]` is evaluated unguarded). -/
def parseWith (guardRiffSize : Bool) (data : Bytes) : R State :=
  if data.length < riffHeaderSize then .err .invalidRIFF
  else if le32 data 0 ≠ ccRIFF then .err .invalidRIFF
  else
    let fileSize := le32 data 4
    if le32 data 8 ≠ ccWEBP then .err .invalidRIFF
    else
      let totalSize := if fileSize + 8 > data.length then data.length else fileSize + 8
      -- totalSize64 > MaxInt is impossible for a slice length on 64-bit
      if guardRiffSize ∧ totalSize < riffHeaderSize then .err .invalidRIFF
      else do
        let payload ← slice data riffHeaderSize totalSize
        if payload.length < chunkHeaderSize then .err .noImage
        else
          let first := le32 payload 0
          if first = ccVP8X then parseExtended payload
          else if first = ccVP8 then parseSimpleVP8 payload
          else if first = ccVP8L then parseSimpleVP8L payload
          else .err .other

end Webp.Impl.Demux
