import Webp.Impl.BoolCoder
import Webp.Proofs.BoolIdeal
/-
  C1, part 1: byte strings as numbers, table facts, bit-operation facts.
-/
namespace Webp.Proofs.BoolWriter
open Webp.Go (Bytes)
open Webp.Impl.BoolCoder
open Webp.Spec.VP8.BoolIdeal

/-! ### `beNum` -/

theorem beNum_foldl (l : Bytes) (a : Nat) :
    l.foldl (fun a b => a * 256 + b.toNat) a = a * 256 ^ l.length + beNum l := by
  induction l generalizing a with
  | nil => simp [beNum]
  | cons x xs ih =>
    simp only [List.foldl_cons, List.length_cons, beNum]
    rw [ih, ih (0 * 256 + x.toNat)]
    ring

theorem beNum_nil : beNum [] = 0 := rfl

theorem beNum_append (l m : Bytes) : beNum (l ++ m) = beNum l * 256 ^ m.length + beNum m := by
  unfold beNum
  rw [List.foldl_append, beNum_foldl]
  rfl

theorem beNum_single (b : UInt8) : beNum [b] = b.toNat := by simp [beNum]

theorem beNum_cons (x : UInt8) (xs : Bytes) : beNum (x :: xs) = x.toNat * 256 ^ xs.length + beNum xs := by
  have := beNum_append [x] xs
  rwa [beNum_single] at this

theorem beNum_lt (l : Bytes) : beNum l < 256 ^ l.length := by
  induction l with
  | nil => simp [beNum]
  | cons x xs ih =>
    rw [beNum_cons, List.length_cons, pow_succ]
    have := x.toNat_lt
    have h : x.toNat * 256 ^ xs.length ≤ 255 * 256 ^ xs.length := Nat.mul_le_mul_right _ (by omega)
    omega

theorem beNum_replicate_zero (n : Nat) : beNum (List.replicate n (0 : UInt8)) = 0 := by
  induction n with
  | zero => rfl
  | succ n ih =>
    rw [List.replicate_succ', beNum_append, ih, beNum_single]; rfl

theorem beNum_replicate_ff (n : Nat) : beNum (List.replicate n (0xff : UInt8)) + 1 = 256 ^ n := by
  induction n with
  | zero => rfl
  | succ n ih =>
    rw [List.replicate_succ', beNum_append, beNum_single, pow_succ]
    simp only [List.length_singleton, pow_one]
    have : (0xff : UInt8).toNat = 255 := rfl
    omega

theorem incrLast_length (l : Bytes) : (incrLast l).length = l.length := by
  induction l with
  | nil => rfl
  | cons a t ih =>
    cases t with
    | nil => rfl
    | cons b r => simp only [incrLast, List.length_cons] at *; omega

theorem incrLast_append_single (l : Bytes) (b : UInt8) : incrLast (l ++ [b]) = l ++ [b + 1] := by
  induction l with
  | nil => rfl
  | cons a t ih =>
    cases t with
    | nil => rfl
    | cons c r =>
      simp only [List.cons_append, incrLast] at *
      rw [ih]

/-- the carry: incrementing the last byte (which is not 0xff) adds one to the number -/
theorem beNum_incrLast (l : Bytes) (hne : l ≠ []) (hlast : ∀ b, l.getLast? = some b → b ≠ 255) :
    beNum (incrLast l) = beNum l + 1 := by
  obtain ⟨xs, x, rfl⟩ : ∃ xs x, l = xs ++ [x] := by
    rcases List.eq_nil_or_concat l with h | ⟨xs, x, h⟩
    · exact absurd h hne
    · exact ⟨xs, x, by simpa using h⟩
  have hx : x ≠ 255 := hlast x (by simp)
  rw [incrLast_append_single, beNum_append, beNum_append, beNum_single, beNum_single]
  have h1 : x.toNat ≠ 255 := fun h => hx (UInt8.toNat_inj.mp (by simpa using h))
  have h2 := x.toNat_lt
  have h3 : (x + 1).toNat = x.toNat + 1 := by
    rw [UInt8.toNat_add]; simp; omega
  simp only [List.length_singleton, pow_one]
  omega

/-! ### tables and bit operations -/

theorem tables : ∀ r, r < 127 →
    kNorm.getD r 0 = normShift (r + 1) ∧ kNewRange.getD r 0 + 1 = (r + 1) * 2 ^ normShift (r + 1) := by
  decide

theorem normShift_zero_of_ge {r : Nat} (h : 128 ≤ r) : normShift r = 0 := by
  unfold normShift; simp [h]

set_option maxRecDepth 100000 in
theorem and_ff : ∀ b, b < 512 → b &&& 0xff = b % 256 := by decide
set_option maxRecDepth 100000 in
theorem and_100 : ∀ b, b < 512 → (b &&& 0x100 ≠ 0 ↔ 256 ≤ b) := by decide

end Webp.Proofs.BoolWriter
