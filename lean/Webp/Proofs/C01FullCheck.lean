import Webp.Impl.VP8LPlanCheck
import Webp.Proofs.C01FullAPI
/-
  C01, stage 4 (Lean side): soundness of the executable plan checker `Webp.Impl.PlanCheck`:

      validPlanFor w h argb sp = true  →  ValidPlanFor w h argb sp

  so that what the driver evaluates on a reconstructed plan IS the hypothesis of
  `encode_decode_roundtrip`.
-/
namespace Webp.Proofs.C01FullCheck
open Webp.Go (Res)
open Webp.Spec.VP8L
open Webp.Impl.VP8LEntropy
open Webp.Impl.PlanCheck
open Webp.Proofs.VP8LEntropyCodeLengths (IsSimple)
open Webp.Proofs.VP8LEntropyTokens (LensOK TokenValid)
open Webp.Proofs.VP8LEntropyStream (VecValid ImageValid XfValid planTokens)
open Webp.Proofs.C01FullMeta (GroupValid TokensValidFrom)
open Webp.Proofs.C01FullStream (MainValid StreamValidMeta planPixelsMain planTransformsMeta)
open Webp.Proofs.C01FullAPI (PlanEncodes ValidPlanFor)

theorem isOk_ok {ε α : Type} {r : Res ε α} (h : isOk r = true) : ∃ a, r = .ok a := by
  cases r with
  | ok a => exact ⟨a, rfl⟩
  | err e => simp [isOk] at h
  | panic => simp [isOk] at h
  | hang => simp [isOk] at h

theorem array_all {α : Type} (a : Array α) (p : α → Bool) (h : a.all p = true) : ∀ x ∈ a, p x = true := by
  intro x hx
  rw [Array.all_eq_true_iff_forall_mem] at h
  exact h x hx

theorem isSimple_sound (lens : Array Nat) (h : isSimple lens = true) : IsSimple lens := by
  unfold isSimple at h
  unfold IsSimple
  rw [Bool.or_eq_true] at h
  rcases h with h | h
  · left
    exact List.isEmpty_iff.mp h
  · right
    rw [Bool.and_eq_true, decide_eq_true_eq, List.all_eq_true] at h
    exact ⟨h.1, fun i hi => by simpa using h.2 i hi⟩

theorem lensOK_sound (lens : Array Nat) (h : lensOK lens = true) : LensOK lens := by
  unfold lensOK at h
  rw [Bool.or_eq_true] at h
  rcases h with h | h
  · left
    intro l hl
    simpa using array_all _ _ h l hl
  · right
    exact isOk_ok h

theorem vecValid_sound (n : Nat) (lens cl : Array Nat) (h : vecValid n lens cl = true) : VecValid n lens cl := by
  unfold vecValid at h
  simp only [Bool.and_eq_true, Bool.or_eq_true, decide_eq_true_eq] at h
  obtain ⟨⟨⟨h1, h2⟩, h3⟩, h4⟩ := h
  refine ⟨h1, fun l hl => by simpa using array_all _ _ h2 l hl, lensOK_sound _ h3, fun hns => ?_⟩
  rcases h4 with h4 | ⟨⟨⟨c1, c2⟩, c3⟩, c4⟩
  · exact absurd (isSimple_sound _ h4) hns
  · refine ⟨c1, fun l hl => by simpa using array_all _ _ c2 l hl, isOk_ok c3, fun t ht => ?_⟩
    rw [List.all_eq_true] at c4
    simpa using c4 t ht

theorem alphabetSize_eq (cb i : Nat) :
    Webp.Impl.PlanCheck.alphabetSize cb i = Webp.Proofs.VP8LEntropyStream.alphabetSize cb i := by
  match i with
  | 0 => rfl
  | 1 => rfl
  | 2 => rfl
  | 3 => rfl
  | 4 => rfl
  | _ + 5 => rfl

theorem vecs5_sound (cb : Nat) (lens5 cl5 : List (Array Nat)) (h : vecs5 cb lens5 cl5 = true) :
    lens5.length = 5 ∧ cl5.length = 5 ∧
    ∀ i, i < 5 → VecValid (Webp.Proofs.VP8LEntropyStream.alphabetSize cb i) (lens5.getD i #[]) (cl5.getD i #[]) := by
  unfold vecs5 at h
  simp only [Bool.and_eq_true, decide_eq_true_eq, List.all_eq_true] at h
  obtain ⟨⟨h1, h2⟩, h3⟩ := h
  refine ⟨h1, h2, fun i hi => ?_⟩
  rw [← alphabetSize_eq]
  exact vecValid_sound _ _ _ (h3 i (List.mem_range.mpr hi))

theorem cacheOK_sound (cb : Nat) (h : cacheOK cb = true) : cb = 0 ∨ (1 ≤ cb ∧ cb ≤ 11) := by
  unfold cacheOK at h
  simpa [Bool.or_eq_true, Bool.and_eq_true, decide_eq_true_eq] using h

theorem refToken_eq : Webp.Impl.PlanCheck.refToken = Webp.Proofs.VP8LEntropyTokens.refToken := by
  funext v; cases v <;> rfl

theorem tokenValid_sound (w : Nat) (g r b a d : Array Nat) (t : Token) (h : tokenValid w g r b a d t = true) :
    TokenValid w g r b a d t := by
  cases t with
  | literal argb =>
    simp only [tokenValid, Bool.and_eq_true, decide_eq_true_eq] at h
    exact ⟨h.1.1.1, h.1.1.2, h.1.2, h.2⟩
  | cache idx =>
    simp only [tokenValid, decide_eq_true_eq] at h
    exact h
  | copy len dist =>
    simp only [tokenValid, Bool.and_eq_true, decide_eq_true_eq] at h
    exact ⟨h.1.1.1.1.1, h.1.1.1.1.2, h.1.1.1.2, h.1.1.2, h.1.2, h.2⟩

theorem execOK_sound (w h cb : Nat) (toks : List Token) (hs : (execOK w h cb toks).isSome = true) :
    ∃ px, refDecode listSource (fun _ => 0) w h cb toks = .ok (px, []) := by
  unfold execOK at hs
  split at hs
  · rename_i px heq
    exact ⟨px, heq⟩
  · simp at hs

theorem planPixels_eq (cb : Nat) (p : ImagePlan) :
    Webp.Impl.PlanCheck.planPixels cb p = Webp.Proofs.VP8LEntropyStream.planPixels cb p := by
  unfold Webp.Impl.PlanCheck.planPixels Webp.Proofs.VP8LEntropyStream.planPixels planTokens
  rw [refToken_eq]
  generalize refDecode listSource (fun _ => 0) p.width p.height cb
    (List.map Webp.Proofs.VP8LEntropyTokens.refToken p.refs) = r
  cases r with
  | ok v => obtain ⟨px, rest⟩ := v; rfl
  | err e => rfl
  | panic => rfl
  | hang => rfl

theorem exec_planPixels (cb : Nat) (p : ImagePlan) (hs : (execOK p.width p.height cb (p.refs.map Webp.Impl.PlanCheck.refToken)).isSome = true) :
    refDecode listSource (fun _ => 0) p.width p.height cb (planTokens p) =
      .ok (Webp.Proofs.VP8LEntropyStream.planPixels cb p, []) := by
  obtain ⟨px, hpx⟩ := execOK_sound _ _ _ _ hs
  rw [refToken_eq] at hpx
  have : Webp.Proofs.VP8LEntropyStream.planPixels cb p = px := by
    unfold Webp.Proofs.VP8LEntropyStream.planPixels planTokens
    rw [hpx]
  rw [this]
  exact hpx

theorem imageValid_sound (cb : Nat) (p : ImagePlan) (h : imageValid cb p = true) : ImageValid cb p := by
  unfold imageValid at h
  simp only [Bool.and_eq_true, decide_eq_true_eq, List.all_eq_true] at h
  obtain ⟨⟨⟨⟨h1, h2⟩, h3⟩, h4⟩, h5⟩ := h
  obtain ⟨l5, c5, vecs⟩ := vecs5_sound _ _ _ h3
  refine ⟨h1, cacheOK_sound _ h2, l5, c5, vecs, fun t ht => ?_, exec_planPixels cb p h5⟩
  unfold planTokens at ht
  rw [← refToken_eq] at ht
  exact tokenValid_sound _ _ _ _ _ _ _ (h4 t ht)

/-! ### transforms -/

theorem xfKind_eq (t : XfPlan) : Webp.Impl.PlanCheck.xfKind t = Webp.Proofs.VP8LEntropyStream.xfKind t := by
  cases t <;> rfl

theorem xfWidthAfter_eq (w : Nat) (t : XfPlan) :
    Webp.Impl.PlanCheck.xfWidthAfter w t = Webp.Proofs.VP8LEntropyStream.xfWidthAfter w t := by
  cases t <;> rfl

theorem xfValid_sound (w h : Nat) (t : XfPlan) (hv : xfValid w h t = true) : XfValid w h t := by
  cases t with
  | predictor bits data =>
    simp only [xfValid, Bool.and_eq_true, decide_eq_true_eq] at hv
    exact ⟨hv.1.1.1.1, hv.1.1.1.2, hv.1.1.2, hv.1.2, imageValid_sound _ _ hv.2⟩
  | crossColor bits data =>
    simp only [xfValid, Bool.and_eq_true, decide_eq_true_eq] at hv
    exact ⟨hv.1.1.1.1, hv.1.1.1.2, hv.1.1.2, hv.1.2, imageValid_sound _ _ hv.2⟩
  | subtractGreen => trivial
  | colorIndexing n data =>
    simp only [xfValid, Bool.and_eq_true, decide_eq_true_eq] at hv
    exact ⟨hv.1.1.1.1, hv.1.1.1.2, hv.1.1.2, hv.1.2, imageValid_sound _ _ hv.2⟩

theorem xfsValid_sound (h : Nat) : ∀ (ts : List XfPlan) (w : Nat), xfsValid h w ts = true →
    Webp.Proofs.VP8LEntropyStream.xfsValid h w ts := by
  intro ts
  induction ts with
  | nil => intro _ _; trivial
  | cons t ts ih =>
    intro w hv
    simp only [xfsValid, Bool.and_eq_true] at hv
    refine ⟨xfValid_sound _ _ _ hv.1, ?_⟩
    rw [← xfWidthAfter_eq]
    exact ih _ hv.2

theorem xfsWidth_eq : ∀ (ts : List XfPlan) (w : Nat),
    Webp.Impl.PlanCheck.xfsWidth w ts = Webp.Proofs.VP8LEntropyStream.xfsWidth w ts := by
  intro ts
  induction ts with
  | nil => intro _; rfl
  | cons t ts ih =>
    intro w
    simp only [Webp.Impl.PlanCheck.xfsWidth, Webp.Proofs.VP8LEntropyStream.xfsWidth]
    rw [xfWidthAfter_eq, ih]

theorem kindsDistinct_sound : ∀ (ks : List Nat), kindsDistinct ks = true → ks.Pairwise (· ≠ ·) := by
  intro ks
  induction ks with
  | nil => intro _; exact List.Pairwise.nil
  | cons k ks ih =>
    intro h
    simp only [kindsDistinct, Bool.and_eq_true, List.all_eq_true, decide_eq_true_eq] at h
    exact List.pairwise_cons.mpr ⟨h.1, ih h.2⟩

/-! ### the main image -/

theorem lensAt_eq (p : MainPlan) (pos i : Nat) :
    Webp.Impl.PlanCheck.lensAt p pos i = Webp.Proofs.C01FullMeta.lensAt p pos i := rfl

theorem tokLen_eq (t : Token) : Webp.Impl.PlanCheck.tokLen t = Webp.Proofs.C01FullMeta.tokLen t := by
  cases t <;> rfl

theorem tokensValidFrom_sound (p : MainPlan) : ∀ (toks : List Token) (pos : Nat),
    tokensValidFrom p pos toks = true → TokensValidFrom p pos toks := by
  intro toks
  induction toks with
  | nil => intro _ _; trivial
  | cons t ts ih =>
    intro pos h
    rw [tokensValidFrom] at h
    split at h
    · rename_i htv
      refine ⟨tokenValid_sound _ _ _ _ _ _ _ htv, ?_⟩
      rw [← tokLen_eq]
      exact ih _ h
    · cases h

theorem mainValid_sound (cb : Nat) (p : MainPlan) (h : mainValid cb p = true) : MainValid cb p := by
  unfold mainValid at h
  simp only [Bool.and_eq_true, Bool.or_eq_true, decide_eq_true_eq, List.all_eq_true] at h
  obtain ⟨⟨⟨⟨⟨⟨h1, h2⟩, h3⟩, h4⟩, h5⟩, h6⟩, h7⟩ := h
  refine ⟨h1, cacheOK_sound _ h2, h3, fun g hg => ?_, fun hm => ?_, ?_, ?_⟩
  · obtain ⟨l5, c5, vecs⟩ := vecs5_sound _ _ _ (h4 g hg)
    exact ⟨l5, c5, vecs⟩
  · rcases h5 with h5 | h5
    · omega
    · unfold entropyOK at h5
      simp only [Bool.and_eq_true, decide_eq_true_eq] at h5
      obtain ⟨⟨⟨⟨⟨⟨e1, e2⟩, e3⟩, e4⟩, e5⟩, e6⟩, e7⟩ := h5
      refine ⟨e1, e2, e3, e4, imageValid_sound _ _ e5, ?_, e7⟩
      rw [e6, planPixels_eq]
      rfl
  · show TokensValidFrom p 0 (planTokens p.asImage)
    unfold planTokens
    rw [← refToken_eq]
    exact tokensValidFrom_sound p _ 0 h6
  · exact exec_planPixels cb p.asImage h7

theorem streamValid_sound (sp : StreamPlanMeta) (h : streamValid sp = true) : StreamValidMeta sp := by
  unfold streamValid at h
  simp only [Bool.and_eq_true, decide_eq_true_eq] at h
  obtain ⟨⟨⟨⟨⟨⟨⟨⟨h1, h2⟩, h3⟩, h4⟩, h5⟩, h6⟩, h7⟩, h8⟩, h9⟩ := h
  refine ⟨⟨h1, h2⟩, ⟨h3, h4⟩, ?_, xfsValid_sound _ _ _ h6, by rw [h7, xfsWidth_eq], h8, mainValid_sound _ _ h9⟩
  have := kindsDistinct_sound _ h5
  rw [List.map_congr_left (fun t _ => xfKind_eq t)] at this
  exact this

/-! ### the plan stands for the image -/

theorem xfOf_eq (t : XfPlan) :
    xfOf t = Webp.Proofs.VP8LSpecBridge.toXf (Webp.Proofs.VP8LEntropyStream.xfDecoded t) := by
  cases t <;> simp [xfOf, Webp.Proofs.VP8LEntropyStream.xfDecoded, Webp.Proofs.VP8LSpecBridge.toXf, planPixels_eq]

theorem planXfs_eq (sp : StreamPlanMeta) :
    Webp.Impl.PlanCheck.planXfs sp = Webp.Proofs.C01FullAPI.planXfs sp := by
  unfold Webp.Impl.PlanCheck.planXfs Webp.Proofs.C01FullAPI.planXfs planTransformsMeta
    Webp.Proofs.VP8LSpecBridge.toXfs
  generalize sp.width = w
  induction sp.transforms generalizing w with
  | nil => rfl
  | cons t ts ih =>
    simp only [List.map_cons, Webp.Proofs.VP8LEntropyStream.xfsDecoded, Function.comp]
    rw [xfOf_eq, ih]

theorem stepValid_sound (h : Nat) (t : Webp.Spec.LTransform.Xf) (w : Nat) (px : Array UInt32)
    (hv : stepValid h t w px = true) : Webp.Proofs.LTransformChain.StepValid h t w px := by
  cases t with
  | predictor bits tiles =>
    simp only [stepValid] at hv
    intro t ht
    simpa [Webp.Proofs.LTransformPredictor.normMode] using array_all _ _ hv t ht
  | crossColor bits tiles => trivial
  | subtractGreen => trivial
  | colorIndex pal =>
    simp only [stepValid, Bool.and_eq_true, decide_eq_true_eq] at hv
    refine ⟨hv.1.1, fun p hp => ?_, hv.2⟩
    have := array_all _ _ hv.1.2 p hp
    exact Array.contains_iff_mem.mp this

theorem chainValid_sound (h : Nat) : ∀ (ts : List Webp.Spec.LTransform.Xf) (w : Nat) (px : Array UInt32),
    chainValid h ts w px = true → Webp.Proofs.LTransformChain.ChainValid h ts w px := by
  intro ts
  induction ts with
  | nil => intro _ _ _; trivial
  | cons t ts ih =>
    intro w px hv
    simp only [chainValid, Bool.and_eq_true] at hv
    exact ⟨stepValid_sound _ _ _ _ hv.1, ih _ _ hv.2⟩

theorem planEncodes_sound (sp : StreamPlanMeta) (argb : Array UInt32) (h : planEncodes sp argb = true) :
    PlanEncodes sp argb := by
  unfold planEncodes at h
  simp only [Bool.and_eq_true, decide_eq_true_eq] at h
  obtain ⟨⟨h1, h2⟩, h3⟩ := h
  rw [planXfs_eq] at h2 h3
  refine ⟨h1, ?_, chainValid_sound _ _ _ _ h3⟩
  unfold planPixelsMain
  rw [← planPixels_eq]
  exact h2

/-- **soundness of the per-input certificate** -/
theorem validPlanFor_sound (w h : Nat) (argb : Array UInt32) (sp : StreamPlanMeta)
    (hc : validPlanFor w h argb sp = true) : ValidPlanFor w h argb sp := by
  unfold validPlanFor at hc
  simp only [Bool.and_eq_true, decide_eq_true_eq] at hc
  obtain ⟨⟨⟨h1, h2⟩, h3⟩, h4⟩ := hc
  exact ⟨h1, h2, streamValid_sound sp h3, planEncodes_sound sp argb h4⟩

end Webp.Proofs.C01FullCheck
