import Generated.Funcs
import Webp.Proofs.AnimDecBlend
import Webp.Proofs.FuncsBridge
/-
  Helper lemmas for `Webp/Props/C09Funcs.lean`: every `uint32` intermediate of the translated
  `animation.alphaBlendNRGBA` is the natural-number value of `Webp.Proofs.AnimDecBlend`
  (`dfaN`, `baN`, `scaleN`, `chanN`): no wrap, the clamp never fires.
-/
namespace Webp.Proofs.FuncsBlend
open Webp.Go Webp.Go.IntSem Webp.Proofs.FuncsBridge
open Webp.Spec.Anim Webp.Impl.AnimDec Webp.Proofs.AnimDecBlend

/-- a model pixel as the translated `color.NRGBA` (four in-range `uint8` values) -/
def toN (p : Px) : Generated.Funcs.NRGBA :=
  ⟨(p.r.toNat : Int), (p.g.toNat : Int), (p.b.toNat : Int), (p.a.toNat : Int)⟩

theorem gen_dfa (sa da : Nat) (hsa0 : 0 < sa) (hsa : sa ≤ 255) (hda : da ≤ 255) :
    shr (wrapU 32 ((da : Int) * wrapU 32 (256 - (sa : Int)))) 8 = ((dfaN sa da : Nat) : Int) := by
  have b := (nat_bounds sa da 0 0 hsa0 hsa hda (by omega) (by omega)).1
  have e1 : (256 : Int) - (sa : Int) = ((256 - sa : Nat) : Int) := by omega
  rw [e1, wrapU_nat, Nat.mod_eq_of_lt (by omega), ← Int.natCast_mul, wrapU_nat, Nat.mod_eq_of_lt b, shr_nat_lit]
  unfold dfaN; rw [nat_shr]

theorem gen_ba (sa da : Nat) (hsa0 : 0 < sa) (hsa : sa ≤ 255) (hda : da ≤ 255) :
    wrapU 32 ((sa : Int) + ((dfaN sa da : Nat) : Int)) = ((baN sa da : Nat) : Int) := by
  have b := (nat_bounds sa da 0 0 hsa0 hsa hda (by omega) (by omega)).2.1
  rw [← Int.natCast_add, wrapU_nat]
  unfold baN dfaN at *
  rw [Nat.mod_eq_of_lt (by omega)]

theorem gen_scale (sa da : Nat) (_hsa0 : 0 < sa) :
    Int.tdiv 16777216 ((baN sa da : Nat) : Int) = ((scaleN sa da : Nat) : Int) := by
  rw [Int.tdiv_eq_ediv_of_nonneg (by omega)]
  unfold scaleN
  exact (Int.natCast_ediv (2 ^ 24) (baN sa da)).symm

theorem gen_chan (sa da sc dc : Nat) (hsa0 : 0 < sa) (hsa : sa ≤ 255) (hda : da ≤ 255) (hsc : sc ≤ 255) (hdc : dc ≤ 255) :
    wrapU 8 (if decide (shr (wrapU 32 (wrapU 32 (wrapU 32 ((sc : Int) * (sa : Int)) + wrapU 32 ((dc : Int) * ((dfaN sa da : Nat) : Int))) * ((scaleN sa da : Nat) : Int))) 24 > 255) = true then 255
      else shr (wrapU 32 (wrapU 32 (wrapU 32 ((sc : Int) * (sa : Int)) + wrapU 32 ((dc : Int) * ((dfaN sa da : Nat) : Int))) * ((scaleN sa da : Nat) : Int))) 24)
      = ((chanN sa da sc dc : Nat) : Int) := by
  obtain ⟨-, hba, hU, hUs, hc⟩ := nat_bounds sa da sc dc hsa0 hsa hda hsc hdc
  have h1 : sc * sa < 2 ^ 32 := by
    have : sc * sa ≤ 255 * 255 := Nat.mul_le_mul hsc hsa
    omega
  have hdfa : dfaN sa da ≤ 255 := by unfold dfaN; omega
  have h2 : dc * dfaN sa da < 2 ^ 32 := by
    have : dc * dfaN sa da ≤ 255 * 255 := Nat.mul_le_mul hdc hdfa
    omega
  have h3 : sc * sa + dc * dfaN sa da < 2 ^ 32 := by
    have : sc * sa ≤ 255 * 255 := Nat.mul_le_mul hsc hsa
    have : dc * dfaN sa da ≤ 255 * 255 := Nat.mul_le_mul hdc hdfa
    omega
  have h4 : (sc * sa + dc * dfaN sa da) * scaleN sa da < 2 ^ 32 := by
    have : (sc * sa + dc * dfaN sa da) * scaleN sa da ≤ 255 * 2 ^ 24 := hUs
    omega
  have e : shr (wrapU 32 (wrapU 32 (wrapU 32 ((sc : Int) * (sa : Int)) + wrapU 32 ((dc : Int) * ((dfaN sa da : Nat) : Int))) * ((scaleN sa da : Nat) : Int))) 24
      = ((chanN sa da sc dc : Nat) : Int) := by
    rw [← Int.natCast_mul, ← Int.natCast_mul, wrapU_nat, wrapU_nat, Nat.mod_eq_of_lt h1, Nat.mod_eq_of_lt h2,
      ← Int.natCast_add, wrapU_nat, Nat.mod_eq_of_lt h3, ← Int.natCast_mul, wrapU_nat, Nat.mod_eq_of_lt h4, shr_nat_lit, nat_shr]
    rfl
  rw [e]
  have hc' : chanN sa da sc dc ≤ 255 := hc
  have : ¬ (((chanN sa da sc dc : Nat) : Int) > 255) := by omega
  simp only [this, decide_false, Bool.false_eq_true, if_false]
  exact wrapU8_of_range _ (by omega) (by omega)

theorem alphaBlendNRGBA_eq (s d : Px) :
    Generated.Funcs.alphaBlendNRGBA (toN s) (toN d) = .ok (toN (alphaBlendNRGBA s d)) := by
  have hsa := u8_le s.a; have hda := u8_le d.a
  unfold Generated.Funcs.alphaBlendNRGBA
  simp only [toN]
  by_cases h0 : s.a = 0
  · have : ((s.a.toNat : Int) = 0) := by rw [h0]; rfl
    simp only [this, decide_true, if_true, alphaBlend_src0 s d h0]
  have hs0 : 0 < s.a.toNat := u8_pos_of_ne_zero h0
  have n0 : ¬ ((s.a.toNat : Int) = 0) := by omega
  simp only [n0, decide_false, Bool.false_eq_true, if_false]
  by_cases h255 : s.a = 255
  · have : ((s.a.toNat : Int) = 255) := by rw [h255]; rfl
    simp only [this, decide_true, Bool.true_or, if_true, alphaBlend_src255 s d h255]
  have hs255 : s.a.toNat < 255 := u8_lt_255_of_ne h255
  have n255 : ¬ ((s.a.toNat : Int) = 255) := by omega
  by_cases hd0 : d.a = 0
  · have : ((d.a.toNat : Int) = 0) := by rw [hd0]; rfl
    simp only [this, decide_true, Bool.or_true, if_true, alphaBlend_dst0 s d h0 hd0]
  have hdpos : 0 < d.a.toNat := u8_pos_of_ne_zero hd0
  have nd0 : ¬ ((d.a.toNat : Int) = 0) := by omega
  simp only [n255, nd0, decide_false, Bool.or_self, Bool.false_eq_true, if_false]
  simp only [gen_dfa _ _ hs0 hsa hda, gen_ba _ _ hs0 hsa hda]
  have hba : 0 < baN s.a.toNat d.a.toNat := by unfold baN; omega
  have nba : ¬ (((baN s.a.toNat d.a.toNat : Nat) : Int) = 0) := by omega
  simp only [nba, decide_false, Bool.false_eq_true, if_false, chkDiv_of_ne _ nba, ok_bind, gen_scale _ _ hs0]
  simp only [gen_chan _ _ _ _ hs0 hsa hda (u8_le s.r) (u8_le d.r), gen_chan _ _ _ _ hs0 hsa hda (u8_le s.g) (u8_le d.g),
    gen_chan _ _ _ _ hs0 hsa hda (u8_le s.b) (u8_le d.b)]
  rw [alphaBlend_general s d h0 h255 hd0, blendFormula_eq]
  have c1 := chanN_le s.a d.a s.r d.r hs0
  have c2 := chanN_le s.a d.a s.g d.g hs0
  have c3 := chanN_le s.a d.a s.b d.b hs0
  have c4 : baN s.a.toNat d.a.toNat ≤ 255 := by
    have := (nat_bounds s.a.toNat d.a.toNat 0 0 hs0 hsa hda (by omega) (by omega)).2.1
    unfold baN dfaN; omega
  simp only [UInt8.toNat_ofNat', Nat.mod_eq_of_lt (show chanN s.a.toNat d.a.toNat s.r.toNat d.r.toNat < 2 ^ 8 by omega),
    Nat.mod_eq_of_lt (show chanN s.a.toNat d.a.toNat s.g.toNat d.g.toNat < 2 ^ 8 by omega),
    Nat.mod_eq_of_lt (show chanN s.a.toNat d.a.toNat s.b.toNat d.b.toNat < 2 ^ 8 by omega),
    Nat.mod_eq_of_lt (show baN s.a.toNat d.a.toNat < 2 ^ 8 by omega)]
  rw [wrapU8_of_range _ (by omega) (by omega)]

end Webp.Proofs.FuncsBlend
