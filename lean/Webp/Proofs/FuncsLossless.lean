import Generated.Funcs
import Webp.Impl.LTransform
import Webp.Proofs.FuncsBridge
/-
  Helper lemmas for `Webp/Props/C03Funcs.lean` (ties of the translated VP8L functions of
  `Generated/Funcs.lean` to `Webp.Impl.LTransform`).
-/
namespace Webp.Proofs.FuncsLossless
open Webp.Go Webp.Go.IntSem Webp.Proofs.FuncsBridge
open Webp.Impl.LTransform (chanAt)

theorem chan_0 (p : UInt32) : band (p.toNat : Int) 255 = chanAt p 0 := by
  simp only [band_nat_lit, chanAt, UInt32.toNat_and, UInt32.toNat_shiftRight, UInt32.toNat_ofNat,
    Nat.reducePow, Nat.reduceMod, Nat.shiftRight_zero]

theorem chan_8 (p : UInt32) : band (shr (p.toNat : Int) 8) 255 = chanAt p 8 := by
  simp only [shr_nat_lit, band_nat_lit, chanAt, UInt32.toNat_and, UInt32.toNat_shiftRight, UInt32.toNat_ofNat,
    Nat.reducePow, Nat.reduceMod]

theorem chan_16 (p : UInt32) : band (shr (p.toNat : Int) 16) 255 = chanAt p 16 := by
  simp only [shr_nat_lit, band_nat_lit, chanAt, UInt32.toNat_and, UInt32.toNat_shiftRight, UInt32.toNat_ofNat,
    Nat.reducePow, Nat.reduceMod]

theorem chan_24 (p : UInt32) : shr (p.toNat : Int) 24 = chanAt p 24 := by
  simp only [shr_nat_lit, chanAt, UInt32.toNat_and, UInt32.toNat_shiftRight, UInt32.toNat_ofNat,
    Nat.reducePow, Nat.reduceMod]
  congr 1
  have := p.toNat_lt
  simp only [nat_and_255, nat_shr]
  omega

theorem chanAt_range (p : UInt32) (s : UInt32) : 0 ≤ chanAt p s ∧ chanAt p s < 256 := by
  unfold chanAt
  simp only [UInt32.toNat_and, UInt32.toNat_ofNat, Nat.reducePow, Nat.reduceMod, nat_and_255]
  omega

open Webp.Impl.LTransform (clampByte) in
theorem clamp_bridge (v : Int) (h0 : -2147483648 ≤ v) (h1 : v < 2147483648) :
    wrapU 32 (if decide (v < 0) = true then 0 else if decide (v > 255) = true then 255 else v)
      = (((clampByte v).toUInt32).toNat : Int) := by
  unfold clampByte
  by_cases h : v < 0
  · simp [h, wrapU]
  · by_cases h2 : v > 255
    · simp [h, h2, wrapU]
    · simp only [h, h2, decide_false, if_false, Bool.false_eq_true]
      rw [wrapU32_of_range _ (by omega) (by omega)]
      simp only [UInt8.toNat_toUInt32, UInt8.toNat_ofNat']
      omega

theorem chanL_0 (p : UInt32) : band (shr (p.toNat : Int) 0) 255 = chanAt p 0 := by
  simp only [shr_nat_lit, band_nat_lit, chanAt, UInt32.toNat_and, UInt32.toNat_shiftRight, UInt32.toNat_ofNat,
    Nat.reducePow, Nat.reduceMod]

theorem chanL_24 (p : UInt32) : band (shr (p.toNat : Int) 24) 255 = chanAt p 24 := by
  simp only [shr_nat_lit, band_nat_lit, chanAt, UInt32.toNat_and, UInt32.toNat_shiftRight, UInt32.toNat_ofNat,
    Nat.reducePow, Nat.reduceMod]

theorem lit_bor_nat (m n : Nat) : bor (no_index (OfNat.ofNat m)) (n : Int) = ((m ||| n : Nat) : Int) := rfl

theorem CodeToPlane_eq : Generated.Funcs.CodeToPlane = Webp.Spec.LTransform.codeToPlane.map (fun (n : Nat) => (n : Int)) := by
  decide

theorem clamp1_aux (z : Int) :
    (if decide (z < 1) = true then (Res.ok 1 : R Int) else Res.ok z) = Res.ok ((if z < 1 then 1 else z.toNat : Nat) : Int) := by
  by_cases h : z < 1
  · simp [h]
  · simp only [h, decide_false, Bool.false_eq_true, if_false]
    congr 1; omega

end Webp.Proofs.FuncsLossless
