import Webp.Proofs.CodecFrontVP8LTop
import Webp.Proofs.CodecFrontVP8Out
/-
  VP8L front end, part 3: decodeImageStream, decodeSubImage (the recursion), DecodeVP8L.
-/
namespace Webp.Impl.CodecFrontL
open Webp.Go
open Webp.Impl.CodecFront (Mem memTotal)

variable {σ : Type}

/-! ### decodeImageStream -/

theorem cacheBits_post (L : LSrc σ) (s : σ) :
    (let c := rd L s 1
     (if c.1 = 1 then
        let b := rd L c.2 4
        if b.1 < 1 ∨ b.1 > 11 then (.err .bitstream : R (Nat × σ)) else .ok (b.1, b.2)
      else .ok (0, c.2))).Post (fun p => p.1 ≤ 11) := by
  dsimp only
  split
  · split
    · trivial
    · rename_i h; show _ ≤ 11; omega
  · show 0 ≤ 11; omega

/-- a sub-image stream (`isLevel0 = false`) reads no transform and never recurses, whatever `sub` is -/
theorem imageStream_quiet (L : LSrc σ) (memCap : Nat)
    (sub : Nat → Nat → St σ → R (Array UInt32 × St σ)) (xsize ysize : Nat) (st : St σ) :
    (imageStreamWith L memCap sub xsize ysize false st).Post (fun r =>
      r.1.1 = xsize ∧ Quiet memCap st r.2 9352) := by
  unfold imageStreamWith
  simp only [Bool.false_eq_true, if_false]
  show Res.Post _ ((Res.ok (xsize, st) : R (Nat × St σ)) >>= _)
  rw [Res.bind_ok]
  dsimp only
  refine Res.Post.bind (cacheBits_post L st.br) (fun cb hcb => ?_)
  obtain ⟨cacheBits, s⟩ := cb
  dsimp only at hcb ⊢
  refine Res.Post.bind (readHuffmanCodesWith_post L memCap sub xsize ysize cacheBits false
    { st with br := s } (fun h => by cases h)) (fun r hr => ?_)
  obtain ⟨hdr, st2⟩ := r
  have hq := hr.2.2.2 rfl
  dsimp only at hq ⊢
  refine Res.Post.bind (setupCache_post memCap cacheBits st2 hcb) (fun r3 h3 => ?_)
  obtain ⟨cs, st3⟩ := r3
  obtain ⟨q3, _⟩ := h3
  dsimp only at q3 ⊢
  have q0 : Quiet memCap st { st with br := s } 0 := ⟨Step.of_eq rfl rfl rfl, rfl, rfl, rfl⟩
  exact ⟨rfl, ((q0.trans hq).trans q3).weaken (by omega)⟩

theorem huffBytes_mono {x y W H : Nat} (hx : x ≤ W) (hy : y ≤ H) : huffBytes x y ≤ huffBytes W H := by
  have := Nat.mul_le_mul (q4_mono hx) (q4_mono hy)
  unfold huffBytes metaBytes
  omega

/-- bytes the level-0 `decodeImageStream` may allocate for an image declared `W × H`:
    two transform sub-images + the palette, the meta-prefix block with its groups, the colour cache -/
def streamBytes (W H : Nat) : Nat :=
  ((4 * (q4 W * q4 H) + 9352) + (4 * (q4 W * q4 H) + 9352) + 13448) + huffBytes W H + 8192

structure StreamOK (memCap W H xsize : Nat) (st : St σ) (r : (Nat × Meta) × St σ) : Prop where
  lo : 1 ≤ r.1.1
  hi : r.1.1 ≤ xsize
  inv : StInv r.2
  step : Step memCap st r.2 (streamBytes W H)

theorem imageStream0_post (L : LSrc σ) (memCap : Nat)
    (sub : Nat → Nat → St σ → R (Array UInt32 × St σ))
    (hsub : ∀ x y st, (sub x y st).Post (SubOK memCap x y st)) (W H : Nat) (st : St σ)
    (hs0 : st.seen = 0) (ht0 : st.transforms = []) (hW : 1 ≤ W) :
    (imageStreamWith L memCap sub W H true st).Post (StreamOK memCap W H W st) := by
  unfold imageStreamWith
  simp only [if_true]
  have hinv : StInv st := ⟨by rw [hs0]; decide, by rw [hs0, ht0]; rfl⟩
  refine Res.Post.bind (transformLoop_post L memCap sub hsub W H H (Nat.le_refl _) 5 W st hinv hW
    (Nat.le_refl _) (by omega)) (fun r1 h1 => ?_)
  obtain ⟨tx, st1⟩ := r1
  dsimp only at h1 ⊢
  have hp0 : paidWH W H st.seen = 0 := by rw [hs0]; rfl
  have hple := paid_le (4 * (q4 W * q4 H) + 9352) (4 * (q4 W * q4 H) + 9352) 13448 st1.seen
  have s1 : Step memCap st st1 ((4 * (q4 W * q4 H) + 9352) + (4 * (q4 W * q4 H) + 9352) + 13448) := by
    refine ⟨h1.depth, h1.maxDepth, ?_, h1.cap⟩
    have := h1.mem
    rw [hp0] at this
    unfold paidWH at this
    dsimp only at this
    omega
  refine Res.Post.bind (cacheBits_post L st1.br) (fun cb hcb => ?_)
  obtain ⟨cacheBits, s⟩ := cb
  dsimp only at hcb ⊢
  refine Res.Post.bind (readHuffmanCodesWith_post L memCap sub tx H cacheBits true
    { st1 with br := s } (fun _ => hsub)) (fun r hr => ?_)
  obtain ⟨hdr, st2⟩ := r
  obtain ⟨s2, e2, e3, _⟩ := hr
  dsimp only at s2 e2 e3 ⊢
  refine Res.Post.bind (setupCache_post memCap cacheBits st2 hcb) (fun r3 h3 => ?_)
  obtain ⟨cs, st3⟩ := r3
  obtain ⟨q3, _⟩ := h3
  dsimp only at q3 ⊢
  have hhb := huffBytes_mono (x := tx) (y := H) (W := W) (H := H) h1.hi (Nat.le_refl _)
  have s12 : Step memCap st1 st2 (huffBytes tx H) :=
    (Step.of_eq (a := st1) (b := { st1 with br := s }) rfl rfl rfl).trans s2 |>.weaken (by omega)
  refine ⟨h1.lo, h1.hi, ⟨?_, ?_⟩, ((s1.trans s12).trans q3.step).weaken ?_⟩
  · show st3.seen < 16
    rw [q3.seen, e2]; exact h1.inv.seen
  · show st3.transforms.length = pop4 st3.seen
    rw [q3.seen, q3.transforms, e2, e3]; exact h1.inv.len
  · unfold streamBytes
    omega

/-! ### decodeSubImage -/

theorem sub_mem_aux (t a s c : Nat) (h : a ≤ s + c) : t + a ≤ s + (t + c) := by omega

theorem subImageWith_post (L : LSrc σ) (memCap : Nat)
    (stream : Nat → Nat → St σ → R ((Nat × Meta) × St σ))
    (hstream : ∀ x y st, (stream x y st).Post (fun r => Quiet memCap st r.2 9352))
    (xsize ysize : Nat) (st : St σ) :
    (subImageWith L memCap stream xsize ysize st).Post (SubOK memCap xsize ysize st) := by
  unfold subImageWith
  dsimp only
  split
  · trivial
  refine Res.Post.bind (hstream xsize ysize _) (fun r hr => ?_)
  obtain ⟨⟨tx, hdr⟩, st2⟩ := r
  dsimp only at hr ⊢
  split
  · trivial
  refine Res.Post.bind (allocL_post memCap st2.mem _) (fun m hm => ?_)
  cases hi : L.imageData st2.br xsize ysize hdr with
  | none => trivial
  | some p =>
    obtain ⟨px, s⟩ := p
    dsimp only
    have hd := hr.step.depth
    have hmd := hr.maxDepth
    have hmem := hr.step.mem
    have hcap := hr.step.cap
    dsimp only at hd hmd hmem hcap
    refine ⟨Array.size_ofFn, ⟨?_, ?_, ?_, ?_⟩, hr.seen, hr.transforms⟩
    · show st.depth + 1 - 1 = st.depth
      omega
    · show st2.maxDepth ≤ st.maxDepth ∨ st2.maxDepth ≤ st.depth + 1
      rw [hmd]
      split <;> omega
    · show memTotal m ≤ memTotal st.mem + (4 * (xsize * ysize) + 9352)
      rw [hm.1]
      unfold memTotal at hmem ⊢
      simp only [List.sum_cons]
      exact sub_mem_aux _ _ _ _ hmem
    · intro v hv
      have hv' : v ∈ m := hv
      rw [hm.1] at hv'
      rcases List.mem_cons.mp hv' with rfl | h
      · exact Or.inr hm.2
      · exact hcap v h

/-- **the recursion**: with any fuel ≥ 1 `decodeSubImage` returns normally — the stream of a
    sub-image is read with `isLevel0 = false`, and such a stream never calls `decodeSubImage`. -/
theorem subImageF_post (L : LSrc σ) (memCap fuel xsize ysize : Nat) (st : St σ) :
    (subImageF L memCap (fuel + 1) xsize ysize st).Post (SubOK memCap xsize ysize st) := by
  unfold subImageF
  exact subImageWith_post L memCap _
    (fun x y st => (imageStream_quiet L memCap (subImageF L memCap fuel) x y st).mono (fun _ h => h.2))
    xsize ysize st

/-! ### DecodeVP8L -/

theorem decodeHeader_post (L : LSrc σ) (data : Bytes) :
    (decodeHeader L data).Post (fun r => 1 ≤ r.1.width ∧ r.1.width ≤ 16384 ∧ 1 ≤ r.1.height ∧
      r.1.height ≤ 16384) := by
  unfold decodeHeader
  by_cases h5 : data.length < 5
  · rw [if_pos h5]; trivial
  rw [if_neg h5]
  refine Res.Post.bind (idx_post data 0 (by omega)) (fun b0 _ => ?_)
  split
  · trivial
  refine Res.Post.bind (sliceFrom_post data 1 (by omega)) (fun rest _ => ?_)
  dsimp only
  have hw := rd_lt L (L.new rest) 14
  generalize rd L (L.new rest) 14 = w at hw
  have hh := rd_lt L w.2 14
  generalize rd L w.2 14 = h at hh
  have e14 : (2 : Nat) ^ 14 = 16384 := by norm_num
  split
  · trivial
  split
  · trivial
  · exact ⟨by show 1 ≤ w.1 + 1; omega, by show w.1 + 1 ≤ 16384; omega, by show 1 ≤ h.1 + 1; omega,
      by show h.1 + 1 ≤ 16384; omega⟩

theorem reuseOrGrowL_post (memCap : Nat) (m : Mem) (cap n sz : Nat) :
    (reuseOrGrowL memCap m cap n sz).Post (fun r => r.1 = n ∧ memTotal r.2 ≤ memTotal m + n * sz ∧
      (∀ x ∈ r.2, x ∈ m ∨ x ≤ memCap)) := by
  unfold reuseOrGrowL
  split
  · exact ⟨rfl, Nat.le_add_right _ _, fun x hx => Or.inl hx⟩
  · refine Res.Post.bind (allocL_post memCap m _) (fun m' hm' => ?_)
    refine ⟨rfl, ?_, ?_⟩
    · show memTotal m' ≤ _
      rw [hm'.1]; unfold memTotal; simp only [List.sum_cons]; omega
    · intro x hx
      have hx' : x ∈ m' := hx
      rw [hm'.1] at hx'
      rcases List.mem_cons.mp hx' with rfl | h
      · exact Or.inr hm'.2
      · exact Or.inl h

theorem sliceLenL_post (len a b : Nat) (h1 : a ≤ b) (h2 : b ≤ len) :
    (sliceLenL len a b).Post (fun r => r = b - a) := by
  unfold sliceLenL; rw [if_pos ⟨h1, h2⟩]; rfl

theorem argbRows_post (pixelsLen pixLen stride width height : Nat) (hp : pixelsLen = height * width)
    (hx : pixLen = height * stride) (hs : stride = 4 * width) :
    ∀ (n y : Nat), y + n ≤ height → (argbRows pixelsLen pixLen stride width n y).Post (fun _ => True)
  | 0, _, _ => trivial
  | n + 1, y, h => by
    unfold argbRows
    have h1 := Webp.Impl.CodecFront.row_le (r := y) (n := height) (s := width) (k := width) (by omega) (Nat.le_refl _)
    have h2 := Webp.Impl.CodecFront.row_le (r := y) (n := height) (s := stride) (k := width * 4) (by omega) (by omega)
    rw [if_pos ⟨by omega, by omega⟩]
    exact argbRows_post pixelsLen pixLen stride width height hp hx hs n (y + 1) (by omega)

theorem argbToNRGBA_post (memCap outLen width height : Nat) (m : Mem) (ho : outLen = width * height)
    (hw : width ≤ 16384) (hh : height ≤ 16384) :
    (argbToNRGBA memCap outLen width height m).Post (fun r => r.1.1 = 4 * width * height ∧
      r.1.2 = 4 * width ∧ memTotal r.2 ≤ memTotal m + 4 * width * height ∧
      (∀ x ∈ r.2, x ∈ m ∨ x ≤ memCap)) := by
  unfold argbToNRGBA
  have hwh : width * height ≤ 16384 * 16384 := Nat.mul_le_mul hw hh
  have e4 : 4 * width * height = 4 * (width * height) := by ring
  rw [if_neg (by omega)]
  refine Res.Post.bind (allocL_post memCap m _) (fun m' hm' => ?_)
  refine Res.Post.bind (argbRows_post outLen (4 * width * height) (4 * width) width height
    (by rw [ho, Nat.mul_comm]) (by ring) rfl height 0 (by omega)) (fun _ _ => ?_)
  refine ⟨rfl, rfl, ?_, ?_⟩
  · show memTotal m' ≤ _
    rw [hm'.1]; unfold memTotal; simp only [List.sum_cons]; omega
  · intro x hx
    have hx' : x ∈ m' := hx
    rw [hm'.1] at hx'
    rcases List.mem_cons.mp hx' with rfl | h
    · exact Or.inr hm'.2
    · exact Or.inl h

/-- total bytes the modelled part of `DecodeVP8L` may allocate for an image declared `W × H`:
    the 64 K-entry table slab, the image stream, `pixels` (+ 17 cache rows), `transformBuf`, and the
    NRGBA result -/
def losslessBytes (W H : Nat) : Nat :=
  262144 + streamBytes W H + 4 * (W * H + 17 * W) + 4 * (W * H) + 4 * (W * H)

structure FrontOK (memCap : Nat) (r : (Front × Nat × Nat) × Mem) : Prop where
  w1 : 1 ≤ r.1.1.hdr.width
  w2 : r.1.1.hdr.width ≤ 16384
  h1 : 1 ≤ r.1.1.hdr.height
  h2 : r.1.1.hdr.height ≤ 16384
  /-- the packed width never exceeds the declared one -/
  tw : 1 ≤ r.1.1.bufs.tw ∧ r.1.1.bufs.tw ≤ r.1.1.hdr.width
  numPixOrig : r.1.1.bufs.numPixOrig = r.1.1.hdr.width * r.1.1.hdr.height
  numPixTrans : r.1.1.bufs.numPixTrans = r.1.1.bufs.tw * r.1.1.hdr.height
  numAlloc : r.1.1.bufs.numAlloc = r.1.1.hdr.width * r.1.1.hdr.height
  needed : r.1.1.bufs.needed = r.1.1.hdr.width * r.1.1.hdr.height + 17 * r.1.1.hdr.width
  pixels : r.1.1.bufs.pixels = r.1.1.bufs.needed
  argbCache : r.1.1.bufs.argbCache = 16 * r.1.1.hdr.width
  transformBuf : r.1.1.bufs.transformBuf = r.1.1.bufs.numAlloc
  /-- at most 4 transforms, the recursion never went deeper than 1 -/
  transforms : r.1.1.transforms.length ≤ 4
  depth : r.1.1.maxDepth ≤ 1
  /-- the returned `*image.NRGBA`: `len(Pix) = 4·W·H`, `Stride = 4·W` -/
  pix : r.1.2.1 = 4 * r.1.1.hdr.width * r.1.1.hdr.height
  stride : r.1.2.2 = 4 * r.1.1.hdr.width
  mem : memTotal r.2 ≤ losslessBytes r.1.1.hdr.width r.1.1.hdr.height
  cap : ∀ x ∈ r.2, x ≤ memCap

theorem decodeVP8L_post (L : LSrc σ) (memCap : Nat) (caps : CapsL) (data : Bytes) (pixOK : Bool) :
    (decodeVP8L L memCap caps data pixOK).Post (FrontOK memCap) := by
  unfold decodeVP8L
  refine Res.Post.bind (decodeHeader_post L data) (fun r hr => ?_)
  obtain ⟨h, s⟩ := r
  obtain ⟨w1, w2, h1, h2⟩ := hr
  dsimp only at w1 w2 h1 h2 ⊢
  have hslab : (if caps.tableSlab < 65536 then allocL memCap [] (65536 * 4) else .ok []).Post
      (fun m => memTotal m ≤ 262144 ∧ ∀ x ∈ m, x ≤ memCap) := by
    split
    · refine (allocL_post memCap [] _).mono (fun m hm => ?_)
      rw [hm.1]
      refine ⟨by unfold memTotal; simp, fun x hx => ?_⟩
      rcases List.mem_cons.mp hx with rfl | hx
      · exact hm.2
      · cases hx
    · exact ⟨by unfold memTotal; simp, fun x hx => by cases hx⟩
  refine Res.Post.bind hslab (fun m0 hm0 => ?_)
  unfold imageStream0
  refine Res.Post.bind (imageStream0_post L memCap (subImageF L memCap 3)
    (fun x y st => subImageF_post L memCap 2 x y st) h.width h.height
    { br := s, mem := m0, capCache := caps.colorCache, capGroups := caps.groups } rfl rfl w1)
    (fun r1 hr1 => ?_)
  obtain ⟨⟨tw0, hdr⟩, st⟩ := r1
  have hlo := hr1.lo
  have hhi := hr1.hi
  have hstep := hr1.step
  have hinv := hr1.inv
  dsimp only at hlo hhi hstep hinv ⊢
  have htw : (if tw0 = 0 then h.width else tw0) = tw0 := by rw [if_neg (by omega)]
  rw [htw]
  have hP : h.width * h.height ≤ 16384 * 16384 := Nat.mul_le_mul w2 h2
  have p30 : (2 : Nat) ^ 30 = 1073741824 := by norm_num
  rw [if_neg (by omega)]
  have hT : tw0 * h.height ≤ h.width * h.height := Nat.mul_le_mul_right _ hhi
  have hna : (if tw0 * h.height > h.width * h.height then tw0 * h.height else h.width * h.height)
      = h.width * h.height := by rw [if_neg (by omega)]
  rw [hna]
  unfold numArgbCacheRows
  refine Res.Post.bind (reuseOrGrowL_post memCap st.mem caps.pixels _ 4) (fun r2 hr2 => ?_)
  obtain ⟨pixels, m2⟩ := r2
  obtain ⟨ep, mp, cp⟩ := hr2
  dsimp only at ep mp cp ⊢
  subst ep
  refine Res.Post.bind (sliceLenL_post _ _ _ (by omega) (Nat.le_refl _)) (fun argbCache hac => ?_)
  refine Res.Post.bind (reuseOrGrowL_post memCap m2 caps.transformBuf _ 4) (fun r3 hr3 => ?_)
  obtain ⟨tbuf, m3⟩ := r3
  obtain ⟨et, mt, ct⟩ := hr3
  dsimp only at et mt ct ⊢
  subst et
  refine Res.Post.bind (sliceLenL_post _ 0 _ (Nat.zero_le _) (by omega)) (fun _ _ => ?_)
  cases pixOK with
  | false => trivial
  | true =>
    show Res.Post _ (if (!true) = true then _ else _)
    rw [if_neg (by decide)]
    refine Res.Post.bind (sliceLenL_post _ 0 _ (Nat.zero_le _) (by omega)) (fun out hout => ?_)
    have hout' : out = h.width * h.height := by omega
    subst hout'
    refine Res.Post.bind (sliceLenL_post _ 0 _ (Nat.zero_le _) (by split <;> omega)) (fun _ _ => ?_)
    refine Res.Post.bind (argbToNRGBA_post memCap _ h.width h.height m3 rfl w2 h2) (fun r4 hr4 => ?_)
    obtain ⟨⟨pixLen, stride⟩, m4⟩ := r4
    obtain ⟨e1, e2, m4b, c4⟩ := hr4
    dsimp only at e1 e2 m4b c4 ⊢
    have hm0' := hm0.1
    have hsm := hstep.mem
    have hmd := hstep.maxDepth
    dsimp only at hsm hmd
    refine ⟨w1, w2, h1, h2, ⟨hlo, hhi⟩, rfl, rfl, rfl, ?_, rfl, ?_, rfl, ?_, ?_, e1, e2, ?_, ?_⟩
    · show h.width * h.height + h.width + h.width * 16 = h.width * h.height + 17 * h.width
      omega
    · show argbCache = 16 * h.width
      omega
    · show st.transforms.length ≤ 4
      rw [hinv.len]; unfold pop4; omega
    · show st.maxDepth ≤ 1
      rcases hmd with g | g <;> omega
    · show memTotal m4 ≤ losslessBytes h.width h.height
      unfold losslessBytes
      have e4 : 4 * h.width * h.height = 4 * (h.width * h.height) := by ring
      omega
    · intro x hx
      rcases c4 x hx with g | g
      · rcases ct x g with g | g
        · rcases cp x g with g | g
          · rcases hstep.cap x g with g | g
            · exact hm0.2 x g
            · exact g
          · exact g
        · exact g
      · exact g

end Webp.Impl.CodecFrontL
