import Webp.Proofs.MuxChunk
/-
  The RIFF wrapper: `riffWrap body = "RIFF" ++ le32 (4 + |body|) ++ "WEBP" ++ body`, and what each
  of the three readers does with it before looking at the chunks.
-/
namespace Webp.Proofs.MuxRiffWrap
open Webp.Go Webp.Impl Webp.Proofs.MuxBytes Webp.Proofs.MuxChunk
open Webp.Impl.Parser (ccRIFF ccWEBP ccVP8 ccVP8L ccVP8X chunkHeaderSize riffHeaderSize maxChunkPayload)

def riffWrap (body : Bytes) : Bytes :=
  putLE32 ccRIFF ++ (putLE32 (4 + body.length) ++ (putLE32 ccWEBP ++ body))

structure RiffFacts (data body : Bytes) : Prop where
  len : data.length = 12 + body.length
  tag0 : le32 data 0 = ccRIFF
  size : le32 data 4 = 4 + body.length
  tag8 : le32 data 8 = ccWEBP
  drop : data.drop 12 = body
  take : data.take (12 + body.length) = data

theorem riffWrap_facts (body : Bytes) (h : 4 + body.length < 4294967296) :
    RiffFacts (riffWrap body) body := by
  have hl : (riffWrap body).length = 12 + body.length := by simp [riffWrap]; omega
  refine ⟨hl, ?_, ?_, ?_, ?_, ?_⟩
  · unfold riffWrap; rw [le32_hdr0, ccRIFF_val]
  · unfold riffWrap; rw [le32_hdr4]; omega
  · unfold riffWrap
    have := le32_append_right (putLE32 ccRIFF ++ putLE32 (4 + body.length)) (putLE32 ccWEBP ++ body) 0
    simp only [List.length_append, putLE32_length, Nat.add_zero, List.append_assoc] at this
    rw [this, le32_hdr0, ccWEBP_val]
  · unfold riffWrap
    have : putLE32 ccRIFF ++ (putLE32 (4 + body.length) ++ (putLE32 ccWEBP ++ body)) =
        (putLE32 ccRIFF ++ putLE32 (4 + body.length) ++ putLE32 ccWEBP) ++ body := by
      simp only [List.append_assoc]
    rw [this]
    exact List.drop_left' (by simp)
  · rw [← hl]; exact List.take_length

/-- demux.go parse: header checks pass, the payload is `body` -/
theorem demux_riff {data body : Bytes} (f : RiffFacts data body) (hb : 8 ≤ body.length) :
    Demux.parseWith true data =
      (if le32 body 0 = ccVP8X then Demux.parseExtended body
       else if le32 body 0 = ccVP8 then Demux.parseSimpleVP8 body
       else if le32 body 0 = ccVP8L then Demux.parseSimpleVP8L body
       else .err .other) := by
  have h1 : ¬ (12 + body.length < 12) := by omega
  have h2 : ¬ (4 + body.length + 8 > 12 + body.length) := by omega
  have h3 : ¬ (4 + body.length + 8 < 12) := by omega
  have h4 : (12 ≤ 4 + body.length + 8 ∧ 4 + body.length + 8 ≤ 12 + body.length) := by omega
  have h5 : ¬ (body.length < 8) := by omega
  have e : (4 + body.length + 8) = 12 + body.length := by omega
  simp only [Demux.parseWith, f.tag0, f.size, f.tag8, f.len, riffHeaderSize, chunkHeaderSize, slice,
    h1, h2, h3, h4, if_false, if_true, ne_eq, not_true_eq_false, and_self, and_true, true_and,
    Res.bind_ok, e, f.take, f.drop, h5, ite_self, Nat.le_add_right, Nat.le_refl]

/-- parser.go parse: header checks pass, the buffer is `body` -/
theorem parser_riff {data body : Bytes} (f : RiffFacts data body) (hb : 8 ≤ body.length)
    (hmax : 4 + body.length ≤ 4294967286) :
    Parser.parse data =
      (if le32 body 0 = ccVP8X then Parser.parseVP8X body
       else if le32 body 0 = ccVP8 then Parser.parseSingleImage { features := { format := .vp8 } } body
       else if le32 body 0 = ccVP8L then Parser.parseSingleImage { features := { format := .vp8l } } body
       else .err .unsupported) := by
  have hm : maxChunkPayload = 4294967286 := by decide
  have h1 : ¬ (12 + body.length < 12) := by omega
  have h2 : ¬ (4 + body.length + 8 > 12 + body.length) := by omega
  have h3 : ¬ (4 + body.length < 8) := by omega
  have h4 : (12 ≤ 4 + body.length + 8 ∧ 4 + body.length + 8 ≤ 12 + body.length) := by omega
  have h5 : ¬ (body.length < 8) := by omega
  have h6 : ¬ (4 + body.length > 4294967286) := by omega
  have e : (4 + body.length + 8) = 12 + body.length := by omega
  simp only [Parser.parse, Parser.parseRIFFHeader, f.tag0, f.size, f.tag8, f.len, riffHeaderSize,
    chunkHeaderSize, slice, hm, h1, h2, h3, h4, h6, if_false, if_true, ne_eq, not_true_eq_false,
    and_self, Res.bind_ok, e, f.take, f.drop, h5, ite_self, Nat.le_add_right, Nat.le_refl]

/-- the spec walker: header checks pass (for an even payload), the chunks are those of `body` -/
theorem wf_riff {data body : Bytes} (f : RiffFacts data body) (hev : body.length % 2 = 0) :
    Webp.Spec.Riff.wellFormed data =
      (Webp.Spec.Riff.splitChunks (data.length + 1) body >>= Webp.Spec.Riff.layoutOf) := by
  have t0 : Webp.Spec.Riff.tagRIFF = ccRIFF := rfl
  have t8 : Webp.Spec.Riff.tagWEBP = ccWEBP := rfl
  have h1 : ¬ (12 + body.length < 12) := by omega
  have h2 : (4 + body.length) % 2 = 0 := by omega
  have e : (4 + body.length + 8) = 12 + body.length := by omega
  simp only [Webp.Spec.Riff.wellFormed, f.tag0, f.size, f.tag8, f.drop, t0, t8, f.len, h1, h2, e,
    if_false, ne_eq, not_true_eq_false]

end Webp.Proofs.MuxRiffWrap
