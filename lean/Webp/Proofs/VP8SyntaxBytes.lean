import Webp.Proofs.VP8SyntaxTransfer
import Webp.Proofs.VP8ReconAgree
/-
  C06 bytes, part 3: the readers over the bytes the boolean writer produced reproduce the decision
  streams (`Webp.Props.C06Bool.bool_roundtrip_st`, header calls included), and the frame theorems.
-/
namespace Webp.Proofs.VP8SyntaxBytesP
open Webp.Go (Bytes)
open Webp.Impl.VP8Recon Webp.Impl.VP8SyntaxBytes Webp.Impl.BoolCoder
open Webp.Proofs.VP8SyntaxTrees Webp.Proofs.VP8SyntaxTransfer Webp.Proofs.BoolOps Webp.Proofs.BoolWriter
open Webp.Proofs.VP8ReconSyntax

variable (prob : Slot → UInt8)

/-- the `(bit, prob)` pairs of a decision stream -/
def symsOf (s : Stream) : List (Bool × Nat) := s.map fun d => (d.bit, (prob d.slot).toNat)

theorem symsOf_probs (s : Stream) : (symsOf prob s).map (·.2) = probs prob s := by
  simp [symsOf, probs, Function.comp_def]
theorem symsOf_bits (s : Stream) : (symsOf prob s).map (·.1) = bitsOf s := by
  simp [symsOf, bitsOf, Function.comp_def]

theorem toOps_symbols (s : Stream) : (toOps prob s).flatMap symbols = symsOf prob s := by
  induction s with
  | nil => rfl
  | cons d s ih =>
    show symbols (Op.bit d.bit (prob d.slot).toNat) ++ (toOps prob s).flatMap symbols = _
    rw [ih]; rfl

theorem toOps_valid (s : Stream) : ∀ op ∈ toOps prob s, op.Valid := by
  intro op hop
  obtain ⟨d, _, rfl⟩ := List.mem_map.mp hop
  show (prob d.slot).toNat ≤ 255
  have := (prob d.slot).toNat_lt
  omega

/-- reading operations back, keeping the reader (cf. `BoolOps.readOps_eq`) -/
theorem readOpsSt_eq {ops : List Op} (hv : ∀ op ∈ ops, op.Valid) (r : BoolReader)
    (h : (readBitsSt r ((ops.flatMap symbols).map (·.2))).1 = (ops.flatMap symbols).map (·.1)) :
    readOpsSt r ops = (ops, (readBitsSt r ((ops.flatMap symbols).map (·.2))).2) := by
  induction ops generalizing r with
  | nil => rfl
  | cons op ops ih =>
    have hop := hv op (by simp)
    rw [List.flatMap_cons, List.map_append, List.map_append, readBitsSt_append] at h
    simp only at h
    have hlen : (readBitsSt r ((symbols op).map (·.2))).1.length = ((symbols op).map (·.1)).length := by
      rw [readBitsSt_length]; simp
    obtain ⟨hx, hy⟩ := List.append_inj h hlen
    show ((op.read r).1 :: (readOpsSt (op.read r).2 ops).1, (readOpsSt (op.read r).2 ops).2) = _
    rw [read_eq hop r hx]
    simp only
    rw [ih (fun o ho => hv o (by simp [ho])) _ hy]
    simp only [List.flatMap_cons, List.map_append, readBitsSt_append]

/-- **The reader over a written partition.**  After the reader calls for the header operations
    (which return the header), `GetBit` on the stream's probabilities reproduces the decision stream,
    and the reader has still not raised `eof` when the last decision has been read. -/
theorem partition_repro (hdr : List Op) (hh : ∀ op ∈ hdr, op.Valid) (s : Stream) :
    (readOpsSt (newReader (emitPartitionBytes prob hdr s)) hdr).1 = hdr ∧
    Repro prob (readOpsSt (newReader (emitPartitionBytes prob hdr s)) hdr).2 s ∧
    (after prob (readOpsSt (newReader (emitPartitionBytes prob hdr s)) hdr).2 s).eof = false := by
  have hv : ∀ op ∈ hdr ++ toOps prob s, op.Valid := by
    intro op hop
    rcases List.mem_append.mp hop with h | h
    · exact hh op h
    · exact toOps_valid prob s op h
  have hF : emitPartitionBytes prob hdr s = Webp.Props.C06Bool.encodeBits ((hdr ++ toOps prob s).flatMap symbols) := by
    unfold emitPartitionBytes Webp.Props.C06Bool.encodeBits
    rw [writeAll_eq hv winv_init (by norm_num : (0 : Nat) ≤ 8)]
  obtain ⟨hb, he⟩ := Webp.Props.C06Bool.bool_roundtrip_st _ (flatMap_valid hv)
  rw [← hF] at hb he
  rw [List.flatMap_append, toOps_symbols] at hb he
  rw [List.map_append, List.map_append, readBitsSt_append] at hb
  rw [List.map_append, readBitsSt_append] at he
  simp only at hb he
  have hlen : (readBitsSt (newReader (emitPartitionBytes prob hdr s)) ((hdr.flatMap symbols).map (·.2))).1.length
      = ((hdr.flatMap symbols).map (·.1)).length := by
    rw [readBitsSt_length]; simp
  obtain ⟨hx, hy⟩ := List.append_inj hb hlen
  have hro := readOpsSt_eq hh _ hx
  rw [hro]
  refine ⟨rfl, ?_, ?_⟩
  · show (readBitsSt _ (probs prob s)).1 = bitsOf s
    rw [← symsOf_probs, ← symsOf_bits]; exact hy
  · show (readBitsSt _ (probs prob s)).2.eof = false
    rw [← symsOf_probs]; exact he

/-- the byte-level frame parser on the written partitions: same records as the stream-level parser,
    every reader ends inside its partition's decisions with `eof` still false -/
theorem parseMBsBytes_written (K : Kernels) (dqm : Fin 4 → QuantMatrix) (fs : FrameSyntax)
    (hdr : List Op) (hh : ∀ op ∈ hdr, op.Valid) (S : Streams) (ks : List Nat) (c : TokCtx) (col : ColData)
    (out out' : Nat → MBModes × ResData) (h : parseMBs K dqm fs ks c S col out = some out') :
    ∃ r0' rp',
      parseMBsBytes K dqm fs prob ks c (readOpsSt (newReader (emitPartitionBytes prob hdr S.part0)) hdr).2
        (fun p => newReader (emitPartitionBytes prob [] (S.parts p))) col out = some (out', r0', rp') ∧
      r0'.eof = false ∧ ∀ p, (rp' p).eof = false := by
  obtain ⟨_, h0, he0⟩ := partition_repro prob hdr hh S.part0
  have hp : ∀ p, Repro prob (newReader (emitPartitionBytes prob [] (S.parts p))) (S.parts p) ∧
      (after prob (newReader (emitPartitionBytes prob [] (S.parts p))) (S.parts p)).eof = false := by
    intro p
    obtain ⟨_, a, b⟩ := partition_repro prob [] (by simp) (S.parts p)
    exact ⟨a, b⟩
  obtain ⟨r0', rp', hrun, ⟨pre0, ⟨t0, ht0⟩, hr0⟩, hparts⟩ :=
    parseMBs_sim prob K dqm fs ks c S col out out' h _ _ h0 (fun p => (hp p).1)
  refine ⟨r0', rp', hrun, ?_, fun p => ?_⟩
  · rw [hr0]
    apply after_eof_mono prob _ pre0 t0
    rw [ht0]; exact he0
  · obtain ⟨pre, ⟨t, ht⟩, hr⟩ := hparts p
    rw [hr]
    apply after_eof_mono prob _ pre t
    rw [ht]; exact (hp p).2

end Webp.Proofs.VP8SyntaxBytesP
