import Webp.Proofs.VP8LWindow
/-
  The WINDOW BUDGET of the VP8L pixel loop, part 2: the extra-bits reads, and the continuations of
  one token read (`readA`, `readBA`, `readRBA`, `readDist`, `readCopy`, `afterGreen`) against the
  specification's `readToken`.
-/
namespace Webp.Proofs.VP8LWindow
open Webp.Go (Res)
open Webp.Spec.VP8L (BitReader Err Token Code Group)
open Webp.Impl.VP8LEntropy
open Webp.Impl.VP8LWindow
open Webp.Impl.VP8LFastPaths (HTreeGroup)
open Webp.Proofs.VP8LEntropyBits
open Webp.Proofs.VP8LEntropyReader

/-! ## extra bits -/

theorem mask32_toNat (n : Nat) (hn : n ≤ 32) (x : UInt32) :
    (x &&& UInt32.ofNat ((1 <<< n) - 1)).toNat = x.toNat % 2 ^ n := by
  rw [UInt32.toNat_and, UInt32.toNat_ofNat', Nat.one_shiftLeft]
  have hle : 2 ^ n ≤ 2 ^ 32 := Nat.pow_le_pow_right (by decide) hn
  have hp : 0 < 2 ^ n := Nat.pow_pos (by decide)
  rw [Nat.mod_eq_of_lt (by omega), Nat.and_two_pow_sub_one_eq_mod]

/-- the specification's `ReadBits(n)` at bit `P` of the zero-extended input -/
theorem spec_readBits_at (buf : Array UInt8) (P n : Nat) (hn : n ≤ 32) :
    (P + n ≤ nbits buf →
      (brAt buf P).readBits n = .ok (peekBits (brAt buf P) 32 % 2 ^ n, brAt buf (P + n))) ∧
    (P ≤ nbits buf → nbits buf < P + n → (brAt buf P).readBits n = .err .eos) := by
  have hlen : (restBits (brAt buf P)).length = nbits buf - P := restBits_length (brAt buf P)
  constructor
  · intro hP
    have hsplit : restBits (brAt buf P) = (restBits (brAt buf P)).take n ++ (restBits (brAt buf P)).drop n :=
      (List.take_append_drop n _).symm
    have htl : ((restBits (brAt buf P)).take n).length = n := by rw [List.length_take, hlen]; omega
    have := (readBits_of_rest hsplit).1
    rw [htl] at this
    rw [this]
    unfold peekBits
    rw [Webp.Proofs.VP8LEntropyTableF.ofBitsLE_take_mod, List.take_take, Nat.min_eq_left hn]
    rfl
  · intro hP0 hP
    exact readBits_short n (by rw [hlen]; omega)

/-- **one extra-bits read inside the budget** (`getCopyLength` / `getCopyDistance` inlined):
    with `n = (sym − 2) >> 1 ≤ m` extra bits and `(slack after the optional refill) + m ≤ 64`, the
    value is the specification's `readPrefixValue` and the window stays consistent — or both sides
    run past the end of the input. -/
theorem readExtra_good {buf : Array UInt8} {r : Reader} {P k : Nat} (hg : Good buf r P k) (hk : k ≤ 64)
    (fill : Bool) (sym m : Nat) (hn : (sym - 2) / 2 ≤ m) (hm : m ≤ 32)
    (hbud : after fill k + m ≤ 64) :
    (∃ P', Webp.Spec.VP8L.readPrefixValue sym (brAt buf P) = .ok ((readExtra goOps fill sym r).1, brAt buf P') ∧
        Good buf (readExtra goOps fill sym r).2 P' (max k (after fill k + m))) ∨
    (Webp.Spec.VP8L.readPrefixValue sym (brAt buf P) = .err .eos ∧ Doomed (readExtra goOps fill sym r).2) := by
  unfold readExtra Webp.Spec.VP8L.readPrefixValue
  by_cases h4 : sym < 4
  · rw [if_pos h4, if_pos h4]
    exact Or.inl ⟨P, rfl, hg.mono (Nat.le_max_left _ _)⟩
  · rw [if_neg h4, if_neg h4]
    have hg1 := fillIf_good fill hg hk
    generalize fillIf goOps fill r = r1 at hg1 ⊢
    simp only [goOps, Nat.shiftRight_eq_div_pow, Nat.pow_one]
    generalize hnn : (sym - 2) / 2 = n at hn
    have hn1 : 1 ≤ n := by omega
    generalize hk' : after fill k = k' at hg1 hbud ⊢
    obtain ⟨s1, s2⟩ := spec_readBits_at buf P n (by omega)
    by_cases hP : P + n ≤ nbits buf
    · left
      obtain ⟨ga, gb, gc⟩ := win_geom hg1.win
      have hlt : r1.bitPos < 64 := by
        rcases hg1.room with h1 | ⟨h1, h2⟩
        · omega
        · have := gc h1; omega
      refine ⟨P + n, ?_, (advance_good hg1 n hP).mono (by omega)⟩
      rw [s1 hP]
      simp only
      rw [mask32_toNat n (by omega), prefetch_low hg1 n (by omega) (by omega) hlt]
    · right
      rw [s2 (hg.P_le hk) (by omega)]
      exact ⟨rfl, advance_doomed hg1 n (by omega) (by omega)⟩

theorem readExtra_pos (fill : Bool) (sym : Nat) (r : Reader) : 1 ≤ (readExtra goOps fill sym r).1 := by
  unfold readExtra
  by_cases h4 : sym < 4
  · rw [if_pos h4]; simp
  · rw [if_neg h4]; exact Nat.le_add_left 1 _

theorem readExtra_doomed {r : Reader} (hd : Doomed r) (fill : Bool) (sym : Nat) :
    Doomed (readExtra goOps fill sym r).2 := by
  unfold readExtra
  by_cases h4 : sym < 4
  · rw [if_pos h4]; exact hd
  · rw [if_neg h4]
    exact doomed_advance (doomed_fillIf fill hd) _


/-! ## tables for codes -/

/-- table `t` was built for code `c` over an alphabet of `A` symbols -/
structure TabFor (c : Code) (t : Table) (A : Nat) : Prop where
  ok : TableOK t A
  spec : ∀ br : BitReader, br.pos ≤ 8 * br.data.size →
    Webp.Impl.VP8LEntropy.readSymbol 8 t br = Webp.Spec.VP8L.readSymbol c br

theorem tabFor_of_build {lens : Array Nat} {c : Code} {t : Table}
    (h : Webp.Spec.VP8L.buildCode lens = .ok c) (ht : buildTable 8 lens = .ok t) : TabFor c t lens.size := by
  refine ⟨tableOK_of_buildCode h ht, ?_⟩
  obtain ⟨t', ht', hall⟩ := Webp.Proofs.VP8LEntropyTableF.table_lookup_eq_canonical h 8 (by omega) (by omega)
  rw [ht] at ht'
  cases ht'
  exact hall

theorem TabFor.mono {c : Code} {t : Table} {A B : Nat} (h : TabFor c t A) (hAB : A ≤ B) : TabFor c t B :=
  ⟨⟨fun w => by obtain ⟨v, u, a, b, d⟩ := h.ok.total w; exact ⟨v, u, a, b, by omega⟩, h.ok.low15, h.ok.zeroOrPos⟩,
   h.spec⟩

/-- one lookup against the SPECIFICATION's bit-serial `readSymbol` -/
theorem sym_step {c : Code} {t : Table} {A : Nat} (hT : TabFor c t A) {buf : Array UInt8} {r : Reader}
    {P k : Nat} (hg : Good buf r P k) (hk : k + 15 ≤ 64) (tree : String) :
    ∃ v used, readSym goOps tree t r = .ok (v, r.advance used) ∧ v < A ∧
      ((Webp.Spec.VP8L.readSymbol c (brAt buf P) = .ok (v, brAt buf (P + used)) ∧
          Good buf (r.advance used) (P + used) (k + 15)) ∨
       (Webp.Spec.VP8L.readSymbol c (brAt buf P) = .err .eos ∧ Doomed (r.advance used))) := by
  obtain ⟨v, used, h1, _, h3, h4⟩ := readSym_good hT.ok hg hk tree
  have hP : (brAt buf P).pos ≤ 8 * (brAt buf P).data.size := hg.P_le (by omega)
  rw [hT.spec _ hP] at h4
  exact ⟨v, used, h1, h3, h4⟩

/-- the five tables of a group were built (`BuildHuffmanTable(8, ·)`) from length vectors that the
    specification turns into the five codes; alphabets: 256 for red/blue/alpha, 40 for distance -/
structure GroupOK (G : Group) (g : HTreeGroup) : Prop where
  green : ∃ A, TabFor G.green g.green A
  red : TabFor G.red g.red 256
  blue : TabFor G.blue g.blue 256
  alpha : TabFor G.alpha g.alpha 256
  dist : TabFor G.dist g.dist 40

/-! ## the budget as a predicate on the refill sites -/

theorem fillIf_good' {buf : Array UInt8} {r : Reader} {P k : Nat} (b : Bool) (h : Good buf r P k) (hk : k ≤ 64) :
    Good buf (fillIf goOps b r) P (after b k) := fillIf_good b h hk

/-- alpha fits: register position before the lookup + 15 ≤ 64 -/
def wA (fs : FillSites) (k : Nat) : Prop := after fs.alpha k + 15 ≤ 64
/-- blue, then alpha -/
def wBA (fs : FillSites) (k : Nat) : Prop := after fs.blue k + 15 ≤ 64 ∧ wA fs (after fs.blue k + 15)
/-- red, then blue, then alpha -/
def wRBA (fs : FillSites) (k : Nat) : Prop := after fs.red k + 15 ≤ 64 ∧ wBA fs (after fs.red k + 15)
/-- distance symbol (≤ 15 bits), then its extra bits (≤ 18) -/
def wDist (fs : FillSites) (k : Nat) : Prop :=
  after fs.dist k + 15 ≤ 64 ∧ after fs.distExtra (after fs.dist k + 15) + 18 ≤ 64
/-- length extra bits (≤ 10), then the distance part -/
def wCopy (fs : FillSites) (k : Nat) : Prop :=
  after fs.lenExtra k + 10 ≤ 64 ∧ wDist fs (max k (after fs.lenExtra k + 10))
/-- **the refills of `fs` are sufficient**: green (≤ 15 bits) fits after the top refill, and from
    there the literal path and the backward-reference path stay inside the 64-bit register -/
def Sufficient (fs : FillSites) : Prop :=
  after fs.top 64 + 15 ≤ 64 ∧ wRBA fs (after fs.top 64 + 15) ∧ wCopy fs (after fs.top 64 + 15)

instance (fs : FillSites) : Decidable (Sufficient fs) := by
  unfold Sufficient wCopy wDist wRBA wBA wA; infer_instance

/-! ## both sides of one token read -/

/-- the Go side and the specification side agree: the same token with a consistent window at the
    specification's position, or `eos` on both sides -/
def Agree (buf : Array UInt8) (go : Res Err (Token × Reader)) (sp : Res Err (Token × BitReader)) : Prop :=
  (∃ t r' P', go = .ok (t, r') ∧ sp = .ok (t, brAt buf P') ∧ Good buf r' P' 64) ∨
  (go = .err .eos ∧ sp = .err .eos)

open Webp.Spec.VP8L in
/-- the specification's `readToken`, cut at the same places as the Go loop body -/
def specA (G : Group) (s red blue : Nat) (br : BitReader) : Res Err (Token × BitReader) :=
  match readSymbol G.alpha br with
  | .ok (alpha, br) => .ok (.literal (mkARGB alpha.toUInt32 red.toUInt32 s.toUInt32 blue.toUInt32), br)
  | .err e => .err e
  | .panic => .panic
  | .hang => .hang

open Webp.Spec.VP8L in
def specBA (G : Group) (s red : Nat) (br : BitReader) : Res Err (Token × BitReader) :=
  match readSymbol G.blue br with
  | .ok (blue, br) => specA G s red blue br
  | .err e => .err e
  | .panic => .panic
  | .hang => .hang

open Webp.Spec.VP8L in
def specRBA (G : Group) (s : Nat) (br : BitReader) : Res Err (Token × BitReader) :=
  match readSymbol G.red br with
  | .ok (red, br) => specBA G s red br
  | .err e => .err e
  | .panic => .panic
  | .hang => .hang

open Webp.Spec.VP8L in
def specDist (G : Group) (xsize length : Nat) (br : BitReader) : Res Err (Token × BitReader) :=
  match readSymbol G.dist br with
  | .ok (ds, br) =>
    match readPrefixValue ds br with
    | .ok (distCode, br) => .ok (.copy length (planeCodeToDistance xsize distCode), br)
    | .err e => .err e
    | .panic => .panic
    | .hang => .hang
  | .err e => .err e
  | .panic => .panic
  | .hang => .hang

open Webp.Spec.VP8L in
def specCopy (G : Group) (xsize s : Nat) (br : BitReader) : Res Err (Token × BitReader) :=
  match readPrefixValue (s - numLiteralCodes) br with
  | .ok (length, br) => specDist G xsize length br
  | .err e => .err e
  | .panic => .panic
  | .hang => .hang

open Webp.Spec.VP8L in
def specAfterGreen (G : Group) (xsize s : Nat) (br : BitReader) : Res Err (Token × BitReader) :=
  if s < numLiteralCodes then specRBA G s br
  else if s < numLiteralCodes + numLengthCodes then specCopy G xsize s br
  else .ok (.cache (s - (numLiteralCodes + numLengthCodes)), br)

open Webp.Spec.VP8L in
theorem readToken_eq (G : Group) (xsize : Nat) (br : BitReader) :
    readToken G xsize br =
      match readSymbol G.green br with
      | .ok (s, br) => specAfterGreen G xsize s br
      | .err e => .err e
      | .panic => .panic
      | .hang => .hang := by
  unfold readToken specAfterGreen specRBA specBA specA specCopy specDist
  simp only [bind, Res.bind, pure]
  cases readSymbol G.green br with
  | ok x =>
    obtain ⟨s, br1⟩ := x
    simp only
    by_cases h1 : s < numLiteralCodes
    · rw [if_pos h1, if_pos h1]
      cases readSymbol G.red br1 with
      | ok x =>
        obtain ⟨red, br2⟩ := x
        simp only
        cases readSymbol G.blue br2 with
        | ok x =>
          obtain ⟨blue, br3⟩ := x
          simp only
          cases readSymbol G.alpha br3 with
          | ok x => rfl
          | err e => rfl
          | panic => rfl
          | hang => rfl
        | err e => rfl
        | panic => rfl
        | hang => rfl
      | err e => rfl
      | panic => rfl
      | hang => rfl
    · rw [if_neg h1, if_neg h1]
      by_cases h2 : s < numLiteralCodes + numLengthCodes
      · rw [if_pos h2, if_pos h2]
        cases readPrefixValue (s - numLiteralCodes) br1 with
        | ok x =>
          obtain ⟨length, br2⟩ := x
          simp only
          cases readSymbol G.dist br2 with
          | ok x =>
            obtain ⟨ds, br3⟩ := x
            simp only
            cases readPrefixValue ds br3 with
            | ok x => rfl
            | err e => rfl
            | panic => rfl
            | hang => rfl
          | err e => rfl
          | panic => rfl
          | hang => rfl
        | err e => rfl
        | panic => rfl
        | hang => rfl
      · rw [if_neg h2, if_neg h2]
  | err e => rfl
  | panic => rfl
  | hang => rfl

end Webp.Proofs.VP8LWindow
