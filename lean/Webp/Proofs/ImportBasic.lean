import Webp.Impl.Import
/-
  Helper lemmas for C19 (pixel import): loop combinators, loads under `Valid`, row-major fills.
-/
namespace Webp.Proofs.Import
open Webp.Go Webp.Impl.Import

/-! ### `Res` monad -/

theorem bind_assoc' {α β γ : Type} (x : R α) (f : α → R β) (g : β → R γ) :
    (x >>= f) >>= g = x >>= fun a => f a >>= g := by
  cases x <;> rfl

theorem bind_ok_right {α : Type} (x : R α) : (x >>= fun a => (Res.ok a : R α)) = x := by
  cases x <;> rfl

/-! ### loops -/

@[simp] theorem forN_zero {σ : Type} (body : Nat → σ → R σ) (s : σ) : forN 0 body s = .ok s := rfl

theorem forN_succ {σ : Type} (n : Nat) (body : Nat → σ → R σ) (s : σ) :
    forN (n + 1) body s = forN n body s >>= body n := rfl

/-- loop invariant rule: all iterations succeed and the invariant is carried to the end -/
theorem forN_inv {σ : Type} (P : Nat → σ → Prop) (n : Nat) (body : Nat → σ → R σ) (s0 : σ)
    (h0 : P 0 s0)
    (hstep : ∀ i s, i < n → P i s → ∃ s', body i s = .ok s' ∧ P (i + 1) s') :
    ∃ s', forN n body s0 = .ok s' ∧ P n s' := by
  induction n with
  | zero => exact ⟨s0, rfl, h0⟩
  | succ n ih =>
    obtain ⟨s1, h1, p1⟩ := ih (fun i s hi => hstep i s (by omega))
    obtain ⟨s2, h2, p2⟩ := hstep n s1 (by omega) p1
    exact ⟨s2, by rw [forN_succ, h1]; exact h2, p2⟩

/-- invariant rule for `forN … >>= fun st => .ok (k st)` with an existential conclusion -/
theorem forN_inv_proj {σ β : Type} (P : Nat → σ → Prop) {n : Nat} {body : Nat → σ → R σ} {s0 : σ}
    {k : σ → β} {G : β → Prop} (h0 : P 0 s0)
    (hstep : ∀ i s, i < n → P i s → ∃ s', body i s = .ok s' ∧ P (i + 1) s')
    (hk : ∀ s', P n s' → G (k s')) :
    ∃ b, (forN n body s0 >>= fun st => (Res.ok (k st) : R β)) = .ok b ∧ G b := by
  obtain ⟨s', h1, h2⟩ := forN_inv P n body s0 h0 hstep
  exact ⟨k s', by rw [h1]; rfl, hk s' h2⟩

/-- … with an equational conclusion -/
theorem forN_inv_eq {σ β : Type} (P : Nat → σ → Prop) {n : Nat} {body : Nat → σ → R σ} {s0 : σ}
    {k : σ → β} {t : β} (h0 : P 0 s0)
    (hstep : ∀ i s, i < n → P i s → ∃ s', body i s = .ok s' ∧ P (i + 1) s')
    (hk : ∀ s', P n s' → k s' = t) :
    (forN n body s0 >>= fun st => (Res.ok (k st) : R β)) = .ok t := by
  obtain ⟨s', h1, h2⟩ := forN_inv P n body s0 h0 hstep
  rw [h1, ← hk s' h2]; rfl

/-- invariant rule for `forN … >>= k` -/
theorem forN_inv_bind {σ β : Type} (P : Nat → σ → Prop) {n : Nat} {body : Nat → σ → R σ} {s0 : σ}
    {k : σ → R β} {t : R β} (h0 : P 0 s0)
    (hstep : ∀ i s, i < n → P i s → ∃ s', body i s = .ok s' ∧ P (i + 1) s')
    (hk : ∀ s', P n s' → k s' = t) :
    (forN n body s0 >>= k) = t := by
  obtain ⟨s', h1, h2⟩ := forN_inv P n body s0 h0 hstep
  rw [h1]; exact hk s' h2

/-- invariant rule with an equational conclusion about the final state -/
theorem forN_inv_id {σ : Type} (P : Nat → σ → Prop) {n : Nat} {body : Nat → σ → R σ} {s0 t : σ}
    (h0 : P 0 s0)
    (hstep : ∀ i s, i < n → P i s → ∃ s', body i s = .ok s' ∧ P (i + 1) s')
    (hk : ∀ s', P n s' → s' = t) :
    forN n body s0 = .ok t := by
  obtain ⟨s', h1, h2⟩ := forN_inv P n body s0 h0 hstep
  rw [h1, hk s' h2]

/-- invariant rule with an existential conclusion -/
theorem forN_inv_ex {σ : Type} (P : Nat → σ → Prop) {n : Nat} {body : Nat → σ → R σ} {s0 : σ}
    {Q : σ → Prop} (h0 : P 0 s0)
    (hstep : ∀ i s, i < n → P i s → ∃ s', body i s = .ok s' ∧ P (i + 1) s')
    (hk : ∀ s', P n s' → Q s') :
    ∃ s', forN n body s0 = .ok s' ∧ Q s' := by
  obtain ⟨s', h1, h2⟩ := forN_inv P n body s0 h0 hstep
  exact ⟨s', h1, hk s' h2⟩

/-- invariant rule for `forN … >>= k` with an existential conclusion -/
theorem forN_inv_bind_ex {σ β : Type} (P : Nat → σ → Prop) {n : Nat} {body : Nat → σ → R σ} {s0 : σ}
    {k : σ → R β} {Q : β → Prop} (h0 : P 0 s0)
    (hstep : ∀ i s, i < n → P i s → ∃ s', body i s = .ok s' ∧ P (i + 1) s')
    (hk : ∀ s', P n s' → ∃ b, k s' = .ok b ∧ Q b) :
    ∃ b, (forN n body s0 >>= k) = .ok b ∧ Q b := by
  obtain ⟨s', h1, h2⟩ := forN_inv P n body s0 h0 hstep
  obtain ⟨b, hb, hq⟩ := hk s' h2
  exact ⟨b, by rw [h1]; exact hb, hq⟩

theorem forall_uint8 (p : UInt8 → Prop) (h : ∀ n : Fin 256, p (UInt8.ofNat n.val)) : ∀ a, p a := by
  intro a
  have := h ⟨a.toNat, a.toNat_lt⟩
  simpa using this

theorem forN_congr {σ : Type} (n : Nat) (b1 b2 : Nat → σ → R σ) (s : σ)
    (h : ∀ i s, i < n → b1 i s = b2 i s) : forN n b1 s = forN n b2 s := by
  induction n with
  | zero => rfl
  | succ n ih =>
    rw [forN_succ, forN_succ, ih (fun i s hi => h i s (by omega))]
    cases forN n b2 s with
    | ok a => exact h n a (by omega)
    | _ => rfl

theorem forN_add {σ : Type} (m n : Nat) (body : Nat → σ → R σ) (s : σ) :
    forN (m + n) body s = forN m body s >>= forN n (fun k => body (m + k)) := by
  induction n with
  | zero => simp only [Nat.add_zero]; exact (bind_ok_right _).symm
  | succ n ih =>
    rw [← Nat.add_assoc, forN_succ, ih, bind_assoc']
    rfl

theorem forRange_append {σ : Type} (a b c : Nat) (hab : a ≤ b) (hbc : b ≤ c)
    (body : Nat → σ → R σ) (s : σ) :
    forRange a c body s = forRange a b body s >>= forRange b c body := by
  unfold forRange
  have h1 : c - a = (b - a) + (c - b) := by omega
  rw [h1, forN_add]
  congr 1
  funext s'
  apply forN_congr
  intro i s'' _
  have : a + (b - a + i) = b + i := by omega
  rw [this]

theorem forRange_self {σ : Type} (a : Nat) (body : Nat → σ → R σ) (s : σ) :
    forRange a a body s = .ok s := by
  unfold forRange; simp

/-- consecutive chunks `[b i, b (i+1))`, executed one after the other, are one loop -/
theorem forN_chunks {σ : Type} (b : Nat → Nat) (k : Nat) (hmono : ∀ i, i < k → b i ≤ b (i + 1))
    (body : Nat → σ → R σ) (s : σ) :
    forN k (fun wi s => forRange (b wi) (b (wi + 1)) body s) s = forRange (b 0) (b k) body s := by
  induction k with
  | zero => rw [forRange_self]; rfl
  | succ k ih =>
    have hm : ∀ i, i ≤ k → b 0 ≤ b i := by
      intro i hi
      induction i with
      | zero => exact Nat.le_refl _
      | succ i ih2 => exact Nat.le_trans (ih2 (by omega)) (hmono i (by omega))
    rw [forN_succ, ih (fun i hi => hmono i (by omega)),
      forRange_append (b 0) (b k) (b (k + 1)) (hm k (Nat.le_refl _)) (hmono k (by omega))]

/-- the proportional fan-out `[wi*H/n, (wi+1)*H/n)`, `wi < n`, is the loop `0 … H-1` -/
theorem forN_workers {σ : Type} (n H : Nat) (hn : 0 < n) (body : Nat → σ → R σ) (s : σ) :
    forN n (fun wi s => forRange (wi * H / n) ((wi + 1) * H / n) body s) s = forN H body s := by
  have := forN_chunks (fun i => i * H / n) n
    (fun i _ => Nat.div_le_div_right (Nat.mul_le_mul_right H (Nat.le_succ i))) body s
  simp only [Nat.zero_mul, Nat.zero_div] at this
  rw [this, Nat.mul_div_cancel_left H hn]
  unfold forRange
  simp only [Nat.sub_zero, Nat.zero_add]

/-! ### row-major fills -/

/-- the first `k` entries of `arr` (size `N`) are `F 0 … F (k-1)` -/
def Filled {α : Type} (F : Nat → α) (k : Nat) (arr : Array α) (N : Nat) : Prop :=
  arr.size = N ∧ ∀ j, j < k → arr[j]? = some (F j)

theorem Filled.zero {α : Type} (F : Nat → α) (arr : Array α) (N : Nat) (h : arr.size = N) :
    Filled F 0 arr N := ⟨h, fun _ hj => absurd hj (Nat.not_lt_zero _)⟩

theorem Filled.set {α : Type} {F : Nat → α} {k : Nat} {arr : Array α} {N : Nat}
    (h : Filled F k arr N) (hk : k < N) : Filled F (k + 1) (arr.setIfInBounds k (F k)) N := by
  refine ⟨by simp [h.1], ?_⟩
  intro j hj
  rw [Array.getElem?_setIfInBounds]
  by_cases hjk : k = j
  · subst hjk; simp [h.1, hk]
  · simp only [hjk, if_false]
    exact h.2 j (by omega)

theorem Filled.eq_ofFn {α : Type} {F : Nat → α} {arr : Array α} {N : Nat}
    (h : Filled F N arr N) : arr = Array.ofFn (n := N) fun i => F i.val := by
  apply Array.ext
  · simp [h.1]
  · intro i h1 h2
    have := h.2 i (by simpa [h.1] using h1)
    rw [Array.getElem?_eq_getElem h1] at this
    simp only [Option.some.injEq] at this
    simp [this]

/-- a loop over rows, each of which extends the filled prefix by `w` entries, fills everything -/
theorem rows_spec {α : Type} (w h : Nat) (F : Nat → α) (rowBody : Nat → Array α → R (Array α))
    (hrow : ∀ y a, y < h → Filled F (y * w) a (w * h) →
      ∃ a', rowBody y a = .ok a' ∧ Filled F ((y + 1) * w) a' (w * h))
    (init : Array α) (hsz : init.size = w * h) :
    forN h rowBody init = .ok (Array.ofFn (n := w * h) fun i => F i.val) := by
  obtain ⟨a, ha, hf⟩ := forN_inv (fun y a => Filled F (y * w) a (w * h)) h rowBody init
    (by simpa using Filled.zero F init _ hsz) hrow
  rw [ha]
  exact congrArg Res.ok (Filled.eq_ofFn (by simpa [Nat.mul_comm] using hf))

/-- a row whose `x`-th step stores `F (y*w+x)` at `y*w+x` -/
theorem row_spec {α : Type} (w h y : Nat) (hy : y < h) (F : Nat → α) (body : Nat → Array α → R (Array α))
    (hb : ∀ x a, x < w → a.size = w * h → body x a = .ok (a.setIfInBounds (y * w + x) (F (y * w + x))))
    (a : Array α) (ha : Filled F (y * w) a (w * h)) :
    ∃ a', forN w body a = .ok a' ∧ Filled F ((y + 1) * w) a' (w * h) := by
  obtain ⟨a', h1, h2⟩ := forN_inv (fun x a => Filled F (y * w + x) a (w * h)) w body a (by simpa using ha)
    (by
      intro x s hx hs
      refine ⟨_, hb x s hx hs.1, ?_⟩
      have hlt : y * w + x < w * h := by
        have : (y + 1) * w ≤ h * w := Nat.mul_le_mul_right w hy
        rw [Nat.mul_comm w h]; rw [Nat.add_mul] at this; omega
      exact hs.set hlt)
  exact ⟨a', h1, by rw [Nat.add_mul, Nat.one_mul]; exact h2⟩

/-- two nested loops whose body stores `F (y*w+x)` at `y*w+x` -/
theorem fill2D_spec {α : Type} (w h : Nat) (body : Nat → Nat → Array α → R (Array α)) (F : Nat → α)
    (hb : ∀ x y a, x < w → y < h → a.size = w * h →
      body x y a = .ok (a.setIfInBounds (y * w + x) (F (y * w + x))))
    (init : Array α) (hsz : init.size = w * h) :
    forN h (fun y a => forN w (fun x a => body x y a) a) init
      = .ok (Array.ofFn (n := w * h) fun i => F i.val) :=
  rows_spec w h F _ (fun y a hy ha => row_spec w h y hy F _ (fun x a hx hs => hb x y a hx hy hs) a ha) init hsz

theorem divmod_rowmajor (w x y : Nat) (hx : x < w) : (y * w + x) % w = x ∧ (y * w + x) / w = y := by
  constructor
  · rw [Nat.add_comm, Nat.add_mul_mod_self_right, Nat.mod_eq_of_lt hx]
  · rw [Nat.add_comm, Nat.add_mul_div_right _ _ (by omega), Nat.div_eq_of_lt hx, Nat.zero_add]

/-! ### loads and stores -/

theorem ld_ok (pix : Array UInt8) (i : Int) (h0 : 0 ≤ i) (h1 : i < pix.size) :
    ld pix i = .ok (pix.getD i.toNat 0) := by
  unfold ld; rw [if_pos ⟨h0, h1⟩]

theorem wr_ok {α : Type} (buf : Array α) (i : Nat) (v : α) (h : i < buf.size) :
    wr buf (i : Int) v = .ok (buf.setIfInBounds i v) := by
  unfold wr
  rw [if_pos ⟨Int.natCast_nonneg i, by exact_mod_cast h⟩]
  simp

theorem rdBuf_ok {α : Type} [Inhabited α] (buf : Array α) (i : Nat) (h : i < buf.size) :
    rdBuf buf (i : Int) = .ok (buf.getD i default) := by
  unfold rdBuf
  rw [if_pos ⟨Int.natCast_nonneg i, by exact_mod_cast h⟩]
  simp

/-! ### geometry under `Valid` -/

theorem _root_.Webp.Impl.Import.Valid.dx_eq {img : Img} (v : Valid img) : img.rect.dx = (Img.w img : Int) := by
  unfold Img.w; have := v.wpos; omega

theorem _root_.Webp.Impl.Import.Valid.dy_eq {img : Img} (v : Valid img) : img.rect.dy = (Img.h img : Int) := by
  unfold Img.h; have := v.hpos; omega

theorem _root_.Webp.Impl.Import.Valid.w_pos {img : Img} (v : Valid img) : 0 < Img.w img := by
  have := v.wpos; have := v.dx_eq; omega

theorem _root_.Webp.Impl.Import.Valid.h_pos {img : Img} (v : Valid img) : 0 < Img.h img := by
  have := v.hpos; have := v.dy_eq; omega

/-- the index expression of every fast path, with `bounds = Rect`, is `y*Stride + x*4` -/
theorem rowOff_eq (img : Img) (y : Int) :
    (y + img.bounds.minY - img.rect.minY) * img.stride + (img.bounds.minX - img.rect.minX) * 4
      = y * img.stride := by
  simp only [Img.bounds]
  have h1 : y + img.rect.minY - img.rect.minY = y := by omega
  have h2 : img.rect.minX - img.rect.minX = 0 := by omega
  rw [h1, h2]; simp

theorem srcBase_eq (img : Img) :
    (img.bounds.minY - img.rect.minY) * img.stride + (img.bounds.minX - img.rect.minX) * 4 = 0 := by
  simp only [Img.bounds]
  have h1 : img.rect.minY - img.rect.minY = 0 := by omega
  have h2 : img.rect.minX - img.rect.minX = 0 := by omega
  rw [h1, h2]; simp

/-- **in-bounds**: the four bytes of every pixel of the picture lie inside `Pix` -/
theorem _root_.Webp.Impl.Import.Valid.off_bounds {img : Img} (v : Valid img) {x y : Nat} (hx : x < Img.w img) (hy : y < Img.h img) :
    0 ≤ (y : Int) * img.stride + (x : Int) * 4 ∧
    (y : Int) * img.stride + (x : Int) * 4 + 3 < img.pix.size := by
  have hs := v.stride_ge
  have hz := v.size_ge
  rw [v.dx_eq] at hs hz
  rw [v.dy_eq] at hz
  have hs0 : 0 ≤ img.stride := by omega
  have h1 : (y : Int) * img.stride ≤ ((Img.h img : Int) - 1) * img.stride :=
    Int.mul_le_mul_of_nonneg_right (by omega) hs0
  have h2 : 0 ≤ (y : Int) * img.stride := Int.mul_nonneg (by omega) hs0
  constructor <;> omega

theorem view_rel (img : Img) (v : Valid img) {x y : Nat} (hx : x < Img.w img) (hy : y < Img.h img) :
    img.rel x y =
      ⟨img.byte ((y : Int) * img.stride + (x : Int) * 4),
       img.byte ((y : Int) * img.stride + (x : Int) * 4 + 1),
       img.byte ((y : Int) * img.stride + (x : Int) * 4 + 2),
       img.byte ((y : Int) * img.stride + (x : Int) * 4 + 3)⟩ := by
  have hdx := v.dx_eq
  have hdy := v.dy_eq
  unfold Rect.dx at hdx
  unfold Rect.dy at hdy
  have hc : img.rect.contains (img.rect.minX + (x : Int)) (img.rect.minY + (y : Int)) = true := by
    simp only [Rect.contains, Bool.and_eq_true, decide_eq_true_eq]
    omega
  unfold Img.rel Img.view
  rw [if_pos hc]
  simp only [Img.pixOffset]
  have h1 : img.rect.minY + (y : Int) - img.rect.minY = y := by omega
  have h2 : img.rect.minX + (x : Int) - img.rect.minX = x := by omega
  rw [h1, h2]

/-- the generic `At()` of a valid image does not panic on the picture and returns `view` -/
theorem colorAt_rel (img : Img) (v : Valid img) {x y : Nat} (hx : x < Img.w img) (hy : y < Img.h img) :
    img.colorAt (img.rect.minX + (x : Int)) (img.rect.minY + (y : Int)) = .ok (img.rel x y) := by
  have hdx := v.dx_eq
  have hdy := v.dy_eq
  unfold Rect.dx at hdx
  unfold Rect.dy at hdy
  have hc : img.rect.contains (img.rect.minX + (x : Int)) (img.rect.minY + (y : Int)) = true := by
    simp only [Rect.contains, Bool.and_eq_true, decide_eq_true_eq]
    omega
  obtain ⟨b0, b1⟩ := v.off_bounds hx hy
  unfold Img.colorAt Img.rel Img.view
  simp only [hc, Bool.not_true, Bool.false_eq_true, if_false, if_true, Img.pixOffset]
  have h1 : img.rect.minY + (y : Int) - img.rect.minY = y := by omega
  have h2 : img.rect.minX + (x : Int) - img.rect.minX = x := by omega
  simp only [h1, h2]
  rw [if_pos ⟨b0, by omega⟩]

theorem ld_byte (img : Img) (i : Int) (h0 : 0 ≤ i) (h1 : i < img.pix.size) :
    ld img.pix i = .ok (img.byte i) := ld_ok _ _ h0 h1

/-- the four loads of pixel `(x, y)` succeed and give `NRGBAAt(Min.X+x, Min.Y+y)` -/
theorem ldPx_rel (img : Img) (v : Valid img) {x y : Nat} (hx : x < Img.w img) (hy : y < Img.h img) :
    ldPx img.pix ((y : Int) * img.stride + (x : Int) * 4) = .ok (img.rel x y) := by
  obtain ⟨b0, b1⟩ := v.off_bounds hx hy
  unfold ldPx
  rw [ld_byte img _ b0 (by omega), ld_byte img _ (by omega) (by omega),
    ld_byte img _ (by omega) (by omega), ld_byte img _ (by omega) b1, view_rel img v hx hy]
  rfl

theorem ld_r (img : Img) (v : Valid img) {x y : Nat} (hx : x < Img.w img) (hy : y < Img.h img) :
    ld img.pix ((y : Int) * img.stride + (x : Int) * 4) = .ok (img.rel x y).r := by
  obtain ⟨b0, b1⟩ := v.off_bounds hx hy
  rw [ld_byte img _ b0 (by omega), view_rel img v hx hy]

theorem ld_g (img : Img) (v : Valid img) {x y : Nat} (hx : x < Img.w img) (hy : y < Img.h img) :
    ld img.pix ((y : Int) * img.stride + (x : Int) * 4 + 1) = .ok (img.rel x y).g := by
  obtain ⟨b0, b1⟩ := v.off_bounds hx hy
  rw [ld_byte img _ (by omega) (by omega), view_rel img v hx hy]

theorem ld_b (img : Img) (v : Valid img) {x y : Nat} (hx : x < Img.w img) (hy : y < Img.h img) :
    ld img.pix ((y : Int) * img.stride + (x : Int) * 4 + 2) = .ok (img.rel x y).b := by
  obtain ⟨b0, b1⟩ := v.off_bounds hx hy
  rw [ld_byte img _ (by omega) (by omega), view_rel img v hx hy]

theorem ld_a (img : Img) (v : Valid img) {x y : Nat} (hx : x < Img.w img) (hy : y < Img.h img) :
    ld img.pix ((y : Int) * img.stride + (x : Int) * 4 + 3) = .ok (img.rel x y).a := by
  obtain ⟨b0, b1⟩ := v.off_bounds hx hy
  rw [ld_byte img _ (by omega) b1, view_rel img v hx hy]

/-- Go `int` range (the header's "no wrap-around" claim): under `Valid`, every product and sum
    formed by the index expressions is bounded by `len(Pix) < 2^63` -/
theorem valid_int_range {img : Img} (v : Valid img) {x y : Nat} (hx : x < Img.w img) (hy : y < Img.h img) :
    0 ≤ (y : Int) * img.stride ∧ (y : Int) * img.stride + (x : Int) * 4 + 3 < 2 ^ 63 ∧
    0 ≤ (img.rect.dy - 1) * img.stride + img.rect.dx * 4 ∧
    (img.rect.dy - 1) * img.stride + img.rect.dx * 4 < 2 ^ 63 ∧
    img.rect.dx * 4 ≤ 65532 := by
  obtain ⟨b0, b1⟩ := v.off_bounds hx hy
  have hs := v.stride_ge
  have hz := v.size_ge
  have hl := v.size_lt
  have hw := v.wmax
  have hwp := v.wpos
  have hhp := v.hpos
  have hs0 : 0 ≤ img.stride := by omega
  have h2 : 0 ≤ (y : Int) * img.stride := Int.mul_nonneg (by omega) hs0
  have h3 : 0 ≤ (img.rect.dy - 1) * img.stride := Int.mul_nonneg (by omega) hs0
  have hl' : (img.pix.size : Int) < 2 ^ 63 := by exact_mod_cast hl
  unfold maxDimension at hw
  refine ⟨h2, by omega, by omega, by omega, by omega⟩

end Webp.Proofs.Import
