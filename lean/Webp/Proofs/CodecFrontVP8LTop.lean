import Webp.Proofs.CodecFrontVP8L
/-
  VP8L front end, part 2: readTransform, the transform loop, decodeImageStream, decodeSubImage
  (recursion), DecodeVP8L.
-/
namespace Webp.Impl.CodecFrontL
open Webp.Go
open Webp.Impl.CodecFront (Mem memTotal)

variable {σ : Type}

/-- invariant tying `nextTransform` to `transformsSeen` -/
structure StInv (st : St σ) : Prop where
  seen : st.seen < 16
  len : st.transforms.length = pop4 st.seen

/-- bytes one transform of type `ty` may allocate for an `x × y` image -/
def tcost (x y ty : Nat) : Nat :=
  if ty = 0 then 4 * (q4 x * q4 y) + 9352
  else if ty = 1 then 4 * (q4 x * q4 y) + 9352
  else if ty = 3 then 13448 else 0

structure TransOK (memCap xsize ysize : Nat) (st : St σ) (r : Nat × St σ) : Prop where
  lo : 1 ≤ r.1
  hi : r.1 ≤ xsize
  inv : StInv r.2
  step : ∃ ty, ty < 4 ∧ ¬ st.seen / 2 ^ ty % 2 = 1 ∧ r.2.seen = st.seen ||| (1 <<< ty) ∧
    Step memCap st r.2 (tcost xsize ysize ty)

/-- (stated with a symbolic constant: `omega` runs out of recursion depth on
    `s + (4 * p + 9352)` with the literal in that position) -/
theorem sub_cost_aux (a s p q c : Nat) (h1 : a ≤ s + (4 * p + c)) (h2 : p ≤ q) :
    a ≤ s + (4 * q + c) := by omega

theorem pal_cost_aux (e a s f nc c d : Nat) (h1 : a ≤ s + (4 * (nc * 1) + c))
    (h2 : e ≤ a + 8 * f + 4 * nc) (hf : f ≤ 256) (hn : nc ≤ 256) (hd : c + 4096 = d) :
    e ≤ s + d := by omega

theorem readTransformWith_post (L : LSrc σ) (memCap : Nat)
    (sub : Nat → Nat → St σ → R (Array UInt32 × St σ))
    (hsub : ∀ x y st, (sub x y st).Post (SubOK memCap x y st))
    (xsize ysize : Nat) (st : St σ) (hinv : StInv st) (hx : 1 ≤ xsize) :
    (readTransformWith L memCap sub xsize ysize st).Post (TransOK memCap xsize ysize st) := by
  unfold readTransformWith
  have ht := rd_lt L st.br 2
  generalize rd L st.br 2 = t at ht
  dsimp only
  have ht4 : t.1 < 4 := by simpa using ht
  by_cases hbit : st.seen / 2 ^ t.1 % 2 = 1
  · rw [if_pos hbit]; trivial
  rw [if_neg hbit]
  obtain ⟨p1, p2, p3⟩ := pop4_set hinv.seen ht4 hbit
  rw [if_neg (by rw [hinv.len]; omega)]
  by_cases h01 : t.1 = 0 ∨ t.1 = 1
  · rw [if_pos h01]
    have hb := rd_lt L t.2 3
    generalize rd L t.2 3 = b at hb
    refine Res.Post.bind (hsub _ _ _) (fun r hr => ?_)
    have hwq : subSampleSize xsize (2 + b.1) ≤ q4 xsize := subSample_le_q4 (by omega)
    have hhq : subSampleSize ysize (2 + b.1) ≤ q4 ysize := subSample_le_q4 (by omega)
    have hpix := Nat.mul_le_mul hwq hhq
    refine ⟨hx, Nat.le_refl _, ⟨?_, ?_⟩, t.1, ht4, hbit, ?_, ?_⟩
    · show r.2.seen < 16
      rw [hr.seen]; exact p1
    · show (r.2.transforms.dropLast ++ [_]).length = pop4 r.2.seen
      rw [hr.seen, hr.transforms]
      simp only [List.dropLast_concat, List.length_append, List.length_cons, List.length_nil]
      rw [hinv.len]; exact p2.symm
    · show r.2.seen = _
      rw [hr.seen]
    · have hs := hr.step
      refine ⟨hs.depth, hs.maxDepth, ?_, hs.cap⟩
      have hm := hs.mem
      show memTotal r.2.mem ≤ memTotal st.mem + tcost xsize ysize t.1
      have hm' : memTotal r.2.mem ≤ memTotal st.mem +
          (4 * (subSampleSize xsize (2 + b.1) * subSampleSize ysize (2 + b.1)) + 9352) := hm
      unfold tcost
      rcases h01 with h | h
      · rw [if_pos h]; exact sub_cost_aux _ _ _ _ _ hm' hpix
      · rw [if_neg (by omega), if_pos h]; exact sub_cost_aux _ _ _ _ _ hm' hpix
  · rw [if_neg h01]
    by_cases h3 : t.1 = 3
    · rw [if_pos h3]
      have hn := rd_lt L t.2 8
      generalize rd L t.2 8 = n at hn
      have hnc1 : 1 ≤ n.1 + 1 := by omega
      have hnc2 : n.1 + 1 ≤ 256 := by
        have : (2 : Nat) ^ 8 = 256 := by norm_num
        omega
      refine Res.Post.bind (hsub _ _ _) (fun r hr => ?_)
      have hpal : r.1.size = n.1 + 1 := by rw [hr.size]; omega
      have hexp := expandColorMap_post memCap (n.1 + 1) r.1.size r.2.mem hnc1 hnc2
      unfold bitsFor at hexp
      refine Res.Post.bind hexp (fun e he => ?_)
      obtain ⟨e1, e2, e3⟩ := he
      have hfin := final_ge (n.1 + 1) hnc1 hnc2
      unfold bitsFor at hfin
      have hss := subSample_le (size := xsize)
        (if n.1 + 1 > 16 then 0 else if n.1 + 1 > 4 then 1 else if n.1 + 1 > 2 then 2 else 3) hx
      refine ⟨hss.1, hss.2, ⟨?_, ?_⟩, t.1, ht4, hbit, ?_, ?_⟩
      · show r.2.seen < 16
        rw [hr.seen]; exact p1
      · show (r.2.transforms.dropLast ++ [_]).length = pop4 r.2.seen
        rw [hr.seen, hr.transforms]
        simp only [List.dropLast_concat, List.length_append, List.length_cons, List.length_nil]
        rw [hinv.len]; exact p2.symm
      · show r.2.seen = _
        rw [hr.seen]
      · have hs := hr.step
        refine ⟨hs.depth, hs.maxDepth, ?_, ?_⟩
        · have hm : memTotal r.2.mem ≤ memTotal st.mem + (4 * ((n.1 + 1) * 1) + 9352) := hs.mem
          show memTotal e.2 ≤ memTotal st.mem + tcost xsize ysize t.1
          have := hfin.2.2
          unfold tcost
          rw [if_neg (by omega), if_neg (by omega), if_pos h3]
          rw [hpal] at e2
          exact pal_cost_aux _ _ _ _ _ _ _ hm e2 hfin.2.2 hnc2 (by norm_num)
        · intro v hv
          rcases e3 v hv with h | h
          · exact hs.cap v h
          · exact Or.inr h
    · rw [if_neg h3]
      have h2 : t.1 = 2 := by omega
      refine ⟨hx, Nat.le_refl _, ⟨p1, ?_⟩, t.1, ht4, hbit, rfl, ?_⟩
      · show (st.transforms ++ [_]).length = _
        rw [List.length_append, hinv.len]; exact p2.symm
      · exact ⟨rfl, Or.inl (Nat.le_refl _), Nat.le_add_right _ _, fun v hv => Or.inl hv⟩

/-- sum of what the transforms read so far may have cost, for an image declared `W × H` -/
def paidWH (W H m : Nat) : Nat :=
  paid (4 * (q4 W * q4 H) + 9352) (4 * (q4 W * q4 H) + 9352) 13448 m

theorem tcost_le {x y W H ty : Nat} (hx : x ≤ W) (hy : y ≤ H) :
    tcost x y ty ≤ (if ty = 0 then 4 * (q4 W * q4 H) + 9352 else if ty = 1 then 4 * (q4 W * q4 H) + 9352
      else if ty = 3 then 13448 else 0) := by
  have := Nat.mul_le_mul (q4_mono hx) (q4_mono hy)
  unfold tcost
  split
  · omega
  split
  · omega
  split <;> omega

structure LoopOK (memCap W H xsize : Nat) (st : St σ) (r : Nat × St σ) : Prop where
  lo : 1 ≤ r.1
  hi : r.1 ≤ xsize
  inv : StInv r.2
  depth : r.2.depth = st.depth
  maxDepth : r.2.maxDepth ≤ st.maxDepth ∨ r.2.maxDepth ≤ st.depth + 1
  mem : memTotal r.2.mem + paidWH W H st.seen ≤ memTotal st.mem + paidWH W H r.2.seen
  cap : ∀ v ∈ r.2.mem, v ∈ st.mem ∨ v ≤ memCap

theorem transformLoop_post (L : LSrc σ) (memCap : Nat)
    (sub : Nat → Nat → St σ → R (Array UInt32 × St σ))
    (hsub : ∀ x y st, (sub x y st).Post (SubOK memCap x y st)) (W H ysize : Nat) (hy : ysize ≤ H) :
    ∀ (fuel xsize : Nat) (st : St σ), StInv st → 1 ≤ xsize → xsize ≤ W → 5 ≤ fuel + pop4 st.seen →
      (transformLoop L memCap sub ysize fuel xsize st).Post (LoopOK memCap W H xsize st)
  | 0, xsize, st, hinv, _, _, hf => by
    have : pop4 st.seen ≤ 4 := by unfold pop4; omega
    omega
  | fuel + 1, xsize, st, hinv, hx, hW, hf => by
    unfold transformLoop
    dsimp only
    by_cases h1 : (rd L st.br 1).1 = 1
    · rw [if_pos h1]
      have hinv' : StInv { st with br := (rd L st.br 1).2 } := ⟨hinv.seen, hinv.len⟩
      refine Res.Post.bind (readTransformWith_post L memCap sub hsub xsize ysize _ hinv' hx)
        (fun r hr => ?_)
      obtain ⟨x', st'⟩ := r
      obtain ⟨ty, ht4, hbit, hseen, hstep⟩ := hr.step
      dsimp only at hbit hseen hstep ⊢
      have hp := pop4_set hinv.seen ht4 hbit
      have hpaid := paid_set (c0 := 4 * (q4 W * q4 H) + 9352) (c1 := 4 * (q4 W * q4 H) + 9352)
        (c3 := 13448) hinv.seen ht4 hbit
      have hcost := tcost_le (ty := ty) hW hy
      have ih := transformLoop_post L memCap sub hsub W H ysize hy fuel x' st' hr.inv hr.lo
        (by have := hr.hi; dsimp only at this; omega) (by rw [hseen]; omega)
      refine ih.mono (fun r2 h2 => ?_)
      have hd : st'.depth = st.depth := hstep.depth
      refine ⟨h2.lo, by have := h2.hi; have := hr.hi; dsimp only at *; omega, h2.inv,
        by rw [h2.depth, hd], ?_, ?_, ?_⟩
      · have m1 := hstep.maxDepth
        dsimp only at m1
        rcases h2.maxDepth with h | h <;> rcases m1 with g | g <;> omega
      · have m1 := hstep.mem
        have m2 := h2.mem
        dsimp only at m1
        unfold paidWH at m2 ⊢
        rw [hseen, hpaid] at m2
        omega
      · intro v hv
        rcases h2.cap v hv with h | h
        · exact hstep.cap v h
        · exact Or.inr h
    · rw [if_neg h1]
      exact ⟨hx, Nat.le_refl _, ⟨hinv.seen, hinv.len⟩, rfl, Or.inl (Nat.le_refl _), Nat.le_refl _,
        fun v hv => Or.inl hv⟩

end Webp.Impl.CodecFrontL
