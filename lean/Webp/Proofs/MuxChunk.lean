import Webp.Proofs.MuxBytes
import Webp.Spec.Riff
/-
  Chunk-level lemmas: a serialised chunk (`ser c = writeDataChunk c.id c.data`) is read back by
  each of the three readers (`Demux.readChunk`, `Parser.chunkAt`, the spec walker's
  `splitChunks`), whatever bytes follow it.
-/
namespace Webp.Proofs.MuxChunk
open Webp.Go Webp.Impl Webp.Impl.Mux Webp.Proofs.MuxBytes
open Webp.Spec.Riff (RawChunk)
open Webp.Impl.Parser (ccRIFF ccWEBP ccVP8 ccVP8L ccVP8X ccALPH ccANIM ccANMF ccICCP ccEXIF ccXMP
  chunkHeaderSize maxChunkPayload)

theorem ccRIFF_val : ccRIFF = 1179011410 := by decide +kernel
theorem ccWEBP_val : ccWEBP = 1346520407 := by decide +kernel
theorem ccVP8_val  : ccVP8  = 540561494 := by decide +kernel
theorem ccVP8L_val : ccVP8L = 1278758998 := by decide +kernel
theorem ccVP8X_val : ccVP8X = 1480085590 := by decide +kernel
theorem ccALPH_val : ccALPH = 1213221953 := by decide +kernel
theorem ccANIM_val : ccANIM = 1296649793 := by decide +kernel
theorem ccANMF_val : ccANMF = 1179471425 := by decide +kernel
theorem ccICCP_val : ccICCP = 1346585417 := by decide +kernel
theorem ccEXIF_val : ccEXIF = 1179211845 := by decide +kernel
theorem ccXMP_val  : ccXMP  = 542133592 := by decide +kernel

/-- serialisation of one chunk, as the muxer writes it -/
def ser (c : RawChunk) : Bytes := writeDataChunk c.id c.data

def serAll (cs : List RawChunk) : Bytes := (cs.map ser).flatten

@[simp] theorem serAll_nil : serAll [] = [] := rfl
@[simp] theorem serAll_cons (c : RawChunk) (cs : List RawChunk) : serAll (c :: cs) = ser c ++ serAll cs := by
  simp [serAll]
@[simp] theorem serAll_append (a b : List RawChunk) : serAll (a ++ b) = serAll a ++ serAll b := by
  simp [serAll]

def padLen (n : Nat) : Nat := 8 + n + n % 2

theorem ser_length (c : RawChunk) : (ser c).length = padLen c.data.length := by
  unfold ser writeDataChunk writeChunkHeader padLen
  by_cases h : c.data.length % 2 = 0 <;> simp [h] <;> omega

theorem ser_eq (c : RawChunk) :
    ser c = putLE32 c.id ++ (putLE32 (u32 c.data.length) ++ (c.data ++
      ((if c.data.length % 2 ≠ 0 then [0] else []) ))) := by
  simp [ser, writeDataChunk, writeChunkHeader]

theorem le32_hdr0 (a : Nat) (x : Bytes) : le32 (putLE32 a ++ x) 0 = a % 4294967296 := by
  rw [le32_append_left (by simp), le32_putLE32]

theorem le32_hdr4 (a b : Nat) (x : Bytes) : le32 (putLE32 a ++ (putLE32 b ++ x)) 4 = b % 4294967296 := by
  have := le32_append_right (putLE32 a) (putLE32 b ++ x) 0
  simp only [putLE32_length, Nat.add_zero] at this
  rw [this, le32_hdr0]

theorem payload_slice (a b : Nat) (d x : Bytes) :
    ((putLE32 a ++ (putLE32 b ++ (d ++ x))).take (8 + d.length)).drop 8 = d := by
  rw [List.drop_take]
  have h : (putLE32 a ++ (putLE32 b ++ (d ++ x))).drop 8 = d ++ x := by
    rw [← List.append_assoc]
    exact List.drop_left' (by simp)
  rw [h]; simp

/-- chunk.go ReadChunk reads back a serialised chunk, whatever follows it -/
theorem readChunk_ser (c : RawChunk) (r : Bytes) (hid : c.id < 4294967296)
    (hlen : c.data.length ≤ maxChunkPayload) :
    Demux.readChunk (ser c ++ r) = .ok (⟨c.id, c.data.length, c.data⟩, (ser c).length) := by
  have hl : (ser c ++ r).length = padLen c.data.length + r.length := by simp [ser_length]
  have hmax : maxChunkPayload = 4294967286 := by decide
  rw [hmax] at hlen
  have hu : u32 c.data.length = c.data.length := by unfold u32; omega
  have h0 : le32 (ser c ++ r) 0 = c.id := by
    rw [ser_eq]; simp only [List.append_assoc]; rw [le32_hdr0]; omega
  have h4 : le32 (ser c ++ r) 4 = c.data.length := by
    rw [ser_eq]; simp only [List.append_assoc]; rw [le32_hdr4, hu]; omega
  have hs : ((ser c ++ r).take (8 + c.data.length)).drop 8 = c.data := by
    rw [ser_eq]; simp only [List.append_assoc]; exact payload_slice _ _ _ _
  unfold Demux.readChunk Demux.readChunkHeader
  simp only [h0, h4, hl, chunkHeaderSize, hmax, padLen, slice, ser_length]
  rw [if_neg (by omega), if_neg (by omega)]
  simp only [Res.bind_ok]
  rw [if_neg (by omega), if_pos (by omega)]
  simp only [Res.bind_ok, hs, Res.pure_eq]
  by_cases hp : c.data.length % 2 = 0
  · simp [hp]
  · have h1 : c.data.length % 2 = 1 := by omega
    simp [h1]
    omega

/-- the read-back facts shared by all readers -/
theorem ser_facts' (c : RawChunk) (r : Bytes) (hid : c.id < 4294967296)
    (hlen : c.data.length < 4294967296) :
    (ser c ++ r).length = 8 + c.data.length + c.data.length % 2 + r.length ∧
    le32 (ser c ++ r) 0 = c.id ∧ le32 (ser c ++ r) 4 = c.data.length ∧
    ((ser c ++ r).take (8 + c.data.length)).drop 8 = c.data ∧
    ((ser c ++ r).drop 8).take c.data.length = c.data ∧
    (ser c ++ r).drop (8 + (c.data.length + c.data.length % 2)) = r := by
  have hu : u32 c.data.length = c.data.length := by unfold u32; omega
  have hsl : (ser c).length = 8 + (c.data.length + c.data.length % 2) := by
    rw [ser_length, padLen]; omega
  refine ⟨?_, ?_, ?_, ?_, ?_, ?_⟩
  · simp [ser_length, padLen]
  · rw [ser_eq]; simp only [List.append_assoc]; rw [le32_hdr0]; omega
  · rw [ser_eq]; simp only [List.append_assoc]; rw [le32_hdr4, hu]; omega
  · rw [ser_eq]; simp only [List.append_assoc]; exact payload_slice _ _ _ _
  · have := payload_slice c.id (u32 c.data.length) c.data
      ((if c.data.length % 2 ≠ 0 then [0] else []) ++ r)
    rw [List.drop_take] at this
    rw [ser_eq]; simp only [List.append_assoc]
    simpa using this
  · exact List.drop_left' hsl

theorem ser_facts (c : RawChunk) (r : Bytes) (hid : c.id < 4294967296)
    (hlen : c.data.length ≤ 4294967286) :
    (ser c ++ r).length = 8 + c.data.length + c.data.length % 2 + r.length ∧
    le32 (ser c ++ r) 0 = c.id ∧ le32 (ser c ++ r) 4 = c.data.length ∧
    ((ser c ++ r).take (8 + c.data.length)).drop 8 = c.data ∧
    ((ser c ++ r).drop 8).take c.data.length = c.data ∧
    (ser c ++ r).drop (8 + (c.data.length + c.data.length % 2)) = r :=
  ser_facts' c r hid (by omega)

/-- parser.go: the common chunk prologue reads back a serialised chunk -/
theorem chunkAt_ser (c : RawChunk) (r : Bytes) (hid : c.id < 4294967296)
    (hlen : c.data.length ≤ maxChunkPayload) :
    Parser.chunkAt (ser c ++ r) =
      .ok (c.id, c.data.length, 8 + (c.data.length + c.data.length % 2), c.data) := by
  have hmax : maxChunkPayload = 4294967286 := by decide
  rw [hmax] at hlen
  obtain ⟨hl, h0, h4, hs, _, _⟩ := ser_facts c r hid hlen
  unfold Parser.chunkAt Parser.readChunkHeader
  simp only [h0, h4, hl, chunkHeaderSize, hmax, slice]
  rw [if_neg (by omega), if_neg (by omega)]
  simp only [Res.bind_ok]
  rw [if_neg (by omega), if_pos (by omega)]
  simp only [Res.bind_ok, hs, Res.pure_eq]

/-- the spec walker splits a serialised chunk list back into the list -/
theorem splitChunks_serAll (cs : List RawChunk) :
    ∀ (fuel : Nat), cs.length < fuel →
    (∀ c ∈ cs, c.id < 4294967296 ∧ c.data.length ≤ 4294967286) →
    Webp.Spec.Riff.splitChunks fuel (serAll cs) = .ok cs := by
  induction cs with
  | nil =>
    intro fuel hf _
    cases fuel with
    | zero => omega
    | succ n => simp [Webp.Spec.Riff.splitChunks]
  | cons c cs ih =>
    intro fuel hf hc
    cases fuel with
    | zero => omega
    | succ n =>
      have hcc := hc c (List.mem_cons_self)
      obtain ⟨hl, h0, h4, _, hs, hd⟩ := ser_facts c (serAll cs) hcc.1 hcc.2
      have ih' := ih n (by simpa using hf) (fun x hx => hc x (List.mem_cons_of_mem _ hx))
      rw [serAll_cons]
      unfold Webp.Spec.Riff.splitChunks
      simp only [h0, h4, hl, hs, hd]
      rw [if_neg (by omega), if_neg (by omega), if_neg (by omega)]
      have hpad : ¬ (c.data.length % 2 = 1 ∧ byteAt (ser c ++ serAll cs) (8 + c.data.length) ≠ 0) := by
        intro ⟨h1, hb⟩
        apply hb
        rw [ser_eq]; simp only [List.append_assoc]
        have e : 8 + c.data.length = (putLE32 c.id ++ (putLE32 (u32 c.data.length) ++ c.data)).length + 0 := by simp; omega
        have h2 : c.data.length % 2 ≠ 0 := by omega
        rw [if_pos h2]
        have := byteAt_append_right (putLE32 c.id ++ (putLE32 (u32 c.data.length) ++ c.data)) ([0] ++ serAll cs) 0
        rw [← e] at this
        simp only [List.append_assoc] at this
        rw [this]; rfl
      rw [if_neg hpad, ih']
      rfl
