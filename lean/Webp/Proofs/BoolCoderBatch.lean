import Webp.Impl.BoolCoderFast
import Mathlib.Tactic.SplitIfs
/-
  `PutBitBatchPacked` is a sequence of `PutBit`s.
-/
namespace Webp.Proofs.BoolCoderBatch
open Webp.Go (Bytes)
open Webp.Impl.BoolCoder

/-- the writer the locals stand for -/
def wOf (s : BatchSt) : BoolWriter := { s.w with range := s.r, value := s.v, nbBits := s.nb }

theorem flush_range (w : BoolWriter) : (flush w).range = w.range := by
  unfold flush; simp only; split_ifs <;> rfl

theorem flush_panicked (w : BoolWriter) : (flush w).panicked = w.panicked := by
  unfold flush; simp only; split_ifs <;> rfl

/-- one iteration is one `PutBit` -/
theorem batchStep_eq (s : BatchSt) (bit prob : UInt8) :
    wOf (batchStep s bit prob) = putBit (wOf s) (bit != 0) prob.toNat := by
  unfold batchStep putBit
  have hp : (wOf s).panicked = s.w.panicked := rfl
  have hr : (wOf s).range = s.r := rfl
  have hv : (wOf s).value = s.v := rfl
  have hn : (wOf s).nbBits = s.nb := rfl
  rw [hp, hr, hv, hn]
  by_cases hpan : s.w.panicked = true
  · simp only [hpan, if_true]
  · simp only [hpan, Bool.false_eq_true, if_false]
    by_cases hneg : ((bit != 0) && decide (s.r < (s.r * prob.toNat) >>> 8 + 1)) = true
    · simp only [hneg, if_true]; rfl
    · simp only [hneg, Bool.false_eq_true, if_false]
      by_cases h127 : (if (bit != 0) = true then s.r - ((s.r * prob.toNat) >>> 8 + 1) else (s.r * prob.toNat) >>> 8) < 127
      · simp only [h127, if_true]
        by_cases hnb : s.nb + ↑(kNorm.getD (if (bit != 0) = true then s.r - ((s.r * prob.toNat) >>> 8 + 1) else (s.r * prob.toNat) >>> 8) 0) > 0
        · simp only [hnb, if_true]
          unfold wOf
          simp only
          -- after the flush the locals are the flushed writer's own fields
          generalize hw : flush _ = fw
          have : fw.range = kNewRange.getD (if (bit != 0) = true then s.r - ((s.r * prob.toNat) >>> 8 + 1) else (s.r * prob.toNat) >>> 8) 0 := by
            rw [← hw, flush_range]
          rw [← this]
        · simp only [hnb, if_false]; simp [wOf]; simpa using hpan
      · simp only [h127, if_false]; simp [wOf]; simpa using hpan

theorem batchLoop_eq (data : Bytes) (n i : Nat) (s : BatchSt) :
    wOf (batchLoop data n i s) = (unpackFrom data n i).foldl (fun w p => putBit w p.1 p.2) (wOf s) := by
  induction n generalizing i s with
  | zero => rfl
  | succ n ih =>
    show wOf (batchLoop data n (i + 1) (batchStep s _ _)) = _
    rw [ih, batchStep_eq]
    rfl

theorem putBit_panicked (w : BoolWriter) (h : w.panicked = true) (b : Bool) (p : Nat) : putBit w b p = w := by
  unfold putBit; simp [h]

theorem foldl_panicked (ps : List (Bool × Nat)) (w : BoolWriter) (h : w.panicked = true) :
    ps.foldl (fun w p => putBit w p.1 p.2) w = w := by
  induction ps with
  | nil => rfl
  | cons p ps ih => rw [List.foldl_cons, putBit_panicked w h, ih]

/-- **`PutBitBatchPacked(data, count)` is `PutBit(data[2i], data[2i+1])` for `i = 0 … count-1`**
    (for a slice that holds `count` pairs; a shorter one panics at the bounds hint). -/
theorem putBitBatchPacked_eq (w : BoolWriter) (data : Bytes) (count : Int) (hlen : 2 * count.toNat ≤ data.length) :
    putBitBatchPacked w data count = (unpack data count.toNat).foldl (fun w p => putBit w p.1 p.2) w := by
  unfold putBitBatchPacked
  by_cases hc : count ≤ 0
  · have : count.toNat = 0 := by omega
    simp only [hc, if_true, this]; rfl
  · simp only [hc, if_false]
    by_cases hp : w.panicked = true
    · simp only [hp, if_true]; exact (foldl_panicked _ w hp).symm
    · have hl : ¬ data.length < 2 * count.toNat := by omega
      simp only [hp, Bool.false_eq_true, if_false, hl]
      have := batchLoop_eq data count.toNat 0 { w := w, r := w.range, v := w.value, nb := w.nbBits }
      exact this

end Webp.Proofs.BoolCoderBatch
