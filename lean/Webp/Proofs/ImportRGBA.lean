import Webp.Proofs.ImportAll
/-
  C19, `*image.RGBA` inputs: the un-premultiply of the fast paths (`uint8(uint16(c)*255/uint16(a))`)
  against `color.NRGBAModel.Convert` (`((c·0x101)·0xffff / (a·0x101)) >> 8`), by arithmetic.
-/
namespace Webp.Proofs.Import
open Webp.Go Webp.Impl.Import

theorem shows_atRGBA (img : Img) (v : Valid img) :
    Shows img.atRGBA img.rect img.w img.h (fun x y => nrgbaModelRGBA (img.rel x y)) := by
  refine ⟨v.dx_eq, v.dy_eq, ?_⟩
  intro x y hx hy
  unfold Img.atRGBA
  rw [colorAt_rel img v hx hy]

/-- the same, phrased with `img.Bounds()` -/
theorem shows_atRGBA_bounds (img : Img) (v : Valid img) :
    Shows img.atRGBA img.bounds img.w img.h (fun x y => nrgbaModelRGBA (img.rel x y)) := shows_atRGBA img v

/-- `NRGBAAt` behind an interface shows the picture -/
theorem shows_atNRGBA (img : Img) (v : Valid img) : Shows img.atNRGBA img.bounds img.w img.h img.rel :=
  shows_colorAt img v

theorem rgbaFast_opaque (c : RGBA8) (h : c.a = 255) : rgbaFastLossless c = nrgbaModelRGBA c := by
  obtain ⟨r, g, b, a⟩ := c
  simp only at h
  subst h
  simp [rgbaFastLossless, nrgbaModelRGBA]

theorem rgbaFast_transparent (c : RGBA8) (h : c.a = 0) (hv : c.r = 0 ∧ c.g = 0 ∧ c.b = 0) :
    rgbaFastLossless c = nrgbaModelRGBA c := by
  obtain ⟨r, g, b, a⟩ := c
  simp only at h hv
  obtain ⟨rfl, rfl, rfl⟩ := hv
  subst h
  decide

/-- `x | x<<8 = 257·x` for a byte -/
theorem or_shift8 : ∀ x, x < 256 → x ||| x <<< 8 % 4294967296 = 257 * x := by decide +kernel

/-- the arithmetic core: with `q = 255c/a`, `r = 255c mod a`,
    `(65535·c / a) / 256 = q + [q·a + 257·r ≥ 256·a]` -/
theorem generic_quotient (a c : Nat) (ha : 0 < a) (hc : c ≤ a) :
    65535 * c / a / 256 % 256 = 255 * c / a +
      (if 256 * a ≤ (255 * c / a) * a + 257 * (255 * c % a) then 1 else 0) := by
  have hdm : a * (255 * c / a) + 255 * c % a = 255 * c := Nat.div_add_mod _ _
  have hr : 255 * c % a < a := Nat.mod_lt _ ha
  generalize hq : 255 * c / a = q at *
  generalize hrr : 255 * c % a = r at *
  have hq255 : q ≤ 255 := by
    rw [← hq]; exact Nat.div_le_of_le_mul (by rw [Nat.mul_comm a 255]; exact Nat.mul_le_mul_left 255 hc)
  have h1 : 65535 * c = a * (257 * q) + 257 * r := by
    have : 65535 * c = 257 * (255 * c) := by omega
    rw [this, ← hdm, Nat.mul_add, ← Nat.mul_assoc, ← Nat.mul_assoc, Nat.mul_comm 257 a]
  have hqr : q = 255 → r = 0 := by
    intro h; rw [h] at hdm; omega
  have ht0 : q = 255 → 257 * r / a = 0 := by
    intro h; rw [hqr h]; simp
  rw [h1, Nat.mul_add_div ha]
  have ht : 257 * r / a < 257 := (Nat.div_lt_iff_lt_mul ha).mpr (by omega)
  have hiff : 256 - q ≤ 257 * r / a ↔ 256 * a ≤ q * a + 257 * r := by
    rw [Nat.le_div_iff_mul_le ha, Nat.sub_mul]
    have : q * a ≤ 256 * a := Nat.mul_le_mul_right a (by omega)
    omega
  generalize 257 * r / a = t at *
  have e : (257 * q + t) / 256 = q + (q + t) / 256 := by
    rw [show 257 * q + t = 256 * q + (q + t) by omega, Nat.mul_add_div (by omega)]
  rw [e]
  by_cases hcase : 256 * a ≤ q * a + 257 * r
  · rw [if_pos hcase]
    have h1 := hiff.mpr hcase
    have hq254 : q ≤ 254 := by
      rcases Nat.lt_or_ge q 255 with h | h
      · omega
      · have := ht0 (by omega); omega
    have h2 : (q + t) / 256 = 1 := by omega
    rw [h2]; omega
  · rw [if_neg hcase]
    have h1 : ¬ (256 - q ≤ t) := fun h => hcase (hiff.mp h)
    have h2 : (q + t) / 256 = 0 := by omega
    rw [h2]; omega

/-- both un-premultiplies as numbers, for every valid premultiplied channel -/
theorem unpremul_table (a c : UInt8) (ha0 : 0 < a) (ha : a < 255) (hc : c ≤ a) :
    (unpremulFast a c).toNat = 255 * c.toNat / a.toNat ∧
    (unpremulGeneric a c).toNat = 255 * c.toNat / a.toNat +
      (if 256 * a.toNat ≤ (255 * c.toNat / a.toNat) * a.toNat + 257 * (255 * c.toNat % a.toNat) then 1 else 0) := by
  have ha0' : 0 < a.toNat := by rw [UInt8.lt_iff_toNat_lt] at ha0; simpa using ha0
  have ha' : a.toNat < 255 := by rw [UInt8.lt_iff_toNat_lt] at ha; simpa using ha
  have hc' : c.toNat ≤ a.toNat := by rw [UInt8.le_iff_toNat_le] at hc; exact hc
  constructor
  · unfold unpremulFast
    simp only [UInt16.toNat_toUInt8, UInt16.toNat_div, UInt16.toNat_mul, UInt8.toNat_toUInt16,
      UInt16.toNat_ofNat]
    have h1 : c.toNat * 255 % 65536 = 255 * c.toNat := by omega
    have h2 : 255 * c.toNat / a.toNat ≤ 255 :=
      Nat.div_le_of_le_mul (by rw [Nat.mul_comm a.toNat 255]; exact Nat.mul_le_mul_left 255 hc')
    rw [h1]
    generalize 255 * c.toNat / a.toNat = q at *
    omega
  · unfold unpremulGeneric
    simp only [UInt32.toNat_toUInt8, UInt32.toNat_shiftRight, UInt32.toNat_div, UInt32.toNat_mul,
      UInt32.toNat_or, UInt32.toNat_shiftLeft, UInt8.toNat_toUInt32, UInt32.toNat_ofNat]
    rw [or_shift8 c.toNat (by omega), or_shift8 a.toNat (by omega)]
    have h1 : 257 * c.toNat * 65535 % 4294967296 = 257 * (65535 * c.toNat) := by omega
    rw [h1, Nat.mul_div_mul_left _ _ (by omega : 0 < 257), Nat.shiftRight_eq_div_pow]
    exact generic_quotient a.toNat c.toNat ha0' hc'

/-! exhaustive count of the disagreement set (evaluated, not a theorem): -/
#eval ((List.range 256).map fun a => ((List.range 256).filter fun c =>
  decide (0 < a) && decide (a < 255) && decide (c ≤ a) &&
  unpremulFast (UInt8.ofNat a) (UInt8.ofNat c) != unpremulGeneric (UInt8.ofNat a) (UInt8.ofNat c)).length).sum
-- 15193

end Webp.Proofs.Import
