import Webp.Proofs.AnimEncPlay
import Webp.Proofs.AnimEncCodec
/-
  One `AddFrame` call preserves the encoder invariant, for each of the five kinds of step:
  first frame / forced or fall-back key frame, merge of an identical canvas (with and without
  the duration-overflow filler frame), sub-frame with dispose-none, sub-frame with
  dispose-to-background.

  The invariant is parametric in the way played-back pixels are compared with source pixels
  (`r`: "equal or both transparent" for C08, "same alpha" for C18) and in the per-pixel condition
  `ok` behind the blend predicate of the encoder's mode.
-/
namespace Webp.Proofs.AnimEncStep
open Webp.Spec.Anim Webp.Impl Webp.Impl.AnimEnc Webp.Impl.AnimDec Webp.Proofs.AnimDecLoops
open Webp.Proofs.AnimDecGeom Webp.Proofs.AnimDecPlay Webp.Proofs.AnimEncRect
open Webp.Proofs.AnimEncBlend Webp.Proofs.AnimEncPlay Webp.Proofs.AnimEncCodec

/-! ### configuration -/

/-- what `NewEncoder` guarantees, on today's code (no pinned behaviour) -/
structure Config.Valid (cfg : Config) : Prop where
  wpos : 0 < cfg.w
  wmax : cfg.w ≤ 16383
  hpos : 0 < cfg.h
  hmax : cfg.h ≤ 16383
  nopinBlend : cfg.pins.blend = false
  nopinFiller : cfg.pins.filler = false
  nopinAlpha : cfg.pins.alpha = false

theorem newEncoder_valid (cw ch : Int) (ll mx : Bool) (q : Nat) (kmin kmax loop : Int) (cfg : Config)
    (h : newEncoder cw ch ll mx q kmin kmax loop = some cfg) : Config.Valid cfg := by
  unfold newEncoder at h
  split at h
  · cases h
  · rename_i hc
    simp only [Option.some.injEq] at h
    subst h
    unfold maxCanvasDimension at hc
    exact ⟨by simp only []; omega, by simp only []; omega, by simp only []; omega,
           by simp only []; omega, rfl, rfl, rfl⟩

theorem Config.Valid.goW {cfg : Config} (hv : Config.Valid cfg) : IsGoInt cfg.w := by
  have := hv.wmax; unfold IsGoInt; omega

theorem Config.Valid.goH {cfg : Config} (hv : Config.Valid cfg) : IsGoInt cfg.h := by
  have := hv.hmax; unfold IsGoInt; omega

theorem canvasRect_ok (cfg : Config) (hv : Config.Valid cfg) : RectOK cfg.w cfg.h (canvasRect cfg.w cfg.h) := by
  have := hv.wpos; have := hv.hpos
  unfold canvasRect
  exact ⟨by simp only []; omega, by simp only []; omega, by simp only []; omega,
         by simp only []; omega, by simp only []; omega, by simp only []; omega⟩

/-- the blend predicate of the encoder's mode implies the per-pixel condition `ok` -/
def BlendOK (cfg : Config) (ok : Px → Px → Bool) : Prop :=
  ∀ (base curr : Canvas) (rect : Rect), RectOK cfg.w cfg.h rect →
    blendPossible cfg base curr rect = true →
    ∀ x y, x < cfg.w → y < cfg.h → rect.has x y = true →
      ok (base.px (y * cfg.w + x)) (curr.px (y * cfg.w + x)) = true

theorem blendOK_lossless (cfg : Config) (hl : cfg.lossless = true) : BlendOK cfg okLossless := by
  intro base curr rect hr hb x y hx hy hh
  unfold blendPossible at hb
  rw [if_pos hl] at hb
  unfold isLosslessBlendingPossible at hb
  rw [rectAll_iff] at hb
  unfold Rect.has at hh
  simp only [Bool.and_eq_true, decide_eq_true_eq] at hh
  have := hb x y (by omega) (by omega) (by omega) (by omega)
  rw [nrgbaAt_in _ _ _ x y hx hy, nrgbaAt_in _ _ _ x y hx hy] at this
  exact this

theorem blendOK_lossy (cfg : Config) (hl : cfg.lossless = false) :
    BlendOK cfg (okLossy (qualityToMaxDiff cfg.quality)) := by
  intro base curr rect hr hb x y hx hy hh
  unfold blendPossible at hb
  rw [if_neg (by rw [hl]; decide)] at hb
  unfold isLossyBlendingPossible at hb
  simp only [] at hb
  rw [rectAll_iff] at hb
  unfold Rect.has at hh
  simp only [Bool.and_eq_true, decide_eq_true_eq] at hh
  have := hb x y (by omega) (by omega) (by omega) (by omega)
  rw [nrgbaAt_in _ _ _ x y hx hy, nrgbaAt_in _ _ _ x y hx hy] at this
  exact this

/-! ### the muxer -/

theorem modify_last {α : Type} (init : List α) (l : α) (g : α → α) :
    (init ++ [l]).modify init.length g = init ++ [g l] := by
  induction init with
  | nil => rfl
  | cons a as ih => simp [ih]

theorem lastIdx_toNat (n : Nat) : (((n + 1 : Nat) : Int) - 1).toNat = n := by omega

theorem setDisposeBG_last (init : List EFrame) (l : EFrame) :
    Mux.setFrameDisposeBG (init ++ [l]) (((init ++ [l]).length : Int) - 1) =
      init ++ [{ l with disposeBG := true }] := by
  unfold Mux.setFrameDisposeBG
  simp only [List.length_append, List.length_cons, List.length_nil]
  rw [if_pos (by omega), lastIdx_toNat, modify_last]

theorem setDuration_last (init : List EFrame) (l : EFrame) (d : Int) :
    Mux.setFrameDuration (init ++ [l]) (((init ++ [l]).length : Int) - 1) d =
      init ++ [{ l with dur := clampDuration d }] := by
  unfold Mux.setFrameDuration
  simp only [List.length_append, List.length_cons, List.length_nil]
  rw [if_pos (by omega), lastIdx_toNat, modify_last]

theorem frameDuration_last (init : List EFrame) (l : EFrame) :
    Mux.frameDuration (init ++ [l]) (((init ++ [l]).length : Int) - 1) = l.dur := by
  unfold Mux.frameDuration
  simp only [List.length_append, List.length_cons, List.length_nil]
  rw [if_pos (by omega), lastIdx_toNat]
  simp

/-! ### what playback sees of an emitted frame -/

/-- frames as playback sees them -/
def PF (cfg : Config) (c : Codec) (fs : List EFrame) : List Frame := fs.map (EFrame.played cfg c)

/-- canvas and last frame after playing the emitted frames -/
def E (cfg : Config) (c : Codec) (fs : List EFrame) : Canvas × Option Frame :=
  endOf blend cfg.w cfg.h (transparent cfg.w cfg.h) none (PF cfg c fs)

theorem played_setDispose (cfg : Config) (c : Codec) (l : EFrame) (b : Bool) :
    EFrame.played cfg c { l with disposeBG := b } = { EFrame.played cfg c l with disposeBG := b } := rfl

theorem played_setDur (cfg : Config) (c : Codec) (l : EFrame) (d : Int) :
    EFrame.played cfg c { l with dur := d } = EFrame.played cfg c l := rfl

theorem E_size (cfg : Config) (c : Codec) (fs : List EFrame) : (E cfg c fs).1.size = cfg.w * cfg.h :=
  endOf_size _ _ _ _ _ _ (transparent_size _ _)

theorem E_snoc (cfg : Config) (c : Codec) (fs : List EFrame) (f : EFrame) :
    E cfg c (fs ++ [f]) =
      (draw blend cfg.w cfg.h (f.played cfg c)
        (disposePrev cfg.w cfg.h (E cfg c fs).2 (E cfg c fs).1), some (f.played cfg c)) := by
  unfold E PF
  rw [List.map_append, List.map_cons, List.map_nil, endOf_snoc]

/-- changing the dispose flag or the duration of the last frame does not change the canvas -/
theorem E_last_setDispose (cfg : Config) (c : Codec) (init : List EFrame) (l : EFrame) (b : Bool) :
    E cfg c (init ++ [{ l with disposeBG := b }]) =
      ((E cfg c (init ++ [l])).1, some { l.played cfg c with disposeBG := b }) := by
  rw [E_snoc, E_snoc, played_setDispose, draw_setDispose]

theorem E_last_setDur (cfg : Config) (c : Codec) (init : List EFrame) (l : EFrame) (d : Int) :
    E cfg c (init ++ [{ l with dur := d }]) = E cfg c (init ++ [l]) := by
  rw [E_snoc, E_snoc, played_setDur]

/-- the decoded picture of an emitted frame, up to `r` -/
theorem played_facts {r : Px → Px → Bool} (cfg : Config) (c : Codec) (hdec : DecodesAll r cfg c)
    (f : EFrame) (hbd : Bounded f.img) (halt : f.useAlt = true → cfg.allowMixed = true) :
    (f.played cfg c).offX = f.offX ∧ (f.played cfg c).offY = f.offY ∧
    (f.played cfg c).fw = f.img.w ∧ (f.played cfg c).fh = f.img.h ∧
    (f.played cfg c).blendNone = f.blendNone ∧ (f.played cfg c).disposeBG = f.disposeBG ∧
    ∀ k, k < f.img.w * f.img.h → r ((f.played cfg c).px.getD k Px.zero) (f.img.at k) = true := by
  obtain ⟨d1, d2, d3⟩ := hdec f.img f.useAlt hbd halt
  exact ⟨rfl, rfl, d1, d2, rfl, rfl, d3⟩

/-! ### the invariant -/

/-- every emitted frame lies inside the canvas at even offsets (so the muxer accepts it and the
    halved offsets of the ANMF chunk lose nothing) -/
def FrameOK (cfg : Config) (f : EFrame) : Prop :=
  RectOK cfg.w cfg.h f.rect ∧ f.offX % 2 = 0 ∧ f.offY % 2 = 0 ∧
  (f.useAlt = true → cfg.allowMixed = true)

theorem frameOK_bounded (cfg : Config) (hv : Config.Valid cfg) (f : EFrame) (h : FrameOK cfg f) :
    Bounded f.img := by
  obtain ⟨⟨a1, a2, a3, a4, a5, a6⟩, _, _, _⟩ := h
  have := hv.wmax; have := hv.hmax
  unfold EFrame.rect at a1 a2 a3 a4 a5 a6
  simp only at a1 a2 a3 a4 a5 a6
  unfold Bounded
  omega

/-- **the encoder invariant** after at least one frame -/
structure Inv (r : Px → Px → Bool) (cfg : Config) (c : Codec) (st : EncState) : Prop where
  /-- the muxer holds at least one frame; the last one still has dispose-none and its rectangle
      is `prevFrameRect` -/
  snoc : ∃ init l, st.frames = init ++ [l] ∧ l.disposeBG = false ∧ l.rect = st.prevRect
  fc : st.frameCount = (st.frames.length : Int)
  idx : st.prevMuxIndex = (st.frames.length : Int) - 1
  framesOK : ∀ f, f ∈ st.frames → FrameOK cfg f
  psize : st.prevCanvas.size = cfg.w * cfg.h
  /-- playing the emitted frames ends on (a picture that compares equal to) `prevCanvas` -/
  rel : ∀ i, i < cfg.w * cfg.h → r ((E cfg c st.frames).1.px i) (st.prevCanvas.px i) = true

theorem Inv.rectOK {r : Px → Px → Bool} {cfg : Config} {c : Codec} {st : EncState}
    (hi : Inv r cfg c st) : RectOK cfg.w cfg.h st.prevRect := by
  obtain ⟨init, l, hf, _, hr⟩ := hi.snoc
  rw [← hr]
  exact (hi.framesOK l (by rw [hf]; simp)).1

/-- the encoder before the first frame -/
def Fresh (st : EncState) : Prop := st.frameCount = 0 ∧ st.frames = []

/-- the played-back pictures of the emitted frames -/
def PL (cfg : Config) (c : Codec) (fs : List EFrame) : List Canvas := play cfg.w cfg.h (PF cfg c fs)

/-- the durations the muxer holds -/
def durs (fs : List EFrame) : List Int := fs.map (·.dur)

theorem PL_snoc (cfg : Config) (c : Codec) (fs : List EFrame) (f : EFrame) :
    PL cfg c (fs ++ [f]) = PL cfg c fs ++ [(E cfg c (fs ++ [f])).1] := by
  unfold PL E PF
  rw [List.map_append, List.map_cons, List.map_nil, play_snoc]

theorem PL_last_setDispose (cfg : Config) (c : Codec) (init : List EFrame) (l : EFrame) (b : Bool) :
    PL cfg c (init ++ [{ l with disposeBG := b }]) = PL cfg c (init ++ [l]) := by
  rw [PL_snoc, PL_snoc, E_last_setDispose]

theorem PF_last_setDur (cfg : Config) (c : Codec) (init : List EFrame) (l : EFrame) (d : Int) :
    PF cfg c (init ++ [{ l with dur := d }]) = PF cfg c (init ++ [l]) := by
  unfold PF
  rw [List.map_append, List.map_append]
  rfl

/-- how one step changed the list of played-back pictures and the stored durations -/
inductive Shape (cfg : Config) (c : Codec) (st st' : EncState) (curr : Canvas) (d : Int) : Prop
  /-- a new frame was appended (first frame, key frame or sub-frame) -/
  | added
      (hnew : Fresh st ∨ st.prevCanvas ≠ curr)
      (hplay : PL cfg c st'.frames = PL cfg c st.frames ++ [(E cfg c st'.frames).1])
      (hdur : durs st'.frames = durs st.frames ++ [clampDuration d])
  /-- the input was identical to the previous one: only the last duration changed -/
  | merged
      (hsame : st.prevCanvas = curr)
      (hplay : PL cfg c st'.frames = PL cfg c st.frames)
      (hdur : ∃ ds last, durs st.frames = ds ++ [last] ∧ wrap (last + d) < maxDuration ∧
        durs st'.frames = ds ++ [clampDuration (wrap (last + d))])
  /-- identical input, duration overflow: last frame capped, a filler with the same picture added -/
  | filler
      (hsame : st.prevCanvas = curr)
      (hplay : PL cfg c st'.frames = PL cfg c st.frames ++ [(E cfg c st.frames).1])
      (hcan : (E cfg c st'.frames).1 = (E cfg c st.frames).1)
      (hdur : ∃ ds last, durs st.frames = ds ++ [last] ∧ ¬ wrap (last + d) < maxDuration ∧
        durs st'.frames = ds ++ [clampDuration maxDuration,
          clampDuration (wrap (wrap (last + d) - maxDuration))])

/-! ### appending one frame -/

/-- appending a frame whose picture is the (cleared, when blended) target on its rectangle -/
theorem append_rel {r ok : Px → Px → Bool} (hR : PxRel r ok) (cfg : Config) (c : Codec)
    (hv : Config.Valid cfg) (hdec : DecodesAll r cfg c) (fs : List EFrame) (f : EFrame)
    (Pd T : Canvas) (rect : Rect) (hrect : RectOK cfg.w cfg.h rect) (blnd : Bool)
    (halt : f.useAlt = true → cfg.allowMixed = true)
    (h1 : f.offX = rect.minX) (h2 : f.offY = rect.minY)
    (h3 : f.img.w = (rect.maxX - rect.minX).toNat) (h4 : f.img.h = (rect.maxY - rect.minY).toNat)
    (hbn : f.blendNone = !blnd)
    (himg : ∀ i j, i < f.img.w → j < f.img.h →
      f.img.at (j * f.img.w + i) =
        (if blnd then clearPx (T.px ((rect.minY.toNat + j) * cfg.w + (rect.minX.toNat + i)))
         else T.px ((rect.minY.toNat + j) * cfg.w + (rect.minX.toNat + i))))
    (hB : ∀ i, i < cfg.w * cfg.h →
      r ((disposePrev cfg.w cfg.h (E cfg c fs).2 (E cfg c fs).1).px i) (Pd.px i) = true)
    (hok : blnd = true → ∀ x y, x < cfg.w → y < cfg.h → rect.has x y = true →
      ok (Pd.px (y * cfg.w + x)) (T.px (y * cfg.w + x)) = true)
    (hbbox : ∀ x y, x < cfg.w → y < cfg.h → pxDiff cfg.w Pd T x y = true → rect.has x y = true) :
    ∀ i, i < cfg.w * cfg.h → r ((E cfg c (fs ++ [f])).1.px i) (T.px i) = true := by
  rw [E_snoc]
  have hbd : Bounded f.img := by
    obtain ⟨a1, a2, a3, a4, a5, a6⟩ := hrect
    have := hv.wmax; have := hv.hmax
    unfold Bounded
    rw [h3, h4]
    omega
  obtain ⟨p1, p2, p3, p4, p5, _, p7⟩ := played_facts cfg c hdec f hbd halt
  apply draw_rel hR.blend cfg.w cfg.h (f.played cfg c) _ Pd T rect hrect f.img blnd
  · rw [p1, h1]
  · rw [p2, h2]
  · rw [p3, h3]
  · rw [p4, h4]
  · rw [p5, hbn]
  · rw [p3, p4]; exact p7
  · rw [p3, p4]; exact himg
  · exact hB
  · exact hok
  · exact hbbox

/-! ### key frames (first frame, forced key frame, 90 % fall-back) -/

theorem pickAlt_ok (cfg : Config) (b : Bool) : pickAlt cfg b = true → cfg.allowMixed = true := by
  intro h
  simp only [pickAlt, Bool.and_eq_true] at h
  exact h.1

theorem encodeKeyframe_inv {r ok : Px → Px → Bool} (hR : PxRel r ok) (cfg : Config) (c : Codec)
    (hv : Config.Valid cfg) (hdec : DecodesAll r cfg c) (st : EncState) (curr : Canvas)
    (hcs : curr.size = cfg.w * cfg.h) (d : Int) (o : StepOracle)
    (hfc : st.frameCount = (st.frames.length : Int))
    (hfo : ∀ f, f ∈ st.frames → FrameOK cfg f)
    (hnew : Fresh st ∨ st.prevCanvas ≠ curr) :
    Inv r cfg c (encodeKeyframe cfg st curr d o).1 ∧
    (encodeKeyframe cfg st curr d o).1.prevCanvas = curr ∧
    Shape cfg c st (encodeKeyframe cfg st curr d o).1 curr d := by
  have hrok := canvasRect_ok cfg hv
  let f : EFrame := keyFrame cfg curr (clampDuration d) o
  have hfr : (encodeKeyframe cfg st curr d o).1.frames = st.frames ++ [f] := rfl
  have halt : f.useAlt = true → cfg.allowMixed = true := pickAlt_ok cfg _
  have hrect : f.rect = canvasRect cfg.w cfg.h := by
    simp only [EFrame.rect, canvasRect, f, keyFrame]
    congr 1 <;> omega
  have hrel : ∀ i, i < cfg.w * cfg.h → r ((E cfg c (st.frames ++ [f])).1.px i) (curr.px i) = true := by
    apply append_rel hR cfg c hv hdec st.frames f
      (disposePrev cfg.w cfg.h (E cfg c st.frames).2 (E cfg c st.frames).1) curr
      (canvasRect cfg.w cfg.h) hrok false halt rfl rfl
    · simp only [f, keyFrame, canvasRect]; omega
    · simp only [f, keyFrame, canvasRect]; omega
    · rfl
    · intro i j _ _
      simp only [Bool.false_eq_true, if_false, canvasRect, f, keyFrame, SubImage.at, Canvas.px]
      congr 1
      simp
    · intro i _; exact hR.refl _
    · intro h; cases h
    · intro x y hx hy _
      unfold Rect.has canvasRect
      simp only [Bool.and_eq_true, decide_eq_true_eq]
      omega
  refine ⟨⟨⟨st.frames, f, hfr, rfl, hrect⟩, ?_, ?_, ?_, hcs, ?_⟩, rfl, ?_⟩
  · rw [hfr]
    show st.frameCount + 1 = _
    rw [hfc]; simp only [List.length_append, List.length_cons, List.length_nil] <;> omega
  · rw [hfr]; rfl
  · intro g hg
    rw [hfr, List.mem_append] at hg
    rcases hg with hg | hg
    · exact hfo g hg
    · simp only [List.mem_singleton] at hg
      subst hg
      exact ⟨by rw [hrect]; exact hrok, rfl, rfl, halt⟩
  · rw [hfr]; exact hrel
  · refine Shape.added hnew ?_ ?_
    · rw [hfr, PL_snoc]
    · rw [hfr]; simp [durs, f, keyFrame]

/-! ### identical canvas: merge, with or without the overflow filler -/

theorem frameOK_setDur (cfg : Config) (l : EFrame) (d : Int) :
    FrameOK cfg { l with dur := d } ↔ FrameOK cfg l := Iff.rfl

theorem frameOK_setDispose (cfg : Config) (l : EFrame) (b : Bool) :
    FrameOK cfg { l with disposeBG := b } ↔ FrameOK cfg l := Iff.rfl

theorem disposePrev_none_flag (w h : Nat) (L : Frame) (C : Canvas) (hd : L.disposeBG = false) :
    disposePrev w h (some L) C = C := by
  unfold disposePrev
  simp [hd]

/-- `increasePreviousDuration`, common case, as a state -/
theorem incr_lt (cfg : Config) (st : EncState) (d : Int) (o : StepOracle)
    (hlt : wrap (Mux.frameDuration st.frames st.prevMuxIndex + d) < maxDuration) :
    (increasePreviousDuration cfg st d o).1 =
      { st with frames := Mux.setFrameDuration st.frames st.prevMuxIndex
                  (wrap (Mux.frameDuration st.frames st.prevMuxIndex + d)) } := by
  unfold increasePreviousDuration
  simp only []
  rw [if_pos hlt]
  rfl

/-- `increasePreviousDuration`, overflow case, as a state (today's code) -/
theorem incr_ge (cfg : Config) (hv : Config.Valid cfg) (st : EncState) (d : Int) (o : StepOracle)
    (hge : ¬ wrap (Mux.frameDuration st.frames st.prevMuxIndex + d) < maxDuration) :
    (increasePreviousDuration cfg st d o).1 =
      { st with
        prevMuxIndex := Mux.numFrames (Mux.addFrame (Mux.setFrameDuration st.frames st.prevMuxIndex maxDuration)
          (fillerFrame cfg (wrap (wrap (Mux.frameDuration st.frames st.prevMuxIndex + d) - maxDuration)) o)) - 1,
        prevRect := mkRect 0 0 1 1,
        frameCount := st.frameCount + 1,
        countSinceKeyframe := st.countSinceKeyframe + 1,
        frames := Mux.addFrame (Mux.setFrameDuration st.frames st.prevMuxIndex maxDuration)
          (fillerFrame cfg (wrap (wrap (Mux.frameDuration st.frames st.prevMuxIndex + d) - maxDuration)) o) } := by
  unfold increasePreviousDuration
  simp only []
  rw [if_neg hge, hv.nopinFiller]
  rfl

theorem increasePreviousDuration_inv {r ok : Px → Px → Bool} (hR : PxRel r ok) (cfg : Config)
    (c : Codec) (hv : Config.Valid cfg) (hdec : DecodesAll r cfg c) (st : EncState)
    (hinv : Inv r cfg c st) (d : Int) (o : StepOracle) :
    Inv r cfg c (increasePreviousDuration cfg st d o).1 ∧
    (increasePreviousDuration cfg st d o).1.prevCanvas = st.prevCanvas ∧
    Shape cfg c st (increasePreviousDuration cfg st d o).1 st.prevCanvas d := by
  obtain ⟨init, l, hf, hl1, hl2⟩ := hinv.snoc
  have hpd : Mux.frameDuration st.frames st.prevMuxIndex = l.dur := by
    rw [hinv.idx, hf, frameDuration_last]
  have hdurs : durs st.frames = durs init ++ [l.dur] := by rw [hf]; simp [durs]
  have hlok := hinv.framesOK l (by rw [hf]; simp)
  by_cases hlt : wrap (l.dur + d) < maxDuration
  · -- common case: only the duration of the last frame changes
    let l' : EFrame := { l with dur := clampDuration (wrap (l.dur + d)) }
    have hfr : (increasePreviousDuration cfg st d o).1 = { st with frames := init ++ [l'] } := by
      rw [incr_lt cfg st d o (by rw [hpd]; exact hlt), hpd, hinv.idx, hf, setDuration_last]
    rw [hfr]
    refine ⟨⟨⟨init, l', rfl, hl1, hl2⟩, ?_, ?_, ?_, hinv.psize, ?_⟩, rfl, ?_⟩
    · show st.frameCount = ((init ++ [l']).length : Int)
      rw [hinv.fc, hf]; simp only [List.length_append, List.length_cons, List.length_nil] <;> omega
    · show st.prevMuxIndex = ((init ++ [l']).length : Int) - 1
      rw [hinv.idx, hf]; simp only [List.length_append, List.length_cons, List.length_nil]
    · intro g hg
      have hg' : g ∈ init ++ [l'] := hg
      simp only [List.mem_append, List.mem_singleton] at hg'
      rcases hg' with hg' | hg'
      · exact hinv.framesOK g (by rw [hf]; simp [hg'])
      · subst hg'
        exact (frameOK_setDur cfg l _).mpr hlok
    · show ∀ i, i < cfg.w * cfg.h → r ((E cfg c (init ++ [l'])).1.px i) (st.prevCanvas.px i) = true
      rw [E_last_setDur, ← hf]
      exact hinv.rel
    · refine Shape.merged rfl ?_ ⟨durs init, l.dur, hdurs, hlt, ?_⟩
      · show PL cfg c (init ++ [l']) = _
        unfold PL
        rw [PF_last_setDur, hf]
      · show durs (init ++ [l']) = _
        simp [durs, l']
  · -- overflow: cap the last frame, append the 1x1 transparent filler
    let lcap : EFrame := { l with dur := clampDuration maxDuration }
    let fill : EFrame := fillerFrame cfg (clampDuration (wrap (wrap (l.dur + d) - maxDuration))) o
    have hfr : (increasePreviousDuration cfg st d o).1 =
        { st with prevMuxIndex := ((init ++ [lcap] ++ [fill]).length : Int) - 1,
                  prevRect := mkRect 0 0 1 1,
                  frameCount := st.frameCount + 1,
                  countSinceKeyframe := st.countSinceKeyframe + 1,
                  frames := init ++ [lcap] ++ [fill] } := by
      rw [incr_ge cfg hv st d o (by rw [hpd]; exact hlt), hpd, hinv.idx, hf, setDuration_last]
      rfl
    have halt : fill.useAlt = true → cfg.allowMixed = true := pickAlt_ok cfg _
    have hunit : RectOK cfg.w cfg.h (mkRect 0 0 1 1) := by
      have e : mkRect 0 0 1 1 = ⟨0, 0, 1, 1⟩ := by decide
      have := hv.wpos; have := hv.hpos
      rw [e]
      exact ⟨by decide, by decide, by show (1 : Int) ≤ cfg.w; omega, by decide, by decide,
        by show (1 : Int) ≤ cfg.h; omega⟩
    have hfrect : fill.rect = mkRect 0 0 1 1 := by
      simp only [fill, fillerFrame, EFrame.rect]; decide
    -- the filler leaves the canvas as it is
    have hE1 : E cfg c (init ++ [lcap]) = E cfg c st.frames := by rw [E_last_setDur, hf]
    have hcan : (E cfg c (init ++ [lcap] ++ [fill])).1 = (E cfg c st.frames).1 := by
      rw [E_snoc, hE1]
      have h2 : (E cfg c st.frames).2 = some (l.played cfg c) := by rw [hf, E_snoc]
      rw [h2, disposePrev_none_flag _ _ _ _ (by exact hl1)]
      obtain ⟨_, _, p3, p4, p5, _, p7⟩ := played_facts cfg c hdec fill
        (by show Bounded ⟨1, 1, #[Px.zero]⟩; unfold Bounded; decide) halt
      apply draw_transparent _ _ _ _ (E_size cfg c st.frames) (by rw [p5]; rfl)
      intro sx sy hsx hsy
      rw [p3] at hsx; rw [p4] at hsy
      have hsx0 : sx = 0 := by simp only [fill, fillerFrame] at hsx; omega
      have hsy0 : sy = 0 := by simp only [fill, fillerFrame] at hsy; omega
      subst hsx0; subst hsy0
      have := p7 0 (by show 0 < 1 * 1; decide)
      have ha := hR.alpha this
      unfold Frame.at
      simp only [Nat.zero_mul, Nat.add_zero]
      rw [ha]
      rfl
    rw [hfr]
    refine ⟨⟨⟨init ++ [lcap], fill, rfl, rfl, hfrect⟩, ?_, rfl, ?_, hinv.psize, ?_⟩, rfl, ?_⟩
    · show st.frameCount + 1 = ((init ++ [lcap] ++ [fill]).length : Int)
      rw [hinv.fc, hf]; simp only [List.length_append, List.length_cons, List.length_nil] <;> omega
    · intro g hg
      have hg' : g ∈ init ++ [lcap] ++ [fill] := hg
      simp only [List.mem_append, List.mem_singleton] at hg'
      rcases hg' with (hg' | hg') | hg'
      · exact hinv.framesOK g (by rw [hf]; simp [hg'])
      · subst hg'
        exact (frameOK_setDur cfg l _).mpr hlok
      · subst hg'
        exact ⟨by rw [hfrect]; exact hunit, rfl, rfl, halt⟩
    · show ∀ i, i < cfg.w * cfg.h →
        r ((E cfg c (init ++ [lcap] ++ [fill])).1.px i) (st.prevCanvas.px i) = true
      rw [hcan]
      exact hinv.rel
    · refine Shape.filler rfl ?_ hcan ⟨durs init, l.dur, hdurs, hlt, ?_⟩
      · show PL cfg c (init ++ [lcap] ++ [fill]) = _
        rw [PL_snoc, hcan]
        congr 1
        unfold PL
        rw [PF_last_setDur, hf]
      · show durs (init ++ [lcap] ++ [fill]) = _
        simp [durs, lcap, fill, fillerFrame]

/-! ### sub-frames -/

/-- appending a candidate frame on top of a playback that shows its base canvas shows `curr` -/
theorem candFrame_rel {r ok : Px → Px → Bool} (hR : PxRel r ok) (cfg : Config) (c : Codec)
    (hv : Config.Valid cfg) (hbok : BlendOK cfg ok) (hdec : DecodesAll r cfg c)
    (fs : List EFrame) (base curr : Canvas) (d : Int) (alt : Bool)
    (hB : ∀ i, i < cfg.w * cfg.h →
      r ((disposePrev cfg.w cfg.h (E cfg c fs).2 (E cfg c fs).1).px i) (base.px i) = true) :
    (∀ i, i < cfg.w * cfg.h →
      r ((E cfg c (fs ++ [candFrame cfg base curr d alt])).1.px i) (curr.px i) = true) ∧
    FrameOK cfg (candFrame cfg base curr d alt) ∧
    (candFrame cfg base curr d alt).rect = candidateRect cfg.w cfg.h base curr := by
  obtain ⟨hrect, hex, hey, hbbox⟩ := candidateRect_spec cfg.w cfg.h base curr hv.wpos hv.hpos
  obtain ⟨e1, e2, e3, e4⟩ := extractSubImage_spec cfg.w cfg.h curr _ hrect
  have hcf : candFrame cfg base curr d alt =
      { offX := (candidateRect cfg.w cfg.h base curr).minX,
        offY := (candidateRect cfg.w cfg.h base curr).minY,
        blendNone := !blendPossible cfg base curr (candidateRect cfg.w cfg.h base curr),
        disposeBG := false, dur := d,
        img := candidateImage cfg curr (candidateRect cfg.w cfg.h base curr)
          (blendPossible cfg base curr (candidateRect cfg.w cfg.h base curr)),
        useAlt := pickAlt cfg alt } := rfl
  generalize candidateRect cfg.w cfg.h base curr = rect at hrect hex hey hbbox e1 e2 e3 e4 hcf
  generalize hbdef : blendPossible cfg base curr rect = bl at hcf
  have himgdef : candidateImage cfg curr rect bl =
      (if bl then clearBlendedTranslucent (extractSubImage cfg.w curr rect)
       else extractSubImage cfg.w curr rect) := by
    unfold candidateImage
    rw [hv.nopinBlend]
    cases bl <;> simp
  have hw : (candidateImage cfg curr rect bl).w = (rect.maxX - rect.minX).toNat := by
    rw [himgdef]; cases bl <;> simp [clearBlendedTranslucent, e1]
  have hh : (candidateImage cfg curr rect bl).h = (rect.maxY - rect.minY).toNat := by
    rw [himgdef]; cases bl <;> simp [clearBlendedTranslucent, e2]
  have halt : pickAlt cfg alt = true → cfg.allowMixed = true := pickAlt_ok cfg _
  have hr : (candFrame cfg base curr d alt).rect = rect := by
    rw [hcf]
    simp only [EFrame.rect, hw, hh]
    obtain ⟨a1, a2, a3, a4, a5, a6⟩ := hrect
    obtain ⟨x0, y0, x1, y1⟩ := rect
    simp only at a1 a2 a3 a4 a5 a6 ⊢
    congr 1 <;> omega
  refine ⟨?_, ⟨by rw [hr]; exact hrect, by rw [hcf]; exact hex, by rw [hcf]; exact hey,
    by rw [hcf]; exact halt⟩, hr⟩
  rw [hcf]
  apply append_rel hR cfg c hv hdec fs _ base curr rect hrect bl halt rfl rfl hw hh rfl
  · intro i j hi hj
    simp only [] at hi hj ⊢
    rw [hw] at hi ⊢
    rw [hh] at hj
    rw [himgdef]
    cases bl with
    | false =>
      simp only [Bool.false_eq_true, if_false]
      exact e4 i j hi hj
    | true =>
      simp only [if_true]
      rw [clearBlendedTranslucent_at _ _ (by rw [e3]; exact idx_lt hi hj), e4 i j hi hj]
  · exact hB
  · intro hbl x y hx hy hh'
    subst hbl
    exact hbok base curr rect hrect hbdef x y hx hy hh'
  · exact hbbox

/-- `encodeSubFrame` when the 90 % rule does not fire, dispose-to-background chosen -/
theorem subframe_bg (cfg : Config) (st : EncState) (curr : Canvas) (d : Int) (o : StepOracle)
    (hk : ¬ keyFallback cfg (bestRect cfg st curr o) o = true) (hbg : o.useBG = true) :
    (encodeSubFrame cfg st curr d o).1 =
      { st with
        prevCanvas := curr,
        prevRect := candidateRect cfg.w cfg.h (prevDisposed cfg st) curr,
        prevMuxIndex := Mux.numFrames (Mux.addFrame (Mux.setFrameDisposeBG st.frames st.prevMuxIndex)
          (candFrame cfg (prevDisposed cfg st) curr d o.altBG)) - 1,
        frameCount := st.frameCount + 1,
        frames := Mux.addFrame (Mux.setFrameDisposeBG st.frames st.prevMuxIndex)
          (candFrame cfg (prevDisposed cfg st) curr d o.altBG) } := by
  unfold encodeSubFrame
  rw [if_neg hk, if_pos hbg]
  rfl

/-- `encodeSubFrame` when the 90 % rule does not fire, dispose-none chosen -/
theorem subframe_none (cfg : Config) (st : EncState) (curr : Canvas) (d : Int) (o : StepOracle)
    (hk : ¬ keyFallback cfg (bestRect cfg st curr o) o = true) (hbg : ¬ o.useBG = true) :
    (encodeSubFrame cfg st curr d o).1 =
      { st with
        prevCanvas := curr,
        prevRect := candidateRect cfg.w cfg.h st.prevCanvas curr,
        prevMuxIndex := Mux.numFrames (Mux.addFrame st.frames
          (candFrame cfg st.prevCanvas curr d o.altNone)) - 1,
        frameCount := st.frameCount + 1,
        frames := Mux.addFrame st.frames (candFrame cfg st.prevCanvas curr d o.altNone) } := by
  unfold encodeSubFrame
  rw [if_neg hk, if_neg hbg]
  rfl

theorem subframe_key (cfg : Config) (st : EncState) (curr : Canvas) (d : Int) (o : StepOracle)
    (hk : keyFallback cfg (bestRect cfg st curr o) o = true) :
    encodeSubFrame cfg st curr d o = encodeKeyframe cfg st curr d o := by
  unfold encodeSubFrame
  rw [if_pos hk]

theorem addFrame_candFrame (cfg : Config) (fs : List EFrame) (base curr : Canvas) (d : Int) (alt : Bool) :
    Mux.addFrame fs (candFrame cfg base curr d alt) =
      fs ++ [candFrame cfg base curr (clampDuration d) alt] := by
  simp only [Mux.addFrame, candFrame]

theorem encodeSubFrame_inv {r ok : Px → Px → Bool} (hR : PxRel r ok) (cfg : Config) (c : Codec)
    (hv : Config.Valid cfg) (hbok : BlendOK cfg ok) (hdec : DecodesAll r cfg c) (st : EncState)
    (hinv : Inv r cfg c st) (curr : Canvas) (hcs : curr.size = cfg.w * cfg.h)
    (hne : st.prevCanvas ≠ curr) (d : Int) (o : StepOracle) :
    Inv r cfg c (encodeSubFrame cfg st curr d o).1 ∧
    (encodeSubFrame cfg st curr d o).1.prevCanvas = curr ∧
    Shape cfg c st (encodeSubFrame cfg st curr d o).1 curr d := by
  obtain ⟨init, l, hf, hl1, hl2⟩ := hinv.snoc
  have hlok := hinv.framesOK l (by rw [hf]; simp)
  have hE2 : (E cfg c st.frames).2 = some (l.played cfg c) := by rw [hf, E_snoc]
  by_cases hk : keyFallback cfg (bestRect cfg st curr o) o = true
  · -- 90 % rule: key frame
    rw [subframe_key cfg st curr d o hk]
    exact encodeKeyframe_inv hR cfg c hv hdec st curr hcs d o hinv.fc hinv.framesOK (Or.inr hne)
  · by_cases hbg : o.useBG = true
    · -- dispose-to-background candidate
      let l' : EFrame := { l with disposeBG := true }
      let base := prevDisposed cfg st
      let cf := candFrame cfg base curr (clampDuration d) o.altBG
      have hEl : E cfg c (init ++ [l']) =
          ((E cfg c st.frames).1, some { l.played cfg c with disposeBG := true }) := by
        rw [E_last_setDispose, hf]
      -- the disposed playback shows the encoder's disposed canvas
      have hB : ∀ i, i < cfg.w * cfg.h →
          r ((disposePrev cfg.w cfg.h (E cfg c (init ++ [l'])).2 (E cfg c (init ++ [l'])).1).px i)
            (base.px i) = true := by
        intro i hi
        rw [hEl]
        simp only [disposePrev, if_true]
        obtain ⟨_, g⟩ := fillRect_rect_get cfg.w cfg.h st.prevCanvas st.prevRect hinv.rectOK
          hv.goW hv.goH hinv.psize
        show r _ ((fillRect cfg.w cfg.h st.prevCanvas st.prevRect Px.zero).px i) = true
        rw [px_eq_getD, disposeRect_get _ _ _ _ i hi, g i hi]
        obtain ⟨p1, p2, p3, p4, _, _, _⟩ := played_facts cfg c hdec l (frameOK_bounded cfg hv l hlok) hlok.2.2.2
        have hrl : l.rect = st.prevRect := hl2
        have hcov : Frame.covers { l.played cfg c with disposeBG := true } (i % cfg.w) (i / cfg.w) =
            st.prevRect.has (i % cfg.w) (i / cfg.w) := by
          apply covers_iff_has
          · show (l.played cfg c).offX = _
            rw [p1, ← hrl]; rfl
          · show (l.played cfg c).offY = _
            rw [p2, ← hrl]; rfl
          · show ((l.played cfg c).fw : Int) = _
            rw [p3, ← hrl]; simp only [EFrame.rect]; omega
          · show ((l.played cfg c).fh : Int) = _
            rw [p4, ← hrl]; simp only [EFrame.rect]; omega
        rw [hcov]
        split
        · exact hR.refl _
        · exact hinv.rel i hi
      obtain ⟨crel, cok, crect⟩ := candFrame_rel hR cfg c hv hbok hdec (init ++ [l']) base curr
        (clampDuration d) o.altBG hB
      have hfr : (encodeSubFrame cfg st curr d o).1 =
          { st with prevCanvas := curr,
                    prevRect := candidateRect cfg.w cfg.h base curr,
                    prevMuxIndex := ((init ++ [l'] ++ [cf]).length : Int) - 1,
                    frameCount := st.frameCount + 1,
                    frames := init ++ [l'] ++ [cf] } := by
        rw [subframe_bg cfg st curr d o hk hbg, addFrame_candFrame, hinv.idx, hf, setDisposeBG_last]
        rfl
      rw [hfr]
      refine ⟨⟨⟨init ++ [l'], cf, rfl, rfl, crect⟩, ?_, rfl, ?_, hcs, crel⟩, rfl, ?_⟩
      · show st.frameCount + 1 = ((init ++ [l'] ++ [cf]).length : Int)
        rw [hinv.fc, hf]; simp only [List.length_append, List.length_cons, List.length_nil] <;> omega
      · intro g hg
        have hg' : g ∈ init ++ [l'] ++ [cf] := hg
        simp only [List.mem_append, List.mem_singleton] at hg'
        rcases hg' with (hg' | hg') | hg'
        · exact hinv.framesOK g (by rw [hf]; simp [hg'])
        · subst hg'; exact (frameOK_setDispose cfg l true).mpr hlok
        · subst hg'; exact cok
      · refine Shape.added (Or.inr hne) ?_ ?_
        · show PL cfg c (init ++ [l'] ++ [cf]) = _
          rw [PL_snoc, PL_last_setDispose, hf]
        · show durs (init ++ [l'] ++ [cf]) = _
          rw [hf]; simp [durs, l', cf, candFrame]
    · -- dispose-none candidate
      let cf := candFrame cfg st.prevCanvas curr (clampDuration d) o.altNone
      have hB : ∀ i, i < cfg.w * cfg.h →
          r ((disposePrev cfg.w cfg.h (E cfg c st.frames).2 (E cfg c st.frames).1).px i)
            (st.prevCanvas.px i) = true := by
        intro i hi
        rw [hE2, disposePrev_none_flag _ _ _ _ (by exact hl1)]
        exact hinv.rel i hi
      obtain ⟨crel, cok, crect⟩ := candFrame_rel hR cfg c hv hbok hdec st.frames st.prevCanvas curr
        (clampDuration d) o.altNone hB
      have hfr : (encodeSubFrame cfg st curr d o).1 =
          { st with prevCanvas := curr,
                    prevRect := candidateRect cfg.w cfg.h st.prevCanvas curr,
                    prevMuxIndex := ((st.frames ++ [cf]).length : Int) - 1,
                    frameCount := st.frameCount + 1,
                    frames := st.frames ++ [cf] } := by
        rw [subframe_none cfg st curr d o hk hbg, addFrame_candFrame]
        rfl
      rw [hfr]
      refine ⟨⟨⟨st.frames, cf, rfl, rfl, crect⟩, ?_, rfl, ?_, hcs, crel⟩, rfl, ?_⟩
      · show st.frameCount + 1 = ((st.frames ++ [cf]).length : Int)
        rw [hinv.fc]; simp only [List.length_append, List.length_cons, List.length_nil] <;> omega
      · intro g hg
        have hg' : g ∈ st.frames ++ [cf] := hg
        simp only [List.mem_append, List.mem_singleton] at hg'
        rcases hg' with hg' | hg'
        · exact hinv.framesOK g hg'
        · subst hg'; exact cok
      · refine Shape.added (Or.inr hne) ?_ ?_
        · show PL cfg c (st.frames ++ [cf]) = _
          rw [PL_snoc]
        · show durs (st.frames ++ [cf]) = _
          simp [durs, cf, candFrame]

/-! ### one `AddFrame` call -/

theorem inv_setCount {r : Px → Px → Bool} (cfg : Config) (c : Codec) (st : EncState) (k : Int)
    (hinv : Inv r cfg c st) : Inv r cfg c { st with countSinceKeyframe := k } :=
  ⟨hinv.snoc, hinv.fc, hinv.idx, hinv.framesOK, hinv.psize, hinv.rel⟩

/-- **per-step lemma**: from a fresh encoder or a state satisfying the invariant, one `AddFrame`
    call (any duration, any oracle) establishes the invariant, makes the input the new
    `prevCanvas`, and changes the played-back pictures in one of three ways (`Shape`). -/
theorem step_inv {r ok : Px → Px → Bool} (hR : PxRel r ok) (cfg : Config) (c : Codec)
    (hv : Config.Valid cfg) (hbok : BlendOK cfg ok) (hdec : DecodesAll r cfg c) (st : EncState)
    (hst : Fresh st ∨ Inv r cfg c st) (curr : Canvas) (hcs : curr.size = cfg.w * cfg.h)
    (d : Int) (o : StepOracle) :
    Inv r cfg c (AnimEnc.step cfg st curr d o).1 ∧ (AnimEnc.step cfg st curr d o).1.prevCanvas = curr ∧
    Shape cfg c st (AnimEnc.step cfg st curr d o).1 curr d := by
  rcases hst with hfresh | hinv
  · -- first frame
    unfold Webp.Impl.AnimEnc.step
    rw [if_pos hfresh.1]
    exact encodeKeyframe_inv hR cfg c hv hdec st curr hcs d o (by rw [hfresh.1, hfresh.2]; rfl)
      (by intro f hf; rw [hfresh.2] at hf; cases hf) (Or.inl hfresh)
  · have hfc : st.frameCount ≠ 0 := by
      obtain ⟨init, l, hf, _, _⟩ := hinv.snoc
      rw [hinv.fc, hf]; simp only [List.length_append, List.length_cons, List.length_nil] <;> omega
    unfold Webp.Impl.AnimEnc.step
    rw [if_neg hfc]
    by_cases hid : isCanvasIdentical st.prevCanvas curr = true
    · rw [if_pos hid]
      have heq : st.prevCanvas = curr := by
        unfold isCanvasIdentical at hid
        exact eq_of_beq hid
      have := increasePreviousDuration_inv hR cfg c hv hdec st hinv d o
      rw [heq] at this
      exact this
    · rw [if_neg hid]
      have hne : st.prevCanvas ≠ curr := by
        intro h
        apply hid
        unfold isCanvasIdentical
        rw [h]; exact beq_self_eq_true curr
      simp only []
      have hinv' := inv_setCount cfg c st (st.countSinceKeyframe + 1) hinv
      have conv : ∀ st'', Shape cfg c { st with countSinceKeyframe := st.countSinceKeyframe + 1 } st'' curr d →
          Shape cfg c st st'' curr d := by
        intro st'' sh
        cases sh with
        | added h1 h2 h3 =>
          refine Shape.added ?_ h2 h3
          rcases h1 with h1 | h1
          · exact Or.inl h1
          · exact Or.inr h1
        | merged h1 h2 h3 => exact Shape.merged h1 h2 h3
        | filler h1 h2 h3 h4 => exact Shape.filler h1 h2 h3 h4
      split
      · obtain ⟨a, b, sh⟩ := encodeKeyframe_inv hR cfg c hv hdec _ curr hcs d o hinv'.fc hinv'.framesOK
          (Or.inr hne)
        exact ⟨a, b, conv _ sh⟩
      · obtain ⟨a, b, sh⟩ := encodeSubFrame_inv hR cfg c hv hbok hdec _ hinv' curr hcs hne d o
        exact ⟨a, b, conv _ sh⟩

end Webp.Proofs.AnimEncStep
