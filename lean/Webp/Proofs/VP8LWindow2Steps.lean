import Webp.Proofs.VP8LWindow2
/-
  The WINDOW BUDGET, part 6: `ReadBits` and the code-length lookup in window states.
-/
namespace Webp.Proofs.VP8LWindow
open Webp.Go (Res)
open Webp.Spec.VP8L (BitReader Err Code)
open Webp.Impl.VP8LEntropy
open Webp.Impl.VP8LWindow
open Webp.Proofs.VP8LEntropyBits
open Webp.Proofs.VP8LEntropyReader

theorem goOps2_readBits (r : Reader) (n : Nat) : goOps2.readBits r n = r.readBits n := rfl
theorem goOps2_fill (r : Reader) : goOps2.fill r = r.fillBitWindow := rfl
theorem goOps2_prefetch (r : Reader) : goOps2.prefetch r = (r.prefetchBits, r) := rfl
theorem goOps2_advance (r : Reader) (n : Nat) : goOps2.advance r n = r.advance n := rfl
theorem goOps2_eos (r : Reader) : goOps2.eos r = (r.isEndOfStream, r) := rfl
theorem goOps2_note (s : String) (r : Reader) : goOps2.note s r = r := rfl

/-- a state between two `ReadBits` calls is a window state with slack 7 -/
theorem Inv.good {buf : Array UInt8} {r : Reader} {P : Nat} (hi : Inv buf r P) : Good buf r P 7 :=
  ⟨hi.win, by have := hi.shifted; have := hi.le64; omega⟩

/-- **`ReadBits(n)` in a window state** (register position `≤ k`, `k + n ≤ 64`, `n ≤ 24` — e.g. the
    first read after a pixel loop or after a table lookup, where `shiftBytes` has not run): the
    specification's value, and afterwards the state between two `ReadBits` calls (slack 7); or the
    read runs past the end of the input on both sides. -/
theorem readBits_good {buf : Array UInt8} {r : Reader} {P k : Nat} (hg : Good buf r P k) (n : Nat)
    (hk : k + n ≤ 64) (hn : n ≤ 24) :
    ((brAt buf P).readBits n = .ok ((r.readBits n).1.toNat, brAt buf (P + n)) ∧
        Good buf (r.readBits n).2 (P + n) 7) ∨
    ((brAt buf P).readBits n = .err .eos ∧ Doomed (r.readBits n).2) := by
  have hno := hg.win.noeos
  have hP := hg.P_le (by omega : k ≤ 64)
  obtain ⟨s1, s2⟩ := spec_readBits_at buf P n (by omega)
  obtain ⟨ga, gb, gc⟩ := win_geom hg.win
  have hsnd := readBits_snd r n hno hn
  have hval := readBits_val r n hno hn
  have hw' := win_addBits hg.win n
  obtain ⟨i1, i2⟩ := shiftBytes_spec hw'
  have hnb : nbits buf = 8 * (pad8 buf).size := rfl
  by_cases hPn : P + n ≤ nbits buf
  · left
    have hinv := i1 (by omega)
    refine ⟨?_, by rw [hsnd]; exact Inv.good hinv⟩
    rw [s1 hPn]
    congr 2
    rw [hval]
    by_cases hb : r.bitPos < 64
    · rw [Nat.mod_eq_of_lt hb]
      have hfield := window_field hg.win r.bitPos n (by have := hg.room; omega)
      rw [hfield, ← hg.win.P_eq]
      unfold peekBits
      rw [Webp.Proofs.VP8LEntropyTableF.ofBitsLE_take_mod, List.take_take, Nat.min_eq_left (by omega)]
      rfl
    · -- the register is used up at the very end of the input: only `n = 0` fits
      have h64 := hg.le64 (by omega : k ≤ 64)
      have hn0 : n = 0 := by
        rcases hg.room with h1 | ⟨h1, _⟩
        · omega
        · have := gc h1; omega
      subst hn0
      simp [Nat.mod_one]
  · right
    refine ⟨s2 hP (by omega), ?_⟩
    rw [hsnd]
    exact isEndOfStream_of_eos (i2 (by omega))

theorem doomed_readBits {r : Reader} (hd : Doomed r) (n : Nat) : Doomed (r.readBits n).2 := by
  unfold Doomed at *
  by_cases he : r.eos = true
  · exact isEndOfStream_of_eos (readBits_eos r n he).2
  · have he' : r.eos = false := by cases hh : r.eos <;> simp_all
    have hp : r.pos = r.buf.size ∧ 64 < r.bitPos := by
      unfold Reader.isEndOfStream at hd
      simpa [he'] using hd
    unfold Reader.readBits
    by_cases hn : n ≤ 24
    · rw [if_pos (by simp [he', hn])]
      show (Reader.shiftBytes { r with bitPos := r.bitPos + n }).isEndOfStream = true
      unfold Reader.shiftBytes
      have hsl : Reader.shiftLoop ((r.bitPos + n) / 8 + 1) { r with bitPos := r.bitPos + n } =
          { r with bitPos := r.bitPos + n } := by
        unfold Reader.shiftLoop
        rw [if_neg (by show ¬ (r.bitPos + n ≥ 8 ∧ r.pos < r.buf.size); omega)]
      simp only [hsl]
      have hd2 : ({ r with bitPos := r.bitPos + n } : Reader).isEndOfStream = true := by
        unfold Reader.isEndOfStream
        simp only [he', Bool.false_or, Bool.and_eq_true, beq_iff_eq, decide_eq_true_eq]
        exact ⟨hp.1, by omega⟩
      rw [if_pos hd2]
      rfl
    · rw [if_neg (by simp [hn])]
      rfl

/-- **the code-length lookup inside the budget**: `FillBitWindow(); prefetch := PrefetchBits();
    entry := clTable[prefetch & 127]; SetBitPos(BitPos() + entry.Bits)` from any window state
    (`bitPos ≤ 64`): the cell exists (no index panic), `Bits ≤ 7`, `Value < 19`, and it is the
    specification's next code-length symbol with slack `32 + 7 = 39` afterwards — or the code
    word runs past the end of the input on both sides -/
theorem clLookup_good {c : Code} {t : Table} (hT : CLTab c t) {buf : Array UInt8} {r : Reader} {P k : Nat}
    (hg : Good buf r P k) (hk : k ≤ 64) :
    ∃ v used, t[r.fillBitWindow.prefetchBits.toNat &&& 127]? = some ⟨used, v⟩ ∧ used ≤ 7 ∧ v < 19 ∧
      ((Webp.Spec.VP8L.readSymbol c (brAt buf P) = .ok (v, brAt buf (P + used)) ∧
          Good buf (r.fillBitWindow.advance used) (P + used) 39) ∨
       (Webp.Spec.VP8L.readSymbol c (brAt buf P) = .err .eos ∧ Doomed (r.fillBitWindow.advance used))) := by
  have hg1 := fill_good (hg.mono hk)
  generalize r.fillBitWindow = r1 at hg1
  have hP : P ≤ nbits buf := hg1.P_le (by omega)
  have emask : ∀ w : Nat, w &&& 127 = w % 128 := fun w => Nat.and_two_pow_sub_one_eq_mod w 7
  rw [emask]
  obtain ⟨v, used, hcell, hu, hv⟩ := hT.cell r1.prefetchBits.toNat
  refine ⟨v, used, hcell, hu, hv, ?_⟩
  obtain ⟨ga, gb, gc⟩ := win_geom hg1.win
  by_cases hb : r1.bitPos < 64
  · have hlow := prefetch_low hg1 7 (by omega) (by omega) hb
    have hcell' : t[peekBits (brAt buf P) 32 % 128]? = some ⟨used, v⟩ := by
      have : peekBits (brAt buf P) 32 % 128 = r1.prefetchBits.toNat % 128 := hlow.symm
      rw [this]; exact hcell
    have hs := hT.spec (brAt buf P) hP v used hcell'
    by_cases hPu : P + used ≤ nbits buf
    · left
      refine ⟨?_, (advance_good hg1 used hPu).mono (by omega)⟩
      rw [hs, if_neg (by show ¬ P + used > nbits buf; omega)]
      rfl
    · right
      refine ⟨?_, advance_doomed hg1 used (by omega) (by omega)⟩
      rw [hs, if_pos (by show P + used > nbits buf; omega)]
  · have hpos : r1.pos = buf.size := by have := hg1.room; omega
    have h64 := hg1.le64 (by omega : (32 : Nat) ≤ 64)
    have hPn : P = nbits buf := by have := gc hpos; omega
    obtain ⟨v', used', hcell', hu', _⟩ := hT.cell (peekBits (brAt buf P) 32)
    have hs := hT.spec (brAt buf P) hP v' used' hcell'
    have hlt : r1.prefetchBits.toNat % 128 < 128 := Nat.mod_lt _ (by decide)
    have hlt' : peekBits (brAt buf P) 32 % 128 < 128 := Nat.mod_lt _ (by decide)
    rcases hT.zeroOrPos with ⟨s, hs0⟩ | hpos1
    · have e1 := hs0 _ hlt
      have e2 := hs0 _ hlt'
      rw [hcell] at e1; rw [hcell'] at e2
      injection e1 with e1; injection e1 with a1 a2
      injection e2 with e2; injection e2 with b1 b2
      subst a1; subst a2; subst b1; subst b2
      left
      refine ⟨?_, (advance_good hg1 0 (by omega)).mono (by omega)⟩
      rw [hs, if_neg (by show ¬ P + 0 > nbits buf; omega)]
      rfl
    · have p1 := hpos1 _ _ _ hlt hcell
      have p2 := hpos1 _ _ _ hlt' hcell'
      right
      refine ⟨?_, ?_⟩
      · rw [hs, if_pos (by show P + used' > nbits buf; omega)]
      · unfold Doomed
        rw [isEndOfStream_iff (advance_win hg1.win used)]
        exact ⟨hpos, by show 64 < r1.bitPos + used; omega⟩

end Webp.Proofs.VP8LWindow
