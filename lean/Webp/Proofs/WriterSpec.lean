import Webp.Proofs.WriterParser
import Webp.Spec.RiffStill
/-
  The independent still-image walker `Spec.RiffStill.wellFormed` accepts what the writers
  produce and recovers every payload.
-/
namespace Webp.Impl.Writer
open Webp.Go
open Webp.Impl.Parser (ccRIFF ccWEBP ccVP8 ccVP8L ccVP8X ccALPH ccICCP ccEXIF ccXMP)
open Webp.Spec.RiffStill (splitChunks tag Why Layout)
set_option maxHeartbeats 400000

theorem tag_RIFF : putLE32 ccRIFF = tag "RIFF" := by decide +kernel
theorem tag_WEBP : putLE32 ccWEBP = tag "WEBP" := by decide +kernel
theorem tag_VP8 : putLE32 ccVP8 = tag "VP8 " := by decide +kernel
theorem tag_VP8L : putLE32 ccVP8L = tag "VP8L" := by decide +kernel
theorem tag_VP8X : putLE32 ccVP8X = tag "VP8X" := by decide +kernel
theorem tag_ALPH : putLE32 ccALPH = tag "ALPH" := by decide +kernel
theorem tag_ICCP : putLE32 ccICCP = tag "ICCP" := by decide +kernel
theorem tag_EXIF : putLE32 ccEXIF = tag "EXIF" := by decide +kernel
theorem tag_XMP : putLE32 ccXMP = tag "XMP " := by decide +kernel

/-- a chunk sequence as bytes -/
def chunksBytes : List (Nat × Bytes) → Bytes
  | [] => []
  | (f, d) :: r => chunkBytes f d ++ chunksBytes r

theorem chunksBytes_append (a b : List (Nat × Bytes)) :
    chunksBytes (a ++ b) = chunksBytes a ++ chunksBytes b := by
  induction a with
  | nil => rfl
  | cons c r ih =>
    obtain ⟨f, d⟩ := c
    show chunkBytes f d ++ chunksBytes (r ++ b) = chunkBytes f d ++ chunksBytes r ++ chunksBytes b
    rw [ih, List.append_assoc]

theorem chunk_pad_zero (fcc : Nat) (d rest : Bytes) (hodd : d.length % 2 = 1) :
    byteAt (chunkBytes fcc d ++ rest) (8 + d.length) = 0 := by
  rw [chunk_split]
  unfold pad
  rw [if_pos (by omega)]
  have e : hdr8 fcc d.length ++ (d ++ ([0] ++ rest)) = (hdr8 fcc d.length ++ d) ++ (0 :: rest) := by
    simp only [List.append_assoc, List.cons_append, List.nil_append]
  rw [e]
  have := byteAt_append_right (hdr8 fcc d.length ++ d) (0 :: rest) 0
  rw [List.length_append, hdr8_length, Nat.add_zero] at this
  rw [this]
  rfl

theorem chunk_take4 (fcc : Nat) (d rest : Bytes) :
    (chunkBytes fcc d ++ rest).take 4 = putLE32 fcc := by
  unfold chunkBytes
  rw [List.append_assoc, List.append_assoc, List.append_assoc]
  exact List.take_left' rfl

theorem chunk_drop8_take (fcc : Nat) (d rest : Bytes) :
    ((chunkBytes fcc d ++ rest).drop 8).take d.length = d := by
  rw [chunk_split, List.drop_left' (hdr8_length _ _)]
  exact List.take_left' rfl

/-- the walker's chunk splitter on one written chunk -/
theorem splitChunks_chunk (fuel fcc : Nat) (d rest : Bytes) (hd : d.length < 4294967296) :
    splitChunks (fuel + 1) (chunkBytes fcc d ++ rest) =
      match splitChunks fuel rest with
      | .ok r => .ok ((putLE32 fcc, d) :: r)
      | .error e => .error e := by
  have h4 := chunk_le32_4 fcc d rest hd
  have hl := chunk_length fcc d rest
  have ht := chunk_take4 fcc d rest
  have hp := chunk_drop8_take fcc d rest
  have hr := chunk_rest fcc d rest
  have hz : d.length % 2 = 1 → byteAt (chunkBytes fcc d ++ rest) (8 + d.length) = 0 :=
    chunk_pad_zero fcc d rest
  generalize chunkBytes fcc d ++ rest = X at h4 hl ht hp hr hz
  rw [splitChunks]
  have hne : X.isEmpty = false := by
    cases X with
    | nil => exact absurd hl (by simp only [List.length_nil]; omega)
    | cons _ _ => rfl
  rw [hne]
  dsimp only
  rw [if_neg (by simp), if_neg (by omega), h4, if_neg (by omega),
    if_neg (fun h => h.2 (hz h.1)), hr, ht, hp]
  cases splitChunks fuel rest <;> rfl

theorem splitChunks_nil (fuel : Nat) : splitChunks fuel [] = .ok [] := by
  cases fuel <;> rfl

/-- the walker's chunk splitter on a written chunk sequence -/
theorem splitChunks_chunks (cs : List (Nat × Bytes)) :
    ∀ fuel, cs.length ≤ fuel → (∀ c ∈ cs, c.2.length < 4294967296) →
      splitChunks fuel (chunksBytes cs) = .ok (cs.map fun c => (putLE32 c.1, c.2)) := by
  induction cs with
  | nil => intro fuel _ _; exact splitChunks_nil fuel
  | cons c r ih =>
    intro fuel hf hsz
    obtain ⟨f, d⟩ := c
    obtain ⟨k, rfl⟩ : ∃ k, fuel = k + 1 := ⟨fuel - 1, by simp at hf; omega⟩
    show splitChunks (k + 1) (chunkBytes f d ++ chunksBytes r) = _
    rw [splitChunks_chunk k f d _ (hsz (f, d) (List.mem_cons_self ..)),
      ih k (by simp at hf; omega) (fun c hc => hsz c (List.mem_cons_of_mem _ hc))]
    rfl

theorem chunksBytes_length_ge (cs : List (Nat × Bytes)) : cs.length ≤ (chunksBytes cs).length := by
  induction cs with
  | nil => exact Nat.le_refl _
  | cons c r ih =>
    obtain ⟨f, d⟩ := c
    show r.length + 1 ≤ (chunkBytes f d ++ chunksBytes r).length
    rw [List.length_append, chunkBytes_length]; omega

/-- RIFF header, size field and chunk split of a written file, as the walker sees them -/
theorem wellFormed_riffFile (cs : List (Nat × Bytes))
    (hsz : ∀ c ∈ cs, c.2.length < 4294967296)
    (h32 : 4 + (chunksBytes cs).length < 4294967296) :
    Spec.RiffStill.wellFormed (riffFile (chunksBytes cs)) =
      Spec.RiffStill.layoutOf (cs.map fun c => (putLE32 c.1, c.2)) := by
  have hl := riffFile_length (chunksBytes cs)
  have hge := chunksBytes_length_ge cs
  have h4 : le32 (riffFile (chunksBytes cs)) 4 = 4 + (chunksBytes cs).length := by
    unfold riffFile
    rw [List.append_assoc, List.append_assoc]
    have := le32_append_right (putLE32 ccRIFF)
      (putLE32 (4 + (chunksBytes cs).length) ++ (putLE32 ccWEBP ++ chunksBytes cs)) 0
    rw [le32_putLE32 _ _ (by omega)] at this
    exact this
  have ht : (riffFile (chunksBytes cs)).take 4 = tag "RIFF" := by
    unfold riffFile
    rw [List.append_assoc, List.append_assoc, ← tag_RIFF]
    exact List.take_left' rfl
  have hw : ((riffFile (chunksBytes cs)).drop 8).take 4 = tag "WEBP" := by
    unfold riffFile
    rw [List.append_assoc, ← tag_WEBP]
    have : List.drop 8 (putLE32 ccRIFF ++ putLE32 (4 + (chunksBytes cs).length) ++
        (putLE32 ccWEBP ++ chunksBytes cs)) = putLE32 ccWEBP ++ chunksBytes cs :=
      List.drop_left' rfl
    rw [this]
    exact List.take_left' rfl
  have hb : (riffFile (chunksBytes cs)).drop 12 = chunksBytes cs := by
    unfold riffFile
    exact List.drop_left' rfl
  unfold Spec.RiffStill.wellFormed
  rw [if_neg (by omega), ht, hw, if_neg (by simp), h4, if_neg (by omega), hb,
    splitChunks_chunks cs _ (by omega) hsz]

/-! ### simple layout -/

theorem tags_ne : tag "VP8L" ≠ tag "VP8X" ∧ tag "VP8 " ≠ tag "VP8X" ∧ tag "VP8L" ≠ tag "VP8 " ∧
    tag "ALPH" ≠ tag "ICCP" ∧ tag "VP8 " ≠ tag "ICCP" ∧ tag "VP8L" ≠ tag "ICCP" ∧
    tag "VP8 " ≠ tag "ALPH" ∧ tag "VP8L" ≠ tag "ALPH" ∧ tag "XMP " ≠ tag "EXIF" := by
  decide +kernel

theorem wf_simple_vp8l (bs : Bytes) (h32 : 20 + (bs.length + bs.length % 2) < 4294967296)
    {w h : Nat} {a : Bool} (hh : Spec.RiffStill.vp8lDims bs = some (w, h, a)) :
    Spec.RiffStill.wellFormed (simpleFile ccVP8L bs) = .ok
      { extended := false, lossless := true, image := bs, alpha := none, icc := none,
        exif := none, xmp := none, flags := 0, canvasW := w, canvasH := h,
        imageW := w, imageH := h, vp8lAlpha := a } := by
  have e : chunkBytes ccVP8L bs = chunksBytes [(ccVP8L, bs)] := (List.append_nil _).symm
  have hbl := simpleFile_body_length ccVP8L bs
  unfold simpleFile
  rw [e, wellFormed_riffFile _ (by intro c hc; simp at hc; subst hc; show bs.length < _; omega)
    (by rw [← e]; omega)]
  show Spec.RiffStill.layoutOf [(putLE32 ccVP8L, bs)] = _
  rw [Spec.RiffStill.layoutOf, tag_VP8L, if_neg tags_ne.1]
  unfold Spec.RiffStill.imageInfo
  rw [if_neg tags_ne.2.2.1, if_pos rfl, hh]
  rfl

theorem wf_simple_vp8 (bs : Bytes) (h32 : 20 + (bs.length + bs.length % 2) < 4294967296)
    {w h : Nat} (hh : Spec.RiffStill.vp8Dims bs = some (w, h)) :
    Spec.RiffStill.wellFormed (simpleFile ccVP8 bs) = .ok
      { extended := false, lossless := false, image := bs, alpha := none, icc := none,
        exif := none, xmp := none, flags := 0, canvasW := w, canvasH := h,
        imageW := w, imageH := h, vp8lAlpha := false } := by
  have e : chunkBytes ccVP8 bs = chunksBytes [(ccVP8, bs)] := (List.append_nil _).symm
  have hbl := simpleFile_body_length ccVP8 bs
  unfold simpleFile
  rw [e, wellFormed_riffFile _ (by intro c hc; simp at hc; subst hc; show bs.length < _; omega)
    (by rw [← e]; omega)]
  show Spec.RiffStill.layoutOf [(putLE32 ccVP8, bs)] = _
  rw [Spec.RiffStill.layoutOf, tag_VP8, if_neg tags_ne.2.1]
  unfold Spec.RiffStill.imageInfo
  rw [if_pos rfl, hh]
  rfl

end Webp.Impl.Writer
