import Webp.Go.Basic
import Webp.Impl.Parser
import Webp.Impl.Demux
import Webp.Impl.Mux
/-
  Byte-level helper lemmas for the muxer proofs (C14/C15): little-endian read∘write,
  reads through `++`, FourCC numerals.
-/
namespace Webp.Proofs.MuxBytes
open Webp.Go

theorem byteAt_append_left {a b : Bytes} {i : Nat} (h : i < a.length) :
    byteAt (a ++ b) i = byteAt a i := by
  simp [byteAt, List.getD_eq_getElem?_getD, List.getElem?_append_left h]

theorem byteAt_append_right (a b : Bytes) (i : Nat) :
    byteAt (a ++ b) (a.length + i) = byteAt b i := by
  simp [byteAt, List.getD_eq_getElem?_getD, List.getElem?_append_right]

theorem byteAt_drop (a : Bytes) (n i : Nat) : byteAt (a.drop n) i = byteAt a (n + i) := by
  simp [byteAt, List.getD_eq_getElem?_getD, List.getElem?_drop]

theorem le32_drop (a : Bytes) (n o : Nat) : le32 (a.drop n) o = le32 a (n + o) := by
  simp [le32, byteAt_drop, Nat.add_assoc]

theorem le32_append_right (a b : Bytes) (o : Nat) : le32 (a ++ b) (a.length + o) = le32 b o := by
  simp only [le32, Nat.add_assoc, byteAt_append_right]

theorem le32_append_left {a b : Bytes} {o : Nat} (h : o + 4 ≤ a.length) : le32 (a ++ b) o = le32 a o := by
  simp only [le32]
  rw [byteAt_append_left, byteAt_append_left, byteAt_append_left, byteAt_append_left] <;> omega

theorem le24_append_left {a b : Bytes} {o : Nat} (h : o + 3 ≤ a.length) : le24 (a ++ b) o = le24 a o := by
  simp only [le24]
  rw [byteAt_append_left, byteAt_append_left, byteAt_append_left] <;> omega

theorem le16_append_left {a b : Bytes} {o : Nat} (h : o + 2 ≤ a.length) : le16 (a ++ b) o = le16 a o := by
  simp only [le16]
  rw [byteAt_append_left, byteAt_append_left] <;> omega

theorem le24_append_right (a b : Bytes) (o : Nat) : le24 (a ++ b) (a.length + o) = le24 b o := by
  simp only [le24, Nat.add_assoc, byteAt_append_right]

theorem le16_append_right (a b : Bytes) (o : Nat) : le16 (a ++ b) (a.length + o) = le16 b o := by
  simp only [le16, Nat.add_assoc, byteAt_append_right]

@[simp] theorem putLE32_length (v : Nat) : (putLE32 v).length = 4 := rfl
@[simp] theorem putLE16_length (v : Nat) : (putLE16 v).length = 2 := rfl

theorem u8 (n : Nat) : (UInt8.ofNat (n % 256)).toNat = n % 256 := by
  simp [UInt8.toNat_ofNat']

/-- `le32 (putLE32 v) = v % 2^32` -/
theorem le32_putLE32 (v : Nat) : le32 (putLE32 v) 0 = v % 4294967296 := by
  simp [le32, putLE32, byteAt, u8]
  omega

theorem le32_putLE32_lt {v : Nat} (h : v < 4294967296) : le32 (putLE32 v) 0 = v := by
  rw [le32_putLE32]; omega

/-- `le16 (putLE16 v) = v % 2^16` -/
theorem le16_putLE16 (v : Nat) : le16 (putLE16 v) 0 = v % 65536 := by
  simp [le16, putLE16, byteAt, u8]
  omega

/-- `le24 (putLE24 v) = v % 2^24` (the `Nat` writer of the kit) -/
theorem le24_putLE24 (v : Nat) : le24 (putLE24 v) 0 = v % 16777216 := by
  simp [le24, putLE24, byteAt, u8]
  omega

end Webp.Proofs.MuxBytes
