import Webp.Proofs.ImportSites2
import Mathlib.Tactic.Ring
/-
  C19: cleanupTransparentAreaLossyWith NRGBA copy-in (`copy` of row slices), sharpYUVConvert.
-/
namespace Webp.Proofs.Import
open Webp.Go Webp.Impl.Import

theorem sliceArr_ok {α : Type} (l : Array α) (a b : Nat) (hab : a ≤ b) (hb : b ≤ l.size) :
    sliceArr l (a : Int) (b : Int) = .ok (l.extract a b) := by
  unfold sliceArr
  rw [if_pos ⟨by omega, by omega, by omega⟩]
  simp

theorem copyInto_size {α : Type} (dst src : Array α) (a : Nat) (h : a + src.size ≤ dst.size) :
    (copyInto dst a src).size = dst.size := by
  unfold copyInto
  simp only [Array.size_append, Array.size_extract]
  omega

theorem copyInto_lt {α : Type} (dst src : Array α) (a j : Nat) (h : a + src.size ≤ dst.size) (hj : j < a) :
    (copyInto dst a src)[j]? = dst[j]? := by
  unfold copyInto
  rw [Array.append_assoc, Array.getElem?_append_left (by simp only [Array.size_extract]; omega),
    Array.getElem?_extract, if_pos (by omega)]
  simp

theorem copyInto_mid {α : Type} (dst src : Array α) (a k : Nat) (h : a + src.size ≤ dst.size) (hk : k < src.size) :
    (copyInto dst a src)[a + k]? = src[k]? := by
  unfold copyInto
  have hs : (dst.extract 0 a).size = a := by simp only [Array.size_extract]; omega
  rw [Array.append_assoc, Array.getElem?_append_right (by omega), hs,
    Array.getElem?_append_left (by omega)]
  congr 1; omega

/-- byte `k` of source row `y` is channel `k % 4` of pixel `(k / 4, y)` -/
theorem pix_row_byte (img : Img) (v : Valid img) {k y : Nat} (hk : k < 4 * img.w) (hy : y < img.h) :
    0 ≤ (y : Int) * img.stride ∧ ((y : Int) * img.stride).toNat + k < img.pix.size ∧
    img.pix[((y : Int) * img.stride).toNat + k]? = some
      (match k % 4 with
       | 0 => (img.rel (k / 4) y).r
       | 1 => (img.rel (k / 4) y).g
       | 2 => (img.rel (k / 4) y).b
       | _ => (img.rel (k / 4) y).a) := by
  have hx : k / 4 < img.w := by omega
  obtain ⟨b0, b1⟩ := v.off_bounds hx hy
  obtain ⟨c0, -⟩ := v.off_bounds v.w_pos hy
  have hy0 : 0 ≤ (y : Int) * img.stride := by simpa using c0
  have hlt : ((y : Int) * img.stride).toNat + k < img.pix.size := by omega
  refine ⟨hy0, hlt, ?_⟩
  rw [view_rel img v hx hy]
  have hget : ∀ i : Int, i.toNat = ((y : Int) * img.stride).toNat + k →
      img.pix[((y : Int) * img.stride).toNat + k]? = some (img.byte i) := by
    intro i hi
    unfold Img.byte
    rw [hi, Array.getD_eq_getD_getElem?, Array.getElem?_eq_getElem hlt]; rfl
  have hm : k % 4 = 0 ∨ k % 4 = 1 ∨ k % 4 = 2 ∨ k % 4 = 3 := by omega
  rcases hm with h | h | h | h <;> rw [h] <;> simp only <;> apply hget <;> omega

theorem cleanupCopyNRGBA_spec (img : Img) (v : Valid img) (init : Array UInt8)
    (hsz : init.size = img.w * img.h * 4) :
    cleanupCopyNRGBA img init = .ok (bytesOf img.rel img.w img.h) := by
  unfold cleanupCopyNRGBA
  simp only [rowOff_eq, Valid.bdx_eq v, Valid.bdy_eq v, Int.toNat_natCast]
  let G := fun i : Nat =>
      let cc := img.rel (i / 4 % img.w) (i / 4 / img.w)
      match i % 4 with
      | 0 => cc.r
      | 1 => cc.g
      | 2 => cc.b
      | _ => cc.a
  refine forN_inv_id (fun y a => Filled G (4 * (y * img.w)) a (img.w * img.h * 4))
    (by simpa using Filled.zero G init _ hsz) ?_ ?_
  · intro y a hy ha
    have hrow : (y + 1) * img.w ≤ img.h * img.w := Nat.mul_le_mul_right _ hy
    rw [Nat.add_mul, Nat.one_mul, Nat.mul_comm img.h img.w] at hrow
    obtain ⟨hy0, -, -⟩ := pix_row_byte img v (k := 0) (by have := v.w_pos; omega) hy
    obtain ⟨-, hlast, -⟩ := pix_row_byte img v (k := 4 * img.w - 1) (by have := v.w_pos; omega) hy
    have e1 : (y : Int) * img.stride = (((y : Int) * img.stride).toNat : Int) := by omega
    have e2 : (y : Int) * img.stride + (img.w : Int) * 4 = ((((y : Int) * img.stride).toNat + 4 * img.w : Nat) : Int) := by
      push_cast; omega
    have e3 : (y : Int) * (4 * (img.w : Int)) = ((4 * (y * img.w) : Nat) : Int) := by
      push_cast; ring
    have e4 : (y : Int) * (4 * (img.w : Int)) + (img.w : Int) * 4 = ((4 * (y * img.w) + 4 * img.w : Nat) : Int) := by
      rw [e3]; push_cast; omega
    have s1 := sliceArr_ok img.pix (((y : Int) * img.stride).toNat) (((y : Int) * img.stride).toNat + 4 * img.w)
      (by omega) (by have := v.w_pos; omega)
    have s2 := sliceArr_ok a (4 * (y * img.w)) (4 * (y * img.w) + 4 * img.w) (by omega) (by rw [ha.1]; omega)
    rw [← e1, ← e2] at s1
    rw [← e3, ← e4] at s2
    refine ⟨_, by rw [s1]; simp only [Res.bind_ok]; rw [s2]; rfl, ?_⟩
    have hssz : (img.pix.extract ((y : Int) * img.stride).toNat (((y : Int) * img.stride).toNat + 4 * img.w)).size
        = 4 * img.w := by
      simp only [Array.size_extract]; have := v.w_pos; omega
    have hd : ((y : Int) * (4 * (img.w : Int))).toNat = 4 * (y * img.w) := by
      rw [e3]; exact Int.toNat_natCast _
    rw [hd]
    refine ⟨by rw [copyInto_size _ _ _ (by rw [hssz, ha.1]; omega)]; exact ha.1, ?_⟩
    intro j hj
    by_cases hja : j < 4 * (y * img.w)
    · rw [copyInto_lt _ _ _ _ (by rw [hssz, ha.1]; omega) hja]
      exact ha.2 j hja
    · obtain ⟨k, rfl⟩ : ∃ k, j = 4 * (y * img.w) + k := ⟨j - 4 * (y * img.w), by omega⟩
      have hk : k < 4 * img.w := by rw [Nat.add_mul, Nat.one_mul, Nat.mul_add] at hj; omega
      rw [copyInto_mid _ _ _ _ (by rw [hssz, ha.1]; omega) (by rw [hssz]; exact hk),
        Array.getElem?_extract, if_pos (by omega)]
      obtain ⟨-, -, hb⟩ := pix_row_byte img v hk hy
      rw [hb]
      congr 1
      have hx : k / 4 < img.w := by omega
      obtain ⟨q1, q2⟩ := divmod_rowmajor img.w (k / 4) y hx
      have d : (4 * (y * img.w) + k) / 4 = y * img.w + k / 4 := by omega
      have m : (4 * (y * img.w) + k) % 4 = k % 4 := by omega
      show _ = G (4 * (y * img.w) + k)
      simp only [G, d, m, q1, q2]
  · intro a hf
    have hf' : Filled G (img.w * img.h * 4) a (img.w * img.h * 4) := by
      have : 4 * (img.h * img.w) = img.w * img.h * 4 := by rw [Nat.mul_comm img.h img.w, Nat.mul_comm]
      rw [this] at hf; exact hf
    exact Filled.eq_ofFn hf'

/-! ### sharpYUVConvert -/

theorem rgbOf_get (f : Nat → Nat → RGBA8) (w x y : Nat) (hx : x < w) :
    let G := fun i : Nat =>
      let c := f (i / 3 % w) (i / 3 / w)
      match i % 3 with
      | 0 => c.r
      | 1 => c.g
      | _ => c.b
    G (3 * (y * w + x)) = (f x y).r ∧ G (3 * (y * w + x) + 1) = (f x y).g ∧
    G (3 * (y * w + x) + 2) = (f x y).b := by
  obtain ⟨e1, e2⟩ := divmod_rowmajor w x y hx
  have d0 : 3 * (y * w + x) / 3 = y * w + x := by omega
  have d1 : (3 * (y * w + x) + 1) / 3 = y * w + x := by omega
  have d2 : (3 * (y * w + x) + 2) / 3 = y * w + x := by omega
  have m0 : 3 * (y * w + x) % 3 = 0 := by omega
  have m1 : (3 * (y * w + x) + 1) % 3 = 1 := by omega
  have m2 : (3 * (y * w + x) + 2) % 3 = 2 := by omega
  simp only [d0, d1, d2, m0, m1, m2, e1, e2, and_self]

/-- three stores extend a filled prefix of length `3*p` to `3*(p+1)` -/
theorem wr3_filled {G : Nat → UInt8} {p N : Nat} {dst : Array UInt8} (r g b : UInt8)
    (hN : 3 * p + 2 < N) (hf : Filled G (3 * p) dst N)
    (g0 : G (3 * p) = r) (g1 : G (3 * p + 1) = g) (g2 : G (3 * p + 2) = b) :
    Filled G (3 * (p + 1))
      (((dst.setIfInBounds (3 * p) r).setIfInBounds (3 * p + 1) g).setIfInBounds (3 * p + 2) b) N := by
  have f1 := hf.set (by omega)
  have f2 := f1.set (by omega)
  have f3 := f2.set (by omega)
  rw [g0] at f1 f2 f3
  rw [g1] at f2 f3
  rw [g2] at f3
  rw [Nat.mul_add]; exact f3

theorem sharpRGBFast_spec (img : Img) (v : Valid img) (init : Array UInt8)
    (hsz : init.size = img.w * img.h * 3) :
    sharpRGBFast img init = .ok (rgbOf img.rel img.w img.h) := by
  unfold sharpRGBFast
  simp only [rowOff_eq, Valid.bdx_eq v, Valid.bdy_eq v, Int.toNat_natCast]
  let G := fun i : Nat =>
      let cc := img.rel (i / 3 % img.w) (i / 3 / img.w)
      match i % 3 with
      | 0 => cc.r
      | 1 => cc.g
      | _ => cc.b
  refine forN_inv_id (fun y a => Filled G (3 * (y * img.w)) a (img.w * img.h * 3))
    (by simpa using Filled.zero G init _ hsz) ?_ ?_
  · intro y a hy ha
    refine forN_inv_proj
      (fun x (st : Array UInt8 × Int × Int) =>
        Filled G (3 * (y * img.w + x)) st.1 (img.w * img.h * 3) ∧
        st.2.1 = (y : Int) * img.stride + (x : Int) * 4 ∧
        st.2.2 = ((3 * (y * img.w + x) : Nat) : Int))
      ⟨by simpa using ha, by simp, by push_cast; ring⟩ ?_ ?_
    · intro x st hx ⟨hs, ho, hd⟩
      obtain ⟨arr, so, dof⟩ := st
      simp only at hs ho hd
      subst ho; subst hd
      have hlt : y * img.w + x < img.w * img.h := by
        have : (y + 1) * img.w ≤ img.h * img.w := Nat.mul_le_mul_right _ hy
        rw [Nat.mul_comm img.w img.h]; rw [Nat.add_mul] at this; omega
      obtain ⟨g0, g1, g2⟩ := rgbOf_get img.rel img.w x y hx
      have f3 := wr3_filled (G := G) (p := y * img.w + x) (N := img.w * img.h * 3) (dst := arr)
        (img.rel x y).r (img.rel x y).g (img.rel x y).b (by omega) hs g0 g1 g2
      refine ⟨(_, (y : Int) * img.stride + (x : Int) * 4 + 4, ((3 * (y * img.w + x) : Nat) : Int) + 3), ?_,
        by simpa only [Nat.add_assoc] using f3, by push_cast; omega, by push_cast; omega⟩
      simp only [ld_r img v hx hy, ld_g img v hx hy, ld_b img v hx hy, Res.bind_ok]
      rw [wr_ok _ _ _ (by rw [hs.1]; omega)]
      simp only [Res.bind_ok]
      rw [wr_nat _ _ (3 * (y * img.w + x) + 1) (by push_cast; rfl) _ (by simp [hs.1]; omega)]
      simp only [Res.bind_ok]
      rw [wr_nat _ _ (3 * (y * img.w + x) + 2) (by push_cast; rfl) _ (by simp [hs.1]; omega)]
      rfl
    · intro s' hs
      rw [Nat.add_mul, Nat.one_mul]; exact hs.1
  · intro a hf
    have hf' : Filled G (img.w * img.h * 3) a (img.w * img.h * 3) := by
      have : 3 * (img.h * img.w) = img.w * img.h * 3 := by rw [Nat.mul_comm img.h img.w, Nat.mul_comm]
      rw [this] at hf; exact hf
    exact Filled.eq_ofFn hf'

theorem sharpRGBGeneric_spec (atFn : Int → Int → R RGBA8) (b : Rect) (w h : Nat) (f : Nat → Nat → RGBA8)
    (hat : Shows atFn b w h f) (init : Array UInt8) (hsz : init.size = w * h * 3) :
    sharpRGBGeneric atFn b init = .ok (rgbOf f w h) := by
  obtain ⟨hw, hh, hat⟩ := hat
  unfold sharpRGBGeneric
  simp only [hw, hh, Int.toNat_natCast]
  let G := fun i : Nat =>
      let cc := f (i / 3 % w) (i / 3 / w)
      match i % 3 with
      | 0 => cc.r
      | 1 => cc.g
      | _ => cc.b
  refine forN_inv_id (fun y a => Filled G (3 * (y * w)) a (w * h * 3))
    (by simpa using Filled.zero G init _ hsz) ?_ ?_
  · intro y a hy ha
    refine forN_inv_ex (fun x a => Filled G (3 * (y * w + x)) a (w * h * 3)) (by simpa using ha) ?_ ?_
    · intro x s hx hs
      have hlt : y * w + x < w * h := by
        have : (y + 1) * w ≤ h * w := Nat.mul_le_mul_right w hy
        rw [Nat.mul_comm w h]; rw [Nat.add_mul] at this; omega
      obtain ⟨g0, g1, g2⟩ := rgbOf_get f w x y hx
      have f3 := wr3_filled (G := G) (p := y * w + x) (N := w * h * 3) (dst := s)
        (f x y).r (f x y).g (f x y).b (by omega) hs g0 g1 g2
      refine ⟨_, ?_, by simpa only [Nat.add_assoc] using f3⟩
      have eo : (y : Int) * ((w : Int) * 3) + (x : Int) * 3 = ((3 * (y * w + x) : Nat) : Int) := by
        push_cast; ring
      simp only [hat x y hx hy, Res.bind_ok, eo]
      rw [wr_nat _ _ (3 * (y * w + x)) (by simp) _ (by rw [hs.1]; omega)]
      simp only [Res.bind_ok]
      rw [wr_nat _ _ (3 * (y * w + x) + 1) (by push_cast; rfl) _ (by simp [hs.1]; omega)]
      simp only [Res.bind_ok]
      rw [wr_nat _ _ (3 * (y * w + x) + 2) (by push_cast; rfl) _ (by simp [hs.1]; omega)]
    · intro s' hs
      rw [Nat.add_mul, Nat.one_mul]; exact hs
  · intro a hf
    have hf' : Filled G (w * h * 3) a (w * h * 3) := by
      have : 3 * (h * w) = w * h * 3 := by rw [Nat.mul_comm h w, Nat.mul_comm]
      rw [this] at hf; exact hf
    exact Filled.eq_ofFn hf'

end Webp.Proofs.Import
