import Webp.Proofs.C04RefineHeader
/-
  C04 refinement, helper: the specification's predictors build their result with nested
  `for r … for c … out := out.push v` loops; as a function of `(r, c)`.
-/
namespace Webp.Proofs.C04RefinePush
open Webp.Proofs.C04RefineHeader (forIn_range_id)

/-- rows `0 … n-1`, each `f r 0 … f r (m-1)`, appended to `init` -/
def rows {α : Type} (m : Nat) (f : Nat → Nat → α) (init : Array α) (n : Nat) : Array α :=
  (List.range' 0 n).foldl (fun s r => (List.range' 0 m).foldl (fun s c => s.push (f r c)) s) init

theorem row_eq {α : Type} (m : Nat) (g : Nat → α) (s : Array α) :
    (List.range' 0 m).foldl (fun s c => s.push (g c)) s = s ++ ((List.range' 0 m).map g).toArray := by
  induction m generalizing s with
  | zero => simp
  | succ m ih =>
    rw [List.range'_concat, List.foldl_append, ih]
    simp [List.map_append]

theorem rows_succ {α : Type} (m : Nat) (f : Nat → Nat → α) (init : Array α) (n : Nat) :
    rows m f init (n + 1) = rows m f init n ++ ((List.range' 0 m).map (f n)).toArray := by
  unfold rows
  rw [List.range'_concat, List.foldl_append]
  simp only [List.foldl_cons, List.foldl_nil, Nat.zero_add, Nat.one_mul]
  exact row_eq m (f n) _

theorem rows_size {α : Type} (m : Nat) (f : Nat → Nat → α) (n : Nat) : (rows m f #[] n).size = n * m := by
  induction n with
  | zero => simp [rows]
  | succ n ih => rw [rows_succ, Array.size_append, ih]; simp; ring

theorem rows_getD {α : Type} (m : Nat) (f : Nat → Nat → α) (n : Nat) (d : α) (r c : Nat) (hr : r < n) (hc : c < m) :
    (rows m f #[] n).getD (r * m + c) d = f r c := by
  induction n with
  | zero => omega
  | succ n ih =>
    rw [rows_succ, Array.getD_eq_getD_getElem?]
    by_cases h : r < n
    · have hlt : r * m + c < (rows m f #[] n).size := by
        rw [rows_size]
        calc r * m + c < r * m + m := by omega
          _ = (r + 1) * m := by ring
          _ ≤ n * m := Nat.mul_le_mul_right _ h
      rw [Array.getElem?_append_left hlt, ← Array.getD_eq_getD_getElem?]
      exact ih h
    · have hrn : r = n := by omega
      subst hrn
      have hge : (rows m f #[] r).size ≤ r * m + c := by rw [rows_size]; omega
      rw [Array.getElem?_append_right hge, rows_size]
      simp [hc]

/-- the nested loops -/
theorem nested_push {α : Type} (n m : Nat) (f : Nat → Nat → α) (init : Array α) :
    (forIn (m := Id) [:n] init fun r s => do
        let s' ← forIn (m := Id) [:m] s fun c s => pure (ForInStep.yield (s.push (f r c)))
        pure (ForInStep.yield s')) = pure (rows m f init n) := by
  rw [forIn_range_id n _ _ (fun r s => (List.range' 0 m).foldl (fun s c => s.push (f r c)) s)]
  · rfl
  · intro r s
    have := forIn_range_id m s (fun c (s : Array α) => (pure (ForInStep.yield (s.push (f r c))) : Id _))
      (fun c (s : Array α) => s.push (f r c)) (fun _ _ => rfl)
    rw [this]
    rfl

end Webp.Proofs.C04RefinePush
