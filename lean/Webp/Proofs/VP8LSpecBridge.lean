import Webp.Spec.VP8L
import Webp.Spec.LTransform
import Webp.Proofs.LTransformChain
import Std.Tactic.BVDecide
/-
  Bridge between the two Lean formalisations of the VP8L inverse transforms:

    (A) `Webp.Spec.VP8L`        (Transform.lean, end of Decode.lean) — the executable specification
                                 DECODER (`Webp.Spec.VP8L.decode`), word-level `UInt32` channels;
    (B) `Webp.Spec.LTransform`  — the specification of the proved round-trip theorems of property
                                 C01 (`Webp.Props.C01`), channel-wise on `UInt8`.

  Result: they define the same functions, so the C01 theorems apply to the pixels returned by
  `Webp.Spec.VP8L.decode` (`decode_pixels_eq`, `specDecoder_undoes_encoder`).

  1. per pixel       `addPixels_eq`, `average2_eq`, `select_eq`, `clampAddSubtractFull_eq`,
                     `clampAddSubtractHalf_eq`, `predict_eq` (EVERY `mode : Nat`; both sides are
                     `ARGB_BLACK` for 0 and for every mode ≥ 14), `inverseCrossColorPixel_eq`,
                     `addGreenPixel_eq` — no hypotheses.
  2. per transform   `inverseSubtractGreen_eq`, `inverseColorIndexing_eq` — no hypotheses (all
                     widths, all palette sizes, any input length);
                     `inverseCrossColor_eq_iff`, `inversePredictor_eq_iff` — equal IFF the input has
                     exactly `w*h` pixels: (A) always produces `w*h` pixels (missing input reads as
                     0, surplus input is ignored), (B) produces as many pixels as the input has.
                     This is the only disagreement between (A) and (B) (witnesses at the end).
  3. the chain       `applyInverseTransforms_eq` (hypotheses `WidthsOK` and `px.size = finalWidth*h`),
                     `applyInverseTransforms_eq'` (size only when `needsSize`),
                     `readTransforms_widths`, `decodeStream_ok`, `decode_pixels_eq` (no hypothesis).
  4. C01             `specDecoder_undoes_encoder`, `specDecoder_undoes_encoder'`.
  bonus              `planeCodeToDistance_eq`, `readPrefixValue_eq` (LZ77 value codes of (A) = (B)).

  `bv_decide` is used ONLY in the five word-level lemmas `chA_eq`, `chR_eq`, `chG_eq`, `chB_eq`,
  `mkARGB_eq` (one 32-bit word, resp. four words: shift/mask = byte extraction / assembly), each
  marked `-- bv_decide: word-level`.  Everything else is `simp` / `omega` / induction.
  No `sorry`, no `native_decide`, no extra axioms.
-/
namespace Webp.Proofs.VP8LSpecBridge
open Webp.Spec
open Webp.Spec.LTransform (Px Xf)
open Webp.Go (Res)

/-! ## 1. per pixel -/

-- bv_decide: word-level
theorem chA_eq (p : UInt32) : VP8L.chA p = (LTransform.chA p).toUInt32 := by
  simp only [VP8L.chA, LTransform.chA]; bv_decide
-- bv_decide: word-level
theorem chR_eq (p : UInt32) : VP8L.chR p = (LTransform.chR p).toUInt32 := by
  simp only [VP8L.chR, LTransform.chR]; bv_decide
-- bv_decide: word-level
theorem chG_eq (p : UInt32) : VP8L.chG p = (LTransform.chG p).toUInt32 := by
  simp only [VP8L.chG, LTransform.chG]; bv_decide
-- bv_decide: word-level
theorem chB_eq (p : UInt32) : VP8L.chB p = (LTransform.chB p).toUInt32 := by
  simp only [VP8L.chB, LTransform.chB]; bv_decide

-- bv_decide: word-level
theorem mkARGB_eq (a r g b : UInt32) :
    VP8L.mkARGB a r g b = LTransform.mk a.toUInt8 r.toUInt8 g.toUInt8 b.toUInt8 := by
  simp only [VP8L.mkARGB, LTransform.mk]; bv_decide

theorem mkARGB_toUInt32 (a r g b : UInt8) :
    VP8L.mkARGB a.toUInt32 r.toUInt32 g.toUInt32 b.toUInt32 = LTransform.mk a r g b := by
  simp [mkARGB_eq]

theorem addPixels_eq (x y : UInt32) : VP8L.addPixels x y = LTransform.addPx x y := by
  simp [VP8L.addPixels, LTransform.addPx, LTransform.map2, chA_eq, chR_eq, chG_eq, chB_eq, mkARGB_eq]

theorem addGreenPixel_eq (p : UInt32) : VP8L.addGreenPixel p = LTransform.addGreenPx p := by
  simp [VP8L.addGreenPixel, LTransform.addGreenPx, chA_eq, chR_eq, chG_eq, chB_eq, mkARGB_eq]

/-- `(a + b) / 2` in 32 bits, cut to a byte, is `avgCh` (computed in 16 bits) -/
theorem avg_byte (a b : UInt8) : ((a.toUInt32 + b.toUInt32) / 2).toUInt8 = LTransform.avgCh a b := by
  apply UInt8.toNat_inj.mp
  rw [Webp.Proofs.LTransformPixel.avgCh_toNat]
  have := a.toNat_lt; have := b.toNat_lt
  simp only [UInt32.toNat_toUInt8, UInt32.toNat_div, UInt32.toNat_add, UInt8.toNat_toUInt32]
  simp
  omega

theorem average2_eq (x y : UInt32) : VP8L.average2 x y = LTransform.average2 x y := by
  simp only [VP8L.average2, LTransform.average2, LTransform.map2, chA_eq, chR_eq, chG_eq, chB_eq,
    mkARGB_eq, avg_byte]

theorem chIA (p : UInt32) : VP8L.chI VP8L.chA p = ((LTransform.chA p).toNat : Int) := by
  simp [VP8L.chI, chA_eq]
theorem chIR (p : UInt32) : VP8L.chI VP8L.chR p = ((LTransform.chR p).toNat : Int) := by
  simp [VP8L.chI, chR_eq]
theorem chIG (p : UInt32) : VP8L.chI VP8L.chG p = ((LTransform.chG p).toNat : Int) := by
  simp [VP8L.chI, chG_eq]
theorem chIB (p : UInt32) : VP8L.chI VP8L.chB p = ((LTransform.chB p).toNat : Int) := by
  simp [VP8L.chI, chB_eq]

theorem clamp255_eq (v : Int) : VP8L.clamp255 v = (LTransform.clampCh v).toUInt32 := by
  unfold VP8L.clamp255 LTransform.clampCh
  split
  · rfl
  · split
    · rfl
    · apply UInt32.toNat_inj.mp
      have : v.toNat < 256 := by omega
      simp
      omega

theorem clampAddSubtractFull_eq (a b c : UInt32) :
    VP8L.clampAddSubtractFull a b c = LTransform.clampAddSubFull a b c := by
  simp only [VP8L.clampAddSubtractFull, LTransform.clampAddSubFull, LTransform.map3,
    chIA, chIR, chIG, chIB, clamp255_eq, mkARGB_toUInt32]

theorem clampAddSubtractHalf_eq (a b : UInt32) :
    VP8L.clampAddSubtractHalf a b = LTransform.clampAddSubHalf a b := by
  simp only [VP8L.clampAddSubtractHalf, LTransform.clampAddSubHalf, LTransform.map2,
    chIA, chIR, chIG, chIB, clamp255_eq, mkARGB_toUInt32]

theorem ite_flip {α : Sort _} (p q : Prop) [Decidable p] [Decidable q] (h : p ↔ ¬q) (a b : α) :
    (if p then a else b) = (if q then b else a) := by
  by_cases hq : q
  · rw [if_pos hq, if_neg (fun hp => (h.mp hp) hq)]
  · rw [if_neg hq, if_pos (h.mpr hq)]

theorem select_eq (l t tl : UInt32) : VP8L.select l t tl = LTransform.select l t tl := by
  simp only [VP8L.select, LTransform.select, LTransform.absDiff, chIA, chIR, chIG, chIB]
  have h1 : ∀ a b c : Int, a + b - c - a = b - c := by intros; omega
  have h2 : ∀ a b c : Int, a + b - c - b = a - c := by intros; omega
  simp only [h1, h2]
  apply ite_flip
  omega

theorem predict_eq (mode : Nat) (l t tr tl : UInt32) :
    VP8L.predict mode l t tr tl = LTransform.predict mode l t tr tl := by
  unfold VP8L.predict LTransform.predict
  split <;> simp only [average2_eq, select_eq, clampAddSubtractFull_eq, clampAddSubtractHalf_eq,
    LTransform.argbBlack]

theorem sext8_eq (b : UInt8) : VP8L.sext8 b.toUInt32 = LTransform.sext8 b := by
  unfold VP8L.sext8 LTransform.sext8
  have : (b.toUInt32 < 128) ↔ b.toNat < 128 := by
    rw [UInt32.lt_iff_toNat_lt]; simp
  simp only [this, UInt8.toNat_toUInt32]

theorem colorTransformDelta_eq (t c : UInt8) :
    VP8L.colorTransformDelta t.toUInt32 c.toUInt32 = LTransform.colorDelta t c := by
  simp only [VP8L.colorTransformDelta, LTransform.colorDelta, sext8_eq]

theorem byteOfInt_eq (v : Int) : VP8L.byteOfInt v = (LTransform.byteOfInt v).toUInt32 := by
  unfold VP8L.byteOfInt LTransform.byteOfInt
  apply UInt32.toNat_inj.mp
  have : (v % 256).toNat < 256 := by omega
  simp
  omega

theorem inverseCrossColorPixel_eq (elem px : UInt32) :
    VP8L.inverseCrossColorPixel elem px = LTransform.crossColorInvPx elem px := by
  simp only [VP8L.inverseCrossColorPixel, LTransform.crossColorInvPx, chIR, chIB, chA_eq, chR_eq,
    chG_eq, chB_eq, colorTransformDelta_eq, byteOfInt_eq, mkARGB_toUInt32]

/-! ## 2. per transform -/

theorem subSampleSize_eq (s b : Nat) : VP8L.subSampleSize s b = LTransform.subSampleSize s b := rfl

theorem inverseSubtractGreen_eq (px : Array UInt32) :
    VP8L.inverseSubtractGreen px = LTransform.addGreen px := by
  rw [VP8L.inverseSubtractGreen, LTransform.addGreen,
    show VP8L.addGreenPixel = LTransform.addGreenPx from funext addGreenPixel_eq]

/-- a loop that pushes `f out.size` `k` times -/
theorem push_range' (f : Nat → UInt32) (out : Array UInt32) (s k : Nat) (hs : s = out.size) :
    out ++ ((List.range' s (k + 1)).map f).toArray
      = out.push (f out.size) ++ ((List.range' (s + 1) k).map f).toArray := by
  subst hs
  simp [List.range'_succ]

theorem inverseCrossColorLoop_eq (w bits : Nat) (elems inp : Array UInt32) (k : Nat) :
    ∀ out : Array UInt32, VP8L.inverseCrossColorLoop w bits elems inp k out
      = out ++ ((List.range' out.size k).map fun i =>
          LTransform.crossColorInvPx (LTransform.tileAt w bits elems i) (inp.getD i 0)).toArray := by
  induction k with
  | zero => intro out; simp [VP8L.inverseCrossColorLoop]
  | succ k ih =>
    intro out
    rw [VP8L.inverseCrossColorLoop, ih, push_range' _ out out.size k rfl]
    simp only [Array.size_push, inverseCrossColorPixel_eq, LTransform.tileAt, subSampleSize_eq]

theorem size_inverseCrossColor (w h bits : Nat) (elems inp : Array UInt32) :
    (VP8L.inverseCrossColor w h bits elems inp).size = w * h := by
  simp [VP8L.inverseCrossColor, inverseCrossColorLoop_eq]

theorem size_crossColorInv (w bits : Nat) (tiles px : Array UInt32) :
    (LTransform.crossColorInv w bits tiles px).size = px.size := by
  simp [LTransform.crossColorInv]

theorem inverseCrossColor_eq (w h bits : Nat) (elems px : Array UInt32) (hsz : px.size = w * h) :
    VP8L.inverseCrossColor w h bits elems px = LTransform.crossColorInv w bits elems px := by
  apply Array.ext
  · rw [size_inverseCrossColor, size_crossColorInv, hsz]
  · intro i h1 h2
    simp only [size_crossColorInv] at h2
    simp [VP8L.inverseCrossColor, inverseCrossColorLoop_eq, LTransform.crossColorInv, h2]

theorem inverseCrossColor_eq_iff (w h bits : Nat) (elems px : Array UInt32) :
    VP8L.inverseCrossColor w h bits elems px = LTransform.crossColorInv w bits elems px
      ↔ px.size = w * h := by
  constructor
  · intro he
    have := congrArg Array.size he
    rw [size_inverseCrossColor, size_crossColorInv] at this
    exact this.symm
  · exact inverseCrossColor_eq w h bits elems px

/-! ### predictor -/

theorem mode_eq (t : UInt32) :
    (VP8L.chG t &&& (0xf : UInt32)) = ((t >>> (8 : UInt32)) &&& (0xf : UInt32)) := by
  simp only [VP8L.chG, UInt32.and_assoc]; rfl

theorem predictorAt_eq (w bits : Nat) (modes out : Array UInt32) (i : Nat) :
    VP8L.predictorAt w bits modes out i
      = LTransform.predictAt LTransform.modeInv w bits modes (fun j => out.getD j 0) i := by
  simp only [VP8L.predictorAt, LTransform.predictAt, LTransform.modeInv, LTransform.tileAt,
    mode_eq, predict_eq, subSampleSize_eq, LTransform.argbBlack]

theorem inversePredictorLoop_eq (w bits : Nat) (modes res : Array UInt32) (k : Nat) :
    ∀ out : Array UInt32, VP8L.inversePredictorLoop w bits modes res k out
      = LTransform.predictInvLoop w bits modes res k out := by
  induction k with
  | zero => intro out; rfl
  | succ k ih =>
    intro out
    rw [VP8L.inversePredictorLoop, LTransform.predictInvLoop, ih, addPixels_eq, predictorAt_eq]

theorem size_predictInvLoop (w bits : Nat) (modes res : Array UInt32) (k : Nat) :
    ∀ out : Array UInt32, (LTransform.predictInvLoop w bits modes res k out).size = out.size + k := by
  induction k with
  | zero => intro out; rfl
  | succ k ih => intro out; rw [LTransform.predictInvLoop, ih]; simp; omega

theorem size_inversePredictor (w h bits : Nat) (modes res : Array UInt32) :
    (VP8L.inversePredictor w h bits modes res).size = w * h := by
  simp [VP8L.inversePredictor, inversePredictorLoop_eq, size_predictInvLoop]

theorem size_predictInv (w bits : Nat) (modes res : Array UInt32) :
    (LTransform.predictInv w bits modes res).size = res.size := by
  simp [LTransform.predictInv, size_predictInvLoop]

theorem inversePredictor_eq (w h bits : Nat) (modes res : Array UInt32) (hsz : res.size = w * h) :
    VP8L.inversePredictor w h bits modes res = LTransform.predictInv w bits modes res := by
  rw [VP8L.inversePredictor, LTransform.predictInv, inversePredictorLoop_eq, hsz]
  rfl

theorem inversePredictor_eq_iff (w h bits : Nat) (modes res : Array UInt32) :
    VP8L.inversePredictor w h bits modes res = LTransform.predictInv w bits modes res
      ↔ res.size = w * h := by
  constructor
  · intro he
    have := congrArg Array.size he
    rw [size_inversePredictor, size_predictInv] at this
    exact this.symm
  · exact inversePredictor_eq w h bits modes res

/-! ### colour indexing -/

theorem packingBits_eq (n : Nat) : VP8L.packingBits n = LTransform.paletteBits n := rfl

theorem unpack_eq (wbits : Nat) (word : UInt32) (x : Nat) :
    ((VP8L.chG word).toNat >>> ((8 >>> wbits) * (x &&& ((1 <<< wbits) - 1)))) &&& ((1 <<< (8 >>> wbits)) - 1)
      = LTransform.unpackIndex wbits word x := by
  simp only [LTransform.unpackIndex, VP8L.chG, Nat.one_shiftLeft, Nat.and_two_pow_sub_one_eq_mod]

theorem inverseColorIndexingLoop_eq (w cw wbits : Nat) (palette coded : Array UInt32) (k : Nat) :
    ∀ out : Array UInt32, VP8L.inverseColorIndexingLoop w cw wbits palette coded k out
      = out ++ ((List.range' out.size k).map fun i =>
          palette.getD (LTransform.unpackIndex wbits
            (coded.getD ((i / w) * cw + (i % w) >>> wbits) 0) (i % w)) 0).toArray := by
  induction k with
  | zero => intro out; simp [VP8L.inverseColorIndexingLoop]
  | succ k ih =>
    intro out
    rw [VP8L.inverseColorIndexingLoop, ih, push_range' _ out out.size k rfl]
    simp only [Array.size_push, unpack_eq]

theorem inverseColorIndexing_eq (w h : Nat) (palette coded : Array UInt32) :
    VP8L.inverseColorIndexing w h palette coded = LTransform.colorIndexInv palette w h coded := by
  simp only [VP8L.inverseColorIndexing, LTransform.colorIndexInv, inverseColorIndexingLoop_eq,
    packingBits_eq, subSampleSize_eq]
  simp [List.range_eq_range']

/-! ## 3. the chain -/

/-- the (B) transform of an (A) transform: same data, same order of fields -/
def toXf : VP8L.Transform → Xf
  | .predictor bits modes => .predictor bits modes
  | .crossColor bits elems => .crossColor bits elems
  | .subtractGreen => .subtractGreen
  | .colorIndexing palette => .colorIndex palette

/-- the (B) transform list of an (A) transform array (stored widths dropped) -/
def toXfs (ts : Array (VP8L.Transform × Nat)) : List Xf := ts.toList.map (toXf ∘ Prod.fst)

/-- stored widths are consistent: the first is `w0`, each next one is `Xf.widthAfter` of the
    previous -/
def WidthsOKList : Nat → List (VP8L.Transform × Nat) → Prop
  | _, [] => True
  | w, (t, w') :: rest => w' = w ∧ WidthsOKList ((toXf t).widthAfter w) rest

def WidthsOK (w0 : Nat) (ts : Array (VP8L.Transform × Nat)) : Prop := WidthsOKList w0 ts.toList

/-- width of the entropy-coded image behind the transforms -/
def finalWidthList : Nat → List (VP8L.Transform × Nat) → Nat
  | w, [] => w
  | w, (t, _) :: rest => finalWidthList ((toXf t).widthAfter w) rest

def finalWidth (w0 : Nat) (ts : Array (VP8L.Transform × Nat)) : Nat := finalWidthList w0 ts.toList

def isSG : VP8L.Transform → Bool
  | .subtractGreen => true
  | _ => false

/-- predictor or cross-colour: the two inverses whose output length is `w*h` in (A) and the
    input length in (B) -/
def isPC : VP8L.Transform → Bool
  | .predictor .. => true
  | .crossColor .. => true
  | _ => false

def allSG (ts : List (VP8L.Transform × Nat)) : Bool := ts.all fun p => isSG p.1

/-- does the length of the coded pixel array matter?  Yes iff the last transform of the stream
    that is not subtract-green is a predictor or cross-colour transform. -/
def needsSize : List (VP8L.Transform × Nat) → Bool
  | [] => false
  | (t, _) :: rest => needsSize rest || (allSG rest && isPC t)

theorem size_inverseColorIndexing (w h : Nat) (palette coded : Array UInt32) :
    (VP8L.inverseColorIndexing w h palette coded).size = w * h := by
  simp [VP8L.inverseColorIndexing, inverseColorIndexingLoop_eq]

theorem size_inverseSubtractGreen (px : Array UInt32) : (VP8L.inverseSubtractGreen px).size = px.size := by
  simp [VP8L.inverseSubtractGreen]

/-- one inverse transform -/
theorem applyInverse_eq (h : Nat) (t : VP8L.Transform) (w : Nat) (px : Array UInt32)
    (hsz : isPC t = true → px.size = w * h) :
    VP8L.applyInverse h t w px = (toXf t).inverse w h px := by
  cases t with
  | predictor bits modes => exact inversePredictor_eq w h bits modes px (hsz rfl)
  | crossColor bits elems => exact inverseCrossColor_eq w h bits elems px (hsz rfl)
  | subtractGreen => exact inverseSubtractGreen_eq px
  | colorIndexing palette => exact inverseColorIndexing_eq w h palette px

theorem size_applyInverse (h : Nat) (t : VP8L.Transform) (w : Nat) (px : Array UInt32) :
    (VP8L.applyInverse h t w px).size = if isSG t then px.size else w * h := by
  cases t with
  | predictor bits modes => exact size_inversePredictor w h bits modes px
  | crossColor bits elems => exact size_inverseCrossColor w h bits elems px
  | subtractGreen => exact size_inverseSubtractGreen px
  | colorIndexing palette => exact size_inverseColorIndexing w h palette px

theorem widthAfter_of_not_ci (t : VP8L.Transform) (w : Nat) (h : isSG t = true ∨ isPC t = true) :
    (toXf t).widthAfter w = w := by
  cases t <;> simp_all [toXf, Xf.widthAfter, isSG, isPC]

theorem chain_core (h : Nat) : ∀ (ts : List (VP8L.Transform × Nat)) (w0 : Nat) (px : Array UInt32),
    WidthsOKList w0 ts → (needsSize ts = true → px.size = finalWidthList w0 ts * h) →
    ts.foldr (fun p px => VP8L.applyInverse h p.1 p.2 px) px
        = LTransform.applyInverse h (ts.map (toXf ∘ Prod.fst)) w0 px
      ∧ (allSG ts = false → (ts.foldr (fun p px => VP8L.applyInverse h p.1 p.2 px) px).size = w0 * h)
      ∧ (allSG ts = true → (ts.foldr (fun p px => VP8L.applyInverse h p.1 p.2 px) px).size = px.size
            ∧ finalWidthList w0 ts = w0) := by
  intro ts
  induction ts with
  | nil => intro w0 px _ _; simp [LTransform.applyInverse, allSG, finalWidthList]
  | cons p rest ih =>
    obtain ⟨t, w'⟩ := p
    intro w0 px hw hsz
    obtain ⟨rfl, hw⟩ := hw
    have hsz' : needsSize rest = true → px.size = finalWidthList ((toXf t).widthAfter w') rest * h := by
      intro hn; apply hsz; simp [needsSize, hn]
    obtain ⟨ih1, ih2, ih3⟩ := ih ((toXf t).widthAfter w') px hw hsz'
    simp only [List.foldr_cons, List.map_cons, Function.comp_apply, LTransform.applyInverse]
    rw [← ih1]
    generalize hq : rest.foldr (fun p px => VP8L.applyInverse h p.1 p.2 px) px = q at *
    have hqsz : isPC t = true → q.size = w' * h := by
      intro hpc
      have hwa := widthAfter_of_not_ci t w' (.inr hpc)
      cases hr : allSG rest with
      | false => rw [ih2 hr, hwa]
      | true =>
        obtain ⟨h3, h4⟩ := ih3 hr
        rw [h3, hsz (by simp [needsSize, hr, hpc])]
        simp only [finalWidthList]; rw [h4, hwa]
    refine ⟨applyInverse_eq h t w' q hqsz, ?_, ?_⟩
    · intro hns
      rw [size_applyInverse]
      cases ht : isSG t with
      | false => simp
      | true =>
        simp only [if_true]
        have hr : allSG rest = false := by simpa [allSG, ht] using hns
        rw [ih2 hr, widthAfter_of_not_ci t w' (.inl ht)]
    · intro hs
      have ht : isSG t = true := by simp [allSG] at hs; exact hs.1
      have hr : allSG rest = true := by simp [allSG] at hs ⊢; exact hs.2
      obtain ⟨h3, h4⟩ := ih3 hr
      rw [size_applyInverse, ht]
      simp only [if_true, finalWidthList]
      rw [h4]
      exact ⟨h3, widthAfter_of_not_ci t w' (.inl ht)⟩

theorem applyInverseTransforms_foldr (h : Nat) (ts : Array (VP8L.Transform × Nat)) (px : Array UInt32) :
    VP8L.applyInverseTransforms h ts px
      = ts.toList.foldr (fun p px => VP8L.applyInverse h p.1 p.2 px) px := by
  rw [VP8L.applyInverseTransforms, ← Array.foldr_toList]

/-- **Chain, weak size hypothesis.** -/
theorem applyInverseTransforms_eq' (h : Nat) (ts : Array (VP8L.Transform × Nat)) (w0 : Nat)
    (px : Array UInt32) (hw : WidthsOK w0 ts)
    (hsz : needsSize ts.toList = true → px.size = finalWidth w0 ts * h) :
    VP8L.applyInverseTransforms h ts px = LTransform.applyInverse h (toXfs ts) w0 px := by
  rw [applyInverseTransforms_foldr]
  exact (chain_core h ts.toList w0 px hw hsz).1

/-- **Chain.**  -/
theorem applyInverseTransforms_eq (h : Nat) (ts : Array (VP8L.Transform × Nat)) (w0 : Nat)
    (px : Array UInt32) (hw : WidthsOK w0 ts) (hsz : px.size = finalWidth w0 ts * h) :
    VP8L.applyInverseTransforms h ts px
      = LTransform.applyInverse h (ts.toList.map (toXf ∘ Prod.fst)) w0 px :=
  applyInverseTransforms_eq' h ts w0 px hw (fun _ => hsz)

/-! ### the pixel loop returns exactly `width * height` pixels -/

theorem bind_eq_ok {ε α β : Type} {x : Res ε α} {f : α → Res ε β} {b : β}
    (h : (x >>= f) = .ok b) : ∃ a, x = .ok a ∧ f a = .ok b := by
  cases x with
  | ok a => exact ⟨a, rfl, h⟩
  | err e => cases h
  | panic => cases h
  | hang => cases h

theorem size_copyLoop (cb dist : Nat) (n : Nat) : ∀ (out cache : Array UInt32),
    (VP8L.copyLoop cb dist n out cache).1.size = out.size + n := by
  induction n with
  | zero => intro out cache; rfl
  | succ n ih => intro out cache; rw [VP8L.copyLoop, ih]; simp; omega

theorem size_execToken (npix cb : Nat) (t : VP8L.Token) (out cache out' cache' : Array UInt32)
    (hlt : out.size < npix) (h : VP8L.execToken npix cb t out cache = .ok (out', cache')) :
    out'.size ≤ npix := by
  cases t with
  | literal argb =>
    simp only [VP8L.execToken, Res.ok.injEq, Prod.mk.injEq] at h
    rw [← h.1]; simp; omega
  | copy length dist =>
    simp only [VP8L.execToken] at h
    split at h
    · cases h
    · split at h
      · cases h
      · simp only [Res.ok.injEq] at h
        have := size_copyLoop cb dist length out cache
        rw [h] at this
        simp only at this
        omega
  | cache idx =>
    simp only [VP8L.execToken] at h
    split at h
    · simp only [Res.ok.injEq, Prod.mk.injEq] at h
      rw [← h.1]; simp; omega
    · cases h

theorem size_decodePixelsLoop (p : VP8L.EntropyParams) (npix : Nat) (fuel : Nat) :
    ∀ (out cache : Array UInt32) (br : VP8L.BitReader) (r : Array UInt32) (br' : VP8L.BitReader),
      out.size ≤ npix → VP8L.decodePixelsLoop p npix fuel out cache br = .ok (r, br') →
      r.size = npix := by
  induction fuel with
  | zero => intro out cache br r br' _ h; cases h
  | succ fuel ih =>
    intro out cache br r br' hle h
    rw [VP8L.decodePixelsLoop] at h
    split at h
    · simp only [Res.ok.injEq, Prod.mk.injEq] at h
      rw [← h.1]; omega
    · rename_i hlt
      simp only at h
      split at h
      · split at h
        · rename_i t br1 _
          split at h
          · rename_i out1 cache1 hex
            exact ih out1 cache1 br1 r br' (size_execToken npix p.cacheBits t out cache out1 cache1 (by omega) hex) h
          all_goals cases h
        all_goals cases h
      · cases h

theorem size_decodePixels (p : VP8L.EntropyParams) (br : VP8L.BitReader) (r : Array UInt32)
    (br' : VP8L.BitReader) (h : VP8L.decodePixels p br = .ok (r, br')) :
    r.size = p.width * p.height := by
  unfold VP8L.decodePixels at h
  exact size_decodePixelsLoop p _ _ _ _ br r br' (by simp) h

theorem size_readEntropyCodedImage (w h : Nat) (br : VP8L.BitReader) (r : Array UInt32)
    (br' : VP8L.BitReader) (he : VP8L.readEntropyCodedImage w h br = .ok (r, br')) :
    r.size = w * h := by
  unfold VP8L.readEntropyCodedImage at he
  obtain ⟨⟨cb, br1⟩, _, he⟩ := bind_eq_ok he
  obtain ⟨⟨g, br2⟩, _, he⟩ := bind_eq_ok he
  exact size_decodePixels _ _ _ _ he

theorem size_deltaDecodePaletteLoop (coded : Array UInt32) (k : Nat) : ∀ out : Array UInt32,
    (VP8L.deltaDecodePaletteLoop coded k out).size = out.size + k := by
  induction k with
  | zero => intro out; rfl
  | succ k ih => intro out; rw [VP8L.deltaDecodePaletteLoop, ih]; simp; omega

theorem size_deltaDecodePalette (coded : Array UInt32) :
    (VP8L.deltaDecodePalette coded).size = coded.size := by
  simp [VP8L.deltaDecodePalette, size_deltaDecodePaletteLoop]

/-! ### `readTransforms` keeps the widths consistent -/

theorem readTransformData_width (ty w h : Nat) (br : VP8L.BitReader) (t : VP8L.Transform) (w' : Nat)
    (br' : VP8L.BitReader) (he : VP8L.readTransformData ty w h br = .ok (t, w', br')) :
    w' = (toXf t).widthAfter w := by
  unfold VP8L.readTransformData at he
  split at he
  · obtain ⟨⟨b, br1⟩, _, he⟩ := bind_eq_ok he
    obtain ⟨⟨modes, br2⟩, _, he⟩ := bind_eq_ok he
    simp only [Res.pure_eq, Res.ok.injEq, Prod.mk.injEq] at he
    obtain ⟨rfl, rfl, _⟩ := he
    rfl
  · obtain ⟨⟨b, br1⟩, _, he⟩ := bind_eq_ok he
    obtain ⟨⟨modes, br2⟩, _, he⟩ := bind_eq_ok he
    simp only [Res.pure_eq, Res.ok.injEq, Prod.mk.injEq] at he
    obtain ⟨rfl, rfl, _⟩ := he
    rfl
  · simp only [Res.pure_eq, Res.ok.injEq, Prod.mk.injEq] at he
    obtain ⟨rfl, rfl, _⟩ := he
    rfl
  · obtain ⟨⟨n, br1⟩, _, he⟩ := bind_eq_ok he
    obtain ⟨⟨coded, br2⟩, hc, he⟩ := bind_eq_ok he
    simp only [Res.pure_eq, Res.ok.injEq, Prod.mk.injEq] at he
    obtain ⟨rfl, rfl, _⟩ := he
    have hs := size_readEntropyCodedImage _ _ _ _ _ hc
    simp only [toXf, Xf.widthAfter, size_deltaDecodePalette, hs, VP8L.packedWidth, Nat.mul_one]
    rfl

theorem widthsOKList_append (w0 : Nat) (a b : List (VP8L.Transform × Nat)) :
    WidthsOKList w0 (a ++ b) ↔ WidthsOKList w0 a ∧ WidthsOKList (finalWidthList w0 a) b := by
  induction a generalizing w0 with
  | nil => simp [WidthsOKList, finalWidthList]
  | cons p a ih => obtain ⟨t, w'⟩ := p; simp [WidthsOKList, finalWidthList, ih, and_assoc]

theorem finalWidthList_append (w0 : Nat) (a b : List (VP8L.Transform × Nat)) :
    finalWidthList w0 (a ++ b) = finalWidthList (finalWidthList w0 a) b := by
  induction a generalizing w0 with
  | nil => rfl
  | cons p a ih => obtain ⟨t, w'⟩ := p; simp [finalWidthList, ih]

theorem readTransforms_widths_aux (h : Nat) (fuel : Nat) :
    ∀ (w : Nat) (acc : Array (VP8L.Transform × Nat)) (br : VP8L.BitReader)
      (ts : Array (VP8L.Transform × Nat)) (w' : Nat) (br' : VP8L.BitReader),
      VP8L.readTransforms h fuel w acc br = .ok (ts, w', br') →
      ∃ suf : List (VP8L.Transform × Nat), ts.toList = acc.toList ++ suf ∧ WidthsOKList w suf ∧
        w' = finalWidthList w suf := by
  induction fuel with
  | zero => intro w acc br ts w' br' he; cases he
  | succ fuel ih =>
    intro w acc br ts w' br' he
    rw [VP8L.readTransforms] at he
    split at he
    · rename_i present br1 _
      split at he
      · simp only [Res.ok.injEq, Prod.mk.injEq] at he
        obtain ⟨rfl, rfl, _⟩ := he
        exact ⟨[], by simp, trivial, rfl⟩
      · split at he
        · rename_i ty br2 _
          split at he
          · cases he
          · split at he
            · rename_i t w1 br3 hd
              obtain ⟨suf, h1, h2, h3⟩ := ih w1 (acc.push (t, w)) br3 ts w' br' he
              have hw1 := readTransformData_width ty w h br2 t w1 br3 hd
              refine ⟨(t, w) :: suf, by simpa using h1, ⟨rfl, hw1 ▸ h2⟩, ?_⟩
              simp only [finalWidthList]; rw [← hw1]; exact h3
            all_goals cases he
        all_goals cases he
    all_goals cases he

/-- **`readTransforms` produces consistent widths**, and returns the width of the entropy-coded
    image. -/
theorem readTransforms_widths (h fuel w : Nat) (br : VP8L.BitReader)
    (ts : Array (VP8L.Transform × Nat)) (w' : Nat) (br' : VP8L.BitReader)
    (he : VP8L.readTransforms h fuel w #[] br = .ok (ts, w', br')) :
    WidthsOK w ts ∧ w' = finalWidth w ts := by
  obtain ⟨suf, h1, h2, h3⟩ := readTransforms_widths_aux h fuel w #[] br ts w' br' he
  simp only [List.nil_append] at h1
  subst h1
  exact ⟨h2, h3⟩

/-! ### the pixels returned by `decode` -/

theorem readMetaPrefix_dims (w h cb : Nat) (br : VP8L.BitReader) (p : VP8L.EntropyParams)
    (br' : VP8L.BitReader) (he : VP8L.readMetaPrefix w h cb br = .ok (p, br')) :
    p.width = w ∧ p.height = h := by
  unfold VP8L.readMetaPrefix at he
  obtain ⟨⟨present, br1⟩, _, he⟩ := bind_eq_ok he
  simp only at he
  split at he
  · obtain ⟨⟨b, br2⟩, _, he⟩ := bind_eq_ok he
    obtain ⟨⟨img, br3⟩, _, he⟩ := bind_eq_ok he
    obtain ⟨⟨groups, br4⟩, _, he⟩ := bind_eq_ok he
    simp only [Res.pure_eq, Res.ok.injEq, Prod.mk.injEq] at he
    obtain ⟨rfl, _⟩ := he
    exact ⟨rfl, rfl⟩
  · obtain ⟨⟨g, br2⟩, _, he⟩ := bind_eq_ok he
    simp only [Res.pure_eq, Res.ok.injEq, Prod.mk.injEq] at he
    obtain ⟨rfl, _⟩ := he
    exact ⟨rfl, rfl⟩

/-- what `decodeStream` returns: consistent widths and exactly `finalWidth × height` coded pixels -/
theorem decodeStream_ok (data : ByteArray) (info : VP8L.StreamInfo) (px : Array UInt32)
    (br : VP8L.BitReader) (he : VP8L.decodeStream data = .ok (info, px, br)) :
    WidthsOK info.header.width info.transforms ∧
    px.size = finalWidth info.header.width info.transforms * info.header.height := by
  unfold VP8L.decodeStream at he
  obtain ⟨⟨hdr, br1⟩, _, he⟩ := bind_eq_ok he
  obtain ⟨⟨ts, w, br2⟩, ht, he⟩ := bind_eq_ok he
  obtain ⟨⟨cb, br3⟩, _, he⟩ := bind_eq_ok he
  obtain ⟨⟨params, br4⟩, hm, he⟩ := bind_eq_ok he
  obtain ⟨⟨px', br5⟩, hp, he⟩ := bind_eq_ok he
  simp only [Res.pure_eq, Res.ok.injEq, Prod.mk.injEq] at he
  obtain ⟨rfl, rfl, _⟩ := he
  simp only [Array.emptyWithCapacity_eq] at ht
  obtain ⟨hw, rfl⟩ := readTransforms_widths _ _ _ _ _ _ _ ht
  obtain ⟨h1, h2⟩ := readMetaPrefix_dims _ _ _ _ _ _ hm
  refine ⟨hw, ?_⟩
  rw [size_decodePixels _ _ _ _ hp, h1, h2]

/-- **The pixels of `Webp.Spec.VP8L.decode` are (B)'s `applyInverse` of the entropy-decoded
    pixels** — no hypothesis beyond "the stream decodes". -/
theorem decode_pixels_eq (data : ByteArray) (img : VP8L.Image) (he : VP8L.decode data = .ok img) :
    ∃ (info : VP8L.StreamInfo) (px : Array UInt32) (br : VP8L.BitReader),
      VP8L.decodeStream data = .ok (info, px, br) ∧
      img.width = info.header.width ∧ img.height = info.header.height ∧
      WidthsOK img.width info.transforms ∧
      px.size = finalWidth img.width info.transforms * img.height ∧
      img.pixels = LTransform.applyInverse img.height (toXfs info.transforms) img.width px := by
  unfold VP8L.decode at he
  obtain ⟨⟨info, px, br⟩, hs, he⟩ := bind_eq_ok he
  simp only [Res.pure_eq, Res.ok.injEq] at he
  subst he
  obtain ⟨hw, hsz⟩ := decodeStream_ok data info px br hs
  exact ⟨info, px, br, hs, rfl, rfl, hw, hsz, applyInverseTransforms_eq _ _ _ _ hw hsz⟩

/-! ## 4. connection to C01 -/

open Webp.Impl.LTransform (applyForward forward1)
open Webp.Proofs.LTransformChain (ChainValid)

def finalWidthXf : Nat → List Xf → Nat
  | w, [] => w
  | w, t :: rest => finalWidthXf (t.widthAfter w) rest

theorem finalWidthList_eq (w : Nat) (ts : List (VP8L.Transform × Nat)) :
    finalWidthList w ts = finalWidthXf w (ts.map (toXf ∘ Prod.fst)) := by
  induction ts generalizing w with
  | nil => rfl
  | cons p ts ih => obtain ⟨t, w'⟩ := p; simp [finalWidthList, finalWidthXf, ih]

theorem size_forward1 (t : Xf) (w h : Nat) (px : Array Px) (hsz : px.size = w * h) :
    (forward1 t w h px).size = t.widthAfter w * h := by
  cases t with
  | predictor bits tiles => simp [forward1, Webp.Impl.LTransform.predictFwd, Xf.widthAfter, hsz]
  | crossColor bits tiles => simp [forward1, Webp.Impl.LTransform.crossColorFwd, Xf.widthAfter, hsz]
  | subtractGreen => simp [forward1, Webp.Impl.LTransform.subtractGreen, Xf.widthAfter, hsz]
  | colorIndex pal => simp [forward1, Webp.Impl.LTransform.paletteFwd, Xf.widthAfter]

theorem size_applyForward (h : Nat) (xfs : List Xf) : ∀ (w : Nat) (px : Array Px),
    px.size = w * h → (applyForward h xfs w px).size = finalWidthXf w xfs * h := by
  induction xfs with
  | nil => intro w px hsz; exact hsz
  | cons t xfs ih =>
    intro w px hsz
    simp only [applyForward, finalWidthXf]
    exact ih _ _ (size_forward1 t w h px hsz)

/-- **Corollary (C01 for the executable specification decoder).**  If the coded pixels are the
    encoder's forward transforms of a `w×h` image and the transform array corresponds to the
    encoder's list, `Webp.Spec.VP8L.applyInverseTransforms` returns the image. -/
theorem specDecoder_undoes_encoder (h : Nat) (xfs : List Xf) (w : Nat) (img : Array Px)
    (ts : Array (VP8L.Transform × Nat)) (hts : toXfs ts = xfs) (hw : WidthsOK w ts)
    (hv : ChainValid h xfs w img) (hsz : img.size = w * h) :
    VP8L.applyInverseTransforms h ts (applyForward h xfs w img) = img := by
  subst hts
  have hs : (applyForward h (toXfs ts) w img).size = finalWidth w ts * h := by
    rw [size_applyForward h _ w img hsz, finalWidth, finalWidthList_eq]; rfl
  rw [applyInverseTransforms_eq h ts w _ hw hs]
  exact Webp.Proofs.LTransformChain.applyInverse_applyForward h (toXfs ts) w img hv

/-- the (A) transform array of a (B) list, with the widths `readTransforms` would store -/
def ofXf : Xf → VP8L.Transform
  | .predictor bits tiles => .predictor bits tiles
  | .crossColor bits tiles => .crossColor bits tiles
  | .subtractGreen => .subtractGreen
  | .colorIndex pal => .colorIndexing pal

def ofXfsList : Nat → List Xf → List (VP8L.Transform × Nat)
  | _, [] => []
  | w, t :: rest => (ofXf t, w) :: ofXfsList (t.widthAfter w) rest

def ofXfs (w : Nat) (xfs : List Xf) : Array (VP8L.Transform × Nat) := (ofXfsList w xfs).toArray

theorem toXf_ofXf (t : Xf) : toXf (ofXf t) = t := by cases t <;> rfl

theorem toXfs_ofXfs (w : Nat) (xfs : List Xf) : toXfs (ofXfs w xfs) = xfs := by
  simp only [toXfs, ofXfs]
  induction xfs generalizing w with
  | nil => rfl
  | cons t xfs ih => simp [ofXfsList, toXf_ofXf, ih]

theorem widthsOK_ofXfs (w : Nat) (xfs : List Xf) : WidthsOK w (ofXfs w xfs) := by
  simp only [WidthsOK, ofXfs]
  induction xfs generalizing w with
  | nil => trivial
  | cons t xfs ih => exact ⟨rfl, by rw [toXf_ofXf]; exact ih _⟩

/-- the same without bookkeeping hypotheses: the array is built from the encoder's list -/
theorem specDecoder_undoes_encoder' (h : Nat) (xfs : List Xf) (w : Nat) (img : Array Px)
    (hv : ChainValid h xfs w img) (hsz : img.size = w * h) :
    VP8L.applyInverseTransforms h (ofXfs w xfs) (applyForward h xfs w img) = img :=
  specDecoder_undoes_encoder h xfs w img _ (toXfs_ofXfs w xfs) (widthsOK_ofXfs w xfs) hv hsz

/-! ## bonus: the distance map -/

theorem distanceMap_entry : ∀ i, i < 120 →
    VP8L.distanceMap.getD i (0, 0)
      = (8 - (((LTransform.codeToPlane.getD i 0) &&& 0xf : Nat) : Int), (LTransform.codeToPlane.getD i 0) >>> 4) := by
  decide +kernel

theorem planeCodeToDistance_eq (xsize code : Nat) :
    VP8L.planeCodeToDistance xsize code = LTransform.planeCodeToDistance xsize code := by
  unfold VP8L.planeCodeToDistance LTransform.planeCodeToDistance
  split
  · rfl
  · rename_i hc
    rw [distanceMap_entry (code - 1) (by omega)]
    simp only
    rw [Int.add_comm]

theorem readPrefixValue_eq (sym : Nat) (br : VP8L.BitReader) :
    VP8L.readPrefixValue sym br =
      match br.readBits (LTransform.prefixExtraBits sym) with
      | .ok (e, br) => .ok (LTransform.prefixDecode sym e, br)
      | .err e => .err e
      | .panic => .panic
      | .hang => .hang := by
  unfold VP8L.readPrefixValue LTransform.prefixExtraBits LTransform.prefixDecode
  split
  · simp [VP8L.BitReader.readBits]
  · rfl

/-! ## counterexamples (hypotheses are needed) and non-vacuity -/

/-- predictor: `res.size = w*h` is needed — (A) always produces `w*h` pixels, (B) `res.size` -/
example : VP8L.inversePredictor 1 1 2 #[] #[] = #[0xff000000] ∧ LTransform.predictInv 1 2 #[] #[] = #[] := by
  decide
/-- … also with too MANY residuals: (A) stops after `w*h`, (B) goes on -/
example : VP8L.inversePredictor 1 1 2 #[] #[0, 5] = #[0xff000000] ∧
    LTransform.predictInv 1 2 #[] #[0, 5] = #[0xff000000, 0xff000005] := by decide
/-- cross-colour: `px.size = w*h` is needed -/
example : VP8L.inverseCrossColor 2 1 2 #[] #[7] = #[7, 0] ∧ LTransform.crossColorInv 2 2 #[] #[7] = #[7] := by
  decide
/-- `inversePredictor_eq` / `inverseCrossColor_eq` are not vacuous, widths 0 and 1 included -/
example : (#[1, 2, 3, 4, 5, 6] : Array UInt32).size = 3 * 2 ∧ (#[] : Array UInt32).size = 0 * 7 ∧
    (#[1, 2] : Array UInt32).size = 1 * 2 := by decide

/-- chain: the size hypothesis is needed -/
example : WidthsOK 1 #[(.predictor 2 #[], 1)] ∧
    VP8L.applyInverseTransforms 1 #[(.predictor 2 #[], 1)] #[]
      ≠ LTransform.applyInverse 1 (toXfs #[(.predictor 2 #[], 1)]) 1 #[] := by
  refine ⟨⟨rfl, trivial⟩, by decide⟩
/-- chain: `WidthsOK` is needed (stored width 2, image width 1) -/
example : ¬ WidthsOK 1 #[(.colorIndexing #[7], 2)] ∧
    VP8L.applyInverseTransforms 1 #[(.colorIndexing #[7], 2)] #[0] = #[7, 7] ∧
    LTransform.applyInverse 1 (toXfs #[(.colorIndexing #[7], 2)]) 1 #[0] = #[7] := by
  refine ⟨fun h => absurd h.1 (by decide), by decide, by decide⟩

/-- 4×2 image, two colours (1-bit packing: one word per row) -/
def exPal : Array Px := #[0xff000000, 0xffffffff]
def exImg : Array Px :=
  #[0xff000000, 0xffffffff, 0xff000000, 0xff000000,
    0xff000000, 0xff000000, 0xff000000, 0xff000000]
/-- what `readTransforms` stores for the encoder's `[colorIndex, predictor]` chain of a 4-wide image -/
def exTs : Array (VP8L.Transform × Nat) := #[(.colorIndexing exPal, 4), (.predictor 2 #[0xff000b00], 1)]

/-- the chain theorem's hypotheses hold for `exTs` (packed width 1, height 2: two coded pixels) -/
example : WidthsOK 4 exTs ∧ finalWidth 4 exTs = 1 ∧ exTs = ofXfs 4 (toXfs exTs) ∧
    (#[0xff000200, 0] : Array UInt32).size = finalWidth 4 exTs * 2 := by
  refine ⟨⟨rfl, rfl, trivial⟩, by decide, rfl, by decide⟩

/-- a chain whose coded-pixel length does not matter (`needsSize = false`): it ends in a
    colour-indexing transform -/
example : needsSize (#[(VP8L.Transform.subtractGreen, 4), (.colorIndexing exPal, 4)] : Array _).toList = false := by
  decide

theorem exChainValid : ChainValid 2 (toXfs exTs) 4 exImg := by
  refine ⟨⟨by decide, ?_, by decide⟩, ?_, trivial⟩
  · intro p hp
    simp only [exImg, exPal] at hp ⊢
    simp only [List.mem_toArray, List.mem_cons, List.mem_nil_iff, or_false] at hp ⊢
    rcases hp with h | h | h | h | h | h | h | h <;> simp [h]
  · apply Webp.Proofs.LTransformPredictor.modesAgree_of_lt16
    intro t ht
    simp only [List.mem_toArray, List.mem_cons, List.mem_nil_iff, or_false] at ht
    subst ht; decide

/-- the corollary applied: the specification decoder's transform stage returns `exImg` -/
example : VP8L.applyInverseTransforms 2 exTs (applyForward 2 (toXfs exTs) 4 exImg) = exImg :=
  specDecoder_undoes_encoder 2 _ 4 exImg exTs rfl ⟨rfl, rfl, trivial⟩ exChainValid (by decide)

/-- corollary: `img.size = w*h` is needed (`ChainValid` does not imply it without a palette) -/
example : ChainValid 1 [.predictor 2 #[]] 1 #[] ∧
    VP8L.applyInverseTransforms 1 (ofXfs 1 [.predictor 2 #[]]) (applyForward 1 [.predictor 2 #[]] 1 #[]) ≠ #[] := by
  refine ⟨⟨?_, trivial⟩, by decide⟩
  intro t ht; simp at ht

/-- `readTransforms_widths` is not vacuous: the bits `1 01 0` (present, type 2 = subtract green,
    end of list) -/
example : ∃ ts w' br', VP8L.readTransforms 1 5 1 #[] { data := ⟨#[0x05]⟩ } = .ok (ts, w', br') ∧
    ts.size = 1 ∧ w' = 1 := by
  have h : (match VP8L.readTransforms 1 5 1 #[] { data := ⟨#[0x05]⟩ } with
      | .ok (ts, w, _) => decide (ts.size = 1 ∧ w = 1)
      | _ => false) = true := by decide +kernel
  generalize VP8L.readTransforms 1 5 1 #[] { data := ⟨#[0x05]⟩ } = r at h
  match r, h with
  | .ok (ts, w, br), h => exact ⟨ts, w, br, rfl, by simpa using h⟩

/- `decode_pixels_eq` is not vacuous: `(VP8L.decode ⟨#[0x2f, 0, 0, 0, 0, 0x88, 0x88, 0x58, 0]⟩).isOk = true`
   holds by `decide +kernel` (checked; ~4 min of kernel evaluation, therefore not part of the build;
   see also the whole-stream samples in `Webp.Spec.VP8L.Examples`). -/

end Webp.Proofs.VP8LSpecBridge
