import Webp.Proofs.VP8LEntropyCanon
/-
  The specification's bit-serial `readSymbol` on the bits of one canonical code word, and the
  encoder's `generateCanonicalCodes`: together `prefix_roundtrip`.
-/
namespace Webp.Proofs.VP8LEntropyPrefix
open Webp.Go (Res)
open Webp.Spec.VP8L
open Webp.Impl.VP8LEntropy
open Webp.Proofs.VP8LEntropyBits Webp.Proofs.VP8LEntropyRev Webp.Proofs.VP8LEntropyCanon

/-- the canonical code word of symbol `s` -/
def codeWord (lens : Array Nat) (s : Nat) : Nat := first lens (lens.getD s 0) + idx lens s

/-- the bits of code word `cw` of length `l` in stream order -/
def wordBits (cw l : Nat) : List Bool := bitsLE (rev l (cw % 2 ^ l)) l

theorem wordBits_length (cw l : Nat) : (wordBits cw l).length = l := by simp [wordBits]

theorem wordBits_succ (cw d : Nat) :
    wordBits cw (d + 1) = (cw / 2 ^ d % 2 == 1) :: wordBits cw d := by
  unfold wordBits
  rw [bitsLE_rev_succ]
  have e1 : cw % 2 ^ (d + 1) / 2 ^ d % 2 = cw / 2 ^ d % 2 := by
    rw [Nat.pow_succ, Nat.mod_mul_right_div_self, Nat.mod_mod]
  have e2 : cw % 2 ^ (d + 1) % 2 ^ d = cw % 2 ^ d := by
    rw [Nat.pow_succ]; exact Nat.mod_mul_right_mod cw (2 ^ d) 2
  rw [e1, e2]

section walk
variable (lens : Array Nat) (code : Code)

/-- what the walk needs to know about `code` -/
structure CodeOf : Prop where
  counts : ∀ j, 1 ≤ j → j ≤ 15 → code.counts.getD j 0 = cnt lens j
  counts_hi : ∀ j, 16 ≤ j → code.counts.getD j 0 = 0

theorem bool_toNat_mod (x : Nat) : (x % 2 == 1).toNat = x % 2 := by
  rcases Nat.mod_two_eq_zero_or_one x with h | h <;> simp [h]

/-- reading the `d` remaining bits of the code word of `s` at depth `j` returns `s` -/
theorem aux_walk (hc : CodeOf lens code) (s : Nat) (hs : s < lens.size)
    (hsym : code.symbols.getD (offs lens (lens.getD s 0) + idx lens s) 0 = s) (hl15 : lens.getD s 0 ≤ 15)
    (d : Nat) : ∀ (j fuel : Nat) (br : BitReader) (rest : List Bool),
      j + d = lens.getD s 0 + 1 → 1 ≤ j → 1 ≤ d → d ≤ fuel →
      restBits br = wordBits (codeWord lens s) d ++ rest →
      readSymbolAux code fuel j (2 * (codeWord lens s / 2 ^ d)) (first lens j) (offs lens j) br
        = .ok (s, adv br d) := by
  induction d with
  | zero => intro j fuel br rest _ _ h; omega
  | succ d ih =>
    intro j fuel br rest hjd hj _ hfuel hbits
    obtain ⟨fuel, rfl⟩ : ∃ f, fuel = f + 1 := ⟨fuel - 1, by omega⟩
    rw [wordBits_succ, List.cons_append] at hbits
    obtain ⟨hrb, hrest⟩ := readBit_cons hbits
    rw [readSymbolAux, hrb]
    simp only [bool_toNat_mod]
    have hcode : 2 * (codeWord lens s / 2 ^ (d + 1)) + codeWord lens s / 2 ^ d % 2 = codeWord lens s / 2 ^ d := by
      have : codeWord lens s / 2 ^ (d + 1) = codeWord lens s / 2 ^ d / 2 := by
        rw [Nat.pow_succ, Nat.div_div_eq_div_mul]
      rw [this]; omega
    rw [hcode]
    have hj15 : j ≤ 15 := by omega
    rw [hc.counts j hj hj15]
    have hcnt' : cnt' lens j = cnt lens j := by rw [cnt', if_neg (by omega)]
    by_cases hd0 : d = 0
    · -- last bit: the code word is complete
      subst hd0
      have hjl : j = lens.getD s 0 := by omega
      simp only [Nat.pow_zero, Nat.div_one]
      have hlt : codeWord lens s < first lens j + cnt lens j := by
        unfold codeWord; rw [← hjl]
        have := idx_lt_cnt lens s hs
        rw [← hjl] at this; omega
      rw [if_pos hlt]
      have : offs lens j + (codeWord lens s - first lens j) = offs lens (lens.getD s 0) + idx lens s := by
        unfold codeWord; rw [← hjl]; omega
      rw [this, hsym]
    · -- not yet: every code word of length `j` is smaller
      have hjl : j < lens.getD s 0 := by omega
      have hge : first lens j + cnt lens j ≤ codeWord lens s / 2 ^ d := by
        rw [Nat.le_div_iff_mul_le (Nat.pow_pos (by decide))]
        have h1 := first_ge lens hjl
        rw [hcnt'] at h1
        have hdl : lens.getD s 0 - j = d := by omega
        rw [hdl] at h1
        unfold codeWord; omega
      rw [if_neg (by omega)]
      have hfirst : 2 * (first lens j + cnt lens j) = first lens (j + 1) := by rw [first, hcnt']
      have hoffs : offs lens j + cnt lens j = offs lens (j + 1) := by rw [offs, hcnt']
      rw [hfirst, hoffs]
      rw [ih (j + 1) fuel (adv br 1) rest (by omega) (by omega) (by omega) (by omega) hrest]
      rw [adv_adv, Nat.add_comm 1 d]

/-- … and if the stream ends inside the code word, the reader reports `eos` -/
theorem aux_walk_eos (hc : CodeOf lens code) (s : Nat) (d : Nat) :
    ∀ (j fuel : Nat) (br : BitReader) (k : Nat),
      j + d = lens.getD s 0 + 1 → 1 ≤ j → 1 ≤ d → d ≤ fuel → k < d → lens.getD s 0 ≤ 15 →
      restBits br = (wordBits (codeWord lens s) d).take k →
      readSymbolAux code fuel j (2 * (codeWord lens s / 2 ^ d)) (first lens j) (offs lens j) br
        = .err .eos := by
  induction d with
  | zero => intro j fuel br k _ _ h; omega
  | succ d ih =>
    intro j fuel br k hjd hj _ hfuel hk hl15 hbits
    obtain ⟨fuel, rfl⟩ : ∃ f, fuel = f + 1 := ⟨fuel - 1, by omega⟩
    cases k with
    | zero =>
      rw [List.take_zero] at hbits
      rw [readSymbolAux, readBit_nil hbits]
    | succ k =>
      rw [wordBits_succ, List.take_succ_cons] at hbits
      obtain ⟨hrb, hrest⟩ := readBit_cons hbits
      rw [readSymbolAux, hrb]
      simp only [bool_toNat_mod]
      have hcode : 2 * (codeWord lens s / 2 ^ (d + 1)) + codeWord lens s / 2 ^ d % 2 = codeWord lens s / 2 ^ d := by
        have : codeWord lens s / 2 ^ (d + 1) = codeWord lens s / 2 ^ d / 2 := by
          rw [Nat.pow_succ, Nat.div_div_eq_div_mul]
        rw [this]; omega
      rw [hcode]
      have hj15 : j ≤ 15 := by omega
      rw [hc.counts j hj hj15]
      have hcnt' : cnt' lens j = cnt lens j := by rw [cnt', if_neg (by omega)]
      have hd0 : d ≠ 0 := by omega
      have hjl : j < lens.getD s 0 := by omega
      have hge : first lens j + cnt lens j ≤ codeWord lens s / 2 ^ d := by
        rw [Nat.le_div_iff_mul_le (Nat.pow_pos (by decide))]
        have h1 := first_ge lens hjl
        rw [hcnt'] at h1
        have hdl : lens.getD s 0 - j = d := by omega
        rw [hdl] at h1
        unfold codeWord; omega
      rw [if_neg (by omega)]
      have hfirst : 2 * (first lens j + cnt lens j) = first lens (j + 1) := by rw [first, hcnt']
      have hoffs : offs lens j + cnt lens j = offs lens (j + 1) := by rw [offs, hcnt']
      rw [hfirst, hoffs]
      exact ih (j + 1) fuel (adv br 1) k (by omega) (by omega) (by omega) (by omega) (by omega) hl15 hrest

end walk

/-! ## `readSymbol` of a built code -/

theorem codeOf_of_buildCode {lens : Array Nat} {code : Code} (h : buildCode lens = .ok code) :
    CodeOf lens code := by
  obtain ⟨_, _, _, hcounts, _⟩ := buildCode_ok h
  constructor
  · intro j h1 h2
    rw [hcounts, getD_setIfInBounds, if_neg (by omega)]
    exact lengthCounts_getD lens j (by omega)
  · intro j hj
    rw [hcounts, getD_setIfInBounds, if_neg (by omega)]
    exact lengthCounts_getD_ge lens j hj

theorem getD_eq_getElem (lens : Array Nat) (s : Nat) (hs : s < lens.size) : lens.getD s 0 = lens[s] := by
  simp [Array.getD_eq_getD_getElem?, hs]

/-- the code is used by more than one symbol ⇒ complete ⇒ code words fit their length -/
theorem codeWord_lt {lens : Array Nat} {code : Code} (h : buildCode lens = .ok code) (hm : offs lens 16 ≠ 1)
    (s : Nat) (hs : s < lens.size) (hl : lens.getD s 0 ≠ 0) :
    codeWord lens s < 2 ^ lens.getD s 0 := by
  obtain ⟨h15, _, hk, _, _⟩ := buildCode_ok h
  have hk' : ks lens 16 = 2 ^ 15 := by rcases hk with h1 | h1; exact absurd h1 hm; exact h1
  have hl15 : lens.getD s 0 ≤ 15 := by
    rw [getD_eq_getElem lens s hs]; exact h15 _ (Array.getElem_mem hs)
  have := first_add_cnt_le lens (lens.getD s 0) hl15 (by omega)
  have h2 := idx_lt_cnt lens s hs
  rw [cnt', if_neg hl] at this
  unfold codeWord; omega

/-- **bit-serial decoding of one code word** (codes with at least two symbols) -/
theorem readSymbol_word {lens : Array Nat} {code : Code} (h : buildCode lens = .ok code)
    (hm : offs lens 16 ≠ 1) (s : Nat) (hs : s < lens.size) (hl : lens.getD s 0 ≠ 0)
    (br : BitReader) (rest : List Bool)
    (hb : restBits br = wordBits (codeWord lens s) (lens.getD s 0) ++ rest) :
    Webp.Spec.VP8L.readSymbol code br = .ok (s, adv br (lens.getD s 0)) := by
  obtain ⟨h15, _, _, _, hsyms⟩ := buildCode_ok h
  have hl15 : lens.getD s 0 ≤ 15 := by
    rw [getD_eq_getElem lens s hs]; exact h15 _ (Array.getElem_mem hs)
  unfold Webp.Spec.VP8L.readSymbol
  have hsz : code.symbols.size ≠ 1 := by rw [hsyms, sortSymbols_size lens h15]; exact hm
  rw [if_neg hsz]
  have hw := aux_walk lens code (codeOf_of_buildCode h) s hs
    (by rw [hsyms]; exact sortSymbols_getD lens h15 s hs hl) hl15 (lens.getD s 0)
    1 maxCodeLength br rest (by omega) (by omega) (by omega) (by simpa [maxCodeLength] using hl15) hb
  have hz : codeWord lens s / 2 ^ lens.getD s 0 = 0 := Nat.div_eq_of_lt (codeWord_lt h hm s hs hl)
  rw [hz] at hw
  simpa [first, offs, cnt'] using hw

/-- … the stream ending inside the code word is `eos` -/
theorem readSymbol_word_eos {lens : Array Nat} {code : Code} (h : buildCode lens = .ok code)
    (hm : offs lens 16 ≠ 1) (s : Nat) (hs : s < lens.size) (hl : lens.getD s 0 ≠ 0)
    (br : BitReader) (k : Nat) (hk : k < lens.getD s 0)
    (hb : restBits br = (wordBits (codeWord lens s) (lens.getD s 0)).take k) :
    Webp.Spec.VP8L.readSymbol code br = .err .eos := by
  obtain ⟨h15, _, _, _, hsyms⟩ := buildCode_ok h
  have hl15 : lens.getD s 0 ≤ 15 := by
    rw [getD_eq_getElem lens s hs]; exact h15 _ (Array.getElem_mem hs)
  unfold Webp.Spec.VP8L.readSymbol
  have hsz : code.symbols.size ≠ 1 := by rw [hsyms, sortSymbols_size lens h15]; exact hm
  rw [if_neg hsz]
  have hw := aux_walk_eos lens code (codeOf_of_buildCode h) s (lens.getD s 0)
    1 maxCodeLength br k (by omega) (by omega) (by omega) (by simpa [maxCodeLength] using hl15) hk hl15 hb
  have hz : codeWord lens s / 2 ^ lens.getD s 0 = 0 := Nat.div_eq_of_lt (codeWord_lt h hm s hs hl)
  rw [hz] at hw
  simpa [first, offs, cnt'] using hw

/-- a code with a single used symbol reads it from zero bits -/
theorem readSymbol_single {lens : Array Nat} {code : Code} (h : buildCode lens = .ok code)
    (h1 : offs lens 16 = 1) (s : Nat) (hs : s < lens.size) (hl : lens.getD s 0 ≠ 0) (br : BitReader) :
    Webp.Spec.VP8L.readSymbol code br = .ok (s, br) := by
  obtain ⟨h15, _, _, _, hsyms⟩ := buildCode_ok h
  unfold Webp.Spec.VP8L.readSymbol
  have hsz : code.symbols.size = 1 := by rw [hsyms, sortSymbols_size lens h15]; exact h1
  rw [if_pos hsz]
  have hl15 : lens.getD s 0 ≤ 15 := by
    rw [getD_eq_getElem lens s hs]; exact h15 _ (Array.getElem_mem hs)
  have hpos : offs lens (lens.getD s 0) + idx lens s = 0 := by
    have hi := idx_lt_cnt lens s hs
    have h2 : offs lens (lens.getD s 0) + cnt' lens (lens.getD s 0) ≤ offs lens 16 :=
      offs_add_cnt_le lens (by omega)
    rw [cnt', if_neg hl] at h2
    omega
  have := sortSymbols_getD lens h15 s hs hl
  rw [hpos] at this
  rw [hsyms, this]

/-! ## the encoder's `generateCanonicalCodes` -/

theorem foldl_max_ge (xs : List Nat) (init : Nat) : init ≤ xs.foldl max init ∧ ∀ x ∈ xs, x ≤ xs.foldl max init := by
  induction xs generalizing init with
  | nil => simp
  | cons y r ih =>
    obtain ⟨h1, h2⟩ := ih (max init y)
    refine ⟨by simp only [List.foldl]; omega, ?_⟩
    intro x hx
    simp only [List.foldl]
    rcases List.mem_cons.mp hx with rfl | hx
    · omega
    · exact h2 x hx

theorem le_maxL (lens : Array Nat) (s : Nat) (hs : s < lens.size) : lens.getD s 0 ≤ lens.foldl max 0 := by
  rw [← Array.foldl_toList, getD_eq_getElem lens s hs]
  exact (foldl_max_ge lens.toList 0).2 _ (by simp)

theorem nextCodeLoop_spec (lens : Array Nat) (blCount : Array Nat)
    (hbl : ∀ j, j < 16 → blCount.getD j 0 = cnt' lens j) (f : Nat) :
    ∀ (b : Nat) (next : Array Nat), 1 ≤ b → b + f ≤ 16 → next.size = 16 →
      (nextCodeLoop blCount f b (first lens (b - 1)) next).size = 16 ∧
      ∀ j, (nextCodeLoop blCount f b (first lens (b - 1)) next).getD j 0 =
        if b ≤ j ∧ j < b + f then first lens j else next.getD j 0 := by
  induction f with
  | zero =>
    intro b next hb _ hsz
    refine ⟨hsz, ?_⟩
    intro j
    rw [nextCodeLoop, if_neg (by omega)]
  | succ f ih =>
    intro b next hb hbf hsz
    rw [nextCodeLoop]
    have hcode : (first lens (b - 1) + blCount.getD (b - 1) 0) <<< 1 = first lens b := by
      rw [hbl _ (by omega), Nat.shiftLeft_eq, Nat.pow_one, Nat.mul_comm]
      have : b = (b - 1) + 1 := by omega
      conv => rhs; rw [this, first]
    rw [hcode]
    have hb' : first lens b = first lens (b + 1 - 1) := by simp
    obtain ⟨h1, h2⟩ := ih (b + 1) (next.setIfInBounds b (first lens b)) (by omega) (by omega) (by simpa using hsz)
    rw [← hb'] at h1 h2
    refine ⟨h1, ?_⟩
    intro j
    rw [h2 j]
    by_cases hc : b + 1 ≤ j ∧ j < b + 1 + f
    · rw [if_pos hc, if_pos (by omega)]
    · rw [if_neg hc, getD_setIfInBounds]
      by_cases hjb : b = j
      · subst hjb
        rw [if_pos ⟨rfl, by rw [hsz]; omega⟩, if_pos ⟨Nat.le_refl _, by omega⟩]
      · rw [if_neg (fun hh => hjb hh.1), if_neg (by omega)]

/-- state of `assignLoop` before symbol `i` -/
theorem assignLoop_spec (lens : Array Nat) (maxL : Nat) (hmax : ∀ s, s < lens.size → lens.getD s 0 ≤ maxL)
    (hmax16 : maxL ≤ 15) (f : Nat) :
    ∀ (i : Nat) (next codes : Array Nat), i + f = lens.size → next.size = 16 → codes.size = lens.size →
      (∀ l, 1 ≤ l → l ≤ maxL → next.getD l 0 = first lens l + (lens.toList.take i).count l) →
      (∀ s, s < i → lens.getD s 0 ≠ 0 → codes.getD s 0 = rev (lens.getD s 0) (codeWord lens s)) →
      (∀ s, (s < i → lens.getD s 0 = 0) → codes.getD s 0 = 0) →
      let r := assignLoop lens f i next codes
      r.size = lens.size ∧
      (∀ s, s < lens.size → lens.getD s 0 ≠ 0 → r.getD s 0 = rev (lens.getD s 0) (codeWord lens s)) ∧
      (∀ s, lens.getD s 0 = 0 → r.getD s 0 = 0) := by
  induction f with
  | zero =>
    intro i next codes hif _ hcs _ hcodes hzero
    simp only [assignLoop]
    refine ⟨hcs, ?_, ?_⟩
    · intro s hs hne; exact hcodes s (by omega) hne
    · intro s hz; exact hzero s (fun _ => hz)
  | succ f ih =>
    intro i next codes hif hns hcs hnext hcodes hzero
    have hilt : i < lens.size := by omega
    rw [assignLoop]
    by_cases hcl : lens.getD i 0 > 0
    · simp only [hcl, if_true]
      have hl1 : 1 ≤ lens.getD i 0 := hcl
      have hlm := hmax i hilt
      apply ih (i + 1) _ _ (by omega) (by simpa using hns) (by simpa using hcs)
      · intro l h1 h2
        rw [getD_setIfInBounds, idx_succ_count lens i hilt]
        by_cases hll : lens.getD i 0 = l
        · rw [if_pos ⟨hll, by rw [hns]; omega⟩, if_pos hll, hnext _ hl1 hlm, ← hll]; omega
        · rw [if_neg (by intro hh; exact hll hh.1), if_neg hll, hnext l h1 h2]; rfl
      · intro s hs hne
        rw [getD_setIfInBounds]
        by_cases hsi : i = s
        · subst hsi
          rw [if_pos ⟨rfl, by rw [hcs]; exact hilt⟩, hnext _ hl1 hlm, reverseBits_eq _ _ (by omega)]
          rfl
        · rw [if_neg (by intro hh; exact hsi hh.1)]
          exact hcodes s (by omega) hne
      · intro s hz
        rw [getD_setIfInBounds]
        by_cases hsi : i = s
        · subst hsi
          have := hz (by omega)
          omega
        · rw [if_neg (by intro hh; exact hsi hh.1)]
          exact hzero s (fun hlt => hz (by omega))
    · simp only [hcl, if_false]
      have hz0 : lens.getD i 0 = 0 := by omega
      apply ih (i + 1) _ _ (by omega) hns hcs
      · intro l h1 h2
        rw [idx_succ_count lens i hilt, if_neg (by omega), hnext l h1 h2]; rfl
      · intro s hs hne
        by_cases hsi : s = i
        · subst hsi; exact absurd hz0 hne
        · exact hcodes s (by omega) hne
      · intro s hz
        by_cases hsi : s = i
        · subst hsi; exact hzero s (fun hlt => by omega)
        · exact hzero s (fun hlt => hz (by omega))

theorem replicate_getD (n s : Nat) : (Array.replicate n 0).getD s 0 = 0 := by
  simp only [Array.getD_eq_getD_getElem?, Array.getElem?_replicate]
  split <;> rfl

theorem foldl_max_le (xs : List Nat) (init b : Nat) (hi : init ≤ b) (h : ∀ x ∈ xs, x ≤ b) :
    xs.foldl max init ≤ b := by
  induction xs generalizing init with
  | nil => simpa
  | cons y r ih =>
    simp only [List.foldl]
    apply ih
    · have := h y List.mem_cons_self; omega
    · intro x hx; exact h x (List.mem_cons_of_mem _ hx)

/-- **`generateCanonicalCodes`**: symbol `s` of length `l` gets the bit-reversed canonical code word -/
theorem canonicalCodes_spec (lens : Array Nat) (h15 : ∀ x ∈ lens, x ≤ 15) :
    (canonicalCodes lens).size = lens.size ∧
    (∀ s, s < lens.size → lens.getD s 0 ≠ 0 →
      (canonicalCodes lens).getD s 0 = rev (lens.getD s 0) (codeWord lens s)) ∧
    (∀ s, lens.getD s 0 = 0 → (canonicalCodes lens).getD s 0 = 0) := by
  unfold canonicalCodes
  simp only
  by_cases hm : lens.foldl max 0 = 0
  · rw [if_pos hm]
    refine ⟨by simp, ?_, ?_⟩
    · intro s hs hne
      have := le_maxL lens s hs
      omega
    · intro s _
      exact replicate_getD _ s
  · rw [if_neg hm]
    have hmax15 : lens.foldl max 0 ≤ 15 := by
      rw [← Array.foldl_toList]
      exact foldl_max_le _ _ _ (by omega) (by simpa using h15)
    have hbl : ∀ j, j < 16 → ((lengthCounts lens).setIfInBounds 0 0).getD j 0 = cnt' lens j := by
      intro j hj
      rw [getD_setIfInBounds, cnt']
      by_cases h0 : j = 0
      · subst h0
        rw [if_pos ⟨rfl, by rw [lengthCounts_size]; omega⟩, if_pos rfl]
      · rw [if_neg (by omega), if_neg h0, lengthCounts_getD lens j hj]
    obtain ⟨hn1, hn2⟩ := nextCodeLoop_spec lens _ hbl (lens.foldl max 0) 1 (Array.replicate (maxLen + 1) 0)
      (by omega) (by omega) (by simp [maxLen])
    have hfirst0 : first lens (1 - 1) = 0 := rfl
    rw [hfirst0] at hn1 hn2
    apply assignLoop_spec lens (lens.foldl max 0) (fun s hs => le_maxL lens s hs) hmax15 lens.size 0 _ _
      (by omega) hn1 (by simp)
    · intro l h1 h2
      rw [hn2 l, if_pos ⟨h1, by omega⟩]; simp
    · intro s hs; omega
    · intro s _
      exact replicate_getD _ s

/-- number of used symbols, as `clearHuffmanTreeIfOnlyOneSymbol` counts them -/
theorem filter_ne_zero_length (xs : List Nat) : (xs.filter (· ≠ 0)).length + xs.count 0 = xs.length := by
  induction xs with
  | nil => rfl
  | cons x r ih =>
    by_cases h0 : x = 0
    · subst h0
      simp only [List.filter_cons, List.count_cons, List.length_cons] at ih ⊢
      simp at ih ⊢; omega
    · simp only [List.filter_cons, List.count_cons, List.length_cons] at ih ⊢
      simp [h0] at ih ⊢; omega

theorem used_count (lens : Array Nat) (h15 : ∀ x ∈ lens, x ≤ 15) :
    (lens.toList.filter (· ≠ 0)).length = offs lens 16 := by
  have h1 := filter_ne_zero_length lens.toList
  have h2 := size_eq lens h15
  simp only [cnt] at h2
  simp only [Array.length_toList] at h1
  omega

/-- the bits `writeHuffmanCode` emits for `s` with the tree the encoder uses after
    `clearHuffmanTreeIfOnlyOneSymbol` -/
def symBits (lens : Array Nat) (s : Nat) : List Bool :=
  callsBits (writeHuffmanCode (HuffTree.ofLens lens).clearIfOne s)

theorem symBits_multi (lens : Array Nat) (h15 : ∀ x ∈ lens, x ≤ 15) (hm : offs lens 16 ≠ 1) (h0 : 0 < offs lens 16)
    (s : Nat) (hs : s < lens.size) (hl : lens.getD s 0 ≠ 0) :
    symBits lens s = bitsLE (rev (lens.getD s 0) (codeWord lens s)) (lens.getD s 0) := by
  unfold symBits HuffTree.clearIfOne HuffTree.ofLens
  simp only
  rw [used_count lens h15, if_pos (by omega)]
  unfold writeHuffmanCode
  simp only
  rw [if_neg (by omega)]
  simp only [callsBits, List.flatMap_cons, List.flatMap_nil, List.append_nil]
  rw [(canonicalCodes_spec lens h15).2.1 s hs hl]

theorem symBits_single (lens : Array Nat) (h15 : ∀ x ∈ lens, x ≤ 15) (h1 : offs lens 16 = 1)
    (s : Nat) (hs : s < lens.size) : symBits lens s = [] := by
  unfold symBits HuffTree.clearIfOne HuffTree.ofLens
  simp only
  rw [used_count lens h15, if_neg (by omega)]
  unfold writeHuffmanCode
  simp only [Array.size_replicate]
  rw [if_neg (by omega)]
  simp only [callsBits, List.flatMap_cons, List.flatMap_nil, List.append_nil, replicate_getD, bitsLE]

/-- **prefix_roundtrip**: the specification's `readSymbol` with the code of `lens` reads back the
    symbol whose (bit-reversed canonical) code word the encoder wrote -/
theorem prefix_roundtrip {lens : Array Nat} {code : Code} (h : buildCode lens = .ok code)
    (s : Nat) (hs : s < lens.size) (hl : lens.getD s 0 ≠ 0) (br : BitReader) (rest : List Bool)
    (hb : restBits br = symBits lens s ++ rest) :
    Webp.Spec.VP8L.readSymbol code br = .ok (s, adv br (symBits lens s).length) := by
  obtain ⟨h15, h0, _, _, _⟩ := buildCode_ok h
  by_cases h1 : offs lens 16 = 1
  · rw [symBits_single lens h15 h1 s hs]
    exact readSymbol_single h h1 s hs hl br
  · have hsb := symBits_multi lens h15 h1 h0 s hs hl
    have hw : wordBits (codeWord lens s) (lens.getD s 0) = symBits lens s := by
      rw [hsb, wordBits, Nat.mod_eq_of_lt (codeWord_lt h h1 s hs hl)]
    have hlen : (symBits lens s).length = lens.getD s 0 := by rw [hsb, bitsLE_length]
    rw [hlen]
    rw [← hw] at hb
    exact readSymbol_word h h1 s hs hl br rest hb

end Webp.Proofs.VP8LEntropyPrefix
