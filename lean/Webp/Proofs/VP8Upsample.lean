import Webp.Impl.VP8Kernels
/-
  The fancy upsampler's packed 32-bit arithmetic (`loadUV`, `(3a+b+0x00020002)>>2`, the diamond kernel on
  words holding U in bits 0..15 and V in bits 16..31) computes, in each lane, the per-channel 9-3-3-1
  formulas.  Proved through `UInt32.toNat` and linear arithmetic (`omega`); no `bv_decide` is used.
-/
namespace Webp.Proofs.VP8Upsample
open Webp.Impl.VP8Kernels

theorem loadUV_toNat (u v : UInt8) : (loadUV u v).toNat = u.toNat + 65536 * v.toNat := by
  unfold loadUV
  have hu := u.toNat_lt; have hv := v.toNat_lt
  rw [UInt32.toNat_or, UInt32.toNat_shiftLeft, UInt8.toNat_toUInt32, UInt8.toNat_toUInt32]
  have e : (16 : UInt32).toNat % 32 = 16 := by decide
  rw [e, Nat.or_comm]
  have h2 : v.toNat <<< 16 % 2 ^ 32 = v.toNat <<< 16 := by
    rw [Nat.shiftLeft_eq]; omega
  rw [h2, ← Nat.shiftLeft_add_eq_or_of_lt (by omega : u.toNat < 2 ^ 16), Nat.shiftLeft_eq]
  omega

theorem lanes_toNat (uv : UInt32) : lanes uv = (uv.toNat % 256, uv.toNat / 65536 % 256) := by
  unfold lanes
  have e : (16 : UInt32).toNat % 32 = 16 := by decide
  have e2 : (0xff : UInt32).toNat = 2 ^ 8 - 1 := by decide
  simp only [UInt32.toNat_and, UInt32.toNat_shiftRight, e, e2, Nat.and_two_pow_sub_one_eq_mod, Nat.shiftRight_eq_div_pow]

/-! word operations that do not wrap -/

theorem add_small (x y : UInt32) (h : x.toNat + y.toNat < 4294967296) : (x + y).toNat = x.toNat + y.toNat := by
  rw [UInt32.toNat_add]; exact Nat.mod_eq_of_lt h

theorem two_mul_small (x : UInt32) (h : 2 * x.toNat < 4294967296) : (2 * x).toNat = 2 * x.toNat := by
  rw [UInt32.toNat_mul]
  have e2 : (2 : UInt32).toNat = 2 := by decide
  rw [e2]; exact Nat.mod_eq_of_lt h

theorem three_mul_small (x : UInt32) (h : 3 * x.toNat < 4294967296) : (3 * x).toNat = 3 * x.toNat := by
  rw [UInt32.toNat_mul]
  have e3 : (3 : UInt32).toNat = 3 := by decide
  rw [e3]; exact Nat.mod_eq_of_lt h

theorem shr1 (x : UInt32) : (x >>> 1).toNat = x.toNat / 2 := by
  have e : (1 : UInt32).toNat % 32 = 1 := by decide
  rw [UInt32.toNat_shiftRight, e, Nat.shiftRight_eq_div_pow]
theorem shr2 (x : UInt32) : (x >>> 2).toNat = x.toNat / 4 := by
  have e : (2 : UInt32).toNat % 32 = 2 := by decide
  rw [UInt32.toNat_shiftRight, e, Nat.shiftRight_eq_div_pow]
theorem shr3 (x : UInt32) : (x >>> 3).toNat = x.toNat / 8 := by
  have e : (3 : UInt32).toNat % 32 = 3 := by decide
  rw [UInt32.toNat_shiftRight, e, Nat.shiftRight_eq_div_pow]

theorem packedEdge_toNat (x y : UInt32) (hx : x.toNat < 16777216) (hy : y.toNat < 16777216) :
    (packedEdge x y).toNat = (3 * x.toNat + y.toNat + 131074) / 4 := by
  unfold packedEdge
  have e4 : (0x00020002 : UInt32).toNat = 131074 := by decide
  have s1 := three_mul_small x (by omega)
  have s2 := add_small (3 * x) y (by omega)
  have s3 := add_small (3 * x + y) 0x00020002 (by omega)
  rw [shr2, s3, s2, s1, e4]

/-- first / last pixel of a row: both lanes of `(3a + b + 0x00020002) >> 2` -/
theorem packedEdge_lanes (au av bu bv : UInt8) :
    lanes (packedEdge (loadUV au av) (loadUV bu bv))
      = (edgeRef au.toNat bu.toNat, edgeRef av.toNat bv.toNat) := by
  have h1 := au.toNat_lt; have h2 := av.toNat_lt; have h3 := bu.toNat_lt; have h4 := bv.toNat_lt
  have b1 := loadUV_toNat au av; have b2 := loadUV_toNat bu bv
  rw [lanes_toNat, packedEdge_toNat _ _ (by omega) (by omega), b1, b2]
  unfold edgeRef
  have e1 : (3 * (au.toNat + 65536 * av.toNat) + (bu.toNat + 65536 * bv.toNat) + 131074) / 4
      = (3 * au.toNat + bu.toNat + 2) / 4 + 16384 * (3 * av.toNat + bv.toNat + 2) := by omega
  rw [e1]
  have hq : (3 * au.toNat + bu.toNat + 2) / 4 < 256 := by omega
  generalize (3 * au.toNat + bu.toNat + 2) / 4 = q at hq ⊢
  obtain ⟨y, hy⟩ : ∃ y, y = 3 * av.toNat + bv.toNat + 2 := ⟨_, rfl⟩
  rw [← hy]
  have e2 : (q + 16384 * y) / 65536 = y / 4 := by omega
  refine Prod.ext ?_ ?_ <;> simp only
  · omega
  · rw [e2]; omega

/-- one output word of the diamond kernel: `((avg + 2*(x + y)) >> 3 + z) >> 1` -/
theorem diag_toNat (tl t l cur x y z : UInt32)
    (h1 : tl.toNat < 16777216) (h2 : t.toNat < 16777216) (h3 : l.toNat < 16777216) (h4 : cur.toNat < 16777216)
    (hx : x.toNat < 16777216) (hy : y.toNat < 16777216) (hz : z.toNat < 16777216) :
    (((tl + t + l + cur + 0x00080008 + 2 * (x + y)) >>> 3 + z) >>> 1).toNat
      = ((tl.toNat + t.toNat + l.toNat + cur.toNat + 524296 + 2 * (x.toNat + y.toNat)) / 8 + z.toNat) / 2 := by
  have e8 : (0x00080008 : UInt32).toNat = 524296 := by decide
  have s1 := add_small tl t (by omega)
  have s2 := add_small (tl + t) l (by omega)
  have s3 := add_small (tl + t + l) cur (by omega)
  have s4 := add_small (tl + t + l + cur) 0x00080008 (by omega)
  have s5 := add_small x y (by omega)
  have s6 := two_mul_small (x + y) (by omega)
  have s7 := add_small (tl + t + l + cur + 0x00080008) (2 * (x + y)) (by omega)
  have s8 := shr3 (tl + t + l + cur + 0x00080008 + 2 * (x + y))
  have s9 := add_small ((tl + t + l + cur + 0x00080008 + 2 * (x + y)) >>> 3) z (by omega)
  rw [shr1, s9, s8, s7, s6, s5, s4, s3, s2, s1, e8]

/-- lane extraction of one diamond output, on natural numbers: `a` weighs 9, `b c` weigh 3, `d` weighs 1 -/
theorem diag_lanes_nat (a a' b b' c c' d d' : Nat)
    (ha : a < 256) (ha' : a' < 256) (hb : b < 256) (hb' : b' < 256) (hc : c < 256) (hc' : c' < 256)
    (hd : d < 256) (hd' : d' < 256) :
    let A := a + 65536 * a'
    let B := b + 65536 * b'
    let C := c + 65536 * c'
    let D := d + 65536 * d'
    let w := ((A + B + C + D + 524296 + 2 * (B + C)) / 8 + A) / 2
    w % 256 = (9 * a + 3 * b + 3 * c + d + 8) / 16 ∧ w / 65536 % 256 = (9 * a' + 3 * b' + 3 * c' + d' + 8) / 16 := by
  simp only
  -- separate the lanes first: the U-lane sum stays below 2^16 at every step
  have e1 : (a + 65536 * a' + (b + 65536 * b') + (c + 65536 * c') + (d + 65536 * d') + 524296
        + 2 * (b + 65536 * b' + (c + 65536 * c'))) / 8
      = (a + 3 * b + 3 * c + d + 8) / 8 + 8192 * (a' + 3 * b' + 3 * c' + d' + 8) := by omega
  rw [e1]
  obtain ⟨q0, hq0⟩ : ∃ q0, q0 = (a + 3 * b + 3 * c + d + 8) / 8 := ⟨_, rfl⟩
  rw [← hq0]
  have hq0' : q0 ≤ 256 := by omega
  obtain ⟨K, hK⟩ : ∃ K, K = a' + 3 * b' + 3 * c' + d' + 8 := ⟨_, rfl⟩
  rw [← hK]
  have e2 : (q0 + 8192 * K + (a + 65536 * a')) / 2 = (q0 + a) / 2 + 4096 * (K + 8 * a') := by
    clear hq0 hK hb hb' hc hc' hd hd' e1
    omega
  rw [e2]
  have e3 : (q0 + a) / 2 = (9 * a + 3 * b + 3 * c + d + 8) / 16 := by omega
  rw [e3]
  have hq : (9 * a + 3 * b + 3 * c + d + 8) / 16 < 256 := by omega
  generalize (9 * a + 3 * b + 3 * c + d + 8) / 16 = q at hq ⊢
  have hy : K + 8 * a' = 9 * a' + 3 * b' + 3 * c' + d' + 8 := by omega
  rw [hy]
  obtain ⟨y, hy'⟩ : ∃ y, y = 9 * a' + 3 * b' + 3 * c' + d' + 8 := ⟨_, rfl⟩
  rw [← hy']
  have hk : y / 16 < 256 := by omega
  constructor
  · clear hy' hy e3 e2 hK hq0
    omega
  · have e4 : (q + 4096 * y) / 65536 = y / 16 := by
      clear hy' hy e3 e2 hK hq0
      omega
    rw [e4]; omega

/-- interior pixels: both lanes of all four outputs of the diamond kernel are the 9-3-3-1 formulas
    (`tl t / l cur` is the 2x2 chroma neighbourhood; output 1 is nearest to `tl`, 2 to `t`, 3 to `l`, 4 to `cur`) -/
theorem packedDiamond_lanes (tlu tlv tu tv lu lv cu cv : UInt8) :
    let d := packedDiamond (loadUV tlu tlv) (loadUV tu tv) (loadUV lu lv) (loadUV cu cv)
    lanes d.1 = (diamondRef tlu.toNat tu.toNat lu.toNat cu.toNat, diamondRef tlv.toNat tv.toNat lv.toNat cv.toNat) ∧
    lanes d.2.1 = (diamondRef tu.toNat tlu.toNat cu.toNat lu.toNat, diamondRef tv.toNat tlv.toNat cv.toNat lv.toNat) ∧
    lanes d.2.2.1 = (diamondRef lu.toNat tlu.toNat cu.toNat tu.toNat, diamondRef lv.toNat tlv.toNat cv.toNat tv.toNat) ∧
    lanes d.2.2.2 = (diamondRef cu.toNat tu.toNat lu.toNat tlu.toNat, diamondRef cv.toNat tv.toNat lv.toNat tlv.toNat) := by
  have a1 := tlu.toNat_lt; have a2 := tlv.toNat_lt; have a3 := tu.toNat_lt; have a4 := tv.toNat_lt
  have a5 := lu.toNat_lt; have a6 := lv.toNat_lt; have a7 := cu.toNat_lt; have a8 := cv.toNat_lt
  have b1 := loadUV_toNat tlu tlv; have b2 := loadUV_toNat tu tv
  have b3 := loadUV_toNat lu lv; have b4 := loadUV_toNat cu cv
  have c1 : (loadUV tlu tlv).toNat < 16777216 := by omega
  have c2 : (loadUV tu tv).toNat < 16777216 := by omega
  have c3 : (loadUV lu lv).toNat < 16777216 := by omega
  have c4 : (loadUV cu cv).toNat < 16777216 := by omega
  simp only [packedDiamond, diamondRef]
  refine ⟨?_, ?_, ?_, ?_⟩
  · have k := diag_lanes_nat tlu.toNat tlv.toNat tu.toNat tv.toNat lu.toNat lv.toNat cu.toNat cv.toNat
      (by omega) (by omega) (by omega) (by omega) (by omega) (by omega) (by omega) (by omega)
    simp only at k
    rw [lanes_toNat, diag_toNat _ _ _ _ _ _ _ c1 c2 c3 c4 c2 c3 c1, b1, b2, b3, b4]
    exact Prod.ext k.1 k.2
  · have k := diag_lanes_nat tu.toNat tv.toNat tlu.toNat tlv.toNat cu.toNat cv.toNat lu.toNat lv.toNat
      (by omega) (by omega) (by omega) (by omega) (by omega) (by omega) (by omega) (by omega)
    simp only at k
    rw [lanes_toNat, diag_toNat _ _ _ _ _ _ _ c1 c2 c3 c4 c1 c4 c2, b1, b2, b3, b4]
    have e : tlu.toNat + 65536 * tlv.toNat + (tu.toNat + 65536 * tv.toNat) + (lu.toNat + 65536 * lv.toNat)
          + (cu.toNat + 65536 * cv.toNat)
        = tu.toNat + 65536 * tv.toNat + (tlu.toNat + 65536 * tlv.toNat) + (cu.toNat + 65536 * cv.toNat)
          + (lu.toNat + 65536 * lv.toNat) := by omega
    rw [e]
    exact Prod.ext k.1 k.2
  · have k := diag_lanes_nat lu.toNat lv.toNat tlu.toNat tlv.toNat cu.toNat cv.toNat tu.toNat tv.toNat
      (by omega) (by omega) (by omega) (by omega) (by omega) (by omega) (by omega) (by omega)
    simp only at k
    rw [lanes_toNat, diag_toNat _ _ _ _ _ _ _ c1 c2 c3 c4 c1 c4 c3, b1, b2, b3, b4]
    have e : tlu.toNat + 65536 * tlv.toNat + (tu.toNat + 65536 * tv.toNat) + (lu.toNat + 65536 * lv.toNat)
          + (cu.toNat + 65536 * cv.toNat)
        = lu.toNat + 65536 * lv.toNat + (tlu.toNat + 65536 * tlv.toNat) + (cu.toNat + 65536 * cv.toNat)
          + (tu.toNat + 65536 * tv.toNat) := by omega
    rw [e]
    exact Prod.ext k.1 k.2
  · have k := diag_lanes_nat cu.toNat cv.toNat tu.toNat tv.toNat lu.toNat lv.toNat tlu.toNat tlv.toNat
      (by omega) (by omega) (by omega) (by omega) (by omega) (by omega) (by omega) (by omega)
    simp only at k
    rw [lanes_toNat, diag_toNat _ _ _ _ _ _ _ c1 c2 c3 c4 c2 c3 c4, b1, b2, b3, b4]
    have e : tlu.toNat + 65536 * tlv.toNat + (tu.toNat + 65536 * tv.toNat) + (lu.toNat + 65536 * lv.toNat)
          + (cu.toNat + 65536 * cv.toNat)
        = cu.toNat + 65536 * cv.toNat + (tu.toNat + 65536 * tv.toNat) + (lu.toNat + 65536 * lv.toNat)
          + (tlu.toNat + 65536 * tlv.toNat) := by omega
    rw [e]
    exact Prod.ext k.1 k.2

end Webp.Proofs.VP8Upsample
