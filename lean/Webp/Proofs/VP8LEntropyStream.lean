import Webp.Proofs.VP8LEntropyTokens
import Webp.Proofs.VP8LEntropyWriter
/-
  T2 / T3: whole entropy-coded images and whole VP8L streams.

  `encodeEntropyImage` / `encodeStream` (the plan-parametrised transcription of encode.go
  `encodeStream`, `encodeSubImage`, `storeImageData`, `StoreHuffmanCode`) are read back by the
  SPECIFICATION decoder `readEntropyCodedImage` / `decodeStream` / `decode`.
-/
namespace Webp.Proofs.VP8LEntropyStream
open Webp.Go (Res)
open Webp.Spec.VP8L
open Webp.Impl.VP8LEntropy
open Webp.Impl.LTransform (prefixEncode distanceToPlaneCode)
open Webp.Proofs.VP8LEntropyBits Webp.Proofs.VP8LEntropyRev Webp.Proofs.VP8LEntropyCanon
open Webp.Proofs.VP8LEntropyPrefix Webp.Proofs.VP8LEntropyCodeLengths Webp.Proofs.VP8LEntropyTokens

/-! ## one prefix code -/

/-- `SymRoundtrip` (the open hypothesis of `storeHuffmanCode_roundtrip`) is `prefix_roundtrip` for the
    code-length code -/
theorem symRoundtrip_of_buildCode {cl : Array Nat} {c : Code} (h : buildCode cl = .ok c) : SymRoundtrip cl c := by
  intro s br rest hs hpos hb
  exact prefix_roundtrip h s hs (by omega) br rest hb

/-- what the plan may contain for one of the five codes of an alphabet of `n` symbols -/
def VecValid (n : Nat) (lens cl : Array Nat) : Prop :=
  lens.size = n ∧ (∀ l ∈ lens, l ≤ 15) ∧ LensOK lens ∧
  (¬ IsSimple lens → cl.size = 19 ∧ (∀ l ∈ cl, l ≤ 7) ∧ (∃ c, buildCode cl = .ok c) ∧
    ∀ t ∈ (buildCodeLengthTokens lens).toList, 0 < cl.getD t.code 0)

/-- `StoreHuffmanCode` is read back by `readCode` as the code of the normalised vector -/
theorem readCode_roundtrip (n : Nat) (hn0 : 0 < n) (hn : n ≤ 65539) (lens cl : Array Nat)
    (hv : VecValid n lens cl) (br : BitReader) (rest : List Bool)
    (hb : restBits br = callsBits (storeHuffmanCode lens cl) ++ rest) :
    ∃ code br', readCode n br = .ok (code, br') ∧ VecCode lens code ∧ restBits br' = rest ∧
      br'.data = br.data := by
  obtain ⟨hsz, h15, hok, hfull⟩ := hv
  obtain ⟨code, hcode⟩ := normLens_buildCode lens hok (by omega)
  have hvec : ∃ br', readCodeLengthVector n br = .ok (normLens lens, br') ∧ restBits br' = rest ∧
      br'.data = br.data := by
    by_cases hs : IsSimple lens
    · exact ⟨_, storeHuffmanCode_roundtrip_simple lens cl n hsz hn0 hs br rest hb, adv_rest hb⟩
    · obtain ⟨f1, f2, ⟨c, f3⟩, f4⟩ := hfull hs
      exact storeHuffmanCode_roundtrip_rest lens cl c n hsz hn0 h15 hn
        (fun _ => ⟨f1, f2, f3, symRoundtrip_of_buildCode f3, f4⟩) br rest hb
  obtain ⟨br', r1, b1, d1⟩ := hvec
  refine ⟨code, br', ?_, ⟨hok, hcode⟩, b1, d1⟩
  unfold readCode
  rw [r1]
  simp only [Webp.Go.Res.bind_ok]
  rw [hcode]
  rfl

/-! ## T2: one entropy-coded image -/

/-- alphabet sizes of the five codes -/
def alphabetSize (cb : Nat) : Nat → Nat
  | 0 => greenAlphabetSize cb
  | 4 => numDistanceCodes
  | _ => 256

/-- the specification tokens of a plan -/
def planTokens (p : ImagePlan) : List Token := p.refs.map refToken

/-- the pixels the plan's tokens produce (reference loop of the specification over the token list) -/
def planPixels (cb : Nat) (p : ImagePlan) : Array UInt32 :=
  match refDecode listSource (fun _ => 0) p.width p.height cb (planTokens p) with
  | .ok (px, _) => px
  | _ => #[]

/-- **validity of an image plan** (everything is decidable: `LensOK`, `IsSimple`, `∃ c, buildCode … = .ok c`
    are finite computations) -/
structure ImageValid (cb : Nat) (p : ImagePlan) : Prop where
  width_pos : 0 < p.width
  cache : cb = 0 ∨ (1 ≤ cb ∧ cb ≤ 11)
  lens5_len : p.lens5.length = 5
  cl5_len : p.cl5.length = 5
  /-- sizes, lengths ≤ 15, all-zero or accepted by `buildCode`; for non-simple vectors the
      code-length code -/
  vecs : ∀ i, i < 5 → VecValid (alphabetSize cb i) (p.lens5.getD i #[]) (p.cl5.getD i #[])
  /-- every token can be expressed with the five trees -/
  tokens : ∀ t ∈ planTokens p, TokenValid p.width (p.lens5.getD 0 #[]) (p.lens5.getD 1 #[])
    (p.lens5.getD 2 #[]) (p.lens5.getD 3 #[]) (p.lens5.getD 4 #[]) t
  /-- the tokens produce exactly `width * height` pixels and none is left over -/
  exec : refDecode listSource (fun _ => 0) p.width p.height cb (planTokens p) = .ok (planPixels cb p, [])

theorem list5 {α : Type} (l : List α) (h : l.length = 5) : ∃ a b c d e, l = [a, b, c, d, e] := by
  match l, h with
  | [a, b, c, d, e], _ => exact ⟨a, b, c, d, e, rfl⟩

theorem colorCacheInfo_roundtrip (cb : Nat) (hcb : cb = 0 ∨ (1 ≤ cb ∧ cb ≤ 11)) (br : BitReader)
    (rest : List Bool) (hb : restBits br = callsBits (storeColorCacheInfo cb) ++ rest) :
    ∃ br', readColorCacheInfo br = .ok (cb, br') ∧ restBits br' = rest ∧ br'.data = br.data := by
  unfold storeColorCacheInfo at hb
  unfold readColorCacheInfo
  rcases hcb with h0 | ⟨h1, h2⟩
  · subst h0
    simp only [Nat.lt_irrefl, gt_iff_lt, if_false, VP8LEntropyCodeLengths.callsBits_cons, callsBits_nil,
      List.append_nil] at hb
    obtain ⟨r1, b1⟩ := readBits_bitsLE (by omega) hb
    rw [r1]
    exact ⟨_, rfl, b1, rfl⟩
  · rw [if_pos (by omega)] at hb
    simp only [VP8LEntropyCodeLengths.callsBits_cons, callsBits_nil, List.append_nil, List.append_assoc] at hb
    obtain ⟨r1, b1⟩ := readBits_bitsLE (by omega) hb
    obtain ⟨r2, b2⟩ := readBits_bitsLE (show cb < 2 ^ 4 by omega) b1
    rw [r1]
    simp only [Webp.Go.Res.bind_ok, if_true]
    rw [r2]
    simp only [Webp.Go.Res.bind_ok]
    rw [if_neg (by omega)]
    exact ⟨_, rfl, b2, rfl⟩

theorem greenAlphabetSize_bounds (cb : Nat) (hcb : cb = 0 ∨ (1 ≤ cb ∧ cb ≤ 11)) :
    0 < greenAlphabetSize cb ∧ greenAlphabetSize cb ≤ 65539 := by
  unfold greenAlphabetSize numLiteralCodes numLengthCodes
  rcases hcb with h0 | ⟨h1, h2⟩
  · subst h0; simp
  · rw [if_neg (by omega), Nat.shiftLeft_eq, Nat.one_mul]
    have : 2 ^ cb ≤ 2 ^ 11 := Nat.pow_le_pow_right (by decide) h2
    have h2p : 0 < 2 ^ cb := Nat.two_pow_pos cb
    omega

/-- the five codes: `StoreHuffmanCode` ×5 is read back by `readGroup` as the decoder's group -/
theorem group_roundtrip (cb : Nat) (hcb : cb = 0 ∨ (1 ≤ cb ∧ cb ≤ 11)) (g r b a d cg cr cb' ca cd : Array Nat)
    (vg : VecValid (alphabetSize cb 0) g cg) (vr : VecValid (alphabetSize cb 1) r cr)
    (vb : VecValid (alphabetSize cb 2) b cb') (va : VecValid (alphabetSize cb 3) a ca)
    (vd : VecValid (alphabetSize cb 4) d cd) (br : BitReader) (rest : List Bool)
    (hb : restBits br = callsBits (([g, r, b, a, d].zip [cg, cr, cb', ca, cd]).flatMap
      (fun lc => storeHuffmanCode lc.1 lc.2)) ++ rest) :
    ∃ grp br', readGroup cb br = .ok (grp, br') ∧ GroupFor g r b a d grp ∧ restBits br' = rest ∧
      br'.data = br.data := by
  simp only [List.zip_cons_cons, List.zip_nil_right, List.flatMap_cons, List.flatMap_nil, List.append_nil,
    VP8LEntropyCodeLengths.callsBits_append, List.append_assoc] at hb
  obtain ⟨gp, gl⟩ := greenAlphabetSize_bounds cb hcb
  obtain ⟨c1, br1, r1, v1, b1, d1⟩ := readCode_roundtrip _ gp gl g cg vg br _ hb
  obtain ⟨c2, br2, r2, v2, b2, d2⟩ := readCode_roundtrip 256 (by omega) (by omega) r cr vr br1 _ b1
  obtain ⟨c3, br3, r3, v3, b3, d3⟩ := readCode_roundtrip 256 (by omega) (by omega) b cb' vb br2 _ b2
  obtain ⟨c4, br4, r4, v4, b4, d4⟩ := readCode_roundtrip 256 (by omega) (by omega) a ca va br3 _ b3
  obtain ⟨c5, br5, r5, v5, b5, d5⟩ := readCode_roundtrip numDistanceCodes (by decide) (by decide) d cd vd br4 _ b4
  refine ⟨{ green := c1, red := c2, blue := c3, alpha := c4, dist := c5 }, br5, ?_, ⟨v1, v2, v3, v4, v5⟩, b5,
    by rw [d5, d4, d3, d2, d1]⟩
  unfold readGroup
  rw [r1]
  simp only [Webp.Go.Res.bind_ok]
  rw [r2]
  simp only [Webp.Go.Res.bind_ok]
  rw [r3]
  simp only [Webp.Go.Res.bind_ok]
  rw [r4]
  simp only [Webp.Go.Res.bind_ok]
  rw [r5]
  rfl

/-- codes and pixels (everything after the colour-cache info) -/
theorem imageBody_roundtrip (cb : Nat) (p : ImagePlan) (hv : ImageValid cb p) (br : BitReader)
    (rest : List Bool) (hb : restBits br = callsBits (encodeImageBody p) ++ rest) :
    ∃ grp br1 br', readGroup cb br = .ok (grp, br1) ∧ br1.data = br.data ∧
      decodePixels { width := p.width, height := p.height, cacheBits := cb, groups := #[grp] } br1 =
        .ok (planPixels cb p, br') ∧ restBits br' = rest ∧ br'.data = br.data := by
  obtain ⟨hw, hcb, l5, c5, vecs, toks, exec⟩ := hv
  obtain ⟨g, r, b, a, d, hl⟩ := list5 _ l5
  obtain ⟨cg, cr, cb', ca, cd, hc⟩ := list5 _ c5
  have v0 := vecs 0 (by omega)
  have v1 := vecs 1 (by omega)
  have v2 := vecs 2 (by omega)
  have v3 := vecs 3 (by omega)
  have v4 := vecs 4 (by omega)
  unfold encodeImageBody at hb
  rw [hl, hc] at hb
  rw [hl] at toks
  rw [hl, hc] at v0 v1 v2 v3 v4
  simp only [List.getD_cons_zero, List.getD_cons_succ] at v0 v1 v2 v3 v4 toks
  rw [VP8LEntropyCodeLengths.callsBits_append, List.append_assoc] at hb
  obtain ⟨grp, br1, r1, hg, b1, d1⟩ := group_roundtrip cb hcb g r b a d cg cr cb' ca cd v0 v1 v2 v3 v4 br _ hb
  have b1' : restBits br1 = callsBits (storeImageData (locality2D p.width ((planTokens p).map tokenRef)) #[0]
      #[treesOf g r b a d] p.width 0) ++ rest := by
    rw [b1]
    have : (planTokens p).map tokenRef = p.refs := by
      unfold planTokens
      rw [List.map_map]
      conv => rhs; rw [← List.map_id p.refs]
      apply List.map_congr_left
      intro v _; simp
    rw [this]
    rfl
  obtain ⟨br', r2, b2, d2⟩ := tokens_roundtrip (h := p.height) (cb := cb) hw hg (planTokens p) toks br1 rest
    (planPixels cb p) b1' exec
  exact ⟨grp, br1, br', r1, d1, r2, b2, by rw [d2, d1]⟩

/-- **T2** `entropyImage_roundtrip`: colour-cache info, the five prefix codes (simple or normal, with
    the code-length code and `max_symbol` trimming) and the pixel data of a valid plan are read back
    by the specification's `readEntropyCodedImage`; the reader stops right behind the image. -/
theorem entropyImage_roundtrip (cb : Nat) (p : ImagePlan) (hv : ImageValid cb p) (br : BitReader)
    (rest : List Bool) (hb : restBits br = callsBits (encodeEntropyImage cb p) ++ rest) :
    ∃ br', readEntropyCodedImage p.width p.height br = .ok (planPixels cb p, br') ∧ restBits br' = rest ∧
      br'.data = br.data := by
  unfold encodeEntropyImage at hb
  rw [VP8LEntropyCodeLengths.callsBits_append, List.append_assoc] at hb
  obtain ⟨br0, r0, b0, d0⟩ := colorCacheInfo_roundtrip cb hv.cache br _ hb
  obtain ⟨grp, br1, br', r1, d1, r2, b2, d2⟩ := imageBody_roundtrip cb p hv br0 rest b0
  refine ⟨br', ?_, b2, by rw [d2, d0]⟩
  unfold readEntropyCodedImage
  rw [r0]
  simp only [Webp.Go.Res.bind_ok]
  rw [r1]
  simp only [Webp.Go.Res.bind_ok]
  exact r2

theorem encodeSubImage_eq (p : ImagePlan) : encodeSubImage p = encodeEntropyImage 0 p := rfl

/-! ## every `WriteBits` call of the emitter is well-formed (`nBits ≤ 32`, `v < 2^nBits`) -/

/-- the hypothesis of `writer_bits` -/
def CallsOK (cs : List Call) : Prop := ∀ c ∈ cs, c.2 ≤ 32 ∧ c.1 < 2 ^ c.2

theorem CallsOK.nil : CallsOK [] := fun _ h => by cases h

theorem CallsOK.cons {v n : Nat} {cs : List Call} (h1 : n ≤ 32 ∧ v < 2 ^ n) (h2 : CallsOK cs) :
    CallsOK ((v, n) :: cs) := by
  intro c hc
  rcases List.mem_cons.mp hc with rfl | hc
  · exact h1
  · exact h2 c hc

theorem CallsOK.append {a b : List Call} (h1 : CallsOK a) (h2 : CallsOK b) : CallsOK (a ++ b) := by
  intro c hc
  rcases List.mem_append.mp hc with hc | hc
  · exact h1 c hc
  · exact h2 c hc

theorem CallsOK.flatMap {α : Type} (l : List α) (f : α → List Call) (h : ∀ x ∈ l, CallsOK (f x)) :
    CallsOK (l.flatMap f) := by
  intro c hc
  obtain ⟨x, hx, hcx⟩ := List.mem_flatMap.mp hc
  exact h x hx c hcx

/-- every entry of a (possibly cleared) tree is a code of at most 15 bits that fits its length -/
theorem tree_entry_ok (lens : Array Nat) (h15 : ∀ x ∈ lens, x ≤ 15) (s : Nat) :
    (effTree lens).lens.getD s 0 ≤ 15 ∧ (effTree lens).codes.getD s 0 < 2 ^ (effTree lens).lens.getD s 0 := by
  unfold effTree HuffTree.clearIfOne HuffTree.ofLens
  simp only
  split
  · have hle : lens.getD s 0 ≤ 15 := by
      by_cases hs : s < lens.size
      · rw [getD_eq_getElem lens s hs]; exact h15 _ (Array.getElem_mem hs)
      · simp only [Array.getD_eq_getD_getElem?]
        rw [Array.getElem?_eq_none (by omega)]; simp
    refine ⟨hle, ?_⟩
    obtain ⟨_, c2, c3⟩ := canonicalCodes_spec lens h15
    by_cases h0 : lens.getD s 0 = 0
    · rw [c3 s h0, h0]; decide
    · rw [c2 s (getD_ne_zero_lt h0) h0]; exact rev_lt _ _
  · rw [replicate_getD, replicate_getD]; decide

theorem writeHuffmanCode_ok (lens : Array Nat) (h15 : ∀ x ∈ lens, x ≤ 15) (s : Nat) :
    CallsOK (writeHuffmanCode (effTree lens) s) := by
  unfold writeHuffmanCode
  split
  · exact CallsOK.nil
  · obtain ⟨h1, h2⟩ := tree_entry_ok lens h15 s
    exact CallsOK.cons ⟨by omega, h2⟩ CallsOK.nil

theorem extra_ok (v : Nat) (hv : 1 ≤ v) (hs : (prefixEncode v).1 < 40) :
    CallsOK (if (prefixEncode v).2.1 > 0 then [((prefixEncode v).2.2, (prefixEncode v).2.1)] else []) := by
  obtain ⟨_, h2, h3⟩ := Webp.Props.C01.prefixValue_roundtrip v hv
  split
  · refine CallsOK.cons ⟨?_, h3⟩ CallsOK.nil
    rw [← h2]
    unfold Webp.Spec.LTransform.prefixExtraBits
    split
    · omega
    · rw [Nat.shiftRight_eq_div_pow]; omega
  · exact CallsOK.nil

theorem emitRef_ok {w : Nat} (hw : 1 ≤ w) {g r b a d : Array Nat} (hg : ∀ x ∈ g, x ≤ 15) (hr : ∀ x ∈ r, x ≤ 15)
    (hbl : ∀ x ∈ b, x ≤ 15) (ha : ∀ x ∈ a, x ≤ 15) (hd : ∀ x ∈ d, x ≤ 15) (t : Token)
    (hv : TokenValid w g r b a d t) : CallsOK (emitRef (treesOf g r b a d) (tokenRef' w t)) := by
  have t0 : (treesOf g r b a d).getD 0 default = effTree g := rfl
  have t1 : (treesOf g r b a d).getD 1 default = effTree r := rfl
  have t2 : (treesOf g r b a d).getD 2 default = effTree b := rfl
  have t3 : (treesOf g r b a d).getD 3 default = effTree a := rfl
  have t4 : (treesOf g r b a d).getD 4 default = effTree d := rfl
  cases t with
  | literal argb =>
    simp only [tokenRef', tokenRef, loc1, emitRef, t0, t1, t2, t3]
    exact ((writeHuffmanCode_ok g hg _).append (writeHuffmanCode_ok r hr _)).append
      (writeHuffmanCode_ok b hbl _) |>.append (writeHuffmanCode_ok a ha _)
  | cache idx =>
    simp only [tokenRef', tokenRef, loc1, emitRef, t0]
    exact writeHuffmanCode_ok g hg _
  | copy len dist =>
    obtain ⟨hl1, hl2, hd1, hd2, _, _⟩ := hv
    obtain ⟨hp1, _⟩ := planeCode_read w dist hw hd1
    have hlen := (Webp.Props.C01.prefixValue_symbol_bounds len hl1).2 hl2
    have hdist := (Webp.Props.C01.prefixValue_symbol_bounds _ hp1).1 hd2
    simp only [tokenRef', tokenRef, loc1, emitRef_copy, t0, t4]
    exact (((writeHuffmanCode_ok g hg _).append (extra_ok len hl1 (by omega))).append
      (writeHuffmanCode_ok d hd _)).append (extra_ok _ hp1 hdist)

theorem storeSimple_ok (n s0 s1 : Nat) (h0 : s0 < 256) (h1 : s1 < 256) :
    CallsOK (storeSimpleHuffmanCode n s0 s1) := by
  unfold storeSimpleHuffmanCode
  have c1 : ∀ {cs}, CallsOK cs → CallsOK ((1, 1) :: cs) := fun h => CallsOK.cons ⟨by omega, by omega⟩ h
  have c0 : ∀ {cs}, CallsOK cs → CallsOK ((0, 1) :: cs) := fun h => CallsOK.cons ⟨by omega, by omega⟩ h
  have two : ∀ a b, a < 256 → b < 256 →
      CallsOK ((if a ≤ 1 then [(1, 1), (1, 1), (0, 1), (a, 1)] else [(1, 1), (1, 1), (1, 1), (a, 8)]) ++ [(b, 8)]) := by
    intro a b ha hb
    apply CallsOK.append
    · split
      · exact c1 (c1 (c0 (CallsOK.cons ⟨by omega, by omega⟩ CallsOK.nil)))
      · exact c1 (c1 (c1 (CallsOK.cons ⟨by omega, by omega⟩ CallsOK.nil)))
    · exact CallsOK.cons ⟨by omega, by omega⟩ CallsOK.nil
  split
  · exact c1 (c0 (c0 (c0 CallsOK.nil)))
  · split
    · split
      · exact c1 (c0 (c0 (CallsOK.cons ⟨by omega, by omega⟩ CallsOK.nil)))
      · exact c1 (c0 (c1 (CallsOK.cons ⟨by omega, by omega⟩ CallsOK.nil)))
    · by_cases hgt : s0 > s1
      · simp only [hgt, if_true]; exact two s1 s0 h1 h0
      · simp only [hgt, if_false]; exact two s0 s1 h0 h1

theorem getD_le_of_all (a : Array Nat) (k : Nat) (h : ∀ l ∈ a, l ≤ k) (j : Nat) : a.getD j 0 ≤ k := by
  by_cases hj : j < a.size
  · rw [getD_eq_getElem a j hj]; exact h _ (Array.getElem_mem hj)
  · simp only [Array.getD_eq_getD_getElem?]
    rw [Array.getElem?_eq_none (by omega)]; simp

theorem storeTreeOfTree_ok (cl : Array Nat) (h7 : ∀ l ∈ cl, l ≤ 7) : CallsOK (storeTreeOfTree cl) := by
  unfold storeTreeOfTree
  obtain ⟨h4, h19, _⟩ := numCodesLoop_spec cl 15 18 (by omega) (by omega)
  simp only
  apply CallsOK.cons ⟨by omega, by omega⟩
  intro c hc
  obtain ⟨i, _, rfl⟩ := List.mem_map.mp hc
  have := getD_le_of_all cl 7 h7 (Webp.Impl.VP8LEntropy.codeLengthCodeOrder.getD i 0)
  exact ⟨by omega, by simp only; omega⟩

theorem lenCallsTrim_ok (tl : Nat) (h2 : 2 ≤ tl) (hmax : tl ≤ 65537) : CallsOK (lenCallsTrim tl) := by
  unfold lenCallsTrim
  split
  · exact CallsOK.cons ⟨by omega, by omega⟩ (CallsOK.cons ⟨by omega, by omega⟩ CallsOK.nil)
  · have hx : tl - 2 ≠ 0 := by omega
    have hlog : Nat.log2 (tl - 2) < 16 := (Nat.log2_lt hx).2 (by omega)
    have hlt : tl - 2 < 2 ^ (Nat.log2 (tl - 2) + 1) := Nat.lt_log2_self
    unfold Webp.Impl.LTransform.bitsLog2Floor
    generalize Nat.log2 (tl - 2) = nb at *
    have hpow : tl - 2 < 2 ^ ((nb / 2 + 1) * 2) :=
      Nat.lt_of_lt_of_le hlt (Nat.pow_le_pow_right (by omega) (by omega))
    simp only
    exact CallsOK.cons ⟨by omega, by omega⟩ (CallsOK.cons ⟨by omega, by omega⟩
      (CallsOK.cons ⟨by omega, hpow⟩ CallsOK.nil))

theorem storeTokens_ok (cl : Array Nat) (h15 : ∀ x ∈ cl, x ≤ 15) (toks : List CLToken)
    (hok : ∀ t ∈ toks, TokOK t) : CallsOK (storeTokens toks (clTreeOf cl)) := by
  unfold storeTokens
  apply CallsOK.flatMap
  intro t ht
  obtain ⟨e1, e2⟩ := tree_entry_ok cl h15 t.code
  obtain ⟨k1, k2, k3, k4⟩ := hok t ht
  apply CallsOK.cons ⟨by exact Nat.le_trans e1 (by omega), e2⟩
  split
  · apply CallsOK.cons _ CallsOK.nil
    by_cases h16 : t.code = 16
    · rw [if_pos h16]; exact ⟨by omega, by have := k2 h16; omega⟩
    · rw [if_neg h16]
      by_cases h17 : t.code = 17
      · rw [if_pos h17]; exact ⟨by omega, by have := k3 h17; omega⟩
      · rw [if_neg h17]; exact ⟨by omega, by have := k4 (by omega); omega⟩
  · exact CallsOK.nil

theorem storeFull_ok (lens cl : Array Nat) (h15 : ∀ l ∈ lens, l ≤ 15) (hn : lens.size ≤ 65539)
    (h7 : ∀ l ∈ cl, l ≤ 7) : CallsOK (storeFullHuffmanCode lens cl) := by
  rw [storeFull_eq]
  simp only
  have hcl15 : ∀ x ∈ cl, x ≤ 15 := fun x hx => Nat.le_trans (h7 x hx) (by omega)
  have htoks := tokens_ok lens h15
  apply CallsOK.cons ⟨by omega, by omega⟩
  apply CallsOK.append
  · apply CallsOK.append (storeTreeOfTree_ok cl h7)
    split
    · rename_i hc
      have := trimmed_add_two_le lens cl h15 h7 hc.2
      exact lenCallsTrim_ok _ (by omega) (by omega)
    · exact CallsOK.cons ⟨by omega, by omega⟩ CallsOK.nil
  · apply storeTokens_ok cl hcl15
    intro t ht
    exact htoks t (List.mem_of_mem_take ht)

theorem storeHuffmanCode_ok (lens cl : Array Nat) (h15 : ∀ l ∈ lens, l ≤ 15) (hn : lens.size ≤ 65539)
    (h7 : ¬ IsSimple lens → ∀ l ∈ cl, l ≤ 7) : CallsOK (storeHuffmanCode lens cl) := by
  rw [storeHuffmanCode_eq]
  have hfull : ¬ IsSimple lens → CallsOK (storeFullHuffmanCode lens cl) :=
    fun h => storeFull_ok lens cl h15 hn (h7 h)
  unfold IsSimple at hfull
  generalize usedList lens = U at *
  match U with
  | [] => exact storeSimple_ok 0 0 0 (by omega) (by omega)
  | [a] =>
    simp only
    split
    · exact storeSimple_ok 1 a 0 (by omega) (by omega)
    · rename_i h
      exact hfull (by simp [h])
  | [a, b] =>
    simp only
    split
    · rename_i h
      exact storeSimple_ok 2 a b h.1 h.2
    · rename_i h
      apply hfull
      simp only [List.mem_cons, List.not_mem_nil, or_false]
      intro hh
      rcases hh with hh | hh
      · cases hh
      · exact h ⟨hh.2 a (Or.inl rfl), hh.2 b (Or.inr rfl)⟩
  | a :: b :: c :: t =>
    simp only
    apply hfull
    intro hh
    rcases hh with hh | hh
    · cases hh
    · have := hh.1; simp at this

/-- all calls of a valid image are well-formed -/
theorem imageBody_ok (cb : Nat) (p : ImagePlan) (hv : ImageValid cb p) : CallsOK (encodeImageBody p) := by
  obtain ⟨hw, hcb, l5, c5, vecs, toks, _⟩ := hv
  obtain ⟨g, r, b, a, d, hl⟩ := list5 _ l5
  obtain ⟨cg, cr, cb', ca, cd, hc⟩ := list5 _ c5
  have v0 := vecs 0 (by omega)
  have v1 := vecs 1 (by omega)
  have v2 := vecs 2 (by omega)
  have v3 := vecs 3 (by omega)
  have v4 := vecs 4 (by omega)
  unfold encodeImageBody
  rw [hl, hc]
  rw [hl] at toks
  rw [hl, hc] at v0 v1 v2 v3 v4
  simp only [List.getD_cons_zero, List.getD_cons_succ] at v0 v1 v2 v3 v4 toks
  obtain ⟨gp, gl⟩ := greenAlphabetSize_bounds cb hcb
  have one : ∀ {n lens cl}, VecValid n lens cl → n ≤ 65539 → CallsOK (storeHuffmanCode lens cl) := by
    intro n lens cl hv hn
    obtain ⟨hsz, h15, _, hfull⟩ := hv
    exact storeHuffmanCode_ok lens cl h15 (by omega) (fun h => (hfull h).2.1)
  apply CallsOK.append
  · simp only [List.zip_cons_cons, List.zip_nil_right, List.flatMap_cons, List.flatMap_nil, List.append_nil]
    have k256 : (256 : Nat) ≤ 65539 := by omega
    have k40 : numDistanceCodes ≤ 65539 := by decide
    exact (one v0 gl).append ((one v1 k256).append ((one v2 k256).append
      ((one v3 k256).append (one v4 k40))))
  · have e : (List.map effTree [g, r, b, a, d]).toArray = treesOf g r b a d := rfl
    rw [e, storeImageData_refs]
    apply CallsOK.flatMap
    intro t ht
    exact emitRef_ok hw v0.2.1 v1.2.1 v2.2.1 v3.2.1 v4.2.1 t (toks t ht)

theorem colorCacheInfo_ok (cb : Nat) (hcb : cb = 0 ∨ (1 ≤ cb ∧ cb ≤ 11)) : CallsOK (storeColorCacheInfo cb) := by
  unfold storeColorCacheInfo
  split
  · exact CallsOK.cons ⟨by omega, by omega⟩ (CallsOK.cons ⟨by omega, by omega⟩ CallsOK.nil)
  · exact CallsOK.cons ⟨by omega, by omega⟩ CallsOK.nil

theorem entropyImage_ok (cb : Nat) (p : ImagePlan) (hv : ImageValid cb p) : CallsOK (encodeEntropyImage cb p) :=
  (colorCacheInfo_ok cb hv.cache).append (imageBody_ok cb p hv)

theorem restBits_bytes (cs : List Call) (h : CallsOK cs) :
    ∃ pad, pad < 8 ∧ restBits { data := ByteArray.mk (runCalls cs).finish } = callsBits cs ++ List.replicate pad false := by
  obtain ⟨pad, hp, e⟩ := VP8LEntropyWriter.writer_bits cs h
  refine ⟨pad, hp, ?_⟩
  rw [VP8LEntropyWriter.restBits_mk]
  show List.drop 0 (bytesToBits (runCalls cs).finish.toList) = _
  rw [e]; rfl

/-- **T2, bytes**: run the emitter's calls through the bit writer (`WriteBits`… `Finish`), read the
    bytes with the specification's decoder from position 0: the plan's pixels come back and only the
    (fewer than 8) zero padding bits of `Finish` are left. -/
theorem entropyImage_roundtrip_bytes (cb : Nat) (p : ImagePlan) (hv : ImageValid cb p) :
    ∃ br' pad, readEntropyCodedImage p.width p.height
        { data := ByteArray.mk (runCalls (encodeEntropyImage cb p)).finish } = .ok (planPixels cb p, br') ∧
      br'.data = ByteArray.mk (runCalls (encodeEntropyImage cb p)).finish ∧
      pad < 8 ∧ restBits br' = List.replicate pad false := by
  obtain ⟨pad, hp, hb⟩ := restBits_bytes _ (entropyImage_ok cb p hv)
  obtain ⟨br', r, b, d⟩ := entropyImage_roundtrip cb p hv _ _ hb
  exact ⟨br', pad, r, d, hp, b⟩

/-! ## T3: transforms -/

/-- the transform type as written in the 2-bit field -/
def xfKind : XfPlan → Nat
  | .predictor .. => 0
  | .crossColor .. => 1
  | .subtractGreen => 2
  | .colorIndexing .. => 3

/-- width of the image that follows the transform in the stream -/
def xfWidthAfter (w : Nat) : XfPlan → Nat
  | .colorIndexing n _ => packedWidth w n
  | _ => w

/-- what the decoder reconstructs: the data sub-image's pixels are the predictor modes / the
    cross-colour elements; the palette is the delta-decoded sub-image -/
def xfDecoded : XfPlan → Transform
  | .predictor bits data => .predictor bits (planPixels 0 data)
  | .crossColor bits data => .crossColor bits (planPixels 0 data)
  | .subtractGreen => .subtractGreen
  | .colorIndexing _ data => .colorIndexing (deltaDecodePalette (planPixels 0 data))

/-- validity of one transform for a current image of `w × h` -/
def XfValid (w h : Nat) : XfPlan → Prop
  | .predictor bits data => 2 ≤ bits ∧ bits ≤ 9 ∧ data.width = subSampleSize w bits ∧
      data.height = subSampleSize h bits ∧ ImageValid 0 data
  | .crossColor bits data => 2 ≤ bits ∧ bits ≤ 9 ∧ data.width = subSampleSize w bits ∧
      data.height = subSampleSize h bits ∧ ImageValid 0 data
  | .subtractGreen => True
  | .colorIndexing n data => 1 ≤ n ∧ n ≤ 256 ∧ data.width = n ∧ data.height = 1 ∧ ImageValid 0 data

/-- validity of the transform list, with the width bookkeeping -/
def xfsValid (h : Nat) : Nat → List XfPlan → Prop
  | _, [] => True
  | w, t :: ts => XfValid w h t ∧ xfsValid h (xfWidthAfter w t) ts

/-- width of the main (transformed) image -/
def xfsWidth : Nat → List XfPlan → Nat
  | w, [] => w
  | w, t :: ts => xfsWidth (xfWidthAfter w t) ts

/-- the decoder's transform list: each transform with the width of the image it produces when inverted -/
def xfsDecoded : Nat → List XfPlan → List (Transform × Nat)
  | _, [] => []
  | w, t :: ts => (xfDecoded t, w) :: xfsDecoded (xfWidthAfter w t) ts

theorem kind_xfDecoded (t : XfPlan) : (xfDecoded t).kind = xfKind t := by cases t <;> rfl

theorem xfKind_lt (t : XfPlan) : xfKind t < 4 := by cases t <;> simp [xfKind]

theorem bind_ok' {ε α β : Type} (a : α) (f : α → Res ε β) : (Res.ok a >>= f) = f a := rfl

/-- one transform: presence bit, type, data -/
theorem transform_roundtrip (w h : Nat) (t : XfPlan) (hv : XfValid w h t) (br : BitReader) (rest : List Bool)
    (hb : restBits br = callsBits (writeTransform t) ++ rest) :
    ∃ br1 br2 br', br.readBits 1 = .ok (1, br1) ∧ br1.readBits 2 = .ok (xfKind t, br2) ∧
      readTransformData (xfKind t) w h br2 = .ok (xfDecoded t, xfWidthAfter w t, br') ∧
      restBits br' = rest ∧ br'.data = br.data := by
  cases t with
  | predictor bits data =>
    obtain ⟨h2, h9, hw, hh, hi⟩ := hv
    simp only [writeTransform, VP8LEntropyCodeLengths.callsBits_cons, List.append_assoc] at hb
    obtain ⟨r1, b1⟩ := readBits_bitsLE (by omega) hb
    obtain ⟨r2, b2⟩ := readBits_bitsLE (by omega) b1
    obtain ⟨r3, b3⟩ := readBits_bitsLE (show bits - 2 < 2 ^ 3 by omega) b2
    rw [encodeSubImage_eq] at b3
    obtain ⟨br', r4, b4, d4⟩ := entropyImage_roundtrip 0 data hi _ rest b3
    refine ⟨_, _, br', r1, r2, ?_, b4, d4⟩
    show (do
      let (b, br) ← (adv (adv br 1) 2).readBits 3
      let (modes, br) ← readEntropyCodedImage (subSampleSize w (b + 2)) (subSampleSize h (b + 2)) br
      pure (Transform.predictor (b + 2) modes, w, br)) = _
    rw [r3]
    simp only [Webp.Go.Res.bind_ok]
    rw [show bits - 2 + 2 = bits by omega, ← hw, ← hh, r4]
    rfl
  | crossColor bits data =>
    obtain ⟨h2, h9, hw, hh, hi⟩ := hv
    simp only [writeTransform, VP8LEntropyCodeLengths.callsBits_cons, List.append_assoc] at hb
    obtain ⟨r1, b1⟩ := readBits_bitsLE (by omega) hb
    obtain ⟨r2, b2⟩ := readBits_bitsLE (by omega) b1
    obtain ⟨r3, b3⟩ := readBits_bitsLE (show bits - 2 < 2 ^ 3 by omega) b2
    rw [encodeSubImage_eq] at b3
    obtain ⟨br', r4, b4, d4⟩ := entropyImage_roundtrip 0 data hi _ rest b3
    refine ⟨_, _, br', r1, r2, ?_, b4, d4⟩
    show (do
      let (b, br) ← (adv (adv br 1) 2).readBits 3
      let (elems, br) ← readEntropyCodedImage (subSampleSize w (b + 2)) (subSampleSize h (b + 2)) br
      pure (Transform.crossColor (b + 2) elems, w, br)) = _
    rw [r3]
    simp only [Webp.Go.Res.bind_ok]
    rw [show bits - 2 + 2 = bits by omega, ← hw, ← hh, r4]
    rfl
  | subtractGreen =>
    simp only [writeTransform, VP8LEntropyCodeLengths.callsBits_cons, callsBits_nil, List.append_assoc,
      List.nil_append] at hb
    obtain ⟨r1, b1⟩ := readBits_bitsLE (by omega) hb
    obtain ⟨r2, b2⟩ := readBits_bitsLE (by omega) b1
    exact ⟨_, _, _, r1, r2, rfl, b2, rfl⟩
  | colorIndexing n data =>
    obtain ⟨h1, h256, hw, hh, hi⟩ := hv
    simp only [writeTransform, VP8LEntropyCodeLengths.callsBits_cons, List.append_assoc] at hb
    obtain ⟨r1, b1⟩ := readBits_bitsLE (by omega) hb
    obtain ⟨r2, b2⟩ := readBits_bitsLE (by omega) b1
    obtain ⟨r3, b3⟩ := readBits_bitsLE (show n - 1 < 2 ^ 8 by omega) b2
    rw [encodeSubImage_eq] at b3
    obtain ⟨br', r4, b4, d4⟩ := entropyImage_roundtrip 0 data hi _ rest b3
    refine ⟨_, _, br', r1, r2, ?_, b4, d4⟩
    show (do
      let (m, br) ← (adv (adv br 1) 2).readBits 8
      let (coded, br) ← readEntropyCodedImage (m + 1) 1 br
      pure (Transform.colorIndexing (deltaDecodePalette coded), packedWidth w (m + 1), br)) = _
    rw [r3]
    simp only [Webp.Go.Res.bind_ok]
    rw [show n - 1 + 1 = n by omega]
    rw [hw, hh] at r4
    rw [r4]
    rfl

theorem any_kind_false (acc : Array (Transform × Nat)) (k : Nat) (h : ∀ q ∈ acc, q.1.kind ≠ k) :
    acc.any (fun p => p.1.kind = k) = false := by
  rw [Bool.eq_false_iff]
  intro ht
  rw [Array.any_eq_true] at ht
  obtain ⟨i, hi, hk⟩ := ht
  exact h acc[i] (Array.getElem_mem hi) (by simpa using hk)

/-- the transform list, terminated by the 0 bit -/
theorem readTransforms_roundtrip (h : Nat) (rest : List Bool) :
    ∀ (ts : List XfPlan) (fuel w : Nat) (acc : Array (Transform × Nat)) (br : BitReader),
      ts.length < fuel → xfsValid h w ts → (ts.map xfKind).Pairwise (· ≠ ·) →
      (∀ q ∈ acc, ∀ t ∈ ts, q.1.kind ≠ xfKind t) →
      restBits br = callsBits (ts.flatMap writeTransform ++ [(0, 1)]) ++ rest →
      ∃ br', readTransforms h fuel w acc br = .ok (acc ++ (xfsDecoded w ts).toArray, xfsWidth w ts, br') ∧
        restBits br' = rest ∧ br'.data = br.data := by
  intro ts
  induction ts with
  | nil =>
    intro fuel w acc br hf _ _ _ hb
    obtain ⟨f, rfl⟩ : ∃ f, fuel = f + 1 := ⟨fuel - 1, by simp at hf; omega⟩
    simp only [List.flatMap_nil, List.nil_append, VP8LEntropyCodeLengths.callsBits_cons, callsBits_nil,
      List.append_nil] at hb
    obtain ⟨r1, b1⟩ := readBits_bitsLE (by omega) hb
    refine ⟨_, ?_, b1, rfl⟩
    rw [readTransforms, r1]
    simp [xfsDecoded, xfsWidth]
  | cons t ts ih =>
    intro fuel w acc br hf hv hp hacc hb
    obtain ⟨f, rfl⟩ : ∃ f, fuel = f + 1 := ⟨fuel - 1, by simp at hf; omega⟩
    obtain ⟨hvt, hvs⟩ := hv
    simp only [List.map_cons, List.pairwise_cons] at hp
    obtain ⟨hp1, hp2⟩ := hp
    simp only [List.flatMap_cons, List.append_assoc, VP8LEntropyCodeLengths.callsBits_append] at hb
    obtain ⟨br1, br2, br3, r1, r2, r3, b3, d3⟩ := transform_roundtrip w h t hvt br _ hb
    have hany := any_kind_false acc (xfKind t) (fun q hq => hacc q hq t List.mem_cons_self)
    rw [← List.append_assoc, ← VP8LEntropyCodeLengths.callsBits_append] at b3
    obtain ⟨br', r4, b4, d4⟩ := ih f (xfWidthAfter w t) (acc.push (xfDecoded t, w)) br3
      (by simp at hf; omega) hvs hp2
      (by
        intro q hq t' ht'
        rcases Array.mem_push.mp hq with hq | rfl
        · exact hacc q hq t' (List.mem_cons_of_mem _ ht')
        · simp only [kind_xfDecoded]
          exact hp1 (xfKind t') (List.mem_map.mpr ⟨t', ht', rfl⟩))
      b3
    refine ⟨br', ?_, b4, by rw [d4, d3]⟩
    rw [readTransforms, r1]
    simp only
    rw [if_neg (by omega), r2]
    simp only
    rw [hany]
    simp only [Bool.false_eq_true, if_false]
    rw [r3]
    simp only
    rw [r4]
    simp [xfsDecoded, xfsWidth]

theorem transforms_length_le (ts : List XfPlan) (hp : (ts.map xfKind).Pairwise (· ≠ ·)) : ts.length ≤ 4 := by
  match ts, hp with
  | [], _ => simp
  | [_], _ => simp
  | [_, _], _ => simp
  | [_, _, _], _ => simp
  | [_, _, _, _], _ => simp
  | a :: b :: c :: d :: e :: _, hp =>
    exfalso
    simp only [List.map_cons, List.pairwise_cons, List.mem_cons, forall_eq_or_imp] at hp
    have := xfKind_lt a; have := xfKind_lt b; have := xfKind_lt c; have := xfKind_lt d; have := xfKind_lt e
    omega

/-! ## T3: the whole stream -/

theorem header_roundtrip (data : ByteArray) (w h : Nat) (alpha : Bool) (hw : 1 ≤ w ∧ w ≤ 16384)
    (hh : 1 ≤ h ∧ h ≤ 16384) (rest : List Bool)
    (hb : restBits { data := data } =
      callsBits [(0x2f, 8), (w - 1, 14), (h - 1, 14), (if alpha then 1 else 0, 1), (0, 3)] ++ rest) :
    ∃ br', readHeader data = .ok ({ width := w, height := h, hasAlpha := alpha }, br') ∧
      restBits br' = rest ∧ br'.data = data := by
  simp only [VP8LEntropyCodeLengths.callsBits_cons, callsBits_nil, List.append_nil, List.append_assoc] at hb
  obtain ⟨r1, b1⟩ := readBits_bitsLE (by omega) hb
  obtain ⟨r2, b2⟩ := readBits_bitsLE (show w - 1 < 2 ^ 14 by omega) b1
  obtain ⟨r3, b3⟩ := readBits_bitsLE (show h - 1 < 2 ^ 14 by omega) b2
  obtain ⟨r4, b4⟩ := readBits_bitsLE (show (if alpha then 1 else 0) < 2 ^ 1 by cases alpha <;> decide) b3
  obtain ⟨r5, b5⟩ := readBits_bitsLE (show 0 < 2 ^ 3 by omega) b4
  refine ⟨_, ?_, b5, rfl⟩
  unfold readHeader
  simp only
  rw [r1]
  simp only [Webp.Go.Res.bind_ok]
  rw [if_neg (by simp), r2]
  simp only [Webp.Go.Res.bind_ok]
  rw [r3]
  simp only [Webp.Go.Res.bind_ok]
  rw [r4]
  simp only [Webp.Go.Res.bind_ok]
  rw [r5]
  simp only [Webp.Go.Res.bind_ok]
  rw [if_neg (by simp)]
  simp only [Webp.Go.Res.pure_eq]
  rw [show w - 1 + 1 = w by omega, show h - 1 + 1 = h by omega]
  cases alpha <;> rfl

/-- validity of a stream plan: single histogram (no meta prefix image), any list of transforms of
    pairwise distinct kinds, every sub-image a valid plan -/
structure StreamValid (sp : StreamPlan) : Prop where
  width : 1 ≤ sp.width ∧ sp.width ≤ 16384
  height : 1 ≤ sp.height ∧ sp.height ≤ 16384
  kinds : (sp.transforms.map xfKind).Pairwise (· ≠ ·)
  xfs : xfsValid sp.height sp.width sp.transforms
  main_width : sp.main.width = xfsWidth sp.width sp.transforms
  main_height : sp.main.height = sp.height
  main : ImageValid sp.cacheBits sp.main

/-- the decoder's view of the plan's transforms -/
def planTransforms (sp : StreamPlan) : Array (Transform × Nat) := (xfsDecoded sp.width sp.transforms).toArray

/-- **T3 on bits**: any byte string whose bits start with the emitter's calls -/
theorem stream_roundtrip_bits (sp : StreamPlan) (hv : StreamValid sp) (data : ByteArray) (rest : List Bool)
    (hb : restBits { data := data } = callsBits (encodeStream sp) ++ rest) :
    ∃ info br', decodeStream data = .ok (info, planPixels sp.cacheBits sp.main, br') ∧
      info.header = { width := sp.width, height := sp.height, hasAlpha := sp.hasAlpha } ∧
      info.transforms = planTransforms sp ∧
      info.params.width = sp.main.width ∧ info.params.height = sp.height ∧
      info.params.cacheBits = sp.cacheBits ∧ info.params.prefixBits = 0 ∧
      restBits br' = rest ∧ br'.data = data := by
  obtain ⟨hw, hh, hk, hx, hmw, hmh, hm⟩ := hv
  unfold encodeStream at hb
  simp only [List.append_assoc, VP8LEntropyCodeLengths.callsBits_append] at hb
  obtain ⟨br1, r1, b1, d1⟩ := header_roundtrip data sp.width sp.height sp.hasAlpha hw hh _ hb
  rw [← List.append_assoc, ← VP8LEntropyCodeLengths.callsBits_append] at b1
  have hlen := transforms_length_le sp.transforms hk
  obtain ⟨br2, r2, b2, d2⟩ := readTransforms_roundtrip sp.height _ sp.transforms 5 sp.width #[] br1
    (by omega) hx hk (fun q hq => by simp at hq) b1
  obtain ⟨br3, r3, b3, d3⟩ := colorCacheInfo_roundtrip sp.cacheBits hm.cache br2 _ b2
  simp only [VP8LEntropyCodeLengths.callsBits_cons, callsBits_nil, List.nil_append, List.append_assoc] at b3
  obtain ⟨r4, b4⟩ := readBits_bitsLE (by omega) b3
  obtain ⟨grp, br5, br6, r5, d5, r6, b6, d6⟩ := imageBody_roundtrip sp.cacheBits sp.main hm _ rest b4
  refine ⟨{ header := { width := sp.width, height := sp.height, hasAlpha := sp.hasAlpha },
            transforms := planTransforms sp,
            params := { width := sp.main.width, height := sp.height, cacheBits := sp.cacheBits, groups := #[grp] } },
    br6, ?_, rfl, rfl, rfl, rfl, rfl, rfl, b6, by rw [d6]; simp [d3, d2, d1]⟩
  unfold decodeStream
  rw [r1]
  simp only [Webp.Go.Res.bind_ok, Array.emptyWithCapacity_eq]
  rw [r2]
  simp only [Webp.Go.Res.bind_ok]
  rw [r3]
  simp only [Webp.Go.Res.bind_ok]
  unfold readMetaPrefix
  rw [r4]
  simp only [Webp.Go.Res.bind_ok]
  rw [if_neg (by omega), r5]
  simp only [Webp.Go.Res.bind_ok, Webp.Go.Res.pure_eq]
  rw [← hmw, ← hmh, r6]
  simp only [Webp.Go.Res.bind_ok, planTransforms, Array.empty_append, hmh]

theorem writeTransform_ok (w h : Nat) (t : XfPlan) (hv : XfValid w h t) : CallsOK (writeTransform t) := by
  cases t with
  | predictor bits data =>
    obtain ⟨h2, h9, _, _, hi⟩ := hv
    exact CallsOK.cons ⟨by omega, by omega⟩ (CallsOK.cons ⟨by omega, by omega⟩
      (CallsOK.cons ⟨by omega, by omega⟩ (entropyImage_ok 0 data hi)))
  | crossColor bits data =>
    obtain ⟨h2, h9, _, _, hi⟩ := hv
    exact CallsOK.cons ⟨by omega, by omega⟩ (CallsOK.cons ⟨by omega, by omega⟩
      (CallsOK.cons ⟨by omega, by omega⟩ (entropyImage_ok 0 data hi)))
  | subtractGreen =>
    exact CallsOK.cons ⟨by omega, by omega⟩ (CallsOK.cons ⟨by omega, by omega⟩ CallsOK.nil)
  | colorIndexing n data =>
    obtain ⟨h1, h256, _, _, hi⟩ := hv
    exact CallsOK.cons ⟨by omega, by omega⟩ (CallsOK.cons ⟨by omega, by omega⟩
      (CallsOK.cons ⟨by omega, by omega⟩ (entropyImage_ok 0 data hi)))

theorem transforms_ok (h : Nat) : ∀ (ts : List XfPlan) (w : Nat), xfsValid h w ts →
    CallsOK (ts.flatMap writeTransform) := by
  intro ts
  induction ts with
  | nil => intro _ _; exact CallsOK.nil
  | cons t ts ih =>
    intro w hv
    simp only [List.flatMap_cons]
    exact (writeTransform_ok w h t hv.1).append (ih _ hv.2)

theorem encodeStream_ok (sp : StreamPlan) (hv : StreamValid sp) : CallsOK (encodeStream sp) := by
  obtain ⟨hw, hh, hk, hx, hmw, hmh, hm⟩ := hv
  unfold encodeStream
  have one : CallsOK [((0 : Nat), 1)] := CallsOK.cons ⟨by omega, by omega⟩ CallsOK.nil
  refine (((((?_ : CallsOK _).append (transforms_ok _ _ _ hx)).append one).append
    (colorCacheInfo_ok _ hm.cache)).append one).append (imageBody_ok _ _ hm)
  exact CallsOK.cons ⟨by omega, by omega⟩ (CallsOK.cons ⟨by omega, by omega⟩ (CallsOK.cons ⟨by omega, by omega⟩
    (CallsOK.cons ⟨by omega, by cases sp.hasAlpha <;> decide⟩ (CallsOK.cons ⟨by omega, by omega⟩ CallsOK.nil))))

/-- the bytes the encoder's bit writer produces for a stream plan -/
def streamBytes (sp : StreamPlan) : ByteArray := ByteArray.mk (runCalls (encodeStream sp)).finish

/-- **T3, the capstone** `stream_roundtrip`: the bytes the bit writer produces for a valid stream plan
    (header, any transforms with their data sub-images, colour-cache info, no meta prefix image, five
    prefix codes, LZ77 / cache / literal pixel data) are parsed by the SPECIFICATION `decodeStream` into
    exactly the plan's transforms (with decoded data) and the pixels the plan's tokens produce; only
    the zero padding of `Finish` is left unread. -/
theorem stream_roundtrip (sp : StreamPlan) (hv : StreamValid sp) :
    ∃ info br' pad, decodeStream (streamBytes sp) = .ok (info, planPixels sp.cacheBits sp.main, br') ∧
      info.header = { width := sp.width, height := sp.height, hasAlpha := sp.hasAlpha } ∧
      info.transforms = planTransforms sp ∧
      info.params.width = sp.main.width ∧ info.params.height = sp.height ∧
      info.params.cacheBits = sp.cacheBits ∧ info.params.prefixBits = 0 ∧
      pad < 8 ∧ restBits br' = List.replicate pad false ∧ br'.data = streamBytes sp := by
  obtain ⟨pad, hp, hb⟩ := restBits_bytes _ (encodeStream_ok sp hv)
  obtain ⟨info, br', h1, h2, h3, h4, h5, h6, h7, h8, h9⟩ := stream_roundtrip_bits sp hv (streamBytes sp) _ hb
  exact ⟨info, br', pad, h1, h2, h3, h4, h5, h6, h7, hp, h8, h9⟩

/-- … and consequently `decode` returns the image obtained by undoing the plan's transforms on the
    plan's pixels -/
theorem stream_roundtrip_decode (sp : StreamPlan) (hv : StreamValid sp) :
    decode (streamBytes sp) = .ok
      { width := sp.width, height := sp.height, hasAlpha := sp.hasAlpha,
        pixels := applyInverseTransforms sp.height (planTransforms sp) (planPixels sp.cacheBits sp.main) } := by
  obtain ⟨info, br', pad, h1, h2, h3, _⟩ := stream_roundtrip sp hv
  unfold decode
  rw [h1]
  simp only [Webp.Go.Res.bind_ok, Webp.Go.Res.pure_eq, h2, h3]

/-- the transform-free special case -/
theorem stream_roundtrip_notransforms (sp : StreamPlan) (hv : StreamValid sp) (hnt : sp.transforms = []) :
    decode (streamBytes sp) = .ok
      { width := sp.width, height := sp.height, hasAlpha := sp.hasAlpha,
        pixels := planPixels sp.cacheBits sp.main } := by
  rw [stream_roundtrip_decode sp hv]
  simp [planTransforms, hnt, xfsDecoded, applyInverseTransforms]

/-! ## non-vacuity: a concrete stream -/
namespace Examples

/-- a vector with the single used symbol `s` (length 1) -/
def one (n s : Nat) : Array Nat := (Array.replicate n 0).setIfInBounds s 1

theorem filter_replicate_zero (k : Nat) : (List.replicate k 0).filter (· ≠ 0) = [] := by
  rw [List.filter_eq_nil_iff]
  intro a ha
  rw [List.mem_replicate] at ha
  simp [ha.2]

/-- a single symbol below 256 is always a valid (simple) code, whatever the unused code-length code -/
theorem one_valid (n s : Nat) (hs : s < n) (hs256 : s < 256) (cl : Array Nat) : VecValid n (one n s) cl := by
  have hl : (one n s).toList = List.replicate s 0 ++ 1 :: List.replicate (n - (s + 1)) 0 := by
    unfold one
    rw [Array.toList_setIfInBounds, Array.toList_replicate, List.set_eq_take_append_cons_drop]
    simp only [List.length_replicate, hs, if_true, List.take_replicate, List.drop_replicate]
    rw [Nat.min_eq_left (by omega)]
  have h15 : ∀ l ∈ one n s, l ≤ 15 := by
    intro l hl'
    rw [← Array.mem_toList_iff, hl] at hl'
    rcases List.mem_append.mp hl' with h | h
    · rw [List.mem_replicate] at h; omega
    · rcases List.mem_cons.mp h with rfl | h
      · omega
      · rw [List.mem_replicate] at h; omega
  have hoffs : offs (one n s) 16 = 1 := by
    rw [← used_count _ h15, hl, List.filter_append, List.filter_cons, filter_replicate_zero, filter_replicate_zero]
    simp
  have hget : ∀ i, (one n s).getD i 0 > 0 → i = s := by
    intro i hi
    unfold one at hi
    rw [getD_setIfInBounds, replicate_getD] at hi
    split at hi
    · rename_i h; exact h.1.symm
    · omega
  refine ⟨by simp [one], h15, Or.inr (buildCode_of _ h15 (by omega) (Or.inl hoffs)), fun h => absurd ?_ h⟩
  right
  refine ⟨by rw [usedList_length _ h15]; omega, fun i hi => ?_⟩
  rw [mem_usedList] at hi
  rw [hget i hi.2]; exact hs256

/-- an unused code (e.g. the distance code of an image without copies) is valid -/
theorem zero_valid (n : Nat) (cl : Array Nat) : VecValid n (Array.replicate n 0) cl := by
  have hz : ∀ l ∈ Array.replicate n 0, l = 0 := by
    intro l hl
    rw [Array.mem_replicate] at hl; exact hl.2
  exact ⟨by simp, fun l hl => by rw [hz l hl]; omega, Or.inl hz,
    fun h => absurd (Or.inl (all_zero_usedList _ hz)) h⟩

def pxA : UInt32 := 0xff102030

/-- green / length / cache code: literal green 0x20 (1 bit), length symbol 257 (2 bits),
    cache index 0 = symbol 280 (2 bits): a NORMAL code, written with the code-length code `clEx` -/
def gEx : Array Nat :=
  (((Array.replicate 282 0).setIfInBounds 0x20 1).setIfInBounds 257 2).setIfInBounds 280 2

/-- lengths of the code-length symbols 0, 1, 2, 18 used by `buildCodeLengthTokens gEx` -/
def clEx : Array Nat := #[2, 2, 2, 0, 0, 0, 0, 0, 0, 0, 0, 0, 0, 0, 0, 0, 0, 0, 2]

/-- a 2×2 image: a literal, a colour-cache hit, an overlapping copy (length 2, distance 1);
    colour cache of 2 entries -/
def mainPlan : ImagePlan :=
  { width := 2, height := 2,
    refs := [.literal pxA, .cacheIdx 0, .copy 2 1],
    lens5 := [gEx, one 256 0x10, one 256 0x30, one 256 0xff, one 40 1],
    cl5 := [clEx, #[], #[], #[], #[]] }

/-- the 1×1 predictor-mode image (mode 11), all five codes simple / unused -/
def subPlan : ImagePlan :=
  { width := 1, height := 1,
    refs := [.literal 0xff000b00],
    lens5 := [one 280 0x0b, one 256 0, one 256 0, one 256 0xff, Array.replicate 40 0],
    cl5 := [#[], #[], #[], #[], #[]] }

def sp : StreamPlan :=
  { width := 2, height := 2, hasAlpha := true, transforms := [.subtractGreen, .predictor 2 subPlan],
    cacheBits := 1, main := mainPlan }

theorem gEx_valid : VecValid 282 gEx clEx := by
  have h15 : ∀ l ∈ gEx, l ≤ 15 := by
    have : ∀ l ∈ gEx.toList, l ≤ 15 := by decide +kernel
    exact fun l hl => this l (Array.mem_toList_iff.mpr hl)
  have hoffs : offs gEx 16 = 3 := by decide +kernel
  have hks : ks gEx 16 = 2 ^ 15 := by decide +kernel
  refine ⟨by decide +kernel, h15, Or.inr (buildCode_of _ h15 (by omega) (Or.inr hks)), fun _ =>
    ⟨rfl, by decide, ⟨{ counts := #[0, 0, 4, 0, 0, 0, 0, 0, 0, 0, 0, 0, 0, 0, 0, 0], symbols := #[0, 1, 2, 18] },
      by decide +kernel⟩, by decide +kernel⟩⟩

theorem mainPlan_valid : ImageValid 1 mainPlan where
  width_pos := by decide
  cache := Or.inr ⟨by omega, by omega⟩
  lens5_len := rfl
  cl5_len := rfl
  vecs := by
    intro i hi
    have : i = 0 ∨ i = 1 ∨ i = 2 ∨ i = 3 ∨ i = 4 := by omega
    have hg : greenAlphabetSize 1 = 282 := by decide
    rcases this with rfl | rfl | rfl | rfl | rfl <;>
      simp only [mainPlan, List.getD_cons_zero, List.getD_cons_succ, alphabetSize, hg, numDistanceCodes]
    · exact gEx_valid
    · exact one_valid 256 0x10 (by omega) (by omega) _
    · exact one_valid 256 0x30 (by omega) (by omega) _
    · exact one_valid 256 0xff (by omega) (by omega) _
    · exact one_valid 40 1 (by omega) (by omega) _
  tokens := by decide +kernel
  exec := by decide +kernel

theorem subPlan_valid : ImageValid 0 subPlan where
  width_pos := by decide
  cache := Or.inl rfl
  lens5_len := rfl
  cl5_len := rfl
  vecs := by
    intro i hi
    have : i = 0 ∨ i = 1 ∨ i = 2 ∨ i = 3 ∨ i = 4 := by omega
    have hg : greenAlphabetSize 0 = 280 := by decide
    rcases this with rfl | rfl | rfl | rfl | rfl <;>
      simp only [subPlan, List.getD_cons_zero, List.getD_cons_succ, alphabetSize, hg, numDistanceCodes]
    · exact one_valid 280 0x0b (by omega) (by omega) _
    · exact one_valid 256 0 (by omega) (by omega) _
    · exact one_valid 256 0 (by omega) (by omega) _
    · exact one_valid 256 0xff (by omega) (by omega) _
    · exact zero_valid 40 _
  tokens := by decide +kernel
  exec := by decide +kernel

/-- the hypotheses of the capstone hold for a stream with a subtract-green transform, a predictor
    transform (with its entropy-coded mode image), a colour cache, a normal and four simple codes,
    a literal, a cache hit and an overlapping copy -/
theorem sp_valid : StreamValid sp where
  width := by decide
  height := by decide
  kinds := by decide
  xfs := ⟨trivial, ⟨by decide, by decide, by decide, by decide, subPlan_valid⟩, trivial⟩
  main_width := by decide
  main_height := rfl
  main := mainPlan_valid

/-- … so the specification decodes the encoder's bytes for it (instance of `stream_roundtrip_decode`);
    `#eval decode (streamBytes sp)` gives
    `#[0xfe303050, 0xfd606080, 0xfd606080, 0xfc9090b0]` for the pixels. -/
example : decode (streamBytes sp) = .ok
    { width := 2, height := 2, hasAlpha := true,
      pixels := applyInverseTransforms 2 (planTransforms sp) (planPixels 1 mainPlan) } :=
  stream_roundtrip_decode sp sp_valid

example : planPixels 1 mainPlan = #[pxA, pxA, pxA, pxA] := by decide +kernel

end Examples

end Webp.Proofs.VP8LEntropyStream
