import Webp.Proofs.ContainerBasic
/-
  Reformulation of the loops of `Impl.Demux` (model of mux/{chunk,demux}.go) as
  "decision function + driver" with step lemmas, and the safety facts for C05.
-/
namespace Webp.Impl.Demux
open Webp.Go
open Webp.Impl.Parser (ccRIFF ccWEBP ccVP8 ccVP8L ccVP8X ccALPH ccANIM ccANMF ccICCP ccEXIF ccXMP
  chunkHeaderSize riffHeaderSize anmfChunkSize animChunkSize vp8xChunkSize maxChunkPayload
  maxImageArea maxFrames maxMetadataSize)
set_option maxHeartbeats 200000
set_option linter.unusedTactic false

/-- closes `(ok _).Safe` / `(err _).Safe` without trying `decide` (which may diverge) -/
macro "safe_triv" : tactic => `(tactic| first | exact Res.safe_ok _ | exact Res.safe_err _)

theorem bind_ok' {ε α β : Type} (a : α) (f : α → Res ε β) : Res.bind (.ok a) f = f a := rfl
theorem bind_err' {ε α β : Type} (e : ε) (f : α → Res ε β) :
    Res.bind (.err e : Res ε α) f = .err e := rfl

/-- the declared chunk size exceeds `MaxChunkPayload` (kept opaque: the literal is large) -/
def TooLarge (n : Nat) : Prop := n > maxChunkPayload
instance (n : Nat) : Decidable (TooLarge n) := inferInstanceAs (Decidable (n > maxChunkPayload))

theorem readChunkHeader_cases3 (buf : Bytes) :
    (buf.length < 8 ∧ ∃ e, readChunkHeader buf = .err e) ∨
    (TooLarge (le32 buf 4) ∧ ∃ e, readChunkHeader buf = .err e) ∨
    (8 ≤ buf.length ∧ ¬ TooLarge (le32 buf 4) ∧
      readChunkHeader buf = .ok (le32 buf 0, le32 buf 4)) := by
  unfold readChunkHeader chunkHeaderSize TooLarge
  by_cases h1 : buf.length < 8
  · rw [if_pos h1]; exact .inl ⟨h1, _, rfl⟩
  · rw [if_neg h1]
    by_cases h2 : le32 buf 4 > maxChunkPayload
    · exact .inr (.inl ⟨h2, _, if_pos h2⟩)
    · exact .inr (.inr ⟨by omega, h2, if_neg h2⟩)

theorem readChunkHeader_cases (buf : Bytes) :
    (∃ e, readChunkHeader buf = .err e) ∨
    (8 ≤ buf.length ∧ readChunkHeader buf = .ok (le32 buf 0, le32 buf 4)) := by
  unfold readChunkHeader chunkHeaderSize
  generalize maxChunkPayload = M
  by_cases h1 : buf.length < 8
  · rw [if_pos h1]; exact .inl ⟨_, rfl⟩
  · rw [if_neg h1]
    dsimp only
    by_cases h2 : le32 buf 4 > M
    · rw [if_pos h2]; exact .inl ⟨_, rfl⟩
    · rw [if_neg h2]; exact .inr ⟨by omega, rfl⟩

/-- number of bytes `ReadChunk` consumes: header + payload + pad byte *if one is present* -/
def consumedOf (data : Bytes) : Nat :=
  if le32 data 4 % 2 ≠ 0 ∧ 8 + le32 data 4 < data.length then 8 + le32 data 4 + 1
  else 8 + le32 data 4

theorem consumedOf_bounds (data : Bytes) (h : 8 + le32 data 4 ≤ data.length) :
    8 ≤ consumedOf data ∧ consumedOf data ≤ data.length ∧ 8 + le32 data 4 ≤ consumedOf data := by
  unfold consumedOf
  split_ifs <;> omega

theorem readChunk_cases (data : Bytes) :
    (∃ e, readChunk data = .err e) ∨
    (8 + le32 data 4 ≤ data.length ∧
      readChunk data = .ok (⟨le32 data 0, le32 data 4, (data.take (8 + le32 data 4)).drop 8⟩,
        consumedOf data)) := by
  unfold readChunk
  rcases readChunkHeader_cases data with ⟨e, h⟩ | ⟨h8, h⟩
  · rw [h]; exact .inl ⟨e, rfl⟩
  · rw [h, Res.bind_ok]
    unfold chunkHeaderSize
    dsimp only
    by_cases h1 : 8 + le32 data 4 > data.length
    · rw [if_pos h1]; exact .inl ⟨_, rfl⟩
    · rw [if_neg h1, slice_ok _ _ _ (by omega) (by omega), Res.bind_ok]
      exact .inr ⟨by omega, rfl⟩

/-! ### the common chunk walk of the three demuxer loops -/

/-- no complete chunk (header + declared payload) starts at `pos` -/
def chunkStop (payload : Bytes) (pos : Nat) : Prop :=
  pos + 8 > payload.length ∨ TooLarge (le32 (payload.drop pos) 4) ∨
    pos + 8 + le32 (payload.drop pos) 4 > payload.length

instance (payload : Bytes) (pos : Nat) : Decidable (chunkStop payload pos) := by
  unfold chunkStop; infer_instance

/-- the chunk `ReadChunk` returns at `pos` -/
def chunkOf (payload : Bytes) (pos : Nat) : Chunk :=
  ⟨le32 (payload.drop pos) 0, le32 (payload.drop pos) 4,
    ((payload.drop pos).take (8 + le32 (payload.drop pos) 4)).drop 8⟩

/-- position behind the chunk at `pos` -/
def nextPos (payload : Bytes) (pos : Nat) : Nat := pos + consumedOf (payload.drop pos)

theorem nextPos_bounds {payload : Bytes} {pos : Nat} (h : ¬ chunkStop payload pos) :
    pos + 8 ≤ nextPos payload pos ∧ nextPos payload pos ≤ payload.length ∧
      pos + 8 + le32 (payload.drop pos) 4 ≤ nextPos payload pos := by
  unfold chunkStop at h
  have hb := consumedOf_bounds (payload.drop pos) (by rw [List.length_drop]; omega)
  rw [List.length_drop] at hb
  unfold nextPos
  omega

theorem readChunk_at (payload : Bytes) (pos : Nat) (hpos : pos + 8 ≤ payload.length) :
    (chunkStop payload pos ∧ ∃ e, readChunk (payload.drop pos) = .err e) ∨
    (¬ chunkStop payload pos ∧
      readChunk (payload.drop pos) = .ok (chunkOf payload pos, consumedOf (payload.drop pos))) := by
  unfold chunkStop readChunk chunkHeaderSize chunkOf
  have hl : (payload.drop pos).length = payload.length - pos := List.length_drop
  generalize payload.drop pos = tail at hl
  rcases readChunkHeader_cases3 tail with ⟨h, _⟩ | ⟨h, e, he⟩ | ⟨_, hn, he⟩
  · omega
  · rw [he]; exact .inl ⟨.inr (.inl h), e, rfl⟩
  · rw [he, Res.bind_ok]
    dsimp only
    by_cases h3 : 8 + le32 tail 4 > tail.length
    · rw [if_pos h3]; exact .inl ⟨.inr (.inr (by omega)), _, rfl⟩
    · rw [if_neg h3, slice_ok _ _ _ (by omega) (by omega), Res.bind_ok]
      refine .inr ⟨?_, rfl⟩
      rintro (h | h | h)
      · omega
      · exact hn h
      · omega

/-! ### `anmfSubChunks` -/

def anmfPick (id : Nat) (sub : Bytes) (img alph : Option Bytes) : Option Bytes × Option Bytes :=
  if id = ccVP8 ∨ id = ccVP8L then (some sub, alph)
  else if id = ccALPH then (img, some sub)
  else (img, alph)

/-- payload of the chunk at `pos`, as `parseANMF` slices it (`fp[pos+8 : pos+8+size]`) -/
def subDataAt (fp : Bytes) (pos : Nat) : Bytes :=
  (fp.take (pos + (8 + le32 (fp.drop pos) 4))).drop (pos + 8)

theorem adv_eq (sz pos len : Nat) (h : pos ≤ len) :
    (if sz % 2 ≠ 0 ∧ 8 + sz < len - pos then 8 + sz + 1 else 8 + sz) =
      (if sz % 2 ≠ 0 ∧ pos + (8 + sz) < len then 8 + sz + 1 else 8 + sz) := by
  split_ifs <;> omega

theorem anmfSubChunks_succ (fuel : Nat) (fp : Bytes) (pos : Nat) (img alph : Option Bytes) :
    anmfSubChunks (fuel + 1) fp pos img alph =
      if chunkStop fp pos then .ok (img, alph)
      else anmfSubChunks fuel fp (nextPos fp pos)
        (anmfPick (le32 (fp.drop pos) 0) (subDataAt fp pos) img alph).1
        (anmfPick (le32 (fp.drop pos) 0) (subDataAt fp pos) img alph).2 := by
  rw [anmfSubChunks]
  unfold nextPos consumedOf subDataAt chunkHeaderSize
  by_cases h1 : pos + 8 > fp.length
  · rw [if_pos h1, if_pos (show chunkStop fp pos from .inl h1)]
  · rw [if_neg h1, sliceFrom_ok _ _ (by omega), Res.bind_ok]
    have hl : (fp.drop pos).length = fp.length - pos := List.length_drop
    rcases readChunkHeader_cases3 (fp.drop pos) with ⟨h, _⟩ | ⟨h, e, he⟩ | ⟨_, hn, he⟩
    · omega
    · rw [he, if_pos (show chunkStop fp pos from .inr (.inl h))]
    · rw [he]
      show (if 8 + le32 (fp.drop pos) 4 > (fp.drop pos).length then _ else _) = _
      by_cases h3 : 8 + le32 (fp.drop pos) 4 > (fp.drop pos).length
      · rw [if_pos h3, if_pos (show chunkStop fp pos from .inr (.inr (by omega)))]
      · have hns : ¬ chunkStop fp pos := by
          rintro (h | h | h)
          · omega
          · exact hn h
          · omega
        rw [if_neg h3, if_neg hns, slice_ok _ _ _ (by omega) (by omega), Res.bind_ok]
        rw [hl]
        unfold anmfPick
        have e1 : (pos + (8 + le32 (fp.drop pos) 4) < fp.length) ↔
            (8 + le32 (fp.drop pos) 4 < fp.length - pos) := by omega
        have hp : pos ≤ fp.length := Nat.le_of_lt_succ (by omega)
        rewrite [adv_eq (le32 (fp.drop pos) 4) pos fp.length hp]
        by_cases c1 : le32 (fp.drop pos) 0 = ccVP8 ∨ le32 (fp.drop pos) 0 = ccVP8L
        · rewrite [if_pos c1]; rfl
        · rewrite [if_neg c1]
          by_cases c2 : le32 (fp.drop pos) 0 = ccALPH
          · rewrite [if_pos c2]; rfl
          · rewrite [if_neg c2]; rfl

/-! ### `singleExtLoop` -/

theorem singleExtLoop_succ (fuel : Nat) (payload : Bytes) (pos : Nat) (alph : Option Bytes) :
    singleExtLoop (fuel + 1) payload pos alph =
      if chunkStop payload pos then .ok (none, alph)
      else if (chunkOf payload pos).id = ccALPH then
        singleExtLoop fuel payload (nextPos payload pos) (some (chunkOf payload pos).data)
      else if (chunkOf payload pos).id = ccVP8 ∨ (chunkOf payload pos).id = ccVP8L then
        .ok (some (chunkOf payload pos).data, alph)
      else singleExtLoop fuel payload (nextPos payload pos) alph := by
  rewrite [singleExtLoop]
  unfold nextPos chunkHeaderSize
  by_cases h1 : pos + 8 > payload.length
  · rewrite [if_pos h1, if_pos (show chunkStop payload pos from .inl h1)]; rfl
  · rewrite [if_neg h1, sliceFrom_ok _ _ (by omega), Res.bind_ok]
    rcases readChunk_at payload pos (by omega) with ⟨hs, e, he⟩ | ⟨hns, he⟩
    · rewrite [he, if_pos hs]; rfl
    · rewrite [he, if_neg hns]; rfl

/-! ### `extLoop` -/

/-- what `parseExtended`'s loop does with the chunk `c` found at `tail` (after recording it) -/
def extDecide (st : State) (tail : Bytes) (c : Chunk) : R State :=
  if c.id = ccICCP then
    (if c.data.length > maxMetadataSize then (.err .metadataTooLarge : R State)
     else .ok { st with iccData := some c.data })
  else if c.id = ccEXIF then
    (if c.data.length > maxMetadataSize then (.err .metadataTooLarge : R State)
     else .ok { st with exifData := some c.data })
  else if c.id = ccXMP then
    (if c.data.length > maxMetadataSize then (.err .metadataTooLarge : R State)
     else .ok { st with xmpData := some c.data })
  else if c.id = ccANIM then
    (if st.features.hasAnimation then parseANIM st c.data else .ok st)
  else if c.id = ccANMF then
    (if st.features.hasAnimation then parseANMF st c.data else (.err .invalidANMF : R State))
  else if c.id = ccVP8 ∨ c.id = ccVP8L ∨ c.id = ccALPH then
    (if !st.features.hasAnimation ∧ st.frames.length = 0 then
       parseSingleExtendedFrame st tail
     else .ok st)
  else .ok st

theorem extLoop_succ (fuel : Nat) (st : State) (payload : Bytes) (pos : Nat) :
    extLoop (fuel + 1) st payload pos =
      if chunkStop payload pos then .ok st
      else Res.bind
        (extDecide { st with chunks := st.chunks ++ [chunkOf payload pos] } (payload.drop pos)
          (chunkOf payload pos))
        (fun st' => extLoop fuel st' payload (nextPos payload pos)) := by
  rewrite [extLoop]
  unfold nextPos chunkHeaderSize
  by_cases h1 : pos + 8 > payload.length
  · rewrite [if_pos h1, if_pos (show chunkStop payload pos from .inl h1)]; rfl
  · rewrite [if_neg h1, sliceFrom_ok _ _ (by omega), Res.bind_ok]
    rcases readChunk_at payload pos (by omega) with ⟨hs, e, he⟩ | ⟨hns, he⟩
    · rewrite [he, if_pos hs]; rfl
    · rewrite [he, if_neg hns]
      unfold extDecide
      generalize maxMetadataSize = MM
      generalize chunkOf payload pos = c
      generalize consumedOf (payload.drop pos) = n
      show (if c.id = ccICCP then _ else _) = _
      split_ifs <;> rfl

/-! ### closed forms of the non-recursive demuxer functions -/

/-- the frame record `parseANMF` appends -/
def anmfFrameInfo (st : State) (data : Bytes) (img alph : Option Bytes) : FrameInfo :=
  let hasAlpha := (alph.getD []).length > 0
  let hasAlpha := if !hasAlpha ∧ (img.getD []).length > 0 then frameDataHasAlpha (img.getD [])
                  else hasAlpha
  { data := img, alphaData := alph, width := le24 data 6 + 1, height := le24 data 9 + 1,
    offsetX := le24 data 0 * 2, offsetY := le24 data 3 * 2, duration := le24 data 12,
    isKeyframe := st.frames.length = 0, hasAlpha := hasAlpha,
    blendNone := byteAt data 15 / 2 % 2 ≠ 0, disposeBG := byteAt data 15 % 2 ≠ 0 }

def anmfFinish (st : State) (data : Bytes) (p : Option Bytes × Option Bytes) : R State :=
  if st.frames.length ≥ maxFrames then .err .tooManyFrames
  else .ok { st with frames := st.frames ++ [anmfFrameInfo st data p.1 p.2] }

theorem parseANMF_eq (st : State) (data : Bytes) :
    parseANMF st data =
      if data.length < 16 then .err .invalidANMF
      else if (le24 data 6 + 1) * (le24 data 9 + 1) ≥ maxImageArea then .err .invalidANMF
      else Res.bind (anmfSubChunks ((data.drop 16).length + 1) (data.drop 16) 0 none none)
        (anmfFinish st data) := by
  unfold parseANMF anmfChunkSize
  by_cases h1 : data.length < 16
  · rewrite [if_pos h1, if_pos h1]; rfl
  · rewrite [if_neg h1, if_neg h1]
    show (if (le24 data 6 + 1) * (le24 data 9 + 1) ≥ maxImageArea then _ else _) = _
    by_cases h2 : (le24 data 6 + 1) * (le24 data 9 + 1) ≥ maxImageArea
    · rewrite [if_pos h2, if_pos h2]; rfl
    · rewrite [if_neg h2, if_neg h2, sliceFrom_ok _ _ (by omega), Res.bind_ok]
      cases hs : anmfSubChunks ((data.drop 16).length + 1) (data.drop 16) 0 none none with
      | err e => rfl
      | panic => rfl
      | hang => rfl
      | ok p =>
        obtain ⟨img, alph⟩ := p
        rewrite [Res.bind_ok, bind_ok']
        unfold anmfFinish
        show (if st.frames.length ≥ maxFrames then _ else _) = _
        by_cases h3 : st.frames.length ≥ maxFrames
        · rewrite [if_pos h3, if_pos h3]; rfl
        · rewrite [if_neg h3, if_neg h3]; rfl

/-- the frame `parseSingleExtendedFrame` builds, given the result `(fw, fh)` of
    `frameDimensions` -/
def singleFrameOf (st : State) (imageData : Bytes) (alph : Option Bytes) (fw fh : Nat) :
    FrameInfo :=
  { data := some imageData, alphaData := alph,
    width := if fw > 0 ∧ fh > 0 then fw else st.features.width,
    height := if fw > 0 ∧ fh > 0 then fh else st.features.height,
    hasAlpha := if !decide ((alph.getD []).length > 0) then frameDataHasAlpha imageData
                else decide ((alph.getD []).length > 0),
    isKeyframe := true }

theorem parseSingleExtendedFrame_some {st : State} {payload imageData : Bytes}
    {alph : Option Bytes} {fw fh : Nat}
    (hs : singleExtLoop (payload.length + 1) payload 0 none = .ok (some imageData, alph))
    (hd : frameDimensions imageData = (fw, fh)) :
    parseSingleExtendedFrame st payload =
      .ok { st with frames := [singleFrameOf st imageData alph fw fh] } := by
  unfold parseSingleExtendedFrame singleFrameOf
  rewrite [hs, Res.bind_ok]
  by_cases h3 : fw > 0 ∧ fh > 0
  · simp only [hd, h3, and_self, if_true, Res.pure_eq]
  · simp only [hd, h3, if_false, Res.pure_eq]

theorem parseSingleExtendedFrame_none {st : State} {payload : Bytes} {alph : Option Bytes}
    (hs : singleExtLoop (payload.length + 1) payload 0 none = .ok (none, alph)) :
    parseSingleExtendedFrame st payload = .err .noImage := by
  unfold parseSingleExtendedFrame
  rewrite [hs, Res.bind_ok]
  rfl

theorem parseSingleExtendedFrame_err {st : State} {payload : Bytes} {e : Err}
    (hs : singleExtLoop (payload.length + 1) payload 0 none = .err e) :
    parseSingleExtendedFrame st payload = .err e := by
  unfold parseSingleExtendedFrame
  rewrite [hs]
  rfl

/-- the `Features` record `parseExtended` builds from the VP8X payload -/
def vp8xFeaturesD (d : Bytes) : Features :=
  let flags := (d.getD 0 0).toNat
  { width := (d.getD 4 0).toNat + (d.getD 5 0).toNat * 256 + (d.getD 6 0).toNat * 65536 + 1,
    height := (d.getD 7 0).toNat + (d.getD 8 0).toNat * 256 + (d.getD 9 0).toNat * 65536 + 1,
    hasAlpha := flags / 16 % 2 ≠ 0,
    hasAnimation := flags / 2 % 2 ≠ 0, hasICC := flags / 32 % 2 ≠ 0,
    hasEXIF := flags / 8 % 2 ≠ 0, hasXMP := flags / 4 % 2 ≠ 0, format := .extended }

/-- first chunk of the payload as `ReadChunk` returns it -/
def firstChunk (payload : Bytes) : Chunk :=
  ⟨le32 payload 0, le32 payload 4, (payload.take (8 + le32 payload 4)).drop 8⟩

def extInit (payload : Bytes) : State :=
  { features := vp8xFeaturesD (firstChunk payload).data, chunks := [firstChunk payload] }

def extFinal (st : State) : R State :=
  if st.frames.length = 0 then .err .noImage else .ok st

theorem parseExtended_cases (payload : Bytes) :
    (∃ e, parseExtended payload = .err e) ∨
    (8 + le32 payload 4 ≤ payload.length ∧ 10 ≤ le32 payload 4 ∧
      parseExtended payload =
        Res.bind (extLoop (payload.length + 1) (extInit payload) payload (consumedOf payload))
          extFinal) := by
  generalize hr : parseExtended payload = r
  unfold parseExtended at hr
  rcases readChunk_cases payload with ⟨e, h⟩ | ⟨hle, h⟩
  · rewrite [h] at hr; exact .inl ⟨e, hr.symm⟩
  · rewrite [h, Res.bind_ok] at hr
    change (if le32 payload 4 < vp8xChunkSize then _ else _) = r at hr
    unfold vp8xChunkSize at hr
    by_cases h1 : le32 payload 4 < 10
    · rewrite [if_pos h1] at hr; exact .inl ⟨_, hr.symm⟩
    · rewrite [if_neg h1] at hr
      have hl : ((payload.take (8 + le32 payload 4)).drop 8).length = le32 payload 4 := by
        rw [List.length_drop, List.length_take]; omega
      have h10 : ∀ i, i < 10 → i < (Chunk.mk (le32 payload 0) (le32 payload 4)
          ((payload.take (8 + le32 payload 4)).drop 8)).data.length := fun i hi => by
        show i < ((payload.take (8 + le32 payload 4)).drop 8).length
        omega
      rewrite [idx_ok _ 0 (h10 0 (by omega)), Res.bind_ok, idx_ok _ 4 (h10 4 (by omega)), Res.bind_ok,
        idx_ok _ 5 (h10 5 (by omega)), Res.bind_ok, idx_ok _ 6 (h10 6 (by omega)), Res.bind_ok,
        idx_ok _ 7 (h10 7 (by omega)), Res.bind_ok, idx_ok _ 8 (h10 8 (by omega)), Res.bind_ok,
        idx_ok _ 9 (h10 9 (by omega)), Res.bind_ok] at hr
      exact .inr ⟨hle, by omega, hr.symm⟩

theorem parseVP8Dimensions_cases (data : Bytes) :
    (∃ e, parseVP8Dimensions data = .err e) ∨
    (10 ≤ data.length ∧
      parseVP8Dimensions data = .ok (le16 data 6 % 16384, le16 data 8 % 16384)) := by
  unfold parseVP8Dimensions
  by_cases h1 : data.length < 10
  · rewrite [if_pos h1]; exact .inl ⟨_, rfl⟩
  · rewrite [if_neg h1]
    by_cases h2 : byteAt data 3 ≠ 0x9d ∨ byteAt data 4 ≠ 0x01 ∨ byteAt data 5 ≠ 0x2a
    · rewrite [if_pos h2]; exact .inl ⟨_, rfl⟩
    · rewrite [if_neg h2]; exact .inr ⟨by omega, rfl⟩

theorem parseVP8LDimensions_cases (data : Bytes) :
    (∃ e, parseVP8LDimensions data = .err e) ∨
    (5 ≤ data.length ∧ byteAt data 0 = 0x2f ∧
      parseVP8LDimensions data = .ok (le32 data 1 % 16384 + 1, le32 data 1 / 16384 % 16384 + 1,
        decide (le32 data 1 / 268435456 % 2 ≠ 0))) := by
  unfold parseVP8LDimensions
  by_cases h1 : data.length < 5
  · rewrite [if_pos h1]; exact .inl ⟨_, rfl⟩
  · rewrite [if_neg h1]
    by_cases h2 : byteAt data 0 ≠ 0x2f
    · rewrite [if_pos h2]; exact .inl ⟨_, rfl⟩
    · rewrite [if_neg h2]; exact .inr ⟨by omega, by omega, rfl⟩

theorem parseSimpleVP8_cases (payload : Bytes) :
    (∃ e, parseSimpleVP8 payload = .err e) ∨
    (8 + le32 payload 4 ≤ payload.length ∧ 10 ≤ (firstChunk payload).data.length ∧
      parseSimpleVP8 payload = .ok
        { features := { width := le16 (firstChunk payload).data 6 % 16384,
                        height := le16 (firstChunk payload).data 8 % 16384, format := .lossy },
          frames := [{ data := some (firstChunk payload).data,
                       width := le16 (firstChunk payload).data 6 % 16384,
                       height := le16 (firstChunk payload).data 8 % 16384, isKeyframe := true }],
          chunks := [firstChunk payload] }) := by
  generalize hr : parseSimpleVP8 payload = r
  unfold parseSimpleVP8 at hr
  rcases readChunk_cases payload with ⟨e, h⟩ | ⟨hle, h⟩
  · rewrite [h] at hr; exact .inl ⟨e, hr.symm⟩
  · rewrite [h, Res.bind_ok] at hr
    change (parseVP8Dimensions (firstChunk payload).data >>= _) = r at hr
    rcases parseVP8Dimensions_cases (firstChunk payload).data with ⟨e, hd⟩ | ⟨h10, hd⟩
    · rewrite [hd] at hr; exact .inl ⟨e, hr.symm⟩
    · rewrite [hd, Res.bind_ok] at hr
      exact .inr ⟨hle, h10, hr.symm⟩

theorem parseSimpleVP8L_cases (payload : Bytes) :
    (∃ e, parseSimpleVP8L payload = .err e) ∨
    (8 + le32 payload 4 ≤ payload.length ∧ 5 ≤ (firstChunk payload).data.length ∧
      parseSimpleVP8L payload = .ok
        { features := { width := le32 (firstChunk payload).data 1 % 16384 + 1,
                        height := le32 (firstChunk payload).data 1 / 16384 % 16384 + 1,
                        hasAlpha := decide (le32 (firstChunk payload).data 1 / 268435456 % 2 ≠ 0),
                        format := .lossless },
          frames := [{ data := some (firstChunk payload).data,
                       width := le32 (firstChunk payload).data 1 % 16384 + 1,
                       height := le32 (firstChunk payload).data 1 / 16384 % 16384 + 1,
                       hasAlpha := decide (le32 (firstChunk payload).data 1 / 268435456 % 2 ≠ 0),
                       isKeyframe := true }],
          chunks := [firstChunk payload] }) := by
  generalize hr : parseSimpleVP8L payload = r
  unfold parseSimpleVP8L at hr
  rcases readChunk_cases payload with ⟨e, h⟩ | ⟨hle, h⟩
  · rewrite [h] at hr; exact .inl ⟨e, hr.symm⟩
  · rewrite [h, Res.bind_ok] at hr
    change (parseVP8LDimensions (firstChunk payload).data >>= _) = r at hr
    rcases parseVP8LDimensions_cases (firstChunk payload).data with ⟨e, hd⟩ | ⟨h5, _, hd⟩
    · rewrite [hd] at hr; exact .inl ⟨e, hr.symm⟩
    · rewrite [hd, Res.bind_ok] at hr
      exact .inr ⟨hle, h5, hr.symm⟩

/-- the window of the file the demuxer looks at: `data[12 : min(riffSize+8, len)]` -/
def riffPayload (data : Bytes) : Bytes :=
  (data.take (if le32 data 4 + 8 > data.length then data.length else le32 data 4 + 8)).drop 12

def dispatchD (payload : Bytes) : R State :=
  if le32 payload 0 = ccVP8X then parseExtended payload
  else if le32 payload 0 = ccVP8 then parseSimpleVP8 payload
  else if le32 payload 0 = ccVP8L then parseSimpleVP8L payload
  else .err .other

theorem parseWith_true_cases (data : Bytes) :
    (∃ e, parseWith true data = .err e) ∨
    (12 ≤ data.length ∧ le32 data 0 = ccRIFF ∧ le32 data 8 = ccWEBP ∧ 4 ≤ le32 data 4 ∧
      8 ≤ (riffPayload data).length ∧ parseWith true data = dispatchD (riffPayload data)) := by
  generalize hr : parseWith true data = r
  unfold parseWith riffHeaderSize chunkHeaderSize at hr
  by_cases h1 : data.length < 12
  · rewrite [if_pos h1] at hr; exact .inl ⟨_, hr.symm⟩
  · rewrite [if_neg h1] at hr
    by_cases h2 : le32 data 0 ≠ ccRIFF
    · rewrite [if_pos h2] at hr; exact .inl ⟨_, hr.symm⟩
    · rewrite [if_neg h2] at hr
      by_cases h5 : le32 data 8 ≠ ccWEBP
      · change (if le32 data 8 ≠ ccWEBP then _ else _) = r at hr
        rewrite [if_pos h5] at hr; exact .inl ⟨_, hr.symm⟩
      · change (if le32 data 8 ≠ ccWEBP then _ else _) = r at hr
        rewrite [if_neg h5] at hr
        change (if (true = true) ∧ (if le32 data 4 + 8 > data.length then data.length
          else le32 data 4 + 8) < 12 then _ else _) = r at hr
        by_cases h3 : (true = true) ∧ (if le32 data 4 + 8 > data.length then data.length
            else le32 data 4 + 8) < 12
        · rewrite [if_pos h3] at hr; exact .inl ⟨_, hr.symm⟩
        · rewrite [if_neg h3] at hr
          have hle : 12 ≤ (if le32 data 4 + 8 > data.length then data.length
              else le32 data 4 + 8) ∧ (if le32 data 4 + 8 > data.length then data.length
              else le32 data 4 + 8) ≤ data.length := by
            constructor
            · have : ¬ (if le32 data 4 + 8 > data.length then data.length
                  else le32 data 4 + 8) < 12 := fun h => h3 ⟨rfl, h⟩
              omega
            · split_ifs <;> omega
          rewrite [slice_ok _ _ _ hle.1 hle.2, Res.bind_ok] at hr
          change (if (riffPayload data).length < 8 then _ else dispatchD (riffPayload data)) = r at hr
          by_cases h6 : (riffPayload data).length < 8
          · rewrite [if_pos h6] at hr; exact .inl ⟨_, hr.symm⟩
          · rewrite [if_neg h6] at hr
            refine .inr ⟨by omega, by omega, by omega, ?_, by omega, hr.symm⟩
            have hrl : (riffPayload data).length = (if le32 data 4 + 8 > data.length
                then data.length else le32 data 4 + 8) - 12 := by
              unfold riffPayload
              rw [List.length_drop, List.length_take]
              omega
            split_ifs at hrl hle <;> omega

/-! ### C05: the demuxer never panics or hangs -/

theorem anmfSubChunks_safe (fuel : Nat) :
    ∀ (fp : Bytes) (pos : Nat) (img alph : Option Bytes), pos ≤ fp.length →
      fp.length < fuel + pos → (anmfSubChunks fuel fp pos img alph).Safe := by
  induction fuel with
  | zero => intro _ _ _ _ h1 h2; omega
  | succ fuel ih =>
    intro fp pos img alph h1 h2
    rewrite [anmfSubChunks_succ]
    by_cases hs : chunkStop fp pos
    · rewrite [if_pos hs]; safe_triv
    · rewrite [if_neg hs]
      have hb := nextPos_bounds hs
      exact ih _ _ _ _ hb.2.1 (by omega)

theorem singleExtLoop_safe (fuel : Nat) :
    ∀ (payload : Bytes) (pos : Nat) (alph : Option Bytes), pos ≤ payload.length →
      payload.length < fuel + pos → (singleExtLoop fuel payload pos alph).Safe := by
  induction fuel with
  | zero => intro _ _ _ h1 h2; omega
  | succ fuel ih =>
    intro payload pos alph h1 h2
    rewrite [singleExtLoop_succ]
    by_cases hs : chunkStop payload pos
    · rewrite [if_pos hs]; safe_triv
    · rewrite [if_neg hs]
      have hb := nextPos_bounds hs
      split_ifs
      · exact ih _ _ _ hb.2.1 (by omega)
      · safe_triv
      · exact ih _ _ _ hb.2.1 (by omega)

theorem anmfFinish_safe (st : State) (data : Bytes) (p : Option Bytes × Option Bytes) :
    (anmfFinish st data p).Safe := by
  unfold anmfFinish; split_ifs <;> safe_triv

theorem safe_bind' {ε α β : Type} {x : Res ε α} {f : α → Res ε β}
    (hx : x.Safe) (hf : ∀ a, x = .ok a → (f a).Safe) : (Res.bind x f).Safe := by
  cases x with
  | ok a => exact hf a rfl
  | err e => exact Res.safe_err _
  | panic => exact absurd hx id
  | hang => exact absurd hx id

theorem parseANMF_safe (st : State) (data : Bytes) : (parseANMF st data).Safe := by
  rewrite [parseANMF_eq]
  split_ifs
  · safe_triv
  · safe_triv
  · exact safe_bind' (anmfSubChunks_safe _ _ _ _ _ (by omega) (by omega))
      (fun p _ => anmfFinish_safe _ _ _)

theorem parseSingleExtendedFrame_safe (st : State) (payload : Bytes) :
    (parseSingleExtendedFrame st payload).Safe := by
  have hs := singleExtLoop_safe (payload.length + 1) payload 0 none (by omega) (by omega)
  cases hl : singleExtLoop (payload.length + 1) payload 0 none with
  | err e => rewrite [parseSingleExtendedFrame_err hl]; safe_triv
  | panic => rewrite [hl] at hs; exact absurd hs id
  | hang => rewrite [hl] at hs; exact absurd hs id
  | ok p =>
    obtain ⟨img, alph⟩ := p
    cases img with
    | none => rewrite [parseSingleExtendedFrame_none hl]; safe_triv
    | some imageData =>
      rewrite [parseSingleExtendedFrame_some hl (rfl : frameDimensions imageData = (_, _))]
      safe_triv

theorem parseANIM_safe (st : State) (data : Bytes) : (parseANIM st data).Safe := by
  unfold parseANIM; split_ifs <;> safe_triv

theorem extDecide_safe (st : State) (tail : Bytes) (c : Chunk) : (extDecide st tail c).Safe := by
  unfold extDecide
  generalize maxMetadataSize = MM
  split_ifs <;> first
    | safe_triv
    | exact parseANIM_safe _ _
    | exact parseANMF_safe _ _
    | exact parseSingleExtendedFrame_safe _ _

theorem extLoop_safe (fuel : Nat) :
    ∀ (st : State) (payload : Bytes) (pos : Nat), pos ≤ payload.length →
      payload.length < fuel + pos → (extLoop fuel st payload pos).Safe := by
  induction fuel with
  | zero => intro _ _ _ h1 h2; omega
  | succ fuel ih =>
    intro st payload pos h1 h2
    rewrite [extLoop_succ]
    by_cases hs : chunkStop payload pos
    · rewrite [if_pos hs]; safe_triv
    · rewrite [if_neg hs]
      have hb := nextPos_bounds hs
      exact safe_bind' (extDecide_safe _ _ _) (fun st' _ => ih _ _ _ hb.2.1 (by omega))

theorem extFinal_safe (st : State) : (extFinal st).Safe := by
  unfold extFinal; split_ifs <;> safe_triv

theorem parseExtended_safe (payload : Bytes) : (parseExtended payload).Safe := by
  rcases parseExtended_cases payload with ⟨e, h⟩ | ⟨hle, _, h⟩
  · rewrite [h]; safe_triv
  · rewrite [h]
    have hb := consumedOf_bounds payload hle
    exact safe_bind' (extLoop_safe _ _ _ _ hb.2.1 (by omega)) (fun s _ => extFinal_safe s)

theorem dispatchD_safe (payload : Bytes) : (dispatchD payload).Safe := by
  unfold dispatchD
  split_ifs
  · exact parseExtended_safe _
  · rcases parseSimpleVP8_cases payload with ⟨e, h⟩ | ⟨_, _, h⟩ <;> rewrite [h] <;> safe_triv
  · rcases parseSimpleVP8L_cases payload with ⟨e, h⟩ | ⟨_, _, h⟩ <;> rewrite [h] <;> safe_triv
  · safe_triv

theorem parseWith_true_safe (data : Bytes) : (parseWith true data).Safe := by
  rcases parseWith_true_cases data with ⟨e, h⟩ | ⟨_, _, _, _, _, h⟩
  · rewrite [h]; safe_triv
  · rewrite [h]; exact dispatchD_safe _

/-! ### C05 resource part: frame count, and what the chunk loop leaves untouched -/

theorem maxFrames_pos : 1 ≤ maxFrames := by decide

theorem bind_ok_inv {ε α β : Type} {x : Res ε α} {f : α → Res ε β} {b : β}
    (h : Res.bind x f = .ok b) : ∃ a, x = .ok a ∧ f a = .ok b := by
  cases x with
  | ok a => exact ⟨a, rfl, h⟩
  | err e => cases h
  | panic => cases h
  | hang => cases h

theorem parseANMF_ok {st : State} {data : Bytes} {st' : State} (h : parseANMF st data = .ok st') :
    st.frames.length < maxFrames ∧ 16 ≤ data.length ∧
    ∃ img alph, anmfSubChunks ((data.drop 16).length + 1) (data.drop 16) 0 none none
        = .ok (img, alph) ∧
      st' = { st with frames := st.frames ++ [anmfFrameInfo st data img alph] } := by
  rewrite [parseANMF_eq] at h
  by_cases h1 : data.length < 16
  · rewrite [if_pos h1] at h; cases h
  rewrite [if_neg h1] at h
  by_cases h2 : (le24 data 6 + 1) * (le24 data 9 + 1) ≥ maxImageArea
  · rewrite [if_pos h2] at h; cases h
  rewrite [if_neg h2] at h
  obtain ⟨p, hp, hf⟩ := bind_ok_inv h
  obtain ⟨img, alph⟩ := p
  unfold anmfFinish at hf
  by_cases h3 : st.frames.length ≥ maxFrames
  · rewrite [if_pos h3] at hf; cases hf
  · rewrite [if_neg h3] at hf
    injection hf with hf
    exact ⟨Nat.lt_of_not_ge h3, Nat.le_of_not_lt h1, img, alph, hp, hf.symm⟩

theorem parseSingleExtendedFrame_ok {st : State} {payload : Bytes} {st' : State}
    (h : parseSingleExtendedFrame st payload = .ok st') :
    ∃ imageData alph, singleExtLoop (payload.length + 1) payload 0 none
        = .ok (some imageData, alph) ∧
      st' = { st with frames := [singleFrameOf st imageData alph (frameDimensions imageData).1
        (frameDimensions imageData).2] } := by
  cases hl : singleExtLoop (payload.length + 1) payload 0 none with
  | err e => rewrite [parseSingleExtendedFrame_err hl] at h; cases h
  | panic =>
    have := singleExtLoop_safe (payload.length + 1) payload 0 none (by omega) (by omega)
    rewrite [hl] at this; exact absurd this id
  | hang =>
    have := singleExtLoop_safe (payload.length + 1) payload 0 none (by omega) (by omega)
    rewrite [hl] at this; exact absurd this id
  | ok p =>
    obtain ⟨img, alph⟩ := p
    cases img with
    | none => rewrite [parseSingleExtendedFrame_none hl] at h; cases h
    | some imageData =>
      rewrite [parseSingleExtendedFrame_some hl (rfl : frameDimensions imageData = (_, _))] at h
      injection h with h
      exact ⟨imageData, alph, rfl, h.symm⟩

/-- how one `extLoop` iteration may change the state (besides recording the chunk) -/
inductive ExtEffect (st : State) (tail : Bytes) (c : Chunk) (st' : State) : Prop where
  | same : st' = st → ExtEffect st tail c st'
  | icc : c.id = ccICCP → st' = { st with iccData := some c.data } → ExtEffect st tail c st'
  | exif : c.id = ccEXIF → st' = { st with exifData := some c.data } → ExtEffect st tail c st'
  | xmp : c.id = ccXMP → st' = { st with xmpData := some c.data } → ExtEffect st tail c st'
  | anim : c.id = ccANIM → st.features.hasAnimation = true → 6 ≤ c.data.length →
      st' = { st with bgColor := le32 c.data 0, loopCount := le16 c.data 4 } →
      ExtEffect st tail c st'
  | anmf : c.id = ccANMF → st.features.hasAnimation = true → parseANMF st c.data = .ok st' →
      ExtEffect st tail c st'
  | image : (c.id = ccVP8 ∨ c.id = ccVP8L ∨ c.id = ccALPH) → st.features.hasAnimation = false →
      st.frames = [] → parseSingleExtendedFrame st tail = .ok st' → ExtEffect st tail c st'

theorem extDecide_ok {st : State} {tail : Bytes} {c : Chunk} {st' : State}
    (h : extDecide st tail c = .ok st') : ExtEffect st tail c st' := by
  unfold extDecide at h
  generalize maxMetadataSize = MM at h
  by_cases c1 : c.id = ccICCP
  · rewrite [if_pos c1] at h
    by_cases c1a : c.data.length > MM
    · rewrite [if_pos c1a] at h; cases h
    · rewrite [if_neg c1a] at h; injection h with h; exact .icc c1 h.symm
  rewrite [if_neg c1] at h
  by_cases c2 : c.id = ccEXIF
  · rewrite [if_pos c2] at h
    by_cases c1a : c.data.length > MM
    · rewrite [if_pos c1a] at h; cases h
    · rewrite [if_neg c1a] at h; injection h with h; exact .exif c2 h.symm
  rewrite [if_neg c2] at h
  by_cases c3 : c.id = ccXMP
  · rewrite [if_pos c3] at h
    by_cases c1a : c.data.length > MM
    · rewrite [if_pos c1a] at h; cases h
    · rewrite [if_neg c1a] at h; injection h with h; exact .xmp c3 h.symm
  rewrite [if_neg c3] at h
  by_cases c4 : c.id = ccANIM
  · rewrite [if_pos c4] at h
    by_cases c4b : st.features.hasAnimation = true
    · rewrite [if_pos c4b] at h
      unfold parseANIM animChunkSize at h
      by_cases c4a : c.data.length < 6
      · rewrite [if_pos c4a] at h; cases h
      · rewrite [if_neg c4a] at h; injection h with h
        exact .anim c4 c4b (Nat.le_of_not_lt c4a) h.symm
    · rewrite [if_neg c4b] at h; injection h with h; exact .same h.symm
  rewrite [if_neg c4] at h
  by_cases c5 : c.id = ccANMF
  · rewrite [if_pos c5] at h
    by_cases c5b : st.features.hasAnimation = true
    · rewrite [if_pos c5b] at h; exact .anmf c5 c5b h
    · rewrite [if_neg c5b] at h; cases h
  rewrite [if_neg c5] at h
  by_cases c6 : c.id = ccVP8 ∨ c.id = ccVP8L ∨ c.id = ccALPH
  · rewrite [if_pos c6] at h
    by_cases c6a : (!st.features.hasAnimation) = true ∧ st.frames.length = 0
    · rewrite [if_pos c6a] at h
      refine .image c6 ?_ (List.eq_nil_of_length_eq_zero c6a.2) h
      cases hb : st.features.hasAnimation with
      | false => rfl
      | true => rewrite [hb] at c6a; exact absurd c6a.1 (by decide)
    · rewrite [if_neg c6a] at h; injection h with h; exact .same h.symm
  · rewrite [if_neg c6] at h; injection h with h; exact .same h.symm

theorem ExtEffect.features {st : State} {tail : Bytes} {c : Chunk} {st' : State}
    (h : ExtEffect st tail c st') : st'.features = st.features ∧ st'.chunks = st.chunks ∧
      (st.frames.length ≤ maxFrames → st'.frames.length ≤ maxFrames) := by
  cases h with
  | same h => subst h; exact ⟨rfl, rfl, id⟩
  | icc _ h => subst h; exact ⟨rfl, rfl, id⟩
  | exif _ h => subst h; exact ⟨rfl, rfl, id⟩
  | xmp _ h => subst h; exact ⟨rfl, rfl, id⟩
  | anim _ _ _ h => subst h; exact ⟨rfl, rfl, id⟩
  | anmf _ _ h =>
    obtain ⟨hlt, _, img, alph, _, h⟩ := parseANMF_ok h
    subst h
    refine ⟨rfl, rfl, fun _ => ?_⟩
    show (st.frames ++ [_]).length ≤ maxFrames
    rewrite [List.length_append]; exact hlt
  | image _ _ _ h =>
    obtain ⟨img, alph, _, h⟩ := parseSingleExtendedFrame_ok h
    subst h
    exact ⟨rfl, rfl, fun _ => maxFrames_pos⟩

theorem extLoop_ok (fuel : Nat) :
    ∀ (st : State) (payload : Bytes) (pos : Nat) (sd : State),
      extLoop fuel st payload pos = .ok sd →
      sd.features = st.features ∧
      (st.frames.length ≤ maxFrames → sd.frames.length ≤ maxFrames) := by
  induction fuel with
  | zero => intro st payload pos sd h; rewrite [extLoop] at h; cases h
  | succ fuel ih =>
    intro st payload pos sd h
    rewrite [extLoop_succ] at h
    by_cases hs : chunkStop payload pos
    · rewrite [if_pos hs] at h; injection h with h; subst h; exact ⟨rfl, id⟩
    · rewrite [if_neg hs] at h
      obtain ⟨st', hd, hl⟩ := bind_ok_inv h
      obtain ⟨hf, _, hn⟩ := (extDecide_ok hd).features
      obtain ⟨if1, if2⟩ := ih _ _ _ _ hl
      exact ⟨if1.trans hf, fun hlen => if2 (hn hlen)⟩

theorem extInit_features (payload : Bytes) :
    1 ≤ (extInit payload).features.width ∧ 1 ≤ (extInit payload).features.height ∧
    (extInit payload).features.format = .extended ∧ (extInit payload).frames = [] :=
  ⟨Nat.le_add_left _ _, Nat.le_add_left _ _, rfl, rfl⟩

/-- C05 resource bound and dimension facts for the demuxer -/
theorem parseWith_true_ok {data : Bytes} {s : State} (h : parseWith true data = .ok s) :
    s.frames.length ≤ maxFrames ∧ 1 ≤ s.frames.length ∧
    (s.features.format ≠ .lossy → 1 ≤ s.features.width ∧ 1 ≤ s.features.height) := by
  rcases parseWith_true_cases data with ⟨e, he⟩ | ⟨_, _, _, _, _, he⟩
  · rewrite [he] at h; cases h
  rewrite [he] at h
  unfold dispatchD at h
  generalize riffPayload data = payload at h
  by_cases c1 : le32 payload 0 = ccVP8X
  · rewrite [if_pos c1] at h
    rcases parseExtended_cases payload with ⟨e, hx⟩ | ⟨_, _, hx⟩
    · rewrite [hx] at h; cases h
    · rewrite [hx] at h
      obtain ⟨s1, hl, hf⟩ := bind_ok_inv h
      unfold extFinal at hf
      by_cases hz : s1.frames.length = 0
      · rewrite [if_pos hz] at hf; cases hf
      · rewrite [if_neg hz] at hf; injection hf with hf; subst hf
        obtain ⟨hfe, hn⟩ := extLoop_ok _ _ _ _ _ hl
        have hi := extInit_features payload
        refine ⟨hn (by rewrite [hi.2.2.2]; exact Nat.zero_le _), Nat.pos_of_ne_zero hz, fun _ => ?_⟩
        rewrite [hfe]; exact ⟨hi.1, hi.2.1⟩
  rewrite [if_neg c1] at h
  by_cases c2 : le32 payload 0 = ccVP8
  · rewrite [if_pos c2] at h
    rcases parseSimpleVP8_cases payload with ⟨e, hx⟩ | ⟨_, _, hx⟩
    · rewrite [hx] at h; cases h
    · rewrite [hx] at h; injection h with h; subst h
      exact ⟨maxFrames_pos, Nat.le_refl _, fun hne => absurd rfl hne⟩
  rewrite [if_neg c2] at h
  by_cases c3 : le32 payload 0 = ccVP8L
  · rewrite [if_pos c3] at h
    rcases parseSimpleVP8L_cases payload with ⟨e, hx⟩ | ⟨_, _, hx⟩
    · rewrite [hx] at h; cases h
    · rewrite [hx] at h; injection h with h; subst h
      exact ⟨maxFrames_pos, Nat.le_refl _, fun _ => ⟨Nat.le_add_left _ _, Nat.le_add_left _ _⟩⟩
  · rewrite [if_neg c3] at h; cases h

end Webp.Impl.Demux
