import Webp.Proofs.ContainerBasic
import Webp.Impl.Writer
/-
  Normal forms of the container writers (C02 / C15).

  `Impl.Writer` models `writeRIFFSimple` / `writeRIFFExtended` as Go does them: allocate a zero
  buffer, store fields at explicit offsets.  Here: under the size hypotheses the result is the
  concatenation `riffFile (chunk … ++ chunk …)`.
-/
namespace Webp.Impl.Writer
open Webp.Go
open Webp.Impl.Parser (ccRIFF ccWEBP ccVP8 ccVP8L ccVP8X ccALPH ccICCP ccEXIF ccXMP
  chunkHeaderSize vp8xChunkSize)
set_option maxHeartbeats 400000

/-! ### byte blocks -/

/-- the RIFF pad byte -/
def pad (d : Bytes) : Bytes := if d.length % 2 ≠ 0 then [0] else []

/-- one chunk: FourCC, size, payload, pad -/
def chunkBytes (fcc : Nat) (d : Bytes) : Bytes := putLE32 fcc ++ putLE32 d.length ++ d ++ pad d

/-- `if len(d) > 0 { writeChunk(fcc, d) }` -/
def optChunkBytes (fcc : Nat) (d : Bytes) : Bytes := if d.length > 0 then chunkBytes fcc d else []

/-- the ten payload bytes of VP8X -/
def vp8xPayload (flags : Nat) (w h : Int) : Bytes :=
  putLE32 flags ++ putLE24 (u32OfInt (w - 1)) ++ putLE24 (u32OfInt (h - 1))

/-- `RIFF` size `WEBP` body -/
def riffFile (body : Bytes) : Bytes :=
  putLE32 ccRIFF ++ putLE32 (4 + body.length) ++ putLE32 ccWEBP ++ body

/-- everything behind `WEBP` in the extended layout -/
def extBody (fourcc : Nat) (bs alpha : Bytes) (w h : Int) (icc exif xmp : Bytes) : Bytes :=
  putLE32 ccVP8X ++ putLE32 10 ++ vp8xPayload (vp8xFlags fourcc bs alpha icc exif xmp) w h
    ++ optChunkBytes ccICCP icc ++ optChunkBytes ccALPH alpha ++ chunkBytes fourcc bs
    ++ optChunkBytes ccEXIF exif ++ optChunkBytes ccXMP xmp

theorem putLE32_length (v : Nat) : (putLE32 v).length = 4 := rfl
theorem putLE24_length (v : Nat) : (putLE24 v).length = 3 := rfl
theorem putLE16_length (v : Nat) : (putLE16 v).length = 2 := rfl

theorem pad_length (d : Bytes) : (pad d).length = d.length % 2 := by
  unfold pad
  by_cases h : d.length % 2 ≠ 0
  · rw [if_pos h]; show 1 = _; omega
  · rw [if_neg h]; show 0 = _; omega

theorem chunkBytes_length (fcc : Nat) (d : Bytes) :
    (chunkBytes fcc d).length = 8 + d.length + d.length % 2 := by
  unfold chunkBytes
  rw [List.length_append, List.length_append, List.length_append, putLE32_length, putLE32_length,
    pad_length]

theorem optChunkBytes_length (fcc : Nat) (d : Bytes) :
    (optChunkBytes fcc d).length = if d.length > 0 then 8 + d.length + d.length % 2 else 0 := by
  unfold optChunkBytes
  by_cases h : d.length > 0
  · rw [if_pos h, if_pos h, chunkBytes_length]
  · rw [if_neg h, if_neg h]; rfl

theorem vp8xPayload_length (f : Nat) (w h : Int) : (vp8xPayload f w h).length = 10 := rfl

theorem putLE32_u32 (v : Nat) : putLE32 (u32 v) = putLE32 v := by
  unfold putLE32 u32
  have e0 : v % 4294967296 % 256 = v % 256 := by omega
  have e1 : v % 4294967296 / 256 % 256 = v / 256 % 256 := by omega
  have e2 : v % 4294967296 / 65536 % 256 = v / 65536 % 256 := by omega
  have e3 : v % 4294967296 / 16777216 % 256 = v / 16777216 % 256 := by omega
  rw [e0, e1, e2, e3]

/-! ### stores into a zero-initialised buffer, left to right -/

theorem zeros_length (n : Nat) : (zeros n).length = n := List.length_replicate

theorem putAt_zeros (pre src : Bytes) (m : Nat) (h : src.length ≤ m) :
    putAt (pre ++ zeros m) pre.length src = .ok ((pre ++ src) ++ zeros (m - src.length)) := by
  unfold putAt
  have hl : pre.length + src.length ≤ (pre ++ zeros m).length := by
    rw [List.length_append, zeros_length]; omega
  rw [if_pos hl, List.take_left' rfl, List.drop_length_add_append]
  unfold zeros
  rw [List.drop_replicate]

theorem copyAt_zeros (pre src : Bytes) (m : Nat) (h : src.length ≤ m) :
    copyAt (pre ++ zeros m) pre.length src = .ok ((pre ++ src) ++ zeros (m - src.length)) := by
  unfold copyAt
  have hl : pre.length ≤ (pre ++ zeros m).length := by
    rw [List.length_append]; omega
  have hmin : min ((pre ++ zeros m).length - pre.length) src.length = src.length := by
    rw [List.length_append, zeros_length]; omega
  rw [if_pos hl, hmin, List.take_left' rfl, List.drop_length_add_append, List.take_length]
  unfold zeros
  rw [List.drop_replicate]

theorem setAt_zeros (pre : Bytes) (m : Nat) (h : 1 ≤ m) :
    setAt (pre ++ zeros m) pre.length 0 = .ok ((pre ++ [0]) ++ zeros (m - 1)) := by
  unfold setAt
  have hl : pre.length < (pre ++ zeros m).length := by
    rw [List.length_append, zeros_length]; omega
  rw [if_pos hl, List.set_append_right _ _ (Nat.le_refl _), Nat.sub_self]
  obtain ⟨k, rfl⟩ : ∃ k, m = k + 1 := ⟨m - 1, by omega⟩
  unfold zeros
  rw [List.replicate_succ, List.set_cons_zero, Nat.add_sub_cancel, List.append_assoc]
  rfl

/-- buffer whose first `pre.length` bytes are written and `off` stands behind them -/
def Wst (pre : Bytes) (m : Nat) : W := ⟨pre ++ zeros m, pre.length⟩

theorem Wst_off (pre : Bytes) (m : Nat) : (Wst pre m).off = pre.length := rfl
theorem Wst_buf (pre : Bytes) (m : Nat) : (Wst pre m).buf = pre ++ zeros m := rfl

theorem put32_W (pre : Bytes) (m v : Nat) (h : 4 ≤ m) :
    (Wst pre m).put32 v = .ok (Wst (pre ++ putLE32 v) (m - 4)) := by
  unfold W.put32 Wst
  show (putAt (pre ++ zeros m) pre.length (putLE32 v) >>= _) = _
  rw [putAt_zeros _ _ _ (by rw [putLE32_length]; exact h), Res.bind_ok, putLE32_length,
    List.length_append, putLE32_length]
  rfl

theorem put24_W (pre : Bytes) (m v : Nat) (h : 3 ≤ m) :
    (Wst pre m).put24 v = .ok (Wst (pre ++ putLE24 v) (m - 3)) := by
  unfold W.put24 Wst
  show (putAt (pre ++ zeros m) pre.length (putLE24 v) >>= _) = _
  rw [putAt_zeros _ _ _ (by rw [putLE24_length]; exact h), Res.bind_ok, putLE24_length,
    List.length_append, putLE24_length]
  rfl

theorem chunk_W (pre : Bytes) (m fcc : Nat) (d : Bytes) (h : (chunkBytes fcc d).length ≤ m) :
    (Wst pre m).chunk fcc d = .ok (Wst (pre ++ chunkBytes fcc d) (m - (chunkBytes fcc d).length)) := by
  rw [chunkBytes_length] at h
  unfold W.chunk
  rw [put32_W _ _ _ (by omega), Res.bind_ok, put32_W _ _ _ (by omega), Res.bind_ok, putLE32_u32]
  show (copyAt ((pre ++ putLE32 fcc ++ putLE32 d.length) ++ zeros (m - 4 - 4))
      (pre ++ putLE32 fcc ++ putLE32 d.length).length d >>= _) = _
  rw [copyAt_zeros _ _ _ (by omega), Res.bind_ok]
  have hoff : (pre ++ putLE32 fcc ++ putLE32 d.length).length + d.length =
      (pre ++ putLE32 fcc ++ putLE32 d.length ++ d).length := by
    exact List.length_append.symm
  dsimp only
  rw [Wst_off, hoff]
  by_cases hodd : d.length % 2 ≠ 0
  · rw [if_pos hodd, setAt_zeros _ _ (by omega), Res.bind_ok]
    unfold chunkBytes pad Wst
    rw [if_pos hodd]
    have e1 : pre ++ putLE32 fcc ++ putLE32 d.length ++ d ++ [0] =
        pre ++ (putLE32 fcc ++ putLE32 d.length ++ d ++ [0]) := by
      simp only [List.append_assoc]
    have e2 : (pre ++ putLE32 fcc ++ putLE32 d.length ++ d).length + 1 =
        (pre ++ (putLE32 fcc ++ putLE32 d.length ++ d ++ [0])).length := by
      simp only [List.length_append, List.length_cons, List.length_nil]; omega
    have e3 : m - 4 - 4 - d.length - 1 =
        m - (putLE32 fcc ++ putLE32 d.length ++ d ++ [0]).length := by
      simp only [List.length_append, List.length_cons, List.length_nil, putLE32_length]; omega
    show Res.ok (W.mk _ _) = Res.ok (W.mk _ _)
    rw [e1, e2, e3]
  · rw [if_neg hodd]
    unfold chunkBytes pad Wst
    rw [if_neg hodd]
    have e1 : pre ++ putLE32 fcc ++ putLE32 d.length ++ d =
        pre ++ (putLE32 fcc ++ putLE32 d.length ++ d ++ []) := by
      simp only [List.append_assoc, List.append_nil]
    have e3 : m - 4 - 4 - d.length =
        m - (putLE32 fcc ++ putLE32 d.length ++ d ++ []).length := by
      simp only [List.length_append, List.length_nil, putLE32_length]; omega
    show Res.ok (W.mk _ _) = Res.ok (W.mk _ _)
    rw [e1, e3]

theorem optChunk_W (pre : Bytes) (m fcc : Nat) (d : Bytes) (h : (optChunkBytes fcc d).length ≤ m) :
    (Wst pre m).optChunk fcc d =
      .ok (Wst (pre ++ optChunkBytes fcc d) (m - (optChunkBytes fcc d).length)) := by
  unfold W.optChunk optChunkBytes at *
  by_cases hd : d.length > 0
  · rw [if_pos hd] at h ⊢
    rw [if_pos hd]
    exact chunk_W _ _ _ _ h
  · rw [if_neg hd, if_neg hd, List.append_nil]
    rfl

/-! ### normal form of `writeRIFFSimple` -/

/-- the simple layout as a concatenation -/
def simpleFile (fourcc : Nat) (bs : Bytes) : Bytes := riffFile (chunkBytes fourcc bs)

theorem Wst_nil (m : Nat) : (⟨zeros m, 0⟩ : W) = Wst [] m := rfl

theorem putAt_W (pre src : Bytes) (m : Nat) (h : src.length ≤ m) :
    putAt (Wst pre m).buf pre.length src = .ok (Wst (pre ++ src) (m - src.length)).buf :=
  putAt_zeros pre src m h

theorem putAt_zeros' (pre src : Bytes) (m k n : Nat) (hk : k = pre.length) (hn : src.length = n)
    (h : n ≤ m) : putAt (pre ++ zeros m) k src = .ok ((pre ++ src) ++ zeros (m - n)) := by
  subst hk hn; exact putAt_zeros pre src m h

theorem copyAt_zeros' (pre src : Bytes) (m k : Nat) (hk : k = pre.length) (h : src.length ≤ m) :
    copyAt (pre ++ zeros m) k src = .ok ((pre ++ src) ++ zeros (m - src.length)) := by
  subst hk; exact copyAt_zeros pre src m h

theorem setAt_zeros' (pre : Bytes) (m k : Nat) (hk : k = pre.length) (h : 1 ≤ m) :
    setAt (pre ++ zeros m) k 0 = .ok ((pre ++ [0]) ++ zeros (m - 1)) := by
  subst hk; exact setAt_zeros pre m h

/-- `writeRIFFSimple` writes `RIFF size WEBP fourcc len payload [0]` whenever the total file
    length fits `uint32` (`20 + len + pad < 2^32`). -/
theorem writeRIFFSimple_eq (fourcc : Nat) (bs : Bytes)
    (h : 20 + bs.length + bs.length % 2 < 4294967296) :
    writeRIFFSimple fourcc bs = .ok (simpleFile fourcc bs) := by
  unfold writeRIFFSimple simpleFile riffFile chunkHeaderSize
  have hp : u32 bs.length = bs.length := by unfold u32; omega
  rw [hp]
  have hpp : u32 (bs.length + bs.length % 2) = bs.length + bs.length % 2 := by unfold u32; omega
  have hr : u32 (4 + 8 + (bs.length + bs.length % 2)) = 4 + (chunkBytes fourcc bs).length := by
    rw [chunkBytes_length]; unfold u32; omega
  have ht : u32 (8 + (4 + (chunkBytes fourcc bs).length)) = 20 + (bs.length + bs.length % 2) := by
    rw [chunkBytes_length]; unfold u32; omega
  dsimp only
  rw [hpp, hr, ht]
  generalize 4 + (chunkBytes fourcc bs).length = RS
  have z0 : zeros (20 + (bs.length + bs.length % 2)) =
      ([] : Bytes) ++ zeros (20 + (bs.length + bs.length % 2)) := rfl
  rw [z0, putAt_zeros' [] (putLE32 ccRIFF) _ 0 4 rfl rfl (by omega), Res.bind_ok,
    putAt_zeros' _ (putLE32 RS) _ 4 4 rfl rfl (by omega), Res.bind_ok,
    putAt_zeros' _ (putLE32 ccWEBP) _ 8 4 rfl rfl (by omega), Res.bind_ok,
    putAt_zeros' _ (putLE32 fourcc) _ 12 4 rfl rfl (by omega), Res.bind_ok,
    putAt_zeros' _ (putLE32 bs.length) _ 16 4 rfl rfl (by omega), Res.bind_ok,
    copyAt_zeros' _ bs _ 20 rfl (by omega), Res.bind_ok]
  by_cases hodd : bs.length % 2 ≠ 0
  · rw [if_pos hodd]
    have hD : u32 (20 + bs.length) =
        ([] ++ putLE32 ccRIFF ++ putLE32 RS ++ putLE32 ccWEBP ++ putLE32 fourcc ++
          putLE32 bs.length ++ bs : Bytes).length := by
      rw [List.length_append]; unfold u32
      show (20 + bs.length) % 4294967296 = 20 + bs.length
      omega
    rw [setAt_zeros' _ _ _ hD (by omega)]
    have hz : 20 + (bs.length + bs.length % 2) - 4 - 4 - 4 - 4 - 4 - bs.length - 1 = 0 := by omega
    rw [hz]
    unfold chunkBytes pad zeros
    rw [if_pos hodd, List.replicate_zero, List.append_nil]
    simp only [List.nil_append, List.append_assoc]
  · rw [if_neg hodd]
    have hz : 20 + (bs.length + bs.length % 2) - 4 - 4 - 4 - 4 - 4 - bs.length = 0 := by omega
    rw [hz]
    unfold chunkBytes pad zeros
    rw [if_neg hodd, List.replicate_zero, List.append_nil]
    simp only [List.nil_append, List.append_assoc, List.append_nil, Res.pure_eq]

/-- the streaming path writes the same bytes (for every length: the header arithmetic is the
    same `uint32` arithmetic) whenever the buffered writer's file length fits `uint32` -/
theorem streamingWrite_eq (bs : Bytes) (h : 20 + bs.length + bs.length % 2 < 4294967296) :
    streamingWrite bs = simpleFile ccVP8L bs := by
  unfold streamingWrite streamingHeader simpleFile riffFile chunkHeaderSize
  have hp : u32 bs.length = bs.length := by unfold u32; omega
  have hpp : u32 (bs.length + bs.length % 2) = bs.length + bs.length % 2 := by unfold u32; omega
  have hr : u32 (4 + 8 + (bs.length + bs.length % 2)) = 4 + (chunkBytes ccVP8L bs).length := by
    rw [chunkBytes_length]; unfold u32; omega
  dsimp only
  rw [hp, hpp, hr]
  unfold chunkBytes pad
  simp only [List.append_assoc]

end Webp.Impl.Writer
