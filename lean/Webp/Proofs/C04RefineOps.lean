import Webp.Proofs.C04RefineBool
import Webp.Proofs.BoolOps
import Webp.Impl.VP8SyntaxBytes
/-
  C04 refinement, layer 1 continued: what the callers of the boolean decoders use.

  * `GetValue(n)` / `GetSignedValue(n)` vs `read_literal(n)` / the header's magnitude-then-sign fields;
  * `GetSigned` (the coefficient sign) is `GetBit(0x80)` in every state but a fresh reader's
    (`Range = 254`), where it leaves `Range = 255` — a state no decision produces;
  * a partition inside the frame's byte array (`BoolDec.init b start stop`) vs the Go reader over the
    partition's bytes (`newReader (sliceOf b start stop)`);
  * decision trees (`Webp.Impl.VP8SyntaxBytes.P`): the tree run on a Go reader and on a reference
    decoder in step returns the same value and leaves them in step.
-/
namespace Webp.Proofs.C04RefineOps
open Webp.Go (Bytes)
open Webp.Impl.BoolCoder
open Webp.Spec.VP8 (BoolDec)
open Webp.Spec.VP8.BoolIdeal
open Webp.Proofs.BoolIdeal
open Webp.Proofs.BoolReader
open Webp.Proofs.BoolSpecDec
open Webp.Proofs.C04RefineBool
open Webp.Impl.VP8SyntaxBytes (P runR)
open Webp.Impl.VP8Recon (Slot)

/-! ## literals -/

/-- the number denoted by booleans, most significant first -/
def ofBits : List Bool → Nat
  | [] => 0
  | b :: bs => (if b then 1 else 0) * 2 ^ bs.length + ofBits bs

theorem ofBits_lt (l : List Bool) : ofBits l < 2 ^ l.length := by
  induction l with
  | nil => simp [ofBits]
  | cons b bs ih =>
    rw [ofBits, List.length_cons, pow_succ]
    split_ifs <;> omega

theorem getValueLoop_bits (i : Nat) (hi : i ≤ 32) (r : BoolReader) (v : Nat) :
    getValueLoop r v i =
      (v ||| ofBits (readBitsSt r (List.replicate i 128)).1, (readBitsSt r (List.replicate i 128)).2) := by
  induction i generalizing r v with
  | zero => show (v, r) = (v ||| 0, r); simp
  | succ i ih =>
    show getValueLoop (getBit r 128).2 (v ||| wrap32 ((if (getBit r 128).1 then 1 else 0) <<< i)) i = _
    rw [ih (by omega), List.replicate_succ, Webp.Proofs.BoolOps.readBitsSt_cons]
    congr 1
    rw [Nat.or_assoc]
    congr 1
    have hlen : (readBitsSt (getBit r 128).2 (List.replicate i 128)).1.length = i := by
      rw [Webp.Proofs.BoolOps.readBitsSt_length]; simp
    have hlt := ofBits_lt (readBitsSt (getBit r 128).2 (List.replicate i 128)).1
    rw [hlen] at hlt
    rw [ofBits, hlen]
    have h2i : 2 ^ i < 2 ^ 32 := Nat.pow_lt_pow_right (by norm_num) (by omega)
    have hw : wrap32 ((if (getBit r 128).1 then 1 else 0) <<< i) = (if (getBit r 128).1 then 1 else 0) * 2 ^ i := by
      rw [Nat.shiftLeft_eq]
      apply wrap32_of_lt
      split_ifs <;> omega
    rw [hw, Nat.or_comm, or_eq_add hlt]

theorem getValue_bits (n : Nat) (hn : n ≤ 32) (r : BoolReader) :
    getValue r n = (ofBits (readBitsSt r (List.replicate n 128)).1, (readBitsSt r (List.replicate n 128)).2) := by
  unfold getValue
  rw [getValueLoop_bits n hn r 0, Nat.zero_or]

theorem readLiteral_bits (i : Nat) (d : BoolDec) (acc : Nat) :
    BoolDec.readLiteral i d acc =
      (acc * 2 ^ i + ofBits (specBitsSt d (List.replicate i 128)).1, (specBitsSt d (List.replicate i 128)).2) := by
  induction i generalizing d acc with
  | zero => show (acc, d) = (acc * 1 + 0, d); simp
  | succ i ih =>
    have e : BoolDec.readLiteral (i + 1) d acc =
        BoolDec.readLiteral i (d.readBool 128).2 (2 * acc + (if (d.readBool 128).1 then 1 else 0)) := rfl
    rw [e, ih]
    have hlen : (specBitsSt (d.readBool 128).2 (List.replicate i 128)).1.length = i := by
      generalize (d.readBool 128).2 = d1
      clear e ih
      induction i generalizing d1 with
      | zero => rfl
      | succ i ih2 => rw [List.replicate_succ]; show (_ :: _).length = _; rw [List.length_cons, ih2]
    show _ = (acc * 2 ^ (i + 1) + ofBits ((d.readBool 128).1 :: (specBitsSt (d.readBool 128).2 (List.replicate i 128)).1), _)
    rw [ofBits, hlen]
    congr 1
    rw [pow_succ]; ring

theorem replicate_le (n : Nat) : ∀ p ∈ List.replicate n 128, p ≤ 255 := by
  intro p hp; rw [List.mem_replicate] at hp; omega

/-- `GetValue(n)` = `read_literal(n)` for `n ≤ 32` -/
theorem getValue_sim {F : Bytes} {r : BoolReader} {d : BoolDec} (h : Sim F r d) (n : Nat) (hn : n ≤ 32)
    (hfree : PastEndFree r (List.replicate n 128)) :
    (getValue r n).1 = (BoolDec.readLiteral n d).1 ∧ Sim F (getValue r n).2 (BoolDec.readLiteral n d).2 ∧
      (n ≠ 0 → (getValue r n).2.eof = (BoolDec.readLiteral n d).2.over) := by
  obtain ⟨a, b, c⟩ := sim_run (replicate_le n) h hfree
  rw [getValue_bits n hn, readLiteral_bits]
  refine ⟨?_, b, ?_⟩
  · show ofBits _ = 0 * 2 ^ n + ofBits _
    rw [a]; simp
  · intro h0
    apply c
    intro hh
    apply h0
    cases n with
    | zero => rfl
    | succ n => rw [List.replicate_succ] at hh; cases hh

theorem readBitsSt_snoc (r : BoolReader) (a : List Nat) (p : Nat) :
    readBitsSt r (a ++ [p]) =
      ((readBitsSt r a).1 ++ [(getBit (readBitsSt r a).2 p).1], (getBit (readBitsSt r a).2 p).2) := by
  rw [Webp.Proofs.BoolOps.readBitsSt_append]; rfl

theorem pastEndFree_append (r : BoolReader) (a b : List Nat) (h : PastEndFree r (a ++ b)) :
    PastEndFree r a ∧ PastEndFree (readBitsSt r a).2 b := by
  induction a generalizing r with
  | nil => exact ⟨trivial, h⟩
  | cons p ps ih =>
    obtain ⟨h1, h2⟩ := h
    obtain ⟨i1, i2⟩ := ih _ h2
    exact ⟨⟨h1, i1⟩, i2⟩

/-- `GetSignedValue(n)` = magnitude of `n` bits, then the sign (`readSigned`), for `n ≤ 31` -/
theorem getSignedValue_sim {F : Bytes} {r : BoolReader} {d : BoolDec} (h : Sim F r d) (n : Nat) (hn : n ≤ 31)
    (hfree : PastEndFree r (List.replicate n 128 ++ [128])) :
    (getSignedValue r n).1 = (BoolDec.readSigned n d).1 ∧
      Sim F (getSignedValue r n).2 (BoolDec.readSigned n d).2 ∧
      (getSignedValue r n).2.eof = (BoolDec.readSigned n d).2.over := by
  obtain ⟨hf1, hf2⟩ := pastEndFree_append r _ _ hfree
  obtain ⟨hpe, _⟩ := hf2
  obtain ⟨a, b, _⟩ := getValue_sim h n (by omega) hf1
  have hv2 : (getValue r n).2 = (readBitsSt r (List.replicate n 128)).2 := by rw [getValue_bits n (by omega)]
  rw [← hv2] at hpe
  obtain ⟨sb, ss, sf⟩ := sim_step b hpe (by omega : (128 : Nat) ≤ 255)
  have hlt : (getValue r n).1 < 2 ^ 31 := by
    rw [getValue_bits n (by omega)]
    have := ofBits_lt (readBitsSt r (List.replicate n 128)).1
    rw [Webp.Proofs.BoolOps.readBitsSt_length, List.length_replicate] at this
    exact lt_of_lt_of_le this (Nat.pow_le_pow_right (by norm_num) hn)
  have eg : getSignedValue r n =
      (if (getBit (getValue r n).2 128).1 then
        (if (if (getValue r n).1 ≥ 2 ^ 31 then ((getValue r n).1 : Int) - 2 ^ 32 else ((getValue r n).1 : Int)) = -2 ^ 31
          then (if (getValue r n).1 ≥ 2 ^ 31 then ((getValue r n).1 : Int) - 2 ^ 32 else ((getValue r n).1 : Int))
          else -(if (getValue r n).1 ≥ 2 ^ 31 then ((getValue r n).1 : Int) - 2 ^ 32 else ((getValue r n).1 : Int)))
       else (if (getValue r n).1 ≥ 2 ^ 31 then ((getValue r n).1 : Int) - 2 ^ 32 else ((getValue r n).1 : Int)),
       (getBit (getValue r n).2 128).2) := rfl
  have es : BoolDec.readSigned n d =
      (if ((BoolDec.readLiteral n d).2.readBool 128).1 then - (Int.ofNat (BoolDec.readLiteral n d).1)
       else Int.ofNat (BoolDec.readLiteral n d).1, ((BoolDec.readLiteral n d).2.readBool 128).2) := rfl
  rw [eg, es]
  refine ⟨?_, ss, sf⟩
  show (if (getBit (getValue r n).2 128).1 then _ else _) = (if ((BoolDec.readLiteral n d).2.readBool 128).1 then _ else _)
  rw [← sb, ← a]
  have hnge : ¬ (getValue r n).1 ≥ 2 ^ 31 := by omega
  rw [if_neg hnge]
  have hne : ¬ (((getValue r n).1 : Int) = -2 ^ 31) := by
    have : (0 : Int) ≤ ((getValue r n).1 : Int) := Int.natCast_nonneg _
    have h31 : (-2 ^ 31 : Int) < 0 := by norm_num
    omega
  rw [if_neg hne]
  rfl

/-! ## `GetSigned` -/

/-- `GetSigned` after the load -/
def getSignedCore (r : BoolReader) (range0 : Nat) : Bool × BoolReader :=
  let pos := r.bits
  let split := range0 >>> 1
  let value := wrap32 (shrU64 r.value pos)
  let mask : Bool := wrap32 (split + 2^32 - value) ≥ 2^31
  let range := wrap32 (range0 + (if mask then 2^32 - 1 else 0)) ||| 1
  let val' := subU64 r.value (shlU64 (if mask then split + 1 else 0) pos)
  (mask, { r with bits := r.bits - 1, range, value := val' })

theorem getSigned_eq (r : BoolReader) :
    getSigned r = getSignedCore (if r.bits < 0 then loadNewBytes r else r)
      (if r.bits < 0 then loadNewBytes r else r).range := rfl

set_option maxRecDepth 100000 in
theorem signed_tables : ∀ range, range < 254 → 127 ≤ range →
    wrap32 (wrap32 (range * 128) >>> 8) = range >>> 1 ∧
    7 ^^^ (len32 (wrap32 (range + 2 ^ 32 - range >>> 1)) - 1) = 1 ∧
    wrap32 (wrap32 (wrap32 (range + 2 ^ 32 - range >>> 1) <<< 1) + 2 ^ 32 - 1) = wrap32 (range + (2 ^ 32 - 1)) ||| 1 ∧
    7 ^^^ (len32 (wrap32 (range >>> 1 + 1)) - 1) = 1 ∧
    wrap32 (wrap32 (wrap32 (range >>> 1 + 1) <<< 1) + 2 ^ 32 - 1) = wrap32 (range + 0) ||| 1 := by
  decide

theorem mask_iff (split W : Nat) (hs : split < 256) (hw : W < 256) :
    (wrap32 (split + 2 ^ 32 - W) ≥ 2 ^ 31) ↔ W > split := by
  unfold wrap32
  have e32 : (2 : Nat) ^ 32 = 4294967296 := by norm_num
  have e31 : (2 : Nat) ^ 31 = 2147483648 := by norm_num
  rw [e32, e31]
  omega

theorem loadNewBytes_range (r : BoolReader) : (loadNewBytes r).range = r.range := by
  unfold loadNewBytes loadFinalBytes
  split_ifs <;> rfl

/-- after the load, `GetSigned` is `GetBit(0x80)` when `Range ≤ 253` -/
theorem signedCore_eq {G : Bytes} {r : BoolReader} {d : Dec} (h : RInv G r d) (h0 : 0 ≤ r.bits)
    {range : Nat} (hrange : range + 1 = d.range) (h253 : range ≤ 253) :
    getSignedCore r range = getBitCore r range 128 := by
  obtain ⟨hd1, hd2, hd3⟩ := h.hd
  obtain ⟨B, hB⟩ : ∃ B : Nat, r.bits = (B : Int) := ⟨r.bits.toNat, by omega⟩
  have hB55 : B ≤ 55 := by have := h.hb2; omega
  set u := 8 * (G.length - r.pos) with hu
  have he : d.e = B + u := by have := h.hbits; omega
  have hvalB : r.value / 2 ^ B < d.range := by
    rw [h.hval, Nat.div_div_eq_div_mul, ← pow_add]
    apply Nat.div_lt_of_lt_mul
    rw [Nat.add_comm, ← he, Nat.mul_comm]; exact hd3
  have hwin : wrap32 (shrU64 r.value r.bits) = r.value / 2 ^ B := by
    have h255 : (255 : Nat) < 2 ^ 32 := by norm_num
    have hlt32 : r.value / 2 ^ B < 2 ^ 32 := by omega
    rw [shrU64_of hB (by omega), wrap32_of_lt hlt32]
  have hv64 : r.value < 2 ^ 64 := by
    have h1 : r.value < d.range * 2 ^ B := (Nat.div_lt_iff_lt_mul (Nat.two_pow_pos B)).mp hvalB
    have h2 : 2 ^ B ≤ 2 ^ 55 := Nat.pow_le_pow_right (by norm_num) hB55
    calc r.value < d.range * 2 ^ B := h1
      _ ≤ 255 * 2 ^ 55 := Nat.mul_le_mul hd2 h2
      _ < 2 ^ 64 := by norm_num
  obtain ⟨t1, t2, t3, t4, t5⟩ := signed_tables range (by omega) (by omega)
  have hsp : range >>> 1 < 256 := by rw [Nat.shiftRight_eq_div_pow]; omega
  have hm := mask_iff (range >>> 1) (r.value / 2 ^ B) hsp (by omega)
  unfold getSignedCore getBitCore
  simp only [hwin, t1]
  by_cases hbit : r.value / 2 ^ B > range >>> 1
  · have hmask : wrap32 (range >>> 1 + 2 ^ 32 - r.value / 2 ^ B) ≥ 2 ^ 31 := hm.mpr hbit
    simp only [hmask, hbit, decide_true, if_true, t2, t3]
    rfl
  · have hmask : ¬ wrap32 (range >>> 1 + 2 ^ 32 - r.value / 2 ^ B) ≥ 2 ^ 31 := fun hh => hbit (hm.mp hh)
    simp only [hmask, hbit, decide_false, Bool.false_eq_true, if_false, t4, t5]
    have hz : shlU64 0 r.bits = 0 := by
      unfold shlU64 wrap64; split_ifs <;> simp
    have hs : subU64 r.value 0 = r.value := subU64_of (Nat.zero_le _) hv64
    rw [hz, hs]
    rfl

/-- put the bookkeeping fields of `r0` back -/
def reattach (r0 : BoolReader) (x : Bool × BoolReader) : Bool × BoolReader :=
  (x.1, { x.2 with data := r0.data, pos := r0.pos, eof := r0.eof })

theorem signedCore_virt (F : Bytes) (r : BoolReader) (range : Nat) :
    getSignedCore r range = reattach r (getSignedCore (virt F r) range) := rfl
theorem bitCore_virt (F : Bytes) (r : BoolReader) (range p : Nat) :
    getBitCore r range p = reattach r (getBitCore (virt F r) range p) := rfl

/-- **`GetSigned` = `GetBit(0x80)`** on any data, in every state in step whose `Range` is not the
    fresh reader's 254. -/
theorem getSigned_eq_getBit {F : Bytes} {r : BoolReader} {d : Dec} (h : GInv F r d) (hpe : pastEnd r = false)
    (h254 : r.range ≠ 254) : getSigned r = getBit r 128 := by
  rw [getSigned_eq, getBit_eq]
  have hr : r.range + 1 = d.range := h.hv.hr
  have hd2 : d.range ≤ 255 := h.hv.hd.2.1
  have h253 : r.range ≤ 253 := by omega
  by_cases hneg : r.bits < 0
  · have he : r.eof = false := by
      unfold pastEnd at hpe
      simpa [hneg] using hpe
    simp only [hneg, if_true]
    obtain ⟨hl, hl0, hlr⟩ := load_ginv h hneg he
    rw [hlr]
    have hc := signedCore_eq hl.hv (by exact hl0) hr h253
    rw [signedCore_virt F, bitCore_virt F, hc]
  · simp only [hneg, if_false]
    have hc := signedCore_eq h.hv (by show 0 ≤ r.bits; omega) hr h253
    rw [signedCore_virt F, bitCore_virt F, hc]

/-- after any decision the ideal width is at most 254, i.e. Go's `Range ≤ 253` -/
theorem get_range_le_254 {d : Dec} (h : DInv d) {p : Nat} (hp : p ≤ 255) : (d.get p).2.range ≤ 254 := by
  obtain ⟨h1, h2, _⟩ := h
  have hlt := split_lt (r := d.range) (p := p) (by omega) hp
  have hpos := split_pos d.range p
  have hle := split_le_254 h2 hp
  rw [get_range]
  unfold shiftOf
  have key : ∀ x, 1 ≤ x → x ≤ 254 → x * 2 ^ normShift x ≤ 254 := by
    intro x hx1 hx2; unfold normShift; split_ifs <;> omega
  by_cases hb : (d.get p).1 = true
  · simp only [hb, if_true]; exact key _ (by omega) (by omega)
  · have hb' : (d.get p).1 = false := by simpa using hb
    simp only [hb', Bool.false_eq_true, if_false]; exact key _ hpos hle

/-! ## a partition inside the frame's byte array -/

/-- the bytes `b[start, min stop |b|)` -/
def sliceOf (b : ByteArray) (start stop : Nat) : Bytes :=
  (b.data.toList.drop start).take (min stop b.size - start)

theorem get!_toList (b : ByteArray) (j : Nat) : b.get! j = b.data.toList.getD j 0 := by
  obtain ⟨arr⟩ := b
  show arr[j]! = arr.toList.getD j 0
  rw [List.getD_eq_getElem?_getD, Array.getElem?_toList, getElem!_def]
  cases arr[j]? <;> rfl

theorem slice_length (b : ByteArray) (s e : Nat) : (sliceOf b s e).length = min e b.size - s := by
  unfold sliceOf
  rw [List.length_take, List.length_drop]
  have : b.data.toList.length = b.size := by rw [Array.length_toList]; rfl
  rw [this]
  omega

theorem slice_getD (b : ByteArray) (s e i : Nat) :
    (sliceOf b s e).getD i 0 = if s + i < min e b.size then b.get! (s + i) else 0 := by
  unfold sliceOf
  rw [List.getD_eq_getElem?_getD, List.getElem?_take]
  split_ifs with h1 h2 h2
  · rw [List.getElem?_drop, get!_toList, List.getD_eq_getElem?_getD]
  · omega
  · omega
  · rfl

theorem specInit_byte (G : Bytes) (i : Nat) :
    (if i < min G.length (ByteArray.mk G.toArray).size then ((ByteArray.mk G.toArray).get! i).toNat else 0)
      = (G.getD i 0).toNat := by
  have hsz : (ByteArray.mk G.toArray).size = G.length := by simp [ByteArray.size]
  rw [hsz, Nat.min_self, get!_mk]
  split_ifs with hi
  · rfl
  · simp [List.getD_eq_getElem?_getD, List.getElem?_eq_none (Nat.le_of_not_lt hi)]

theorem seq_init_slice (b : ByteArray) (start stop : Nat) :
    SEq start (BoolDec.init b start stop) (specInit (pad (sliceOf b start stop))) := by
  have hbyte : ∀ i, (if i + start < min stop b.size then (b.get! (i + start)).toNat else 0)
      = ((pad (sliceOf b start stop)).getD i 0).toNat := by
    intro i
    rw [pad_getD, slice_getD, Nat.add_comm start i]
    split_ifs <;> rfl
  refine ⟨?_, rfl, rfl, by show start + 2 = 0 + 2 + start; omega, by show start = 0 + start; omega, ?_⟩
  · show (if start < min stop b.size then (b.get! start).toNat else 0) * 256 +
        (if start + 1 < min stop b.size then (b.get! (start + 1)).toNat else 0)
      = (if 0 < min (pad (sliceOf b start stop)).length (ByteArray.mk (pad (sliceOf b start stop)).toArray).size
          then ((ByteArray.mk (pad (sliceOf b start stop)).toArray).get! 0).toNat else 0) * 256 +
        (if 0 + 1 < min (pad (sliceOf b start stop)).length (ByteArray.mk (pad (sliceOf b start stop)).toArray).size
          then ((ByteArray.mk (pad (sliceOf b start stop)).toArray).get! (0 + 1)).toNat else 0)
    rw [specInit_byte, specInit_byte, ← hbyte 0, ← hbyte (0 + 1)]
    have e0 : 0 + start = start := by omega
    have e1 : 0 + 1 + start = start + 1 := by omega
    rw [e0, e1]
  · intro i
    show (if i + start < min stop b.size then (b.get! (i + start)).toNat else 0)
      = (if i < min (pad (sliceOf b start stop)).length (ByteArray.mk (pad (sliceOf b start stop)).toArray).size
          then ((ByteArray.mk (pad (sliceOf b start stop)).toArray).get! i).toNat else 0)
    rw [specInit_byte, hbyte]

/-- **a token (or first) partition**: the Go reader over the partition's bytes and the reference
    decoder over the frame's array, positioned on the partition, are in step -/
theorem sim_init_slice (b : ByteArray) (start stop : Nat) (h : NoFF (sliceOf b start stop)) :
    Sim (sliceOf b start stop) (newReader (sliceOf b start stop)) (BoolDec.init b start stop) := by
  have hlen : 2 ≤ (pad (sliceOf b start stop)).length := by
    rw [pad_length]; show 2 ≤ (sliceOf b start stop).length + 4; omega
  obtain ⟨hs, hr⟩ := sinv_init (pad (sliceOf b start stop)) hlen
  refine ⟨ideal0 _, ginv_init _ h, ⟨start, specInit (pad (sliceOf b start stop)), hs, hr, seq_init_slice b start stop, ?_⟩, ?_, ?_⟩
  · show min stop b.size - start = (sliceOf b start stop).length
    rw [slice_length]
  · intro ho; cases ho
  · intro hp
    unfold pastEnd at hp
    simp only [Bool.and_eq_true, decide_eq_true_eq] at hp
    have := newReader_bits_nonneg (sliceOf b start stop)
    omega

/-! ## decision trees -/

/-- a decision tree on the reference decoder: every decision is `bool_read(prob sl)` -/
def runD {α : Type} (prob : Slot → UInt8) : P α → BoolDec → Option (α × BoolDec)
  | .pure a, d => some (a, d)
  | .fail, _ => none
  | .read sl k, d => runD prob (k (d.readBool (prob sl).toNat).1) (d.readBool (prob sl).toNat).2

/-- no decision on the tree's Go path starts past the end -/
def TreeFree {α : Type} (prob : Slot → UInt8) : P α → BoolReader → Prop
  | .pure _, _ => True
  | .fail, _ => True
  | .read sl k, r => pastEnd r = false ∧ TreeFree prob (k (getBit r (prob sl).toNat).1) (getBit r (prob sl).toNat).2

/-- same outcome: both fail, or both return the same value and states in step -/
def TRel {α : Type} (F : Bytes) : Option (α × BoolReader) → Option (α × BoolDec) → Prop
  | none, none => True
  | some (a, r), some (a', d) => a = a' ∧ Sim F r d
  | _, _ => False

theorem prob_le (prob : Slot → UInt8) (sl : Slot) : (prob sl).toNat ≤ 255 := by
  have := (prob sl).toNat_lt; omega

/-- **Transfer.**  A decision tree returns the same on a Go reader and on a reference decoder in
    step (any tree, any probability table). -/
theorem tree_transfer {α : Type} (prob : Slot → UInt8) {F : Bytes} (t : P α) {r : BoolReader} {d : BoolDec}
    (h : Sim F r d) (hfree : TreeFree prob t r) : TRel F (runR prob t r) (runD prob t d) := by
  induction t generalizing r d with
  | pure a => exact ⟨rfl, h⟩
  | fail => trivial
  | read sl k ih =>
    obtain ⟨hpe, hf⟩ := hfree
    obtain ⟨hb, hs, _⟩ := sim_step h hpe (prob_le prob sl)
    show TRel F (runR prob (k (getBit r (prob sl).toNat).1) (getBit r (prob sl).toNat).2)
      (runD prob (k (d.readBool (prob sl).toNat).1) (d.readBool (prob sl).toNat).2)
    rw [← hb]
    exact ih _ hs hf

theorem runR_eof_mono {α : Type} (prob : Slot → UInt8) (t : P α) (r : BoolReader) (a : α) (r' : BoolReader)
    (h : runR prob t r = some (a, r')) (he : r.eof = true) : r'.eof = true := by
  induction t generalizing r with
  | pure b => cases h; exact he
  | fail => cases h
  | read sl k ih => exact ih _ _ h (getBit_eof_mono r _ he)

theorem runD_over_mono {α : Type} (prob : Slot → UInt8) (t : P α) (d : BoolDec) (a : α) (d' : BoolDec)
    (h : runD prob t d = some (a, d')) (he : d.over = true) : d'.over = true := by
  induction t generalizing d with
  | pure b => cases h; exact he
  | fail => cases h
  | read sl k ih => exact ih _ _ h (over_mono d _ he)

/-- the tree succeeded on the Go reader with `eof` still down ⇒ no decision started past the end -/
theorem treeFree_of_eof {α : Type} (prob : Slot → UInt8) (t : P α) (r : BoolReader) (a : α) (r' : BoolReader)
    (h : runR prob t r = some (a, r')) (he : r'.eof = false) : TreeFree prob t r := by
  induction t generalizing r with
  | pure b => trivial
  | fail => trivial
  | read sl k ih =>
    refine ⟨?_, ih _ _ h⟩
    apply pastEnd_of_eof_false
    by_contra hc
    have hc' : r.eof = true := by simpa using hc
    have := runR_eof_mono prob (P.read sl k) r a r' h hc'
    rw [this] at he; cases he

/-- the tree succeeded on the reference decoder without going over ⇒ no Go decision started past
    the end -/
theorem treeFree_of_over {α : Type} (prob : Slot → UInt8) {F : Bytes} (t : P α) {r : BoolReader} {d : BoolDec}
    (hs : Sim F r d) (a : α) (d' : BoolDec) (h : runD prob t d = some (a, d')) (ho : d'.over = false) :
    TreeFree prob t r := by
  induction t generalizing r d with
  | pure b => trivial
  | fail => trivial
  | read sl k ih =>
    have hd : d.over = false := by
      by_contra hc
      have hc' : d.over = true := by simpa using hc
      have := runD_over_mono prob (P.read sl k) d a d' h hc'
      rw [this] at ho; cases ho
    have hpe : pastEnd r = false := by
      obtain ⟨di, _, _, _, hq⟩ := hs
      by_contra hc
      have hc' : pastEnd r = true := by simpa using hc
      have := hq hc'
      rw [this] at hd; cases hd
    obtain ⟨hb, hs', _⟩ := sim_step hs hpe (prob_le prob sl)
    refine ⟨hpe, ih _ hs' ?_⟩
    rw [hb]; exact h

theorem runD_bind {α β : Type} (prob : Slot → UInt8) (x : P α) (f : α → P β) (d : BoolDec) :
    runD prob (x >>= f) d = (runD prob x d).bind fun (a, d) => runD prob (f a) d := by
  induction x generalizing d with
  | pure a => rfl
  | fail => rfl
  | read sl k ih => exact ih _ _

end Webp.Proofs.C04RefineOps
