import Webp.Impl.VP8HeaderBytes
import Webp.Proofs.VP8SyntaxTransfer
/-
  C06 header, part 1: on the decision stream, the decoder's header reads return what the encoder's
  header calls wrote.
-/
namespace Webp.Proofs.VP8HeaderStream
open Webp.Impl.VP8Recon Webp.Impl.VP8SyntaxBytes Webp.Impl.VP8HeaderBytes Webp.Impl.BoolCoder
open Webp.Proofs.VP8SyntaxTrees
open Webp.Proofs.BoolReader (wrap32_of_lt or_eq_add)

theorem opsStream_append (a b : List Op) : opsStream (a ++ b) = opsStream a ++ opsStream b := by
  unfold opsStream; rw [List.flatMap_append]
theorem opsStream_cons (a : Op) (b : List Op) : opsStream (a :: b) = opStream a ++ opsStream b := rfl
theorem opsStream_nil : opsStream [] = [] := rfl

/-- sequencing: if `x` consumes `s` down to `rest` with value `a`, `x >>= f` continues with `f a` -/
theorem runS_bind_of {α β : Type} {x : P α} {s rest : Stream} {a : α} (h : runS x s = some (a, rest))
    (f : α → P β) : runS (x >>= f) s = runS (f a) rest := by
  rw [runS_bind, h]; rfl

theorem runS_flag (b : Bool) (rest : Stream) : runS T.flag (⟨.fixed 128, b⟩ :: rest) = some (b, rest) := by
  simp [T.flag, rd, runS, readBit]

theorem runS_rdfixed (u : Nat) (b : Bool) (rest : Stream) : runS (rd (.fixed u)) (⟨.fixed u, b⟩ :: rest) = some (b, rest) := by
  simp [rd, runS, readBit]

theorem runS_getValueLoop (v i : Nat) (hi : i ≤ 32) (acc : Nat) (rest : Stream) :
    runS (T.getValueLoop acc i) (msbS v i ++ rest) = some (acc ||| v % 2 ^ i, rest) := by
  induction i generalizing acc with
  | zero => simp [T.getValueLoop, msbS, Nat.mod_one]
  | succ i ih =>
    show runS (T.flag >>= _) (⟨.fixed 128, v.testBit i⟩ :: (msbS v i ++ rest)) = _
    rw [runS_bind_of (runS_flag _ _), ih (by omega)]
    congr 2
    rw [Nat.or_assoc]
    congr 1
    have hlt : v % 2 ^ i < 2 ^ i := Nat.mod_lt _ (Nat.two_pow_pos i)
    have h2i : 2 ^ i < 2 ^ 32 := Nat.pow_lt_pow_right (by norm_num) (by omega)
    rw [Nat.mod_pow_succ, Nat.testBit_eq_decide_div_mod_eq]
    have hm : v / 2 ^ i % 2 = 0 ∨ v / 2 ^ i % 2 = 1 := by omega
    rcases hm with hm | hm
    · simp [hm, wrap32]
    · simp only [hm, decide_true, if_true, Nat.shiftLeft_eq, Nat.one_mul, Nat.mul_one]
      rw [wrap32_of_lt h2i, Nat.or_comm]
      have := or_eq_add (v := 1) hlt
      rw [Nat.one_mul] at this
      rw [this, Nat.add_comm]

theorem runS_getValue {v n : Nat} (hn : n ≤ 32) (hv : v < 2 ^ n) (rest : Stream) :
    runS (T.getValue n) (msbS v n ++ rest) = some (v, rest) := by
  unfold T.getValue
  rw [runS_getValueLoop v n hn 0 rest, Nat.zero_or, Nat.mod_eq_of_lt hv]

/-- magnitude then sign, as `GetSignedValue` reads them -/
theorem runS_getSignedValue {m n : Nat} (hn : n ≤ 31) (hm : m < 2 ^ n) (s : Bool) (rest : Stream) :
    runS (T.getSignedValue n) (msbS m n ++ ⟨.fixed 128, s⟩ :: rest) = some (if s then -(m : Int) else (m : Int), rest) := by
  unfold T.getSignedValue
  rw [runS_bind_of (runS_getValue (by omega) hm _), runS_bind_of (runS_flag _ _)]
  have h31 : m < 2 ^ 31 := lt_of_lt_of_le hm (Nat.pow_le_pow_right (by norm_num) hn)
  have h31' : (2 : Nat) ^ 31 = 2147483648 := by norm_num
  have hnge : ¬ m ≥ 2 ^ 31 := by omega
  have hne : ¬ ((m : Int) = -2 ^ 31) := by omega
  simp only [hnge, if_false, runS_pure, hne]

theorem msbS_snoc (m s i : Nat) (hs : s ≤ 1) :
    msbS (m * 2 + s) (i + 1) = msbS m i ++ [⟨.fixed 128, decide (s = 1)⟩] := by
  induction i with
  | zero =>
    show [(⟨.fixed 128, (m * 2 + s).testBit 0⟩ : Decision)] = [⟨.fixed 128, decide (s = 1)⟩]
    rw [Nat.testBit_zero]
    have : (m * 2 + s) % 2 = s := by omega
    rw [this]
  | succ i ih =>
    show (⟨.fixed 128, (m * 2 + s).testBit (i + 1)⟩ : Decision) :: msbS (m * 2 + s) (i + 1) = ⟨.fixed 128, m.testBit i⟩ :: msbS m i ++ _
    rw [ih, Nat.testBit_succ]
    have : (m * 2 + s) / 2 = m := by omega
    rw [this]; rfl

theorem optMag_stream (v : Int) (n : Nat) :
    opsStream (optMagOps v n) =
      if v ≠ 0 then ⟨.fixed 128, true⟩ :: (msbS v.natAbs n ++ [⟨.fixed 128, decide (v < 0)⟩]) else [⟨.fixed 128, false⟩] := by
  unfold optMagOps
  by_cases h : v ≠ 0
  · rw [if_pos h, if_pos h]
    simp [opsStream, opStream]
  · rw [if_neg h, if_neg h]
    rfl

theorem wrap8_small {v : Int} (h1 : -127 ≤ v) (h2 : v ≤ 127) : wrap8 v = v := by
  unfold wrap8; omega

/-- the optional signed field of the segment header (`int8`) -/
theorem runS_optSigned0 {v : Int} {n : Nat} (hn : n ≤ 7) (hv : v.natAbs < 2 ^ n) (rest : Stream) :
    runS (T.optSigned0 n) (opsStream (optMagOps v n) ++ rest) = some (v, rest) := by
  have h7 : v.natAbs < 2 ^ 7 := lt_of_lt_of_le hv (Nat.pow_le_pow_right (by norm_num) hn)
  have : (2 : Nat) ^ 7 = 128 := by norm_num
  rw [optMag_stream]
  unfold T.optSigned0
  by_cases h : v ≠ 0
  · rw [if_pos h]
    simp only [List.cons_append, List.append_assoc, List.singleton_append]
    rw [runS_bind_of (runS_flag _ _)]
    simp only [if_true]
    rw [runS_bind_of (runS_getSignedValue (by omega) hv _ _)]
    simp only [runS_pure]
    congr 2
    by_cases hneg : v < 0
    · simp only [hneg, decide_true, if_true]
      rw [wrap8_small (by omega) (by omega)]; omega
    · simp only [hneg, decide_false, Bool.false_eq_true, if_false]
      rw [wrap8_small (by omega) (by omega)]; omega
  · have hv0 : v = 0 := by simpa using h
    rw [if_neg h]
    simp only [List.singleton_append]
    rw [runS_bind_of (runS_flag _ _)]
    simp [hv0]

/-- the optional signed field of the filter header (keeps the old value) -/
theorem runS_optSignedKeep {v : Int} {n : Nat} (hn : n ≤ 31) (hv : v.natAbs < 2 ^ n) (old : Int) (rest : Stream) :
    runS (T.optSignedKeep n old) (opsStream (optMagOps v n) ++ rest) = some (if v ≠ 0 then v else old, rest) := by
  rw [optMag_stream]
  unfold T.optSignedKeep
  by_cases h : v ≠ 0
  · rw [if_pos h, if_pos h]
    simp only [List.cons_append, List.append_assoc, List.singleton_append]
    rw [runS_bind_of (runS_flag _ _)]
    simp only [if_true]
    rw [runS_getSignedValue hn hv]
    congr 2
    by_cases hneg : v < 0
    · simp only [hneg, decide_true, if_true]; omega
    · simp only [hneg, decide_false, Bool.false_eq_true, if_false]; omega
  · rw [if_neg h, if_neg h]
    simp only [List.singleton_append]
    rw [runS_bind_of (runS_flag _ _)]
    simp

/-- `PutSignedBits(v, n)` read by `readOptionalSigned(br, n)` -/
theorem runS_readOptionalSigned {v : Int} {n : Nat} (hn : n ≤ 31) (hv : v.natAbs < 2 ^ n) (rest : Stream) :
    runS (T.readOptionalSigned n) (opStream (.sbits v n) ++ rest) = some (v, rest) := by
  unfold T.readOptionalSigned opStream
  by_cases h : v = 0
  · subst h
    simp only [if_true, List.singleton_append, List.cons_append, List.nil_append]
    rw [runS_bind_of (runS_flag _ _)]
    simp
  · simp only [h, if_false, List.cons_append]
    rw [runS_bind_of (runS_flag _ _)]
    have hb : (v != 0) = true := by simpa using h
    simp only [hb, if_true]
    have hs : (if v < 0 then 1 else 0 : Nat) ≤ 1 := by split_ifs <;> omega
    rw [msbS_snoc _ _ _ hs, List.append_assoc, List.singleton_append, runS_getSignedValue hn hv]
    congr 2
    by_cases hneg : v < 0
    · simp only [hneg, if_true, decide_true]; omega
    · simp only [hneg, if_false]
      simp; omega

theorem runS_byte8 (p : UInt8) (rest : Stream) : runS T.byte8 (msbS p.toNat 8 ++ rest) = some (p, rest) := by
  have hp8 : p.toNat < 2 ^ 8 := by have := p.toNat_lt; simpa using this
  unfold T.byte8
  rw [runS_bind_of (runS_getValue (by norm_num) hp8 _)]
  simp

theorem runS_segProb (p : UInt8) (rest : Stream) :
    runS T.segProb (opsStream (if p ≠ 255 then [Op.ubit true, .bits p.toNat 8] else [.ubit false]) ++ rest) = some (p, rest) := by
  unfold T.segProb
  by_cases h : p ≠ 255
  · rw [if_pos h]
    show runS _ (⟨.fixed 128, true⟩ :: (msbS p.toNat 8 ++ ([] ++ rest))) = _
    rw [runS_bind_of (runS_flag _ _), List.nil_append]
    exact runS_byte8 p rest
  · rw [if_neg h]
    have : p = 255 := by simpa using h
    show runS _ (⟨.fixed 128, false⟩ :: ([] ++ rest)) = _
    rw [runS_bind_of (runS_flag _ _), this]
    rfl

/-- **`parseProba`'s loops read back `writeCoeffProba`'s**: every entry, updated or not -/
theorem runS_parseProbaLoop (uds : List (Nat × UInt8)) (ps : List UInt8) (hlen : ps.length = uds.length)
    (rest : Stream) :
    runS (T.parseProbaLoop uds) (opsStream (probaOps ps uds) ++ rest) = some (ps, rest) := by
  induction uds generalizing ps with
  | nil =>
    have : ps = [] := List.length_eq_zero_iff.mp hlen
    subst this
    rfl
  | cons ud uds ih =>
    obtain ⟨u, d⟩ := ud
    cases ps with
    | nil => simp at hlen
    | cons p ps =>
      have hlen' : ps.length = uds.length := by simpa using hlen
      unfold T.parseProbaLoop probaOps
      rw [opsStream_append, List.append_assoc]
      by_cases hpd : p ≠ d
      · rw [if_pos hpd]
        show runS _ (⟨.fixed u, true⟩ :: (msbS p.toNat 8 ++ (opsStream (probaOps ps uds) ++ rest))) = _
        rw [runS_bind_of (runS_rdfixed _ _ _)]
        simp only [if_true]
        rw [runS_bind_of (runS_byte8 p _), runS_bind_of (ih ps hlen')]
        rfl
      · have hpd' : p = d := by simpa using hpd
        rw [if_neg hpd]
        show runS _ (⟨.fixed u, false⟩ :: (opsStream (probaOps ps uds) ++ rest)) = _
        rw [runS_bind_of (runS_rdfixed _ _ _)]
        simp only [Bool.false_eq_true, if_false]
        rw [runS_bind_of (a := d) (by rfl)]
        rw [runS_bind_of (ih ps hlen')]
        simp [hpd']

end Webp.Proofs.VP8HeaderStream
