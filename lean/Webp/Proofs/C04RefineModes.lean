import Webp.Proofs.C04RefineHeader
import Webp.Spec.VP8.Macroblock
/-
  C04 refinement, macroblock-level syntax (stage B), part 1: `Webp.Spec.VP8.readMBHeader` (§19.3
  `macroblock_header()` for a key frame) in staged form: its `for` loops as folds.
-/
namespace Webp.Proofs.C04RefineModes
open Webp.Spec.VP8
open Webp.Proofs.C04RefineHeader (forIn_range_id)

/-- state of the sub-block mode loops: decoder, `above`, `left`, `bmodes` -/
abbrev BSt := BoolDec × Array Nat × Array Nat × Array Nat

/-- one sub-block mode (§11.3): read with the contexts above and to the left, store in all three arrays -/
def bStep (mbX by' bx : Nat) (s : BSt) : BSt :=
  let r := BoolDec.readTree bModeTree
    (fun i => Tables.kfBModeProbs.getD ((s.2.1.getD (4 * mbX + bx) 0 * 10 + s.2.2.1.getD by' 0) * 9 + i) 128) s.1
  (r.2, s.2.1.setIfInBounds (4 * mbX + bx) r.1, s.2.2.1.setIfInBounds by' r.1, s.2.2.2.setIfInBounds (4 * by' + bx) r.1)

def bRow (mbX by' : Nat) (s : BSt) : BSt :=
  (List.range' 0 4).foldl (fun s bx => bStep mbX by' bx s) s

def bAll (mbX : Nat) (s : BSt) : BSt :=
  (List.range' 0 4).foldl (fun s by' => bRow mbX by' s) s

/-- the implied contexts of a macroblock that is not `B_PRED` -/
def implied (mbX m : Nat) (above left : Array Nat) : Array Nat × Array Nat :=
  (List.range' 0 4).foldl (fun s k => (s.1.setIfInBounds (4 * mbX + k) m, s.2.setIfInBounds k m)) (above, left)

def segSkip (h : FrameHdr) (d : BoolDec) : Nat × Bool × BoolDec :=
  let sd : Nat × BoolDec := if h.seg.updateMap then BoolDec.readTree segmentTree (fun i => h.seg.treeProbs.getD i 255) d else (0, d)
  let kd : Bool × BoolDec := if h.skipEnabled then sd.2.readBool h.probSkipFalse else (false, sd.2)
  (sd.1, kd.1, kd.2)

/-- `readMBHeader`, staged -/
def specModes (h : FrameHdr) (mbX : Nat) (ctx : ModeCtx) (d : BoolDec) : MBInfo × ModeCtx × BoolDec :=
  let ss := segSkip h d
  let y := BoolDec.readTree kfYModeTree (fun i => Tables.kfYModeProbs.getD i 128) ss.2.2
  if y.1 = B_PRED then
    let s := bAll mbX (y.2, ctx.above, ctx.left, Array.replicate 16 (impliedBMode y.1))
    let uv := BoolDec.readTree uvModeTree (fun i => Tables.kfUVModeProbs.getD i 128) s.1
    ({ segment := ss.1, skip := ss.2.1, ymode := y.1, bmodes := s.2.2.2, uvmode := uv.1 },
     { above := s.2.1, left := s.2.2.1 }, uv.2)
  else
    let c := implied mbX (impliedBMode y.1) ctx.above ctx.left
    let uv := BoolDec.readTree uvModeTree (fun i => Tables.kfUVModeProbs.getD i 128) y.2
    ({ segment := ss.1, skip := ss.2.1, ymode := y.1, bmodes := Array.replicate 16 (impliedBMode y.1), uvmode := uv.1 },
     { above := c.1, left := c.2 }, uv.2)

theorem inner_loop (mbX by' : Nat) (s : BSt) :
    (forIn (m := Id) [:4] (s.1, s.2.1, s.2.2.1, s.2.2.2) fun bx (s : BSt) =>
      pure (ForInStep.yield (bStep mbX by' bx s))) = pure (bRow mbX by' s) :=
  forIn_range_id 4 _ _ (fun bx s => bStep mbX by' bx s) (fun _ _ => rfl)

theorem outer_loop (mbX : Nat) (s : BSt) :
    (forIn (m := Id) [:4] s fun by' (s : BSt) => do
        let s' ← forIn (m := Id) [:4] (s.1, s.2.1, s.2.2.1, s.2.2.2) fun bx (s : BSt) =>
          pure (ForInStep.yield (bStep mbX by' bx s))
        pure (ForInStep.yield (s'.1, s'.2.1, s'.2.2.1, s'.2.2.2))) = pure (bAll mbX s) := by
  rw [forIn_range_id 4 _ _ (fun by' s => bRow mbX by' s)]
  · rfl
  · intro by' s
    rw [inner_loop]
    rfl

theorem implied_loop (mbX m : Nat) (above left : Array Nat) :
    (forIn (m := Id) [:4] (above, left) fun k (s : Array Nat × Array Nat) =>
      pure (ForInStep.yield (s.1.setIfInBounds (4 * mbX + k) m, s.2.setIfInBounds k m))) =
      pure (implied mbX m above left) :=
  forIn_range_id 4 _ _ (fun k (s : Array Nat × Array Nat) => (s.1.setIfInBounds (4 * mbX + k) m, s.2.setIfInBounds k m)) (fun _ _ => rfl)

theorem readMBHeader_eq (h : FrameHdr) (mbX : Nat) (ctx : ModeCtx) (d : BoolDec) :
    readMBHeader h mbX ctx d = specModes h mbX ctx d := by
  unfold readMBHeader specModes segSkip
  simp only [Id.run]
  have ol := outer_loop mbX
  have il := implied_loop mbX
  unfold bStep at ol
  by_cases h1 : h.seg.updateMap = true <;> by_cases h2 : h.skipEnabled = true <;>
    simp only [h1, h2, if_true, if_false, Bool.false_eq_true] <;>
    split_ifs <;> first | (rw [ol]; rfl) | (rw [il]; rfl)

end Webp.Proofs.C04RefineModes
