import Webp.Impl.VP8Recon
/-
  C06 helper: the frame loops.  Both the encoder (`MBIterator`: `topY`/`leftY`/`topLeftY`, `Export`)
  and the decoder (`reconstructRow`: `yuvT`, the rotating work buffer) hand every macroblock the
  neighbourhood that the *history* of reconstructed macroblocks defines (`refTl`, `refTop`, …), and
  both store that history in their planes.  Proved once per side for a plane of `n`-wide blocks.
-/
namespace Webp.Proofs.VP8ReconFrame
open Webp.Impl.VP8Recon

/-! ### raster arithmetic -/

theorem pos_lt (mbW mbH k : Nat) (h : k < mbW * mbH) : k % mbW < mbW ∧ k / mbW < mbH := by
  have hw : 0 < mbW := by
    rcases Nat.eq_zero_or_pos mbW with e | e
    · subst e; simp at h
    · exact e
  refine ⟨Nat.mod_lt _ hw, ?_⟩
  rw [Nat.div_lt_iff_lt_mul hw, Nat.mul_comm]
  exact h

theorem next_same (mbW k : Nat) (h : k % mbW + 1 < mbW) :
    (k + 1) % mbW = k % mbW + 1 ∧ (k + 1) / mbW = k / mbW := by
  have hw : 0 < mbW := by omega
  have e : k + 1 = mbW * (k / mbW) + (k % mbW + 1) := by have := Nat.div_add_mod k mbW; omega
  constructor
  · rw [e, Nat.mul_add_mod, Nat.mod_eq_of_lt h]
  · rw [e, Nat.mul_add_div hw, Nat.div_eq_of_lt h]; omega

theorem next_wrap (mbW k : Nat) (hw : 0 < mbW) (h : ¬ (k % mbW + 1 < mbW)) :
    (k + 1) % mbW = 0 ∧ (k + 1) / mbW = k / mbW + 1 := by
  have hl := Nat.mod_lt k hw
  have e : k + 1 = mbW * (k / mbW + 1) + 0 := by
    have := Nat.div_add_mod k mbW
    rw [Nat.mul_add, Nat.mul_one]; omega
  constructor
  · rw [e, Nat.mul_add_mod]; simp
  · rw [e, Nat.mul_add_div hw]; simp

theorem idx_unique (mbW a b k : Nat) (ha : a < mbW) (h : b * mbW + a = k) : a = k % mbW ∧ b = k / mbW := by
  have hw : 0 < mbW := by omega
  subst h
  constructor
  · rw [Nat.mul_comm, Nat.mul_add_mod, Nat.mod_eq_of_lt ha]
  · rw [Nat.mul_comm, Nat.mul_add_div hw, Nat.div_eq_of_lt ha]; omega

theorem idx_self (mbW k : Nat) : k / mbW * mbW + k % mbW = k := by
  have := Nat.div_add_mod k mbW
  rw [Nat.mul_comm]; exact this

/-- `px / n = x` written without division -/
theorem div_eq (n px x : Nat) (hn : 0 < n) : px / n = x ↔ n * x ≤ px ∧ px < n * x + n := by
  constructor
  · intro h
    subst h
    have := Nat.div_add_mod px n
    have := Nat.mod_lt px hn
    constructor <;> omega
  · rintro ⟨h1, h2⟩
    have e : px = n * x + (px - n * x) := by omega
    rw [e, Nat.mul_add_div hn, Nat.div_eq_of_lt (by omega)]; omega

theorem mod_of_div (n px x : Nat) (h : px / n = x) : px % n = px - n * x := by
  subst h
  have := Nat.div_add_mod px n
  omega

/-! ### the history and the neighbourhood it defines -/

/-- reconstructed blocks by macroblock position: `R x y c r` is sample (column `c`, row `r`) -/
abbrev RecB := Nat → Nat → Nat → Nat → UInt8

def upd (R : RecB) (x y : Nat) (blk : Nat → Nat → UInt8) : RecB :=
  fun x' y' => if x' = x ∧ y' = y then blk else R x' y'

def refTl (R : RecB) (n x y : Nat) : UInt8 :=
  if y = 0 then 127 else if x = 0 then 129 else R (x - 1) (y - 1) (n - 1) (n - 1)
def refTop (R : RecB) (n x y i : Nat) : UInt8 := if y = 0 then 127 else R x (y - 1) i (n - 1)
def refLeft (R : RecB) (n x y j : Nat) : UInt8 := if x = 0 then 129 else R (x - 1) y (n - 1) j
/-- luma only: above-right, from the macroblock row above; the last sample of that row repeated
    beyond the right edge of the frame -/
def refTopRight (R : RecB) (x y mbW i : Nat) : UInt8 :=
  if y = 0 then 127 else if x + 1 < mbW then R (x + 1) (y - 1) i 15 else R x (y - 1) 15 15

theorem upd_same (R : RecB) (x y : Nat) (blk : Nat → Nat → UInt8) : upd R x y blk x y = blk := by
  simp [upd]

theorem upd_other (R : RecB) (x y x' y' : Nat) (blk : Nat → Nat → UInt8) (h : x' ≠ x ∨ y' ≠ y) :
    upd R x y blk x' y' = R x' y' := by
  unfold upd
  have : ¬ (x' = x ∧ y' = y) := by rintro ⟨a, b⟩; rcases h with h | h <;> contradiction
  simp only [this, if_false]

/-! ### the encoder's iterator -/

/-- what the iterator's context arrays and plane hold before macroblock `k` at position `(x, y)` -/
structure EncInv (n mbW : Nat) (p : EncPlane) (R : RecB) (k x y W H : Nat) : Prop where
  t1 : ∀ x' i, x' < x → i < n → p.top (n * x' + i) = R x' y i (n - 1)
  t2 : ∀ x' i, x ≤ x' → x' < mbW → i < n → 0 < y → p.top (n * x' + i) = R x' (y - 1) i (n - 1)
  l : 0 < x → ∀ j, j < n → p.left j = R (x - 1) y (n - 1) j
  c : 0 < x → 0 < y → p.tl = R (x - 1) (y - 1) (n - 1) (n - 1)
  pl : ∀ px py, px < W → py < H → px / n < mbW → py / n * mbW + px / n < k →
    p.plane px py = R (px / n) (py / n) (px % n) (py % n)

theorem encInv_init (n mbW : Nat) (src : Plane) (R : RecB) (W H : Nat) :
    EncInv n mbW (EncPlane.init src) R 0 0 0 W H := by
  refine ⟨?_, ?_, ?_, ?_, ?_⟩
  · intro x' i h; omega
  · intro x' i _ _ _ h; omega
  · intro h; omega
  · intro h; omega
  · intro px py _ _ _ h; exact absurd h (Nat.not_lt_zero _)

/-- the context the encoder fills in is the one the history defines -/
theorem enc_ctx (n mbW : Nat) (p : EncPlane) (R : RecB) (k x y W H : Nat) (hx : x < mbW)
    (inv : EncInv n mbW p R k x y W H) :
    let p' := if x = 0 then p.resetLeft else p
    p'.tlOf x y = refTl R n x y ∧
    (∀ i, i < n → p'.topOf n x y i = refTop R n x y i) ∧
    (∀ j, j < n → p'.leftOf x j = refLeft R n x y j) ∧
    (n = 16 → ∀ i, i < 4 → p'.topRightOf x y mbW i = refTopRight R x y mbW i) := by
  intro p'
  have htop : p'.top = p.top := by simp only [p']; split <;> rfl
  refine ⟨?_, ?_, ?_, ?_⟩
  · unfold EncPlane.tlOf refTl
    by_cases hy : y = 0
    · simp [hy]
    · by_cases hx0 : x = 0
      · have : 0 < y := by omega
        simp [hy, hx0, this]
      · have h1 : 0 < x := by omega
        have h2 : 0 < y := by omega
        have : p'.tl = p.tl := by simp only [p', hx0, if_false]
        simp only [h1, h2, and_self, if_true, hy, hx0, if_false, this]
        exact inv.c h1 h2
  · intro i hi
    unfold EncPlane.topOf refTop
    by_cases hy : y = 0
    · simp [hy]
    · have h2 : 0 < y := by omega
      simp only [h2, if_true, hy, if_false, htop]
      exact inv.t2 _ i (Nat.le_refl _) hx hi h2
  · intro j hj
    unfold EncPlane.leftOf refLeft
    by_cases hx0 : x = 0
    · simp [hx0]
    · have h1 : 0 < x := by omega
      have : p'.left = p.left := by simp only [p', hx0, if_false]
      simp only [h1, if_true, hx0, if_false, this]
      exact inv.l h1 j hj
  · intro h16 i hi
    subst h16
    unfold EncPlane.topRightOf refTopRight
    by_cases hy : y = 0
    · simp [hy]
    · have h2 : 0 < y := by omega
      simp only [h2, if_true, hy, if_false, htop]
      by_cases hl : x + 1 < mbW
      · have : x < mbW - 1 := by omega
        simp only [this, if_true, hl]
        exact inv.t2 _ i (by omega) hl (by omega) h2
      · have : ¬ (x < mbW - 1) := by omega
        simp only [this, if_false, hl]
        exact inv.t2 _ 15 (Nat.le_refl _) hx (by omega) h2

/-- `Export` re-establishes the invariant for the next macroblock -/
theorem enc_step (n mbW mbH : Nat) (p : EncPlane) (R : RecB) (k W H : Nat) (hn : 0 < n) (hk : k < mbW * mbH)
    (inv : EncInv n mbW p R k (k % mbW) (k / mbW) W H) (blk : Nat → Nat → UInt8) :
    EncInv n mbW ((if k % mbW = 0 then p.resetLeft else p).export n (k % mbW) (k / mbW) W H blk)
      (upd R (k % mbW) (k / mbW) blk) (k + 1) ((k + 1) % mbW) ((k + 1) / mbW) W H := by
  obtain ⟨hx, _⟩ := pos_lt mbW mbH k hk
  have hw : 0 < mbW := by omega
  have hsame := next_same mbW k
  have hwrap := next_wrap mbW k hw
  generalize (k + 1) % mbW = x1 at hsame hwrap ⊢
  generalize (k + 1) / mbW = y1 at hsame hwrap ⊢
  have hidx := fun a b => idx_unique mbW a b k
  generalize k % mbW = x at *
  generalize k / mbW = y at *
  generalize hp' : (if x = 0 then p.resetLeft else p) = p'
  have htop : p'.top = p.top := by rw [← hp']; split <;> rfl
  have hplane : p'.plane = p.plane := by rw [← hp']; split <;> rfl
  -- the top array after the export
  have top_in : ∀ i, i < n → (p'.export n x y W H blk).top (n * x + i) = blk i (n - 1) := by
    intro i hi
    simp only [EncPlane.export]
    have : n * x ≤ n * x + i ∧ n * x + i < n * x + n := by omega
    simp only [this, and_self, if_true]
    congr 1; omega
  have top_out : ∀ x' i, x' ≠ x → i < n → (p'.export n x y W H blk).top (n * x' + i) = p.top (n * x' + i) := by
    intro x' i hne hi
    simp only [EncPlane.export, htop]
    have : ¬ (n * x ≤ n * x' + i ∧ n * x' + i < n * x + n) := by
      rintro ⟨a, b⟩
      rcases Nat.lt_or_gt_of_ne hne with h | h
      · have := Nat.mul_le_mul_left n (show x' + 1 ≤ x from h); rw [Nat.mul_add] at this; omega
      · have := Nat.mul_le_mul_left n (show x + 1 ≤ x' from h); rw [Nat.mul_add] at this; omega
    simp only [this, if_false]
  -- the plane after the export
  have plane_part : ∀ px py, px < W → py < H → px / n < mbW → py / n * mbW + px / n < k + 1 →
      (p'.export n x y W H blk).plane px py = upd R x y blk (px / n) (py / n) (px % n) (py % n) := by
    intro px py hpx hpy hxw hidxlt
    simp only [EncPlane.export, hplane]
    by_cases hin : px / n = x ∧ py / n = y
    · obtain ⟨h1, h2⟩ := hin
      have a := (div_eq n px _ hn).mp h1
      have b := (div_eq n py _ hn).mp h2
      have c1 : n * x ≤ px ∧ px < n * x + (if n * x + n > W then W - n * x else n) ∧
          n * y ≤ py ∧ py < n * y + (if n * y + n > H then H - n * y else n) := by
        refine ⟨a.1, ?_, b.1, ?_⟩
        · split <;> omega
        · split <;> omega
      rw [if_pos c1, h1, h2, upd_same, mod_of_div n px _ h1, mod_of_div n py _ h2]
    · have c1 : ¬ (n * x ≤ px ∧ px < n * x + (if n * x + n > W then W - n * x else n) ∧
          n * y ≤ py ∧ py < n * y + (if n * y + n > H then H - n * y else n)) := by
        rintro ⟨a1, a2, a3, a4⟩
        apply hin
        constructor
        · apply (div_eq n px _ hn).mpr
          refine ⟨a1, ?_⟩
          split at a2 <;> omega
        · apply (div_eq n py _ hn).mpr
          refine ⟨a3, ?_⟩
          split at a4 <;> omega
      rw [if_neg c1, upd_other _ _ _ _ _ _ (by
        by_cases h1 : px / n = x
        · right; intro h2; exact hin ⟨h1, h2⟩
        · left; exact h1)]
      have hlt : py / n * mbW + px / n < k := by
        rcases Nat.lt_or_ge (py / n * mbW + px / n) k with h | h
        · exact h
        · have e : py / n * mbW + px / n = k := by omega
          have := hidx _ _ hxw e
          exact absurd ⟨this.1, this.2⟩ hin
      exact inv.pl px py hpx hpy hxw hlt
  by_cases hs : x + 1 < mbW
  · -- next macroblock in the same row
    obtain ⟨e1, e2⟩ := hsame hs
    subst e1; subst e2
    refine ⟨?_, ?_, ?_, ?_, plane_part⟩
    · intro x' i hx' hi
      by_cases hxe : x' = x
      · subst hxe
        rw [top_in i hi, upd_same]
      · rw [top_out x' i hxe hi, upd_other _ _ _ _ _ _ (Or.inl hxe)]
        exact inv.t1 x' i (by omega) hi
    · intro x' i hx1 hx2 hi hy
      rw [top_out x' i (by omega) hi, upd_other _ _ _ _ _ _ (Or.inl (by omega))]
      exact inv.t2 x' i (by omega) hx2 hi hy
    · intro _ j hj
      simp only [EncPlane.export, Nat.add_sub_cancel, upd_same]
    · intro _ hy
      simp only [EncPlane.export, htop, Nat.add_sub_cancel]
      rw [upd_other _ _ _ _ _ _ (Or.inr (by omega))]
      exact inv.t2 x (n - 1) (Nat.le_refl _) hx (by omega) hy
  · -- first macroblock of the next row
    obtain ⟨e1, e2⟩ := hwrap hs
    subst e1; subst e2
    refine ⟨?_, ?_, ?_, ?_, plane_part⟩
    · intro x' i hx'; omega
    · intro x' i _ hx2 hi _
      simp only [Nat.add_sub_cancel]
      by_cases hxe : x' = x
      · subst hxe
        rw [top_in i hi, upd_same]
      · rw [top_out x' i hxe hi, upd_other _ _ _ _ _ _ (Or.inl hxe)]
        exact inv.t1 x' i (by omega) hi
    · intro h; omega
    · intro h; omega

/-! ### the decoder's row buffer -/

/-- what `yuvT`, the work buffer and the cache hold before macroblock `k` at position `(x, y)` -/
structure DecInv (n ex mbW mbH : Nat) (p : DecPlane) (R : RecB) (k x y : Nat) : Prop where
  t1 : ∀ x' i, x' < x → i < n → y + 1 < mbH → p.yuvT (n * x' + i) = R x' y i (n - 1)
  t2 : ∀ x' i, x ≤ x' → x' < mbW → i < n → 0 < y → y < mbH → p.yuvT (n * x' + i) = R x' (y - 1) i (n - 1)
  l : 0 < x → ∀ j, j < n → p.buf (j + 1) n = R (x - 1) y (n - 1) j
  c : 0 < x → p.buf 0 n = refTop R n (x - 1) y (n - 1)
  r0 : 0 < x → y = 0 → ∀ C, 1 ≤ C → C ≤ n + ex → p.buf 0 C = 127
  pl : ∀ px py, px / n < mbW → py / n * mbW + px / n < k → p.cache px py = R (px / n) (py / n) (px % n) (py % n)

theorem decInv_init (n ex mbW mbH : Nat) (R : RecB) : DecInv n ex mbW mbH DecPlane.init R 0 0 0 := by
  refine ⟨?_, ?_, ?_, ?_, ?_, ?_⟩
  · intro x' i h; omega
  · intro x' i _ _ _ h; omega
  · intro h; omega
  · intro h; omega
  · intro h; omega
  · intro px py _ h; exact absurd h (Nat.not_lt_zero _)

/-- the neighbourhood `reconstructRow` sets up is the one the history defines -/
theorem dec_ctx (n ex mbW mbH : Nat) (p : DecPlane) (R : RecB) (k x y : Nat) (hx : x < mbW) (hy : y < mbH) (hn : 0 < n)
    (inv : DecInv n ex mbW mbH p R k x y) :
    p.tlOf n x y = refTl R n x y ∧
    (∀ i, i < n → p.topOf n x y i = refTop R n x y i) ∧
    (∀ j, j < n → p.leftOf n x j = refLeft R n x y j) ∧
    (n = 16 → 4 ≤ ex → ∀ i, i < 4 → p.topRightOf x y mbW i = refTopRight R x y mbW i) := by
  refine ⟨?_, ?_, ?_, ?_⟩
  · unfold DecPlane.tlOf refTl
    by_cases hx0 : x = 0
    · by_cases hy0 : y = 0
      · simp [hx0, hy0]
      · have : 0 < y := by omega
        simp [hx0, hy0, this]
    · have h1 : 0 < x := by omega
      simp only [hx0, if_false]
      rw [inv.c h1]
      unfold refTop
      by_cases hy0 : y = 0
      · simp [hy0]
      · simp only [hy0, if_false]
  · intro i hi
    unfold DecPlane.topOf refTop
    by_cases hy0 : y = 0
    · by_cases hx0 : x = 0
      · simp [hy0, hx0]
      · have h1 : 0 < x := by omega
        simp only [hy0, Nat.lt_irrefl, if_false, hx0, if_true]
        exact inv.r0 h1 hy0 (i + 1) (by omega) (by omega)
    · have h2 : 0 < y := by omega
      simp only [h2, if_true, hy0, if_false]
      exact inv.t2 x i (Nat.le_refl _) hx hi h2 hy
  · intro j hj
    unfold DecPlane.leftOf refLeft
    by_cases hx0 : x = 0
    · simp [hx0]
    · have h1 : 0 < x := by omega
      simp only [hx0, if_false]
      exact inv.l h1 j hj
  · intro h16 hex i hi
    subst h16
    unfold DecPlane.topRightOf refTopRight
    by_cases hy0 : y = 0
    · by_cases hx0 : x = 0
      · simp [hy0, hx0]
      · have h1 : 0 < x := by omega
        simp only [hy0, Nat.lt_irrefl, if_false, hx0, if_true]
        exact inv.r0 h1 hy0 (17 + i) (by omega) (by omega)
    · have h2 : 0 < y := by omega
      simp only [h2, if_true, hy0, if_false]
      by_cases hl : x + 1 < mbW
      · have : ¬ (x ≥ mbW - 1) := by omega
        simp only [this, if_false, hl, if_true]
        exact inv.t2 (x + 1) i (by omega) hl (by omega) h2 hy
      · have : x ≥ mbW - 1 := by omega
        simp only [this, if_true, hl, if_false]
        exact inv.t2 x 15 (Nat.le_refl _) hx (by omega) h2 hy

/-- after a macroblock whose final buffer is `G` (row 0 still the loaded context, rows 1.. the
    block) the invariant holds for the next macroblock -/
theorem dec_step (n ex mbW mbH : Nat) (p : DecPlane) (R : RecB) (k : Nat) (hn : 0 < n) (hk : k < mbW * mbH)
    (inv : DecInv n ex mbW mbH p R k (k % mbW) (k / mbW)) (G : Grid) (blk : Nat → Nat → UInt8)
    (hGtop : G 0 n = refTop R n (k % mbW) (k / mbW) (n - 1))
    (hG0 : k / mbW = 0 → ∀ C, 1 ≤ C → C ≤ n + ex → G 0 C = 127)
    (hGb : ∀ c r, c < n → r < n → G (r + 1) (c + 1) = blk c r) :
    DecInv n ex mbW mbH (p.finish n (k % mbW) (k / mbW) mbH G) (upd R (k % mbW) (k / mbW) blk) (k + 1)
      ((k + 1) % mbW) ((k + 1) / mbW) := by
  obtain ⟨hx, hy⟩ := pos_lt mbW mbH k hk
  have hw : 0 < mbW := by omega
  have hsame := next_same mbW k
  have hwrap := next_wrap mbW k hw
  generalize (k + 1) % mbW = x1 at hsame hwrap ⊢
  generalize (k + 1) / mbW = y1 at hsame hwrap ⊢
  have hidx := fun a b => idx_unique mbW a b k
  generalize k % mbW = x at *
  generalize k / mbW = y at *
  have top_in : ∀ i, i < n → y + 1 < mbH → (p.finish n x y mbH G).yuvT (n * x + i) = blk i (n - 1) := by
    intro i hi hl
    simp only [DecPlane.finish, hl, if_true]
    have : n * x ≤ n * x + i ∧ n * x + i < n * x + n := by omega
    simp only [this, and_self, if_true]
    have e : n * x + i - n * x + 1 = i + 1 := by omega
    rw [e]
    have := hGb i (n - 1) hi (by omega)
    have e2 : n - 1 + 1 = n := by omega
    rw [e2] at this
    exact this
  have top_out : ∀ x' i, x' ≠ x → i < n → (p.finish n x y mbH G).yuvT (n * x' + i) = p.yuvT (n * x' + i) := by
    intro x' i hne hi
    simp only [DecPlane.finish]
    split
    · have : ¬ (n * x ≤ n * x' + i ∧ n * x' + i < n * x + n) := by
        rintro ⟨a, b⟩
        rcases Nat.lt_or_gt_of_ne hne with h | h
        · have := Nat.mul_le_mul_left n (show x' + 1 ≤ x from h); rw [Nat.mul_add] at this; omega
        · have := Nat.mul_le_mul_left n (show x + 1 ≤ x' from h); rw [Nat.mul_add] at this; omega
      simp only [this, if_false]
    · rfl
  have plane_part : ∀ px py, px / n < mbW → py / n * mbW + px / n < k + 1 →
      (p.finish n x y mbH G).cache px py = upd R x y blk (px / n) (py / n) (px % n) (py % n) := by
    intro px py hxw hidxlt
    simp only [DecPlane.finish]
    by_cases hin : px / n = x ∧ py / n = y
    · obtain ⟨h1, h2⟩ := hin
      have a := (div_eq n px _ hn).mp h1
      have b := (div_eq n py _ hn).mp h2
      have c1 : n * x ≤ px ∧ px < n * x + n ∧ n * y ≤ py ∧ py < n * y + n := ⟨a.1, a.2, b.1, b.2⟩
      rw [if_pos c1, h1, h2, upd_same, mod_of_div n px _ h1, mod_of_div n py _ h2]
      exact hGb _ _ (by omega) (by omega)
    · have c1 : ¬ (n * x ≤ px ∧ px < n * x + n ∧ n * y ≤ py ∧ py < n * y + n) := by
        rintro ⟨a1, a2, a3, a4⟩
        exact hin ⟨(div_eq n px _ hn).mpr ⟨a1, a2⟩, (div_eq n py _ hn).mpr ⟨a3, a4⟩⟩
      rw [if_neg c1, upd_other _ _ _ _ _ _ (by
        by_cases h1 : px / n = x
        · right; intro h2; exact hin ⟨h1, h2⟩
        · left; exact h1)]
      have hlt : py / n * mbW + px / n < k := by
        rcases Nat.lt_or_ge (py / n * mbW + px / n) k with h | h
        · exact h
        · have e : py / n * mbW + px / n = k := by omega
          have := hidx _ _ hxw e
          exact absurd ⟨this.1, this.2⟩ hin
      exact inv.pl px py hxw hlt
  by_cases hs : x + 1 < mbW
  · obtain ⟨e1, e2⟩ := hsame hs
    rw [e1, e2]
    refine ⟨?_, ?_, ?_, ?_, ?_, plane_part⟩
    · intro x' i hx' hi hl
      by_cases hxe : x' = x
      · subst hxe
        rw [top_in i hi hl, upd_same]
      · rw [top_out x' i hxe hi, upd_other _ _ _ _ _ _ (Or.inl hxe)]
        exact inv.t1 x' i (by omega) hi hl
    · intro x' i hx1 hx2 hi hy0 hyl
      rw [top_out x' i (by omega) hi, upd_other _ _ _ _ _ _ (Or.inl (by omega))]
      exact inv.t2 x' i (by omega) hx2 hi hy0 hyl
    · intro _ j hj
      simp only [DecPlane.finish, Nat.add_sub_cancel, upd_same]
      have := hGb (n - 1) j (by omega) hj
      have e2 : n - 1 + 1 = n := by omega
      rw [e2] at this
      exact this
    · intro _
      simp only [DecPlane.finish, Nat.add_sub_cancel]
      rw [hGtop]
      unfold refTop
      by_cases hy0 : y = 0
      · simp [hy0]
      · simp only [hy0, if_false]
        rw [upd_other _ _ _ _ _ _ (Or.inr (by omega))]
    · intro _ hy0 C h1 h2
      simp only [DecPlane.finish]
      exact hG0 hy0 C h1 h2
  · obtain ⟨e1, e2⟩ := hwrap hs
    rw [e1, e2]
    refine ⟨?_, ?_, ?_, ?_, ?_, plane_part⟩
    · intro x' i hx'; omega
    · intro x' i _ hx2 hi _ hyl
      simp only [Nat.add_sub_cancel]
      by_cases hxe : x' = x
      · subst hxe
        rw [top_in i hi hyl, upd_same]
      · rw [top_out x' i hxe hi, upd_other _ _ _ _ _ _ (Or.inl hxe)]
        exact inv.t1 x' i (by omega) hi hyl
    · intro h; omega
    · intro h; omega
    · intro h; omega

end Webp.Proofs.VP8ReconFrame
