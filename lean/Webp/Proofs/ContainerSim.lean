import Webp.Proofs.ContainerViews
/-
  C16 `views_agree`: lock-step simulation of `container.Parser` (model `Impl.Parser`) and
  `mux.Demuxer` (model `Impl.Demux`, repaired variant) on the same bytes.  Whenever *both*
  accept, they have walked the same chunk sequence and agree on animation flag, canvas,
  frame count and loop count.
-/
namespace Webp.Impl
open Webp.Go
set_option maxHeartbeats 400000
set_option linter.unusedTactic false
set_option linter.unusedVariables false

namespace Parser

theorem parseVP8X_size {buf : Bytes} {s : State} (h : parseVP8X buf = .ok s) :
    le32 buf 4 = 10 := by
  unfold parseVP8X at h
  rcases readChunkHeader_cases buf with ⟨e, hc⟩ | ⟨_, hc⟩
  · rewrite [hc] at h; cases h
  · rewrite [hc, Res.bind_ok] at h
    change (if le32 buf 4 ≠ vp8xChunkSize then _ else _) = _ at h
    by_cases h1 : le32 buf 4 ≠ vp8xChunkSize
    · rewrite [if_pos h1] at h; cases h
    · exact Decidable.of_not_not h1

theorem chunkAt_not_tooLarge {buf : Bytes} {v : Nat × Nat × Nat × Bytes}
    (h : chunkAt buf = .ok v) : ¬ Demux.TooLarge (le32 buf 4) := by
  unfold chunkAt readChunkHeader at h
  unfold Demux.TooLarge
  by_cases h1 : buf.length < chunkHeaderSize
  · rewrite [if_pos h1] at h; cases h
  · rewrite [if_neg h1] at h
    by_cases h2 : le32 buf 4 > maxChunkPayload
    · change (Res.bind (if le32 buf 4 > maxChunkPayload then _ else _) _) = _ at h
      rewrite [if_pos h2] at h; cases h
    · exact h2

end Parser

namespace Demux
open Webp.Impl.Parser (ccRIFF ccWEBP ccVP8 ccVP8L ccVP8X ccALPH ccANIM ccANMF ccICCP ccEXIF ccXMP
  chunkHeaderSize riffHeaderSize anmfChunkSize animChunkSize vp8xChunkSize maxChunkPayload
  maxImageArea maxFrames maxMetadataSize)

/-- the demuxer sees, at `pos`, exactly the chunk the container parser sees at
    `payload.drop pos`, and steps to the same next position -/
theorem chunk_agree {payload : Bytes} {pos : Nat} {fc ps ct : Nat} {pl : Bytes}
    (hpos : pos ≤ payload.length)
    (hc : Parser.chunkAt (payload.drop pos) = .ok (fc, ps, ct, pl)) :
    ¬ chunkStop payload pos ∧ chunkOf payload pos = ⟨fc, ps, pl⟩ ∧
      nextPos payload pos = pos + ct ∧ pos + ct ≤ payload.length := by
  obtain ⟨e0, e4, ect, hle, epl⟩ := Parser.chunkAt_ok hc
  have hnt := Parser.chunkAt_not_tooLarge hc
  have hl : (payload.drop pos).length = payload.length - pos := List.length_drop
  rewrite [hl] at hle
  refine ⟨?_, ?_, ?_, by omega⟩
  · rintro (h | h | h)
    · omega
    · exact hnt h
    · rewrite [← e4] at h; omega
  · unfold chunkOf
    rewrite [← e0, ← e4, ← epl]
    rfl
  · unfold nextPos consumedOf
    rewrite [← e4, hl, ect]
    split_ifs <;> omega

/-! ### FourCC constants are pairwise distinct (as far as the two `switch`es need it) -/
open Webp.Impl.Parser (ccRIFF_val ccWEBP_val ccVP8_val ccVP8L_val ccVP8X_val ccALPH_val ccANIM_val
  ccANMF_val ccICCP_val ccEXIF_val ccXMP_val)

theorem anim_ne : ccANIM ≠ ccICCP ∧ ccANIM ≠ ccEXIF ∧ ccANIM ≠ ccXMP := by
  rw [ccANIM_val, ccICCP_val, ccEXIF_val, ccXMP_val]; decide +kernel
theorem anmf_ne : ccANMF ≠ ccICCP ∧ ccANMF ≠ ccEXIF ∧ ccANMF ≠ ccXMP ∧ ccANMF ≠ ccANIM := by
  rw [ccANMF_val, ccANIM_val, ccICCP_val, ccEXIF_val, ccXMP_val]; decide +kernel
theorem vp8_ne : ccVP8 ≠ ccICCP ∧ ccVP8 ≠ ccEXIF ∧ ccVP8 ≠ ccXMP ∧ ccVP8 ≠ ccANIM ∧
    ccVP8 ≠ ccANMF := by
  rw [ccVP8_val, ccANMF_val, ccANIM_val, ccICCP_val, ccEXIF_val, ccXMP_val]; decide +kernel
theorem vp8l_ne : ccVP8L ≠ ccICCP ∧ ccVP8L ≠ ccEXIF ∧ ccVP8L ≠ ccXMP ∧ ccVP8L ≠ ccANIM ∧
    ccVP8L ≠ ccANMF := by
  rw [ccVP8L_val, ccANMF_val, ccANIM_val, ccICCP_val, ccEXIF_val, ccXMP_val]; decide +kernel
theorem alph_ne : ccALPH ≠ ccICCP ∧ ccALPH ≠ ccEXIF ∧ ccALPH ≠ ccXMP ∧ ccALPH ≠ ccANIM ∧
    ccALPH ≠ ccANMF := by
  rw [ccALPH_val, ccANMF_val, ccANIM_val, ccICCP_val, ccEXIF_val, ccXMP_val]; decide +kernel

theorem image_ne {fc : Nat} (h : fc = ccVP8 ∨ fc = ccVP8L ∨ fc = ccALPH) :
    fc ≠ ccICCP ∧ fc ≠ ccEXIF ∧ fc ≠ ccXMP ∧ fc ≠ ccANIM ∧ fc ≠ ccANMF := by
  rcases h with h | h | h
  · rw [h]; exact vp8_ne
  · rw [h]; exact vp8l_ne
  · rw [h]; exact alph_ne

/-! ### `extDecide` by chunk id -/

theorem extDecide_anim {st : State} {tail : Bytes} {c : Chunk} (h : c.id = ccANIM) :
    extDecide st tail c =
      (if st.features.hasAnimation then parseANIM st c.data else .ok st) := by
  unfold extDecide
  rewrite [if_neg (h ▸ anim_ne.1), if_neg (h ▸ anim_ne.2.1), if_neg (h ▸ anim_ne.2.2), if_pos h]
  rfl

theorem extDecide_anmf {st : State} {tail : Bytes} {c : Chunk} (h : c.id = ccANMF) :
    extDecide st tail c =
      (if st.features.hasAnimation then parseANMF st c.data else .err .invalidANMF) := by
  unfold extDecide
  rewrite [if_neg (h ▸ anmf_ne.1), if_neg (h ▸ anmf_ne.2.1), if_neg (h ▸ anmf_ne.2.2.1),
    if_neg (h ▸ anmf_ne.2.2.2), if_pos h]
  rfl

theorem extDecide_image {st : State} {tail : Bytes} {c : Chunk}
    (h : c.id = ccVP8 ∨ c.id = ccVP8L ∨ c.id = ccALPH) :
    extDecide st tail c =
      (if !st.features.hasAnimation ∧ st.frames.length = 0 then parseSingleExtendedFrame st tail
       else .ok st) := by
  obtain ⟨n1, n2, n3, n4, n5⟩ := image_ne h
  unfold extDecide
  rewrite [if_neg n1, if_neg n2, if_neg n3, if_neg n4, if_neg n5, if_pos h]
  rfl

/-- what every iteration preserves unless it is an accepted ANIM / ANMF / first image chunk -/
theorem extDecide_other {st : State} {tail : Bytes} {c : Chunk} {st' : State}
    (h : extDecide st tail c = .ok st')
    (h1 : c.id = ccANIM → st.features.hasAnimation = false) (h2 : c.id ≠ ccANMF)
    (h3 : ¬ (c.id = ccVP8 ∨ c.id = ccVP8L ∨ c.id = ccALPH)) :
    st'.features = st.features ∧ st'.frames = st.frames ∧ st'.loopCount = st.loopCount := by
  cases extDecide_ok h with
  | same h => subst h; exact ⟨rfl, rfl, rfl⟩
  | icc _ h => subst h; exact ⟨rfl, rfl, rfl⟩
  | exif _ h => subst h; exact ⟨rfl, rfl, rfl⟩
  | xmp _ h => subst h; exact ⟨rfl, rfl, rfl⟩
  | anim hc ha _ _ => have := h1 hc; rewrite [ha] at this; cases this
  | anmf hc _ _ => exact absurd hc h2
  | image hc _ _ _ => exact absurd hc h3

/-- once a still has its frame, the rest of the walk changes neither frame count nor loop count -/
theorem extLoop_still (fuel : Nat) :
    ∀ (st : State) (payload : Bytes) (pos : Nat) (sd : State),
      extLoop fuel st payload pos = .ok sd → st.features.hasAnimation = false →
      st.frames.length = 1 → sd.frames.length = 1 ∧ sd.loopCount = st.loopCount := by
  induction fuel with
  | zero => intro st payload pos sd h; rewrite [extLoop] at h; cases h
  | succ fuel ih =>
    intro st payload pos sd h hna hone
    rewrite [extLoop_succ] at h
    by_cases hs : chunkStop payload pos
    · rewrite [if_pos hs] at h; injection h with h; subst h; exact ⟨hone, rfl⟩
    · rewrite [if_neg hs] at h
      obtain ⟨st', hd, hl⟩ := bind_ok_inv h
      have key : st'.features = st.features ∧ st'.frames.length = 1 ∧
          st'.loopCount = st.loopCount := by
        cases extDecide_ok hd with
        | same h => subst h; exact ⟨rfl, hone, rfl⟩
        | icc _ h => subst h; exact ⟨rfl, hone, rfl⟩
        | exif _ h => subst h; exact ⟨rfl, hone, rfl⟩
        | xmp _ h => subst h; exact ⟨rfl, hone, rfl⟩
        | anim _ ha _ _ =>
          have : st.features.hasAnimation = true := ha
          rewrite [hna] at this; cases this
        | anmf _ ha _ =>
          have : st.features.hasAnimation = true := ha
          rewrite [hna] at this; cases this
        | image _ _ hz _ =>
          have : st.frames = [] := hz
          rewrite [this] at hone; cases hone
      obtain ⟨i1, i2⟩ := ih _ _ _ _ hl (key.1 ▸ hna) key.2.1
      exact ⟨i1, i2.trans key.2.2⟩

end Demux

namespace Parser

/-- the three ways an iteration of the VP8X chunk loop continues -/
def DecSome (st : State) (ac fc ps : Nat) (pl : Bytes) (st' : State) (ac' : Nat) : Prop :=
    st'.features.hasAnim = st.features.hasAnim ∧
    ((fc = ccANIM ∧ st.features.hasAnim = true ∧ 6 ≤ ps ∧ ac' = ac + 1 ∧ st'.frames = st.frames ∧
        st'.features.loopCount = le16 pl 4) ∨
     (fc = ccANMF ∧ ac ≠ 0 ∧ ac' = ac ∧ st'.features = st.features ∧
        st'.frames.length = st.frames.length + 1) ∨
     (fc ≠ ccANMF ∧ (fc = ccANIM → st.features.hasAnim = false) ∧
        ¬ (fc = ccVP8 ∨ fc = ccVP8L ∨ fc = ccALPH) ∧ ac' = ac ∧ st'.features = st.features ∧
        st'.frames = st.frames))

theorem vp8xDecide_some_cases {st : State} {ac fc ps : Nat} {pl : Bytes} {st' : State} {ac' : Nat}
    (h : vp8xDecide st ac fc ps pl = .ok (some (st', ac'))) : DecSome st ac fc ps pl st' ac' := by
  unfold DecSome
  unfold vp8xDecide at h
  generalize maxMetadataSize = MM at h
  by_cases c1 : fc = ccVP8X
  · rewrite [if_pos c1] at h; cases h
  rewrite [if_neg c1] at h
  by_cases c2 : fc = ccANIM
  · rewrite [if_pos c2] at h
    by_cases c2b : (!st.features.hasAnim) = true
    · rewrite [if_pos c2b] at h
      obtain ⟨h1, h2⟩ := ok_some_inj h
      subst h1 h2
      have hf : st.features.hasAnim = false := by
        cases hb : st.features.hasAnim with
        | false => rfl
        | true => rewrite [hb] at c2b; cases c2b
      refine ⟨rfl, .inr (.inr ⟨?_, fun _ => hf, ?_, rfl, rfl, rfl⟩)⟩
      · rw [c2]; exact Demux.anmf_ne.2.2.2.symm
      · rintro (h | h | h)
        · exact (Demux.vp8_ne.2.2.2.1) (h ▸ c2)
        · exact (Demux.vp8l_ne.2.2.2.1) (h ▸ c2)
        · exact (Demux.alph_ne.2.2.2.1) (h ▸ c2)
    rewrite [if_neg c2b] at h
    have hA : st.features.hasAnim = true := by
      cases hb : st.features.hasAnim with
      | true => rfl
      | false => rewrite [hb] at c2b; exact absurd rfl c2b
    by_cases c2a : ps < animChunkSize
    · rewrite [if_pos c2a] at h; cases h
    · rewrite [if_neg c2a] at h
      obtain ⟨h1, h2⟩ := ok_some_inj h
      subst h1 h2
      exact ⟨rfl, .inl ⟨c2, hA, Nat.le_of_not_lt c2a, rfl, rfl, rfl⟩⟩
  rewrite [if_neg c2] at h
  by_cases c3 : fc = ccANMF
  · rewrite [if_pos c3] at h
    by_cases c3a : ac = 0
    · rewrite [if_pos c3a] at h; cases h
    rewrite [if_neg c3a] at h
    by_cases c3b : st.frames.length ≥ maxFrames
    · rewrite [if_pos c3b] at h; cases h
    rewrite [if_neg c3b] at h
    cases hp : parseANMF pl with
    | err e => rewrite [hp] at h; cases h
    | panic => rewrite [hp] at h; cases h
    | hang => rewrite [hp] at h; cases h
    | ok f =>
      rewrite [hp] at h
      obtain ⟨h1, h2⟩ := ok_some_inj h
      subst h1 h2
      exact ⟨rfl, .inr (.inl ⟨c3, c3a, rfl, rfl, List.length_append⟩)⟩
  rewrite [if_neg c3] at h
  by_cases c4 : fc = ccVP8 ∨ fc = ccVP8L ∨ fc = ccALPH
  · rewrite [if_pos c4] at h
    by_cases c4a : ac > 0 ∨ st.features.hasAnim = true
    · rewrite [if_pos c4a] at h; cases h
    · rewrite [if_neg c4a] at h
      injection h with h; cases h
  rewrite [if_neg c4] at h
  have fin : ∀ s, s.features = st.features → s.frames = st.frames →
      (Res.ok (some (s, ac)) : R (Option (State × Nat))) = .ok (some (st', ac')) →
      DecSome st ac fc ps pl st' ac' := by
    intro s hs1 hs2 hh
    obtain ⟨h1, h2⟩ := ok_some_inj hh
    subst h1 h2
    unfold DecSome
    exact ⟨by rw [hs1], .inr (.inr ⟨c3, fun hc => absurd hc c2, c4, rfl, hs1, hs2⟩)⟩
  by_cases c5 : fc = ccICCP ∨ fc = ccEXIF ∨ fc = ccXMP
  · rewrite [if_pos c5] at h
    by_cases c5a : (if fc = ccICCP then st.features.hasICCP
        else if fc = ccEXIF then st.features.hasEXIF else st.features.hasXMP) = true
    · rewrite [if_pos c5a] at h
      by_cases c5b : ps > MM
      · rewrite [if_pos c5b] at h; cases h
      · rewrite [if_neg c5b] at h
        exact fin { st with chunks := st.chunks ++ [⟨fc, pl⟩] } rfl rfl h
    · rewrite [if_neg c5a] at h
      exact fin st rfl rfl h
  rewrite [if_neg c5] at h
  by_cases c6 : st.chunks.length ≥ maxChunks
  · rewrite [if_pos c6] at h; cases h
  rewrite [if_neg c6] at h
  by_cases c7 : ps > MM
  · rewrite [if_pos c7] at h; cases h
  · rewrite [if_neg c7] at h
    exact fin { st with chunks := st.chunks ++ [⟨fc, pl⟩] } rfl rfl h

end Parser

/-! ### the simulation -/
open Webp.Impl.Parser (ccVP8 ccVP8L ccVP8X ccALPH ccANIM ccANMF animChunkSize)

/-- what the two walks have in common at a chunk boundary -/
structure Rel (st : Parser.State) (ds : Demux.State) : Prop where
  anim : st.features.hasAnim = ds.features.hasAnimation
  nframes : st.frames.length = ds.frames.length
  loop : st.features.loopCount = ds.loopCount

theorem sim_loop (fuelP : Nat) :
    ∀ (fuelD : Nat) (st : Parser.State) (ac : Nat) (ds : Demux.State) (payload : Bytes) (pos : Nat)
      (sp : Parser.State) (sdm : Demux.State),
      pos ≤ payload.length → Rel st ds → (0 < ac → st.features.hasAnim = true) →
      (st.features.hasAnim = false → st.frames = []) →
      Parser.parseVP8XChunks fuelP st ac (payload.drop pos) = .ok sp →
      Demux.extLoop fuelD ds payload pos = .ok sdm →
      sp.frames.length = sdm.frames.length ∧ sp.features.loopCount = sdm.loopCount := by
  induction fuelP with
  | zero =>
    intro _ st ac _ payload pos sp _ _ _ _ _ h _
    rewrite [Parser.parseVP8XChunks_zero] at h; cases h
  | succ fuelP ih =>
    intro fuelD st ac ds payload pos sp sdm hpos hrel hac hfr hP hD
    cases fuelD with
    | zero => rewrite [Demux.extLoop] at hD; cases hD
    | succ fuelD =>
      rewrite [Parser.parseVP8XChunks_succ] at hP
      rewrite [Demux.extLoop_succ] at hD
      have hl : (payload.drop pos).length = payload.length - pos := List.length_drop
      by_cases h8 : (payload.drop pos).length < 8
      · rewrite [Parser.vp8xStep_short h8] at hP
        injection hP with hP
        subst hP
        have hs : Demux.chunkStop payload pos := .inl (by omega)
        rewrite [if_pos hs] at hD
        injection hD with hD
        subst hD
        exact ⟨hrel.nframes, hrel.loop⟩
      · rcases Parser.chunkAt_cases' (payload.drop pos) with ⟨e, hc⟩ |
          ⟨fc, ps, pl, hc, hle, hwl, _, -, -, -⟩
        · rewrite [Parser.vp8xStep_chunkErr h8 hc] at hP; cases hP
        · obtain ⟨hns, hco, hnp, hple⟩ := Demux.chunk_agree hpos hc
          rewrite [if_neg hns, hco, hnp] at hD
          obtain ⟨ds', hdd, hDl⟩ := Demux.bind_ok_inv hD
          -- recording the chunk does not touch what `Rel` talks about
          have hrel1 : Rel st { ds with chunks := ds.chunks ++ [Demux.Chunk.mk fc ps pl] } :=
            ⟨hrel.anim, hrel.nframes, hrel.loop⟩
          generalize { ds with chunks := ds.chunks ++ [Demux.Chunk.mk fc ps pl] } = ds1 at hdd hrel1
          cases hdec : Parser.vp8xDecide st ac fc ps pl with
          | err e => rewrite [Parser.vp8xStep_err h8 hc hdec] at hP; cases hP
          | panic =>
            have := Parser.vp8xDecide_safe st ac fc ps pl
            rewrite [hdec] at this; exact absurd this id
          | hang =>
            have := Parser.vp8xDecide_safe st ac fc ps pl
            rewrite [hdec] at this; exact absurd this id
          | ok o =>
            cases o with
            | none =>
              -- the still image: the parser returns, the demuxer records the frame and walks on
              rewrite [Parser.vp8xStep_ext h8 hc hdec] at hP
              obtain ⟨_, hna, himg⟩ := Parser.vp8xDecide_none hdec
              obtain ⟨f, pl', hok, _⟩ := Parser.parseExtSingleImage_ok _ _ _ _ _ _ hP rfl
              have hfe := hfr hna
              have hcid : (Demux.Chunk.mk fc ps pl).id = ccVP8 ∨ (Demux.Chunk.mk fc ps pl).id = ccVP8L
                  ∨ (Demux.Chunk.mk fc ps pl).id = ccALPH := himg
              rewrite [Demux.extDecide_image hcid] at hdd
              have hna1 : ds1.features.hasAnimation = false := hrel1.anim.symm.trans hna
              have hz1 : ds1.frames.length = 0 := by
                rw [← hrel1.nframes, hfe]; rfl
              have hcond : (!ds1.features.hasAnimation) = true ∧ ds1.frames.length = 0 :=
                ⟨by rw [hna1]; rfl, hz1⟩
              rewrite [if_pos hcond] at hdd
              obtain ⟨img, alph, _, hds'⟩ := Demux.parseSingleExtendedFrame_ok hdd
              have h1 : ds'.frames.length = 1 := by rw [hds']; rfl
              have h2 : ds'.features.hasAnimation = false := by rw [hds']; exact hna1
              have h3 : ds'.loopCount = ds1.loopCount := by rw [hds']
              obtain ⟨k1, k2⟩ := Demux.extLoop_still _ _ _ _ _ hDl h2 h1
              refine ⟨?_, ?_⟩
              · rw [hok.frames, hfe, k1]; rfl
              · rw [k2, h3, ← hrel1.loop]; exact hok.loop.1
            | some v =>
              obtain ⟨st', ac'⟩ := v
              rewrite [Parser.vp8xStep_next h8 hc hdec hle] at hP
              rewrite [List.drop_drop] at hP
              obtain ⟨hsame, hcases⟩ := Parser.vp8xDecide_some_cases hdec
              have key : Rel st' ds' ∧ (0 < ac' → st'.features.hasAnim = true) ∧
                  (st'.features.hasAnim = false → st'.frames = []) := by
                rcases hcases with ⟨hfc, hA, h6, hac', hfr', hlc⟩ |
                  ⟨hfc, hne, hac', hfe', hlen⟩ | ⟨hn1, hn2, hn3, hac', hfe', hfr'⟩
                · -- accepted ANIM chunk
                  have hcid : (Demux.Chunk.mk fc ps pl).id = ccANIM := hfc
                  rewrite [Demux.extDecide_anim hcid] at hdd
                  have hA1 : ds1.features.hasAnimation = true := hrel1.anim.symm.trans hA
                  rewrite [if_pos hA1] at hdd
                  unfold Demux.parseANIM at hdd
                  by_cases hlt : (Demux.Chunk.mk fc ps pl).data.length < animChunkSize
                  · rewrite [if_pos hlt] at hdd; cases hdd
                  · rewrite [if_neg hlt] at hdd
                    injection hdd with hdd
                    subst hdd
                    refine ⟨⟨hsame.trans hrel1.anim, ?_, hlc⟩, fun _ => hsame.trans hA, ?_⟩
                    · rw [hfr']; exact hrel1.nframes
                    · intro hf; rw [hsame, hA] at hf; cases hf
                · -- ANMF frame
                  have hcid : (Demux.Chunk.mk fc ps pl).id = ccANMF := hfc
                  rewrite [Demux.extDecide_anmf hcid] at hdd
                  have hA : st.features.hasAnim = true := hac (Nat.pos_of_ne_zero hne)
                  have hA1 : ds1.features.hasAnimation = true := hrel1.anim.symm.trans hA
                  rewrite [if_pos hA1] at hdd
                  obtain ⟨_, _, img, alph, _, hds'⟩ := Demux.parseANMF_ok hdd
                  subst hds'
                  refine ⟨⟨by rw [hfe']; exact hrel1.anim, ?_, by rw [hfe']; exact hrel1.loop⟩,
                    fun _ => by rw [hfe']; exact hA, ?_⟩
                  · rw [hlen]
                    show _ = (ds1.frames ++ [_]).length
                    rw [List.length_append, hrel1.nframes]; rfl
                  · intro hf; rw [hfe', hA] at hf; cases hf
                · -- anything else (ignored ANIM, metadata, unknown chunks)
                  have g1 : (Demux.Chunk.mk fc ps pl).id = ccANIM →
                      ds1.features.hasAnimation = false :=
                    fun hc' => hrel1.anim.symm.trans (hn2 hc')
                  obtain ⟨p1, p2, p3⟩ := Demux.extDecide_other hdd g1 hn1 hn3
                  refine ⟨⟨by rw [hfe', p1]; exact hrel1.anim, by rw [hfr', p2]; exact hrel1.nframes,
                    by rw [hfe', p3]; exact hrel1.loop⟩, ?_, ?_⟩
                  · intro hp; rw [hfe']; exact hac (hac' ▸ hp)
                  · intro hf; rw [hfr']; rw [hfe'] at hf; exact hfr hf
              exact ih _ _ _ _ _ _ _ _ hple key.1 key.2.1 key.2.2 hP hDl

/-! ### whole file -/

theorem riffPayload_eq (b : Bytes) : Demux.riffPayload b = Parser.riffBuf b := rfl

theorem byteAt_getD (l : Bytes) (i : Nat) : byteAt l i = (l.getD i 0).toNat := rfl

theorem le24_window (pl : Bytes) (a : Nat) (k : Nat) (hk : a + 3 ≤ k) :
    le24 ((pl.take k).drop a) 0 =
      (pl.getD a 0).toNat + (pl.getD (a + 1) 0).toNat * 256 + (pl.getD (a + 2) 0).toNat * 65536 := by
  unfold le24
  rw [byteAt_drop, byteAt_drop, byteAt_drop, byteAt_take (by omega), byteAt_take (by omega),
    byteAt_take (by omega), byteAt_getD, byteAt_getD, byteAt_getD]
  rfl

theorem vp8x_canvas_agree (pl : Bytes) :
    (Parser.vp8xFeatures pl).canvasWidth = (Demux.vp8xFeaturesD pl).width ∧
    (Parser.vp8xFeatures pl).canvasHeight = (Demux.vp8xFeaturesD pl).height ∧
    (Parser.vp8xFeatures pl).hasAnim = (Demux.vp8xFeaturesD pl).hasAnimation := by
  refine ⟨?_, ?_, rfl⟩
  · show 1 + le24 ((pl.take 7).drop 4) 0 = _
    rw [le24_window pl 4 7 (by omega)]
    show 1 + ((pl.getD 4 0).toNat + (pl.getD 5 0).toNat * 256 + (pl.getD 6 0).toNat * 65536) = (pl.getD 4 0).toNat + (pl.getD 5 0).toNat * 256 + (pl.getD 6 0).toNat * 65536 + 1
    omega
  · show 1 + le24 ((pl.take 10).drop 7) 0 = _
    rw [le24_window pl 7 10 (by omega)]
    show 1 + ((pl.getD 7 0).toNat + (pl.getD 8 0).toNat * 256 + (pl.getD 9 0).toNat * 65536) = (pl.getD 7 0).toNat + (pl.getD 8 0).toNat * 256 + (pl.getD 9 0).toNat * 65536 + 1
    omega

namespace Parser

theorem simpleFinish_canvas {st : State} {fc : Nat} {pl : Bytes} {sd : State}
    (h : simpleFinish st fc pl = .ok sd) :
    (fc ≠ ccVP8L → sd.features.canvasWidth = le16 pl 6 % 16384 ∧
      sd.features.canvasHeight = le16 pl 8 % 16384) ∧
    (fc = ccVP8L → sd.features.canvasWidth = le32 pl 1 % 16384 + 1 ∧
      sd.features.canvasHeight = le32 pl 1 / 16384 % 16384 + 1) := by
  unfold simpleFinish at h
  by_cases c1 : fc = ccVP8L
  · rewrite [if_pos c1] at h
    cases hh : parseVP8LHeader pl with
    | err e => rewrite [hh] at h; cases h
    | panic => rewrite [hh] at h; cases h
    | hang => rewrite [hh] at h; cases h
    | ok v =>
      obtain ⟨w, hgt, a⟩ := v
      obtain ⟨e1, e2, _⟩ := parseVP8LHeader_ok hh
      rewrite [hh] at h
      injection h with h
      subst h
      exact ⟨fun hn => absurd c1 hn, fun _ => ⟨e1, e2⟩⟩
  · rewrite [if_neg c1] at h
    cases hh : parseVP8Header pl with
    | err e => rewrite [hh] at h; cases h
    | panic => rewrite [hh] at h; cases h
    | hang => rewrite [hh] at h; cases h
    | ok v =>
      obtain ⟨w, hgt⟩ := v
      obtain ⟨e1, e2, _⟩ := parseVP8Header_ok hh
      rewrite [hh] at h
      injection h with h
      subst h
      exact ⟨fun _ => ⟨e1, e2⟩, fun hn => absurd hn c1⟩

end Parser

/-- C16 `views_agree`: no well-formedness hypothesis is needed beyond "both readers accept" -/
theorem views_agree_core {b : Bytes} {p : Parser.State} {d : Demux.State}
    (hp : Parser.parse b = .ok p) (hd : Demux.parseWith true b = .ok d) :
    p.features.hasAnim = d.features.hasAnimation ∧
    p.features.canvasWidth = d.features.width ∧ p.features.canvasHeight = d.features.height ∧
    p.frames.length = d.frames.length ∧ p.features.loopCount = d.loopCount := by
  rcases Parser.parse_cases b with ⟨e, he⟩ | ⟨_, _, _, _, _, he⟩
  · rewrite [he] at hp; cases hp
  rewrite [he] at hp
  rcases Demux.parseWith_true_cases b with ⟨e, he'⟩ | ⟨_, _, _, _, _, he'⟩
  · rewrite [he'] at hd; cases hd
  rewrite [he', riffPayload_eq] at hd
  generalize Parser.riffBuf b = buf at hp hd
  unfold Parser.dispatch at hp
  unfold Demux.dispatchD at hd
  by_cases c1 : le32 buf 0 = Parser.ccVP8X
  · -- extended format: simulate the two chunk walks
    rewrite [if_pos c1] at hp hd
    have hsz := Parser.parseVP8X_size hp
    rcases Parser.parseVP8X_cases buf with ⟨e, hx⟩ | ⟨h18, _, hx⟩
    · rewrite [hx] at hp; cases hp
    rewrite [hx] at hp
    rcases Demux.parseExtended_cases buf with ⟨e, hy⟩ | ⟨_, _, hy⟩
    · rewrite [hy] at hd; cases hd
    rewrite [hy] at hd
    obtain ⟨sdm, hl, hf⟩ := Demux.bind_ok_inv hd
    unfold Demux.extFinal at hf
    by_cases hz : sdm.frames.length = 0
    · rewrite [if_pos hz] at hf; cases hf
    rewrite [if_neg hz] at hf
    injection hf with hf
    subst hf
    have hcons : Demux.consumedOf buf = 18 := by
      unfold Demux.consumedOf
      rw [hsz]
      rfl
    rewrite [hcons] at hl
    have hdata : (Demux.firstChunk buf).data = (buf.take 18).drop 8 := by
      unfold Demux.firstChunk
      rw [hsz]
    generalize hpl : (buf.take 18).drop 8 = pl at hp hdata
    have hinit : (Demux.extInit buf).features = Demux.vp8xFeaturesD pl ∧
        (Demux.extInit buf).frames = [] ∧ (Demux.extInit buf).loopCount = 0 := by
      unfold Demux.extInit
      rw [hdata]
      exact ⟨rfl, rfl, rfl⟩
    obtain ⟨cw, ch, ca⟩ := vp8x_canvas_agree pl
    have hrel : Rel { features := Parser.vp8xFeatures pl } (Demux.extInit buf) :=
      ⟨by rw [hinit.1]; exact ca, by rw [hinit.2.1]; rfl, by rw [hinit.2.2]; rfl⟩
    obtain ⟨s1, s2⟩ := sim_loop _ _ _ _ _ _ _ _ _ h18 hrel
      (fun hp0 => absurd hp0 (Nat.lt_irrefl 0)) (fun _ => rfl) hp hl
    obtain ⟨pmeta, _⟩ := Parser.parseVP8XChunks_ok _ _ _ _ _ hp
    obtain ⟨dfe, _⟩ := Demux.extLoop_ok _ _ _ _ _ hl
    rw [dfe, hinit.1]
    exact ⟨pmeta.2.1.trans ca, pmeta.2.2.1.trans cw, pmeta.2.2.2.1.trans ch, s1, s2⟩
  rewrite [if_neg c1] at hp hd
  -- simple formats: one chunk, read by both
  have simple : ∀ fmt, (le32 buf 0 = Parser.ccVP8L → False) ∨ le32 buf 0 = Parser.ccVP8L →
      Parser.parseSingleImage { features := { format := fmt } } buf = .ok p →
      p.features.hasAnim = false ∧ p.frames.length = 1 ∧ p.features.loopCount = 0 ∧
      ((le32 buf 0 ≠ Parser.ccVP8L → p.features.canvasWidth = le16 (Demux.firstChunk buf).data 6 % 16384 ∧
        p.features.canvasHeight = le16 (Demux.firstChunk buf).data 8 % 16384) ∧
       (le32 buf 0 = Parser.ccVP8L →
        p.features.canvasWidth = le32 (Demux.firstChunk buf).data 1 % 16384 + 1 ∧
        p.features.canvasHeight = le32 (Demux.firstChunk buf).data 1 / 16384 % 16384 + 1)) := by
    intro fmt _ hs
    obtain ⟨_, f, pl0, hok, _, _, han, _⟩ := Parser.parseSingleImage_ok hs rfl rfl
    rewrite [Parser.parseSingleImage_eq] at hs
    rcases Parser.chunkAt_cases buf with ⟨e, hc⟩ | ⟨_, hc⟩
    · rewrite [hc] at hs; cases hs
    · rewrite [hc] at hs
      exact ⟨han, by rw [hok.frames]; rfl, hok.loop.1, Parser.simpleFinish_canvas hs⟩
  by_cases c2 : le32 buf 0 = Parser.ccVP8
  · rewrite [if_pos c2] at hp hd
    have hne : le32 buf 0 ≠ Parser.ccVP8L := by rw [c2]; exact Parser.ccVP8_ne_ccVP8L
    obtain ⟨a1, a2, a3, a4, _⟩ := simple _ (.inl hne) hp
    rcases Demux.parseSimpleVP8_cases buf with ⟨e, hy⟩ | ⟨_, _, hy⟩
    · rewrite [hy] at hd; cases hd
    · rewrite [hy] at hd
      injection hd with hd
      subst hd
      exact ⟨a1, (a4 hne).1, (a4 hne).2, a2, a3⟩
  rewrite [if_neg c2] at hp hd
  by_cases c3 : le32 buf 0 = Parser.ccVP8L
  · rewrite [if_pos c3] at hp hd
    obtain ⟨a1, a2, a3, _, a5⟩ := simple _ (.inr c3) hp
    rcases Demux.parseSimpleVP8L_cases buf with ⟨e, hy⟩ | ⟨_, _, hy⟩
    · rewrite [hy] at hd; cases hd
    · rewrite [hy] at hd
      injection hd with hd
      subst hd
      exact ⟨a1, (a5 c3).1, (a5 c3).2, a2, a3⟩
  · rewrite [if_neg c3] at hp; cases hp

end Webp.Impl
