import Webp.Impl.AnimDec
/-
  Loop lemmas for the implementation model of `AnimDecoder`: a nested `for y … for x …` loop
  that rewrites pixel `(x, y)` of a `w×h` canvas from its old value computes a point-wise
  function of the canvas.
-/
namespace Webp.Proofs.AnimDecLoops
open Webp.Spec.Anim Webp.Impl.AnimDec

/-! ### arrays -/

theorem getD_set_self {c : Array Px} {i : Nat} {v : Px} (h : i < c.size) :
    (c.setIfInBounds i v).getD i Px.zero = v := by
  simp [Array.getD_eq_getD_getElem?, h]

theorem getD_set_ne {c : Array Px} {i j : Nat} {v : Px} (h : i ≠ j) :
    (c.setIfInBounds i v).getD j Px.zero = c.getD j Px.zero := by
  simp [Array.getD_eq_getD_getElem?, Array.getElem?_setIfInBounds_ne h]

theorem canvas_ext {a b : Array Px} {n : Nat} (ha : a.size = n) (hb : b.size = n)
    (h : ∀ i, i < n → a.getD i Px.zero = b.getD i Px.zero) : a = b := by
  apply Array.ext (by rw [ha, hb])
  intro i h1 h2
  have := h i (by omega)
  simpa [Array.getD_eq_getD_getElem?, Array.getElem?_eq_getElem h1, Array.getElem?_eq_getElem h2] using this

theorem getD_ofFn {n : Nat} (f : Fin n → Px) (i : Nat) (hi : i < n) :
    (Array.ofFn f).getD i Px.zero = f ⟨i, hi⟩ := by
  have h : i < (Array.ofFn f).size := by simpa using hi
  simp [Array.getD_eq_getD_getElem?, Array.getElem?_eq_getElem h]

theorem getD_replicate (n : Nat) (v : Px) (i : Nat) :
    (Array.replicate n v).getD i Px.zero = if i < n then v else Px.zero := by
  by_cases hi : i < n
  · have h : i < (Array.replicate n v).size := by simpa using hi
    simp [Array.getD_eq_getD_getElem?, hi]
  · simp [Array.getD_eq_getD_getElem?, hi]

/-! ### index arithmetic -/

theorem idx_lt {w h x y : Nat} (hx : x < w) (hy : y < h) : y * w + x < w * h := by
  calc y * w + x < y * w + w := by omega
    _ = (y + 1) * w := by rw [Nat.add_mul, Nat.one_mul]
    _ ≤ h * w := Nat.mul_le_mul_right _ hy
    _ = w * h := Nat.mul_comm _ _

theorem idx_div {w x y : Nat} (hx : x < w) : (y * w + x) / w = y := by
  rw [Nat.mul_comm, Nat.mul_add_div (by omega), Nat.div_eq_of_lt hx, Nat.add_zero]

theorem idx_mod {w x y : Nat} (hx : x < w) : (y * w + x) % w = x := by
  rw [Nat.mul_comm, Nat.mul_add_mod, Nat.mod_eq_of_lt hx]

theorem idx_eq {w i : Nat} : (i / w) * w + i % w = i := by
  rw [Nat.mul_comm]; exact Nat.div_add_mod i w

theorem div_lt_of_lt {w h i : Nat} (hi : i < w * h) : i / w < h := by
  have hw : 0 < w := by
    rcases Nat.eq_zero_or_pos w with h0 | h0
    · subst h0; simp at hi
    · exact h0
  exact Nat.div_lt_of_lt_mul hi

theorem mod_lt_of_lt {w h i : Nat} (hi : i < w * h) : i % w < w := by
  apply Nat.mod_lt
  rcases Nat.eq_zero_or_pos w with h0 | h0
  · subst h0; simp at hi
  · exact h0

/-! ### counted loops -/

/-- `for v := lo; v < lo+n; v++` -/
def loopN {σ : Type} (body : Int → σ → σ) (lo : Int) (n : Nat) (s : σ) : σ :=
  (List.range n).foldl (fun s (k : Nat) => body (lo + (k : Int)) s) s

theorem forRange_eq {σ : Type} (lo hi : Int) (body : Int → σ → σ) (s : σ) :
    forRange lo hi body s = loopN body lo (hi - lo).toNat s := rfl

@[simp] theorem loopN_zero {σ : Type} (body : Int → σ → σ) (lo : Int) (s : σ) :
    loopN body lo 0 s = s := rfl

theorem loopN_succ {σ : Type} (body : Int → σ → σ) (lo : Int) (n : Nat) (s : σ) :
    loopN body lo (n + 1) s = body (lo + (n : Int)) (loopN body lo n s) := by
  unfold loopN
  rw [List.range_succ, List.foldl_append]
  rfl

theorem loopN_congr {σ : Type} (b1 b2 : Int → σ → σ) (lo : Int) (n : Nat) (s : σ)
    (h : ∀ k : Nat, k < n → ∀ s, b1 (lo + (k : Int)) s = b2 (lo + (k : Int)) s) :
    loopN b1 lo n s = loopN b2 lo n s := by
  induction n with
  | zero => rfl
  | succ n ih =>
    rw [loopN_succ, loopN_succ, ih (fun k hk => h k (by omega)), h n (by omega)]

/-! ### one row -/

/-- the body shape shared by `fillRect` and `compositeFrame` once guards are resolved:
    pixel `(x,y)` becomes `G x y old` -/
def pixBody (w h : Nat) (G : Int → Int → Px → Px) (y : Int) (x : Int) (c : Array Px) : Array Px :=
  setNRGBA w h c x y (G x y (nrgbaAt w h c x y))

theorem row_get (w h : Nat) (G : Int → Int → Px → Px) (y : Nat) (hy : y < h) (x0 n : Nat)
    (hx : x0 + n ≤ w) (c : Array Px) (hc : c.size = w * h) :
    (loopN (pixBody w h G y) x0 n c).size = w * h ∧
    ∀ i, i < w * h →
      (loopN (pixBody w h G y) x0 n c).getD i Px.zero =
        if i / w = y ∧ x0 ≤ i % w ∧ i % w < x0 + n then G ((i % w : Nat) : Int) y (c.getD i Px.zero)
        else c.getD i Px.zero := by
  induction n with
  | zero =>
    refine ⟨hc, fun i _ => ?_⟩
    rw [if_neg (by omega)]; rfl
  | succ n ih =>
    obtain ⟨ihs, ihg⟩ := ih (by omega)
    rw [loopN_succ]
    generalize loopN (pixBody w h G y) x0 n c = r at *
    have hxw : x0 + n < w := by omega
    have hj : y * w + (x0 + n) < w * h := idx_lt hxw hy
    have hin : inImage w h ((x0 : Int) + (n : Int)) (y : Int) = true := by
      simp [inImage]; omega
    have hidx : ((y : Int)).toNat * w + ((x0 : Int) + (n : Int)).toNat = y * w + (x0 + n) := by
      have : ((x0 : Int) + (n : Int)).toNat = x0 + n := by omega
      rw [this]; simp
    have hold : r.getD (y * w + (x0 + n)) Px.zero = c.getD (y * w + (x0 + n)) Px.zero := by
      rw [ihg _ hj, if_neg]
      rw [idx_mod hxw]; omega
    have hbody : pixBody w h G y ((x0 : Int) + (n : Int)) r
        = r.setIfInBounds (y * w + (x0 + n)) (G ((x0 : Int) + (n : Int)) y (c.getD (y * w + (x0 + n)) Px.zero)) := by
      unfold pixBody setNRGBA nrgbaAt
      rw [hin]; simp only [if_true]
      rw [hidx, hold]
    rw [hbody]
    refine ⟨by rw [Array.size_setIfInBounds, ihs], fun i hi => ?_⟩
    by_cases hij : y * w + (x0 + n) = i
    · subst hij
      rw [getD_set_self (by rw [ihs]; exact hj), idx_div hxw, idx_mod hxw, if_pos (by omega)]
      congr 1 <;> omega
    · rw [getD_set_ne hij, ihg i hi]
      have hne : ¬ (i / w = y ∧ i % w = x0 + n) := by
        rintro ⟨h1, h2⟩
        apply hij
        rw [← h1, ← h2]; exact idx_eq
      by_cases hcond : i / w = y ∧ x0 ≤ i % w ∧ i % w < x0 + n
      · rw [if_pos hcond, if_pos (by omega)]
      · rw [if_neg hcond, if_neg]
        intro hc2
        apply hne
        omega

/-! ### a rectangle -/

theorem rect_get (w h : Nat) (G : Int → Int → Px → Px) (x0 nx y0 ny : Nat)
    (hx : x0 + nx ≤ w) (hy : y0 + ny ≤ h) (c : Array Px) (hc : c.size = w * h) :
    (loopN (fun y c => loopN (pixBody w h G y) x0 nx c) y0 ny c).size = w * h ∧
    ∀ i, i < w * h →
      (loopN (fun y c => loopN (pixBody w h G y) x0 nx c) y0 ny c).getD i Px.zero =
        if y0 ≤ i / w ∧ i / w < y0 + ny ∧ x0 ≤ i % w ∧ i % w < x0 + nx
        then G ((i % w : Nat) : Int) ((i / w : Nat) : Int) (c.getD i Px.zero)
        else c.getD i Px.zero := by
  induction ny with
  | zero =>
    refine ⟨hc, fun i _ => ?_⟩
    rw [if_neg (by omega)]; rfl
  | succ n ih =>
    obtain ⟨ihs, ihg⟩ := ih (by omega)
    rw [loopN_succ]
    generalize loopN (fun y c => loopN (pixBody w h G y) x0 nx c) y0 n c = r at *
    have hcast : ((y0 : Int) + (n : Int)) = ((y0 + n : Nat) : Int) := by omega
    simp only [hcast]
    obtain ⟨rs, rg⟩ := row_get w h G (y0 + n) (by omega) x0 nx hx r ihs
    refine ⟨rs, fun i hi => ?_⟩
    rw [rg i hi, ihg i hi]
    by_cases hrow : i / w = y0 + n
    · have hold : ¬ (y0 ≤ i / w ∧ i / w < y0 + n ∧ x0 ≤ i % w ∧ i % w < x0 + nx) := by omega
      rw [if_neg hold]
      by_cases hcol : x0 ≤ i % w ∧ i % w < x0 + nx
      · rw [if_pos ⟨hrow, hcol⟩, if_pos (by omega), hrow]
      · rw [if_neg (by omega), if_neg (by omega)]
    · rw [if_neg (by omega)]
      by_cases hold : y0 ≤ i / w ∧ i / w < y0 + n ∧ x0 ≤ i % w ∧ i % w < x0 + nx
      · rw [if_pos hold, if_pos (by omega)]
      · rw [if_neg hold, if_neg (by omega)]

end Webp.Proofs.AnimDecLoops
