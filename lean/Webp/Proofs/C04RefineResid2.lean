import Webp.Proofs.C04RefineResid
/-
  C04 refinement, residuals, part 2: `readResiduals = specRes` (machine-checked restatement).
-/
namespace Webp.Proofs.C04RefineResid
open Webp.Spec.VP8
open Webp.Proofs.C04RefineHeader (forIn_range_id)

/-- eta-expansion of the loop state, as the `do` notation threads it -/
def eta (s : RSt) : RSt := (s.1, s.2.1, s.2.2.1, s.2.2.2.1, s.2.2.2.2.1, s.2.2.2.2.2.1, s.2.2.2.2.2.2)

theorem eta_eq (s : RSt) : eta s = s := rfl

theorem y_inner (probs : Array Nat) (q : DequantFactors) (mbX ytype first by' : Nat) (s : RSt) :
    (forIn (m := Id) [:4] (eta s) fun bx (s : RSt) =>
      pure (ForInStep.yield (rStep probs ytype first q.y1dc q.y1ac (9 * mbX + bx) by' (4 * by' + bx) s))) =
      pure (yRow probs q mbX ytype first by' s) :=
  forIn_range_id 4 _ _ (fun bx s => rStep probs ytype first q.y1dc q.y1ac (9 * mbX + bx) by' (4 * by' + bx) s) (fun _ _ => rfl)

theorem y_outer (probs : Array Nat) (q : DequantFactors) (mbX ytype first : Nat) (s : RSt) :
    (forIn (m := Id) [:4] s fun by' (s : RSt) => do
        let s' ← forIn (m := Id) [:4] (eta s) fun bx (s : RSt) =>
          pure (ForInStep.yield (rStep probs ytype first q.y1dc q.y1ac (9 * mbX + bx) by' (4 * by' + bx) s))
        pure (ForInStep.yield (eta s'))) = pure (yAll probs q mbX ytype first s) := by
  rw [forIn_range_id 4 _ _ (fun by' s => yRow probs q mbX ytype first by' s)]
  · rfl
  · intro by' s; rw [y_inner, pure_bind, eta_eq]

theorem uv_inner (probs : Array Nat) (q : DequantFactors) (mbX plane by' : Nat) (s : RSt) :
    (forIn (m := Id) [:2] (eta s) fun bx (s : RSt) =>
      pure (ForInStep.yield (rStep probs 2 0 q.uvdc q.uvac (9 * mbX + 4 + 2 * plane + bx) (4 + 2 * plane + by')
        (16 + 4 * plane + 2 * by' + bx) s))) = pure (uvRow probs q mbX plane by' s) :=
  forIn_range_id 2 _ _ (fun bx s => rStep probs 2 0 q.uvdc q.uvac (9 * mbX + 4 + 2 * plane + bx) (4 + 2 * plane + by')
    (16 + 4 * plane + 2 * by' + bx) s) (fun _ _ => rfl)

theorem uv_mid (probs : Array Nat) (q : DequantFactors) (mbX plane : Nat) (s : RSt) :
    (forIn (m := Id) [:2] (eta s) fun by' (s : RSt) => do
        let s' ← forIn (m := Id) [:2] (eta s) fun bx (s : RSt) =>
          pure (ForInStep.yield (rStep probs 2 0 q.uvdc q.uvac (9 * mbX + 4 + 2 * plane + bx) (4 + 2 * plane + by')
            (16 + 4 * plane + 2 * by' + bx) s))
        pure (ForInStep.yield (eta s'))) = pure (uvPlane probs q mbX plane s) := by
  rw [forIn_range_id 2 _ _ (fun by' s => uvRow probs q mbX plane by' s)]
  · rfl
  · intro by' s; rw [uv_inner, pure_bind, eta_eq]

theorem uv_outer (probs : Array Nat) (q : DequantFactors) (mbX : Nat) (s : RSt) :
    (forIn (m := Id) [:2] (eta s) fun plane (s : RSt) => do
        let s' ← forIn (m := Id) [:2] (eta s) fun by' (s : RSt) => do
          let s'' ← forIn (m := Id) [:2] (eta s) fun bx (s : RSt) =>
            pure (ForInStep.yield (rStep probs 2 0 q.uvdc q.uvac (9 * mbX + 4 + 2 * plane + bx) (4 + 2 * plane + by')
              (16 + 4 * plane + 2 * by' + bx) s))
          pure (ForInStep.yield (eta s''))
        pure (ForInStep.yield (eta s'))) = pure (uvAll probs q mbX s) := by
  rw [forIn_range_id 2 _ _ (fun plane s => uvPlane probs q mbX plane s)]
  · rfl
  · intro plane s; rw [uv_mid, pure_bind, eta_eq]

theorem clear_loop (mbX : Nat) (above left : Array Nat) :
    (forIn (m := Id) [:8] (above, left) fun k (s : Array Nat × Array Nat) =>
      pure (ForInStep.yield (s.1.setIfInBounds (9 * mbX + k) 0, s.2.setIfInBounds k 0))) = pure (clear8 mbX above left) :=
  forIn_range_id 8 _ _ (fun k (s : Array Nat × Array Nat) => (s.1.setIfInBounds (9 * mbX + k) 0, s.2.setIfInBounds k 0))
    (fun _ _ => rfl)

/-- **`readResiduals` with its loops as folds** -/
theorem readResiduals_eq (probs : Array Nat) (q : DequantFactors) (mbX : Nat) (m : MBInfo) (ctx : CoeffCtx) (d : BoolDec) :
    readResiduals probs q mbX m ctx d = specRes probs q mbX m ctx d := by
  unfold readResiduals specRes
  simp only [Id.run]
  have yo := y_outer probs q mbX
  have uo := uv_outer probs q mbX
  have cl := clear_loop mbX
  unfold rStep eta at yo uo
  by_cases h1 : m.skip = true
  · by_cases h2 : m.hasY2 = true
    · simp only [h1, h2, if_true]
      rw [cl]
      simp only [pure_bind]
      generalize clear8 mbX ctx.above ctx.left = C
      rfl
    · simp only [h1, h2, if_true, if_false, Bool.false_eq_true]
      rw [cl]
      simp only [pure_bind]
      generalize clear8 mbX ctx.above ctx.left = C
      rfl
  · by_cases h2 : m.hasY2 = true
    · simp only [h1, h2, if_true, if_false, Bool.false_eq_true]
      have e : ((readBlock probs 1 0 (ctx.above.getD (9 * mbX + 8) 0 + ctx.left.getD 8 0) q.y2dc q.y2ac (24 * 16)
                  (Array.replicate 400 0) d).2.1,
                ctx.above.setIfInBounds (9 * mbX + 8)
                  (if (readBlock probs 1 0 (ctx.above.getD (9 * mbX + 8) 0 + ctx.left.getD 8 0) q.y2dc q.y2ac (24 * 16)
                        (Array.replicate 400 0) d).1 > 0 then 1 else 0),
                ctx.left.setIfInBounds 8
                  (if (readBlock probs 1 0 (ctx.above.getD (9 * mbX + 8) 0 + ctx.left.getD 8 0) q.y2dc q.y2ac (24 * 16)
                        (Array.replicate 400 0) d).1 > 0 then 1 else 0),
                (readBlock probs 1 0 (ctx.above.getD (9 * mbX + 8) 0 + ctx.left.getD 8 0) q.y2dc q.y2ac (24 * 16)
                  (Array.replicate 400 0) d).2.2.2,
                0 ||| (if (readBlock probs 1 0 (ctx.above.getD (9 * mbX + 8) 0 + ctx.left.getD 8 0) q.y2dc q.y2ac (24 * 16)
                        (Array.replicate 400 0) d).1 > 0 then 1 else 0) <<< 24,
                (Array.replicate 25 0).setIfInBounds 24
                  (readBlock probs 1 0 (ctx.above.getD (9 * mbX + 8) 0 + ctx.left.getD 8 0) q.y2dc q.y2ac (24 * 16)
                    (Array.replicate 400 0) d).1,
                false || (readBlock probs 1 0 (ctx.above.getD (9 * mbX + 8) 0 + ctx.left.getD 8 0) q.y2dc q.y2ac (24 * 16)
                    (Array.replicate 400 0) d).2.2.1) =
          rStep probs 1 0 q.y2dc q.y2ac (9 * mbX + 8) 8 24
            (Array.replicate 400 0, ctx.above, ctx.left, d, 0, Array.replicate 25 0, false) := by
        unfold rStep
        simp only []
      rw [e, yo]
      simp only [pure_bind]
      rw [uo]
      simp only [pure_bind]
      generalize uvAll probs q mbX _ = S
      rfl
    · simp only [h1, h2, if_false, Bool.false_eq_true]
      rw [yo]
      simp only [pure_bind]
      rw [uo]
      simp only [pure_bind]
      generalize uvAll probs q mbX _ = S
      rfl

end Webp.Proofs.C04RefineResid
