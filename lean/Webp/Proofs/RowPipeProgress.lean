import Webp.Proofs.RowPipe
/-
  Row pipeline: independence of simultaneously enabled `process` steps, deadlock freedom and the
  termination measure.
-/
namespace Webp.Impl.RowPipe

variable {Val Ctx : Type}

/-! ### independence of concurrent `process` steps -/

/-- Two different workers whose `process` steps are both enabled are in different rows and at
    least two columns apart, the upper row ahead. -/
theorem process_apart {P : Params Val Ctx} {s : State Val Ctx} (h : Inv P s)
    {w1 w2 y1 x1 y2 x2 : Nat} {l1 l2 : Ctx} (hne : w1 ≠ w2)
    (h1 : s.worker w1 = .at y1 x1 l1) (h2 : s.worker w2 = .at y2 x2 l2)
    (hx1 : x1 < P.mbW) (hx2 : x2 < P.mbW)
    (g1 : procGuard P.mbW s.done y1 x1) (g2 : procGuard P.mbW s.done y2 x2) :
    (y1 < y2 ∧ x2 + 2 ≤ x1) ∨ (y2 < y1 ∧ x1 + 2 ≤ x2) := by
  have key : ∀ {wa wb ya xa yb xb : Nat} {la lb : Ctx}, s.worker wa = .at ya xa la →
      s.worker wb = .at yb xb lb → xa < P.mbW → xb < P.mbW → procGuard P.mbW s.done yb xb →
      ya < yb → xb + 2 ≤ xa := by
    intro wa wb ya xa yb xb la lb ha hb hxa hxb gb hlt
    have da := (h.hW _ _ _ _ ha).2.2.2.1
    rcases gb with h0 | gb
    · omega
    · have : s.done (yb - 1) ≤ s.done ya := done_antitone' h (by omega)
      unfold waitX at gb; omega
  have hy : y1 ≠ y2 := by
    intro e; subst e; exact hne (h.hUniq _ _ _ _ _ _ _ h1 h2)
  rcases Nat.lt_or_gt_of_ne hy with hlt | hgt
  · exact Or.inl ⟨hlt, key h1 h2 hx1 hx2 g2 hlt⟩
  · exact Or.inr ⟨hgt, key h2 h1 hx2 hx1 g1 hgt⟩

theorem topRight_upd (mbW : Nat) (top : Nat → Val) {x1 x2 : Nat} (v : Val) (h : x2 + 1 ≠ x1) :
    topRight mbW (upd top x1 v) x2 = topRight mbW top x2 := by
  unfold topRight; rw [upd_ne _ _ h]

/-- `process` steps on disjoint cells commute (pure statement about the effect functions). -/
theorem procEff_comm (P : Params Val Ctx) (s : State Val Ctx) {w1 w2 y1 x1 y2 x2 : Nat}
    (l1 l2 : Ctx) (hw : w1 ≠ w2) (hy : y1 ≠ y2) (hx : x1 ≠ x2) (hx12 : x1 + 1 ≠ x2)
    (hx21 : x2 + 1 ≠ x1) :
    procEff P (procEff P s w1 y1 x1 l1) w2 y2 x2 l2
      = procEff P (procEff P s w2 y2 x2 l2) w1 y1 x1 l1 := by
  unfold procEff
  simp only [upd_ne _ _ hx, upd_ne _ _ (Ne.symm hx), topRight_upd _ _ _ hx21,
    topRight_upd _ _ _ hx12]
  congr 1
  · exact upd_comm _ _ _ hy
  · exact upd_comm _ _ _ hw
  · exact upd_comm _ _ _ hx
  · exact upd_comm _ _ _ hx
  · exact upd2_comm _ _ _ (fun e => hy e.1)

/-- a `process` step of another worker in another row does not disable a `process` step -/
theorem process_stays_enabled {P : Params Val Ctx} {s : State Val Ctx} (h : Inv P s)
    {w1 w2 y1 x1 y2 x2 : Nat} {l1 l2 : Ctx} (hne : w1 ≠ w2)
    (h1 : s.worker w1 = .at y1 x1 l1) (h2 : s.worker w2 = .at y2 x2 l2)
    (g2 : procGuard P.mbW s.done y2 x2) :
    (procEff P s w1 y1 x1 l1).worker w2 = .at y2 x2 l2 ∧
    procGuard P.mbW (procEff P s w1 y1 x1 l1).done y2 x2 := by
  refine ⟨?_, ?_⟩
  · simp only [procEff, upd_ne _ _ (Ne.symm hne)]; exact h2
  · rcases g2 with h0 | g2
    · exact Or.inl h0
    · refine Or.inr ?_
      simp only [procEff]
      by_cases e : y2 - 1 = y1
      · rw [e] at g2; rw [e, upd_same]
        have := (h.hW _ _ _ _ h1).2.2.2.1; omega
      · rw [upd_ne _ _ e]; exact g2

/-- once enabled, a `process` step stays enabled (same arguments) until it is taken: no step of
    anybody else changes the worker's position or falsifies its guard -/
theorem process_persistent {P : Params Val Ctx} {s s' : State Val Ctx} {a : Action}
    (h : Inv P s) {w y x : Nat} {l : Ctx} (hw : s.worker w = .at y x l) (hx : x < P.mbW)
    (hg : procGuard P.mbW s.done y x) (st : Step P s a s') (ha : a ≠ .process w) :
    s'.worker w = .at y x l ∧ procGuard P.mbW s'.done y x := by
  cases st with
  | @claim w' hwn hidle =>
    have hne : w ≠ w' := by intro e; subst e; rw [hidle] at hw; cases hw
    unfold claimEff
    split <;> exact ⟨by simp only [upd_ne _ _ hne]; exact hw, hg⟩
  | @process w' y' x' l' hwn hw' hx' hg' =>
    have hne : w' ≠ w := by intro e; subst e; exact ha rfl
    exact process_stays_enabled h hne hw' hw hg
  | @finishRow w' y' l' hwn hw' =>
    have hne : w ≠ w' := by
      intro e; subst e
      have e3 := hw.symm.trans hw'
      injection e3 with _ e5 _
      omega
    exact ⟨by simp only [finEff, upd_ne _ _ hne]; exact hw, hg⟩
  | record hr hd => exact ⟨hw, hg⟩

/-! ### deadlock freedom -/

/-- a worker inside a row is never stuck for ever: the topmost unfinished row can proceed -/
theorem process_enabled_above {P : Params Val Ctx} {s : State Val Ctx} (h : Inv P s) :
    ∀ y w x l, w < P.n → s.worker w = .at y x l → x < P.mbW → ∃ a s', Step P s a s' := by
  intro y
  induction y using Nat.strongRecOn with
  | _ y ih =>
    intro w x l hwn hw hx
    by_cases hg : procGuard P.mbW s.done y x
    · exact ⟨_, _, Step.process hwn hw hx hg⟩
    · have hy : y ≠ 0 := fun e => hg (Or.inl e)
      have hlt : s.done (y - 1) < waitX P.mbW x := by
        apply Nat.lt_of_not_le; intro hle; exact hg (Or.inr hle)
      obtain ⟨a1, a2, _, _, _⟩ := h.hW w y x l hw
      have hltW : s.done (y - 1) < P.mbW := by unfold waitX at hlt; omega
      obtain ⟨w', l', hw'n, hw'⟩ := h.hOwner (y - 1) (by omega) (by omega) hltW
      exact ih (y - 1) (by omega) w' _ l' hw'n hw' hltW

theorem progress {P : Params Val Ctx} (hn : 0 < P.n) {s : State Val Ctx} (h : Inv P s)
    (hnf : ¬ Final P s) : ∃ a s', Step P s a s' := by
  by_cases hidle : ∃ w, w < P.n ∧ s.worker w = .idle
  · obtain ⟨w, hwn, hw⟩ := hidle
    exact ⟨_, _, Step.claim hwn hw⟩
  · by_cases hat : ∃ w y x l, w < P.n ∧ s.worker w = .at y x l
    · obtain ⟨w, y, x, l, hwn, hw⟩ := hat
      by_cases hx : x = P.mbW
      · subst hx; exact ⟨_, _, Step.finishRow hwn hw⟩
      · have := (h.hW w y x l hw).2.2.1
        exact process_enabled_above h y w x l hwn hw (by omega)
    · -- every worker has returned
      have hall : ∀ w, w < P.n → s.worker w = .exited := by
        intro w hwn
        cases hws : s.worker w with
        | idle => exact absurd ⟨w, hwn, hws⟩ hidle
        | «at» y x l => exact absurd ⟨w, y, x, l, hwn, hws⟩ hat
        | exited => rfl
      have hnext : P.mbH ≤ s.next := h.hExit 0 (hall 0 hn)
      have hrec : s.recd < P.mbH := by
        have := h.hRec.1
        have : s.recd ≠ P.mbH := fun e => hnf ⟨hall, e⟩
        omega
      have hd : s.done s.recd = P.mbW := by
        by_cases hlt : s.done s.recd < P.mbW
        · obtain ⟨w', l', hw'n, hw'⟩ := h.hOwner s.recd (by omega) hrec hlt
          rw [hall w' hw'n] at hw'; cases hw'
        · have := h.hLe s.recd; omega
      exact ⟨_, _, Step.record hrec hd⟩

/-! ### the measure -/

theorem sumTo_upd_lt (g : Nat → Nat) (w v : Nat) : ∀ n, w < n →
    sumTo (upd g w v) n + g w = sumTo g n + v
  | 0, h => absurd h (Nat.not_lt_zero _)
  | n + 1, h => by
    simp only [sumTo]
    by_cases e : w = n
    · subst e
      have : sumTo (upd g w v) w = sumTo g w := by
        clear h
        have aux : ∀ k, k ≤ w → sumTo (upd g w v) k = sumTo g k := by
          intro k
          induction k with
          | zero => intro _; rfl
          | succ k ih =>
            intro hk
            simp only [sumTo]
            rw [ih (by omega), upd_ne _ _ (by omega : k ≠ w)]
        exact aux w (Nat.le_refl _)
      rw [this, upd_same]; omega
    · have ih := sumTo_upd_lt g w v n (by omega)
      rw [upd_ne _ _ (Ne.symm e)]; omega

theorem wpot_upd (wk : Nat → WState Ctx) (w : Nat) (v : WState Ctx) :
    (fun w' => wpot (upd wk w v w')) = upd (fun w' => wpot (wk w')) w (wpot v) := by
  funext w'; simp only [upd]; split <;> rfl

theorem done_upd (mbW : Nat) (d : Nat → Nat) (y v : Nat) :
    (fun y' => mbW - upd d y v y') = upd (fun y' => mbW - d y') y (mbW - v) := by
  funext y'; simp only [upd]; split <;> rfl

theorem measure_decreases {P : Params Val Ctx} {s s' : State Val Ctx} {a : Action}
    (h : Inv P s) (st : Step P s a s') : measure P s' + 1 = measure P s := by
  cases st with
  | @claim w hwn hidle =>
    unfold claimEff
    have key := sumTo_upd_lt (fun w' => wpot (s.worker w')) w
    by_cases hn : s.next < P.mbH
    · rw [if_pos hn]
      simp only [measure, wpot_upd]
      have := key (wpot (.at s.next 0 P.left0 : WState Ctx)) P.n hwn
      simp only [hidle, wpot] at this
      have e1 : min (s.next + 1) P.mbH = s.next + 1 := by omega
      have e2 : min s.next P.mbH = s.next := by omega
      rw [e1, e2]; simp only [wpot]; omega
    · rw [if_neg hn]
      simp only [measure, wpot_upd]
      have := key (wpot (.exited : WState Ctx)) P.n hwn
      simp only [hidle, wpot] at this
      have e1 : min (s.next + 1) P.mbH = P.mbH := by omega
      have e2 : min s.next P.mbH = P.mbH := by omega
      rw [e1, e2]; simp only [wpot]; omega
  | @process w y x l hwn hw hx hg =>
    obtain ⟨_, hy2, _, hdone, _⟩ := h.hW w y x l hw
    unfold procEff
    simp only [measure, wpot_upd, done_upd]
    have k1 := sumTo_upd_lt (fun w' => wpot (s.worker w')) w
      (wpot (.at y (x + 1) (P.f y x (s.top x) (topRight P.mbW s.top x) l).2 : WState Ctx)) P.n hwn
    simp only [hw, wpot] at k1
    have k2 := sumTo_upd_lt (fun y' => P.mbW - s.done y') y (P.mbW - (x + 1)) P.mbH hy2
    simp only [hdone] at k2
    simp only [wpot]; omega
  | @finishRow w y l hwn hw =>
    unfold finEff
    simp only [measure, wpot_upd]
    have k1 := sumTo_upd_lt (fun w' => wpot (s.worker w')) w (wpot (.idle : WState Ctx)) P.n hwn
    simp only [hw, wpot] at k1
    simp only [wpot]; omega
  | record hr hd =>
    unfold recEff
    simp only [measure]; omega

theorem sumTo_const (c : Nat) : ∀ n, sumTo (fun _ => c) n = n * c
  | 0 => by simp [sumTo]
  | n + 1 => by simp only [sumTo, sumTo_const c n, Nat.succ_mul]

theorem measure_init (P : Params Val Ctx) :
    measure P (init P) = 3 * P.mbH + P.n + P.mbH * P.mbW := by
  simp only [measure, init, wpot, sumTo_const, Nat.sub_zero, Nat.zero_min]
  omega

/-! ### the executable step function is sound -/

theorem step?_sound (P : Params Val Ctx) {s s' : State Val Ctx} {a : Action}
    (h : step? P s a = some s') : Step P s a s' := by
  cases a with
  | claim w =>
    simp only [step?] at h
    split at h
    · rename_i hwn
      split at h
      · rename_i hidle; cases h; exact Step.claim hwn hidle
      · cases h
    · cases h
  | process w =>
    simp only [step?] at h
    split at h
    · rename_i hwn
      split at h
      · rename_i y x l hat
        split at h
        · rename_i hc; cases h; exact Step.process hwn hat hc.1 hc.2
        · cases h
      · cases h
    · cases h
  | finishRow w =>
    simp only [step?] at h
    split at h
    · rename_i hwn
      split at h
      · rename_i y x l hat
        split at h
        · rename_i hc; subst hc; cases h; exact Step.finishRow hwn hat
        · cases h
      · cases h
    · cases h
  | record =>
    simp only [step?] at h
    split at h
    · rename_i hc; cases h; exact Step.record hc.1 hc.2
    · cases h

theorem run?_reachable (P : Params Val Ctx) : ∀ (as : List Action) {s s' : State Val Ctx},
    Reachable P s → run? P s as = some s' → Reachable P s'
  | [], s, s', hr, h => by simp only [run?] at h; cases h; exact hr
  | a :: as, s, s', hr, h => by
    simp only [run?] at h
    split at h
    · rename_i s1 h1
      exact run?_reachable P as (Reachable.step hr (step?_sound P h1)) h
    · cases h

theorem run?_any (P : Params Val Ctx) (as : List Action) (p : State Val Ctx → Bool)
    (h : (run? P (init P) as).any p = true) : ∃ s, Reachable P s ∧ p s = true := by
  cases hrun : run? P (init P) as with
  | none => rw [hrun] at h; simp at h
  | some s =>
    rw [hrun] at h
    exact ⟨s, run?_reachable P as Reachable.init hrun, by simpa using h⟩

theorem finalB_sound (P : Params Val Ctx) {s : State Val Ctx} (h : finalB P s = true) :
    Final P s := by
  simp only [finalB, Bool.and_eq_true, List.all_eq_true, List.mem_range, beq_iff_eq] at h
  refine ⟨fun w hw => ?_, h.2⟩
  have := h.1 w hw
  cases hws : s.worker w <;> simp [hws, WState.isExited] at this ⊢

end Webp.Impl.RowPipe
