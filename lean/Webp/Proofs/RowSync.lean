import Webp.Impl.RowSync
import Webp.Proofs.RowPipeProgress
/-
  Invariant of the `waitFor`/`signal` implementation model (`Webp.Impl.RowSync`).
-/
namespace Webp.Impl.RowSync
open Webp.Impl.RowPipe (upd upd_same upd_ne sumTo sumTo_upd_lt)

/-- the thread holds `r.mu` -/
def holds : WPc → Bool
  | .loop _ | .wait _ | .unlock _ => true
  | _ => false

/-- contribution of a thread to `r.waiters`: 1 between its `Add(1)` and its `Add(-1)` -/
def cw : WPc → Nat
  | .lock _ | .loop _ | .wait _ | .sleep _ | .woken _ | .unlock _ | .dec _ => 1
  | _ => 0

theorem cw_wake (p : WPc) : cw (wake p) = cw p := by cases p <;> rfl

theorem holds_wake (p : WPc) : holds (wake p) = holds p := by cases p <;> rfl

theorem cw_upd (pc : Nat → WPc) (t : Nat) (v : WPc) :
    (fun t' => cw (upd pc t v t')) = upd (fun t' => cw (pc t')) t (cw v) := by
  funext t'; simp only [upd]; split <;> rfl

theorem le_sumTo (g : Nat → Nat) : ∀ n t, t < n → g t ≤ sumTo g n
  | 0, _, h => absurd h (Nat.not_lt_zero _)
  | n + 1, t, h => by
    simp only [sumTo]
    by_cases e : t = n
    · subst e; omega
    · have := le_sumTo g n t (by omega); omega

structure Inv (T : Nat) (s : State) : Prop where
  hOut : ∀ t, T ≤ t → s.pc t = .idle
  hMuW : ∀ t, s.mu = some (.w t) ↔ holds (s.pc t) = true
  hMuS : s.mu = some .sig ↔ ∃ v, s.spc = .unlock v
  hCnt : s.waiters = ((sumTo (fun t => cw (s.pc t)) T : Nat) : Int)
  hGuard : ∀ t n, (s.pc t = .unlock n ∨ s.pc t = .dec n ∨ s.pc t = .ret n) → n ≤ s.done
  hSigV : ∀ v, (s.spc = .ldw v ∨ s.spc = .lock v ∨ s.spc = .unlock v ∨ s.spc = .bcast v) →
      s.done = v
  hSigS : ∀ v, s.spc = .store v → s.done ≤ v
  hWait : ∀ t n, s.pc t = .wait n → n ≤ s.done → ∃ v, s.spc = .ldw v ∨ s.spc = .lock v
  hSleep : ∀ t n, s.pc t = .sleep n → n ≤ s.done → pending s.spc = true

theorem inv_init (T : Nat) : Inv T init := by
  have h0 : ∀ n, sumTo (fun _ => 0) n = 0 := by
    intro n; induction n with
    | zero => rfl
    | succ n ih => simp [sumTo, ih]
  constructor <;> simp [init, holds, cw, pending, h0]

/-- a thread that is counted in `waiters` makes the counter positive -/
theorem waiters_pos {T : Nat} {s : State} (h : Inv T s) {t : Nat} (hc : cw (s.pc t) = 1) :
    0 < s.waiters := by
  have ht : t < T := by
    apply Nat.lt_of_not_le; intro hle
    rw [h.hOut t hle] at hc; simp [cw] at hc
  have := le_sumTo (fun t => cw (s.pc t)) T t ht
  rw [h.hCnt]; omega

theorem lt_of_pc {T : Nat} {s : State} (h : Inv T s) {t : Nat} (hne : s.pc t ≠ .idle) : t < T := by
  apply Nat.lt_of_not_le; intro hle; exact hne (h.hOut t hle)

theorem cnt_upd (pc : Nat → WPc) {T t : Nat} (v : WPc) (ht : t < T) :
    ((sumTo (fun t' => cw (upd pc t v t')) T : Nat) : Int)
      = ((sumTo (fun t' => cw (pc t')) T : Nat) : Int) - (cw (pc t) : Nat) + (cw v : Nat) := by
  rw [cw_upd]
  have := sumTo_upd_lt (fun t' => cw (pc t')) t (cw v) T ht
  omega

theorem inv_step {T : Nat} {s s' : State} {a : Label} (h : Inv T s) (st : Step T s a s') :
    Inv T s' := by
  have hlt := @lt_of_pc T s h
  have hpos := @waiters_pos T s h
  obtain ⟨hOut, hMuW, hMuS, hCnt, hGuard, hSigV, hSigS, hWait, hSleep⟩ := h
  cases st with
  | wCall n ht hpc =>
    constructor
    · grind [upd]
    · grind [upd, holds]
    · grind
    · dsimp only; rw [cnt_upd _ _ ht, hpc, ← hCnt]; simp [cw]
    · grind [upd]
    · grind
    · grind
    · grind [upd]
    · grind [upd]
  | wChkFast hpc hd =>
    have ht := hlt (by rw [hpc]; simp)
    constructor
    · grind [upd]
    · grind [upd, holds]
    · grind [upd, holds]
    · dsimp only; rw [cnt_upd _ _ ht, hpc, hCnt]; simp [cw]; try omega
    · grind [upd]
    · grind
    · grind
    · grind [upd, holds]
    · grind [upd, holds, pending]
  | wChkSlow hpc hd =>
    have ht := hlt (by rw [hpc]; simp)
    constructor
    · grind [upd]
    · grind [upd, holds]
    · grind [upd, holds]
    · dsimp only; rw [cnt_upd _ _ ht, hpc, hCnt]; simp [cw]; try omega
    · grind [upd]
    · grind
    · grind
    · grind [upd, holds]
    · grind [upd, holds, pending]
  | wInc hpc =>
    have ht := hlt (by rw [hpc]; simp)
    constructor
    · grind [upd]
    · grind [upd, holds]
    · grind [upd, holds]
    · dsimp only; rw [cnt_upd _ _ ht, hpc, hCnt]; simp [cw]; try omega
    · grind [upd]
    · grind
    · grind
    · grind [upd, holds]
    · grind [upd, holds, pending]
  | wLock hpc hm =>
    have ht := hlt (by rw [hpc]; simp)
    constructor
    · grind [upd]
    · grind [upd, holds]
    · grind [upd, holds]
    · dsimp only; rw [cnt_upd _ _ ht, hpc, hCnt]; simp [cw]; try omega
    · grind [upd]
    · grind
    · grind
    · grind [upd, holds]
    · grind [upd, holds, pending]
  | wLoopWait hpc hd =>
    have ht := hlt (by rw [hpc]; simp)
    constructor
    · grind [upd]
    · grind [upd, holds]
    · grind [upd, holds]
    · dsimp only; rw [cnt_upd _ _ ht, hpc, hCnt]; simp [cw]; try omega
    · grind [upd]
    · grind
    · grind
    · grind [upd, holds]
    · grind [upd, holds, pending]
  | wLoopExit hpc hd =>
    have ht := hlt (by rw [hpc]; simp)
    constructor
    · grind [upd]
    · grind [upd, holds]
    · grind [upd, holds]
    · dsimp only; rw [cnt_upd _ _ ht, hpc, hCnt]; simp [cw]; try omega
    · grind [upd]
    · grind
    · grind
    · grind [upd, holds]
    · grind [upd, holds, pending]
  | wWait hpc =>
    have ht := hlt (by rw [hpc]; simp)
    constructor
    · grind [upd]
    · grind [upd, holds]
    · grind [upd, holds]
    · dsimp only; rw [cnt_upd _ _ ht, hpc, hCnt]; simp [cw]; try omega
    · grind [upd]
    · grind
    · grind
    · grind [upd, holds]
    · grind [upd, holds, pending]
  | wRelock hpc hm =>
    have ht := hlt (by rw [hpc]; simp)
    constructor
    · grind [upd]
    · grind [upd, holds]
    · grind [upd, holds]
    · dsimp only; rw [cnt_upd _ _ ht, hpc, hCnt]; simp [cw]; try omega
    · grind [upd]
    · grind
    · grind
    · grind [upd, holds]
    · grind [upd, holds, pending]
  | wUnlock hpc =>
    have ht := hlt (by rw [hpc]; simp)
    constructor
    · grind [upd]
    · grind [upd, holds]
    · grind [upd, holds]
    · dsimp only; rw [cnt_upd _ _ ht, hpc, hCnt]; simp [cw]; try omega
    · grind [upd]
    · grind
    · grind
    · grind [upd, holds]
    · grind [upd, holds, pending]
  | wDec hpc =>
    have ht := hlt (by rw [hpc]; simp)
    constructor
    · grind [upd]
    · grind [upd, holds]
    · grind [upd, holds]
    · dsimp only; rw [cnt_upd _ _ ht, hpc, hCnt]; simp [cw]; try omega
    · grind [upd]
    · grind
    · grind
    · grind [upd, holds]
    · grind [upd, holds, pending]
  | wRet hpc =>
    have ht := hlt (by rw [hpc]; simp)
    constructor
    · grind [upd]
    · grind [upd, holds]
    · grind [upd, holds]
    · dsimp only; rw [cnt_upd _ _ ht, hpc, hCnt]; simp [cw]; try omega
    · grind [upd]
    · grind
    · grind
    · grind [upd, holds]
    · grind [upd, holds, pending]
  | sCall v hs hd =>
    constructor
    · grind
    · grind [holds]
    · grind [holds]
    · exact hCnt
    · grind
    · grind
    · grind
    · grind [holds, cw]
    · grind [holds, pending, cw]
  | sStore hs =>
    constructor
    · grind
    · grind [holds]
    · grind [holds]
    · exact hCnt
    · grind
    · grind
    · grind
    · grind [holds, cw]
    · grind [holds, pending, cw]
  | sLdwSlow hs hw =>
    constructor
    · grind
    · grind [holds]
    · grind [holds]
    · exact hCnt
    · grind
    · grind
    · grind
    · grind [holds, cw]
    · grind [holds, pending, cw]
  | sLdwFast hs hw =>
    constructor
    · grind
    · grind [holds]
    · grind [holds]
    · exact hCnt
    · grind
    · grind
    · grind
    · grind [holds, cw]
    · grind [holds, pending, cw]
  | sLock hs hm =>
    constructor
    · grind
    · grind [holds]
    · grind [holds]
    · exact hCnt
    · grind
    · grind
    · grind
    · grind [holds, cw]
    · grind [holds, pending, cw]
  | sUnlock hs =>
    constructor
    · grind
    · grind [holds]
    · grind [holds]
    · exact hCnt
    · grind
    · grind
    · grind
    · grind [holds, cw]
    · grind [holds, pending, cw]
  | reset hall hs =>
    constructor
    · grind
    · grind [holds]
    · grind [holds]
    · exact hCnt
    · grind
    · grind
    · grind
    · grind [holds, cw]
    · grind [holds, pending, cw]
  | sBcast hs =>
    constructor
    · grind [wake]
    · intro t; dsimp only; rw [holds_wake]; exact hMuW t
    · grind [holds]
    · dsimp only; simp only [cw_wake]; exact hCnt
    · intro t n; cases hp : s.pc t <;> grind [wake]
    · grind
    · grind
    · intro t n; cases hp : s.pc t <;> grind [wake]
    · intro t n; cases hp : s.pc t <;> grind [wake]

theorem inv_reachable {T : Nat} {s : State} (h : Reachable T s) : Inv T s := by
  induction h with
  | init => exact inv_init T
  | step _ st ih => exact inv_step ih st

/-- a thread inside `waitFor` always has an enabled step, except when it needs the mutex or
    sleeps on the condition variable -/
theorem waiter_step {T : Nat} {s : State} (t : Nat) (hm : s.mu = none)
    (hne : s.pc t ≠ .idle) (hns : ∀ n, s.pc t ≠ .sleep n) : ∃ s', Step T s (.w t) s' := by
  cases hp : s.pc t with
  | idle => exact absurd hp hne
  | sleep n => exact absurd hp (hns n)
  | chk n =>
    by_cases hd : n ≤ s.done
    · exact ⟨_, Step.wChkFast hp hd⟩
    · exact ⟨_, Step.wChkSlow hp (by omega)⟩
  | inc n => exact ⟨_, Step.wInc hp⟩
  | lock n => exact ⟨_, Step.wLock hp hm⟩
  | loop n =>
    by_cases hd : n ≤ s.done
    · exact ⟨_, Step.wLoopExit hp hd⟩
    · exact ⟨_, Step.wLoopWait hp (by omega)⟩
  | wait n => exact ⟨_, Step.wWait hp⟩
  | woken n => exact ⟨_, Step.wRelock hp hm⟩
  | unlock n => exact ⟨_, Step.wUnlock hp⟩
  | dec n => exact ⟨_, Step.wDec hp⟩
  | ret n => exact ⟨_, Step.wRet hp⟩

/-- the holder of the mutex can always take a step (nobody blocks while holding `r.mu`) -/
theorem holder_step {T : Nat} {s : State} (t : Nat) (hh : holds (s.pc t) = true) :
    ∃ s', Step T s (.w t) s' := by
  cases hp : s.pc t with
  | loop n =>
    by_cases hd : n ≤ s.done
    · exact ⟨_, Step.wLoopExit hp hd⟩
    · exact ⟨_, Step.wLoopWait hp (by omega)⟩
  | wait n => exact ⟨_, Step.wWait hp⟩
  | unlock n => exact ⟨_, Step.wUnlock hp⟩
  | _ => rw [hp] at hh; simp [holds] at hh

/-- the signaller, once inside `signal`, has an enabled step unless it needs the mutex -/
theorem sig_step {T : Nat} {s : State} (hm : s.mu = none) (hne : s.spc ≠ .idle) :
    ∃ s', Step T s .sig s' := by
  cases hs : s.spc with
  | idle => exact absurd hs hne
  | store v => exact ⟨_, Step.sStore hs⟩
  | ldw v =>
    by_cases hw : 0 < s.waiters
    · exact ⟨_, Step.sLdwSlow hs hw⟩
    · exact ⟨_, Step.sLdwFast hs (by omega)⟩
  | lock v => exact ⟨_, Step.sLock hs hm⟩
  | unlock v => exact ⟨_, Step.sUnlock hs⟩
  | bcast v => exact ⟨_, Step.sBcast hs⟩

/-- Either the row is at rest — the signaller is outside `signal` and every waiter is outside
    `waitFor` or asleep *with its value still missing* — or some step inside `waitFor`/`signal`
    is enabled. -/
theorem no_deadlock {T : Nat} {s : State} (h : Inv T s) :
    (s.spc = .idle ∧ ∀ t, s.pc t = .idle ∨ ∃ n, s.pc t = .sleep n ∧ s.done < n) ∨
    ∃ lab s', Step T s lab s' ∧ (lab = .sig ∨ ∃ t, lab = .w t) := by
  cases hm : s.mu with
  | some o =>
    right
    cases o with
    | sig =>
      obtain ⟨v, hv⟩ := h.hMuS.mp hm
      exact ⟨_, _, Step.sUnlock hv, Or.inl rfl⟩
    | w t =>
      obtain ⟨s', hs'⟩ := holder_step (T := T) t ((h.hMuW t).mp hm)
      exact ⟨_, _, hs', Or.inr ⟨t, rfl⟩⟩
  | none =>
    by_cases hs : s.spc = .idle
    · by_cases hex : ∃ t, s.pc t ≠ .idle ∧ ∀ n, s.pc t ≠ .sleep n
      · obtain ⟨t, h1, h2⟩ := hex
        obtain ⟨s', hs'⟩ := waiter_step (T := T) t hm h1 h2
        exact Or.inr ⟨_, _, hs', Or.inr ⟨t, rfl⟩⟩
      · left
        refine ⟨hs, ?_⟩
        intro t
        by_cases h1 : s.pc t = .idle
        · exact Or.inl h1
        · right
          have : ¬ ∀ n, s.pc t ≠ .sleep n := fun h2 => hex ⟨t, h1, h2⟩
          obtain ⟨n, hn⟩ := Classical.not_forall.mp this
          have hn' : s.pc t = .sleep n := Classical.not_not.mp hn
          refine ⟨n, hn', ?_⟩
          apply Nat.lt_of_not_le; intro hle
          have := h.hSleep t n hn' hle
          rw [hs] at this; simp [pending] at this
    · obtain ⟨s', hs'⟩ := sig_step (T := T) hm hs
      exact Or.inr ⟨_, _, hs', Or.inl rfl⟩

/-- While a sleeper's value is available, every step of the signaller either wakes the sleeper
    or brings the signaller strictly closer to its `Broadcast`; it never leaves `signal` through
    the fast path. -/
theorem sig_step_wakes {T : Nat} {s s' : State} (h : Inv T s) {t n : Nat}
    (hp : s.pc t = .sleep n) (hd : n ≤ s.done) (st : Step T s .sig s') :
    s'.pc t = .woken n ∨
    (s'.pc t = .sleep n ∧ n ≤ s'.done ∧ pending s'.spc = true ∧ sigRank s'.spc < sigRank s.spc) := by
  have hpend := h.hSleep t n hp hd
  have hpos := waiters_pos h (t := t) (by rw [hp]; rfl)
  generalize hl : Label.sig = lab at st
  cases st with
  | sStore hs => rw [hs] at hpend; simp [pending] at hpend
  | sLdwSlow hs hw => right; simp [hp, hd, hs, pending, sigRank]
  | sLdwFast hs hw => omega
  | sLock hs hm => right; simp [hp, hd, hs, pending, sigRank]
  | sUnlock hs => right; simp [hp, hd, hs, pending, sigRank]
  | sBcast hs => left; simp [hp, wake]
  | _ => cases hl

/-- "Wait cannot return unless awoken by Broadcast": a sleeper stays asleep under every step
    except the signaller's `Broadcast`. -/
theorem sleeper_stays {T : Nat} {s s' : State} {lab : Label} {t n : Nat}
    (hp : s.pc t = .sleep n) (st : Step T s lab s') :
    s'.pc t = .sleep n ∨ (s'.pc t = .woken n ∧ lab = .sig) := by
  cases st <;> first
    | (left; exact hp)
    | (rename_i t' _ _; left; show upd s.pc t' _ t = _
       have : t ≠ t' := by intro e; subst e; simp_all
       rw [upd_ne _ _ this]; exact hp)
    | (rename_i t' _ _ _; left; show upd s.pc t' _ t = _
       have : t ≠ t' := by intro e; subst e; simp_all
       rw [upd_ne _ _ this]; exact hp)
    | (right; simp [hp, wake])

end Webp.Impl.RowSync
