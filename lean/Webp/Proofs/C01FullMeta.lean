import Webp.Impl.VP8LEntropyMeta
import Webp.Proofs.VP8LEntropyStream
import Webp.Proofs.VP8LSpecBridge
/-
  C01, stage 1: streams whose main image uses a META PREFIX IMAGE (several prefix-code groups).

  New with respect to `Webp.Proofs.VP8LEntropyStream` (single histogram):
    * `groups_roundtrip`   — the encoder writes the groups' codes in index order, `readGroups` reads them;
    * `refLoop_tokens_groups` — the pixel loop where both sides select the group by position:
         encoder (`storeImageData`)  histoIdx = symbols[(y >> bits) * txSize + (x >> bits)]   at the token START
         decoder (spec `groupIndexAt`)        entropy[(y >> bits) * ⌈w / 2^bits⌉ + (x >> bits)] at `out.size`
      with the encoder's running `(x, y)` (the `for x >= width { x -= width; y++ }` loop) equal to
      `(pos % width, pos / width)`;
    * `mainBody_roundtrip` — `readMetaPrefix` (entropy sub-image → `(px >> 8) & 0xffff`, `max + 1` groups).
  The per-group work reuses `group_roundtrip` / `token_roundtrip` unchanged.
-/
namespace Webp.Proofs.C01FullMeta
open Webp.Go (Res)
open Webp.Spec.VP8L
open Webp.Impl.VP8LEntropy
open Webp.Proofs.VP8LEntropyBits Webp.Proofs.VP8LEntropyRev Webp.Proofs.VP8LEntropyCanon
open Webp.Proofs.VP8LEntropyPrefix Webp.Proofs.VP8LEntropyCodeLengths Webp.Proofs.VP8LEntropyTokens
open Webp.Proofs.VP8LEntropyStream

/-! ## one group -/

/-- the `i`-th code-length vector of a group -/
def GroupPlan.l (g : GroupPlan) (i : Nat) : Array Nat := g.lens5.getD i #[]

/-- validity of the five codes of one histogram (as in `ImageValid`) -/
structure GroupValid (cb : Nat) (g : GroupPlan) : Prop where
  lens5_len : g.lens5.length = 5
  cl5_len : g.cl5.length = 5
  vecs : ∀ i, i < 5 → VecValid (alphabetSize cb i) (g.lens5.getD i #[]) (g.cl5.getD i #[])

/-- the decoder's group for a group plan -/
def GroupRel (g : GroupPlan) (q : Group) : Prop :=
  GroupFor (GroupPlan.l g 0) (GroupPlan.l g 1) (GroupPlan.l g 2) (GroupPlan.l g 3) (GroupPlan.l g 4) q

theorem groupTrees_eq (g : GroupPlan) (h5 : g.lens5.length = 5) :
    groupTrees g = treesOf (GroupPlan.l g 0) (GroupPlan.l g 1) (GroupPlan.l g 2) (GroupPlan.l g 3)
      (GroupPlan.l g 4) := by
  obtain ⟨a, b, c, d, e, hl⟩ := list5 _ h5
  unfold groupTrees GroupPlan.l treesOf
  rw [hl]
  rfl

theorem oneGroup_roundtrip (cb : Nat) (hcb : cb = 0 ∨ (1 ≤ cb ∧ cb ≤ 11)) (g : GroupPlan)
    (hv : GroupValid cb g) (br : BitReader) (rest : List Bool)
    (hb : restBits br = callsBits (storeGroup g) ++ rest) :
    ∃ grp br', readGroup cb br = .ok (grp, br') ∧ GroupRel g grp ∧ restBits br' = rest ∧
      br'.data = br.data := by
  obtain ⟨l5, c5, vecs⟩ := hv
  obtain ⟨a, b, c, d, e, hl⟩ := list5 _ l5
  obtain ⟨ca, cb', cc, cd, ce, hc⟩ := list5 _ c5
  have v0 := vecs 0 (by omega)
  have v1 := vecs 1 (by omega)
  have v2 := vecs 2 (by omega)
  have v3 := vecs 3 (by omega)
  have v4 := vecs 4 (by omega)
  unfold storeGroup at hb
  rw [hl, hc] at hb
  rw [hl, hc] at v0 v1 v2 v3 v4
  simp only [List.getD_cons_zero, List.getD_cons_succ] at v0 v1 v2 v3 v4
  obtain ⟨grp, br1, r1, hg, b1, d1⟩ := group_roundtrip cb hcb a b c d e ca cb' cc cd ce v0 v1 v2 v3 v4 br _ hb
  refine ⟨grp, br1, r1, ?_, b1, d1⟩
  unfold GroupRel GroupPlan.l
  rw [hl]
  exact hg

/-! ## all groups, in index order -/

def GroupsRel : List GroupPlan → List Group → Prop
  | [], [] => True
  | g :: gs, q :: qs => GroupRel g q ∧ GroupsRel gs qs
  | _, _ => False

theorem GroupsRel.length : ∀ {gs : List GroupPlan} {qs : List Group}, GroupsRel gs qs → qs.length = gs.length
  | [], [], _ => rfl
  | _ :: gs, _ :: qs, h => by
    have := GroupsRel.length (gs := gs) (qs := qs) h.2
    simp [this]
  | [], _ :: _, h => h.elim
  | _ :: _, [], h => h.elim

theorem GroupsRel.get : ∀ {gs : List GroupPlan} {qs : List Group}, GroupsRel gs qs → ∀ k, k < gs.length →
    GroupRel (gs.getD k default) (qs.getD k default)
  | [], [], _, k, hk => by simp at hk
  | g :: gs, q :: qs, h, 0, _ => by simpa using h.1
  | g :: gs, q :: qs, h, k + 1, hk => by
    have := GroupsRel.get (gs := gs) (qs := qs) h.2 k (by simpa using hk)
    simpa using this
  | [], _ :: _, h, _, _ => h.elim
  | _ :: _, [], h, _, _ => h.elim

theorem groups_roundtrip (cb : Nat) (hcb : cb = 0 ∨ (1 ≤ cb ∧ cb ≤ 11)) (rest : List Bool) :
    ∀ (gs : List GroupPlan) (acc : Array Group) (br : BitReader),
      (∀ g ∈ gs, GroupValid cb g) →
      restBits br = callsBits (gs.flatMap storeGroup) ++ rest →
      ∃ qs br', readGroups cb gs.length acc br = .ok (acc ++ qs.toArray, br') ∧ GroupsRel gs qs ∧
        restBits br' = rest ∧ br'.data = br.data := by
  intro gs
  induction gs with
  | nil =>
    intro acc br _ hb
    refine ⟨[], br, ?_, trivial, by simpa [callsBits_nil] using hb, rfl⟩
    simp [readGroups]
  | cons g gs ih =>
    intro acc br hv hb
    simp only [List.flatMap_cons, VP8LEntropyCodeLengths.callsBits_append, List.append_assoc] at hb
    obtain ⟨q, br1, r1, hq, b1, d1⟩ := oneGroup_roundtrip cb hcb g (hv g List.mem_cons_self) br _ hb
    obtain ⟨qs, br', r2, hqs, b2, d2⟩ := ih (acc.push q) br1 (fun g' hg' => hv g' (List.mem_cons_of_mem _ hg')) b1
    refine ⟨q :: qs, br', ?_, ⟨hq, hqs⟩, b2, by rw [d2, d1]⟩
    rw [List.length_cons, readGroups, r1]
    simp only
    rw [r2]
    simp

/-! ## the pixel loop with group selection by position -/

/-- pixels a token produces -/
def tokLen : Token → Nat
  | .copy l _ => l
  | _ => 1

theorem length_tokenRef' (w : Nat) (t : Token) : (tokenRef' w t).length = tokLen t := by
  cases t <;> rfl

/-- the `i`-th code-length vector of the group `storeImageData` selects at pixel `pos` -/
def lensAt (p : MainPlan) (pos i : Nat) : Array Nat :=
  GroupPlan.l (p.groups.getD (p.histoIdxAt pos) default) i

/-- every token can be expressed with the five trees of the histogram selected AT ITS START POSITION -/
def TokensValidFrom (p : MainPlan) : Nat → List Token → Prop
  | _, [] => True
  | pos, t :: ts =>
    TokenValid p.width (lensAt p pos 0) (lensAt p pos 1) (lensAt p pos 2) (lensAt p pos 3) (lensAt p pos 4) t ∧
    TokensValidFrom p (pos + tokLen t) ts

theorem size_execToken_eq (npix cb : Nat) (t : Token) (out cache out' cache' : Array UInt32)
    (h : execToken npix cb t out cache = .ok (out', cache')) : out'.size = out.size + tokLen t := by
  cases t with
  | literal argb =>
    simp only [execToken, Res.ok.injEq, Prod.mk.injEq] at h
    rw [← h.1]; simp [tokLen]
  | copy length dist =>
    simp only [execToken] at h
    split at h
    · cases h
    · split at h
      · cases h
      · simp only [Res.ok.injEq] at h
        have := Webp.Proofs.VP8LSpecBridge.size_copyLoop cb dist length out cache
        rw [h] at this
        simpa [tokLen] using this
  | cache idx =>
    simp only [execToken] at h
    split at h
    · simp only [Res.ok.injEq, Prod.mk.injEq] at h
      rw [← h.1]; simp [tokLen]
    · cases h

/-- one step of `storeImageDataLoop`, with the histogram index made explicit -/
theorem storeImageDataLoop_cons (symbols : Array Nat) (huffCodes : Array TreeGroup) (width histoBits : Nat)
    (v : PixOrCopy) (rest : List PixOrCopy) (x y : Nat) :
    storeImageDataLoop symbols huffCodes width histoBits (v :: rest) x y =
      (let histoIdx :=
        if huffCodes.size > 1 ∧ histoBits > 0 then
          let symIdx := (y >>> histoBits) * subSampleSize width histoBits + (x >>> histoBits)
          if symIdx < symbols.size then symbols.getD symIdx 0 else 0
        else 0
      let histoIdx := if histoIdx ≥ huffCodes.size then 0 else histoIdx
      emitRef (huffCodes.getD histoIdx default) v ++
        storeImageDataLoop symbols huffCodes width histoBits rest
          (wrapXY width (v.length + 1) (x + v.length) y).1 (wrapXY width (v.length + 1) (x + v.length) y).2) := by
  rw [storeImageDataLoop]

theorem getD_or_zero (a : Array Nat) (i : Nat) : (if i < a.size then a.getD i 0 else 0) = a.getD i 0 := by
  by_cases h : i < a.size
  · rw [if_pos h]
  · rw [if_neg h]
    simp only [Array.getD_eq_getD_getElem?]
    rw [Array.getElem?_eq_none (by omega)]; rfl

/-- **one step of `storeImageData` in terms of the plan**: for a token starting at pixel
    `pos = y * width + x` the encoder uses the trees of the histogram `histoIdxAt pos`, and its running
    `(x, y)` stays the position of the next token -/
theorem storeImageDataLoop_step (p : MainPlan) (hlens : ∀ g ∈ p.groups, g.lens5.length = 5)
    (t : Token) (vs : List PixOrCopy) (pos x y : Nat) (hxy : pos = y * p.width + x) (hx : x < p.width)
    (hlt : p.histoIdxAt pos < p.groups.length) :
    storeImageDataLoop p.symbols (p.groups.map groupTrees).toArray p.width p.histoBits
        (tokenRef' p.width t :: vs) x y =
      emitRef (treesOf (lensAt p pos 0) (lensAt p pos 1) (lensAt p pos 2) (lensAt p pos 3) (lensAt p pos 4))
        (tokenRef' p.width t) ++
      storeImageDataLoop p.symbols (p.groups.map groupTrees).toArray p.width p.histoBits vs
        ((x + tokLen t) % p.width) (y + (x + tokLen t) / p.width) ∧
    pos + tokLen t = (y + (x + tokLen t) / p.width) * p.width + (x + tokLen t) % p.width ∧
    (x + tokLen t) % p.width < p.width := by
  obtain ⟨hxm, hyd⟩ := VP8LEntropyLoop.xy_unique hxy hx
  have hsz : ((p.groups.map groupTrees).toArray).size = p.groups.length := by simp
  have hidx : (let histoIdx :=
        if ((p.groups.map groupTrees).toArray).size > 1 ∧ p.histoBits > 0 then
          let symIdx := (y >>> p.histoBits) * subSampleSize p.width p.histoBits + (x >>> p.histoBits)
          if symIdx < p.symbols.size then p.symbols.getD symIdx 0 else 0
        else 0
      if histoIdx ≥ ((p.groups.map groupTrees).toArray).size then 0 else histoIdx) = p.histoIdxAt pos := by
    simp only
    rw [getD_or_zero, hsz]
    have e : (if p.groups.length > 1 ∧ p.histoBits > 0 then
        p.symbols.getD ((y >>> p.histoBits) * subSampleSize p.width p.histoBits + (x >>> p.histoBits)) 0
        else 0) = p.histoIdxAt pos := by
      unfold MainPlan.histoIdxAt
      rw [hxm, hyd]
    rw [e, if_neg (by omega)]
  have htrees : ((p.groups.map groupTrees).toArray).getD (p.histoIdxAt pos) default =
      treesOf (lensAt p pos 0) (lensAt p pos 1) (lensAt p pos 2) (lensAt p pos 3) (lensAt p pos 4) := by
    have hmem : p.groups.getD (p.histoIdxAt pos) default ∈ p.groups := by
      rw [List.getD_eq_getElem?_getD, List.getElem?_eq_getElem hlt]; exact List.getElem_mem hlt
    unfold lensAt
    rw [← groupTrees_eq _ (hlens _ hmem)]
    simp only [Array.getD_eq_getD_getElem?, List.getElem?_toArray, List.getElem?_map,
      List.getD_eq_getElem?_getD, List.getElem?_eq_getElem hlt]
    rfl
  refine ⟨?_, ?_, Nat.mod_lt _ (by omega)⟩
  · rw [storeImageDataLoop_cons]
    simp only at hidx
    simp only
    rw [hidx, htrees, length_tokenRef', VP8LEntropyLoop.wrapXY_copy p.width (tokLen t) x y hx]
  · rw [hxy, Nat.add_mul]
    have := Nat.div_add_mod (x + tokLen t) p.width
    rw [Nat.mul_comm] at this
    omega

/-- what the specification's loop sees of the decoded parameters, in terms of the plan -/
structure Selects (p : MainPlan) (ep : EntropyParams) (qs : List Group) : Prop where
  width : ep.width = p.width
  groups : ep.groups = qs.toArray
  rel : GroupsRel p.groups qs
  lens : ∀ g ∈ p.groups, g.lens5.length = 5
  /-- both sides select the same group, and it exists -/
  idx : ∀ pos, groupIndexAt ep pos = p.histoIdxAt pos ∧ p.histoIdxAt pos < p.groups.length

theorem refLoop_tokens_groups (p : MainPlan) (hw : 1 ≤ p.width) (ep : EntropyParams) (qs : List Group)
    (hs : Selects p ep qs) (npix cb : Nat) (rest : List Bool) (px : Array UInt32) :
    ∀ (fuel : Nat) (toks : List Token) (out cache : Array UInt32) (br : BitReader) (x y : Nat),
      out.size = y * p.width + x → x < p.width →
      TokensValidFrom p out.size toks →
      restBits br = callsBits (storeImageDataLoop p.symbols (p.groups.map groupTrees).toArray p.width p.histoBits
        (toks.map (tokenRef' p.width)) x y) ++ rest →
      refLoop listSource (fun _ => 0) npix cb fuel out cache toks = .ok (px, []) →
      ∃ br', refLoop (specSource ep) (groupIndexAt ep) npix cb fuel out cache br = .ok (px, br') ∧
        restBits br' = rest ∧ br'.data = br.data := by
  intro fuel
  induction fuel with
  | zero => intro toks out cache br x y _ _ _ _ h; cases h
  | succ fuel ih =>
    intro toks out cache br x y hxy hx hv hb hl
    rw [VP8LEntropyLoop.refLoop_succ] at hl ⊢
    by_cases hdone : out.size ≥ npix
    · rw [if_pos hdone] at hl ⊢
      injection hl with hl
      injection hl with h1 h2
      subst h1 h2
      exact ⟨br, rfl, by simpa [storeImageDataLoop, callsBits_nil] using hb, rfl⟩
    · rw [if_neg hdone] at hl ⊢
      cases toks with
      | nil => cases hl
      | cons t ts =>
        obtain ⟨hvt, hvs⟩ := hv
        obtain ⟨hgi, hlt⟩ := hs.idx out.size
        obtain ⟨hstep, hxy', hx'⟩ := storeImageDataLoop_step p hs.lens t (ts.map (tokenRef' p.width)) out.size x y
          hxy hx hlt
        simp only [List.map_cons] at hb
        rw [hstep, VP8LEntropyCodeLengths.callsBits_append, List.append_assoc] at hb
        -- the decoder's group
        have hqlen := hs.rel.length
        have hgrel := hs.rel.get _ hlt
        have hglt : groupIndexAt ep out.size < ep.groups.size := by
          rw [hgi, hs.groups]; simp [hqlen]; exact hlt
        have hnext : (specSource ep).next (groupIndexAt ep out.size) br =
            readToken (qs.getD (p.histoIdxAt out.size) default) p.width br := by
          show (if h : groupIndexAt ep out.size < ep.groups.size then
            readToken ep.groups[groupIndexAt ep out.size] ep.width br else .err .groupIndex) = _
          rw [dif_pos hglt, hs.width]
          congr 1
          have : qs.getD (p.histoIdxAt out.size) default = qs[p.histoIdxAt out.size]'(by omega) := by
            rw [List.getD_eq_getElem?_getD, List.getElem?_eq_getElem (by omega)]; rfl
          rw [this]
          simp only [hs.groups, hgi, List.getElem_toArray]
        obtain ⟨br1, r1, b1, d1⟩ := token_roundtrip hw hgrel t hvt br _ hb
        rw [hnext, r1]
        have hl' : (match execToken npix cb t out cache with
            | .ok (out, cache) => refLoop listSource (fun _ => 0) npix cb fuel out cache ts
            | .err e => .err e
            | .panic => .panic
            | .hang => .hang) = .ok (px, []) := hl
        simp only
        cases he : execToken npix cb t out cache with
        | ok oc =>
          obtain ⟨out', cache'⟩ := oc
          rw [he] at hl'
          have hsize := size_execToken_eq npix cb t out cache out' cache' he
          obtain ⟨br', r', b', d'⟩ := ih ts out' cache' br1 ((x + tokLen t) % p.width)
            (y + (x + tokLen t) / p.width) (by rw [hsize]; exact hxy') hx'
            (by rw [hsize]; exact hvs) b1 hl'
          exact ⟨br', r', b', by rw [d', d1]⟩
        | err e => rw [he] at hl'; cases hl'
        | panic => rw [he] at hl'; cases hl'
        | hang => rw [he] at hl'; cases hl'

/-- every call `storeImageData` makes is well formed -/
theorem storeImageDataLoop_ok (p : MainPlan) (hw : 1 ≤ p.width) (hlens : ∀ g ∈ p.groups, g.lens5.length = 5)
    (h15 : ∀ pos i, ∀ x ∈ lensAt p pos i, x ≤ 15) (hidx : ∀ pos, p.histoIdxAt pos < p.groups.length) :
    ∀ (toks : List Token) (pos x y : Nat), pos = y * p.width + x → x < p.width →
      TokensValidFrom p pos toks →
      CallsOK (storeImageDataLoop p.symbols (p.groups.map groupTrees).toArray p.width p.histoBits
        (toks.map (tokenRef' p.width)) x y) := by
  intro toks
  induction toks with
  | nil => intro _ _ _ _ _ _; exact CallsOK.nil
  | cons t ts ih =>
    intro pos x y hxy hx hv
    obtain ⟨hstep, hxy', hx'⟩ := storeImageDataLoop_step p hlens t (ts.map (tokenRef' p.width)) pos x y
      hxy hx (hidx pos)
    simp only [List.map_cons]
    rw [hstep]
    exact (emitRef_ok hw (h15 pos 0) (h15 pos 1) (h15 pos 2) (h15 pos 3) (h15 pos 4) t hv.1).append
      (ih _ _ _ hxy' hx' hv.2)

end Webp.Proofs.C01FullMeta
