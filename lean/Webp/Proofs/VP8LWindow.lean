import Webp.Impl.VP8LWindow
import Webp.Proofs.VP8LEntropyReader
import Webp.Proofs.VP8LEntropyTableF
/-
  The WINDOW BUDGET of the VP8L pixel loop, part 1: the window states `Good` / `Doomed`, what
  `FillBitWindow` guarantees, and what one lookup / one extra-bits read does in such a state.
-/
namespace Webp.Proofs.VP8LWindow
open Webp.Go (Res)
open Webp.Spec.VP8L (BitReader Err Token Code)
open Webp.Impl.VP8LEntropy
open Webp.Impl.VP8LWindow
open Webp.Proofs.VP8LEntropyBits
open Webp.Proofs.VP8LEntropyReader

/-- the specification-side reader at bit `P` of the zero-extended input -/
def brAt (buf : Array UInt8) (P : Nat) : BitReader := { data := ⟨pad8 buf⟩, pos := P }

/-- number of bits of the zero-extended input -/
def nbits (buf : Array UInt8) : Nat := 8 * (pad8 buf).size

/-- **window state with slack `k`**: a consistent non-eos reader that has consumed `P` bits and whose
    register position is at most `k` — or whose window already is the LAST 8 bytes of the input
    (then every bit still to come is in the register, and running past bit 64 is running past the
    end of the input). -/
structure Good (buf : Array UInt8) (r : Reader) (P k : Nat) : Prop where
  win : Win buf r P
  room : r.bitPos ≤ k ∨ (r.pos = buf.size ∧ r.bitPos ≤ 64)

/-- the reader has run past the end of the input: `IsEndOfStream()` is (and stays) true -/
def Doomed (r : Reader) : Prop := r.isEndOfStream = true

theorem Good.mono {buf : Array UInt8} {r : Reader} {P k k' : Nat} (h : Good buf r P k) (hk : k ≤ k') :
    Good buf r P k' := ⟨h.win, by have := h.room; omega⟩

theorem Good.le64 {buf : Array UInt8} {r : Reader} {P k : Nat} (h : Good buf r P k) (hk : k ≤ 64) :
    r.bitPos ≤ 64 := by have := h.room; omega

theorem Good.of_win {buf : Array UInt8} {r : Reader} {P : Nat} (hw : Win buf r P) (h64 : r.bitPos ≤ 64) :
    Good buf r P 64 := ⟨hw, Or.inl h64⟩

theorem Good.not_eos {buf : Array UInt8} {r : Reader} {P k : Nat} (h : Good buf r P k) (hk : k ≤ 64) :
    r.isEndOfStream = false := by
  have h64 := h.le64 hk
  cases he : r.isEndOfStream
  · rfl
  · have := (isEndOfStream_iff h.win).mp he; omega

/-- geometry of the window: `8·wstart + 64 ≤ nbits`, with equality at the end of the input -/
theorem win_geom {buf : Array UInt8} {r : Reader} {P : Nat} (hw : Win buf r P) :
    P = 8 * wstart buf r + r.bitPos ∧ 8 * wstart buf r + 64 ≤ nbits buf ∧
    (r.pos = buf.size → 8 * wstart buf r + 64 = nbits buf) := by
  have h1 := hw.P_eq
  have h2 := hw.pos_ge
  have h3 := hw.pos_le
  unfold nbits
  rw [pad8_size]
  simp only [wstart] at h1 ⊢
  omega

theorem Good.P_le {buf : Array UInt8} {r : Reader} {P k : Nat} (h : Good buf r P k) (hk : k ≤ 64) :
    P ≤ nbits buf := by
  obtain ⟨a, b, _⟩ := win_geom h.win
  have := h.le64 hk
  omega

/-- **what `FillBitWindow` guarantees**: from any state with `bitPos ≤ 64`, slack 32 — i.e.
    `bitPos ≤ 32`, or the end of the data is in the register -/
theorem fill_good {buf : Array UInt8} {r : Reader} {P : Nat} (h : Good buf r P 64) :
    Good buf r.fillBitWindow P 32 := by
  obtain ⟨a, b, c, _⟩ := fill_prefetch_eq_peek h.win (h.le64 (Nat.le_refl _))
  exact ⟨a, by omega⟩

/-- the sharper form of the refill guarantee: unless the register was completely used up
    (`bitPos = 64`, which refills to exactly 32), `FillBitWindow` leaves `bitPos < 32` — or the end
    of the data is in the register -/
theorem fill_good_lt {buf : Array UInt8} {r : Reader} {P k : Nat} (h : Good buf r P k) (hk : k ≤ 63) :
    Good buf r.fillBitWindow P 31 := by
  have h64 : r.bitPos ≤ 64 := h.le64 (by omega)
  obtain ⟨a, b, c, _⟩ := fill_prefetch_eq_peek h.win h64
  refine ⟨a, ?_⟩
  rcases c with c | c
  swap
  · exact Or.inr ⟨c, b⟩
  -- `bitPos ≤ 32` after the refill: which branch was taken?
  unfold Reader.fillBitWindow at c b ⊢
  by_cases h32 : r.bitPos ≥ 32
  · rw [if_pos h32] at c b ⊢
    by_cases hp : r.pos + 4 ≤ buf.size
    · obtain ⟨_, e, _⟩ := doFill_fast h.win h32 hp
      rcases h.room with h1 | ⟨h1, _⟩
      · left; omega
      · omega
    · have hd : r.doFillBitWindow = r.shiftBytes := by
        unfold Reader.doFillBitWindow
        rw [if_neg (by rw [h.win.buf_eq]; exact hp)]
      rw [hd] at c b ⊢
      have hPle : P ≤ 8 * (pad8 buf).size := h.P_le (by omega)
      have hi := (shiftBytes_spec h.win).1 hPle
      rcases hi.shifted with s | s
      · left; omega
      · exact Or.inr ⟨s, b⟩
  · rw [if_neg h32] at c b ⊢
    left; omega

/-- **slack after an optional refill**: without one the slack stays; a refill brings it to 31 — to 32
    when the register may have been used up completely (`k = 64`) -/
def after (fill : Bool) (k : Nat) : Nat := if fill then (if k ≤ 63 then 31 else 32) else k

theorem fillIf_good {buf : Array UInt8} {r : Reader} {P k : Nat} (b : Bool) (h : Good buf r P k) (hk : k ≤ 64) :
    Good buf (fillIf goOps b r) P (after b k) := by
  unfold fillIf after
  cases b
  · exact h
  · by_cases h63 : k ≤ 63
    · simp only [if_true, if_pos h63]
      exact fill_good_lt h h63
    · simp only [if_true, if_neg h63]
      exact fill_good (h.mono hk)

theorem after_le (b : Bool) {k : Nat} (hk : k ≤ 64) : after b k ≤ 64 := by
  unfold after
  cases b
  · simpa using hk
  · by_cases h63 : k ≤ 63
    · simp [h63]
    · simp [h63]

/-- `SetBitPos(BitPos()+n)` inside the input and inside the budget -/
theorem advance_good {buf : Array UInt8} {r : Reader} {P k : Nat} (h : Good buf r P k) (n : Nat)
    (hP : P + n ≤ nbits buf) : Good buf (r.advance n) (P + n) (k + n) := by
  refine ⟨advance_win h.win n, ?_⟩
  obtain ⟨a, b, c⟩ := win_geom h.win
  show r.bitPos + n ≤ k + n ∨ (r.pos = buf.size ∧ r.bitPos + n ≤ 64)
  rcases h.room with h1 | ⟨h1, h2⟩
  · left; omega
  · right; have := c h1; exact ⟨h1, by omega⟩

/-- … past the end of the input: inside the budget that can only happen when the register holds
    the end of the data, and then `IsEndOfStream()` is raised -/
theorem advance_doomed {buf : Array UInt8} {r : Reader} {P k : Nat} (h : Good buf r P k) (n : Nat)
    (hk : k + n ≤ 64) (hP : nbits buf < P + n) : Doomed (r.advance n) := by
  obtain ⟨a, b, c⟩ := win_geom h.win
  unfold Doomed
  rw [isEndOfStream_iff (advance_win h.win n)]
  show r.pos = buf.size ∧ 64 < r.bitPos + n
  rcases h.room with h1 | ⟨h1, h2⟩
  · omega
  · have := c h1; exact ⟨h1, by omega⟩

theorem doomed_advance {r : Reader} (h : Doomed r) (n : Nat) : Doomed (r.advance n) := by
  unfold Doomed Reader.isEndOfStream Reader.advance at *
  simp only [Bool.or_eq_true, Bool.and_eq_true, beq_iff_eq, decide_eq_true_eq] at h ⊢
  rcases h with h | ⟨h1, h2⟩
  · left; exact h
  · right; exact ⟨h1, by omega⟩

theorem doomed_fill {r : Reader} (h : Doomed r) : Doomed r.fillBitWindow := by
  unfold Doomed at *
  by_cases he : r.eos = true
  · -- the flag is never cleared
    have key : r.fillBitWindow.eos = true := by
      unfold Reader.fillBitWindow
      split
      · unfold Reader.doFillBitWindow
        split
        · exact he
        · unfold Reader.shiftBytes
          have hl : ∀ f (r' : Reader), r'.eos = true → (Reader.shiftLoop f r').eos = true := by
            intro f
            induction f with
            | zero => intro r' h'; exact h'
            | succ f ih =>
              intro r' h'
              unfold Reader.shiftLoop
              split
              · exact ih _ h'
              · exact h'
          have := hl (r.bitPos / 8 + 1) r he
          simp only
          split
          · rfl
          · exact this
      · exact he
    exact isEndOfStream_of_eos key
  · have he' : r.eos = false := by cases hh : r.eos <;> simp_all
    have hp : r.pos = r.buf.size ∧ 64 < r.bitPos := by
      unfold Reader.isEndOfStream at h
      simpa [he'] using h
    have hsl : Reader.shiftLoop (r.bitPos / 8 + 1) r = r := by
      unfold Reader.shiftLoop
      rw [if_neg (by omega)]
    unfold Reader.fillBitWindow
    rw [if_pos (by omega)]
    unfold Reader.doFillBitWindow
    rw [if_neg (by omega)]
    unfold Reader.shiftBytes
    simp only [hsl]
    rw [if_pos h]
    rfl

theorem doomed_fillIf {r : Reader} (b : Bool) (h : Doomed r) : Doomed (fillIf goOps b r) := by
  unfold fillIf
  cases b
  · exact h
  · exact doomed_fill h

/-- `PrefetchBits()` inside the budget: its low `n` bits are the next `n` bits of the input (zeros
    past the end) -/
theorem prefetch_low {buf : Array UInt8} {r : Reader} {P k : Nat} (h : Good buf r P k) (n : Nat)
    (hn : n ≤ 32) (hk : k + n ≤ 64) (hlt : r.bitPos < 64) :
    r.prefetchBits.toNat % 2 ^ n = peekBits (brAt buf P) 32 % 2 ^ n := by
  rw [prefetch_toNat, Nat.mod_eq_of_lt hlt, Nat.mod_mod_of_dvd _ (Nat.pow_dvd_pow 2 hn)]
  have hfield := window_field h.win r.bitPos n (by have := h.room; omega)
  rw [hfield, ← h.win.P_eq]
  unfold peekBits
  rw [Webp.Proofs.VP8LEntropyTableF.ofBitsLE_take_mod, List.take_take, Nat.min_eq_left hn]
  rfl


/-! ## tables -/

/-- what the lookups of a table built from an accepted length vector of `A` symbols do: total
    (never the `-1` sentinel, never out of the slice), at most 15 bits, symbols `< A`, the result
    depends on the 15 low look-ahead bits only, and either every lookup takes 0 bits (single-symbol
    code: always the same symbol) or every lookup takes at least one -/
structure TableOK (tbl : Table) (A : Nat) : Prop where
  total : ∀ w, ∃ v used, readSymbolRaw 8 tbl w = .ok (some (v, used)) ∧ used ≤ 15 ∧ v < A
  low15 : ∀ w w', w % 2 ^ 15 = w' % 2 ^ 15 → readSymbolRaw 8 tbl w = readSymbolRaw 8 tbl w'
  zeroOrPos : (∃ s, ∀ w, readSymbolRaw 8 tbl w = .ok (some (s, 0))) ∨
    (∀ w v used, readSymbolRaw 8 tbl w = .ok (some (v, used)) → 1 ≤ used)

open Webp.Proofs.VP8LEntropyCanon Webp.Proofs.VP8LEntropyTableA Webp.Proofs.VP8LEntropyTableD
  Webp.Proofs.VP8LEntropyTableF in
/-- **code lengths ≤ 15 ⇒ lookups ≤ 15 bits**: every table `BuildHuffmanTable(8, lens)` returns for a
    length vector the specification accepts is `TableOK` -/
theorem tableOK_of_buildCode {lens : Array Nat} {code : Code} {tbl : Table}
    (h : Webp.Spec.VP8L.buildCode lens = .ok code) (ht : buildTable 8 lens = .ok tbl) :
    TableOK tbl lens.size := by
  obtain ⟨h15, hpos, _, _, _⟩ := buildCode_ok h
  by_cases h1 : offs lens 16 = 1
  · obtain ⟨tbl', ht', hlook⟩ := buildTable_single lens h15 h1 8
    rw [ht] at ht'
    cases ht'
    have hcnt : ∃ l, 1 ≤ l ∧ l ≤ 15 ∧ 0 < cnt lens l := by
      by_cases hex : ∃ l, 1 ≤ l ∧ l ≤ 15 ∧ 0 < cnt lens l
      · exact hex
      · exfalso
        have hall : ∀ l, l ≤ 16 → offs lens l = 0 := by
          intro l hl
          induction l with
          | zero => rfl
          | succ l ih =>
            rw [offs, ih (by omega), cnt']
            by_cases h0 : l = 0
            · simp [h0]
            · rw [if_neg h0]
              have : ¬ 0 < cnt lens l := fun hp => hex ⟨l, by omega, by omega, hp⟩
              omega
        have := hall 16 (Nat.le_refl _)
        omega
    obtain ⟨l, hl1, hl15, hc⟩ := hcnt
    obtain ⟨s, hs, hsl, _⟩ := exists_sym (lens := lens) (l := l) (m := 0) ⟨hl1, hl15, hc⟩
    have hne : lens.getD s 0 ≠ 0 := by omega
    have hall := hlook s hs hne
    exact ⟨fun w => ⟨s, 0, hall w, by omega, hs⟩, fun w w' _ => by rw [hall w, hall w'], Or.inl ⟨s, hall⟩⟩
  · have hc := complete_of_buildCode h h1
    obtain ⟨tbl', sorted, ht', hsorted, hlook⟩ := buildTable_complete hc 8 (by omega) (by omega)
    rw [ht] at ht'
    cases ht'
    have key : ∀ w, ∃ l m s, Sym lens l m ∧ w % 2 ^ l = keyOf lens l m ∧ s < lens.size ∧
        readSymbolRaw 8 tbl w = .ok (some (s, l)) := by
      intro w
      obtain ⟨l, m, hs, hw⟩ := cover hc w
      obtain ⟨s, hss, hsl, hsm⟩ := exists_sym hs
      have hne : lens.getD s 0 ≠ 0 := by have := hs.1; omega
      have hsymOf : symOf lens sorted l m = s := by
        unfold symOf
        have := hsorted s hss hne
        rw [hsl, hsm] at this; exact this
      have hraw := hlook l m hs _ hw
      rw [hsymOf] at hraw
      exact ⟨l, m, s, hs, hw, hss, hraw⟩
    refine ⟨?_, ?_, Or.inr ?_⟩
    · intro w
      obtain ⟨l, m, s, hs, _, hss, hraw⟩ := key w
      exact ⟨s, l, hraw, hs.2.1, hss⟩
    · intro w w' hww
      obtain ⟨l, m, s, hs, hw, hss, hraw⟩ := key w
      have hw' : w' % 2 ^ l = keyOf lens l m := by
        have hl15 := hs.2.1
        have e : 2 ^ 15 = 2 ^ l * 2 ^ (15 - l) := by rw [← Nat.pow_add]; congr 1; omega
        have e1 : w % 2 ^ l = w % 2 ^ 15 % 2 ^ l := by rw [e, Nat.mod_mul_right_mod]
        have e2 : w' % 2 ^ l = w' % 2 ^ 15 % 2 ^ l := by rw [e, Nat.mod_mul_right_mod]
        rw [e2, ← hww, ← e1]; exact hw
      obtain ⟨s', hss', hsl', hsm'⟩ := exists_sym hs
      have hne : lens.getD s' 0 ≠ 0 := by have := hs.1; omega
      have hsymOf : symOf lens sorted l m = s' := by
        unfold symOf
        have := hsorted s' hss' hne
        rw [hsl', hsm'] at this; exact this
      rw [hlook l m hs w hw, hlook l m hs w' hw']
    · intro w v used hr
      obtain ⟨l, m, s, hs, _, _, hraw⟩ := key w
      rw [hraw] at hr
      cases hr
      exact hs.1

/-! ## one lookup -/

/-- the model's `readSymbol` on the specification-side reader, spelled out -/
theorem implReadSymbol_eq {tbl : Table} {br : BitReader} {v used : Nat}
    (h : readSymbolRaw 8 tbl (peekBits br 32) = .ok (some (v, used))) :
    Webp.Impl.VP8LEntropy.readSymbol 8 tbl br =
      if br.pos + used > 8 * br.data.size then .err .eos else .ok (v, { br with pos := br.pos + used }) := by
  unfold Webp.Impl.VP8LEntropy.readSymbol
  rw [h]

theorem implReadSymbol_at {tbl : Table} {buf : Array UInt8} {P v used : Nat}
    (h : readSymbolRaw 8 tbl (peekBits (brAt buf P) 32) = .ok (some (v, used))) :
    Webp.Impl.VP8LEntropy.readSymbol 8 tbl (brAt buf P) =
      if nbits buf < P + used then .err .eos else .ok (v, brAt buf (P + used)) := by
  rw [implReadSymbol_eq h]
  rfl

/-- **one `ReadSymbol` inside the budget** (`k + 15 ≤ 64`): the Go lookup returns some `(v, used)`,
    `used ≤ 15`, and EITHER the code word lies inside the input, the lookup on the true stream bits
    returns the same `(v, used)` and the window stays consistent, OR the code word runs past the end
    of the input on both sides (`eos` there, `IsEndOfStream()` from now on here). -/
theorem readSym_good {tbl : Table} {A : Nat} (ht : TableOK tbl A) {buf : Array UInt8} {r : Reader}
    {P k : Nat} (hg : Good buf r P k) (hk : k + 15 ≤ 64) (tree : String) :
    ∃ v used, readSym goOps tree tbl r = .ok (v, r.advance used) ∧ used ≤ 15 ∧ v < A ∧
      ((Webp.Impl.VP8LEntropy.readSymbol 8 tbl (brAt buf P) = .ok (v, brAt buf (P + used)) ∧
          Good buf (r.advance used) (P + used) (k + 15)) ∨
       (Webp.Impl.VP8LEntropy.readSymbol 8 tbl (brAt buf P) = .err .eos ∧ Doomed (r.advance used))) := by
  obtain ⟨v, used, hraw, hu15, hvA⟩ := ht.total r.prefetchBits.toNat
  have hgo : readSym goOps tree tbl r = .ok (v, r.advance used) := by
    unfold readSym
    simp only [goOps, Webp.Impl.VP8LFastPaths.huffmanTableBits, hraw]
  refine ⟨v, used, hgo, hu15, hvA, ?_⟩
  have h64 := hg.le64 (by omega : k ≤ 64)
  obtain ⟨ga, gb, gc⟩ := win_geom hg.win
  by_cases hlt : r.bitPos < 64
  · -- the look-ahead agrees on the 15 low bits
    have hlow := prefetch_low hg 15 (by omega) hk hlt
    have hspec : readSymbolRaw 8 tbl (peekBits (brAt buf P) 32) = .ok (some (v, used)) := by
      rw [← ht.low15 _ _ hlow]; exact hraw
    rw [implReadSymbol_at hspec]
    by_cases hP : P + used ≤ nbits buf
    · left
      rw [if_neg (by omega)]
      exact ⟨rfl, (advance_good hg used hP).mono (by omega)⟩
    · right
      rw [if_pos (by omega)]
      exact ⟨rfl, advance_doomed hg used (by omega) (by omega)⟩
  · -- the register is used up: `bitPos = 64` at the very end of the input; the look-ahead is stale
    have h64' : r.bitPos = 64 := by omega
    have hpos : r.pos = buf.size := by have := hg.room; omega
    have hPn : P = nbits buf := by have := gc hpos; omega
    rcases ht.zeroOrPos with ⟨s, hs⟩ | hpos1
    · -- zero-bit code: the look-ahead does not matter
      have e := hs r.prefetchBits.toNat
      rw [hraw] at e
      cases e
      rw [implReadSymbol_at (hs _)]
      left
      rw [if_neg (by omega)]
      exact ⟨rfl, (advance_good hg 0 (by omega)).mono (by omega)⟩
    · right
      obtain ⟨v', used', hraw', _, _⟩ := ht.total (peekBits (brAt buf P) 32)
      have h1 := hpos1 _ _ _ hraw
      have h1' := hpos1 _ _ _ hraw'
      rw [implReadSymbol_at hraw']
      rw [if_pos (by omega)]
      refine ⟨rfl, ?_⟩
      unfold Doomed
      rw [isEndOfStream_iff (advance_win hg.win used)]
      exact ⟨hpos, by show 64 < r.bitPos + used; omega⟩

/-- a lookup after the end of the input was passed: some symbol, and `IsEndOfStream()` stays true -/
theorem readSym_doomed {tbl : Table} {A : Nat} (ht : TableOK tbl A) {r : Reader} (hd : Doomed r)
    (tree : String) :
    ∃ v used, readSym goOps tree tbl r = .ok (v, r.advance used) ∧ Doomed (r.advance used) := by
  obtain ⟨v, used, hraw, _, _⟩ := ht.total r.prefetchBits.toNat
  refine ⟨v, used, ?_, doomed_advance hd used⟩
  unfold readSym
  simp only [goOps, Webp.Impl.VP8LFastPaths.huffmanTableBits, hraw]

end Webp.Proofs.VP8LWindow
