import Webp.Proofs.VP8LWindow2Steps
/-
  The WINDOW BUDGET, part 7: the loop of `readHuffmanCodeLengths` against the specification's
  `readCodeLengthsLoop`.
-/
namespace Webp.Proofs.VP8LWindow
open Webp.Go (Res)
open Webp.Spec.VP8L (BitReader Err Code pushN readCodeLengthsLoop)
open Webp.Impl.VP8LEntropy
open Webp.Impl.VP8LWindow
open Webp.Proofs.VP8LEntropyBits
open Webp.Proofs.VP8LEntropyReader

/-! ## the length vector: a fixed-size array filled from the left -/

/-- `acc` followed by `k` zeros -/
def pad (a : Array Nat) (k : Nat) : Array Nat := a ++ Array.replicate k 0

theorem pad_zero (a : Array Nat) : pad a 0 = a := by simp [pad]

theorem set_pad (a : Array Nat) (k v : Nat) : (pad a (k + 1)).setIfInBounds a.size v = pad (a.push v) k := by
  apply Array.ext'
  simp [pad, List.replicate_succ]

theorem pushN_size (a : Array Nat) (v n : Nat) : (pushN a v n).size = a.size + n := by
  induction n generalizing a with
  | zero => rfl
  | succ n ih => rw [pushN, ih]; simp; omega

theorem pushN_zero_pad (a : Array Nat) (k : Nat) : pushN a 0 k = pad a k := by
  induction k generalizing a with
  | zero => simp [pushN, pad]
  | succ k ih =>
    rw [pushN, ih]
    apply Array.ext'
    simp [pad, List.replicate_succ]

theorem fillRun_pad (a : Array Nat) (k n v : Nat) (h : n ≤ k) :
    fillRun (pad a k) a.size n v = pad (pushN a v n) (k - n) := by
  induction n generalizing a k with
  | zero => rfl
  | succ n ih =>
    obtain ⟨k', rfl⟩ : ∃ k', k = k' + 1 := ⟨k - 1, by omega⟩
    rw [fillRun, set_pad, pushN]
    have := ih (a.push v) k' (by omega)
    simp only [Array.size_push] at this
    rw [this]
    congr 1
    omega

/-- the Go loop state stands for the specification's accumulator -/
structure CLRel (A : Nat) (st : CLState) (acc : Array Nat) (prev : Nat) : Prop where
  sym : st.symbol = acc.size
  le : acc.size ≤ A
  arr : st.codeLengths = pad acc (A - acc.size)
  prev : st.prev = prev

/-! ## one iteration -/

theorem clStep_go (t : Table) (A : Nat) (st : CLState) (r : Reader) :
    clStep goOps2 t A st r =
      if h : r.fillBitWindow.prefetchBits.toNat &&& 127 < t.size then
        if t[r.fillBitWindow.prefetchBits.toNat &&& 127].value < 16 then
          .ok ({ codeLengths := st.codeLengths.setIfInBounds st.symbol t[r.fillBitWindow.prefetchBits.toNat &&& 127].value,
                 symbol := st.symbol + 1,
                 prev := if t[r.fillBitWindow.prefetchBits.toNat &&& 127].value ≠ 0 then
                   t[r.fillBitWindow.prefetchBits.toNat &&& 127].value else st.prev },
               r.fillBitWindow.advance t[r.fillBitWindow.prefetchBits.toNat &&& 127].bits)
        else if t[r.fillBitWindow.prefetchBits.toNat &&& 127].value - 16 < 3 then
          if st.symbol + (((r.fillBitWindow.advance t[r.fillBitWindow.prefetchBits.toNat &&& 127].bits).readBits
              (codeLengthExtraBits.getD (t[r.fillBitWindow.prefetchBits.toNat &&& 127].value - 16) 0)).1.toNat +
              codeLengthRepeatOffsets.getD (t[r.fillBitWindow.prefetchBits.toNat &&& 127].value - 16) 0) > A then
            .err .repeatOverflow
          else
            .ok ({ codeLengths := fillRun st.codeLengths st.symbol
                     (((r.fillBitWindow.advance t[r.fillBitWindow.prefetchBits.toNat &&& 127].bits).readBits
                        (codeLengthExtraBits.getD (t[r.fillBitWindow.prefetchBits.toNat &&& 127].value - 16) 0)).1.toNat +
                      codeLengthRepeatOffsets.getD (t[r.fillBitWindow.prefetchBits.toNat &&& 127].value - 16) 0)
                     (if t[r.fillBitWindow.prefetchBits.toNat &&& 127].value = 16 then st.prev else 0),
                   symbol := st.symbol +
                     (((r.fillBitWindow.advance t[r.fillBitWindow.prefetchBits.toNat &&& 127].bits).readBits
                        (codeLengthExtraBits.getD (t[r.fillBitWindow.prefetchBits.toNat &&& 127].value - 16) 0)).1.toNat +
                      codeLengthRepeatOffsets.getD (t[r.fillBitWindow.prefetchBits.toNat &&& 127].value - 16) 0),
                   prev := st.prev },
                 ((r.fillBitWindow.advance t[r.fillBitWindow.prefetchBits.toNat &&& 127].bits).readBits
                    (codeLengthExtraBits.getD (t[r.fillBitWindow.prefetchBits.toNat &&& 127].value - 16) 0)).2)
        else .panic
      else .panic := rfl

/-- the step in terms of the cell found and the value `ReadBits` returns -/
theorem clStep_cell {t : Table} {A : Nat} {st : CLState} {r : Reader} {used v : Nat}
    (hc : t[r.fillBitWindow.prefetchBits.toNat &&& 127]? = some ⟨used, v⟩) (hv : v < 19) :
    clStep goOps2 t A st r =
      if v < 16 then
        .ok ({ codeLengths := st.codeLengths.setIfInBounds st.symbol v, symbol := st.symbol + 1,
               prev := if v ≠ 0 then v else st.prev }, r.fillBitWindow.advance used)
      else
        if st.symbol + (((r.fillBitWindow.advance used).readBits (codeLengthExtraBits.getD (v - 16) 0)).1.toNat +
            codeLengthRepeatOffsets.getD (v - 16) 0) > A then .err .repeatOverflow
        else
          .ok ({ codeLengths := fillRun st.codeLengths st.symbol
                   (((r.fillBitWindow.advance used).readBits (codeLengthExtraBits.getD (v - 16) 0)).1.toNat +
                    codeLengthRepeatOffsets.getD (v - 16) 0) (if v = 16 then st.prev else 0),
                 symbol := st.symbol +
                   (((r.fillBitWindow.advance used).readBits (codeLengthExtraBits.getD (v - 16) 0)).1.toNat +
                    codeLengthRepeatOffsets.getD (v - 16) 0),
                 prev := st.prev },
               ((r.fillBitWindow.advance used).readBits (codeLengthExtraBits.getD (v - 16) 0)).2) := by
  rw [clStep_go]
  have hlt : r.fillBitWindow.prefetchBits.toNat &&& 127 < t.size := by
    by_cases h : r.fillBitWindow.prefetchBits.toNat &&& 127 < t.size
    · exact h
    · rw [Array.getElem?_eq_none (by omega)] at hc; cases hc
  have he : t[r.fillBitWindow.prefetchBits.toNat &&& 127] = ⟨used, v⟩ := by
    rw [Array.getElem?_eq_getElem hlt] at hc; exact Option.some.inj hc
  rw [dif_pos hlt]
  simp only [he]
  by_cases h16 : v < 16
  · rw [if_pos h16, if_pos h16]
  · rw [if_neg h16, if_neg h16, if_pos (by omega)]

/-! ## the specification's loop, one step at a time -/

open Webp.Spec.VP8L in
/-- one token of `readCodeLengthsLoop`: new `prev`, new accumulator -/
def specStep (c : Code) (A prev : Nat) (acc : Array Nat) (br : BitReader) : Res Err ((Nat × Array Nat) × BitReader) :=
  match readSymbol c br with
  | .ok (s, br) =>
    if s < 16 then .ok ((if s = 0 then prev else s, acc.push s), br)
    else
      match br.readBits (if s = 16 then 2 else if s = 17 then 3 else 7) with
      | .ok (e, br) =>
        if acc.size + ((if s = 18 then 11 else 3) + e) > A then .err .repeatOverflow
        else .ok ((prev, pushN acc (if s = 16 then prev else 0) ((if s = 18 then 11 else 3) + e)), br)
      | .err e => .err e
      | .panic => .panic
      | .hang => .hang
  | .err e => .err e
  | .panic => .panic
  | .hang => .hang

theorem loop_succ (c : Code) (A t prev : Nat) (acc : Array Nat) (br : BitReader) :
    readCodeLengthsLoop c A (t + 1) prev acc br =
      if acc.size ≥ A then .ok (acc, br)
      else
        match specStep c A prev acc br with
        | .ok ((p', a'), br') => readCodeLengthsLoop c A t p' a' br'
        | .err e => .err e
        | .panic => .panic
        | .hang => .hang := by
  rw [readCodeLengthsLoop]
  unfold specStep
  by_cases h : acc.size ≥ A
  · rw [if_pos h, if_pos h]
  · rw [if_neg h, if_neg h]
    cases Webp.Spec.VP8L.readSymbol c br with
    | ok x =>
      obtain ⟨s, br1⟩ := x
      dsimp only
      by_cases h16 : s < 16
      · rw [if_pos h16, if_pos h16]
      · rw [if_neg h16, if_neg h16]
        cases br1.readBits (if s = 16 then 2 else if s = 17 then 3 else 7) with
        | ok y =>
          obtain ⟨e, br2⟩ := y
          dsimp only
          by_cases hov : acc.size + ((if s = 18 then 11 else 3) + e) > A
          · rw [if_pos hov, if_pos hov]
          · rw [if_neg hov, if_neg hov]
        | err e => rfl
        | panic => rfl
        | hang => rfl
    | err e => rfl
    | panic => rfl
    | hang => rfl

/-- Go's exit against the specification's: the same values and a consistent window; or both fail —
    with the same cause, or, once the end of the input is passed (`eos` in the specification), Go
    through any of its `ErrBitstream` exits or with `IsEndOfStream()` raised for the test that follows -/
def FailOr {α : Type} (go : Res Err (α × Reader)) (e : Err) : Prop :=
  go = .err e ∨ (e = .eos ∧ ((∃ e', go = .err e') ∨ ∃ a r', go = .ok (a, r') ∧ Doomed r'))

def StepOut (buf : Array UInt8) (A : Nat) (go : Res Err (CLState × Reader))
    (sp : Res Err ((Nat × Array Nat) × BitReader)) : Prop :=
  match sp with
  | .ok ((p', a'), br') =>
    ∃ st' r' P', go = .ok (st', r') ∧ CLRel A st' a' p' ∧ br' = brAt buf P' ∧ Good buf r' P' 39
  | .err e => FailOr go e
  | .panic => True
  | .hang => True

def LoopOut (buf : Array UInt8) (go : Res Err (CLState × Reader)) (sp : Res Err (Array Nat × BitReader)) : Prop :=
  match sp with
  | .ok (lens, br') =>
    ∃ st' r' P', go = .ok (st', r') ∧ st'.codeLengths = lens ∧ br' = brAt buf P' ∧ Good buf r' P' 39
  | .err e => FailOr go e
  | .panic => True
  | .hang => True

theorem extra_tables {v : Nat} (h16 : ¬ v < 16) (hv : v < 19) :
    codeLengthExtraBits.getD (v - 16) 0 = (if v = 16 then 2 else if v = 17 then 3 else 7) ∧
    codeLengthRepeatOffsets.getD (v - 16) 0 = (if v = 18 then 11 else 3) := by
  have : v = 16 ∨ v = 17 ∨ v = 18 := by omega
  rcases this with h | h | h <;> subst h <;> exact ⟨rfl, rfl⟩

theorem ite_fail_or {α : Type} (cnd : Prop) [Decidable cnd] (e : Err) (a : α) (r : Reader) (hd : Doomed r) :
    (∃ e', (if cnd then (.err e : Res Err (α × Reader)) else .ok (a, r)) = .err e') ∨
    ∃ a' r', (if cnd then (.err e : Res Err (α × Reader)) else .ok (a, r)) = .ok (a', r') ∧ Doomed r' := by
  by_cases h : cnd
  · rw [if_pos h]; exact Or.inl ⟨_, rfl⟩
  · rw [if_neg h]; exact Or.inr ⟨_, _, rfl, hd⟩

section step
variable {c : Code} {t : Table} (hT : CLTab c t) {buf : Array UInt8} {A : Nat}
include hT

theorem clStep_doomed {st : CLState} {r : Reader} (hd : Doomed r) :
    (∃ e, clStep goOps2 t A st r = .err e) ∨ ∃ st' r', clStep goOps2 t A st r = .ok (st', r') ∧ Doomed r' := by
  have emask : ∀ w : Nat, w &&& 127 = w % 128 := fun w => Nat.and_two_pow_sub_one_eq_mod w 7
  obtain ⟨v, used, hcell, _, hv⟩ := hT.cell r.fillBitWindow.prefetchBits.toNat
  rw [← emask] at hcell
  rw [clStep_cell hcell hv]
  have hd1 := doomed_advance (doomed_fill hd) used
  by_cases h16 : v < 16
  · rw [if_pos h16]; exact Or.inr ⟨_, _, rfl, hd1⟩
  · rw [if_neg h16]
    exact ite_fail_or _ _ _ _ (doomed_readBits hd1 _)

theorem clLoop_doomed (rem : Nat) : ∀ (st : CLState) (r : Reader), Doomed r →
    (∃ e, clLoop goOps2 t A rem st r = .err e) ∨ ∃ st' r', clLoop goOps2 t A rem st r = .ok (st', r') ∧ Doomed r' := by
  induction rem with
  | zero => intro st r hd; exact Or.inr ⟨st, r, rfl, hd⟩
  | succ rem ih =>
    intro st r hd
    unfold clLoop
    by_cases hs : st.symbol < A
    · rw [if_pos hs]
      rcases clStep_doomed hT (A := A) (st := st) hd with ⟨e, he⟩ | ⟨st', r', he, hd'⟩
      · rw [he]; exact Or.inl ⟨e, rfl⟩
      · rw [he]; exact ih st' r' hd'
    · rw [if_neg hs]; exact Or.inr ⟨st, r, rfl, hd⟩

theorem clStep_agree {st : CLState} {acc : Array Nat} {prev : Nat} {r : Reader} {P : Nat}
    (hg : Good buf r P 39) (hrel : CLRel A st acc prev) (hlt : acc.size < A) :
    StepOut buf A (clStep goOps2 t A st r) (specStep c A prev acc (brAt buf P)) := by
  obtain ⟨v, used, hcell, hu, hv, hcase⟩ := clLookup_good hT hg (by omega)
  rw [clStep_cell hcell hv]
  unfold specStep
  obtain ⟨k, hk⟩ : ∃ k, A - acc.size = k + 1 := ⟨A - acc.size - 1, by omega⟩
  rcases hcase with ⟨hs, hg2⟩ | ⟨hs, hd⟩
  · rw [hs]
    dsimp only
    by_cases h16 : v < 16
    · rw [if_pos h16, if_pos h16]
      refine ⟨_, _, _, rfl, ⟨?_, ?_, ?_, ?_⟩, rfl, hg2⟩
      · show st.symbol + 1 = (acc.push v).size
        rw [hrel.sym]; simp
      · simp; omega
      · show st.codeLengths.setIfInBounds st.symbol v = pad (acc.push v) (A - (acc.push v).size)
        rw [hrel.arr, hrel.sym, hk, set_pad]
        congr 1
        simp; omega
      · show (if v ≠ 0 then v else st.prev) = if v = 0 then prev else v
        rw [hrel.prev]
        by_cases h0 : v = 0 <;> simp [h0]
    · rw [if_neg h16, if_neg h16]
      obtain ⟨hx, ho⟩ := extra_tables h16 hv
      rw [hx, ho]
      generalize hn : (if v = 16 then 2 else if v = 17 then 3 else 7) = n
      have hn7 : n ≤ 7 := by rw [← hn]; split <;> (try split) <;> omega
      rcases readBits_good hg2 n (by omega) (by omega) with ⟨hr, hg3⟩ | ⟨hr, hd3⟩
      · rw [hr]
        dsimp only
        rw [hrel.sym, Nat.add_comm (((r.fillBitWindow.advance used).readBits n).1.toNat)]
        by_cases hov : acc.size + ((if v = 18 then 11 else 3) + ((r.fillBitWindow.advance used).readBits n).1.toNat) > A
        · rw [if_pos hov, if_pos hov]; exact Or.inl rfl
        · rw [if_neg hov, if_neg hov]
          refine ⟨_, _, _, rfl, ⟨?_, ?_, ?_, hrel.prev⟩, rfl, hg3.mono (by omega)⟩
          · show acc.size + _ = (pushN acc _ _).size
            rw [pushN_size]
          · rw [pushN_size]; omega
          · show fillRun st.codeLengths acc.size _ _ = pad (pushN acc _ _) (A - (pushN acc _ _).size)
            rw [hrel.arr, hrel.prev, fillRun_pad _ _ _ _ (by omega), pushN_size]
            congr 1
            omega
      · rw [hr]
        unfold Doomed at hd3
        right
        refine ⟨rfl, ?_⟩
        exact ite_fail_or _ _ _ _ hd3
  · rw [hs]
    right
    refine ⟨rfl, ?_⟩
    by_cases h16 : v < 16
    · rw [if_pos h16]; exact Or.inr ⟨_, _, rfl, hd⟩
    · rw [if_neg h16]
      exact ite_fail_or _ _ _ _ (doomed_readBits hd _)

theorem clLoop_agree (rem : Nat) : ∀ (st : CLState) (acc : Array Nat) (prev : Nat) (r : Reader) (P : Nat),
    Good buf r P 39 → CLRel A st acc prev →
    LoopOut buf (clLoop goOps2 t A rem st r) (readCodeLengthsLoop c A rem prev acc (brAt buf P)) := by
  induction rem with
  | zero =>
    intro st acc prev r P hg hrel
    rw [readCodeLengthsLoop]
    exact ⟨st, r, P, rfl, by rw [hrel.arr, pushN_zero_pad], rfl, hg⟩
  | succ rem ih =>
    intro st acc prev r P hg hrel
    rw [loop_succ]
    unfold clLoop
    by_cases hA : acc.size ≥ A
    · rw [if_pos hA, if_neg (by rw [hrel.sym]; omega)]
      refine ⟨st, r, P, rfl, ?_, rfl, hg⟩
      have : A - acc.size = 0 := by omega
      rw [hrel.arr, this, pad_zero]
    · rw [if_neg hA, if_pos (by rw [hrel.sym]; omega)]
      have hstep := clStep_agree hT hg hrel (by omega)
      cases hsp : specStep c A prev acc (brAt buf P) with
      | ok x =>
        obtain ⟨⟨p', a'⟩, br'⟩ := x
        rw [hsp] at hstep
        obtain ⟨st', r', P', hgo, hrel', hbr, hg'⟩ := hstep
        rw [hgo, hbr]
        exact ih st' a' p' r' P' hg' hrel'
      | err e =>
        rw [hsp] at hstep
        show FailOr _ e
        rcases hstep with h | ⟨he, h⟩
        · rw [h]; exact Or.inl rfl
        · right
          refine ⟨he, ?_⟩
          rcases h with ⟨e', h⟩ | ⟨st', r', h, hd⟩
          · rw [h]; exact Or.inl ⟨e', rfl⟩
          · rw [h]
            rcases clLoop_doomed hT (A := A) rem st' r' hd with ⟨e', h2⟩ | ⟨st2, r2, h2, hd2⟩
            · exact Or.inl ⟨e', h2⟩
            · exact Or.inr ⟨st2, r2, h2, hd2⟩
      | panic => trivial
      | hang => trivial

end step

end Webp.Proofs.VP8LWindow
