import Webp.Proofs.VP8LEntropyTableC
/-
  Two-level lookup tables, part D: the second pass (`BuildHuffmanTable`), root levels.
-/
namespace Webp.Proofs.VP8LEntropyTableD
open Webp.Go (Res)
open Webp.Spec.VP8L
open Webp.Impl.VP8LEntropy
open Webp.Proofs.VP8LEntropyRev Webp.Proofs.VP8LEntropyCanon Webp.Proofs.VP8LEntropyTableA
open Webp.Proofs.VP8LEntropyTableB Webp.Proofs.VP8LEntropyTableC

/-- the symbol at sorted position `(l, m)` -/
def symOf (lens sorted : Array Nat) (l m : Nat) : Nat := sorted.getD (offs lens l + m) 0

section root
variable (lens sorted : Array Nat) (R T : Nat)

/-- invariant of the root-table loops: `m` symbols of length `l` and all shorter ones are in -/
structure RootInv (l m : Nat) (s : BuildSt) : Prop where
  wk : WK lens l m s.w
  sym : s.symbol = offs lens l + m
  tsz : s.table.size = T
  tsize : s.tableSize = 2 ^ R
  toff : s.tableOff = 0
  tbits : s.tableBits = R
  low : s.low = noLow
  cells : ∀ l' m', Sym lens l' m' → Before l' m' l m → ∀ j, j < 2 ^ R → j % 2 ^ l' = keyOf lens l' m' →
    s.table[j]? = some ⟨l', symOf lens sorted l' m'⟩

theorem hit_root {l key j : Nat} (hl : l ≤ R) (hk : key < 2 ^ l) (h : Hit key (2 ^ l) (2 ^ R) j) :
    j < 2 ^ R ∧ j % 2 ^ l = key := by
  obtain ⟨h1, h2, h3⟩ := h
  have hp : 0 < 2 ^ l := Nat.pow_pos (by decide)
  have hR : 2 ^ R = 2 ^ (R - l) * 2 ^ l := by rw [← Nat.pow_add]; congr 1; omega
  generalize 2 ^ R = PR at *
  generalize 2 ^ (R - l) = Q at *
  generalize 2 ^ l = P at *
  obtain ⟨q, hq⟩ : ∃ q, j - key = P * q := ⟨(j - key) / P, by
    have := Nat.div_add_mod (j - key) P; omega⟩
  have hj : j = P * q + key := by omega
  have hql : q < Q := by
    have h5 : P * q < PR := by omega
    rw [hR, Nat.mul_comm Q P] at h5
    exact Nat.lt_of_mul_lt_mul_left h5
  constructor
  · have h7 : P * (q + 1) ≤ P * Q := Nat.mul_le_mul_left _ (by omega)
    rw [Nat.mul_add, Nat.mul_one] at h7
    rw [hR, Nat.mul_comm Q P]
    omega
  · rw [hj, Nat.mul_add_mod, Nat.mod_eq_of_lt hk]

theorem root_hit {l key j : Nat} (hk : key < 2 ^ l) (hj : j < 2 ^ R) (hm : j % 2 ^ l = key) :
    Hit key (2 ^ l) (2 ^ R) j := by
  have := Nat.div_add_mod j (2 ^ l)
  refine ⟨by rw [← hm]; exact Nat.mod_le _ _, by omega, ?_⟩
  have : j - key = 2 ^ l * (j / 2 ^ l) := by omega
  rw [this, Nat.mul_mod_right]

theorem buildRootInner_spec (hc : Complete lens) (hR : R ≤ 15) (hT : 2 ^ R ≤ T) (l : Nat) (hl : 1 ≤ l) (hlR : l ≤ R)
    (n : Nat) : ∀ (m : Nat) (s : BuildSt), m + n = cnt lens l → RootInv lens sorted R T l m s →
      ∃ s', buildRootInner sorted l (2 ^ l) n s = .ok s' ∧ RootInv lens sorted R T l (cnt lens l) s' ∧
        s'.w.numOpen = s.w.numOpen ∧ s'.w.numNodes = s.w.numNodes := by
  induction n with
  | zero =>
    intro m s hm hi
    have : m = cnt lens l := by omega
    subst this
    exact ⟨s, rfl, hi, rfl, rfl⟩
  | succ n ih =>
    intro m s hm hi
    have hsym : Sym lens l m := ⟨hl, by omega, by omega⟩
    have hcw := cw_lt hc hsym
    have hkey : s.w.key = keyOf lens l m := hi.wk.key hcw
    have hklt : keyOf lens l m < 2 ^ l := key_lt lens l m
    have hpl : 2 ^ l ≤ 2 ^ R := Nat.pow_le_pow_right (by decide) hlR
    rw [buildRootInner]
    obtain ⟨t', ht', hsz', hget'⟩ := replicateValue_spec s.table s.w.key l R
      ⟨l, sorted.getD s.symbol 0⟩ hlR (by rw [hi.tsz, hkey]; omega)
    rw [hi.tsize, ht']
    simp only
    apply ih (m + 1) _ (by omega)
    refine ⟨wk_step hi.wk hl (by omega) n (by omega), ?_, ?_, rfl, hi.toff, hi.tbits, hi.low, ?_⟩
    · show s.symbol + 1 = _
      rw [hi.sym]; omega
    · show t'.size = T
      rw [hsz', hi.tsz]
    · intro l' m' hs' hb j hj hmod
      show t'[j]? = _
      rw [hget' j, hkey]
      by_cases hh : Hit (keyOf lens l m) (2 ^ l) (2 ^ R) j
      · rw [if_pos hh]
        obtain ⟨_, hjm⟩ := hit_root R hlR hklt hh
        -- either this is the new symbol, or a contradiction with prefix-freeness
        by_cases hnew : l' = l ∧ m' = m
        · obtain ⟨rfl, rfl⟩ := hnew
          rw [hi.sym]; rfl
        · exfalso
          have hle : l' ≤ l := by rcases hb with h | ⟨h, _⟩ <;> omega
          have := key_prefix_free hc hs' hsym hle hnew
          apply this
          rw [← hmod, ← hjm]
          have hpw : 2 ^ l = 2 ^ l' * 2 ^ (l - l') := by rw [← Nat.pow_add]; congr 1; omega
          rw [hpw, Nat.mod_mul_right_mod]
      · rw [if_neg hh]
        apply hi.cells l' m' hs' ?_ j hj hmod
        -- not the new symbol, so it was processed before
        rcases hb with h | ⟨h, h2⟩
        · exact Or.inl h
        · subst h
          by_cases hmm : m' = m
          · subst hmm
            exact absurd (root_hit R hklt hj hmod) hh
          · exact Or.inr ⟨rfl, by omega⟩

theorem rootInv_level {l : Nat} {s : BuildSt} (hl : 1 ≤ l) (hl15 : l ≤ 15)
    (hi : RootInv lens sorted R T (l - 1) (cnt' lens (l - 1)) s) : RootInv lens sorted R T l 0 s := by
  have e : l - 1 + 1 = l := by omega
  refine ⟨?_, ?_, hi.tsz, hi.tsize, hi.toff, hi.tbits, hi.low, ?_⟩
  · have := wk_level (l := l - 1) hi.wk (by omega)
    rw [e] at this; exact this
  · rw [hi.sym, ← offs_succ, e]; rfl
  · intro l' m' hs' hb j hj hmod
    apply hi.cells l' m' hs' ?_ j hj hmod
    rcases hb with h | ⟨_, h⟩
    · by_cases hll : l' = l - 1
      · right
        refine ⟨hll, ?_⟩
        rw [cnt', if_neg (by have := hs'.1; omega), ← hll]; exact hs'.2.2
      · left; omega
    · omega

theorem buildRootOuter_spec (hc : Complete lens) (hR : R ≤ 15) (hT : 2 ^ R ≤ T) (fuel : Nat) :
    ∀ (l : Nat) (s : BuildSt), 1 ≤ l → l + fuel = R + 1 →
      RootInv lens sorted R T (l - 1) (cnt' lens (l - 1)) s → WN lens (l - 1) s.w →
      ∃ s', buildRootOuter sorted R fuel l (2 ^ l) s = .ok s' ∧
        RootInv lens sorted R T R (cnt' lens R) s' ∧ WN lens R s'.w := by
  induction fuel with
  | zero =>
    intro l s hl hlf hi hn
    have : l - 1 = R := by omega
    rw [this] at hi hn
    exact ⟨s, rfl, hi, hn⟩
  | succ f ih =>
    intro l s hl hlf hi hn
    have hlR : l ≤ R := by omega
    have hi0 := rootInv_level lens sorted R T hl (by omega) hi
    have hcnt : s.w.count.getD l 0 = cnt lens l := by rw [hi0.wk.cur hl]; rfl
    have e : l - 1 + 1 = l := by omega
    have hlev := wn_level (l := l - 1) hn (by rw [e]; exact hcnt)
    rw [e] at hlev
    obtain ⟨hno, hnn⟩ := hlev
    rw [buildRootOuter, if_pos hlR]
    simp only
    have hnonneg := NO_nonneg hc l (by omega)
    rw [if_neg (by rw [hno]; omega)]
    let s1 : BuildSt := { s with w := { s.w with numOpen := s.w.numOpen * 2 - ((s.w.count.getD l 0 : Nat) : Int),
                                                  numNodes := s.w.numNodes + s.w.numOpen * 2 } }
    have hi1 : RootInv lens sorted R T l 0 s1 :=
      ⟨⟨hi0.wk.size, hi0.wk.cur, hi0.wk.rest, hi0.wk.key⟩, hi0.sym, hi0.tsz, hi0.tsize, hi0.toff, hi0.tbits,
        hi0.low, hi0.cells⟩
    obtain ⟨s2, hs2, hi2, ho2, hn2⟩ := buildRootInner_spec lens sorted R T hc hR hT l hl hlR
      (s.w.count.getD l 0) 0 s1 (by rw [hcnt]; omega) hi1
    rw [hs2]
    simp only
    have hi2' : RootInv lens sorted R T (l + 1 - 1) (cnt' lens (l + 1 - 1)) s2 := by
      simp only [Nat.add_sub_cancel]
      rw [cnt', if_neg (by omega)]; exact hi2
    have hn2' : WN lens (l + 1 - 1) s2.w := by
      simp only [Nat.add_sub_cancel]
      exact ⟨by rw [ho2]; exact hno, by rw [hn2]; exact hnn⟩
    have := ih (l + 1) s2 (by omega) (by omega) hi2' hn2'
    rw [Nat.pow_succ] at this
    exact this

end root

end Webp.Proofs.VP8LEntropyTableD
