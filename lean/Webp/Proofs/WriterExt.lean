import Webp.Proofs.WriterBasic
/-
  Normal form of `writeRIFFExtended` (C02 / C15): under the size check the code itself performs,
  the result is `riffFile (VP8X ++ [ICCP] ++ [ALPH] ++ image ++ [EXIF] ++ [XMP])`.
-/
namespace Webp.Impl.Writer
open Webp.Go
open Webp.Impl.Parser (ccRIFF ccWEBP ccVP8 ccVP8L ccVP8X ccALPH ccICCP ccEXIF ccXMP
  chunkHeaderSize vp8xChunkSize)
set_option maxHeartbeats 400000

/-! ### normal form of `writeRIFFExtended` -/

/-- length of an optional chunk -/
def optLen (d : Bytes) : Nat := if d.length > 0 then 8 + d.length + d.length % 2 else 0

theorem optChunkBytes_length' (fcc : Nat) (d : Bytes) : (optChunkBytes fcc d).length = optLen d :=
  optChunkBytes_length fcc d

theorem extBody_length (fourcc : Nat) (bs alpha : Bytes) (w h : Int) (icc exif xmp : Bytes) :
    (extBody fourcc bs alpha w h icc exif xmp).length =
      18 + optLen icc + optLen alpha + (8 + bs.length + bs.length % 2) + optLen exif + optLen xmp := by
  unfold extBody
  simp only [List.length_append, putLE32_length, vp8xPayload_length, optChunkBytes_length',
    chunkBytes_length]

theorem u64_small {n : Nat} (h : n < 18446744073709551616) : u64 n = n := by
  unfold u64; exact Nat.mod_eq_of_lt h

theorem paddedChunkSize64_eq (len : Nat) (h : 8 + len + len % 2 < 18446744073709551616) :
    paddedChunkSize64 len = 8 + len + len % 2 := by
  unfold paddedChunkSize64 chunkHeaderSize
  rw [u64_small (n := len) (by omega), u64_small (n := 8 + len) (by omega),
    u64_small (n := 8 + len + len % 2) h]

theorem optAdd_eq (s : Nat) (d : Bytes) (h : s + optLen d < 18446744073709551616) :
    (if d.length > 0 then u64 (s + paddedChunkSize64 d.length) else s) = s + optLen d := by
  unfold optLen at *
  by_cases hd : d.length > 0
  · rw [if_pos hd] at h
    rw [if_pos hd, if_pos hd, paddedChunkSize64_eq _ (by omega), u64_small (by omega)]
  · rw [if_neg hd, if_neg hd]; rfl

theorem riffSize64_eq (bs alpha icc exif xmp : Bytes)
    (h : 22 + optLen icc + optLen alpha + (8 + bs.length + bs.length % 2) + optLen exif + optLen xmp
      < 18446744073709551616) :
    riffSize64 bs alpha icc exif xmp =
      22 + optLen icc + optLen alpha + (8 + bs.length + bs.length % 2) + optLen exif + optLen xmp := by
  unfold riffSize64
  have h0 : u64 (u64 (4 + chunkHeaderSize) + vp8xChunkSize) = 22 := by decide
  dsimp only
  rw [h0, optAdd_eq 22 icc (by omega), optAdd_eq _ alpha (by omega),
    paddedChunkSize64_eq bs.length (by omega),
    u64_small (n := 22 + optLen icc + optLen alpha + (8 + bs.length + bs.length % 2)) (by omega),
    optAdd_eq _ exif (by omega), optAdd_eq _ xmp (by omega)]

/-- the extended layout as a concatenation -/
def extFile (fourcc : Nat) (bs alpha : Bytes) (w h : Int) (icc exif xmp : Bytes) : Bytes :=
  riffFile (extBody fourcc bs alpha w h icc exif xmp)

/-- `writeRIFFExtended` writes `RIFF size WEBP VP8X … [ICCP] [ALPH] image [EXIF] [XMP]` whenever
    it does not report `tooLarge`, i.e. whenever the RIFF size is at most `MaxUint32 − 8`. -/
theorem writeRIFFExtended_eq (fourcc : Nat) (bs alpha : Bytes) (w h : Int) (icc exif xmp : Bytes)
    (hN : 4 + (extBody fourcc bs alpha w h icc exif xmp).length ≤ 4294967287) :
    writeRIFFExtended fourcc bs alpha w h icc exif xmp =
      .ok (extFile fourcc bs alpha w h icc exif xmp) := by
  have hlen := extBody_length fourcc bs alpha w h icc exif xmp
  have hrs : riffSize64 bs alpha icc exif xmp =
      4 + (extBody fourcc bs alpha w h icc exif xmp).length := by
    rw [riffSize64_eq _ _ _ _ _ (by omega), hlen]; omega
  unfold writeRIFFExtended extFile riffFile
  dsimp only
  rw [hrs]
  have hng : ¬ 4 + (extBody fourcc bs alpha w h icc exif xmp).length > 4294967295 - 8 := by omega
  rw [if_neg hng]
  have hu : u32 (4 + (extBody fourcc bs alpha w h icc exif xmp).length) =
      4 + (extBody fourcc bs alpha w h icc exif xmp).length := by unfold u32; omega
  have ht : u32 (8 + (4 + (extBody fourcc bs alpha w h icc exif xmp).length)) =
      12 + (extBody fourcc bs alpha w h icc exif xmp).length := by unfold u32; omega
  rw [hu, ht, hlen]
  have ei := optChunkBytes_length' ccICCP icc
  have ea := optChunkBytes_length' ccALPH alpha
  have ee := optChunkBytes_length' ccEXIF exif
  have ex := optChunkBytes_length' ccXMP xmp
  have eb := chunkBytes_length fourcc bs
  unfold vp8xChunkSize
  rw [Wst_nil, put32_W _ _ _ (by omega), Res.bind_ok, put32_W _ _ _ (by omega), Res.bind_ok,
    put32_W _ _ _ (by omega), Res.bind_ok, put32_W _ _ _ (by omega), Res.bind_ok,
    put32_W _ _ _ (by omega), Res.bind_ok, put32_W _ _ _ (by omega), Res.bind_ok,
    put24_W _ _ _ (by omega), Res.bind_ok, put24_W _ _ _ (by omega), Res.bind_ok,
    optChunk_W _ _ _ _ (by omega), Res.bind_ok, optChunk_W _ _ _ _ (by omega), Res.bind_ok,
    chunk_W _ _ _ _ (by omega), Res.bind_ok, optChunk_W _ _ _ _ (by omega), Res.bind_ok,
    optChunk_W _ _ _ _ (by omega), Res.bind_ok, Wst_buf]
  have hz : 12 + (18 + optLen icc + optLen alpha + (8 + bs.length + bs.length % 2) + optLen exif +
      optLen xmp) - 4 - 4 - 4 - 4 - 4 - 4 - 3 - 3 - (optChunkBytes ccICCP icc).length -
      (optChunkBytes ccALPH alpha).length - (chunkBytes fourcc bs).length -
      (optChunkBytes ccEXIF exif).length - (optChunkBytes ccXMP xmp).length = 0 := by omega
  rw [hz]
  unfold extBody vp8xPayload zeros
  rw [List.replicate_zero, List.append_nil, ← hlen]
  simp only [List.nil_append, List.append_assoc, Res.pure_eq]

/-- conversely: a RIFF size above `MaxUint32 − 8` (but below 2^64) is reported, nothing is
    written -/
theorem writeRIFFExtended_tooLarge (fourcc : Nat) (bs alpha : Bytes) (w h : Int)
    (icc exif xmp : Bytes)
    (hN : 4294967287 < 4 + (extBody fourcc bs alpha w h icc exif xmp).length)
    (h64 : 4 + (extBody fourcc bs alpha w h icc exif xmp).length < 18446744073709551616) :
    writeRIFFExtended fourcc bs alpha w h icc exif xmp = .err .tooLarge := by
  have hlen := extBody_length fourcc bs alpha w h icc exif xmp
  have hrs : riffSize64 bs alpha icc exif xmp =
      4 + (extBody fourcc bs alpha w h icc exif xmp).length := by
    rw [riffSize64_eq _ _ _ _ _ (by omega), hlen]; omega
  unfold writeRIFFExtended
  dsimp only
  rw [hrs, if_pos (by omega)]

end Webp.Impl.Writer
