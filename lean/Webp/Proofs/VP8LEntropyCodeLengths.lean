import Webp.Proofs.VP8LEntropyBits
/-
  Round trip of the code-length vector of a VP8L prefix code (RFC 9649 §3.7.2.1.2):
  the encoder's run-length tokens (`buildCodeLengthTokens`), the code-length-code header
  (`storeTreeOfTree`), `max_symbol` trimming (`storeFullHuffmanCode`) and the simple codes
  (`storeSimpleHuffmanCode`) against the specification's `readCodeLengthVector`.
-/
namespace Webp.Proofs.VP8LEntropyCodeLengths
open Webp.Go (Res)
open Webp.Spec.VP8L (BitReader Err Code)
open Webp.Impl.VP8LEntropy
open Webp.Proofs.VP8LEntropyBits

/-! ## T1: the token level -/

/-- the lengths one token stands for, given the last non-zero length `prev` -/
def tokVals (t : CLToken) (prev : Nat) : List Nat :=
  if t.code < 16 then [t.code]
  else if t.code = 16 then List.replicate (3 + t.extra) prev
  else if t.code = 17 then List.replicate (3 + t.extra) 0
  else List.replicate (11 + t.extra) 0

/-- the last non-zero length after a token -/
def tokPrev (t : CLToken) (prev : Nat) : Nat := if t.code < 16 ∧ t.code ≠ 0 then t.code else prev

/-- the decoder's reading of a token list -/
def expand : List CLToken → (prev : Nat) → List Nat
  | [], _ => []
  | t :: r, prev => tokVals t prev ++ expand r (tokPrev t prev)

/-- the last non-zero length after a token list -/
def prevAfter : List CLToken → Nat → Nat
  | [], p => p
  | t :: r, p => prevAfter r (tokPrev t p)

/-- a token the writer can put on the wire without truncation -/
def TokOK (t : CLToken) : Prop :=
  t.code ≤ 18 ∧ (t.code = 16 → t.extra < 4) ∧ (t.code = 17 → t.extra < 8) ∧ (t.code = 18 → t.extra < 128)

instance (t : CLToken) : Decidable (TokOK t) := by unfold TokOK; infer_instance

/-- a token that only produces zeros -/
def ZeroTok (t : CLToken) : Prop := t.code = 0 ∨ t.code = 17 ∨ t.code = 18

instance (t : CLToken) : Decidable (ZeroTok t) := by unfold ZeroTok; infer_instance

theorem tokVals_length_pos (t : CLToken) (p : Nat) : 0 < (tokVals t p).length := by
  unfold tokVals; repeat' split
  all_goals simp <;> omega

theorem expand_append (a b : List CLToken) (p : Nat) :
    expand (a ++ b) p = expand a p ++ expand b (prevAfter a p) := by
  induction a generalizing p with
  | nil => rfl
  | cons t r ih => simp [expand, prevAfter, ih]

theorem prevAfter_append (a b : List CLToken) (p : Nat) :
    prevAfter (a ++ b) p = prevAfter b (prevAfter a p) := by
  induction a generalizing p with
  | nil => rfl
  | cons t r ih => simp [prevAfter, ih]

/-- every token yields at least one length -/
theorem length_le_expand (a : List CLToken) (p : Nat) : a.length ≤ (expand a p).length := by
  induction a generalizing p with
  | nil => simp
  | cons t r ih =>
    have := tokVals_length_pos t p
    have := ih (tokPrev t p)
    simp [expand]; omega

theorem zeroToks_expand (a : List CLToken) (p : Nat) (h : ∀ t ∈ a, ZeroTok t) :
    expand a p = List.replicate (expand a p).length 0 ∧ prevAfter a p = p := by
  induction a generalizing p with
  | nil => simp [expand, prevAfter]
  | cons t r ih =>
    have ht : ZeroTok t := h t (by simp)
    have hp : tokPrev t p = p := by
      unfold tokPrev; rcases ht with h0 | h0 | h0 <;> simp [h0]
    have hv : tokVals t p = List.replicate (tokVals t p).length 0 := by
      unfold tokVals; rcases ht with h0 | h0 | h0 <;> simp [h0]
    obtain ⟨h1, h2⟩ := ih p (fun t ht => h t (by simp [ht]))
    simp only [expand, prevAfter, hp, h2, List.length_append, and_true]
    rw [← List.replicate_append_replicate, ← hv, ← h1]

theorem codeRepeatedZeros_spec : ∀ (f r : Nat) (toks : Array CLToken), r < f →
    ∃ zs : List CLToken, (codeRepeatedZeros f toks r).toList = toks.toList ++ zs ∧
      (∀ t ∈ zs, TokOK t) ∧
      (∀ rest p, expand (zs ++ rest) p = List.replicate r 0 ++ expand rest p) := by
  intro f
  induction f with
  | zero => intro r toks h; omega
  | succ f ih =>
    intro r toks h
    unfold codeRepeatedZeros
    by_cases h1 : r ≥ 1
    · simp only [h1, if_true]
      by_cases h3 : r < 3
      · simp only [h3, if_true]
        have : r = 1 ∨ r = 2 := by omega
        rcases this with rfl | rfl
        · refine ⟨[⟨0, 0⟩], by simp [List.range_succ], by simp [TokOK], ?_⟩
          intro rest p; simp [expand, tokVals, tokPrev]
        · refine ⟨[⟨0, 0⟩, ⟨0, 0⟩], by simp [List.range_succ], by simp [TokOK], ?_⟩
          intro rest p; simp [expand, tokVals, tokPrev]
      · simp only [h3, if_false]
        by_cases h11 : r < 11
        · simp only [h11, if_true]
          refine ⟨[⟨17, r - 3⟩], by simp, by simp [TokOK]; omega, ?_⟩
          intro rest p; simp [expand, tokVals, tokPrev]; omega
        · simp only [h11, if_false]
          by_cases h139 : r < 139
          · simp only [h139, if_true]
            refine ⟨[⟨18, r - 11⟩], by simp, by simp [TokOK]; omega, ?_⟩
            intro rest p; simp [expand, tokVals, tokPrev]; omega
          · simp only [h139, if_false]
            obtain ⟨k, rfl⟩ : ∃ k, r = k + 138 := ⟨r - 138, by omega⟩
            simp only [Nat.add_sub_cancel]
            obtain ⟨zs, hz1, hz2, hz3⟩ := ih k (toks.push ⟨18, 0x7f⟩) (by omega)
            refine ⟨⟨18, 0x7f⟩ :: zs, by simp [hz1], ?_, ?_⟩
            · intro t ht
              rcases List.mem_cons.1 ht with rfl | ht
              · simp [TokOK]
              · exact hz2 t ht
            · intro rest p
              have e : List.replicate (k + 138) (0:Nat) = List.replicate 138 0 ++ List.replicate k 0 := by
                rw [List.replicate_append_replicate, Nat.add_comm]
              simp only [List.cons_append, expand, hz3]
              simp only [tokVals, tokPrev]
              simp only [show ¬ (18 < 16) by omega, show ¬ (18 = 16) by omega, show ¬ (18 = 17) by omega,
                if_false, false_and, Nat.reduceAdd, e, List.append_assoc]
    · have : r = 0 := by omega
      subst this
      exact ⟨[], by simp, by simp, by simp⟩

theorem codeRepeatedValuesLoop_spec (v : Nat) (hv0 : v ≠ 0) (hv : v ≤ 15) : ∀ (f r : Nat) (toks : Array CLToken), r < f →
    ∃ vs : List CLToken, (codeRepeatedValuesLoop v f toks r).toList = toks.toList ++ vs ∧
      (∀ t ∈ vs, TokOK t) ∧
      (∀ rest, expand (vs ++ rest) v = List.replicate r v ++ expand rest v) := by
  intro f
  induction f with
  | zero => intro r toks h; omega
  | succ f ih =>
    intro r toks h
    unfold codeRepeatedValuesLoop
    by_cases h1 : r ≥ 1
    · simp only [h1, if_true]
      by_cases h3 : r < 3
      · simp only [h3, if_true]
        have : r = 1 ∨ r = 2 := by omega
        rcases this with rfl | rfl
        · refine ⟨[⟨v, 0⟩], by simp [List.range_succ], by simp [TokOK]; omega, ?_⟩
          intro rest; simp [expand, tokVals, tokPrev, show v < 16 by omega, hv0]
        · refine ⟨[⟨v, 0⟩, ⟨v, 0⟩], by simp [List.range_succ], by simp [TokOK]; omega, ?_⟩
          intro rest; simp [expand, tokVals, tokPrev, show v < 16 by omega, hv0]
      · simp only [h3, if_false]
        by_cases h7 : r < 7
        · simp only [h7, if_true]
          refine ⟨[⟨16, r - 3⟩], by simp, by simp [TokOK]; omega, ?_⟩
          intro rest; simp [expand, tokVals, tokPrev]; omega
        · simp only [h7, if_false]
          obtain ⟨k, rfl⟩ : ∃ k, r = k + 6 := ⟨r - 6, by omega⟩
          simp only [Nat.add_sub_cancel]
          obtain ⟨zs, hz1, hz2, hz3⟩ := ih k (toks.push ⟨16, 3⟩) (by omega)
          refine ⟨⟨16, 3⟩ :: zs, by simp [hz1], ?_, ?_⟩
          · intro t ht
            rcases List.mem_cons.1 ht with rfl | ht
            · simp [TokOK]
            · exact hz2 t ht
          · intro rest
            have e : List.replicate (k + 6) v = List.replicate 6 v ++ List.replicate k v := by
              rw [List.replicate_append_replicate, Nat.add_comm]
            simp only [List.cons_append, expand]
            simp only [tokVals, tokPrev]
            simp only [show ¬ (16 < 16) by omega, if_false, false_and, if_true, Nat.reduceAdd, e, List.append_assoc, hz3]
    · have : r = 0 := by omega
      subst this
      exact ⟨[], by simp, by simp, by simp⟩

theorem codeRepeatedValues_spec (v prev r : Nat) (hv0 : v ≠ 0) (hv : v ≤ 15) (hr : 1 ≤ r) (toks : Array CLToken) :
    ∃ vs : List CLToken, (codeRepeatedValues toks r v prev).toList = toks.toList ++ vs ∧
      (∀ t ∈ vs, TokOK t) ∧
      (∀ rest, expand (vs ++ rest) prev = List.replicate r v ++ expand rest v) := by
  unfold codeRepeatedValues
  by_cases hp : v = prev
  · subst hp
    simp only [ne_eq, not_true, if_false]
    exact codeRepeatedValuesLoop_spec v hv0 hv (r + 1) r toks (by omega)
  · simp only [ne_eq, hp, not_false_eq_true, if_true]
    obtain ⟨vs, h1, h2, h3⟩ := codeRepeatedValuesLoop_spec v hv0 hv r (r - 1) (toks.push ⟨v, 0⟩) (by omega)
    refine ⟨⟨v, 0⟩ :: vs, by simp [h1], ?_, ?_⟩
    · intro t ht
      rcases List.mem_cons.1 ht with rfl | ht
      · simp [TokOK]; omega
      · exact h2 t ht
    · intro rest
      obtain ⟨k, rfl⟩ : ∃ k, r = k + 1 := ⟨r - 1, by omega⟩
      simp only [Nat.add_sub_cancel] at h3
      simp only [List.cons_append, expand, tokVals, tokPrev, show v < 16 by omega, hv0, if_true, ne_eq,
        not_false_eq_true, and_self, h3, List.replicate_succ, List.cons_append, List.nil_append]

theorem runEnd_spec (lens : Array Nat) (v : Nat) : ∀ (f k : Nat), k ≤ lens.size →
    k ≤ runEnd lens v f k ∧ runEnd lens v f k ≤ lens.size ∧
      ∀ j, k ≤ j → j < runEnd lens v f k → lens.getD j 0 = v := by
  intro f
  induction f with
  | zero => intro k hk; simp only [runEnd]; exact ⟨Nat.le_refl _, hk, fun j h1 h2 => by omega⟩
  | succ f ih =>
    intro k hk
    unfold runEnd
    by_cases h : k < lens.size ∧ lens.getD k 0 = v
    · simp only [h, and_self, if_true]
      obtain ⟨h1, h2, h3⟩ := ih (k + 1) (by omega)
      refine ⟨by omega, h2, fun j hj1 hj2 => ?_⟩
      by_cases hjk : j = k
      · subst hjk; exact h.2
      · exact h3 j (by omega) hj2
    · simp only [h, if_false]; exact ⟨Nat.le_refl _, hk, fun j h1 h2 => by omega⟩

theorem drop_run (l : List Nat) (v : Nat) : ∀ (d i : Nat), i + d ≤ l.length →
    (∀ j, i ≤ j → j < i + d → l.getD j 0 = v) → l.drop i = List.replicate d v ++ l.drop (i + d) := by
  intro d
  induction d with
  | zero => intro i _ _; simp
  | succ d ih =>
    intro i hi h
    have hi' : i < l.length := by omega
    rw [List.drop_eq_getElem_cons hi', List.replicate_succ, List.cons_append]
    have e : l[i] = v := by
      have := h i (Nat.le_refl _) (by omega)
      simpa [List.getD_eq_getElem?_getD, hi'] using this
    rw [e, ih (i + 1) (by omega) (fun j h1 h2 => h j (by omega) (by omega))]
    congr 3; omega

theorem buildTokensLoop_spec (lens : Array Nat) (hl : ∀ l ∈ lens, l ≤ 15) : ∀ (f i prev : Nat) (toks : Array CLToken),
    lens.size < f + i → i ≤ lens.size →
    ∃ ts : List CLToken, (buildTokensLoop lens f i prev toks).toList = toks.toList ++ ts ∧
      (∀ t ∈ ts, TokOK t) ∧ expand ts prev = lens.toList.drop i := by
  intro f
  induction f with
  | zero => intro i prev toks h1 h2; omega
  | succ f ih =>
    intro i prev toks hf hi
    unfold buildTokensLoop
    by_cases hlt : i < lens.size
    · simp only [hlt, if_true]
      obtain ⟨r1, r2, r3⟩ := runEnd_spec lens (lens.getD i 0) lens.size (i + 1) (by omega)
      generalize runEnd lens (lens.getD i 0) lens.size (i + 1) = k at r1 r2 r3 ⊢
      have hdrop : lens.toList.drop i = List.replicate (k - i) (lens.getD i 0) ++ lens.toList.drop k := by
        have := drop_run lens.toList (lens.getD i 0) (k - i) i (by simp; omega) (fun j h1 h2 => by
          by_cases hji : j = i
          · subst hji; simp [List.getD_eq_getElem?_getD, Array.getD_eq_getD_getElem?]
          · have := r3 j (by omega) (by omega)
            simpa [List.getD_eq_getElem?_getD, Array.getD_eq_getD_getElem?] using this)
        rw [this]; congr 2; omega
      by_cases hz : lens.getD i 0 = 0
      · simp only [hz, if_true]
        obtain ⟨zs, z1, z2, z3⟩ := codeRepeatedZeros_spec (k - i + 1) (k - i) toks (by omega)
        obtain ⟨ts, t1, t2, t3⟩ := ih k prev (codeRepeatedZeros (k - i + 1) toks (k - i)) (by omega) r2
        refine ⟨zs ++ ts, by rw [t1, z1, List.append_assoc], ?_, ?_⟩
        · intro t ht
          rcases List.mem_append.1 ht with h | h
          · exact z2 t h
          · exact t2 t h
        · rw [z3, t3, hdrop, hz]
      · simp only [hz, if_false]
        have hv : lens.getD i 0 ≤ 15 := by
          apply hl
          rw [Array.getD_eq_getD_getElem?]
          simp [hlt]
        obtain ⟨vs, v1, v2, v3⟩ := codeRepeatedValues_spec (lens.getD i 0) prev (k - i) hz hv (by omega) toks
        obtain ⟨ts, t1, t2, t3⟩ := ih k (lens.getD i 0) (codeRepeatedValues toks (k - i) (lens.getD i 0) prev) (by omega) r2
        refine ⟨vs ++ ts, by rw [t1, v1, List.append_assoc], ?_, ?_⟩
        · intro t ht
          rcases List.mem_append.1 ht with h | h
          · exact v2 t h
          · exact t2 t h
        · rw [v3, t3, hdrop]
    · simp only [hlt, if_false]
      refine ⟨[], by simp, by simp, ?_⟩
      simp [expand]; omega

/-- **T1** the decoder's reading of the encoder's tokens is the length vector -/
theorem tokens_expand (lens : Array Nat) (h : ∀ l ∈ lens, l ≤ 15) :
    expand (buildCodeLengthTokens lens).toList 8 = lens.toList := by
  obtain ⟨ts, t1, _, t3⟩ := buildTokensLoop_spec lens h (lens.size + 1) 0 8 #[] (by omega) (by omega)
  unfold buildCodeLengthTokens
  rw [t1]; simpa using t3

theorem tokens_ok (lens : Array Nat) (h : ∀ l ∈ lens, l ≤ 15) :
    ∀ t ∈ (buildCodeLengthTokens lens).toList, TokOK t := by
  obtain ⟨ts, t1, t2, _⟩ := buildTokensLoop_spec lens h (lens.size + 1) 0 8 #[] (by omega) (by omega)
  unfold buildCodeLengthTokens
  rw [t1]; simpa using t2

theorem expand_take_length (toks : List CLToken) (p k : Nat) :
    (expand (toks.take k) p).length + (toks.length - k) ≤ (expand toks p).length := by
  have h := expand_append (toks.take k) (toks.drop k) p
  rw [List.take_append_drop] at h
  rw [h, List.length_append]
  have := length_le_expand (toks.drop k) (prevAfter (toks.take k) p)
  simp only [List.length_drop] at this
  omega

/-- the encoder never produces more tokens than there are lengths -/
theorem tokens_size_le (lens : Array Nat) (h : ∀ l ∈ lens, l ≤ 15) :
    (buildCodeLengthTokens lens).size ≤ lens.size := by
  have h1 := length_le_expand (buildCodeLengthTokens lens).toList 8
  rw [tokens_expand lens h] at h1
  simpa using h1

/-- a proper prefix of the token list stands for fewer than `lens.size` lengths: the decoder
    neither stops early nor overflows -/
theorem tokens_prefix_lt (lens : Array Nat) (h : ∀ l ∈ lens, l ≤ 15) (k : Nat)
    (hk : k < (buildCodeLengthTokens lens).size) :
    (expand ((buildCodeLengthTokens lens).toList.take k) 8).length < lens.size := by
  have h1 := expand_take_length (buildCodeLengthTokens lens).toList 8 k
  rw [tokens_expand lens h] at h1
  simp at h1; omega

/-! ## T2: the token loop on bits -/

/-- the tree `storeFullHuffmanCode` writes the tokens with -/
def clTreeOf (clLens : Array Nat) : HuffTree := (HuffTree.ofLens clLens).clearIfOne

/-- decoding with `clCode` undoes `writeHuffmanCode (clTreeOf clLens)` (proved elsewhere) -/
def SymRoundtrip (clLens : Array Nat) (clCode : Code) : Prop :=
  ∀ (s : Nat) (br : BitReader) (rest : List Bool), s < clLens.size → 0 < clLens.getD s 0 →
    restBits br = callsBits (writeHuffmanCode (clTreeOf clLens) s) ++ rest →
    Webp.Spec.VP8L.readSymbol clCode br =
      .ok (s, adv br (callsBits (writeHuffmanCode (clTreeOf clLens) s)).length)

theorem clTreeOf_lens_size (clLens : Array Nat) : (clTreeOf clLens).lens.size = clLens.size := by
  unfold clTreeOf HuffTree.clearIfOne HuffTree.ofLens
  split <;> simp

/-- the calls of one token -/
def tokCalls (T : HuffTree) (tok : CLToken) : List Call :=
  (T.codes.getD tok.code 0, T.lens.getD tok.code 0) ::
    (if tok.code ≥ 16 then [(tok.extra, if tok.code = 16 then 2 else if tok.code = 17 then 3 else 7)] else [])

theorem storeTokens_cons (t : CLToken) (ts : List CLToken) (T : HuffTree) :
    storeTokens (t :: ts) T = tokCalls T t ++ storeTokens ts T := by
  simp [storeTokens, tokCalls]

theorem callsBits_append (a b : List Call) : callsBits (a ++ b) = callsBits a ++ callsBits b := by
  simp [callsBits]

theorem pushN_toArray (l : List Nat) (v k : Nat) :
    Webp.Spec.VP8L.pushN l.toArray v k = (l ++ List.replicate k v).toArray := by
  induction k generalizing l with
  | zero => simp [Webp.Spec.VP8L.pushN]
  | succ k ih =>
    simp only [Webp.Spec.VP8L.pushN, List.push_toArray, ih, List.replicate_succ]
    simp

theorem loop_step {clLens : Array Nat} {clCode : Code} (hH : SymRoundtrip clLens clCode)
    (h19 : clLens.size = 19) (n b prev : Nat) (acc : List Nat) (br : BitReader) (rest : List Bool)
    (t : CLToken) (ht : TokOK t) (hpos : 0 < clLens.getD t.code 0)
    (hn : acc.length + (tokVals t prev).length ≤ n)
    (hbits : restBits br = callsBits (tokCalls (clTreeOf clLens) t) ++ rest) :
    Webp.Spec.VP8L.readCodeLengthsLoop clCode n (b + 1) prev acc.toArray br =
      Webp.Spec.VP8L.readCodeLengthsLoop clCode n b (tokPrev t prev) (acc ++ tokVals t prev).toArray
        (adv br (callsBits (tokCalls (clTreeOf clLens) t)).length) := by
  have hsz := clTreeOf_lens_size clLens
  obtain ⟨hc18, h16, h17, h18⟩ := ht
  have hw : writeHuffmanCode (clTreeOf clLens) t.code =
      [((clTreeOf clLens).codes.getD t.code 0, (clTreeOf clLens).lens.getD t.code 0)] := by
    unfold writeHuffmanCode
    rw [if_neg (by omega)]
  have hpos' := tokVals_length_pos t prev
  have hacc : ¬ acc.toArray.size ≥ n := by simp; omega
  rw [Webp.Spec.VP8L.readCodeLengthsLoop, if_neg hacc]
  by_cases hlit : t.code < 16
  · have hcalls : tokCalls (clTreeOf clLens) t = writeHuffmanCode (clTreeOf clLens) t.code := by
      rw [hw]; unfold tokCalls; rw [if_neg (by omega)]
    rw [hcalls] at hbits ⊢
    have hs := hH t.code br rest (by omega) hpos hbits
    rw [hs]
    simp only [hlit, if_true, List.push_toArray]
    unfold tokVals tokPrev
    simp only [hlit, if_true, true_and]
    by_cases h0 : t.code = 0 <;> simp [h0]
  · have hcalls : tokCalls (clTreeOf clLens) t = writeHuffmanCode (clTreeOf clLens) t.code ++
        [(t.extra, if t.code = 16 then 2 else if t.code = 17 then 3 else 7)] := by
      rw [hw]; unfold tokCalls; rw [if_pos (by omega)]; rfl
    rw [hcalls, callsBits_append, List.append_assoc] at hbits
    have hs := hH t.code br _ (by omega) hpos hbits
    rw [hs]
    simp only [hlit, if_false]
    generalize hL : (callsBits (writeHuffmanCode (clTreeOf clLens) t.code)).length = L at *
    have hrest : restBits (adv br L) = callsBits [(t.extra, if t.code = 16 then 2 else if t.code = 17 then 3 else 7)] ++ rest := by
      rw [restBits_adv, hbits, ← hL, List.drop_left]
    have hc : t.code = 16 ∨ t.code = 17 ∨ t.code = 18 := by omega
    rcases hc with hc | hc | hc
    · have hv : tokVals t prev = List.replicate (3 + t.extra) prev := by unfold tokVals; simp [hc]
      have hp : tokPrev t prev = prev := by unfold tokPrev; simp [hc]
      have hlen : (callsBits (tokCalls (clTreeOf clLens) t)).length = L + 2 := by
        rw [hcalls, callsBits_append, List.length_append, hL]; simp [callsBits, hc]
      have hrd := readBits_bitsLE (br := adv br L) (v := t.extra) (n := 2) (r := rest)
        (by have := h16 hc; omega) (by simpa [callsBits, hc] using hrest)
      rw [hv, List.length_replicate] at hn
      simp only [hc, if_true, Nat.reduceEqDiff, if_false]
      rw [hrd.1]
      simp only []
      rw [if_neg (by simp; omega), pushN_toArray, hv, hp, hlen, adv_adv]
    · have hv : tokVals t prev = List.replicate (3 + t.extra) 0 := by unfold tokVals; simp [hc]
      have hp : tokPrev t prev = prev := by unfold tokPrev; simp [hc]
      have hlen : (callsBits (tokCalls (clTreeOf clLens) t)).length = L + 3 := by
        rw [hcalls, callsBits_append, List.length_append, hL]; simp [callsBits, hc]
      have hrd := readBits_bitsLE (br := adv br L) (v := t.extra) (n := 3) (r := rest)
        (by have := h17 hc; omega) (by simpa [callsBits, hc] using hrest)
      rw [hv, List.length_replicate] at hn
      simp only [hc, if_true, Nat.reduceEqDiff, if_false]
      rw [hrd.1]
      simp only []
      rw [if_neg (by simp; omega), pushN_toArray, hv, hp, hlen, adv_adv]
    · have hv : tokVals t prev = List.replicate (11 + t.extra) 0 := by unfold tokVals; simp [hc]
      have hp : tokPrev t prev = prev := by unfold tokPrev; simp [hc]
      have hlen : (callsBits (tokCalls (clTreeOf clLens) t)).length = L + 7 := by
        rw [hcalls, callsBits_append, List.length_append, hL]; simp [callsBits, hc]
      have hrd := readBits_bitsLE (br := adv br L) (v := t.extra) (n := 7) (r := rest)
        (by have := h18 hc; omega) (by simpa [callsBits, hc] using hrest)
      rw [hv, List.length_replicate] at hn
      simp only [hc, if_true, Nat.reduceEqDiff, if_false]
      rw [hrd.1]
      simp only []
      rw [if_neg (by simp; omega), pushN_toArray, hv, hp, hlen, adv_adv]

theorem loop_tokens {clLens : Array Nat} {clCode : Code} (hH : SymRoundtrip clLens clCode)
    (h19 : clLens.size = 19) (n : Nat) :
    ∀ (toks : List CLToken) (b prev : Nat) (acc : List Nat) (br : BitReader) (rest : List Bool),
      (∀ t ∈ toks, TokOK t ∧ 0 < clLens.getD t.code 0) →
      acc.length + (expand toks prev).length ≤ n →
      restBits br = callsBits (storeTokens toks (clTreeOf clLens)) ++ rest →
      Webp.Spec.VP8L.readCodeLengthsLoop clCode n (toks.length + b) prev acc.toArray br =
        Webp.Spec.VP8L.readCodeLengthsLoop clCode n b (prevAfter toks prev) (acc ++ expand toks prev).toArray
          (adv br (callsBits (storeTokens toks (clTreeOf clLens))).length) := by
  intro toks
  induction toks with
  | nil => intro b prev acc br rest _ _ _; simp [storeTokens, callsBits, expand, prevAfter]
  | cons t ts ih =>
    intro b prev acc br rest hok hn hbits
    rw [storeTokens_cons, callsBits_append, List.append_assoc] at hbits
    have ht := hok t (by simp)
    simp only [expand, List.length_append] at hn
    have e1 : (t :: ts).length + b = (ts.length + b) + 1 := by simp; omega
    rw [e1, loop_step hH h19 n (ts.length + b) prev acc br _ t ht.1 ht.2 (by omega) hbits]
    have hrest : restBits (adv br (callsBits (tokCalls (clTreeOf clLens) t)).length) =
        callsBits (storeTokens ts (clTreeOf clLens)) ++ rest := by
      rw [restBits_adv, hbits, List.drop_left]
    rw [ih b (tokPrev t prev) (acc ++ tokVals t prev) _ rest (fun t' ht' => hok t' (by simp [ht']))
      (by simp; omega) hrest]
    simp only [prevAfter, expand, List.append_assoc, adv_adv, storeTokens_cons, callsBits_append,
      List.length_append]

theorem loop_full (clCode : Code) (n b p : Nat) (acc : Array Nat) (br : BitReader) (h : acc.size ≥ n) :
    Webp.Spec.VP8L.readCodeLengthsLoop clCode n b p acc br = .ok (acc, br) := by
  cases b with
  | zero =>
    rw [Webp.Spec.VP8L.readCodeLengthsLoop, show n - acc.size = 0 by omega]; rfl
  | succ b => rw [Webp.Spec.VP8L.readCodeLengthsLoop, if_pos h]

/-- **T2** the token loop of the decoder on the bits of the first `k` tokens, when the other
    tokens only stand for zeros.  `budget` is the number of tokens the decoder may read
    (`max_symbol`): exactly `k` (trimmed case, the decoder pads with zeros), or anything `≥ k`
    when all tokens are written (the decoder stops because all lengths are there). -/
theorem tokenLoop_roundtrip {clLens : Array Nat} {clCode : Code} (hH : SymRoundtrip clLens clCode)
    (h19 : clLens.size = 19) (lens : Array Nat) (hl : ∀ l ∈ lens, l ≤ 15) (k budget : Nat)
    (hzero : ∀ t ∈ (buildCodeLengthTokens lens).toList.drop k, ZeroTok t)
    (hbudget : budget = k ∨ ((buildCodeLengthTokens lens).size ≤ k ∧ k ≤ budget))
    (hpos : ∀ t ∈ (buildCodeLengthTokens lens).toList.take k, 0 < clLens.getD t.code 0)
    (hk : k ≤ (buildCodeLengthTokens lens).size)
    (br : BitReader) (rest : List Bool)
    (hbits : restBits br =
      callsBits (storeTokens ((buildCodeLengthTokens lens).toList.take k) (clTreeOf clLens)) ++ rest) :
    Webp.Spec.VP8L.readCodeLengthsLoop clCode lens.size budget 8 #[] br =
      .ok (lens, adv br
        (callsBits (storeTokens ((buildCodeLengthTokens lens).toList.take k) (clTreeOf clLens))).length) := by
  generalize htoks : (buildCodeLengthTokens lens).toList = toks at *
  have hsize : (buildCodeLengthTokens lens).size = toks.length := by rw [← htoks]; simp
  rw [hsize] at hk hbudget
  have hexp : expand toks 8 = lens.toList := by rw [← htoks]; exact tokens_expand lens hl
  have hok : ∀ t ∈ toks, TokOK t := by rw [← htoks]; exact tokens_ok lens hl
  have hsplit := expand_append (toks.take k) (toks.drop k) 8
  rw [List.take_append_drop, hexp] at hsplit
  obtain ⟨hz, _⟩ := zeroToks_expand (toks.drop k) (prevAfter (toks.take k) 8) hzero
  generalize (expand (toks.drop k) (prevAfter (toks.take k) 8)).length = m at hz
  rw [hz] at hsplit
  have hlen : lens.size = (expand (toks.take k) 8).length + m := by
    have := congrArg List.length hsplit
    simpa using this
  have hb : budget = (toks.take k).length + (budget - k) := by
    rw [List.length_take, Nat.min_eq_left hk]
    rcases hbudget with h | h <;> omega
  have := loop_tokens hH h19 lens.size (toks.take k) (budget - k) 8 [] br rest
    (fun t ht => ⟨hok t (List.mem_of_mem_take ht), hpos t ht⟩) (by simp; omega) hbits
  rw [← hb] at this
  rw [show (#[] : Array Nat) = ([] : List Nat).toArray from rfl, this, List.nil_append]
  rcases hbudget with h | h
  · rw [h, Nat.sub_self, Webp.Spec.VP8L.readCodeLengthsLoop, pushN_toArray]
    congr 2
    apply Array.toList_inj.1
    simp only [List.size_toArray]
    rw [hlen, Nat.add_sub_cancel_left]
    exact hsplit.symm
  · have hk' : k = toks.length := by omega
    subst hk'
    rw [List.drop_length] at hz
    have hm : m = 0 := by
      have := congrArg List.length hz
      simpa [expand] using this.symm
    subst hm
    simp only [List.replicate_zero, List.append_nil] at hsplit
    rw [loop_full _ _ _ _ _ _ (by simp only [List.size_toArray]; omega)]
    congr 2
    apply Array.toList_inj.1
    exact hsplit.symm

/-! ## T3: the code-length-code header -/

theorem numCodesLoop_spec (depth : Array Nat) : ∀ (f i : Nat), i ≤ 18 → i < f + 4 →
    4 ≤ numCodesLoop depth f i ∧ numCodesLoop depth f i ≤ 19 ∧
      ∀ j, numCodesLoop depth f i ≤ j → j ≤ i → depth.getD (codeLengthCodeOrder.getD j 0) 0 = 0 := by
  intro f
  induction f with
  | zero => intro i h1 h2; unfold numCodesLoop; exact ⟨by omega, by omega, fun j _ _ => by omega⟩
  | succ f ih =>
    intro i h1 h2
    unfold numCodesLoop
    by_cases h4 : i ≥ 4
    · simp only [h4, if_true]
      by_cases hd : depth.getD (codeLengthCodeOrder.getD i 0) 0 ≠ 0
      · rw [if_pos hd]; exact ⟨by omega, by omega, fun j _ _ => by omega⟩
      · rw [if_neg hd]
        obtain ⟨a, b, c⟩ := ih (i - 1) (by omega) (by omega)
        refine ⟨a, b, fun j hj1 hj2 => ?_⟩
        by_cases hji : j = i
        · subst hji; simpa using hd
        · exact c j hj1 (by omega)
    · simp only [h4, if_false]; exact ⟨by omega, by omega, fun j _ _ => by omega⟩

theorem callsBits_cons (v n : Nat) (cs : List Call) : callsBits ((v, n) :: cs) = bitsLE v n ++ callsBits cs := by
  simp [callsBits]

theorem readCLCL_spec (clLens : Array Nat) (h7 : ∀ j, clLens.getD j 0 ≤ 7) :
    ∀ (n i : Nat) (acc : Array Nat) (br : BitReader) (rest : List Bool),
      restBits br = callsBits ((List.range' i n).map fun j => (clLens.getD (codeLengthCodeOrder.getD j 0) 0, 3)) ++ rest →
      Webp.Spec.VP8L.readCodeLengthCodeLengths n i acc br =
        .ok ((List.range' i n).foldl (fun a j => a.setIfInBounds (codeLengthCodeOrder.getD j 0)
            (clLens.getD (codeLengthCodeOrder.getD j 0) 0)) acc, adv br (3 * n)) := by
  intro n
  induction n with
  | zero => intro i acc br rest _; simp [Webp.Spec.VP8L.readCodeLengthCodeLengths]
  | succ n ih =>
    intro i acc br rest hbits
    rw [List.range'_succ, List.map_cons, callsBits_cons, List.append_assoc] at hbits
    obtain ⟨r1, r2⟩ := readBits_bitsLE (by have := h7 (codeLengthCodeOrder.getD i 0); omega) hbits
    rw [Webp.Spec.VP8L.readCodeLengthCodeLengths, r1]
    simp only []
    rw [ih (i + 1) _ _ rest r2, List.range'_succ, List.foldl_cons, adv_adv]
    congr 3
    omega

theorem foldl_set_getD (c : Array Nat) (g : Nat → Nat) : ∀ (js : List Nat) (a : Array Nat),
    (js.foldl (fun a j => a.setIfInBounds (g j) (c.getD (g j) 0)) a).size = a.size ∧
    ∀ p, p < a.size → (js.foldl (fun a j => a.setIfInBounds (g j) (c.getD (g j) 0)) a).getD p 0 =
      if p ∈ js.map g then c.getD p 0 else a.getD p 0 := by
  intro js
  induction js with
  | nil => intro a; simp
  | cons j js ih =>
    intro a
    obtain ⟨h1, h2⟩ := ih (a.setIfInBounds (g j) (c.getD (g j) 0))
    refine ⟨by simpa using h1, fun p hp => ?_⟩
    rw [List.foldl_cons, h2 p (by simpa using hp)]
    by_cases hm : p ∈ js.map g
    · simp [hm]
    · by_cases hg : g j = p
      · subst hg; simp [hp]
      · have : ¬ p = g j := fun h => hg h.symm
        simp [hm, this, Array.getD_eq_getD_getElem?, hg]

theorem callsBits_map3_length (g : Nat → Nat) (l : List Nat) :
    (callsBits (l.map fun i => (g i, 3))).length = 3 * l.length := by
  induction l with
  | nil => simp [callsBits]
  | cons a l ih => rw [List.map_cons, callsBits_cons, List.length_append, ih]; simp; omega

theorem order_surj : ∀ p, p < 19 → ∃ j, j < 19 ∧ codeLengthCodeOrder.getD j 0 = p := by decide

/-- **T3** the header: the 4-bit count and the 3-bit lengths in `codeLengthCodeOrder` -/
theorem header_roundtrip (clLens : Array Nat) (h19 : clLens.size = 19) (h7 : ∀ l ∈ clLens, l ≤ 7)
    (br : BitReader) (rest : List Bool)
    (hbits : restBits br = callsBits (storeTreeOfTree clLens) ++ rest) :
    ∃ m, br.readBits 4 = .ok (m, adv br 4) ∧
      Webp.Spec.VP8L.readCodeLengthCodeLengths (4 + m) 0 (Array.replicate Webp.Spec.VP8L.numCodeLengthCodes 0)
        (adv br 4) = .ok (clLens, adv br (callsBits (storeTreeOfTree clLens)).length) := by
  have h7' : ∀ j, clLens.getD j 0 ≤ 7 := by
    intro j
    rw [Array.getD_eq_getD_getElem?]
    by_cases hj : j < clLens.size
    · simp only [hj, Array.getElem?_eq_getElem, Option.getD_some]; exact h7 _ (by simp)
    · simp [hj]
  obtain ⟨n1, n2, n3⟩ := numCodesLoop_spec clLens 15 18 (by omega) (by omega)
  unfold storeTreeOfTree at hbits ⊢
  generalize numCodesLoop clLens 15 18 = nc at *
  simp only [] at hbits ⊢
  rw [callsBits_cons, List.append_assoc] at hbits
  obtain ⟨r1, r2⟩ := readBits_bitsLE (by omega) hbits
  refine ⟨nc - 4, r1, ?_⟩
  rw [List.range_eq_range'] at r2 ⊢
  rw [show 4 + (nc - 4) = nc by omega, readCLCL_spec clLens h7' nc 0 _ _ rest r2]
  rw [callsBits_cons, List.length_append, callsBits_map3_length, adv_adv]
  simp only [bitsLE_length, List.length_range']
  congr 2
  obtain ⟨f1, f2⟩ := foldl_set_getD clLens (fun j => codeLengthCodeOrder.getD j 0) (List.range' 0 nc)
    (Array.replicate Webp.Spec.VP8L.numCodeLengthCodes 0)
  have hsz : (Array.replicate Webp.Spec.VP8L.numCodeLengthCodes 0 : Array Nat).size = 19 := by
    simp [Webp.Spec.VP8L.numCodeLengthCodes]
  rw [hsz] at f1 f2
  apply Array.ext
  · rw [f1, h19]
  · intro p hp1 hp2
    have hp : p < 19 := by omega
    have := f2 p hp
    rw [Array.getD_eq_getD_getElem?, Array.getElem?_eq_getElem hp1, Option.getD_some] at this
    rw [this]
    have hc : clLens.getD p 0 = clLens[p] := by
      rw [Array.getD_eq_getD_getElem?, Array.getElem?_eq_getElem hp2, Option.getD_some]
    by_cases hnot : p ∈ List.map (fun j => codeLengthCodeOrder.getD j 0) (List.range' 0 nc)
    · rw [if_pos hnot]; exact hc
    · rw [if_neg hnot]
      obtain ⟨j, hj1, hj2⟩ := order_surj p hp
      have hjnc : nc ≤ j := by
        apply Nat.le_of_not_lt
        intro hlt
        apply hnot
        simp only [List.mem_map, List.mem_range']
        exact ⟨j, ⟨j, by omega, by omega⟩, hj2⟩
      have := n3 j hjnc (by omega)
      rw [hj2] at this
      rw [← hc, this]
      simp [Array.getD_eq_getD_getElem?, Webp.Spec.VP8L.numCodeLengthCodes, hp]

/-! ## T4: the normal code -/

theorem trimLoop_spec (tokens : Array CLToken) (clLens : Array Nat) : ∀ (i bits : Nat),
    (trimLoop tokens clLens i i bits).1 ≤ i ∧
      ∀ j, (trimLoop tokens clLens i i bits).1 ≤ j → j < i → ZeroTok (tokens.getD j default) := by
  intro i
  induction i with
  | zero => intro bits; unfold trimLoop; exact ⟨Nat.le_refl _, fun j _ h => by omega⟩
  | succ i ih =>
    intro bits
    unfold trimLoop
    simp only []
    by_cases hz : (tokens.getD i default).code = 0 ∨ (tokens.getD i default).code = 17 ∨ (tokens.getD i default).code = 18
    · rw [if_pos hz, Nat.add_sub_cancel]
      obtain ⟨h1, h2⟩ := ih (bits + clLens.getD (tokens.getD i default).code 0 +
        (if (tokens.getD i default).code = 17 then 3 else if (tokens.getD i default).code = 18 then 7 else 0))
      refine ⟨by omega, fun j hj1 hj2 => ?_⟩
      by_cases hji : j = i
      · subst hji; exact hz
      · exact h2 j hj1 (by omega)
    · rw [if_neg hz]; exact ⟨Nat.le_refl _, fun j _ h => by omega⟩

/-- the `max_symbol` field -/
def lenCallsTrim (trimmedLength : Nat) : List Call :=
  if trimmedLength = 2 then [(1, 1), (0, 3 + 2)]
  else
    let nbits := Webp.Impl.LTransform.bitsLog2Floor (trimmedLength - 2)
    let nbitpairs := nbits / 2 + 1
    [(1, 1), (nbitpairs - 1, 3), (trimmedLength - 2, nbitpairs * 2)]

theorem storeFull_eq (lens clLens : Array Nat) :
    storeFullHuffmanCode lens clLens =
      let toks := buildCodeLengthTokens lens
      let r := trimLoop toks (clTreeOf clLens).lens toks.size toks.size 0
      (0, 1) :: storeTreeOfTree clLens ++ (if r.1 > 1 ∧ r.2 > 12 then lenCallsTrim r.1 else [(0, 1)]) ++
        storeTokens (toks.toList.take (if r.1 > 1 ∧ r.2 > 12 then r.1 else toks.size)) (clTreeOf clLens) := by
  rfl

theorem readCodeLengths_untrimmed (clCode : Code) (n : Nat) (br : BitReader) (rest : List Bool)
    (hbits : restBits br = callsBits [(0, 1)] ++ rest) :
    Webp.Spec.VP8L.readCodeLengths clCode n br =
      Webp.Spec.VP8L.readCodeLengthsLoop clCode n n 8 #[] (adv br 1) := by
  have hbits' : restBits br = bitsLE 0 1 ++ rest := by rw [hbits]; simp [callsBits]
  obtain ⟨r1, _⟩ := readBits_bitsLE (by omega) hbits'
  unfold Webp.Spec.VP8L.readCodeLengths
  rw [r1]
  rfl

theorem readCodeLengths_trimmed (clCode : Code) (n tl : Nat) (br : BitReader) (rest : List Bool)
    (h2 : 2 ≤ tl) (hmax : tl ≤ 65537) (hn : tl ≤ n)
    (hbits : restBits br = callsBits (lenCallsTrim tl) ++ rest) :
    Webp.Spec.VP8L.readCodeLengths clCode n br =
      Webp.Spec.VP8L.readCodeLengthsLoop clCode n tl 8 #[] (adv br (callsBits (lenCallsTrim tl)).length) := by
  unfold lenCallsTrim at hbits ⊢
  by_cases h : tl = 2
  · subst h
    simp only [if_true] at hbits ⊢
    have e : callsBits [(1, 1), (0, 3 + 2)] = bitsLE 1 1 ++ (bitsLE 0 3 ++ (bitsLE 0 2 ++ [])) := by decide
    rw [e, List.append_assoc, List.append_assoc, List.append_assoc] at hbits
    obtain ⟨r1, b1⟩ := readBits_bitsLE (by omega) hbits
    obtain ⟨r2, b2⟩ := readBits_bitsLE (by omega) b1
    obtain ⟨r3, b3⟩ := readBits_bitsLE (by omega) b2
    unfold Webp.Spec.VP8L.readCodeLengths
    rw [r1]
    simp only [Webp.Go.Res.bind_ok, if_true]
    rw [r2]
    simp only [Webp.Go.Res.bind_ok, Nat.mul_zero, Nat.add_zero]
    rw [r3]
    simp only [Webp.Go.Res.bind_ok, Nat.add_zero]
    rw [if_neg (by omega)]
    rfl
  · simp only [if_neg h] at hbits ⊢
    have hx : tl - 2 ≠ 0 := by omega
    have hlog : Nat.log2 (tl - 2) < 16 := (Nat.log2_lt hx).2 (by omega)
    have hlt : tl - 2 < 2 ^ (Nat.log2 (tl - 2) + 1) := Nat.lt_log2_self
    unfold Webp.Impl.LTransform.bitsLog2Floor at hbits ⊢
    generalize Nat.log2 (tl - 2) = nb at *
    have hpow : tl - 2 < 2 ^ ((nb / 2 + 1) * 2) :=
      Nat.lt_of_lt_of_le hlt (Nat.pow_le_pow_right (by omega) (by omega))
    rw [callsBits_cons, callsBits_cons, callsBits_cons, List.append_assoc, List.append_assoc, List.append_assoc] at hbits
    obtain ⟨r1, b1⟩ := readBits_bitsLE (by omega) hbits
    obtain ⟨r2, b2⟩ := readBits_bitsLE (by omega) b1
    obtain ⟨r3, b3⟩ := readBits_bitsLE hpow b2
    unfold Webp.Spec.VP8L.readCodeLengths
    rw [r1]
    simp only [Webp.Go.Res.bind_ok, if_true]
    rw [r2]
    simp only [Webp.Go.Res.bind_ok]
    rw [show 2 + 2 * (nb / 2 + 1 - 1) = (nb / 2 + 1) * 2 by omega, r3]
    simp only [Webp.Go.Res.bind_ok]
    rw [if_neg (by omega), show 2 + (tl - 2) = tl by omega]
    simp only [adv_adv, callsBits_cons, List.length_append, bitsLE_length]
    congr 1
    · congr 1; simp [callsBits]; omega

theorem tokVals_length_indep (t : CLToken) (p q : Nat) : (tokVals t p).length = (tokVals t q).length := by
  unfold tokVals; repeat' split
  all_goals simp

theorem expand_length_indep (l : List CLToken) (p q : Nat) : (expand l p).length = (expand l q).length := by
  induction l generalizing p q with
  | nil => rfl
  | cons t r ih =>
    simp only [expand, List.length_append]
    rw [tokVals_length_indep t p q, ih (tokPrev t p) (tokPrev t q)]

/-- every trimmed token costs at most 7 bits per zero it stands for -/
theorem trimLoop_bits (tokens : Array CLToken) (cl : Array Nat) (h7 : ∀ j, cl.getD j 0 ≤ 7) :
    ∀ (i bits : Nat), i ≤ tokens.size →
      (trimLoop tokens cl i i bits).2 ≤
        bits + 7 * (expand ((tokens.toList.take i).drop (trimLoop tokens cl i i bits).1) 0).length := by
  intro i
  induction i with
  | zero => intro bits _; unfold trimLoop; simp
  | succ i ih =>
    intro bits hi
    have hr1 := fun b => (trimLoop_spec tokens cl i b).1
    unfold trimLoop
    simp only []
    have hx : tokens.getD i default = tokens.toList[i]'(by simp; omega) := by
      rw [Array.getD_eq_getD_getElem?, Array.getElem?_eq_getElem (by omega), Option.getD_some]; simp
    by_cases hz : (tokens.getD i default).code = 0 ∨ (tokens.getD i default).code = 17 ∨ (tokens.getD i default).code = 18
    · rw [if_pos hz, Nat.add_sub_cancel]
      generalize hb : bits + cl.getD (tokens.getD i default).code 0 +
        (if (tokens.getD i default).code = 17 then 3 else if (tokens.getD i default).code = 18 then 7 else 0) = bits'
      have h1 := ih bits' (by omega)
      have h2 := hr1 bits'
      generalize trimLoop tokens cl i i bits' = r at h1 h2 ⊢
      rw [List.take_succ_eq_append_getElem (by simp; omega),
        List.drop_append_of_le_length (by simp; omega), expand_append, List.length_append]
      have h3 : cl.getD (tokens.getD i default).code 0 +
          (if (tokens.getD i default).code = 17 then 3 else if (tokens.getD i default).code = 18 then 7 else 0) ≤
          7 * (expand [tokens.toList[i]'(by simp; omega)]
            (prevAfter (List.drop r.1 (List.take i tokens.toList)) 0)).length := by
        rw [← hx]
        have := h7 (tokens.getD i default).code
        generalize tokens.getD i default = x at hz this ⊢
        generalize cl.getD x.code 0 = c at this ⊢
        simp only [expand, tokVals, List.append_nil]
        rcases hz with h0 | h0 | h0 <;> simp only [h0] <;> simp <;> omega
      omega
    · rw [if_neg hz]
      simp

theorem clTreeOf_lens_le (clLens : Array Nat) (h7 : ∀ l ∈ clLens, l ≤ 7) (j : Nat) :
    (clTreeOf clLens).lens.getD j 0 ≤ 7 := by
  rw [Array.getD_eq_getD_getElem?]
  by_cases hj : j < (clTreeOf clLens).lens.size
  · rw [Array.getElem?_eq_getElem hj, Option.getD_some]
    have : ∀ l ∈ (clTreeOf clLens).lens, l ≤ 7 := by
      unfold clTreeOf HuffTree.clearIfOne HuffTree.ofLens
      split
      · exact h7
      · intro l hl
        simp only [Array.mem_replicate] at hl
        omega
    exact this _ (by simp)
  · rw [Array.getElem?_eq_none (by omega)]; simp

/-- when trimming pays (`trailingZeroBits > 12`), at least two lengths are left to the padding -/
theorem trimmed_add_two_le (lens clLens : Array Nat) (hl : ∀ l ∈ lens, l ≤ 15) (h7 : ∀ l ∈ clLens, l ≤ 7)
    (h12 : (trimLoop (buildCodeLengthTokens lens) (clTreeOf clLens).lens (buildCodeLengthTokens lens).size
      (buildCodeLengthTokens lens).size 0).2 > 12) :
    (trimLoop (buildCodeLengthTokens lens) (clTreeOf clLens).lens (buildCodeLengthTokens lens).size
      (buildCodeLengthTokens lens).size 0).1 + 2 ≤ lens.size := by
  have hb := trimLoop_bits (buildCodeLengthTokens lens) (clTreeOf clLens).lens (clTreeOf_lens_le clLens h7)
    (buildCodeLengthTokens lens).size 0 (Nat.le_refl _)
  have hr := (trimLoop_spec (buildCodeLengthTokens lens) (clTreeOf clLens).lens
    (buildCodeLengthTokens lens).size 0).1
  generalize trimLoop (buildCodeLengthTokens lens) (clTreeOf clLens).lens (buildCodeLengthTokens lens).size
    (buildCodeLengthTokens lens).size 0 = r at *
  rw [List.take_of_length_le (by simp)] at hb
  have hexp := tokens_expand lens hl
  have hsplit := expand_append ((buildCodeLengthTokens lens).toList.take r.1)
    ((buildCodeLengthTokens lens).toList.drop r.1) 8
  rw [List.take_append_drop, hexp] at hsplit
  have hlen := congrArg List.length hsplit
  rw [List.length_append, Array.length_toList,
    expand_length_indep _ (prevAfter (List.take r.1 (buildCodeLengthTokens lens).toList) 8) 0] at hlen
  have h1 := length_le_expand ((buildCodeLengthTokens lens).toList.take r.1) 8
  rw [List.length_take, Array.length_toList, Nat.min_eq_left hr] at h1
  omega

theorem callsBits_nil : callsBits [] = [] := rfl

/-- **T4** the normal (code-length coded) prefix code.

    `n ≤ 65539` is exact: `trimmedLength ≤ n - 2` whenever trimming is chosen
    (`trimmed_add_two_le`), and `trimmedLength - 2 < 2^16` is what the 3-bit `nbitpairs - 1` field
    can express.  For `n = 65540`, `lens = (1,2)^32769 ++ #[0,0]` and
    `clLens = #[7,1,2,3,4,5,6,7,0,…]` the encoder computes `nbitpairs - 1 = 8` and `WriteBits(8, 3)`
    is not a 3-bit value: the specification's decoder returns a different vector (checked with
    `#eval`).  Alphabets of the format have at most 2328 symbols. -/
theorem codeLengths_roundtrip (lens clLens : Array Nat) (clCode : Code) (n : Nat)
    (hsize : lens.size = n) (hl : ∀ l ∈ lens, l ≤ 15) (hn : n ≤ 65539)
    (h19 : clLens.size = 19) (h7 : ∀ l ∈ clLens, l ≤ 7)
    (hcode : Webp.Spec.VP8L.buildCode clLens = .ok clCode) (hH : SymRoundtrip clLens clCode)
    (hpos : ∀ t ∈ (buildCodeLengthTokens lens).toList, 0 < clLens.getD t.code 0)
    (br : BitReader) (rest : List Bool)
    (hbits : restBits br = callsBits (storeFullHuffmanCode lens clLens) ++ rest) :
    Webp.Spec.VP8L.readCodeLengthVector n br =
      .ok (lens, adv br (callsBits (storeFullHuffmanCode lens clLens)).length) := by
  subst hsize
  rw [storeFull_eq] at hbits ⊢
  simp only [] at hbits ⊢
  obtain ⟨t1, t2⟩ := trimLoop_spec (buildCodeLengthTokens lens) (clTreeOf clLens).lens
    (buildCodeLengthTokens lens).size 0
  have h2le := trimmed_add_two_le lens clLens hl h7
  generalize trimLoop (buildCodeLengthTokens lens) (clTreeOf clLens).lens (buildCodeLengthTokens lens).size
    (buildCodeLengthTokens lens).size 0 = r at *
  have hts := tokens_size_le lens hl
  simp only [callsBits_append, List.cons_append, callsBits_cons, List.append_assoc] at hbits
  obtain ⟨r1, b1⟩ := readBits_bitsLE (by omega) hbits
  obtain ⟨m, r2, r3⟩ := header_roundtrip clLens h19 h7 (adv br 1) _ b1
  have b3 := restBits_adv (adv br 1) (callsBits (storeTreeOfTree clLens)).length
  rw [b1, List.drop_left] at b3
  unfold Webp.Spec.VP8L.readCodeLengthVector
  rw [r1]
  simp only [Webp.Go.Res.bind_ok]
  rw [if_neg (by omega), r2]
  simp only [Webp.Go.Res.bind_ok]
  rw [r3]
  simp only [Webp.Go.Res.bind_ok]
  rw [hcode]
  simp only [Webp.Go.Res.bind_ok]
  by_cases hw : r.1 > 1 ∧ r.2 > 12
  · simp only [if_pos hw] at b3 ⊢
    have := h2le hw.2
    rw [readCodeLengths_trimmed clCode lens.size r.1 _ _ (by omega) (by omega) (by omega) b3]
    have b4 := restBits_adv (adv (adv br 1) (callsBits (storeTreeOfTree clLens)).length)
      (callsBits (lenCallsTrim r.1)).length
    rw [b3, List.drop_left] at b4
    rw [tokenLoop_roundtrip hH h19 lens hl r.1 r.1 ?_ (Or.inl rfl) (fun t ht => hpos t (List.mem_of_mem_take ht))
      t1 _ rest b4]
    · simp only [adv_adv, callsBits_append, List.cons_append, callsBits_cons, List.length_append,
        bitsLE_length, Nat.add_assoc]
    · intro t ht
      obtain ⟨j, hj, rfl⟩ := List.getElem_of_mem ht
      rw [List.getElem_drop]
      have hj' : r.1 + j < (buildCodeLengthTokens lens).size := by
        simp only [List.length_drop, Array.length_toList] at hj; omega
      have := t2 (r.1 + j) (by omega) hj'
      rw [Array.getD_eq_getD_getElem?, Array.getElem?_eq_getElem hj', Option.getD_some] at this
      simpa using this
  · simp only [if_neg hw] at b3 ⊢
    rw [readCodeLengths_untrimmed clCode lens.size _ _ b3]
    have b4 := restBits_adv (adv (adv br 1) (callsBits (storeTreeOfTree clLens)).length) 1
    rw [b3] at b4
    have b4' : restBits (adv (adv (adv br 1) (callsBits (storeTreeOfTree clLens)).length) 1) =
        callsBits (storeTokens (List.take (buildCodeLengthTokens lens).size (buildCodeLengthTokens lens).toList)
          (clTreeOf clLens)) ++ rest := by
      rw [b4]; simp [callsBits]
    rw [tokenLoop_roundtrip hH h19 lens hl (buildCodeLengthTokens lens).size lens.size ?_
      (Or.inr ⟨Nat.le_refl _, hts⟩) (fun t ht => hpos t (List.mem_of_mem_take ht))
      (Nat.le_refl _) _ rest b4']
    · simp only [adv_adv, callsBits_append, List.cons_append, callsBits_cons, List.length_append,
        bitsLE_length, Nat.add_assoc, callsBits_nil, List.length_nil, Nat.zero_add]
    · intro t ht
      rw [List.drop_eq_nil_of_le (by simp)] at ht
      cases ht

/-! ## T5: `StoreHuffmanCode` with the simple codes -/

/-- the used symbols, in increasing order -/
def usedList (lens : Array Nat) : List Nat := (List.range lens.size).filter fun i => lens.getD i 0 > 0

/-- the lengths the simple code stands for: the simple code is used -/
def IsSimple (lens : Array Nat) : Prop :=
  usedList lens = [] ∨ ((usedList lens).length ≤ 2 ∧ ∀ i ∈ usedList lens, i < 256)

instance (lens : Array Nat) : Decidable (IsSimple lens) := by unfold IsSimple; infer_instance

/-- what the decoder gets: a simple code only says which symbols are used (all lengths become 1,
    an empty code becomes the one-symbol code of symbol 0) -/
def normLens (lens : Array Nat) : Array Nat :=
  if usedList lens = [] then (Array.replicate lens.size 0).setIfInBounds 0 1
  else if (usedList lens).length ≤ 2 ∧ ∀ i ∈ usedList lens, i < 256 then lens.map fun l => if l = 0 then 0 else 1
  else lens

theorem usedSymbols_fold (lens : Array Nat) : ∀ k,
    (List.range k).foldl (fun (acc : Nat × Nat × Nat) i =>
      let (sym0, sym1, n) := acc
      if lens.getD i 0 > 0 then
        (if n = 0 then i else sym0, if n = 1 then i else sym1, n + 1)
      else acc) (0, 0, 0) =
    (((List.range k).filter fun i => lens.getD i 0 > 0)[0]?.getD 0,
     ((List.range k).filter fun i => lens.getD i 0 > 0)[1]?.getD 0,
     ((List.range k).filter fun i => lens.getD i 0 > 0).length) := by
  intro k
  induction k with
  | zero => simp
  | succ k ih =>
    rw [List.range_succ, List.foldl_append, ih, List.filter_append]
    generalize (List.range k).filter (fun i => lens.getD i 0 > 0) = U
    by_cases hp : lens.getD k 0 > 0
    · simp only [List.foldl_cons, List.foldl_nil, hp, if_true, List.filter_cons, decide_true, List.filter_nil]
      match U with
      | [] => simp
      | [a] => simp
      | a :: b :: t => simp
    · simp only [List.foldl_cons, List.foldl_nil, hp, if_false, List.filter_cons, decide_false, List.filter_nil]
      simp

theorem usedSymbols_eq (lens : Array Nat) :
    usedSymbols lens = ((usedList lens)[0]?.getD 0, (usedList lens)[1]?.getD 0, (usedList lens).length) :=
  usedSymbols_fold lens lens.size

theorem mem_usedList (lens : Array Nat) (i : Nat) : i ∈ usedList lens ↔ i < lens.size ∧ lens.getD i 0 > 0 := by
  simp [usedList]

theorem usedList_sorted (lens : Array Nat) : (usedList lens).Pairwise (· < ·) :=
  List.Pairwise.filter _ List.pairwise_lt_range

theorem map_eq_of_used (lens g : Array Nat) (hsz : g.size = lens.size)
    (hg : ∀ i (h : i < g.size), g[i] = if i ∈ usedList lens then 1 else 0) :
    g = lens.map (fun l => if l = 0 then 0 else 1) := by
  apply Array.ext
  · simp [hsz]
  · intro i h1 h2
    rw [hg i h1, Array.getElem_map]
    have hi : i < lens.size := by omega
    have : lens.getD i 0 = lens[i] := by
      rw [Array.getD_eq_getD_getElem?, Array.getElem?_eq_getElem hi, Option.getD_some]
    have hm := mem_usedList lens i
    rw [this] at hm
    by_cases h0 : lens[i] = 0
    · have : ¬ i ∈ usedList lens := by rw [hm]; omega
      rw [if_neg this, if_pos h0]
    · have : i ∈ usedList lens := by rw [hm]; omega
      rw [if_pos this, if_neg h0]

theorem readSimple1 (n f8 s0 : Nat) (hf : f8 < 2) (hs : s0 < 2 ^ (1 + 7 * f8)) (hn : s0 < n)
    (br : BitReader) (rest : List Bool)
    (hbits : restBits br = callsBits [(1, 1), (0, 1), (f8, 1), (s0, 1 + 7 * f8)] ++ rest) :
    Webp.Spec.VP8L.readCodeLengthVector n br =
      .ok ((Array.replicate n 0).setIfInBounds s0 1, adv br (3 + (1 + 7 * f8))) := by
  simp only [callsBits_cons, callsBits_nil, List.append_assoc, List.nil_append] at hbits
  obtain ⟨r1, b1⟩ := readBits_bitsLE (by omega) hbits
  obtain ⟨r2, b2⟩ := readBits_bitsLE (by omega) b1
  obtain ⟨r3, b3⟩ := readBits_bitsLE (by omega) b2
  obtain ⟨r4, b4⟩ := readBits_bitsLE hs b3
  unfold Webp.Spec.VP8L.readCodeLengthVector
  rw [r1]
  simp only [Webp.Go.Res.bind_ok, if_true]
  rw [r2]
  simp only [Webp.Go.Res.bind_ok]
  rw [r3]
  simp only [Webp.Go.Res.bind_ok]
  rw [r4]
  simp only [Webp.Go.Res.bind_ok]
  rw [if_neg (by omega), if_neg (by omega)]
  simp only [adv_adv]
  rfl

theorem readSimple2 (n f8 s0 s1 : Nat) (hf : f8 < 2) (hs : s0 < 2 ^ (1 + 7 * f8)) (hn : s0 < n)
    (hs1 : s1 < 256) (hn1 : s1 < n) (br : BitReader) (rest : List Bool)
    (hbits : restBits br = callsBits [(1, 1), (1, 1), (f8, 1), (s0, 1 + 7 * f8), (s1, 8)] ++ rest) :
    Webp.Spec.VP8L.readCodeLengthVector n br =
      .ok (((Array.replicate n 0).setIfInBounds s0 1).setIfInBounds s1 1, adv br (3 + (1 + 7 * f8) + 8)) := by
  simp only [callsBits_cons, callsBits_nil, List.append_assoc, List.nil_append] at hbits
  obtain ⟨r1, b1⟩ := readBits_bitsLE (by omega) hbits
  obtain ⟨r2, b2⟩ := readBits_bitsLE (by omega) b1
  obtain ⟨r3, b3⟩ := readBits_bitsLE (by omega) b2
  obtain ⟨r4, b4⟩ := readBits_bitsLE hs b3
  obtain ⟨r5, b5⟩ := readBits_bitsLE (by omega) b4
  unfold Webp.Spec.VP8L.readCodeLengthVector
  rw [r1]
  simp only [Webp.Go.Res.bind_ok, if_true]
  rw [r2]
  simp only [Webp.Go.Res.bind_ok]
  rw [r3]
  simp only [Webp.Go.Res.bind_ok]
  rw [r4]
  simp only [Webp.Go.Res.bind_ok]
  rw [if_neg (by omega), if_pos trivial, r5]
  simp only [Webp.Go.Res.bind_ok]
  rw [if_neg (by omega)]
  simp only [adv_adv]
  rfl

theorem storeHuffmanCode_eq (lens clLens : Array Nat) :
    storeHuffmanCode lens clLens =
      match usedList lens with
      | [] => storeSimpleHuffmanCode 0 0 0
      | [a] => if a < 256 then storeSimpleHuffmanCode 1 a 0 else storeFullHuffmanCode lens clLens
      | [a, b] => if a < 256 ∧ b < 256 then storeSimpleHuffmanCode 2 a b else storeFullHuffmanCode lens clLens
      | _ => storeFullHuffmanCode lens clLens := by
  unfold storeHuffmanCode
  rw [usedSymbols_eq]
  simp only []
  match usedList lens with
  | [] => simp
  | [a] => simp
  | [a, b] => simp
  | a :: b :: c :: t => simp

theorem getElem_set_replicate (n a i : Nat) (h : i < ((Array.replicate n 0).setIfInBounds a 1).size) :
    ((Array.replicate n (0:Nat)).setIfInBounds a 1)[i] = if a = i then 1 else 0 := by
  have h' : i < n := by simpa using h
  have := Array.getElem_setIfInBounds (xs := Array.replicate n (0:Nat)) (i := a) (a := 1) (j := i) (by simpa using h')
  rw [this]
  simp
theorem getElem_set_set_replicate (n a b i : Nat) (h : i < (((Array.replicate n 0).setIfInBounds a 1).setIfInBounds b 1).size) :
    (((Array.replicate n (0:Nat)).setIfInBounds a 1).setIfInBounds b 1)[i] = if b = i then 1 else if a = i then 1 else 0 := by
  have h' : i < n := by simpa using h
  have := Array.getElem_setIfInBounds (xs := (Array.replicate n (0:Nat)).setIfInBounds a 1) (i := b) (a := 1) (j := i) (by simpa using h')
  rw [this, getElem_set_replicate]

theorem callsBits_length_cons (v n : Nat) (cs : List Call) :
    (callsBits ((v, n) :: cs)).length = n + (callsBits cs).length := by
  rw [callsBits_cons, List.length_append, bitsLE_length]

/-- the case analysis of `StoreHuffmanCode`, given the round trip `hF` of the normal code -/
theorem storeHuffmanCode_roundtrip_core (lens clLens : Array Nat) (n : Nat)
    (hsize : lens.size = n) (hn0 : 0 < n) (br : BitReader) (rest : List Bool)
    (hF : ¬ IsSimple lens → restBits br = callsBits (storeFullHuffmanCode lens clLens) ++ rest →
      Webp.Spec.VP8L.readCodeLengthVector n br =
        .ok (lens, adv br (callsBits (storeFullHuffmanCode lens clLens)).length))
    (hbits : restBits br = callsBits (storeHuffmanCode lens clLens) ++ rest) :
    Webp.Spec.VP8L.readCodeLengthVector n br =
      .ok (normLens lens, adv br (callsBits (storeHuffmanCode lens clLens)).length) := by
  have hmem := mem_usedList lens
  have hsorted := usedList_sorted lens
  have hmap := map_eq_of_used lens
  subst hsize
  rw [storeHuffmanCode_eq] at hbits ⊢
  unfold normLens
  unfold IsSimple at hF
  generalize usedList lens = U at *
  match U with
  | [] =>
    simp only [] at hbits ⊢
    have e : storeSimpleHuffmanCode 0 0 0 = [(1, 1), (0, 1), (0, 1), (0, 1 + 7 * 0)] := rfl
    rw [e] at hbits ⊢
    rw [readSimple1 lens.size 0 0 (by omega) (by omega) hn0 br rest hbits, if_pos trivial]
    rfl
  | [a] =>
    simp only [] at hbits ⊢
    have ha : a < lens.size := ((hmem a).1 (by simp)).1
    by_cases h256 : a < 256
    · rw [if_pos h256] at hbits ⊢
      have hres : (Array.replicate lens.size 0).setIfInBounds a 1 = lens.map (fun l => if l = 0 then 0 else 1) := by
        apply hmap
        · simp
        · intro i hi
          rw [getElem_set_replicate]
          simp only [List.mem_singleton]
          by_cases hia : a = i
          · rw [if_pos hia, if_pos hia.symm]
          · rw [if_neg hia, if_neg (fun h => hia h.symm)]
      rw [if_neg (by simp), if_pos (by simp [h256])]
      by_cases h2 : a < 2
      · have e : storeSimpleHuffmanCode 1 a 0 = [(1, 1), (0, 1), (0, 1), (a, 1 + 7 * 0)] := by
          unfold storeSimpleHuffmanCode; simp [h2]
        rw [e] at hbits ⊢
        rw [readSimple1 lens.size 0 a (by omega) (by omega) ha br rest hbits, hres]
        rfl
      · have e : storeSimpleHuffmanCode 1 a 0 = [(1, 1), (0, 1), (1, 1), (a, 1 + 7 * 1)] := by
          unfold storeSimpleHuffmanCode; simp [h2]
        rw [e] at hbits ⊢
        rw [readSimple1 lens.size 1 a (by omega) (by omega) ha br rest hbits, hres]
        rfl
    · rw [if_neg h256] at hbits ⊢
      have hns : ¬ ([a] = [] ∨ [a].length ≤ 2 ∧ ∀ i ∈ [a], i < 256) := by simp [h256]
      rw [hF hns hbits, if_neg (by simp), if_neg (by simp [h256])]
  | [a, b] =>
    simp only [] at hbits ⊢
    have ha : a < lens.size := ((hmem a).1 (by simp)).1
    have hb : b < lens.size := ((hmem b).1 (by simp)).1
    have hab : a < b := by simpa using hsorted
    by_cases h256 : a < 256 ∧ b < 256
    · rw [if_pos h256] at hbits ⊢
      have hres : ((Array.replicate lens.size 0).setIfInBounds a 1).setIfInBounds b 1 =
          lens.map (fun l => if l = 0 then 0 else 1) := by
        apply hmap
        · simp
        · intro i hi
          rw [getElem_set_set_replicate]
          by_cases hib : b = i
          · rw [if_pos hib, if_pos (by simp [hib])]
          · by_cases hia : a = i
            · rw [if_neg hib, if_pos hia, if_pos (by simp [hia])]
            · rw [if_neg hib, if_neg hia, if_neg]
              simp only [List.mem_cons, List.not_mem_nil, or_false]
              omega
      rw [if_neg (by simp), if_pos (by simp [h256])]
      by_cases h2 : a ≤ 1
      · have e : storeSimpleHuffmanCode 2 a b = [(1, 1), (1, 1), (0, 1), (a, 1 + 7 * 0), (b, 8)] := by
          unfold storeSimpleHuffmanCode
          simp [h2, show ¬ a > b by omega]
        rw [e] at hbits ⊢
        rw [readSimple2 lens.size 0 a b (by omega) (by omega) ha h256.2 hb br rest hbits, hres]
        rfl
      · have e : storeSimpleHuffmanCode 2 a b = [(1, 1), (1, 1), (1, 1), (a, 1 + 7 * 1), (b, 8)] := by
          unfold storeSimpleHuffmanCode
          simp [h2, show ¬ a > b by omega]
        rw [e] at hbits ⊢
        rw [readSimple2 lens.size 1 a b (by omega) (by omega) ha h256.2 hb br rest hbits, hres]
        rfl
    · rw [if_neg h256] at hbits ⊢
      have hns : ¬ ([a, b] = [] ∨ [a, b].length ≤ 2 ∧ ∀ i ∈ [a, b], i < 256) := by
        simp only [List.mem_cons, List.not_mem_nil, or_false]
        intro h
        rcases h with h | h
        · cases h
        · exact h256 ⟨h.2 a (Or.inl rfl), h.2 b (Or.inr rfl)⟩
      rw [hF hns hbits, if_neg (by simp), if_neg (fun h => hns (Or.inr h))]
  | a :: b :: c :: t =>
    simp only [] at hbits ⊢
    have hns : ¬ (a :: b :: c :: t = [] ∨ (a :: b :: c :: t).length ≤ 2 ∧ ∀ i ∈ a :: b :: c :: t, i < 256) := by
      intro h
      rcases h with h | h
      · cases h
      · have := h.1; simp at this
    rw [hF hns hbits, if_neg (by simp), if_neg (fun h => hns (Or.inr h))]

/-- **T5** `StoreHuffmanCode`: simple codes (no symbol, one or two symbols below 256) and the normal code.
    The hypotheses about the code-length code are only needed when the normal code is written. -/
theorem storeHuffmanCode_roundtrip (lens clLens : Array Nat) (clCode : Code) (n : Nat)
    (hsize : lens.size = n) (hn0 : 0 < n) (hl : ∀ l ∈ lens, l ≤ 15) (hn : n ≤ 65539)
    (hfull : ¬ IsSimple lens → clLens.size = 19 ∧ (∀ l ∈ clLens, l ≤ 7) ∧
      Webp.Spec.VP8L.buildCode clLens = .ok clCode ∧ SymRoundtrip clLens clCode ∧
      ∀ t ∈ (buildCodeLengthTokens lens).toList, 0 < clLens.getD t.code 0)
    (br : BitReader) (rest : List Bool)
    (hbits : restBits br = callsBits (storeHuffmanCode lens clLens) ++ rest) :
    Webp.Spec.VP8L.readCodeLengthVector n br =
      .ok (normLens lens, adv br (callsBits (storeHuffmanCode lens clLens)).length) := by
  apply storeHuffmanCode_roundtrip_core lens clLens n hsize hn0 br rest _ hbits
  intro h hb
  obtain ⟨f1, f2, f3, f4, f5⟩ := hfull h
  exact codeLengths_roundtrip lens clLens clCode n hsize hl hn f1 f2 f3 f4 f5 br rest hb

/-- a simple code needs nothing about the code-length code (nor `lens ≤ 15`, nor a bound on `n`) -/
theorem storeHuffmanCode_roundtrip_simple (lens clLens : Array Nat) (n : Nat)
    (hsize : lens.size = n) (hn0 : 0 < n) (hs : IsSimple lens)
    (br : BitReader) (rest : List Bool)
    (hbits : restBits br = callsBits (storeHuffmanCode lens clLens) ++ rest) :
    Webp.Spec.VP8L.readCodeLengthVector n br =
      .ok (normLens lens, adv br (callsBits (storeHuffmanCode lens clLens)).length) :=
  storeHuffmanCode_roundtrip_core lens clLens n hsize hn0 br rest (fun h => absurd hs h) hbits

/-! ## the same with the reader after the code described by what is left -/

theorem adv_rest {br : BitReader} {bits rest : List Bool} (h : restBits br = bits ++ rest) :
    restBits (adv br bits.length) = rest ∧ (adv br bits.length).data = br.data := by
  rw [restBits_adv, h, List.drop_left]; exact ⟨rfl, rfl⟩

theorem tokenLoop_roundtrip_rest {clLens : Array Nat} {clCode : Code} (hH : SymRoundtrip clLens clCode)
    (h19 : clLens.size = 19) (lens : Array Nat) (hl : ∀ l ∈ lens, l ≤ 15) (k budget : Nat)
    (hzero : ∀ t ∈ (buildCodeLengthTokens lens).toList.drop k, ZeroTok t)
    (hbudget : budget = k ∨ ((buildCodeLengthTokens lens).size ≤ k ∧ k ≤ budget))
    (hpos : ∀ t ∈ (buildCodeLengthTokens lens).toList.take k, 0 < clLens.getD t.code 0)
    (hk : k ≤ (buildCodeLengthTokens lens).size)
    (br : BitReader) (rest : List Bool)
    (hbits : restBits br =
      callsBits (storeTokens ((buildCodeLengthTokens lens).toList.take k) (clTreeOf clLens)) ++ rest) :
    ∃ br', Webp.Spec.VP8L.readCodeLengthsLoop clCode lens.size budget 8 #[] br = .ok (lens, br') ∧
      restBits br' = rest ∧ br'.data = br.data :=
  ⟨_, tokenLoop_roundtrip hH h19 lens hl k budget hzero hbudget hpos hk br rest hbits, adv_rest hbits⟩

theorem codeLengths_roundtrip_rest (lens clLens : Array Nat) (clCode : Code) (n : Nat)
    (hsize : lens.size = n) (hl : ∀ l ∈ lens, l ≤ 15) (hn : n ≤ 65539)
    (h19 : clLens.size = 19) (h7 : ∀ l ∈ clLens, l ≤ 7)
    (hcode : Webp.Spec.VP8L.buildCode clLens = .ok clCode) (hH : SymRoundtrip clLens clCode)
    (hpos : ∀ t ∈ (buildCodeLengthTokens lens).toList, 0 < clLens.getD t.code 0)
    (br : BitReader) (rest : List Bool)
    (hbits : restBits br = callsBits (storeFullHuffmanCode lens clLens) ++ rest) :
    ∃ br', Webp.Spec.VP8L.readCodeLengthVector n br = .ok (lens, br') ∧
      restBits br' = rest ∧ br'.data = br.data :=
  ⟨_, codeLengths_roundtrip lens clLens clCode n hsize hl hn h19 h7 hcode hH hpos br rest hbits, adv_rest hbits⟩

theorem storeHuffmanCode_roundtrip_rest (lens clLens : Array Nat) (clCode : Code) (n : Nat)
    (hsize : lens.size = n) (hn0 : 0 < n) (hl : ∀ l ∈ lens, l ≤ 15) (hn : n ≤ 65539)
    (hfull : ¬ IsSimple lens → clLens.size = 19 ∧ (∀ l ∈ clLens, l ≤ 7) ∧
      Webp.Spec.VP8L.buildCode clLens = .ok clCode ∧ SymRoundtrip clLens clCode ∧
      ∀ t ∈ (buildCodeLengthTokens lens).toList, 0 < clLens.getD t.code 0)
    (br : BitReader) (rest : List Bool)
    (hbits : restBits br = callsBits (storeHuffmanCode lens clLens) ++ rest) :
    ∃ br', Webp.Spec.VP8L.readCodeLengthVector n br = .ok (normLens lens, br') ∧
      restBits br' = rest ∧ br'.data = br.data :=
  ⟨_, storeHuffmanCode_roundtrip lens clLens clCode n hsize hn0 hl hn hfull br rest hbits, adv_rest hbits⟩

/-! ## examples: the hypotheses can be met, the repeat codes occur -/
namespace Examples

/-- a first run of 8s (coded `16` thanks to the initial previous length 8), `17`, a literal followed by
    `16` (6 times) and two literals, single zero, `18`, trailing zeros -/
def lensA : Array Nat :=
  #[8,8,8,8, 0,0,0,0,0, 3,3,3,3,3,3,3,3,3, 1, 0, 2, 0,0,0,0,0,0,0,0,0,0,0,0, 5, 5, 0,0,0,0]

example : buildCodeLengthTokens lensA =
    #[⟨16, 1⟩, ⟨17, 2⟩, ⟨3, 0⟩, ⟨16, 3⟩, ⟨3, 0⟩, ⟨3, 0⟩, ⟨1, 0⟩, ⟨0, 0⟩, ⟨2, 0⟩, ⟨18, 1⟩,
      ⟨5, 0⟩, ⟨5, 0⟩, ⟨17, 1⟩] := by decide +kernel

/-- a zero run longer than 138 is split: `18` with 127, then the remaining two zeros -/
example : buildCodeLengthTokens (Array.replicate 140 0) = #[⟨18, 127⟩, ⟨0, 0⟩, ⟨0, 0⟩] := by decide +kernel

/-- a complete code-length code for the tokens of `lensA` -/
def clA : Array Nat := #[3,3,3,3,0,3,0,0,0,0,0,0,0,0,0,0,3,3,3]

/-- all hypotheses of `codeLengths_roundtrip` except `SymRoundtrip` (proved elsewhere) hold for
    `lensA`, `clA` -/
example : (∀ l ∈ lensA, l ≤ 15) ∧ lensA.size ≤ 65539 ∧ clA.size = 19 ∧ (∀ l ∈ clA, l ≤ 7) ∧
    Webp.Spec.VP8L.buildCode clA =
      .ok { counts := #[0, 0, 0, 8, 0, 0, 0, 0, 0, 0, 0, 0, 0, 0, 0, 0], symbols := #[0, 1, 2, 3, 5, 16, 17, 18] } ∧
    (∀ t ∈ (buildCodeLengthTokens lensA).toList, 0 < clA.getD t.code 0) ∧ ¬ IsSimple lensA := by
  decide +kernel

/-- bits → bytes, to run the specification's decoder on the encoder's output -/
def packBits : (fuel : Nat) → List Bool → List UInt8
  | 0, _ => []
  | f + 1, l => if l.isEmpty then [] else (ofBitsLE (l.take 8)).toUInt8 :: packBits f (l.drop 8)

def mkReader (bits : List Bool) : BitReader := { data := ⟨(packBits bits.length bits).toArray⟩ }

/-- does the decoder return `want` and stop after exactly the code's bits? -/
def decodesTo (n : Nat) (calls : List Call) (want : Array Nat) : Bool :=
  match Webp.Spec.VP8L.readCodeLengthVector n (mkReader (callsBits calls ++ [true, false, true])) with
  | .ok (l, b) => l == want && b.pos == (callsBits calls).length
  | _ => false

/-- untrimmed (`trailingZeroBits = 6 ≤ 12`), computed end to end -/
example : trimLoop (buildCodeLengthTokens lensA) (clTreeOf clA).lens 13 13 0 = (12, 6) := by decide +kernel
example : decodesTo lensA.size (storeHuffmanCode lensA clA) lensA = true := by decide +kernel

/-- trimmed: the trailing `18` costs 14 bits; `max_symbol = 6` is written with `nbitpairs = 2` -/
def lensB : Array Nat := #[2, 2, 1, 0, 0, 0, 4, 4, 0,0,0,0,0,0,0,0,0,0,0,0]
def clB : Array Nat := #[5,2,1,6,3,7,0,0,0,0,0,0,0,0,0,0,0,4,7]
example : trimLoop (buildCodeLengthTokens lensB) (clTreeOf clB).lens 7 7 0 = (6, 14) := by decide +kernel
example : storeFullHuffmanCode lensB clB =
    [(0, 1), (4, 4), (4, 3), (7, 3), (5, 3), (2, 3), (1, 3), (6, 3), (3, 3), (7, 3)] ++
      [(1, 1), (1, 3), (4, 4)] ++ [(0, 1), (0, 1), (1, 2), (7, 4), (0, 3), (3, 3), (3, 3)] := by decide +kernel
example : decodesTo lensB.size (storeHuffmanCode lensB clB) lensB = true := by decide +kernel

/-- trimmed with `trimmedLength = 2`: the five zero bits -/
def lensC : Array Nat := #[1, 1, 0,0,0,0,0,0,0,0,0,0,0,0]
def clC : Array Nat := #[2,1,3,4,5,6,7,0,0,0,0,0,0,0,0,0,0,0,7]
example : storeFullHuffmanCode lensC clC =
    [(0, 1), (6, 4), (0, 3), (7, 3), (2, 3), (1, 3), (3, 3), (4, 3), (5, 3), (6, 3), (0, 3), (7, 3)] ++
      [(1, 1), (0, 5)] ++ [(0, 1), (0, 1)] := by decide +kernel
example : decodesTo lensC.size (storeHuffmanCode lensC clC) lensC = true := by decide +kernel

/-- simple codes -/
example : decodesTo 6 (storeHuffmanCode #[0, 0, 0, 0, 0, 0] #[]) #[1, 0, 0, 0, 0, 0] = true := by decide +kernel
example : normLens #[0, 0, 7, 0, 3] = #[0, 0, 1, 0, 1] ∧ storeHuffmanCode #[0, 0, 7, 0, 3] #[] =
    [(1, 1), (1, 1), (1, 1), (2, 8), (4, 8)] ∧ decodesTo 5 (storeHuffmanCode #[0, 0, 7, 0, 3] #[]) #[0, 0, 1, 0, 1] = true := by
  decide +kernel

/-- `0 < n` is needed in `storeHuffmanCode_roundtrip`: the empty code is written as "symbol 0",
    which an empty alphabet does not have -/
example : storeHuffmanCode #[] #[] = [(1, 1), (0, 1), (0, 1), (0, 1)] ∧
    (match Webp.Spec.VP8L.readCodeLengthVector 0 (mkReader (callsBits (storeHuffmanCode #[] #[]))) with
     | .err .codeSymbolRange => true
     | _ => false) = true := by decide +kernel

/-! an instance without any open hypothesis: a code-length code with the single symbol 5 (written with
    zero bits after `clearHuffmanTreeIfOnlyOneSymbol`, read with zero bits by the specification) -/

def cl5 : Array Nat := #[0,0,0,0,0,1,0,0,0,0,0,0,0,0,0,0,0,0,0]
def code5 : Code := { counts := #[0, 1, 0, 0, 0, 0, 0, 0, 0, 0, 0, 0, 0, 0, 0, 0], symbols := #[5] }

theorem symRoundtrip_cl5 : SymRoundtrip cl5 code5 := by
  intro s br rest hs hpos _
  have h5 : ∀ s, s < 19 → 0 < cl5.getD s 0 → s = 5 := by decide
  have := h5 s hs hpos
  subst this
  have hw : callsBits (writeHuffmanCode (clTreeOf cl5) 5) = [] := by decide
  rw [hw]
  rfl

example (br : BitReader) (rest : List Bool)
    (hbits : restBits br = callsBits (storeHuffmanCode #[5, 5, 5] cl5) ++ rest) :
    ∃ br', Webp.Spec.VP8L.readCodeLengthVector 3 br = .ok (#[5, 5, 5], br') ∧ restBits br' = rest ∧
      br'.data = br.data := by
  have := storeHuffmanCode_roundtrip_rest #[5, 5, 5] cl5 code5 3 rfl (by omega) (by decide) (by omega)
    (fun _ => ⟨rfl, by decide, by decide +kernel, symRoundtrip_cl5, by decide +kernel⟩) br rest hbits
  have e : normLens #[5, 5, 5] = #[5, 5, 5] := by decide +kernel
  rwa [e] at this

end Examples

end Webp.Proofs.VP8LEntropyCodeLengths
