import Webp.Proofs.WriterDemux
/-
  `mux.NewDemuxer` on an extended file written by `writeRIFFExtended`: closed form of the
  resulting demuxer state.
-/
namespace Webp.Impl.Writer
open Webp.Go
open Webp.Impl.Parser (ccRIFF ccWEBP ccVP8 ccVP8L ccVP8X ccALPH ccICCP ccEXIF ccXMP
  chunkHeaderSize vp8xChunkSize maxChunkPayload maxMetadataSize)
set_option maxHeartbeats 400000

/-- the feature record `parseExtended` derives from the VP8X chunk the writer emits -/
def featD (F w h : Nat) : Demux.Features :=
  { width := w, height := h, hasAlpha := decide (F / 16 % 2 ≠ 0),
    hasAnimation := decide (F / 2 % 2 ≠ 0), hasICC := decide (F / 32 % 2 ≠ 0),
    hasEXIF := decide (F / 8 % 2 ≠ 0), hasXMP := decide (F / 4 % 2 ≠ 0), format := .extended }

/-- demuxer state right behind the VP8X chunk -/
def demuxInit (F w h : Nat) : Demux.State :=
  { features := featD F w h, chunks := [⟨ccVP8X, 10, vp8xPayload F w h⟩] }

theorem parseExtended_written (F w h : Nat) (rest : Bytes) (hF : F < 256)
    (hw1 : 1 ≤ w) (hw2 : w ≤ 16383) (hh1 : 1 ≤ h) (hh2 : h ≤ 16383) :
    Demux.parseExtended (chunkBytes ccVP8X (vp8xPayload F w h) ++ rest) =
      Res.bind (Demux.extLoop ((chunkBytes ccVP8X (vp8xPayload F w h) ++ rest).length + 1)
        (demuxInit F w h) (chunkBytes ccVP8X (vp8xPayload F w h) ++ rest)
        (chunkBytes ccVP8X (vp8xPayload F w h)).length) Demux.extFinal := by
  have hM := maxChunkPayload_val
  unfold Demux.parseExtended
  rw [readChunk_chunk _ _ _ cc_lt.2.2.2.2.1 (by rw [vp8xPayload_length]; omega), Res.bind_ok]
  unfold vp8xChunkSize
  dsimp only
  rw [vp8xPayload_length, if_neg (by omega)]
  have i0 : (idx (vp8xPayload F w h) 0 : Demux.R UInt8) = .ok (UInt8.ofNat (F % 256)) := rfl
  have i4 : (idx (vp8xPayload F w h) 4 : Demux.R UInt8) =
      .ok (UInt8.ofNat (u32OfInt ((w : Int) - 1) % 256)) := rfl
  have i5 : (idx (vp8xPayload F w h) 5 : Demux.R UInt8) =
      .ok (UInt8.ofNat (u32OfInt ((w : Int) - 1) / 256 % 256)) := rfl
  have i6 : (idx (vp8xPayload F w h) 6 : Demux.R UInt8) =
      .ok (UInt8.ofNat (u32OfInt ((w : Int) - 1) / 65536 % 256)) := rfl
  have i7 : (idx (vp8xPayload F w h) 7 : Demux.R UInt8) =
      .ok (UInt8.ofNat (u32OfInt ((h : Int) - 1) % 256)) := rfl
  have i8 : (idx (vp8xPayload F w h) 8 : Demux.R UInt8) =
      .ok (UInt8.ofNat (u32OfInt ((h : Int) - 1) / 256 % 256)) := rfl
  have i9 : (idx (vp8xPayload F w h) 9 : Demux.R UInt8) =
      .ok (UInt8.ofNat (u32OfInt ((h : Int) - 1) / 65536 % 256)) := rfl
  rw [i0, Res.bind_ok, i4, Res.bind_ok, i5, Res.bind_ok, i6, Res.bind_ok, i7, Res.bind_ok,
    i8, Res.bind_ok, i9, Res.bind_ok, u32OfInt_pred w hw1 (by omega),
    u32OfInt_pred h hh1 (by omega), toNat_ofNat_mod, toNat_ofNat_mod, toNat_ofNat_mod,
    toNat_ofNat_mod, toNat_ofNat_mod, toNat_ofNat_mod, toNat_ofNat_mod]
  have eF : F % 256 = F := by omega
  have ew : (w - 1) % 256 + (w - 1) / 256 % 256 * 256 + (w - 1) / 65536 % 256 * 65536 + 1 = w := by
    omega
  have eh : (h - 1) % 256 + (h - 1) / 256 % 256 * 256 + (h - 1) / 65536 % 256 * 65536 + 1 = h := by
    omega
  rw [eF, ew, eh]
  have hcl : (chunkBytes ccVP8X (vp8xPayload F w h)).length = 8 + (10 + 10 % 2) := by
    rw [chunkBytes_length, vp8xPayload_length]
  rw [hcl]
  rfl

/-! ### invariants of the state transformers -/

theorem dI_features (st : Demux.State) (d : Bytes) : (dI st d).features = st.features := by
  unfold dI; split_ifs <;> rfl
theorem dI_frames (st : Demux.State) (d : Bytes) : (dI st d).frames = st.frames := by
  unfold dI; split_ifs <;> rfl
theorem dE_frames (st : Demux.State) (d : Bytes) : (dE st d).frames = st.frames := by
  unfold dE; split_ifs <;> rfl
theorem dX_frames (st : Demux.State) (d : Bytes) : (dX st d).frames = st.frames := by
  unfold dX; split_ifs <;> rfl
theorem dA_features (st : Demux.State) (alpha bs : Bytes) :
    (dA st alpha bs).features = st.features := by
  unfold dA; split_ifs <;> rfl
theorem dImg_frames_ne (st : Demux.State) (fcc : Nat) (bs : Bytes) :
    (dImg st fcc bs).frames.length ≠ 0 := by
  unfold dImg
  by_cases h : st.frames.length = 0
  · rw [if_pos h]; exact fun h' => by cases h'
  · rw [if_neg h]; exact h

/-- the demuxer state for an extended file written by `writeRIFFExtended` -/
def demuxFinal (fourcc : Nat) (bs alpha icc exif xmp : Bytes) (w h : Nat) : Demux.State :=
  dX (dE (dImg (dA (dI (demuxInit (vp8xFlags fourcc bs alpha icc exif xmp) w h) icc) alpha bs)
    fourcc bs) exif) xmp

/-- `mux.NewDemuxer` on an extended file: every chunk is found (driven by the size fields
    only), ICCP / EXIF / XMP payloads are stored, one frame with the image and ALPH payloads -/
theorem demux_extFile (fourcc : Nat) (bs alpha icc exif xmp : Bytes) (w h : Nat)
    (hfcc : fourcc = ccVP8 ∨ fourcc = ccVP8L)
    (hw1 : 1 ≤ w) (hw2 : w ≤ 16383) (hh1 : 1 ≤ h) (hh2 : h ≤ 16383)
    (hN : 4 + (extBody fourcc bs alpha w h icc exif xmp).length ≤ 4294967287)
    (hicc : icc.length ≤ maxMetadataSize) (hexif : exif.length ≤ maxMetadataSize)
    (hxmp : xmp.length ≤ maxMetadataSize) :
    Demux.parseWith true (extFile fourcc bs alpha w h icc exif xmp) =
      .ok (demuxFinal fourcc bs alpha icc exif xmp w h) := by
  have hM := maxChunkPayload_val
  have hlen := extBody_length fourcc bs alpha w h icc exif xmp
  have g2 := optLen_ge alpha
  obtain ⟨fb32, fb16, fb8, fb4, fb2, fb1, fb64⟩ := flags_bits fourcc bs alpha icc exif xmp
  unfold extFile
  rw [demux_riffFile _ (by omega) (by omega)]
  unfold Demux.dispatchD
  rw [extBody_eq, chunk_le32_0 _ _ _ cc_lt.2.2.2.2.1, if_pos rfl,
    parseExtended_written _ w h _ (by omega) hw1 hw2 hh1 hh2]
  generalize hF : vp8xFlags fourcc bs alpha icc exif xmp = F at *
  generalize hcX : chunkBytes ccVP8X (vp8xPayload F w h) = cX
  generalize hP : cX ++ (optChunkBytes ccICCP icc ++ (optChunkBytes ccALPH alpha ++
      (chunkBytes fourcc bs ++ (optChunkBytes ccEXIF exif ++ optChunkBytes ccXMP xmp)))) = P
  have hPl : 26 ≤ P.length := by
    rw [← hP, ← hcX, List.length_append, List.length_append, List.length_append, chunk_length,
      chunkBytes_length, vp8xPayload_length]
    omega
  have hanim0 : (demuxInit F w h).features.hasAnimation = false := by
    show decide (F / 2 % 2 ≠ 0) = false
    rw [fb2]; rfl
  -- ICCP
  obtain ⟨f1, hf1, e1⟩ := extLoop_iccp P.length (demuxInit F w h) P cX icc _ hP.symm hicc
  rw [e1]
  obtain ⟨f1', rfl⟩ : ∃ k, f1 = k + 1 := ⟨f1 - 1, by omega⟩
  -- ALPH
  obtain ⟨f2, hf2, e2⟩ := extLoop_alph f1' (dI (demuxInit F w h) icc) P
    (cX ++ optChunkBytes ccICCP icc) alpha fourcc bs
    (optChunkBytes ccEXIF exif ++ optChunkBytes ccXMP xmp)
    (by rw [← hP]; simp only [List.append_assoc]) hfcc
    (by rw [dI_features]; exact hanim0) (by rw [dI_frames]; rfl) (by omega) (by omega)
  rw [e2]
  obtain ⟨f2', rfl⟩ : ∃ k, f2 = k + 1 := ⟨f2 - 1, by omega⟩
  -- image
  rw [extLoop_image f2' _ P (cX ++ optChunkBytes ccICCP icc ++ optChunkBytes ccALPH alpha)
    fourcc bs (optChunkBytes ccEXIF exif ++ optChunkBytes ccXMP xmp)
    (by rw [← hP]; simp only [List.append_assoc]) hfcc
    (by rw [dA_features, dI_features]; exact hanim0) (by omega)]
  obtain ⟨f3, rfl⟩ : ∃ k, f2' = k + 1 := ⟨f2' - 1, by omega⟩
  -- EXIF
  obtain ⟨f4, hf4, e4⟩ := extLoop_exif f3
    (dImg (dA (dI (demuxInit F w h) icc) alpha bs) fourcc bs) P
    (cX ++ optChunkBytes ccICCP icc ++ optChunkBytes ccALPH alpha ++ chunkBytes fourcc bs) exif
    (optChunkBytes ccXMP xmp)
    (by rw [← hP]; simp only [List.append_assoc]) hexif
  rw [e4]
  obtain ⟨f4', rfl⟩ : ∃ k, f4 = k + 1 := ⟨f4 - 1, by omega⟩
  -- XMP
  obtain ⟨f5, hf5, e5⟩ := extLoop_xmp f4'
    (dE (dImg (dA (dI (demuxInit F w h) icc) alpha bs) fourcc bs) exif) P
    (cX ++ optChunkBytes ccICCP icc ++ optChunkBytes ccALPH alpha ++ chunkBytes fourcc bs ++
      optChunkBytes ccEXIF exif) xmp []
    (by rw [← hP]; simp only [List.append_assoc, List.append_nil]) hxmp
  rw [e5]
  obtain ⟨f5', rfl⟩ : ∃ k, f5 = k + 1 := ⟨f5 - 1, by omega⟩
  have hend : cX ++ optChunkBytes ccICCP icc ++ optChunkBytes ccALPH alpha ++ chunkBytes fourcc bs ++
      optChunkBytes ccEXIF exif ++ optChunkBytes ccXMP xmp = P := by
    rw [← hP]; simp only [List.append_assoc]
  rw [hend, extLoop_end]
  show Demux.extFinal _ = _
  unfold Demux.extFinal
  rw [if_neg (by rw [dX_frames, dE_frames]; exact dImg_frames_ne _ _ _)]
  unfold demuxFinal
  rw [hF]

end Webp.Impl.Writer
