import Webp.Impl.VP8LEntropy
/-
  Bit-list view of the specification's `BitReader` (helpers for Props/C03, Props/C01Entropy).
  Everything a spec parser does depends only on `restBits br`, the list of unread bits.
-/
namespace Webp.Proofs.VP8LEntropyBits
open Webp.Go (Res)
open Webp.Spec.VP8L (BitReader Err)
open Webp.Impl.VP8LEntropy

/-! ## `bitsLE` / `ofBitsLE` -/

@[simp] theorem bitsLE_length (v n : Nat) : (bitsLE v n).length = n := by
  induction n generalizing v with
  | zero => rfl
  | succ n ih => simp [bitsLE, ih]

theorem ofBitsLE_lt (l : List Bool) : ofBitsLE l < 2 ^ l.length := by
  induction l with
  | nil => simp [ofBitsLE]
  | cons b r ih =>
    simp only [ofBitsLE, List.length_cons, Nat.pow_succ]
    cases b <;> simp <;> omega

theorem ofBitsLE_bitsLE (v n : Nat) : ofBitsLE (bitsLE v n) = v % 2 ^ n := by
  induction n generalizing v with
  | zero => simp [bitsLE, ofBitsLE, Nat.mod_one]
  | succ n ih =>
    simp only [bitsLE, ofBitsLE, ih]
    have h2 : v % 2 ^ (n + 1) = v % 2 + 2 * (v / 2 % 2 ^ n) := by
      rw [Nat.pow_succ, Nat.mul_comm, Nat.mod_mul]
    rw [h2]
    rcases Nat.mod_two_eq_zero_or_one v with h | h <;> simp [h]

theorem ofBitsLE_bitsLE_of_lt {v n : Nat} (h : v < 2 ^ n) : ofBitsLE (bitsLE v n) = v := by
  rw [ofBitsLE_bitsLE, Nat.mod_eq_of_lt h]

theorem bitsLE_ofBitsLE (l : List Bool) : bitsLE (ofBitsLE l) l.length = l := by
  induction l with
  | nil => rfl
  | cons b r ih =>
    simp only [ofBitsLE, List.length_cons, bitsLE]
    have h1 : (b.toNat + 2 * ofBitsLE r) % 2 = b.toNat := by cases b <;> simp <;> omega
    have h2 : (b.toNat + 2 * ofBitsLE r) / 2 = ofBitsLE r := by cases b <;> simp <;> omega
    rw [h1, h2, ih]
    cases b <;> simp

theorem ofBitsLE_append (a b : List Bool) : ofBitsLE (a ++ b) = ofBitsLE a + 2 ^ a.length * ofBitsLE b := by
  induction a with
  | nil => simp [ofBitsLE]
  | cons x r ih =>
    simp only [List.cons_append, ofBitsLE, ih, List.length_cons, Nat.pow_succ]
    rw [Nat.mul_add, Nat.add_assoc, Nat.mul_comm (2 ^ r.length) 2, Nat.mul_assoc]

theorem bitsLE_succ_last (v n : Nat) : bitsLE v (n + 1) = bitsLE v n ++ [v / 2 ^ n % 2 == 1] := by
  induction n generalizing v with
  | zero => simp [bitsLE]
  | succ n ih =>
    rw [bitsLE, ih (v / 2), bitsLE]
    simp only [List.cons_append, Nat.pow_succ]
    rw [Nat.div_div_eq_div_mul, Nat.mul_comm]

/-! ## bytes → bits -/

@[simp] theorem bytesToBits_length (l : List UInt8) : (bytesToBits l).length = 8 * l.length := by
  induction l with
  | nil => rfl
  | cons b r ih => simp [bytesToBits, ih]; omega

theorem bitsLE_getElem (v n i : Nat) (h : i < (bitsLE v n).length) :
    (bitsLE v n)[i] = (v / 2 ^ i % 2 == 1) := by
  induction n generalizing v i with
  | zero => simp at h
  | succ n ih =>
    cases i with
    | zero => simp [bitsLE]
    | succ i =>
      simp only [bitsLE, List.getElem_cons_succ]
      rw [ih]
      rw [Nat.pow_succ, Nat.mul_comm, Nat.div_div_eq_div_mul]

theorem bytesToBits_getElem (l : List UInt8) (i : Nat) (h : i < (bytesToBits l).length) :
    (bytesToBits l)[i] =
      ((l[i / 8]'(by simp at h; omega)).toNat / 2 ^ (i % 8) % 2 == 1) := by
  induction l generalizing i with
  | nil => simp [bytesToBits] at h
  | cons b r ih =>
    simp only [bytesToBits]
    by_cases hi : i < 8
    · rw [List.getElem_append_left (by simp; exact hi), bitsLE_getElem]
      have : i / 8 = 0 := Nat.div_eq_of_lt hi
      simp [this, Nat.mod_eq_of_lt hi]
    · have hi' : 8 ≤ i := by omega
      rw [List.getElem_append_right (by simp; exact hi')]
      simp only [bitsLE_length]
      rw [ih]
      have e1 : i / 8 = (i - 8) / 8 + 1 := by omega
      have e2 : i % 8 = (i - 8) % 8 := by omega
      simp [e1, e2]

/-! ## the spec reader on the bit list -/

theorem restBits_length (br : BitReader) : (restBits br).length = 8 * br.data.size - br.pos := by
  simp [restBits]

/-- the reader after `n` more bits -/
def adv (br : BitReader) (n : Nat) : BitReader := { br with pos := br.pos + n }

@[simp] theorem adv_zero (br : BitReader) : adv br 0 = br := rfl
@[simp] theorem adv_adv (br : BitReader) (a b : Nat) : adv (adv br a) b = adv br (a + b) := by
  simp [adv, Nat.add_assoc]
@[simp] theorem adv_data (br : BitReader) (n : Nat) : (adv br n).data = br.data := rfl
@[simp] theorem adv_pos (br : BitReader) (n : Nat) : (adv br n).pos = br.pos + n := rfl

theorem restBits_adv (br : BitReader) (n : Nat) : restBits (adv br n) = (restBits br).drop n := by
  simp [restBits, adv, List.drop_drop, Nat.add_comm]

theorem readBit_nil {br : BitReader} (h : restBits br = []) : br.readBit = .err .eos := by
  have hl := restBits_length br
  rw [h] at hl
  simp only [List.length_nil] at hl
  unfold BitReader.readBit
  have : ¬ br.pos >>> 3 < br.data.size := by
    rw [Nat.shiftRight_eq_div_pow]; simp; omega
  simp [this]

theorem readBit_cons {br : BitReader} {b : Bool} {r : List Bool} (h : restBits br = b :: r) :
    br.readBit = .ok (b.toNat, adv br 1) ∧ restBits (adv br 1) = r := by
  have hl := restBits_length br
  rw [h] at hl
  simp only [List.length_cons] at hl
  have hdiv : br.pos / 8 < br.data.size := by omega
  have hlt : br.pos >>> 3 < br.data.size := by
    rw [Nat.shiftRight_eq_div_pow]; exact hdiv
  constructor
  · unfold BitReader.readBit
    simp only [hlt, dite_true]
    have hidx : br.pos < (bytesToBits br.data.data.toList).length := by
      rw [bytesToBits_length]; simp; omega
    have hb2 : b = (bytesToBits br.data.data.toList)[br.pos] := by
      have : (restBits br)[0]? = some b := by rw [h]; rfl
      simp only [restBits, List.getElem?_drop, Nat.add_zero] at this
      rw [List.getElem?_eq_getElem hidx] at this
      exact (Option.some.inj this).symm
    rw [bytesToBits_getElem] at hb2
    have hget : br.data[br.pos >>> 3] = br.data.data.toList[br.pos / 8]'(by simpa using hdiv) := by
      simp only [Array.getElem_toList]
      have e : br.pos >>> 3 = br.pos / 8 := by rw [Nat.shiftRight_eq_div_pow]
      simp only [e]
      rfl
    rw [hget]
    have hand : br.pos &&& 7 = br.pos % 8 := Nat.and_two_pow_sub_one_eq_mod br.pos 3
    rw [hand, Nat.shiftRight_eq_div_pow, Nat.and_one_is_mod]
    have hval : (br.data.data.toList[br.pos / 8]'(by simpa using hdiv)).toNat / 2 ^ (br.pos % 8) % 2 = b.toNat := by
      rw [hb2]
      rcases Nat.mod_two_eq_zero_or_one ((br.data.data.toList[br.pos / 8]'(by simpa using hdiv)).toNat / 2 ^ (br.pos % 8))
        with h0 | h0 <;> rw [h0] <;> rfl
    rw [hval]
    rfl
  · rw [restBits_adv, h]; rfl

/-- `ReadBits(n)` succeeds exactly when `n` bits are left, and returns their LSB-first value -/
theorem readBits_of_rest {br : BitReader} {bs r : List Bool} (h : restBits br = bs ++ r) :
    br.readBits bs.length = .ok (ofBitsLE bs, adv br bs.length) ∧ restBits (adv br bs.length) = r := by
  induction bs generalizing br with
  | nil => simpa [BitReader.readBits, ofBitsLE] using h
  | cons b t ih =>
    obtain ⟨h1, h2⟩ := readBit_cons (br := br) (b := b) (r := t ++ r) (by simpa using h)
    obtain ⟨h3, h4⟩ := ih h2
    simp only [List.length_cons, BitReader.readBits, h1, h3, ofBitsLE, adv_adv]
    rw [Nat.add_comm 1]
    exact ⟨rfl, by rw [← h4]; simp [Nat.add_comm]⟩

theorem readBits_short {br : BitReader} (n : Nat) (h : (restBits br).length < n) :
    br.readBits n = .err .eos := by
  induction n generalizing br with
  | zero => simp at h
  | succ n ih =>
    cases hr : restBits br with
    | nil => simp [BitReader.readBits, readBit_nil hr]
    | cons b t =>
      obtain ⟨h1, h2⟩ := readBit_cons hr
      have : (restBits (adv br 1)).length < n := by rw [h2]; rw [hr] at h; simpa using h
      simp [BitReader.readBits, h1, ih this]

/-- writing `v` (< 2^n) in `n` bits and reading `n` bits gives `v` back -/
theorem readBits_bitsLE {br : BitReader} {v n : Nat} {r : List Bool} (hv : v < 2 ^ n)
    (h : restBits br = bitsLE v n ++ r) :
    br.readBits n = .ok (v, adv br n) ∧ restBits (adv br n) = r := by
  have := readBits_of_rest h
  simpa [ofBitsLE_bitsLE_of_lt hv] using this

end Webp.Proofs.VP8LEntropyBits
