import Webp.Impl.BoolCoderOps
import Webp.Proofs.BoolWriterFinish
import Webp.Proofs.BoolReader
/-
  Mixed operations: every writer call is a sequence of `PutBit`s (its *symbols*), every reader call
  a sequence of `GetBit`s.
-/
namespace Webp.Proofs.BoolOps
open Webp.Go (Bytes)
open Webp.Impl.BoolCoder
open Webp.Spec.VP8.BoolIdeal
open Webp.Proofs.BoolIdeal Webp.Proofs.BoolWriter Webp.Proofs.BoolReader

/-- bits `i-1 … 0` of `v`, most significant first, each at probability 1/2 -/
def msb (v : Nat) : Nat → List (Bool × Nat)
  | 0 => []
  | i + 1 => (v.testBit i, 128) :: msb v i

/-- the `(bit, prob)` symbols of an operation -/
def symbols : Op → List (Bool × Nat)
  | .bit b p => [(b, p)]
  | .ubit b => [(b, 128)]
  | .bits v n => msb v n
  | .sbits v n =>
    (v != 0, 128) :: (if v = 0 then [] else msb (v.natAbs * 2 + (if v < 0 then 1 else 0)) (n + 1))

theorem msb_probs (v i : Nat) : (msb v i).map (·.2) = List.replicate i 128 := by
  induction i with
  | zero => rfl
  | succ i ih => simp [msb, ih, List.replicate_succ]

theorem msb_valid (v i : Nat) : Valid (msb v i) := by
  intro p hp
  have : p.2 ∈ (msb v i).map (·.2) := List.mem_map.mpr ⟨p, hp, rfl⟩
  rw [msb_probs] at this
  have := List.eq_of_mem_replicate this
  omega

theorem symbols_valid {op : Op} (h : op.Valid) : Valid (symbols op) := by
  cases op with
  | bit b p => intro q hq; simp [symbols] at hq; rw [hq]; exact h
  | ubit b => intro q hq; simp [symbols] at hq; rw [hq]; norm_num
  | bits v n => exact msb_valid v n
  | sbits v n =>
    intro q hq
    simp only [symbols, List.mem_cons] at hq
    rcases hq with hq | hq
    · rw [hq]; norm_num
    · by_cases hv0 : v = 0
      · simp [hv0] at hq
      · rw [if_neg hv0] at hq
        exact msb_valid _ _ q hq

theorem msb_snoc (m s i : Nat) (hs : s ≤ 1) :
    msb (m * 2 + s) (i + 1) = msb m i ++ [(decide (s = 1), 128)] := by
  induction i with
  | zero =>
    show [((m * 2 + s).testBit 0, 128)] = [(decide (s = 1), 128)]
    rw [Nat.testBit_zero]
    congr 2
    have : (m * 2 + s) % 2 = s := by omega
    rw [this]
  | succ i ih =>
    show ((m * 2 + s).testBit (i + 1), 128) :: msb (m * 2 + s) (i + 1) = (m.testBit i, 128) :: msb m i ++ _
    rw [ih, Nat.testBit_succ]
    have : (m * 2 + s) / 2 = m := by omega
    rw [this]; rfl

/-! ### writer side -/

theorem putBitsLoop_eq (v i : Nat) {w : BoolWriter} {s : Enc} {q : Nat} (h : WInv w s q) (hq8 : q ≤ 8) :
    putBitsLoop w v i = (msb v i).foldl (fun w p => putBit w p.1 p.2) w := by
  induction i generalizing w s q with
  | zero => rfl
  | succ i ih =>
    have hr := winv_range h
    show putBitsLoop (putBitUniform w (v.testBit i)) v i = _
    rw [putBitUniform_eq w _ hr.1 hr.2]
    exact ih (putBit_inv h hq8 _ (by norm_num : 128 ≤ 255)) (nextQ_le hq8 (normShift_le _))

theorem write_eq {op : Op} (hop : op.Valid) {w : BoolWriter} {s : Enc} {q : Nat} (h : WInv w s q)
    (hq8 : q ≤ 8) :
    op.write w = (symbols op).foldl (fun w p => putBit w p.1 p.2) w := by
  have hr := winv_range h
  cases op with
  | bit b p => rfl
  | ubit b => exact putBitUniform_eq w b hr.1 hr.2
  | bits v n =>
    obtain ⟨h1, h2, h3⟩ := hop
    show putBits w v n = _
    unfold putBits
    have hn : ¬ (n = 0 ∨ n > 32) := by omega
    have hv : v % 2 ^ 32 = v := Nat.mod_eq_of_lt (lt_of_lt_of_le h3 (Nat.pow_le_pow_right (by norm_num) h2))
    rw [if_neg hn, hv]
    exact putBitsLoop_eq v n h hq8
  | sbits v n =>
    obtain ⟨h1, h2⟩ := hop
    have hinv1 := putBit_inv h hq8 (v != 0) (by norm_num : 128 ≤ 255)
    have hq1 := nextQ_le hq8 (normShift_le (preRange s (v != 0) 128))
    have h31 : v.natAbs < 2 ^ 31 := lt_of_lt_of_le h2 (Nat.pow_le_pow_right (by norm_num) h1)
    have h31' : (2 : Nat) ^ 31 = 2147483648 := by norm_num
    have h32' : (2 : Nat) ^ 32 = 4294967296 := by norm_num
    have hm1 : v.natAbs % 2 ^ 32 = v.natAbs := Nat.mod_eq_of_lt (by omega)
    have hn1 : (n + 1 : Int).toNat = n + 1 := by omega
    have hnn : ¬ (n + 1 = 0 ∨ n + 1 > 32) := by omega
    show putSignedBits w v n = _
    unfold putSignedBits
    rw [putBitUniform_eq w _ hr.1 hr.2]
    by_cases hv0 : v = 0
    · simp [hv0, symbols]
    · simp only [hv0, if_false, symbols, List.foldl_cons]
      by_cases hneg : v < 0
      · simp only [hneg, if_true, hm1, hn1]
        have hm2 : (v.natAbs * 2 + 1) % 2 ^ 32 = v.natAbs * 2 + 1 := Nat.mod_eq_of_lt (by omega)
        unfold putBits
        rw [if_neg hnn, hm2, hm2]
        exact putBitsLoop_eq _ _ hinv1 hq1
      · simp only [hneg, if_false, hm1, hn1]
        have hm2 : (v.natAbs * 2) % 2 ^ 32 = v.natAbs * 2 := Nat.mod_eq_of_lt (by omega)
        unfold putBits
        rw [if_neg hnn, hm2, hm2, Nat.add_zero]
        exact putBitsLoop_eq _ _ hinv1 hq1

/-- all writer calls together are the `PutBit`s of all their symbols -/
theorem writeAll_eq {ops : List Op} (hv : ∀ op ∈ ops, op.Valid) {w : BoolWriter} {s : Enc} {q : Nat}
    (h : WInv w s q) (hq8 : q ≤ 8) :
    ops.foldl Op.write w = (ops.flatMap symbols).foldl (fun w p => putBit w p.1 p.2) w := by
  induction ops generalizing w s q with
  | nil => rfl
  | cons op ops ih =>
    have hop := hv op (by simp)
    rw [List.foldl_cons, List.flatMap_cons, List.foldl_append, write_eq hop h hq8]
    obtain ⟨q', hq', hw'⟩ := putAll_inv (symbols_valid hop) h hq8
    exact ih (fun o ho => hv o (by simp [ho])) hw' hq'

theorem flatMap_valid {ops : List Op} (hv : ∀ op ∈ ops, op.Valid) : Valid (ops.flatMap symbols) := by
  intro p hp
  obtain ⟨op, hop, hp'⟩ := List.mem_flatMap.mp hp
  exact symbols_valid (hv op hop) p hp'

/-! ### reader side -/

theorem readBitsSt_cons (r : BoolReader) (p : Nat) (ps : List Nat) :
    readBitsSt r (p :: ps) =
      ((getBit r p).1 :: (readBitsSt (getBit r p).2 ps).1, (readBitsSt (getBit r p).2 ps).2) := rfl

theorem readBitsSt_append (r : BoolReader) (a b : List Nat) :
    readBitsSt r (a ++ b) =
      ((readBitsSt r a).1 ++ (readBitsSt (readBitsSt r a).2 b).1, (readBitsSt (readBitsSt r a).2 b).2) := by
  induction a generalizing r with
  | nil => rfl
  | cons p ps ih =>
    rw [List.cons_append, readBitsSt_cons, ih, readBitsSt_cons]
    rfl

theorem readBitsSt_length (r : BoolReader) (a : List Nat) : (readBitsSt r a).1.length = a.length := by
  induction a generalizing r with
  | nil => rfl
  | cons p ps ih => rw [readBitsSt_cons]; simp [ih]

/-- `GetValue`'s loop returns the value whose bits it read -/
theorem getValueLoop_eq (v i : Nat) (hi : i ≤ 32) (r : BoolReader) (acc : Nat)
    (h : (readBitsSt r (List.replicate i 128)).1 = (msb v i).map (·.1)) :
    getValueLoop r acc i = (acc ||| v % 2 ^ i, (readBitsSt r (List.replicate i 128)).2) := by
  induction i generalizing r acc with
  | zero =>
    show (acc, r) = (acc ||| v % 2 ^ 0, r)
    simp [Nat.mod_one]
  | succ i ih =>
    rw [List.replicate_succ, readBitsSt_cons] at h ⊢
    simp only [msb, List.map_cons, List.cons.injEq] at h
    obtain ⟨hb, hrest⟩ := h
    show getValueLoop (getBit r 0x80).2 (acc ||| wrap32 ((if (getBit r 0x80).1 then 1 else 0) <<< i)) i = _
    rw [ih (by omega) _ _ hrest, hb]
    congr 1
    rw [Nat.or_assoc]
    congr 1
    -- one more bit on top
    have hlt : v % 2 ^ i < 2 ^ i := Nat.mod_lt _ (Nat.two_pow_pos i)
    have h2i : 2 ^ i < 2 ^ 32 := Nat.pow_lt_pow_right (by norm_num) (by omega)
    rw [Nat.mod_pow_succ, Nat.testBit_eq_decide_div_mod_eq]
    have hm : v / 2 ^ i % 2 = 0 ∨ v / 2 ^ i % 2 = 1 := by omega
    rcases hm with hm | hm
    · simp [hm, wrap32]
    · simp only [hm, decide_true, if_true, Nat.shiftLeft_eq, Nat.one_mul, Nat.mul_one]
      rw [wrap32_of_lt h2i, Nat.or_comm]
      have := or_eq_add (v := 1) hlt
      rw [Nat.one_mul] at this
      rw [this, Nat.add_comm]

theorem getValue_eq (v n : Nat) (hn : n ≤ 32) (r : BoolReader)
    (h : (readBitsSt r (List.replicate n 128)).1 = (msb v n).map (·.1)) :
    getValue r n = (v % 2 ^ n, (readBitsSt r (List.replicate n 128)).2) := by
  unfold getValue
  rw [getValueLoop_eq v n hn r 0 h, Nat.zero_or]

/-- reading an operation back: if `GetBit` on the operation's probabilities returns its symbols, the
    reader call(s) return the operation -/
theorem read_eq {op : Op} (hop : op.Valid) (r : BoolReader)
    (h : (readBitsSt r ((symbols op).map (·.2))).1 = (symbols op).map (·.1)) :
    op.read r = (op, (readBitsSt r ((symbols op).map (·.2))).2) := by
  cases op with
  | bit b p =>
    simp only [symbols, List.map_cons, List.map_nil, readBitsSt_cons, List.cons.injEq] at h ⊢
    show (Op.bit (getBit r p).1 p, (getBit r p).2) = _
    rw [h.1]; rfl
  | ubit b =>
    simp only [symbols, List.map_cons, List.map_nil, readBitsSt_cons, List.cons.injEq] at h ⊢
    show (Op.ubit (getBit r 0x80).1, (getBit r 0x80).2) = _
    rw [h.1]; rfl
  | bits v n =>
    obtain ⟨h1, h2, h3⟩ := hop
    simp only [symbols, msb_probs] at h ⊢
    show (Op.bits (getValue r n).1 n, (getValue r n).2) = _
    rw [getValue_eq v n h2 r h, Nat.mod_eq_of_lt h3]
  | sbits v n =>
    obtain ⟨h1, h2⟩ := hop
    have h31 : v.natAbs < 2 ^ 31 := lt_of_lt_of_le h2 (Nat.pow_le_pow_right (by norm_num) h1)
    by_cases hv0 : v = 0
    · subst hv0
      simp only [symbols, List.map_cons, List.map_nil, readBitsSt_cons, List.cons.injEq, if_true] at h ⊢
      have hb : (getBit r 0x80).1 = false := by simpa using h.1
      show (if (getBit r 0x80).1 = true then _ else (Op.sbits 0 n, (getBit r 0x80).2)) = _
      rw [hb]; rfl
    · have hsym : symbols (.sbits v n) =
          (true, 128) :: (msb v.natAbs n ++ [(decide (v < 0), 128)]) := by
        simp only [symbols, hv0, if_false]
        have hs : (if v < 0 then 1 else 0 : Nat) ≤ 1 := by split_ifs <;> omega
        rw [msb_snoc _ _ _ hs]
        congr 2
        · simp [hv0]
        · congr 2
          by_cases hneg : v < 0 <;> simp [hneg]
      rw [hsym] at h ⊢
      simp only [List.map_cons, List.map_append, List.map_nil, readBitsSt_cons, List.cons.injEq, msb_probs] at h ⊢
      obtain ⟨hb, hrest⟩ := h
      rw [readBitsSt_append] at hrest ⊢
      simp only [readBitsSt_cons] at hrest ⊢
      have hlen : (readBitsSt (getBit r 128).2 (List.replicate n 128)).1.length = ((msb v.natAbs n).map (·.1)).length := by
        rw [readBitsSt_length]; simp [← msb_probs v.natAbs n]
      obtain ⟨hx, hy⟩ := List.append_inj hrest hlen
      show (if (getBit r 0x80).1 = true then
          (Op.sbits (getSignedValue (getBit r 0x80).2 n).1 n, (getSignedValue (getBit r 0x80).2 n).2)
          else (Op.sbits 0 n, (getBit r 0x80).2)) = _
      rw [hb]
      simp only [if_true]
      unfold getSignedValue
      rw [getValue_eq v.natAbs n (by omega) _ hx, Nat.mod_eq_of_lt h2]
      simp only [readBitsSt, List.cons.injEq, and_true] at hy
      simp only
      have h31' : (2 : Nat) ^ 31 = 2147483648 := by norm_num
      have hnge : ¬ v.natAbs ≥ 2 ^ 31 := by omega
      rw [if_neg hnge, hy]
      congr 2
      by_cases hneg : v < 0
      · simp only [hneg, decide_true, if_true]
        have hne : ¬ ((v.natAbs : Int) = -2 ^ 31) := by omega
        rw [if_neg hne]; omega
      · simp only [hneg, decide_false, Bool.false_eq_true, if_false]; omega

theorem readOps_eq {ops : List Op} (hv : ∀ op ∈ ops, op.Valid) (r : BoolReader)
    (h : (readBitsSt r ((ops.flatMap symbols).map (·.2))).1 = (ops.flatMap symbols).map (·.1)) :
    readOps r ops = ops := by
  induction ops generalizing r with
  | nil => rfl
  | cons op ops ih =>
    have hop := hv op (by simp)
    rw [List.flatMap_cons, List.map_append, List.map_append, readBitsSt_append] at h
    simp only at h
    have hlen : (readBitsSt r ((symbols op).map (·.2))).1.length = ((symbols op).map (·.1)).length := by
      rw [readBitsSt_length]; simp
    obtain ⟨hx, hy⟩ := List.append_inj h hlen
    show (op.read r).1 :: readOps (op.read r).2 ops = op :: ops
    rw [read_eq hop r hx]
    simp only
    rw [ih (fun o ho => hv o (by simp [ho])) _ hy]

end Webp.Proofs.BoolOps
