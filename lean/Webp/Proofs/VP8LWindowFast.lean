import Webp.Proofs.VP8LWindowToken
import Webp.Proofs.VP8LFastPaths
/-
  The WINDOW BUDGET of the VP8L pixel loop, part 3b: the three FAST PATHS of the loop body
  (`IsTrivialCode`, `UsePackedTable`, `IsTrivialLiteral`) on the real window reader, for a group as
  `readHuffmanCodes` builds it (`mkGroup`: flags, `LiteralARB`, packed table) — against the
  specification's `readToken`.
-/
namespace Webp.Proofs.VP8LWindow
open Webp.Go (Res)
open Webp.Spec.VP8L (BitReader Err Token Code Group)
open Webp.Impl.VP8LEntropy
open Webp.Impl.VP8LWindow
open Webp.Impl.VP8LFastPaths
open Webp.Proofs.VP8LEntropyBits
open Webp.Proofs.VP8LEntropyReader
open Webp.Proofs.VP8LFastPaths (TSpec trivLit trivCode usePacked arb totalBits)

/-! ## specification-side lookups -/

theorem raw_lt {t : Table} {A : Nat} (h : TableOK t A) {x v u : Nat}
    (hraw : readSymbolRaw 8 t x = .ok (some (v, u))) : v < A ∧ u ≤ 15 := by
  obtain ⟨v', u', h1, h2, h3⟩ := h.total x
  rw [hraw] at h1
  injection h1 with h1; injection h1 with h1; injection h1 with ha hb
  subst ha; subst hb
  exact ⟨h3, h2⟩

/-- the specification's lookup at bit `P`, given the table's answer on a value that agrees with the
    true look-ahead in its 15 low bits -/
theorem spec_lookup {c : Code} {t : Table} {A : Nat} (hT : TabFor c t A) (buf : Array UInt8) {P : Nat}
    (hP : P ≤ nbits buf) {x v used : Nat} (hx : x % 2 ^ 15 = peekBits (brAt buf P) 32 % 2 ^ 15)
    (hraw : readSymbolRaw 8 t x = .ok (some (v, used))) :
    Webp.Spec.VP8L.readSymbol c (brAt buf P) =
      if nbits buf < P + used then .err .eos else .ok (v, brAt buf (P + used)) := by
  rw [← hT.spec _ hP]
  exact implReadSymbol_at (by rw [← hT.ok.low15 _ _ hx]; exact hraw)

/-- a zero-bit code -/
theorem spec_zero_sym {c : Code} {t : Table} {A : Nat} (hT : TabFor c t A) (buf : Array UInt8) {P : Nat}
    (hP : P ≤ nbits buf) {s : Nat} (h0 : ∀ w, readSymbolRaw 8 t w = .ok (some (s, 0))) :
    Webp.Spec.VP8L.readSymbol c (brAt buf P) = .ok (s, brAt buf P) := by
  rw [← hT.spec _ hP, implReadSymbol_at (h0 _), if_neg (by omega)]
  rfl

/-- at the very end of the input a lookup succeeds iff it takes no bits -/
theorem spec_lookup_end {c : Code} {t : Table} {A : Nat} (hT : TabFor c t A) (buf : Array UInt8) {P : Nat}
    (hP : P = nbits buf) {x v used : Nat} (hraw : readSymbolRaw 8 t x = .ok (some (v, used))) :
    Webp.Spec.VP8L.readSymbol c (brAt buf P) = if used = 0 then .ok (v, brAt buf P) else .err .eos := by
  rcases hT.ok.zeroOrPos with ⟨s, hs⟩ | hpos
  · have e := hs x
    rw [hraw] at e
    injection e with e; injection e with e; injection e with e1 e2
    subst e1; subst e2
    rw [if_pos rfl]
    exact spec_zero_sym hT buf (by omega) hs
  · have h1 := hpos _ _ _ hraw
    rw [if_neg (by omega)]
    obtain ⟨v', u', hraw', _, _⟩ := hT.ok.total (peekBits (brAt buf P) 32)
    have h1' := hpos _ _ _ hraw'
    rw [← hT.spec _ (by show P ≤ nbits buf; omega), implReadSymbol_at hraw', if_pos (by omega)]

/-- the true look-ahead `u` bits further on -/
theorem peek_shr (buf : Array UInt8) (P u : Nat) (hu : u + 15 ≤ 32) :
    (peekBits (brAt buf P) 32 >>> u) % 2 ^ 15 = peekBits (brAt buf (P + u)) 32 % 2 ^ 15 := by
  have hadv : restBits (brAt buf (P + u)) = (restBits (brAt buf P)).drop u := restBits_adv (brAt buf P) u
  unfold peekBits
  rw [Nat.shiftRight_eq_div_pow, ofBitsLE_div_mod, List.drop_take, List.take_take,
    Webp.Proofs.VP8LEntropyTableF.ofBitsLE_take_mod, List.take_take, hadv]
  congr 2
  omega

/-! ## the literal read through the packed table, specification side -/

section chain
variable {G : Group} {g : HTreeGroup} (hG : GroupOK G g) (buf : Array UInt8)
include hG

/-- four lookups on the true look-ahead `W`, fewer than 18 bits in total: the specification's
    `readToken` reads this literal, or runs past the end -/
theorem spec_chain_lit {P : Nat} (hP : P ≤ nbits buf) (xsize : Nat)
    {sg l1 sr l2 sb l3 sa l4 : Nat} (h256 : sg < 256)
    (h1 : readSymbolRaw 8 g.green (peekBits (brAt buf P) 32) = .ok (some (sg, l1)))
    (h2 : readSymbolRaw 8 g.red (peekBits (brAt buf P) 32 >>> l1) = .ok (some (sr, l2)))
    (h3 : readSymbolRaw 8 g.blue (peekBits (brAt buf P) 32 >>> l1 >>> l2) = .ok (some (sb, l3)))
    (h4 : readSymbolRaw 8 g.alpha (peekBits (brAt buf P) 32 >>> l1 >>> l2 >>> l3) = .ok (some (sa, l4)))
    (hL : l1 + l2 + l3 + l4 ≤ 17) :
    Webp.Spec.VP8L.readToken G xsize (brAt buf P) =
      if nbits buf < P + (l1 + l2 + l3 + l4) then .err .eos
      else .ok (.literal (UInt32.ofNat sa <<< 24 ||| UInt32.ofNat sr <<< 16 ||| UInt32.ofNat sg <<< 8 |||
        UInt32.ofNat sb), brAt buf (P + (l1 + l2 + l3 + l4))) := by
  obtain ⟨A, hgreen⟩ := hG.green
  have e256 : Webp.Spec.VP8L.numLiteralCodes = 256 := rfl
  have hsr := (raw_lt hG.red.ok h2).1
  have hsb := (raw_lt hG.blue.ok h3).1
  have hsa := (raw_lt hG.alpha.ok h4).1
  rw [readToken_eq, spec_lookup hgreen buf hP rfl h1]
  by_cases c1 : nbits buf < P + l1
  · rw [if_pos c1, if_pos (by omega)]
  rw [if_neg c1]
  simp only
  unfold specAfterGreen
  rw [e256, if_pos h256]
  unfold specRBA
  rw [spec_lookup hG.red buf (by omega) (peek_shr buf P l1 (by omega)).symm.symm h2]
  by_cases c2 : nbits buf < P + l1 + l2
  · rw [if_pos c2, if_pos (by omega)]
  rw [if_neg c2]
  simp only
  unfold specBA
  have hx3 : (peekBits (brAt buf P) 32 >>> l1 >>> l2) % 2 ^ 15 = peekBits (brAt buf (P + l1 + l2)) 32 % 2 ^ 15 := by
    rw [← Nat.shiftRight_add, peek_shr buf P (l1 + l2) (by omega), Nat.add_assoc]
  rw [spec_lookup hG.blue buf (by omega) hx3 h3]
  by_cases c3 : nbits buf < P + l1 + l2 + l3
  · rw [if_pos c3, if_pos (by omega)]
  rw [if_neg c3]
  simp only
  unfold specA
  have hx4 : (peekBits (brAt buf P) 32 >>> l1 >>> l2 >>> l3) % 2 ^ 15 =
      peekBits (brAt buf (P + l1 + l2 + l3)) 32 % 2 ^ 15 := by
    rw [← Nat.shiftRight_add, ← Nat.shiftRight_add, peek_shr buf P (l1 + (l2 + l3)) (by omega)]
    congr 3
    omega
  rw [spec_lookup hG.alpha buf (by omega) hx4 h4]
  by_cases c4 : nbits buf < P + l1 + l2 + l3 + l4
  · rw [if_pos c4, if_pos (by omega)]
  rw [if_neg c4, if_neg (by omega)]
  simp only
  rw [argb_eq hsa hsr h256 hsb]
  congr 3
  omega

/-- the same at the very end of the input, for the table's answers on ANY look-ahead values (the
    register's look-ahead is stale there): the literal iff no bit is needed -/
theorem spec_chain_lit_end {P : Nat} (hP : P = nbits buf) (xsize : Nat)
    {x1 x2 x3 x4 sg l1 sr l2 sb l3 sa l4 : Nat} (h256 : sg < 256)
    (h1 : readSymbolRaw 8 g.green x1 = .ok (some (sg, l1)))
    (h2 : readSymbolRaw 8 g.red x2 = .ok (some (sr, l2)))
    (h3 : readSymbolRaw 8 g.blue x3 = .ok (some (sb, l3)))
    (h4 : readSymbolRaw 8 g.alpha x4 = .ok (some (sa, l4))) :
    Webp.Spec.VP8L.readToken G xsize (brAt buf P) =
      if l1 + l2 + l3 + l4 = 0 then
        .ok (.literal (UInt32.ofNat sa <<< 24 ||| UInt32.ofNat sr <<< 16 ||| UInt32.ofNat sg <<< 8 |||
          UInt32.ofNat sb), brAt buf P)
      else .err .eos := by
  obtain ⟨A, hgreen⟩ := hG.green
  have e256 : Webp.Spec.VP8L.numLiteralCodes = 256 := rfl
  have hsr := (raw_lt hG.red.ok h2).1
  have hsb := (raw_lt hG.blue.ok h3).1
  have hsa := (raw_lt hG.alpha.ok h4).1
  rw [readToken_eq, spec_lookup_end hgreen buf hP h1]
  by_cases c1 : l1 = 0
  swap
  · rw [if_neg c1, if_neg (by omega)]
  rw [if_pos c1]
  simp only
  unfold specAfterGreen
  rw [e256, if_pos h256]
  unfold specRBA
  rw [spec_lookup_end hG.red buf hP h2]
  by_cases c2 : l2 = 0
  swap
  · rw [if_neg c2, if_neg (by omega)]
  rw [if_pos c2]
  simp only
  unfold specBA
  rw [spec_lookup_end hG.blue buf hP h3]
  by_cases c3 : l3 = 0
  swap
  · rw [if_neg c3, if_neg (by omega)]
  rw [if_pos c3]
  simp only
  unfold specA
  rw [spec_lookup_end hG.alpha buf hP h4]
  by_cases c4 : l4 = 0
  swap
  · rw [if_neg c4, if_neg (by omega)]
  rw [if_pos c4, if_pos (by omega)]
  simp only
  rw [argb_eq hsa hsr h256 hsb]

end chain

/-! ## a group as `readHuffmanCodes` builds it -/

theorem mkGroup_dist (t : Tables5) (m : MaxLens5) : (mkGroup t m).dist = t.dist := by
  unfold mkGroup buildPackedTable
  simp only
  split <;> (split <;> try split) <;> simp

/-- the five tables `t` (with `maxCodeLen`s `m`) were built for the codes of `G`; `Ng`: size of the
    green alphabet -/
structure Built (G : Group) (t : Tables5) (m : MaxLens5) (Ng : Nat) : Prop where
  green : TabFor G.green t.green Ng
  red : TabFor G.red t.red 256
  blue : TabFor G.blue t.blue 256
  alpha : TabFor G.alpha t.alpha 256
  dist : TabFor G.dist t.dist 40
  sgreen : TSpec t.green m.green Ng
  sred : TSpec t.red m.red 256
  sblue : TSpec t.blue m.blue 256
  salpha : TSpec t.alpha m.alpha 256
  hNg : Ng ≤ 2 ^ 32

theorem Built.groupOK {G : Group} {t : Tables5} {m : MaxLens5} {Ng : Nat} (h : Built G t m Ng) :
    GroupOK G (mkGroup t m) := by
  obtain ⟨eg, er, eb, ea⟩ := Webp.Proofs.VP8LFastPaths.mkGroup_tables t m
  have ed := mkGroup_dist t m
  exact ⟨⟨Ng, eg.symm ▸ h.green⟩, er.symm ▸ h.red, eb.symm ▸ h.blue, ea.symm ▸ h.alpha, ed.symm ▸ h.dist⟩

section built
variable {G : Group} {t : Tables5} {m : MaxLens5} {Ng : Nat} (hB : Built G t m Ng)
include hB

/-- `IsTrivialLiteral` (not `IsTrivialCode`): `LiteralARB | code<<8` is the specification's pixel -/
theorem trivLitOK_mk (htc : trivCode t = false) : TrivLitOK G (mkGroup t m) := by
  obtain ⟨f1, f2, f3, f4, f5⟩ := Webp.Proofs.VP8LFastPaths.mkGroup_flags t m
  intro hl buf P code hP hc
  rw [f1] at hl
  obtain ⟨hr0, hb0, ha0⟩ := Webp.Proofs.VP8LFastPaths.trivLit_bits hl
  have zr := Webp.Proofs.VP8LFastPaths.single_of_cell0 hB.sred hr0
  have zb := Webp.Proofs.VP8LFastPaths.single_of_cell0 hB.sblue hb0
  have za := Webp.Proofs.VP8LFastPaths.single_of_cell0 hB.salpha ha0
  have hsr := (raw_lt hB.red.ok (zr 0)).1
  have hsb := (raw_lt hB.blue.ok (zb 0)).1
  have hsa := (raw_lt hB.alpha.ok (za 0)).1
  unfold specRBA specBA specA
  rw [spec_zero_sym hB.red buf hP zr]
  simp only
  rw [spec_zero_sym hB.blue buf hP zb]
  simp only
  rw [spec_zero_sym hB.alpha buf hP za]
  simp only
  rw [argb_eq hsa hsr hc hsb, f4 hl, htc]
  simp only [Bool.false_eq_true, if_false]
  unfold arb
  rw [Webp.Proofs.VP8LFastPaths.or_shuffle1]

/-- `IsTrivialCode`: no bit is read, the pixel is `LiteralARB` -/
theorem trivCode_agree (fs : FillSites) (htc : trivCode t = true) {buf : Array UInt8} {r : Reader} {P : Nat}
    (hg : Good buf r P 64) (xsize : Nat) :
    Agree buf (readTokenAt goOps fs (mkGroup t m) xsize r) (Webp.Spec.VP8L.readToken G xsize (brAt buf P)) := by
  obtain ⟨f1, f2, f3, f4, f5⟩ := Webp.Proofs.VP8LFastPaths.mkGroup_flags t m
  have hP := hg.P_le (Nat.le_refl _)
  have htc' := htc
  unfold trivCode at htc'
  simp only [Bool.and_eq_true, beq_iff_eq, decide_eq_true_eq] at htc'
  obtain ⟨htl, htot, hval⟩ := htc'
  obtain ⟨hr0, hb0, ha0⟩ := Webp.Proofs.VP8LFastPaths.trivLit_bits htl
  have hg0 : (cell t.green 0).bits = 0 := by unfold totalBits at htot; omega
  have zg := Webp.Proofs.VP8LFastPaths.single_of_cell0 hB.sgreen hg0
  have zr := Webp.Proofs.VP8LFastPaths.single_of_cell0 hB.sred hr0
  have zb := Webp.Proofs.VP8LFastPaths.single_of_cell0 hB.sblue hb0
  have za := Webp.Proofs.VP8LFastPaths.single_of_cell0 hB.salpha ha0
  have hsr := (raw_lt hB.red.ok (zr 0)).1
  have hsb := (raw_lt hB.blue.ok (zb 0)).1
  have hsa := (raw_lt hB.alpha.ok (za 0)).1
  have e256 : Webp.Spec.VP8L.numLiteralCodes = 256 := rfl
  unfold readTokenAt
  rw [f2, htc, if_pos rfl]
  refine Or.inl ⟨_, r, P, rfl, ?_, hg⟩
  rw [readToken_eq, spec_zero_sym hB.green buf hP zg]
  simp only
  unfold specAfterGreen specRBA specBA specA
  rw [e256, if_pos hval, spec_zero_sym hB.red buf hP zr]
  simp only
  rw [spec_zero_sym hB.blue buf hP zb]
  simp only
  rw [spec_zero_sym hB.alpha buf hP za]
  simp only
  rw [argb_eq hsa hsr hval hsb, f4 htl, htc, if_pos rfl]
  unfold arb
  rw [Webp.Proofs.VP8LFastPaths.or_shuffle1]

omit hB in
/-- what the packed table holds at the index the loop uses -/
theorem packed_entry (hp : usePacked t m = true) (w : Nat) :
    (mkGroup t m).packedTable.getD (w &&& (huffmanPackedTableSize - 1)) (0, 0) =
      packedEntry t.green t.red t.blue t.alpha (w % 64) := by
  obtain ⟨f1, f2, f3, f4, f5⟩ := Webp.Proofs.VP8LFastPaths.mkGroup_flags t m
  have e : w &&& (huffmanPackedTableSize - 1) = w % 64 := by
    show w &&& ((1 <<< 6) - 1) = _
    rw [Webp.Proofs.VP8LEntropyTableB.mask_eq, show (2 : Nat) ^ 6 = 64 from by decide]
  rw [e, f5 hp, Webp.Proofs.VP8LFastPaths.packedLoop_getD _ _ _ _ 64 0 _ rfl (by simp) (w % 64)
    (Nat.mod_lt _ (by decide)), if_pos (Nat.zero_le _)]

end built

/-! ## the packed-table path on the window reader -/

theorem readPacked_eq (g : HTreeGroup) (r : Reader) :
    readPacked goOps g r =
      if (g.packedTable.getD (r.prefetchBits.toNat &&& (huffmanPackedTableSize - 1)) (0, 0)).1 < bitsSpecialMarker then
        (((g.packedTable.getD (r.prefetchBits.toNat &&& (huffmanPackedTableSize - 1)) (0, 0)).2, 0, true),
          r.advance (g.packedTable.getD (r.prefetchBits.toNat &&& (huffmanPackedTableSize - 1)) (0, 0)).1)
      else
        ((0, (g.packedTable.getD (r.prefetchBits.toNat &&& (huffmanPackedTableSize - 1)) (0, 0)).2.toNat, false),
          r.advance ((g.packedTable.getD (r.prefetchBits.toNat &&& (huffmanPackedTableSize - 1)) (0, 0)).1 -
            bitsSpecialMarker)) := rfl

/-- the loop body when `UsePackedTable` is set, in terms of what `readPackedSymbols` returned -/
theorem readTokenAt_packed (fs : FillSites) (g : HTreeGroup) (xsize : Nat) (r : Reader)
    (h1 : g.isTrivialCode = false) (h2 : g.usePackedTable = true) (argb : UInt32) (gc : Nat) (isLit : Bool)
    (r2 : Reader) (hx : readPacked goOps g (fillIf goOps fs.top r) = ((argb, gc, isLit), r2)) :
    readTokenAt goOps fs g xsize r =
      if r2.isEndOfStream = true then .err .eos
      else if isLit = true then .ok (.literal argb, r2) else afterGreen goOps fs g xsize gc r2 := by
  unfold readTokenAt
  rw [h1, h2]
  simp only [Bool.false_eq_true, if_false, if_true, hx, goOps_eos]

section packed
variable {G : Group} {t : Tables5} {m : MaxLens5} {Ng : Nat} (hB : Built G t m Ng)
include hB

/-- **`UsePackedTable`**: one 6-bit index after the top refill, `SetBitPos`, one end-of-stream test —
    the specification's token (a literal read as four code words of < 6 bits in total, or a
    non-literal green symbol followed by the general path) -/
theorem packed_agree {fs : FillSites} (hS : Sufficient fs) (htc : trivCode t = false) (hp : usePacked t m = true)
    {buf : Array UInt8} {r : Reader} {P : Nat} (hg : Good buf r P 64) {xsize : Nat} (hx : xsize ≤ 153391689) :
    Agree buf (readTokenAt goOps fs (mkGroup t m) xsize r) (Webp.Spec.VP8L.readToken G xsize (brAt buf P)) := by
  obtain ⟨f1, f2, f3, f4, f5⟩ := Webp.Proofs.VP8LFastPaths.mkGroup_flags t m
  obtain ⟨eg, er, eb, ea⟩ := Webp.Proofs.VP8LFastPaths.mkGroup_tables t m
  have hG := hB.groupOK
  obtain ⟨hs0, hs1, hs2⟩ := hS
  have htop : fs.top = true := by
    unfold after at hs0
    cases h : fs.top
    · rw [h] at hs0; simp at hs0
    · rfl
  have h32 : after fs.top 64 = 32 := by rw [htop]; rfl
  rw [h32] at hs1 hs2
  have hM : m.green + m.red + m.blue + m.alpha < 6 := by
    unfold usePacked at hp
    simp only [Bool.and_eq_true, decide_eq_true_eq] at hp
    exact hp.2
  have hg1 := fillIf_good' fs.top hg (Nat.le_refl _)
  rw [h32] at hg1
  have hP1 := hg1.P_le (by omega)
  have hpk := readTokenAt_packed fs (mkGroup t m) xsize r (by rw [f2]; exact htc) (by rw [f3]; exact hp)
  generalize fillIf goOps fs.top r = r1 at hg1 hpk
  obtain ⟨sg, l1, hsg, hraw1, hl1, hcode, hlitE⟩ :=
    Webp.Proofs.VP8LFastPaths.packedEntry_spec hB.sgreen hB.sred hB.sblue hB.salpha hM r1.prefetchBits.toNat
  have hentry := packed_entry (t := t) (m := m) hp r1.prefetchBits.toNat
  by_cases h256 : 256 ≤ sg
  · -- a non-literal green symbol: the general path from here on
    have hround : (UInt32.ofNat sg).toNat = sg := by
      rw [UInt32.toNat_ofNat']
      exact Nat.mod_eq_of_lt (by have := hB.hNg; omega)
    have hrp : readPacked goOps (mkGroup t m) r1 = ((0, sg, false), r1.advance l1) := by
      rw [readPacked_eq, hentry, hcode h256]
      simp only
      rw [if_neg (by show ¬ l1 + 256 < 256; omega), hround]
      show ((0, sg, false), r1.advance (l1 + 256 - 256)) = _
      rw [Nat.add_sub_cancel]
    rw [hpk _ _ _ _ hrp, readToken_eq]
    obtain ⟨_, _, hcase⟩ := raw_step (eg ▸ hB.green) hg1 (by omega) (eg.symm ▸ hraw1)
    rcases hcase with ⟨hs, hg2⟩ | ⟨hs, hd⟩
    · rw [hs, if_neg (by rw [hg2.not_eos (by omega)]; simp)]
      simp only [Bool.false_eq_true, if_false]
      exact afterGreen_agree hG hg2 (by omega) hs1 hs2 (trivLitOK_mk hB htc) hx sg
    · unfold Doomed at hd
      rw [hs, if_pos hd]
      exact Or.inr ⟨rfl, rfl⟩
  · -- a literal, all four code words through one table entry
    have h256' : sg < 256 := by omega
    obtain ⟨sr, l2, sb, l3, sa, l4, hraw2, hraw3, hraw4, hsum, he⟩ := hlitE h256'
    have hrp : readPacked goOps (mkGroup t m) r1 =
        ((UInt32.ofNat sa <<< 24 ||| UInt32.ofNat sr <<< 16 ||| UInt32.ofNat sg <<< 8 ||| UInt32.ofNat sb, 0, true),
          r1.advance (l1 + l2 + l3 + l4)) := by
      rw [readPacked_eq, hentry, he]
      simp only
      rw [if_pos (by show l1 + l2 + l3 + l4 < 256; omega)]
    rw [hpk _ _ _ _ hrp]
    simp only [if_true]
    obtain ⟨ga, gb, gc⟩ := win_geom hg1.win
    by_cases hb : r1.bitPos < 64
    · -- the register's look-ahead is the true look-ahead
      have hwW : r1.prefetchBits.toNat = peekBits (brAt buf P) 32 := by
        have h := prefetch_low hg1 32 (Nat.le_refl _) (by omega) hb
        have l1 : r1.prefetchBits.toNat < 2 ^ 32 := r1.prefetchBits.toNat_lt
        have l2 : peekBits (brAt buf P) 32 < 2 ^ 32 := by
          unfold peekBits
          have := ofBitsLE_lt ((restBits (brAt buf P)).take 32)
          have hl : ((restBits (brAt buf P)).take 32).length ≤ 32 := by simp
          exact Nat.lt_of_lt_of_le this (Nat.pow_le_pow_right (by decide) hl)
        rw [Nat.mod_eq_of_lt l1, Nat.mod_eq_of_lt l2] at h
        exact h
      rw [hwW] at hraw1 hraw2 hraw3 hraw4
      rw [spec_chain_lit hG buf hP1 xsize h256' (eg.symm ▸ hraw1) (er.symm ▸ hraw2) (eb.symm ▸ hraw3)
        (ea.symm ▸ hraw4) (by omega)]
      by_cases hPL : P + (l1 + l2 + l3 + l4) ≤ nbits buf
      · have hg2 := advance_good hg1 (l1 + l2 + l3 + l4) hPL
        rw [if_neg (by rw [hg2.not_eos (by omega)]; simp), if_neg (by omega)]
        exact Or.inl ⟨_, _, _, rfl, rfl, hg2.mono (by omega)⟩
      · have hd := advance_doomed hg1 (l1 + l2 + l3 + l4) (by omega) (by omega)
        unfold Doomed at hd
        rw [if_pos hd, if_pos (by omega)]
        exact Or.inr ⟨rfl, rfl⟩
    · -- the register is used up at the very end of the input: only a zero-bit literal can follow
      have hpos : r1.pos = buf.size := by have := hg1.room; omega
      have hPn : P = nbits buf := by have := gc hpos; have := hg1.le64 (by omega); omega
      rw [spec_chain_lit_end hG buf hPn xsize h256' (eg.symm ▸ hraw1) (er.symm ▸ hraw2) (eb.symm ▸ hraw3)
        (ea.symm ▸ hraw4)]
      by_cases hL0 : l1 + l2 + l3 + l4 = 0
      · have hg2 := advance_good hg1 (l1 + l2 + l3 + l4) (by omega)
        rw [if_neg (by rw [hg2.not_eos (by omega)]; simp), if_pos hL0]
        refine Or.inl ⟨_, _, P, rfl, rfl, ?_⟩
        have := hg2.mono (show 32 + (l1 + l2 + l3 + l4) ≤ 64 by omega)
        rw [hL0] at this ⊢
        exact this
      · have hd := advance_doomed hg1 (l1 + l2 + l3 + l4) (by omega) (by omega)
        unfold Doomed at hd
        rw [if_pos hd, if_neg hL0]
        exact Or.inr ⟨rfl, rfl⟩

/-- **one token read, all paths**: for a group as `readHuffmanCodes` builds it (`mkGroup`), with
    refills that satisfy the budget -/
theorem readTokenAt_agree_built {fs : FillSites} (hS : Sufficient fs) {buf : Array UInt8} {r : Reader} {P : Nat}
    (hg : Good buf r P 64) {xsize : Nat} (hx : xsize ≤ 153391689) :
    Agree buf (readTokenAt goOps fs (mkGroup t m) xsize r) (Webp.Spec.VP8L.readToken G xsize (brAt buf P)) := by
  obtain ⟨f1, f2, f3, f4, f5⟩ := Webp.Proofs.VP8LFastPaths.mkGroup_flags t m
  rcases Bool.eq_false_or_eq_true (trivCode t) with htc | htc
  · exact trivCode_agree hB fs htc hg xsize
  rcases Bool.eq_false_or_eq_true (usePacked t m) with hp | hp
  · exact packed_agree hB hS htc hp hg hx
  · exact readTokenAt_agree' hB.groupOK hS (by rw [f2]; exact htc) (by rw [f3]; exact hp) (trivLitOK_mk hB htc) hg hx

end packed

end Webp.Proofs.VP8LWindow
