import Webp.Proofs.C04RefineTokens
/-
  C04 refinement, residuals, part 4: what one block read (`Webp.Spec.VP8.readBlock`, §13) may change — only the
  coefficient slots `base + zigzag[p]` for positions `p ≥ first`; in particular a luma block of a macroblock with a
  Y2 block (`first = 1`) leaves its DC slot alone, and no block touches another block's sixteen slots.
-/
namespace Webp.Proofs.C04RefineResid
open Webp.Spec.VP8
open Webp.Proofs.C04RefineTokens (readBlock_go_succ readBlock_go_16)

theorem getD_setI_ne (a : Array Int) (i j : Nat) (v : Int) (h : j ≠ i) : (a.setIfInBounds i v).getD j 0 = a.getD j 0 := by
  rw [Array.getD_eq_getD_getElem?, Array.getElem?_setIfInBounds, Array.getD_eq_getD_getElem?, if_neg (fun e => h e.symm)]

theorem readBlock_go_frame (probs : Array Nat) (t : Nat) (dcQ acQ : Int) (base : Nat) :
    ∀ (fuel i ctx : Nat) (az : Bool) (coeffs : Array Int) (ovf : Bool) (d : BoolDec),
      (readBlock.go probs t dcQ acQ base fuel i ctx az coeffs ovf d).2.1.size = coeffs.size ∧
      (∀ k, (∀ p, i ≤ p → p < 16 → k ≠ base + Tables.zigzag.getD p 0) →
        (readBlock.go probs t dcQ acQ base fuel i ctx az coeffs ovf d).2.1.getD k 0 = coeffs.getD k 0) := by
  intro fuel
  induction fuel with
  | zero => intro i ctx az coeffs ovf d; rw [readBlock.go]; exact ⟨rfl, fun _ _ => rfl⟩
  | succ fuel ih =>
    intro i ctx az coeffs ovf d
    by_cases hi : i < 16
    · cases hr : BoolDec.readTree.go coeffTree
        (fun n => probs.getD (((t * 8 + Tables.coeffBands.getD i 0) * 3 + ctx) * 11 + n) 128) 16 (if az then 2 else 0) d with
      | mk tok d1 =>
        rw [readBlock_go_succ probs t dcQ acQ base fuel i ctx az coeffs ovf d hi tok d1 hr]
        by_cases h11 : tok = 11
        · rw [if_pos h11]; exact ⟨rfl, fun _ _ => rfl⟩
        · rw [if_neg h11]
          by_cases h0 : tok = 0
          · rw [if_pos h0]
            obtain ⟨s1, s2⟩ := ih (i + 1) 0 true coeffs ovf d1
            exact ⟨s1, fun k hk => s2 k (fun p hp hp16 => hk p (by omega) hp16)⟩
          · rw [if_neg h0]
            obtain ⟨s1, s2⟩ := ih (i + 1) (if (tokenMagnitude tok d1).1 = 1 then 1 else 2) false
              (coeffs.setIfInBounds (base + Tables.zigzag.getD i 0)
                (wrap16 ((if ((tokenMagnitude tok d1).2.readBool 128).1 then - (Int.ofNat (tokenMagnitude tok d1).1)
                  else Int.ofNat (tokenMagnitude tok d1).1) * (if i = 0 then dcQ else acQ))))
              (ovf || wrap16 ((if ((tokenMagnitude tok d1).2.readBool 128).1 then - (Int.ofNat (tokenMagnitude tok d1).1)
                  else Int.ofNat (tokenMagnitude tok d1).1) * (if i = 0 then dcQ else acQ)) ≠
                (if ((tokenMagnitude tok d1).2.readBool 128).1 then - (Int.ofNat (tokenMagnitude tok d1).1)
                  else Int.ofNat (tokenMagnitude tok d1).1) * (if i = 0 then dcQ else acQ))
              ((tokenMagnitude tok d1).2.readBool 128).2
            refine ⟨by rw [s1, Array.size_setIfInBounds], fun k hk => ?_⟩
            rw [s2 k (fun p hp hp16 => hk p (by omega) hp16), getD_setI_ne _ _ _ _ (hk i (Nat.le_refl _) hi)]
    · rw [readBlock_go_16 _ _ _ _ _ _ _ _ _ _ _ _ hi]; exact ⟨rfl, fun _ _ => rfl⟩

theorem zigzag_lt : ∀ p : Fin 16, Tables.zigzag.getD p.val 0 < 16 := by decide
theorem zigzag_pos : ∀ p : Fin 16, 1 ≤ p.val → Tables.zigzag.getD p.val 0 ≠ 0 := by decide

/-- a block read keeps the array size and every slot outside the block's sixteen -/
theorem readBlock_frame (probs : Array Nat) (t first ctx : Nat) (dcQ acQ : Int) (base : Nat) (coeffs : Array Int) (d : BoolDec) :
    (readBlock probs t first ctx dcQ acQ base coeffs d).2.1.size = coeffs.size ∧
    ∀ k, (k < base ∨ base + 16 ≤ k) → (readBlock probs t first ctx dcQ acQ base coeffs d).2.1.getD k 0 = coeffs.getD k 0 := by
  obtain ⟨s1, s2⟩ := readBlock_go_frame probs t dcQ acQ base 16 first ctx false coeffs false d
  refine ⟨s1, fun k hk => s2 k (fun p _ hp16 => ?_)⟩
  have := zigzag_lt ⟨p, hp16⟩
  simp only at this
  omega

/-- **`first = 1` leaves slot 0 alone**: a luma block of a macroblock with a Y2 block does not write its DC slot -/
theorem readBlock_first1_dc (probs : Array Nat) (t ctx : Nat) (dcQ acQ : Int) (base : Nat) (coeffs : Array Int) (d : BoolDec) :
    (readBlock probs t 1 ctx dcQ acQ base coeffs d).2.1.getD base 0 = coeffs.getD base 0 := by
  obtain ⟨_, s2⟩ := readBlock_go_frame probs t dcQ acQ base 16 1 ctx false coeffs false d
  refine s2 base (fun p hp hp16 => ?_)
  have := zigzag_pos ⟨p, hp16⟩ hp
  simp only at this
  omega

end Webp.Proofs.C04RefineResid
