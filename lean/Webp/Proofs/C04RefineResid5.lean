import Webp.Impl.VP8SyntaxBytes
/-
  C04 refinement, residuals, part 5: Go side — `getCoeffsInline` started at position `first ≥ 1` (luma blocks of a
  macroblock with a Y2 block) never writes slot 0 of its output block, whatever the bits; stated for every leaf of
  the decision tree `T.getCoeffs`, hence for every reader / reference decoder / stream.
-/
namespace Webp.Proofs.C04RefineResid
open Webp.Impl.BoolCoder
open Webp.Impl.VP8SyntaxBytes
open Webp.Impl.VP8Recon (Slot Coeffs zz)

/-- every result the tree can return satisfies `Q` -/
def Leaves {α : Type} (Q : α → Prop) : P α → Prop
  | .pure a => Q a
  | .fail => True
  | .read _ k => ∀ b, Leaves Q (k b)

theorem leaves_bind {α β : Type} (Q : β → Prop) (t : P α) (f : α → P β) (h : ∀ a, Leaves Q (f a)) : Leaves Q (t >>= f) := by
  induction t with
  | pure a => exact h a
  | fail => trivial
  | read sl k ih => intro b; exact ih b

theorem leaves_rd {β : Type} (Q : β → Prop) (sl : Slot) (f : Bool → P β) (h : ∀ b, Leaves Q (f b)) : Leaves Q (rd sl >>= f) :=
  fun b => h b

theorem runR_leaves {α : Type} (Q : α → Prop) (prob : Slot → UInt8) (t : P α) (hl : Leaves Q t) (r : BoolReader) (a : α)
    (r' : BoolReader) (h : runR prob t r = some (a, r')) : Q a := by
  induction t generalizing r with
  | pure b => cases h; exact hl
  | fail => cases h
  | read sl k ih => exact ih _ (hl _) _ h

theorem zz_ne0 : ∀ n : Fin 16, 1 ≤ n.val → zz n ≠ 0 := by decide

theorem getLoop_slot0 (t : Nat) (dq0 dq1 : Int) (c0 : Int) :
    ∀ (fuel n ctx : Nat) (inner : Bool) (out : Coeffs), 1 ≤ n → out 0 = c0 →
      Leaves (fun r => r.2 0 = c0) (T.getLoop t dq0 dq1 fuel n ctx inner out) := by
  intro fuel
  induction fuel with
  | zero => intro n ctx inner out _ _; rw [T.getLoop]; trivial
  | succ fuel ih =>
    intro n ctx inner out hn ho
    cases inner with
    | false =>
      rw [T.getLoop]
      split
      · exact ho
      · refine leaves_rd _ _ _ (fun b => ?_)
        split
        · exact ho
        · exact ih n ctx true out hn ho
    | true =>
      rw [T.getLoop]
      split
      · rename_i h
        refine leaves_rd _ _ _ (fun b => ?_)
        split
        · split
          · exact ho
          · exact ih (n + 1) 0 true out (by omega) ho
        · refine leaves_bind _ _ _ (fun v => leaves_rd _ _ _ (fun neg => ?_))
          refine ih (n + 1) _ false _ (by omega) ?_
          show (if (0 : Fin 16) = zz ⟨n, h⟩ then _ else out 0) = c0
          rw [if_neg (fun e => zz_ne0 ⟨n, h⟩ hn e.symm)]
          exact ho
      · trivial

/-- **`getCoeffsInline` with `first = 1` leaves slot 0 alone** (any `first ≥ 1`) -/
theorem getCoeffs_first1_dc (prob : Slot → UInt8) (t ctx : Nat) (dq0 dq1 : Int) (first : Nat) (hf : 1 ≤ first) (out : Coeffs)
    (r : BoolReader) (eob : Nat) (out' : Coeffs) (r' : BoolReader)
    (h : runR prob (T.getCoeffs t ctx dq0 dq1 first out) r = some ((eob, out'), r')) : out' 0 = out 0 :=
  runR_leaves (fun x => x.2 0 = out 0) prob _ (getLoop_slot0 t dq0 dq1 (out 0) 34 first ctx false out hf rfl) r (eob, out') r' h

end Webp.Proofs.C04RefineResid
