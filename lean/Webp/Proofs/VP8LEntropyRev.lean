import Webp.Proofs.VP8LEntropyBits
/-
  Bit reversal: the bridge between canonical code words (numbers read most significant bit
  first) and the LSB-first bit stream / lookup-table keys.  No `bv_decide`.
-/
namespace Webp.Proofs.VP8LEntropyRev
open Webp.Impl.VP8LEntropy
open Webp.Proofs.VP8LEntropyBits

/-- reverse the `n` low bits of `c` -/
def rev : Nat → Nat → Nat
  | 0, _ => 0
  | n + 1, c => (c % 2) * 2 ^ n + rev n (c / 2)

theorem rev_lt (n c : Nat) : rev n c < 2 ^ n := by
  induction n generalizing c with
  | zero => simp [rev]
  | succ n ih =>
    have := ih (c / 2)
    have h2 : c % 2 < 2 := Nat.mod_lt _ (by decide)
    simp only [rev, Nat.pow_succ]
    rcases Nat.mod_two_eq_zero_or_one c with h | h <;> rw [h] <;> omega

theorem rev_mod (n c : Nat) : rev n (c % 2 ^ n) = rev n c := by
  induction n generalizing c with
  | zero => simp [rev]
  | succ n ih =>
    simp only [rev]
    have h1 : c % 2 ^ (n + 1) % 2 = c % 2 := by
      rw [Nat.pow_succ, Nat.mul_comm]; exact Nat.mod_mul_right_mod c 2 (2 ^ n)
    have h2 : c % 2 ^ (n + 1) / 2 = c / 2 % 2 ^ n := by
      rw [Nat.pow_succ, Nat.mul_comm, Nat.mod_mul_right_div_self]
    rw [h1, h2, ih]

/-- peeling the TOP bit of `c` (which becomes the lowest bit of the reversal) -/
theorem rev_succ_top (n c : Nat) : rev (n + 1) c = c / 2 ^ n % 2 + 2 * rev n (c % 2 ^ n) := by
  induction n generalizing c with
  | zero => simp [rev, Nat.mod_one]
  | succ n ih =>
    rw [rev, ih (c / 2)]
    rw [rev]
    have e1 : c / 2 / 2 ^ n = c / 2 ^ (n + 1) := by
      rw [Nat.div_div_eq_div_mul, Nat.pow_succ, Nat.mul_comm]
    have e2 : c % 2 ^ (n + 1) % 2 = c % 2 := by
      rw [Nat.pow_succ, Nat.mul_comm]; exact Nat.mod_mul_right_mod c 2 (2 ^ n)
    have e3 : c % 2 ^ (n + 1) / 2 = c / 2 % 2 ^ n := by
      rw [Nat.pow_succ, Nat.mul_comm, Nat.mod_mul_right_div_self]
    rw [e1, e2, e3]
    generalize rev n (c / 2 % 2 ^ n) = r
    generalize c / 2 ^ (n + 1) % 2 = t
    generalize c % 2 = u
    rw [Nat.pow_succ, ← Nat.mul_assoc]
    generalize u * 2 ^ n = q
    omega

/-- the first `l` stream bits of an `n`-bit code word are the code word's top `l` bits -/
theorem rev_mod_pow (n l c : Nat) (h : l ≤ n) : rev n c % 2 ^ l = rev l (c / 2 ^ (n - l) % 2 ^ l) := by
  induction n generalizing l c with
  | zero =>
    have : l = 0 := by omega
    subst this; simp [rev, Nat.mod_one]
  | succ n ih =>
    by_cases hl : l = n + 1
    · subst hl
      simp only [Nat.sub_self, Nat.pow_zero, Nat.div_one]
      rw [Nat.mod_eq_of_lt (rev_lt _ _), rev_mod]
    · have hl' : l ≤ n := by omega
      cases l with
      | zero => simp [rev, Nat.mod_one]
      | succ l =>
        -- use the top-bit recursion on both sides
        rw [rev_succ_top n c, rev_succ_top l]
        have hl2 : l ≤ n - 1 + 1 := by omega
        have e : (c / 2 ^ n % 2 + 2 * rev n (c % 2 ^ n)) % 2 ^ (l + 1)
            = c / 2 ^ n % 2 + 2 * (rev n (c % 2 ^ n) % 2 ^ l) := by
          rw [Nat.pow_succ, Nat.mul_comm (2 ^ l) 2]
          have hb : c / 2 ^ n % 2 < 2 := Nat.mod_lt _ (by decide)
          generalize c / 2 ^ n % 2 = b at hb ⊢
          generalize rev n (c % 2 ^ n) = r
          rw [Nat.add_mod, Nat.mul_mod_mul_left]
          have h1 : b % (2 * 2 ^ l) = b := Nat.mod_eq_of_lt (by
            have : 0 < 2 ^ l := Nat.pow_pos (by decide); omega)
          rw [h1]
          apply Nat.mod_eq_of_lt
          have : r % 2 ^ l < 2 ^ l := Nat.mod_lt _ (Nat.pow_pos (by decide))
          omega
        rw [e]
        have hl3 : l ≤ n := by omega
        rw [ih l (c % 2 ^ n) hl3]
        -- top bit
        have t1 : c / 2 ^ (n + 1 - (l + 1)) % 2 ^ (l + 1) / 2 ^ l % 2 = c / 2 ^ n % 2 := by
          have : n + 1 - (l + 1) = n - l := by omega
          rw [this]
          have hpow : 2 ^ (l + 1) = 2 ^ l * 2 := by rw [Nat.pow_succ]
          rw [hpow, Nat.mod_mul_right_div_self, Nat.mod_mod, Nat.div_div_eq_div_mul, ← Nat.pow_add]
          have : n - l + l = n := by omega
          rw [this]
        have t2 : c / 2 ^ (n + 1 - (l + 1)) % 2 ^ (l + 1) % 2 ^ l = c % 2 ^ n / 2 ^ (n - l) % 2 ^ l := by
          have : n + 1 - (l + 1) = n - l := by omega
          rw [this]
          have hpow : 2 ^ (l + 1) = 2 ^ l * 2 := by rw [Nat.pow_succ]
          rw [hpow, Nat.mod_mul_right_mod]
          have hn : 2 ^ n = 2 ^ (n - l) * 2 ^ l := by
            rw [← Nat.pow_add]; congr 1; omega
          rw [hn, Nat.mod_mul_right_div_self, Nat.mod_mod]
        rw [t1, t2]

theorem rev_mod_pow' (n l c : Nat) (h : l ≤ n) : rev n c % 2 ^ l = rev l (c / 2 ^ (n - l)) := by
  rw [rev_mod_pow n l c h, rev_mod]

/-- appending `k` zero bits to a code word does not change the stream bits / the key -/
theorem rev_shift (n k c : Nat) (hc : c < 2 ^ n) : rev (n + k) (c * 2 ^ k) = rev n c := by
  induction k with
  | zero => simp
  | succ k ih =>
    rw [← Nat.add_assoc, rev]
    have h1 : c * 2 ^ (k + 1) % 2 = 0 := by rw [Nat.pow_succ, ← Nat.mul_assoc]; exact Nat.mul_mod_left _ _
    have h2 : c * 2 ^ (k + 1) / 2 = c * 2 ^ k := by
      rw [Nat.pow_succ, ← Nat.mul_assoc]; exact Nat.mul_div_cancel _ (by decide)
    rw [h1, h2, ih]; simp

theorem rev_rev (n c : Nat) (hc : c < 2 ^ n) : rev n (rev n c) = c := by
  induction n generalizing c with
  | zero => simp [rev] at hc ⊢; omega
  | succ n ih =>
    rw [rev_succ_top n (rev (n + 1) c)]
    have h1 : rev (n + 1) c / 2 ^ n % 2 = c % 2 := by
      rw [rev]
      have hr := rev_lt n (c / 2)
      have hp : 0 < 2 ^ n := Nat.pow_pos (by decide)
      rw [Nat.mul_comm, Nat.mul_add_div hp, Nat.div_eq_of_lt hr]
      simp
    have h2 : rev (n + 1) c % 2 ^ n = rev n (c / 2) := by
      rw [rev]
      rw [Nat.mul_comm, Nat.mul_add_mod, Nat.mod_eq_of_lt (rev_lt n (c / 2))]
    rw [h1, h2, ih (c / 2) (by rw [Nat.pow_succ] at hc; omega)]
    omega

theorem rev_inj (n a b : Nat) (ha : a < 2 ^ n) (hb : b < 2 ^ n) (h : rev n a = rev n b) : a = b := by
  rw [← rev_rev n a ha, ← rev_rev n b hb, h]

/-- the stream bits of a code word: most significant bit first -/
theorem bitsLE_rev_succ (n c : Nat) :
    bitsLE (rev (n + 1) c) (n + 1) = (c / 2 ^ n % 2 == 1) :: bitsLE (rev n (c % 2 ^ n)) n := by
  rw [rev_succ_top, bitsLE]
  have hb : c / 2 ^ n % 2 < 2 := Nat.mod_lt _ (by decide)
  generalize c / 2 ^ n % 2 = b at hb
  generalize rev n (c % 2 ^ n) = r
  have h1 : (b + 2 * r) % 2 = b := by omega
  have h2 : (b + 2 * r) / 2 = r := by omega
  rw [h1, h2]

/-! ## `reverseBits` of the encoder -/

theorem reverseLoop_eq (n v r : Nat) : reverseLoop n v r = r * 2 ^ n + rev n v := by
  induction n generalizing v r with
  | zero => simp [reverseLoop, rev]
  | succ n ih =>
    rw [reverseLoop, ih, rev]
    rw [Nat.shiftRight_eq_div_pow, Nat.and_one_is_mod]
    have hlt : v % 2 < 2 ^ 1 := by simpa using Nat.mod_lt v (by decide : 0 < 2)
    rw [← Nat.shiftLeft_add_eq_or_of_lt hlt r, Nat.shiftLeft_eq, Nat.pow_succ 2 n]
    rw [Nat.add_mul, Nat.mul_assoc, Nat.pow_one, Nat.mul_comm 2 (2 ^ n)]
    omega

theorem reverseBits_eq (v n : Nat) (hn : n ≤ 16) : reverseBits v n = rev n v := by
  unfold reverseBits
  rw [reverseLoop_eq]
  simp only [Nat.zero_mul, Nat.zero_add]
  apply Nat.mod_eq_of_lt
  calc rev n v < 2 ^ n := rev_lt n v
    _ ≤ 2 ^ 16 := Nat.pow_le_pow_right (by decide) hn

/-! ## `getNextKey` is "increment the code word" -/

theorem and_pow_ne_zero (key j : Nat) : key &&& 2 ^ j ≠ 0 ↔ key / 2 ^ j % 2 = 1 := by
  have hb := Nat.testBit_eq_decide_div_mod_eq (x := key) (i := j)
  constructor
  · intro h
    by_cases ht : key.testBit j
    · rw [ht] at hb; simpa using hb.symm
    · exfalso; apply h
      apply Nat.eq_of_testBit_eq
      intro i
      simp only [Nat.testBit_and, Nat.testBit_two_pow, Nat.zero_testBit]
      by_cases hji : j = i
      · subst hji; simp [ht]
      · simp [hji]
  · intro h h0
    have : (key &&& 2 ^ j).testBit j = true := by
      simp [Nat.testBit_and, hb, h]
    rw [h0] at this
    simp at this

/-- the loop stops at the highest zero bit below `step` -/
theorem nextKeyStep_spec (key fuel j : Nat) (hf : j < fuel) :
    -- scanning from bit `j` downwards
    ∃ step, nextKeyStep key fuel (2 ^ j) = step ∧
      ((step = 0 ∧ ∀ i, i ≤ j → key / 2 ^ i % 2 = 1) ∨
       (∃ p, p ≤ j ∧ step = 2 ^ p ∧ key / 2 ^ p % 2 = 0 ∧ ∀ i, p < i → i ≤ j → key / 2 ^ i % 2 = 1)) := by
  induction j generalizing fuel with
  | zero =>
    cases fuel with
    | zero => omega
    | succ f =>
      simp only [nextKeyStep, Nat.pow_zero, Nat.and_one_is_mod]
      by_cases h : key % 2 ≠ 0
      · rw [if_pos h]
        refine ⟨_, rfl, Or.inl ⟨?_, ?_⟩⟩
        · cases f with
          | zero => rfl
          | succ f => simp [nextKeyStep]
        · intro i hi
          have : i = 0 := by omega
          subst this; simp; omega
      · rw [if_neg h]
        exact ⟨1, rfl, Or.inr ⟨0, by omega, by simp, by simp; omega, by intro i h1 h2; omega⟩⟩
  | succ j ih =>
    cases fuel with
    | zero => omega
    | succ f =>
      simp only [nextKeyStep]
      have hand := and_pow_ne_zero key (j + 1)
      by_cases hk : key / 2 ^ (j + 1) % 2 = 1
      · rw [if_pos (hand.mpr hk)]
        have hshift : 2 ^ (j + 1) >>> 1 = 2 ^ j := by
          rw [Nat.shiftRight_eq_div_pow, Nat.pow_succ]; simp
        rw [hshift]
        obtain ⟨step, hs, hcase⟩ := ih f (by omega)
        refine ⟨step, hs, ?_⟩
        rcases hcase with ⟨h0, hall⟩ | ⟨p, hp, hsp, hz, hall⟩
        · left
          refine ⟨h0, ?_⟩
          intro i hi
          by_cases hij : i = j + 1
          · subst hij; exact hk
          · exact hall i (by omega)
        · right
          refine ⟨p, by omega, hsp, hz, ?_⟩
          intro i h1 h2
          by_cases hij : i = j + 1
          · subst hij; exact hk
          · exact hall i h1 (by omega)
      · have hk0 : key / 2 ^ (j + 1) % 2 = 0 := by omega
        rw [if_neg (by rw [hand]; exact hk)]
        exact ⟨_, rfl, Or.inr ⟨j + 1, by omega, rfl, hk0, by intro i h1 h2; omega⟩⟩

/-- the scan only looks at the bits at and below the starting position -/
theorem nextKeyStep_congr (key key' fuel j : Nat) (h : ∀ i, i ≤ j → key / 2 ^ i % 2 = key' / 2 ^ i % 2) :
    nextKeyStep key fuel (2 ^ j) = nextKeyStep key' fuel (2 ^ j) := by
  induction j generalizing fuel with
  | zero =>
    cases fuel with
    | zero => rfl
    | succ f =>
      simp only [nextKeyStep]
      have h0 := h 0 (Nat.le_refl 0)
      by_cases hk : key / 2 ^ 0 % 2 = 1
      · rw [if_pos ((and_pow_ne_zero key 0).mpr hk), if_pos ((and_pow_ne_zero key' 0).mpr (h0 ▸ hk))]
        cases f <;> simp [nextKeyStep]
      · rw [if_neg (by rw [and_pow_ne_zero]; exact hk), if_neg (by rw [and_pow_ne_zero, ← h0]; exact hk)]
  | succ j ih =>
    cases fuel with
    | zero => rfl
    | succ f =>
      simp only [nextKeyStep]
      have h0 := h (j + 1) (Nat.le_refl _)
      have hshift : 2 ^ (j + 1) >>> 1 = 2 ^ j := by
        rw [Nat.shiftRight_eq_div_pow, Nat.pow_succ]; simp
      by_cases hk : key / 2 ^ (j + 1) % 2 = 1
      · rw [if_pos ((and_pow_ne_zero key (j + 1)).mpr hk),
          if_pos ((and_pow_ne_zero key' (j + 1)).mpr (h0 ▸ hk)), hshift]
        exact ih f (fun i hi => h i (by omega))
      · rw [if_neg (by rw [and_pow_ne_zero]; exact hk), if_neg (by rw [and_pow_ne_zero, ← h0]; exact hk)]

theorem div_pow_mod_two_add (n k i : Nat) (hk : k < 2 ^ n) (hi : i < n) :
    (2 ^ n + k) / 2 ^ i % 2 = k / 2 ^ i % 2 := by
  have hn : 2 ^ n = 2 ^ i * 2 ^ (n - i) := by rw [← Nat.pow_add]; congr 1; omega
  have hp : 0 < 2 ^ i := Nat.pow_pos (by decide)
  rw [hn, Nat.mul_add_div hp]
  have he : 2 ^ (n - i) = 2 * 2 ^ (n - i - 1) := by
    have : n - i = (n - i - 1) + 1 := by omega
    rw [this, Nat.pow_succ]; simp; omega
  rw [he, Nat.mul_add_mod]

/-- **`getNextKey` on a reversed code word is the reversal of the next code word** -/
theorem getNextKey_rev (l c : Nat) (hl : 1 ≤ l) (hc : c + 1 < 2 ^ l) :
    getNextKey (rev l c) l = rev l (c + 1) := by
  induction l generalizing c with
  | zero => omega
  | succ n ih =>
    have hpn : 0 < 2 ^ n := Nat.pow_pos (by decide)
    have hk' : rev n (c / 2) < 2 ^ n := rev_lt n (c / 2)
    unfold getNextKey
    simp only [Nat.add_sub_cancel, Nat.one_shiftLeft]
    rcases Nat.mod_two_eq_zero_or_one c with h0 | h1
    · -- top stream bit is 0: set it
      have hkey : rev (n + 1) c = rev n (c / 2) := by rw [rev, h0]; simp
      have hbit : ¬ (rev (n + 1) c &&& 2 ^ n ≠ 0) := by
        rw [and_pow_ne_zero, hkey, Nat.div_eq_of_lt hk']; simp
      have hstep : nextKeyStep (rev (n + 1) c) (n + 1) (2 ^ n) = 2 ^ n := by
        simp only [nextKeyStep]; rw [if_neg hbit]
      rw [hstep]
      have hne : 2 ^ n ≠ 0 := by omega
      rw [if_pos hne, Nat.and_two_pow_sub_one_eq_mod, hkey, Nat.mod_eq_of_lt hk']
      rw [rev]
      have e1 : (c + 1) % 2 = 1 := by omega
      have e2 : (c + 1) / 2 = c / 2 := by omega
      rw [e1, e2]; omega
    · -- top stream bit is 1: clear it and carry on below
      have hn1 : 1 ≤ n := by
        rcases Nat.eq_zero_or_pos n with hz | hz
        · subst hz; simp at hc; omega
        · exact hz
      have hkey : rev (n + 1) c = 2 ^ n + rev n (c / 2) := by rw [rev, h1]; simp
      have hc2 : c / 2 + 1 < 2 ^ n := by rw [Nat.pow_succ] at hc; omega
      have hbit : rev (n + 1) c &&& 2 ^ n ≠ 0 := by
        rw [and_pow_ne_zero, hkey, Nat.add_div_left _ hpn, Nat.div_eq_of_lt hk']
      have hshift : 2 ^ n >>> 1 = 2 ^ (n - 1) := by
        rw [Nat.shiftRight_eq_div_pow]
        have : n = (n - 1) + 1 := by omega
        conv => lhs; rw [this, Nat.pow_succ]
        simp
      have hstep : nextKeyStep (rev (n + 1) c) (n + 1) (2 ^ n)
          = nextKeyStep (rev n (c / 2)) n (2 ^ (n - 1)) := by
        simp only [nextKeyStep]
        rw [if_pos hbit, hshift, hkey]
        apply nextKeyStep_congr
        intro i hi
        exact div_pow_mod_two_add n _ i hk' (by omega)
      rw [hstep]
      have hih := ih (c / 2) hn1 hc2
      unfold getNextKey at hih
      simp only [Nat.one_shiftLeft] at hih
      have hgoal : rev (n + 1) (c + 1) = rev n (c / 2 + 1) := by
        rw [rev]
        have e1 : (c + 1) % 2 = 0 := by omega
        have e2 : (c + 1) / 2 = c / 2 + 1 := by omega
        rw [e1, e2]; simp
      rw [hgoal]
      obtain ⟨step, hs, hcase⟩ := nextKeyStep_spec (rev n (c / 2)) n (n - 1) (by omega)
      rw [hs] at hih ⊢
      rcases hcase with ⟨h0, _⟩ | ⟨p, hp, hsp, _, _⟩
      · -- impossible: the code word would be all ones
        subst h0
        simp only [ne_eq, not_true_eq_false, if_false] at hih
        have := rev_inj n (c / 2) (c / 2 + 1) (by omega) hc2 hih
        omega
      · subst hsp
        have hne : 2 ^ p ≠ 0 := by have := Nat.pow_pos (n := p) (by decide : 0 < 2); omega
        rw [if_pos hne] at hih ⊢
        rw [← hih, Nat.and_two_pow_sub_one_eq_mod, Nat.and_two_pow_sub_one_eq_mod, hkey]
        have hn : 2 ^ n = 2 ^ p * 2 ^ (n - p) := by rw [← Nat.pow_add]; congr 1; omega
        rw [hn, Nat.mul_add_mod]

end Webp.Proofs.VP8LEntropyRev
