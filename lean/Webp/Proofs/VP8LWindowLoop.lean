import Webp.Proofs.VP8LWindowFast
import Webp.Proofs.VP8LEntropyLoop
/-
  The WINDOW BUDGET of the VP8L pixel loop, part 4: the pixel loop over the REAL window reader
  (`goSource`: `readTokenGo`, refills included) against the specification's `decodePixels`.
-/
namespace Webp.Proofs.VP8LWindow
open Webp.Go (Res)
open Webp.Spec.VP8L (BitReader Err Token Code Group EntropyParams)
open Webp.Impl.VP8LEntropy
open Webp.Impl.VP8LWindow
open Webp.Impl.VP8LFastPaths (HTreeGroup)
open Webp.Proofs.VP8LEntropyReader

/-- two results agree up to a relation on the final states -/
def SimRes {σ τ α : Type} (R : σ → τ → Prop) (x : Res Err (α × σ)) (y : Res Err (α × τ)) : Prop :=
  match y with
  | .ok (t, b) => ∃ a, x = .ok (t, a) ∧ R a b
  | .err e => x = .err e
  | .panic => x = .panic
  | .hang => x = .hang

/-- token sources that agree step by step give the same pixel loop -/
theorem pixelLoop_sim {σ τ : Type} (A : TokenSource σ) (B : TokenSource τ) (R : σ → τ → Prop)
    (p : LoopParams) (hstep : ∀ gi a b, R a b → SimRes R (A.next gi a) (B.next gi b)) :
    ∀ (fuel : Nat) (s : LoopSt) (a : σ) (b : τ), R a b →
      SimRes R (pixelLoop A p fuel s a) (pixelLoop B p fuel s b) := by
  intro fuel
  induction fuel with
  | zero => intro s a b _; rfl
  | succ fuel ih =>
    intro s a b hab
    unfold pixelLoop
    by_cases hpos : s.pos < p.width * p.height
    · rw [if_pos hpos, if_pos hpos]
      dsimp only
      generalize (if colMaskZero p s.col = true then
        { s with group := (getHTreeGroup p s.col s.row).getD 0 } else s) = s1
      have h := hstep s1.group a b hab
      cases hB : B.next s1.group b with
      | ok x =>
        obtain ⟨t, b'⟩ := x
        rw [hB] at h
        obtain ⟨a', ha', hR'⟩ := h
        rw [ha']
        dsimp only
        cases stepToken p t s1 with
        | ok s2 => exact ih s2 a' b' hR'
        | err e => rfl
        | panic => rfl
        | hang => rfl
      | err e => rw [hB] at h; rw [show A.next s1.group a = .err e from h]; rfl
      | panic => rw [hB] at h; rw [show A.next s1.group a = .panic from h]; rfl
      | hang => rw [hB] at h; rw [show A.next s1.group a = .hang from h]; rfl
    · rw [if_neg hpos, if_neg hpos]
      exact ⟨a, rfl, hab⟩

theorem decodePixelLoop_sim {σ τ : Type} (A : TokenSource σ) (B : TokenSource τ) (R : σ → τ → Prop)
    (p : LoopParams) (hstep : ∀ gi a b, R a b → SimRes R (A.next gi a) (B.next gi b))
    (a : σ) (b : τ) (hab : R a b) :
    SimRes R (decodePixelLoop A p a) (decodePixelLoop B p b) := by
  unfold decodePixelLoop
  dsimp only
  split
  · rfl
  · have h := pixelLoop_sim A B R p hstep (p.width * p.height + 1)
      { data := Array.replicate (p.width * p.height) 0, cache := Webp.Spec.VP8L.cacheNew p.cacheBits,
        group := (getHTreeGroup p 0 0).getD 0 } a b hab
    cases hB : pixelLoop B p (p.width * p.height + 1)
      { data := Array.replicate (p.width * p.height) 0, cache := Webp.Spec.VP8L.cacheNew p.cacheBits,
        group := (getHTreeGroup p 0 0).getD 0 } b with
    | ok x =>
      obtain ⟨s', b'⟩ := x
      rw [hB] at h
      obtain ⟨a', ha', hR'⟩ := h
      rw [ha']
      exact ⟨a', rfl, hR'⟩
    | err e => rw [hB] at h; rw [show pixelLoop A p _ _ a = .err e from h]; rfl
    | panic => rw [hB] at h; rw [show pixelLoop A p _ _ a = .panic from h]; rfl
    | hang => rw [hB] at h; rw [show pixelLoop A p _ _ a = .hang from h]; rfl

/-- the window reader `r` stands at the specification reader `br` -/
def AtBit (buf : Array UInt8) (r : Reader) (br : BitReader) : Prop := ∃ P, br = brAt buf P ∧ Good buf r P 64

theorem simRes_of_agree {buf : Array UInt8} {go : Res Err (Token × Reader)} {sp : Res Err (Token × BitReader)}
    (h : Agree buf go sp) : SimRes (AtBit buf) go sp := by
  rcases h with ⟨t, r', P', h1, h2, h3⟩ | ⟨h1, h2⟩
  · rw [h1, h2]; exact ⟨r', rfl, P', rfl, h3⟩
  · rw [h1, h2]; rfl

/-- group `g` of the Go decoder stands for the codes `G` of the specification: either its five
    tables were built from `G`'s length vectors and no fast-path flag is set (`general`), or it is
    exactly what `readHuffmanCodes` builds — tables, `IsTrivialLiteral` / `IsTrivialCode` /
    `UsePackedTable`, `LiteralARB`, packed table (`built`: `mkGroup`) -/
inductive GroupFor (G : Group) (g : HTreeGroup) : Prop where
  | general (ok : GroupOK G g)
      (flags : g.isTrivialCode = false ∧ g.usePackedTable = false ∧ g.isTrivialLiteral = false)
  | built (t : Webp.Impl.VP8LFastPaths.Tables5) (m : Webp.Impl.VP8LFastPaths.MaxLens5) (Ng : Nat)
      (b : Built G t m Ng) (eq : g = Webp.Impl.VP8LFastPaths.mkGroup t m)

theorem readTokenAt_agree_for {G : Group} {g : HTreeGroup} (h : GroupFor G g) {fs : FillSites}
    (hS : Sufficient fs) {buf : Array UInt8} {r : Reader} {P : Nat} (hg : Good buf r P 64)
    {xsize : Nat} (hx : xsize ≤ 153391689) :
    Agree buf (readTokenAt goOps fs g xsize r) (Webp.Spec.VP8L.readToken G xsize (brAt buf P)) := by
  cases h with
  | general ok flags => exact readTokenAt_agree ok hS flags hg hx
  | built t m Ng b eq => subst eq; exact readTokenAt_agree_built b hS hg hx

/-- the groups of the Go decoder stand for the groups of the specification -/
structure GroupsOK (ep : EntropyParams) (gs : Array HTreeGroup) : Prop where
  size : gs.size = ep.groups.size
  ok : ∀ i (h1 : i < gs.size) (h2 : i < ep.groups.size), GroupFor ep.groups[i] gs[i]

theorem goSource_step {ep : EntropyParams} {gs : Array HTreeGroup} (hgs : GroupsOK ep gs)
    (hx : ep.width ≤ 153391689) (buf : Array UInt8) (gi : Nat) (r : Reader) (br : BitReader)
    (hab : AtBit buf r br) :
    SimRes (AtBit buf) ((goSource gs ep.width).next gi r) ((specSource ep).next gi br) := by
  obtain ⟨P, rfl, hg⟩ := hab
  unfold goSource specSource
  dsimp only
  by_cases h : gi < gs.size
  · have h' : gi < ep.groups.size := by rw [← hgs.size]; exact h
    rw [dif_pos h, dif_pos h']
    exact simRes_of_agree (readTokenAt_agree_for (hgs.ok gi h h') (by decide) hg hx)
  · have h' : ¬ gi < ep.groups.size := by rw [← hgs.size]; exact h
    rw [dif_neg h, dif_neg h']
    rfl

theorem exists_ok_of_isOk {ε α : Type} {r : Res ε α} (h : r.isOk = true) : ∃ a, r = .ok a := by
  cases r with
  | ok a => exact ⟨a, rfl⟩
  | err e => cases h
  | panic => cases h
  | hang => cases h

/-- `GroupOK` from the five length vectors `readHuffmanCodes` read: the specification accepts them
    (`buildCode`), the Go decoder built its tables from them (`BuildHuffmanTable(8, ·)`), and the
    alphabets have the sizes the format prescribes (256 for red / blue / alpha, 40 for distance; the
    green alphabet is `256 + 24 + cache size`, any size here) -/
theorem groupOK_of_build {G : Group} {g : HTreeGroup} {lg lr lb la ld : Array Nat}
    (hr : lr.size ≤ 256) (hb : lb.size ≤ 256) (ha : la.size ≤ 256) (hd : ld.size ≤ 40)
    (cg : Webp.Spec.VP8L.buildCode lg = .ok G.green) (tg : buildTable 8 lg = .ok g.green)
    (cr : Webp.Spec.VP8L.buildCode lr = .ok G.red) (tr : buildTable 8 lr = .ok g.red)
    (cb : Webp.Spec.VP8L.buildCode lb = .ok G.blue) (tb : buildTable 8 lb = .ok g.blue)
    (ca : Webp.Spec.VP8L.buildCode la = .ok G.alpha) (ta : buildTable 8 la = .ok g.alpha)
    (cd : Webp.Spec.VP8L.buildCode ld = .ok G.dist) (td : buildTable 8 ld = .ok g.dist) :
    GroupOK G g :=
  ⟨⟨_, tabFor_of_build cg tg⟩, (tabFor_of_build cr tr).mono hr, (tabFor_of_build cb tb).mono hb,
   (tabFor_of_build ca ta).mono ha, (tabFor_of_build cd td).mono hd⟩

theorem tspec_mono {t : Table} {M N N' : Nat} (h : Webp.Proofs.VP8LFastPaths.TSpec t M N) (hN : N ≤ N') :
    Webp.Proofs.VP8LFastPaths.TSpec t M N' :=
  ⟨fun w => by obtain ⟨s, l, a, b, c⟩ := h.look w; exact ⟨s, l, by omega, b, c⟩, h.dich⟩

/-- `Built` from the five length vectors `readHuffmanCodes` read (alphabet sizes: any `≤ 2^32` for
    green — the format has `256 + 24 + cache size` —, `≤ 256` for red / blue / alpha, `≤ 40` for
    distance); the group the Go decoder then holds is
    `mkGroup ⟨tg, tr, tb, ta, td⟩ ⟨maxLenOf lg, maxLenOf lr, maxLenOf lb, maxLenOf la, maxLenOf ld⟩` -/
theorem built_of_lens {G : Group} {lg lr lb la ld : Array Nat} {tg tr tb ta td : Table}
    (hg : lg.size ≤ 2 ^ 32) (hr : lr.size ≤ 256) (hb : lb.size ≤ 256) (ha : la.size ≤ 256) (hd : ld.size ≤ 40)
    (cg : Webp.Spec.VP8L.buildCode lg = .ok G.green) (tg' : buildTable 8 lg = .ok tg)
    (cr : Webp.Spec.VP8L.buildCode lr = .ok G.red) (tr' : buildTable 8 lr = .ok tr)
    (cb : Webp.Spec.VP8L.buildCode lb = .ok G.blue) (tb' : buildTable 8 lb = .ok tb)
    (ca : Webp.Spec.VP8L.buildCode la = .ok G.alpha) (ta' : buildTable 8 la = .ok ta)
    (cd : Webp.Spec.VP8L.buildCode ld = .ok G.dist) (td' : buildTable 8 ld = .ok td) :
    Built G ⟨tg, tr, tb, ta, td⟩
      ⟨Webp.Impl.VP8LFastPaths.maxLenOf lg, Webp.Impl.VP8LFastPaths.maxLenOf lr, Webp.Impl.VP8LFastPaths.maxLenOf lb,
       Webp.Impl.VP8LFastPaths.maxLenOf la, Webp.Impl.VP8LFastPaths.maxLenOf ld⟩ lg.size :=
  { green := tabFor_of_build cg tg', red := (tabFor_of_build cr tr').mono hr, blue := (tabFor_of_build cb tb').mono hb,
    alpha := (tabFor_of_build ca ta').mono ha, dist := (tabFor_of_build cd td').mono hd,
    sgreen := Webp.Proofs.VP8LFastPaths.tspec_of_buildCode cg tg',
    sred := tspec_mono (Webp.Proofs.VP8LFastPaths.tspec_of_buildCode cr tr') hr,
    sblue := tspec_mono (Webp.Proofs.VP8LFastPaths.tspec_of_buildCode cb tb') hb,
    salpha := tspec_mono (Webp.Proofs.VP8LFastPaths.tspec_of_buildCode ca ta') ha,
    hNg := hg }

/-- **the pixel loop over the real window reader = the specification's `decodePixels`** -/
theorem decodePixelLoop_window {ep : EntropyParams} {gs : Array HTreeGroup} (hgs : GroupsOK ep gs)
    (hidx : ∀ e ∈ ep.entropy, e < ep.groups.size) (hx : ep.width ≤ 153391689)
    {buf : Array UInt8} {r : Reader} {P : Nat} (hg : Good buf r P 64) :
    SimRes (AtBit buf) (decodePixelLoop (goSource gs ep.width) (LoopParams.ofSpec ep) r)
      (Webp.Spec.VP8L.decodePixels ep (brAt buf P)) := by
  rw [← Webp.Proofs.VP8LEntropyLoop.decodePixelLoop_eq_spec' ep (brAt buf P) hidx]
  exact decodePixelLoop_sim _ _ _ _ (fun gi a b hab => goSource_step hgs hx buf gi a b hab) r (brAt buf P)
    ⟨P, rfl, hg⟩

end Webp.Proofs.VP8LWindow
