import Webp.Proofs.C04RefineHeader
import Webp.Proofs.C04RefineRecon
import Webp.Proofs.C04RefineFilter
/-
  C04 refinement, header transport, part 2: the whole frame header.
-/
namespace Webp.Proofs.C04RefineHeader
open Webp.Go (Bytes)
open Webp.Impl.BoolCoder
open Webp.Spec.VP8
open Webp.Proofs.C04RefineBool Webp.Proofs.C04RefineOps Webp.Proofs.C04RefineSyntax Webp.Proofs.C04RefineTokens
open Webp.Impl.VP8SyntaxBytes (P runR rd)
open Webp.Impl.VP8Recon (Slot)
open Webp.Impl.VP8HeaderBytes (SegHdr DecHeader updDef)

theorem tup_fst (P : Array Nat) (d : BoolDec) (X : Array Nat × BoolDec × Nat)
    (h : parseCoeffProbs P d = (X.1, X.2.2, X.2.1)) : (parseCoeffProbs P d).1 = X.1 := by rw [h]

theorem tup_dec (P : Array Nat) (d : BoolDec) (X : Array Nat × BoolDec × Nat)
    (h : parseCoeffProbs P d = (X.1, X.2.2, X.2.1)) : (parseCoeffProbs P d).2.2 = X.2.1 := by rw [h]

theorem parseCoeffProbs_fst (P : Array Nat) (d : BoolDec) :
    (parseCoeffProbs P d).1 = (idxs.foldl (fun s i => probaStep i s) (P, d, 0)).1 :=
  tup_fst P d _ (parseCoeffProbs_idxs P d)

theorem parseCoeffProbs_dec (P : Array Nat) (d : BoolDec) :
    (parseCoeffProbs P d).2.2 = (idxs.foldl (fun s i => probaStep i s) (P, d, 0)).2.1 :=
  tup_dec P d _ (parseCoeffProbs_idxs P d)

theorem header_core (prob : Slot → UInt8) (hfix : FixedOK prob) (prev : DecHeader) (hz : PrevZero prev) (d : BoolDec)
    (D1 : BoolDec) (S : SegmentHdr × BoolDec) (F : FilterHdr × BoolDec) (L : Nat × BoolDec) (Q : QuantHdr × BoolDec)
    (R : Bool × BoolDec) (C : Array Nat × Nat × BoolDec) (K : Bool × BoolDec)
    (hD1 : D1 = ((d.readBool 128).2.readBool 128).2) (hS : S = parseSegmentHdr D1) (hF : F = parseFilterHdr S.2)
    (hL : L = BoolDec.readLiteral 2 F.2) (hQ : Q = parseQuantHdr L.2) (hR : R = Q.2.readBool 128)
    (hC : C = parseCoeffProbs Tables.defaultCoeffProbs R.2) (hK : K = C.2.2.readBool 128) :
    ∃ g, runD prob (Webp.Impl.VP8HeaderBytes.T.parseHeader prev) d =
        some (g, (if K.1 then BoolDec.readLiteral 8 K.2 else (0, K.2)).2) ∧
      SegRel g.seg S.1 ∧ FiltHdrRel g.filt F.1 ∧ g.numPartsMinusOne + 1 = 1 <<< L.1 ∧
      g.baseQ0 = Q.1.yacQi ∧ g.dqY1DC = Q.1.ydcDelta ∧ g.dqY2DC = Q.1.y2dcDelta ∧ g.dqY2AC = Q.1.y2acDelta ∧
      g.dqUVDC = Q.1.uvdcDelta ∧ g.dqUVAC = Q.1.uvacDelta ∧
      g.coef.length = 1056 ∧ (∀ i, i < 1056 → (g.coef.getD i 0).toNat = C.1.getD i 128) ∧
      g.useSkipProba = K.1 ∧
      (K.1 = true → g.skipP.toNat = (if K.1 then BoolDec.readLiteral 8 K.2 else (0, K.2)).1) := by
  obtain ⟨gs, hgs, rs⟩ := seg_runD prob hfix prev.seg hz.seg D1
  rw [← hS] at hgs rs
  obtain ⟨gf, hgf, rf⟩ := filt_runD prob hfix prev.filt hz.filt S.2
  rw [← hF] at hgf rf
  have hproba := runD_probaLoop prob hfix idxs idxs_mem R.2
  rw [← updDef_eq] at hproba
  obtain ⟨pf1, pf3⟩ := proba_fold_idxs R.2
  have hC1 : C.1 = (idxs.foldl (fun s i => probaStep i s) (Tables.defaultCoeffProbs, R.2, 0)).1 := by
    rw [hC]; exact parseCoeffProbs_fst _ _
  have hC2 : C.2.2 = (probaL Tables.defaultCoeffProbs idxs R.2).2 := by
    rw [hC, parseCoeffProbs_dec]; exact pf1
  unfold Webp.Impl.VP8HeaderBytes.T.parseHeader
  rw [runD_flag_bind prob hfix, runD_flag_bind prob hfix, ← hD1, runD_bind_of prob hgs]
  simp only []
  rw [runD_bind_of prob hgf]
  simp only []
  rw [runD_getValue_bind prob hfix 2 (by omega), ← hL, runD_getValue_bind prob hfix 7 (by omega),
    runD_readOptionalSigned_bind prob hfix 4 (by omega), runD_readOptionalSigned_bind prob hfix 4 (by omega),
    runD_readOptionalSigned_bind prob hfix 4 (by omega), runD_readOptionalSigned_bind prob hfix 4 (by omega),
    runD_readOptionalSigned_bind prob hfix 4 (by omega), runD_flag_bind prob hfix]
  have hQ2 : (BoolDec.readOptSigned 4 (BoolDec.readOptSigned 4 (BoolDec.readOptSigned 4 (BoolDec.readOptSigned 4
            (BoolDec.readOptSigned 4 (BoolDec.readLiteral 7 L.2).2).2).2).2).2).2 = Q.2 := by
    rw [hQ]; exact (parseQuantHdr_eq L.2).2.2.2.2.2.2.symm
  rw [hQ2, ← hR, runD_bind_of prob hproba]
  simp only []
  rw [← hC2, runD_flag_bind prob hfix, ← hK]
  have hlen : (List.map UInt8.ofNat (probaL Tables.defaultCoeffProbs idxs R.2).1).length = 1056 := by
    rw [List.length_map, probaL_length, idxs_len]
  have hcoef : ∀ i, i < 1056 →
      ((List.map UInt8.ofNat (probaL Tables.defaultCoeffProbs idxs R.2).1).getD i 0).toNat = C.1.getD i 128 := by
    intro i hi
    rw [hC1, pf3 i hi]
    have hl : (probaL Tables.defaultCoeffProbs idxs R.2).1.length = 1056 := by
      rw [probaL_length, idxs_len]
    rw [List.getD_eq_getElem?_getD, List.getD_eq_getElem?_getD, List.getElem?_map,
      List.getElem?_eq_getElem (by rw [hl]; exact hi)]
    show (UInt8.ofNat _).toNat = _
    apply ofNat_toNat_lt
    exact probaL_lt _ (fun j => list_all_getD _ 255 128 (by omega) def_all j) _ _ _ (List.getElem_mem _)
  obtain ⟨q1, q2, q3, q4, q5, q6, _⟩ := parseQuantHdr_eq L.2
  rw [← hQ] at q1 q2 q3 q4 q5 q6
  by_cases hk : K.1 = true
  · simp only [hk, if_true]
    rw [runD_byte8_bind prob hfix, runD_pure]
    refine ⟨_, rfl, rs, rf, pow_shift _, q1.symm, q2.symm, q3.symm, q4.symm, q5.symm, q6.symm, hlen, hcoef, rfl, ?_⟩
    · intro _
      show (UInt8.ofNat _).toNat = _
      apply ofNat_toNat_lt
      have := readLiteral_lt 8 K.2
      have h8 : (2 : Nat) ^ 8 = 256 := by norm_num
      rw [h8] at this; exact this
  · have hk' : K.1 = false := by simpa using hk
    simp only [hk', if_false, Bool.false_eq_true]
    rw [pure_bind', runD_pure]
    refine ⟨_, rfl, rs, rf, pow_shift _, q1.symm, q2.symm, q3.symm, q4.symm, q5.symm, q6.symm, hlen, hcoef, rfl, ?_⟩
    · intro h; cases h

/-! ### the stages of `parseFrameHdr` -/

def stD1 (d : BoolDec) : BoolDec := (BoolDec.readLiteral 1 (BoolDec.readLiteral 1 d).2).2
def stS (d : BoolDec) := parseSegmentHdr (stD1 d)
def stF (d : BoolDec) := parseFilterHdr (stS d).2
def stL (d : BoolDec) := BoolDec.readLiteral 2 (stF d).2
def stQ (d : BoolDec) := parseQuantHdr (stL d).2
def stR (d : BoolDec) := (stQ d).2.readBool 128
def stC (d : BoolDec) := parseCoeffProbs Tables.defaultCoeffProbs (stR d).2
def stK (d : BoolDec) := (stC d).2.2.readBool 128
def stSP (d : BoolDec) : Nat × BoolDec := if (stK d).1 then BoolDec.readLiteral 8 (stK d).2 else (0, (stK d).2)

theorem stD1_eq (d : BoolDec) : stD1 d = ((d.readBool 128).2.readBool 128).2 := rfl

theorem parseFrameHdr_fields (h0 : FrameHdr) (d : BoolDec) :
    (parseFrameHdr h0 d).2 = (stSP d).2 ∧ (parseFrameHdr h0 d).1.seg = (stS d).1 ∧
    (parseFrameHdr h0 d).1.filter = (stF d).1 ∧ (parseFrameHdr h0 d).1.numParts = 1 <<< (stL d).1 ∧
    (parseFrameHdr h0 d).1.quant = (stQ d).1 ∧ (parseFrameHdr h0 d).1.coeffProbs = (stC d).1 ∧
    (parseFrameHdr h0 d).1.skipEnabled = (stK d).1 ∧ (parseFrameHdr h0 d).1.probSkipFalse = (stSP d).1 := by
  unfold parseFrameHdr stSP stK stC stR stQ stL stF stS stD1
  simp only [BoolDec.readFlag]
  refine ⟨?_, ?_, ?_, ?_, ?_, ?_, ?_, ?_⟩ <;> trivial

/-- **`header_eq_spec`.**  On the reference decoder, `parseHeaders` (from the first boolean of the first
    partition to the end of `parseProba` and the skip probability) leaves the decoder where the RFC's
    frame-header parse leaves it, and the Go header state carries the RFC header's values. -/
theorem header_runD (prob : Slot → UInt8) (hfix : FixedOK prob) (prev : DecHeader) (hz : PrevZero prev)
    (h0 : FrameHdr) (d : BoolDec) :
    ∃ g, runD prob (Webp.Impl.VP8HeaderBytes.T.parseHeader prev) d = some (g, (parseFrameHdr h0 d).2) ∧
      HdrRel g (parseFrameHdr h0 d).1 := by
  obtain ⟨f1, f2, f3, f4, f5, f6, f7, f8⟩ := parseFrameHdr_fields h0 d
  obtain ⟨g, hg, rs, rf, hp, q1, q2, q3, q4, q5, q6, hl, hc, hk, hsp⟩ :=
    header_core prob hfix prev hz d (stD1 d) (stS d) (stF d) (stL d) (stQ d) (stR d) (stC d) (stK d)
      (stD1_eq d) rfl rfl rfl rfl rfl rfl rfl
  refine ⟨g, ?_, ?_⟩
  · rw [hg, f1]; rfl
  · refine ⟨?_, ?_, ?_, ?_, ?_, ?_, ?_, ?_, ?_, hl, ?_, ?_, ?_⟩
    · rw [f2]; exact rs
    · rw [f3]; exact rf
    · rw [f4]; exact hp
    · rw [f5]; exact q1
    · rw [f5]; exact q2
    · rw [f5]; exact q3
    · rw [f5]; exact q4
    · rw [f5]; exact q5
    · rw [f5]; exact q6
    · rw [f6]; exact hc
    · rw [f7]; exact hk
    · rw [f7, f8]; exact hsp

/-! ### the hypotheses of the later layers, from the parsed header -/

theorem fixedOK_of_tables (coef : List UInt8) (um : Bool) (sp : Fin 3 → UInt8) (us : Bool) (p : UInt8) :
    FixedOK (Webp.Impl.VP8HeaderBytes.probOfTables coef um sp us p) := by
  intro q hq
  show (UInt8.ofNat q).toNat = q
  exact ofNat_toNat_lt (by omega)

theorem bands_le : ∀ i : Fin 16, Tables.coeffBands.getD i.val 0 ≤ 7 := by decide

/-- the coefficient probabilities the Go decoder uses are the RFC's, for the four block types -/
theorem coefOK_of_hdr (g : DecHeader) (h : FrameHdr) (hr : HdrRel g h) (t : Nat) (ht : t ≤ 3) :
    CoefOK g.prob h.coeffProbs t := by
  intro i ctx k hi hc hk
  have hb := bands_le ⟨i, hi⟩
  have hidx : ((t * 8 + Tables.coeffBands.getD i 0) * 3 + ctx) * 11 + k < 1056 := by
    have h1 : t * 8 + Tables.coeffBands.getD i 0 ≤ 31 := by simp only at hb; omega
    have h2 : (t * 8 + Tables.coeffBands.getD i 0) * 3 + ctx ≤ 95 := by omega
    omega
  exact hr.coef _ hidx

theorem quantRel_of_hdr (g : DecHeader) (h : FrameHdr) (hr : HdrRel g h) :
    Webp.Proofs.C04RefineRecon.QuantRel g.qidx h :=
  ⟨hr.seg.use, hr.seg.abs, hr.seg.quant, by show (g.baseQ0 : Int) = _; rw [hr.baseQ], hr.d1, hr.d2, hr.d3, hr.d4, hr.d5⟩

/-- the Go decoder's loop-filter inputs after `parseHeaders` -/
def filtSeg (g : DecHeader) : Webp.Impl.VP8DecFilter.SegHdr :=
  { useSegment := g.seg.useSegment, absoluteDelta := g.seg.absoluteDelta
    filterStrength := fun s => if hs : s < 4 then g.seg.filterStrength ⟨s, hs⟩ else 0 }

def filtHdr (g : DecHeader) : Webp.Impl.VP8DecFilter.FilterHdr :=
  { level := g.filt.level, sharpness := g.filt.sharpness, useLFDelta := g.filt.useLFDelta
    refLFDelta0 := g.filt.refLFDelta 0, modeLFDelta0 := g.filt.modeLFDelta 0 }

/-- the loop-filter inputs of `precomputeFilterStrengths` are the RFC header's (`hsz`: the RFC header
    holds four segment levels, as `parseSegmentHdr` produces) -/
theorem filtRel_of_hdr (g : DecHeader) (h : FrameHdr) (hr : HdrRel g h) (hsz : h.seg.lfLevel.size ≤ 4) :
    Webp.Proofs.C04RefineFilter.FiltRel (filtSeg g) (filtHdr g) h := by
  refine ⟨?_, hr.filt.level63, ?_, hr.filt.sharp7, hr.filt.delta, hr.filt.ref 0, hr.filt.mode 0, hr.seg.use, hr.seg.abs, ?_⟩
  · show (g.filt.level : Int) = _; rw [hr.filt.level]
  · show (g.filt.sharpness : Int) = _; rw [hr.filt.sharp]
  · intro s
    show (if hs : s < 4 then g.seg.filterStrength ⟨s, hs⟩ else 0) = _
    by_cases hs : s < 4
    · rw [dif_pos hs]; exact hr.seg.lf ⟨s, hs⟩
    · rw [dif_neg hs, Array.getD_eq_getD_getElem?, Array.getElem?_eq_none (by omega)]; rfl

/-- **Go reader level.**  From states in step at the start of the first partition, the Go `parseHeaders`
    tree on the Go reader returns a header state that carries the RFC header's values, and leaves the
    reader in step with the reference decoder positioned at the first macroblock header. -/
theorem header_go (prob : Slot → UInt8) (hfix : FixedOK prob) (prev : DecHeader) (hz : PrevZero prev)
    (h0 : FrameHdr) {F : Bytes} {r : BoolReader} {d : BoolDec} (hs : Sim F r d)
    (hfree : TreeFree prob (Webp.Impl.VP8HeaderBytes.T.parseHeader prev) r) :
    ∃ g r', runR prob (Webp.Impl.VP8HeaderBytes.T.parseHeader prev) r = some (g, r') ∧
      HdrRel g (parseFrameHdr h0 d).1 ∧ Sim F r' (parseFrameHdr h0 d).2 := by
  obtain ⟨g, hg, hrel⟩ := header_runD prob hfix prev hz h0 d
  have ht := tree_transfer prob _ hs hfree
  rw [hg] at ht
  cases hrr : runR prob (Webp.Impl.VP8HeaderBytes.T.parseHeader prev) r with
  | none => rw [hrr] at ht; exact absurd ht (by simp [TRel])
  | some x =>
    obtain ⟨a, r'⟩ := x
    rw [hrr] at ht
    obtain ⟨ha, hs'⟩ := ht
    exact ⟨a, r', rfl, by rw [ha]; exact hrel, hs'⟩

end Webp.Proofs.C04RefineHeader
