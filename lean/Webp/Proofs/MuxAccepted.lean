import Webp.Proofs.MuxChunk
/-
  `Accepted` — the explicit, decidable precondition of the C14 round-trip theorem — and the facts
  it yields about frame bitstream headers.  See the docstring of `Webp.Props.C14.mux_demux` for why
  each conjunct is there and what the Go code does outside it.
-/
namespace Webp.Proofs.MuxAccepted
open Webp.Go Webp.Impl Webp.Impl.Mux Webp.Proofs.MuxBytes Webp.Proofs.MuxChunk
open Webp.Impl.Demux (splitAlphaAndBitstream frameDimensions)
open Webp.Impl.Parser (ccVP8 ccVP8L ccALPH maxMetadataSize)

/-- VP8 key frame whose header every reader accepts: ≥ 10 bytes, key-frame bit clear,
    start code 9d 01 2a, non-zero 14-bit width and height -/
def vp8OK (bs : Bytes) : Bool := (Parser.parseVP8Header bs).isOk
/-- VP8L bitstream whose header every reader accepts: ≥ 5 bytes, signature 2f, version 0 -/
def vp8lOK (bs : Bytes) : Bool := (Parser.parseVP8LHeader bs).isOk

/-- frame data the property talks about: a bare VP8 or VP8L bitstream, or an `ALPH` chunk followed by
    a VP8 bitstream -/
def frameOK (data : Bytes) : Bool :=
  if (splitAlphaAndBitstream data).1.isSome then vp8OK (splitAlphaAndBitstream data).2
  else vp8OK (splitAlphaAndBitstream data).2 || vp8lOK (splitAlphaAndBitstream data).2

def optLen : Option Bytes → Nat
  | some d => padLen d.length
  | none => 0

/-- bytes one frame occupies in an extended file (no truncation) -/
def frameLen (animated : Bool) (data : Bytes) : Nat :=
  (if animated then 24 else 0) + optLen (splitAlphaAndBitstream data).1 +
    padLen (splitAlphaAndBitstream data).2.length

/-- the RIFF size field the file needs, computed without any 32-bit truncation -/
def exactRiffSize (s : MuxState) : Nat :=
  if needsVP8X s then
    4 + 18 + optLen s.iccData + (if isAnimated s then 14 else 0) +
      (s.frames.map fun f => frameLen (isAnimated s) f.data).sum + optLen s.exifData + optLen s.xmpData
  else match s.frames with
    | f :: _ => 4 + padLen f.data.length
    | [] => 0

/-- frame data whose bitstream (after an optional ALPH chunk) has a header every reader accepts -/
def bitstreamOK (data : Bytes) : Bool :=
  vp8OK (splitAlphaAndBitstream data).2 || vp8lOK (splitAlphaAndBitstream data).2

def accepted (s : MuxState) : Bool :=
  decide (validate s = .ok ()) && s.frames.all (fun f => bitstreamOK f.data)

/-- the extended file's RIFF size fits the readers' limit 2^32 − 10 (`assembleExtended` returns an error
    otherwise; a simple file always fits once `validate` has passed) -/
def Fits (s : MuxState) : Prop := needsVP8X s = true → exactRiffSize s ≤ 4294967286

instance (s : MuxState) : Decidable (Fits s) := by unfold Fits; infer_instance

/-- see `Webp.Props.C14.mux_demux` -/
def Accepted (s : MuxState) : Prop := accepted s = true

instance (s : MuxState) : Decidable (Accepted s) := by unfold Accepted; infer_instance

/-- what every state reachable by public calls satisfies -/
structure Inv (s : MuxState) : Prop where
  dur : ∀ f ∈ s.frames, 0 ≤ f.opts.duration ∧ f.opts.duration ≤ 16777215
  loop : 0 ≤ s.loopCount ∧ s.loopCount ≤ 65535
  bg : s.bgColor < 4294967296
  nframes : s.frames.length ≤ 10000

theorem clampDuration_range (d : Int) : 0 ≤ clampDuration d ∧ clampDuration d ≤ 16777215 := by
  unfold clampDuration maxDuration
  split
  · omega
  · split <;> omega

theorem step_inv (s : MuxState) (op : MuxOp) (h : Inv s) : Inv (step s op).1 := by
  cases op with
  | addFrame data opts =>
    simp only [step]
    split
    · exact h
    · split
      · exact h
      · rename_i h1 h2
        refine ⟨?_, h.loop, h.bg, ?_⟩
        · intro f hf
          simp only [List.mem_append, List.mem_singleton] at hf
          rcases hf with hf | hf
          · exact h.dur f hf
          · subst hf; exact clampDuration_range _
        · simp only [Parser.maxFrames] at h2
          simp only [List.length_append, List.length_singleton]
          omega
  | setFrameDisposeMode i m =>
    refine ⟨?_, h.loop, h.bg, ?_⟩
    · intro f hf
      simp only [step, modifyFrame] at hf
      split at hf
      · rw [List.mem_iff_getElem] at hf
        obtain ⟨k, hk, hfk⟩ := hf
        rw [List.getElem_modify] at hfk
        rw [List.length_modify] at hk
        split at hfk
        · subst hfk; exact h.dur (s.frames[k]) (List.getElem_mem hk)
        · subst hfk; exact h.dur _ (List.getElem_mem _)
      · exact h.dur f hf
    · simp only [step, modifyFrame]
      split
      · rw [List.length_modify]; exact h.nframes
      · exact h.nframes
  | setFrameDuration i ms =>
    refine ⟨?_, h.loop, h.bg, ?_⟩
    · intro f hf
      simp only [step, modifyFrame] at hf
      split at hf
      · rw [List.mem_iff_getElem] at hf
        obtain ⟨k, hk, hfk⟩ := hf
        rw [List.getElem_modify] at hfk
        rw [List.length_modify] at hk
        split at hfk
        · subst hfk; exact clampDuration_range _
        · subst hfk; exact h.dur _ (List.getElem_mem _)
      · exact h.dur f hf
    · simp only [step, modifyFrame]
      split
      · rw [List.length_modify]; exact h.nframes
      · exact h.nframes
  | setLoopCount n =>
    refine ⟨h.dur, ?_, h.bg, h.nframes⟩
    simp only [step, maxLoopCount]
    by_cases h1 : n < 0
    · simp [h1]
    · by_cases h2 : n > 65535
      · simp [h1, h2]
      · simp only [h1, h2, if_false]; omega
  | setCanvasSize w hh => exact ⟨h.dur, h.loop, h.bg, h.nframes⟩
  | setBackgroundColor c =>
    refine ⟨h.dur, h.loop, ?_, h.nframes⟩
    simp only [step]; omega
  | setICCProfile d => exact ⟨h.dur, h.loop, h.bg, h.nframes⟩
  | setEXIF d => exact ⟨h.dur, h.loop, h.bg, h.nframes⟩
  | setXMP d => exact ⟨h.dur, h.loop, h.bg, h.nframes⟩
  | addChunk id d =>
    simp only [step]
    split
    · exact h
    · split
      · exact ⟨h.dur, h.loop, h.bg, h.nframes⟩
      · split
        · exact ⟨h.dur, h.loop, h.bg, h.nframes⟩
        · split
          · exact ⟨h.dur, h.loop, h.bg, h.nframes⟩
          · exact h

theorem runFrom_inv (ops : List MuxOp) : ∀ s, Inv s → Inv (runFrom s ops) := by
  induction ops with
  | nil => intro s h; exact h
  | cons op ops ih => intro s h; exact ih _ (step_inv s op h)

/-- every call history leaves durations, loop count, background colour and frame count in range -/
theorem run_inv (ops : List MuxOp) : Inv (run ops) :=
  runFrom_inv ops {} ⟨(by intro f hf; cases hf), (by decide), (by decide), (by decide)⟩

/-! ### bitstream header facts -/

theorem byteAt_lt (l : Bytes) (i : Nat) : byteAt l i < 256 := by
  unfold byteAt; exact UInt8.toNat_lt _

def vp8W (bs : Bytes) : Nat := le16 bs 6 % 16384
def vp8H (bs : Bytes) : Nat := le16 bs 8 % 16384
def vp8lW (bs : Bytes) : Nat := le32 bs 1 % 16384 + 1
def vp8lH (bs : Bytes) : Nat := le32 bs 1 / 16384 % 16384 + 1
def vp8lA (bs : Bytes) : Bool := decide (le32 bs 1 / 268435456 % 2 ≠ 0)

structure VP8Facts (bs : Bytes) : Prop where
  len : 10 ≤ bs.length
  key : byteAt bs 0 % 2 = 0
  b3 : byteAt bs 3 = 0x9d
  b4 : byteAt bs 4 = 0x01
  b5 : byteAt bs 5 = 0x2a
  w : vp8W bs ≠ 0
  h : vp8H bs ≠ 0

structure VP8LFacts (bs : Bytes) : Prop where
  len : 5 ≤ bs.length
  sig : byteAt bs 0 = 0x2f
  ver : le32 bs 1 / 536870912 % 8 = 0

theorem vp8OK_facts {bs : Bytes} (h : vp8OK bs = true) : VP8Facts bs := by
  unfold vp8OK Parser.parseVP8Header at h
  have l3 := byteAt_lt bs 3
  have l4 := byteAt_lt bs 4
  have l5 := byteAt_lt bs 5
  by_cases h1 : bs.length < 10
  · simp [h1, Res.isOk] at h
  · by_cases h2 : byteAt bs 0 % 2 ≠ 0
    · simp [h1, h2, Res.isOk] at h
    · by_cases h3 : byteAt bs 3 * 65536 + byteAt bs 4 * 256 + byteAt bs 5 ≠ 0x9d012a
      · simp [h1, h2, h3, Res.isOk] at h
      · by_cases h4 : le16 bs 6 % 16384 = 0 ∨ le16 bs 8 % 16384 = 0
        · simp [h1, h2, h3, h4, Res.isOk] at h
        · exact ⟨by omega, by omega, by omega, by omega, by omega,
            by unfold vp8W; omega, by unfold vp8H; omega⟩

theorem vp8lOK_facts {bs : Bytes} (h : vp8lOK bs = true) : VP8LFacts bs := by
  unfold vp8lOK Parser.parseVP8LHeader at h
  by_cases h1 : bs.length < 5
  · simp [h1, Res.isOk] at h
  · by_cases h2 : byteAt bs 0 ≠ 0x2f
    · simp [h1, h2, Res.isOk] at h
    · by_cases h3 : le32 bs 1 / 536870912 % 8 ≠ 0
      · simp [h1, h2, h3, Res.isOk] at h
      · exact ⟨by omega, by omega, by omega⟩

namespace VP8Facts
variable {bs : Bytes} (f : VP8Facts bs)
include f

theorem parserHeader : Parser.parseVP8Header bs = .ok (vp8W bs, vp8H bs) := by
  have h1 : ¬ bs.length < 10 := by have := f.len; omega
  have h2 : ¬ byteAt bs 0 % 2 ≠ 0 := by have := f.key; omega
  have h3 : ¬ (byteAt bs 3 * 65536 + byteAt bs 4 * 256 + byteAt bs 5 ≠ 0x9d012a) := by
    rw [f.b3, f.b4, f.b5]; decide
  have h4 : ¬ (le16 bs 6 % 16384 = 0 ∨ le16 bs 8 % 16384 = 0) := by
    have := f.w; have := f.h; unfold vp8W vp8H at *; omega
  unfold Parser.parseVP8Header
  rw [if_neg h1, if_neg h2, if_neg h3]
  simp only [h4, if_false, vp8W, vp8H]

theorem demuxDims : Demux.parseVP8Dimensions bs = .ok (vp8W bs, vp8H bs) := by
  have h1 : ¬ bs.length < 10 := by have := f.len; omega
  unfold Demux.parseVP8Dimensions
  rw [if_neg h1, f.b3, f.b4, f.b5]
  simp [vp8W, vp8H]

theorem notVP8L : byteAt bs 0 ≠ 0x2f := by have := f.key; omega

theorem detect : detectBitstreamType bs = ccVP8 := by
  unfold detectBitstreamType
  rw [if_neg (fun h => f.notVP8L h.2)]

theorem noAlphaBit : Demux.frameDataHasAlpha bs = false := by
  unfold Demux.frameDataHasAlpha
  have h1 : ¬ bs.length < 5 := by have := f.len; omega
  rw [if_neg h1, if_neg f.notVP8L]

theorem specHeader : Webp.Spec.Riff.vp8Header bs = some (vp8W bs, vp8H bs) := by
  have h1 : ¬ bs.length < 10 := by have := f.len; omega
  have h2 : ¬ byteAt bs 0 % 2 ≠ 0 := by have := f.key; omega
  have h3 : ¬ (byteAt bs 3 ≠ 0x9d ∨ byteAt bs 4 ≠ 0x01 ∨ byteAt bs 5 ≠ 0x2a) := by
    rw [f.b3, f.b4, f.b5]; decide
  have h4 : ¬ (le16 bs 6 % 16384 = 0 ∨ le16 bs 8 % 16384 = 0) := by
    have := f.w; have := f.h; unfold vp8W vp8H at *; omega
  unfold Webp.Spec.Riff.vp8Header
  rw [if_neg h1, if_neg h2, if_neg h3]
  simp only [h4, if_false, vp8W, vp8H]

theorem dimsOf {data : Bytes} (hd : (splitAlphaAndBitstream data).2 = bs) :
    frameDimensions data = (vp8W bs, vp8H bs) := by
  unfold frameDimensions
  simp only [hd]
  have h1 : bs.length ≥ 10 := f.len
  rw [if_neg (fun h => f.notVP8L h.2)]
  simp only [h1, if_true, f.demuxDims]

theorem wlt : vp8W bs < 16384 := by unfold vp8W; omega
theorem hlt : vp8H bs < 16384 := by unfold vp8H; omega

end VP8Facts

namespace VP8LFacts
variable {bs : Bytes} (f : VP8LFacts bs)
include f

theorem parserHeader : Parser.parseVP8LHeader bs = .ok (vp8lW bs, vp8lH bs, vp8lA bs) := by
  have h1 : ¬ bs.length < 5 := by have := f.len; omega
  have h2 : ¬ byteAt bs 0 ≠ 0x2f := by have := f.sig; omega
  have h3 : ¬ le32 bs 1 / 536870912 % 8 ≠ 0 := by have := f.ver; omega
  unfold Parser.parseVP8LHeader
  rw [if_neg h1, if_neg h2]
  simp only [h3, if_false, vp8lW, vp8lH, vp8lA]

theorem demuxDims : Demux.parseVP8LDimensions bs = .ok (vp8lW bs, vp8lH bs, vp8lA bs) := by
  have h1 : ¬ bs.length < 5 := by have := f.len; omega
  have h2 : ¬ byteAt bs 0 ≠ 0x2f := by have := f.sig; omega
  unfold Demux.parseVP8LDimensions
  rw [if_neg h1, if_neg h2]
  simp only [vp8lW, vp8lH, vp8lA]

theorem detect : detectBitstreamType bs = ccVP8L := by
  unfold detectBitstreamType
  rw [if_pos ⟨by have := f.len; omega, f.sig⟩]

theorem alphaBit : Demux.frameDataHasAlpha bs = vp8lA bs := by
  unfold Demux.frameDataHasAlpha
  have h1 : ¬ bs.length < 5 := by have := f.len; omega
  rw [if_neg h1, if_pos f.sig]
  simp only [vp8lA]

theorem specHeader : Webp.Spec.Riff.vp8lHeader bs = some (vp8lW bs, vp8lH bs, vp8lA bs) := by
  have h1 : ¬ bs.length < 5 := by have := f.len; omega
  have h2 : ¬ byteAt bs 0 ≠ 0x2f := by have := f.sig; omega
  have h3 : ¬ le32 bs 1 / 536870912 % 8 ≠ 0 := by have := f.ver; omega
  unfold Webp.Spec.Riff.vp8lHeader
  rw [if_neg h1, if_neg h2]
  simp only [h3, if_false, vp8lW, vp8lH, vp8lA]
  congr 3
  by_cases hb : le32 bs 1 / 268435456 % 2 = 1
  · simp [hb]
  · have : le32 bs 1 / 268435456 % 2 = 0 := by omega
    simp [this]

theorem dimsOf {data : Bytes} (hd : (splitAlphaAndBitstream data).2 = bs) :
    frameDimensions data = (vp8lW bs, vp8lH bs) := by
  unfold frameDimensions
  simp only [hd]
  have h1 : bs.length ≥ 5 := f.len
  rw [if_pos ⟨h1, f.sig⟩]
  simp only [f.demuxDims]

theorem wpos : 0 < vp8lW bs := by unfold vp8lW; omega
theorem hpos : 0 < vp8lH bs := by unfold vp8lH; omega
theorem wle : vp8lW bs ≤ 16384 := by unfold vp8lW; omega
theorem hle : vp8lH bs ≤ 16384 := by unfold vp8lH; omega

end VP8LFacts

end Webp.Proofs.MuxAccepted
