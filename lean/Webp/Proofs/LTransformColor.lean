import Webp.Proofs.LTransformPixel
/-
  Subtract-green and cross-colour transforms: forward (encoder) / inverse (specification)
  round trips and decoder-as-coded = specification.   No `bv_decide` in this file.
-/
namespace Webp.Proofs.LTransformColor
open Webp.Spec.LTransform
open Webp.Proofs.LTransformPixel
open Webp.Impl.LTransform (subtractGreen subtractGreenPx applyColorTransformPixel crossColorFwd
  encColorTransformDelta colorSpaceInvPx colorSpaceInverse addGreenToBlueAndRed)

/-! ## bytes and integers -/

theorem byteOfInt_toNat (v : Int) : ((byteOfInt v).toNat : Int) = v % 256 := by
  unfold byteOfInt
  have h0 : 0 ≤ v % 256 := Int.emod_nonneg _ (by decide)
  have h1 : v % 256 < 256 := Int.emod_lt_of_pos _ (by decide)
  have : (v % 256).toNat < 256 := by omega
  simp [Nat.mod_eq_of_lt this]
  omega

theorem byteOfInt_congr {a b : Int} (h : a % 256 = b % 256) : byteOfInt a = byteOfInt b := by
  unfold byteOfInt; rw [h]

theorem byteOfInt_mod (v : Int) : byteOfInt (v % 256) = byteOfInt v :=
  byteOfInt_congr (by omega)

theorem byteOfInt_toNat_self (b : UInt8) : byteOfInt (b.toNat : Int) = b := by
  apply UInt8.toNat_inj.mp
  have h := byteOfInt_toNat (b.toNat : Int)
  have := b.toNat_lt
  omega

theorem sext8_mod (b : UInt8) : sext8 b % 256 = (b.toNat : Int) := by
  unfold sext8
  have := b.toNat_lt
  split <;> omega

theorem sext8_byteOfInt_mod (v : Int) : sext8 (byteOfInt v) % 256 = v % 256 := by
  rw [sext8_mod, byteOfInt_toNat]

/-! ## subtract green -/

theorem addGreen_subtractGreen (px : Array Px) : addGreen (subtractGreen px) = px := by
  unfold addGreen subtractGreen
  rw [Array.map_map]
  have : (addGreenPx ∘ subtractGreenPx) = id := by
    funext p; exact addGreenPx_subtractGreenPx p
  rw [this, Array.map_id]

theorem addGreenToBlueAndRed_eq_spec (px : Array Px) : addGreenToBlueAndRed px = addGreen px := by
  unfold addGreenToBlueAndRed addGreen
  congr 1; funext p; exact addGreenPx_eq p

/-! ## cross-colour -/

theorem applyColorTransformPixel_eq (m p : Px) :
    applyColorTransformPixel m p
      = mk (chA p)
          (byteOfInt (((chR p).toNat : Int) - encColorTransformDelta (chB m) (chG p)))
          (chG p)
          (byteOfInt (((chB p).toNat : Int) - encColorTransformDelta (chG m) (chG p)
                      - encColorTransformDelta (chR m) (chR p))) := by
  unfold applyColorTransformPixel
  simp only [mask_compose, byteOfInt_mod]
  congr 1
  apply byteOfInt_congr
  omega

/-- one pixel: the inverse (blue from the RESTORED red) undoes the forward (blue from the
    ORIGINAL red), for every multiplier word -/
theorem crossColorInvPx_fwd (m p : Px) : crossColorInvPx m (applyColorTransformPixel m p) = p := by
  rw [applyColorTransformPixel_eq]
  unfold crossColorInvPx
  simp only [chA_mk, chR_mk, chG_mk, chB_mk]
  -- red is restored
  have hred : byteOfInt (((byteOfInt (((chR p).toNat : Int) - encColorTransformDelta (chB m) (chG p))).toNat : Int)
      + colorDelta (chB m) (chG p)) = chR p := by
    rw [byteOfInt_toNat]
    have h := sext8_byteOfInt_mod ((sext8 (chB m) * sext8 (chG p)) >>> 5)
    unfold encColorTransformDelta colorDelta
    generalize (sext8 (chB m) * sext8 (chG p)) >>> 5 = d at h ⊢
    generalize sext8 (byteOfInt d) = e at h ⊢
    rw [← byteOfInt_toNat_self (chR p)]
    apply byteOfInt_congr
    simp only [byteOfInt_toNat_self]
    omega
  rw [hred]
  have hblue : byteOfInt (((byteOfInt (((chB p).toNat : Int) - encColorTransformDelta (chG m) (chG p)
      - encColorTransformDelta (chR m) (chR p))).toNat : Int)
      + colorDelta (chG m) (chG p) + colorDelta (chR m) (chR p)) = chB p := by
    rw [byteOfInt_toNat]
    have h1 := sext8_byteOfInt_mod ((sext8 (chG m) * sext8 (chG p)) >>> 5)
    have h2 := sext8_byteOfInt_mod ((sext8 (chR m) * sext8 (chR p)) >>> 5)
    unfold encColorTransformDelta colorDelta
    generalize (sext8 (chG m) * sext8 (chG p)) >>> 5 = d1 at h1 ⊢
    generalize (sext8 (chR m) * sext8 (chR p)) >>> 5 = d2 at h2 ⊢
    generalize sext8 (byteOfInt d1) = e1 at h1 ⊢
    generalize sext8 (byteOfInt d2) = e2 at h2 ⊢
    rw [← byteOfInt_toNat_self (chB p)]
    apply byteOfInt_congr
    simp only [byteOfInt_toNat_self]
    omega
  rw [hblue]
  exact mk_ch p

theorem crossColorInv_crossColorFwd (w bits : Nat) (tiles px : Array Px) :
    crossColorInv w bits tiles (crossColorFwd w bits tiles px) = px := by
  unfold crossColorInv crossColorFwd
  apply Array.ext
  · simp
  · intro i h1 h2
    simp [crossColorInvPx_fwd]

/-- the pixel body of `colorSpaceInverseTransform` = the specification's pixel inverse -/
theorem colorSpaceInvPx_eq (m p : Px) : colorSpaceInvPx m p = crossColorInvPx m p := by
  unfold colorSpaceInvPx crossColorInvPx colorDelta
  simp only [shr16_and]
  simp only [mask_compose, and_ff, UInt8.toNat_toUInt32, byteOfInt_mod]

theorem colorSpaceInverse_eq_spec (w bits : Nat) (tiles px : Array Px) :
    colorSpaceInverse w bits tiles px = crossColorInv w bits tiles px := by
  unfold colorSpaceInverse crossColorInv
  congr 1; funext i p; exact colorSpaceInvPx_eq _ p

end Webp.Proofs.LTransformColor
