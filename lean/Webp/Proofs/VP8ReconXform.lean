import Webp.Proofs.VP8ReconTokens
import Webp.Proofs.VP8ReconGrid
import Mathlib.Tactic.IntervalCases
import Mathlib.Tactic.Ring
/-
  C06 helper: the decoder's choice among "nothing / DC / AC3 / full" (luma) and
  "nothing / DC per block / TransformUV" (chroma) computes what the encoder's full inverse
  transform computes, under the named kernel facts; the WHT shortcut; the skip path.
-/
namespace Webp.Proofs.VP8ReconXform
open Webp.Impl.VP8Recon Webp.Proofs.VP8ReconTokens Webp.Proofs.VP8ReconGrid

theorem wrap16_range (x : Int) : -32768 ≤ wrap16 x ∧ wrap16 x ≤ 32767 := by unfold wrap16; omega

theorem wrap16_zero : wrap16 0 = 0 := by decide

theorem dequant_range (a b : Int) (lv : Coeffs) : Int16Range (dequant a b lv) :=
  fun _ => wrap16_range _

theorem set_range (c : Coeffs) (i : Fin 16) (v : Int) (hc : Int16Range c) (hv : -32768 ≤ v ∧ v ≤ 32767) :
    Int16Range (c.set i v) := by
  intro j
  unfold Coeffs.set
  split
  · exact hv
  · exact hc j

theorem dequant_zero_of_level (a b : Int) (lv : Coeffs) (i : Fin 16) (h : lv i = 0) : dequant a b lv i = 0 := by
  unfold dequant; rw [h]; simp [wrap16_zero]

/-- beyond the count the quantiser returned, the dequantised block is zero -/
theorem dequant_zero_beyond (first : Nat) (a b : Int) (lv : Coeffs) (k : Nat) (hk : k < 16) (h1 : first ≤ k)
    (h2 : nzCountFrom first lv ≤ k) : dequant a b lv (zz ⟨k, hk⟩) = 0 :=
  dequant_zero_of_level a b lv _ ((nzCountFrom_exact first lv).zeros k hk h1 h2)

theorem zz_zero : zz 0 = 0 := by decide
theorem zz_ne_zero (k : Nat) (hk : k < 16) (h : 1 ≤ k) : zz ⟨k, hk⟩ ≠ 0 := by
  intro e
  have := zzInv_zz ⟨k, hk⟩
  rw [e] at this
  have h0 : zzInv 0 = 0 := by decide
  rw [h0] at this
  have := congrArg Fin.val this
  simp at this
  omega

/-- **`wht_dc_only_shortcut`**: what `parseResiduals` stores as per-block DC values — the full
    `TransformWHT` when more than one Y2 token position was read, `(dc[0] + 3) >> 3` otherwise —
    is `TransformWHT` of the dequantised Y2 block in both cases. -/
theorem wht_dc_only_shortcut (K : Kernels) {B Bw : Int} (F : KernelFacts K B Bw) (qm : QuantMatrix) (lv : Coeffs)
    (hb : Bounded Bw (dequant qm.y2dc qm.y2ac lv)) :
    decWht K qm lv = K.iwht (dequant qm.y2dc qm.y2ac lv) := by
  unfold decWht
  by_cases h : nzCountFrom 0 lv > 1
  · simp only [h, if_true]
  · simp only [h, if_false]
    symm
    apply F.wht_dc _ hb
    intro i hi
    have hz := zz_zzInv i
    have hpos : 1 ≤ (zzInv i).val := by
      have := (zzInv_zero i)
      omega
    rw [← hz]
    exact dequant_zero_beyond 0 _ _ lv (zzInv i).val (zzInv i).isLt (by omega) (by omega)

/-- **`nz_dispatch_sound`**: for a coefficient block that is zero from zig-zag position `nz` on,
    `doTransform` with the 2-bit code `nzCode nz (c[0] ≠ 0)` equals the encoder's full inverse
    transform. -/
theorem nz_dispatch_sound (K : Kernels) {B Bw : Int} (F : KernelFacts K B Bw) (c : Coeffs) (hr : Bounded B c) (nz : Nat)
    (hz : ∀ k (hk : k < 16), nz ≤ k → c (zz ⟨k, hk⟩) = 0) (p : Blk4) (bits : Nat)
    (hb : bits >>> 30 = nzCode nz (if c 0 ≠ 0 then 1 else 0)) :
    doTransform K bits c p = K.encIdct c p := by
  unfold doTransform
  rw [hb]
  unfold nzCode
  have hzi : ∀ i : Fin 16, nz ≤ (zzInv i).val → c i = 0 := by
    intro i h
    have := hz (zzInv i).val (zzInv i).isLt h
    have e : zz ⟨(zzInv i).val, (zzInv i).isLt⟩ = i := zz_zzInv i
    rw [e] at this
    exact this
  by_cases h3 : nz > 3
  · simp only [h3, if_true]
    exact F.idct_same c p hr
  · by_cases h1 : nz > 1
    · simp only [h3, if_false, h1, if_true]
      apply F.idct_ac3 c p hr
      intro i a0 a1 a4
      apply hzi
      have : ∀ j : Fin 16, j.val ≠ 0 → j.val ≠ 1 → j.val ≠ 4 → 3 ≤ (zzInv j).val := by decide
      have := this i a0 a1 a4
      omega
    · simp only [h3, if_false, h1]
      have hdc : ∀ i : Fin 16, i.val ≠ 0 → c i = 0 := by
        intro i hi
        apply hzi
        have := zzInv_zero i
        omega
      by_cases h0 : c 0 = 0
      · simp only [h0, ne_eq, not_true_eq_false, if_false]
        have : c = Coeffs.zero := by
          funext i
          by_cases hi : i.val = 0
          · have : i = 0 := Fin.ext hi
            subst this; exact h0
          · exact hdc i hi
        rw [this, F.idct_zero]
      · simp only [h0, ne_eq, not_false_eq_true, if_true]
        exact (F.idct_dc c p hr hdc).symm

/-! ### the packed 2-bit codes -/

/-- `bits <<= 2`, `j` times -/
def shiftN : Nat → Nat → Nat
  | 0, b => b
  | j + 1, b => shiftN j ((b <<< 2) % 4294967296)

theorem shiftN_eq (j : Nat) : ∀ P, P < 4294967296 → shiftN j P = P * 4 ^ j % 4294967296 := by
  induction j with
  | zero => intro P h; simp [shiftN]; omega
  | succ j ih =>
    intro P _
    unfold shiftN
    rw [ih _ (Nat.mod_lt _ (by omega)), Nat.shiftLeft_eq, Nat.mod_mul_mod]
    congr 1
    rw [Nat.pow_succ]
    ring

theorem or_add (a b k : Nat) (hb : b < 2 ^ k) : (a <<< k) ||| b = a * 2 ^ k + b := by
  rw [← Nat.shiftLeft_add_eq_or_of_lt hb, Nat.shiftLeft_eq]

theorem nzCode_lt (nz dc : Nat) (h : dc ≤ 1) : nzCode nz dc < 4 := by
  unfold nzCode; split
  · omega
  · split <;> omega

theorem pstep (acc c : Nat) (hc : c < 4) (ha : acc < 1073741824) :
    ((acc <<< 2) ||| c) % 4294967296 = acc * 4 + c := by
  rw [or_add acc c 2 (by omega)]; omega

theorem rstep (acc r : Nat) (hr : r < 256) (ha : acc < 16777216) :
    ((acc <<< 8) ||| r) % 4294967296 = acc * 256 + r := by
  rw [or_add acc r 8 (by omega)]; omega

theorem packRow_eq (c : Nat → Nat) (hc : ∀ b, c b < 4) (b0 : Nat) :
    packRow c b0 = ((c (b0 + 0) * 4 + c (b0 + 1)) * 4 + c (b0 + 2)) * 4 + c (b0 + 3) := by
  have h0 := hc (b0 + 0); have h1 := hc (b0 + 1); have h2 := hc (b0 + 2); have h3 := hc (b0 + 3)
  simp only [packRow, packRow.nzCodeBitsRaw, List.foldl_cons, List.foldl_nil]
  rw [pstep 0 (c (b0 + 0)) h0 (by omega)]
  rw [pstep (0 * 4 + c (b0 + 0)) (c (b0 + 1)) h1 (by omega)]
  rw [pstep ((0 * 4 + c (b0 + 0)) * 4 + c (b0 + 1)) (c (b0 + 2)) h2 (by omega)]
  rw [pstep (((0 * 4 + c (b0 + 0)) * 4 + c (b0 + 1)) * 4 + c (b0 + 2)) (c (b0 + 3)) h3 (by omega)]
  omega

theorem packRow_lt (c : Nat → Nat) (hc : ∀ b, c b < 4) (b0 : Nat) : packRow c b0 < 256 := by
  rw [packRow_eq c hc]
  have h0 := hc (b0 + 0); have h1 := hc (b0 + 1); have h2 := hc (b0 + 2); have h3 := hc (b0 + 3)
  omega

/-- `NonZeroY` as a number -/
def packedY (c : Nat → Nat) : Nat :=
  (((((c 0 * 4 + c 1) * 4 + c 2) * 4 + c 3) * 256 + (((c 4 * 4 + c 5) * 4 + c 6) * 4 + c 7)) * 256 +
    (((c 8 * 4 + c 9) * 4 + c 10) * 4 + c 11)) * 256 + (((c 12 * 4 + c 13) * 4 + c 14) * 4 + c 15)

theorem nonZeroY_eq (c : Nat → Nat) (hc : ∀ b, c b < 4) :
    [0, 4, 8, 12].foldl (fun acc b0 => ((acc <<< 8) ||| packRow c b0) % 4294967296) 0 = packedY c := by
  have r0 := packRow_lt c hc 0; have r1 := packRow_lt c hc 4
  have r2 := packRow_lt c hc 8; have r3 := packRow_lt c hc 12
  simp only [List.foldl_cons, List.foldl_nil]
  rw [rstep 0 (packRow c 0) r0 (by omega)]
  rw [rstep (0 * 256 + packRow c 0) (packRow c 4) r1 (by omega)]
  rw [rstep ((0 * 256 + packRow c 0) * 256 + packRow c 4) (packRow c 8) r2 (by omega)]
  rw [rstep (((0 * 256 + packRow c 0) * 256 + packRow c 4) * 256 + packRow c 8) (packRow c 12) r3 (by omega)]
  rw [packRow_eq c hc 0, packRow_eq c hc 4, packRow_eq c hc 8, packRow_eq c hc 12]
  unfold packedY
  simp only [Nat.zero_mul, Nat.zero_add, Nat.add_zero, show (4 + 1 : Nat) = 5 from rfl, show (4 + 2 : Nat) = 6 from rfl,
    show (4 + 3 : Nat) = 7 from rfl, show (8 + 1 : Nat) = 9 from rfl, show (8 + 2 : Nat) = 10 from rfl,
    show (8 + 3 : Nat) = 11 from rfl, show (12 + 1 : Nat) = 13 from rfl, show (12 + 2 : Nat) = 14 from rfl,
    show (12 + 3 : Nat) = 15 from rfl]

theorem packedY_lt (c : Nat → Nat) (hc : ∀ b, c b < 4) : packedY c < 4294967296 := by
  have h := fun b => hc b
  have b0 := h 0; have b1 := h 1; have b2 := h 2; have b3 := h 3; have b4 := h 4; have b5 := h 5
  have b6 := h 6; have b7 := h 7; have b8 := h 8; have b9 := h 9; have b10 := h 10; have b11 := h 11
  have b12 := h 12; have b13 := h 13; have b14 := h 14; have b15 := h 15
  unfold packedY; omega

/-- the code `reconstructRow` sees for block `j` after `j` shifts -/
theorem unpackY (c : Nat → Nat) (hc : ∀ b, c b < 4) (j : Nat) (hj : j < 16) :
    shiftN j (packedY c) >>> 30 = c j := by
  rw [shiftN_eq j _ (packedY_lt c hc), Nat.shiftRight_eq_div_pow]
  have h := fun b => hc b
  have b0 := h 0; have b1 := h 1; have b2 := h 2; have b3 := h 3; have b4 := h 4; have b5 := h 5
  have b6 := h 6; have b7 := h 7; have b8 := h 8; have b9 := h 9; have b10 := h 10; have b11 := h 11
  have b12 := h 12; have b13 := h 13; have b14 := h 14; have b15 := h 15
  unfold packedY
  interval_cases j <;> simp only [Nat.pow_zero, Nat.pow_one, Nat.reducePow, Nat.mul_one] <;> omega

/-! ### luma -/

theorem xfAt_congr (G : Grid) (bx by' : Nat) (f g : Blk4 → Blk4)
    (h : f (readBlk4 G bx by') = g (readBlk4 G bx by')) : xfAt G bx by' f = xfAt G bx by' g := by
  unfold xfAt; rw [h]

/-- the decoder's luma loop, with the shifting `bits` word replaced by what each step sees -/
theorem decLumaLoop_eq (K : Kernels) (m : MBModes) (r : ResData) (pred : Bool) (step : Fin 16 → Blk4 → Blk4) :
    ∀ (bs : List (Fin 16)) (G : Grid) (bits : Nat),
      (∀ (j : Nat) (h : j < bs.length) (p : Blk4),
        doTransform K (shiftN j bits) (r.coeffs (bs[j]).val) p = step bs[j] p) →
      decLumaLoop K m r pred bs G bits =
        bs.foldl (fun G b =>
          xfAt (if pred then writeBlk4 G (b.val % 4) (b.val / 4) (K.pred4 (m.imodes b) (edge4 G (b.val % 4) (b.val / 4)))
                else G) (b.val % 4) (b.val / 4) (step b)) G := by
  intro bs
  induction bs with
  | nil => intro G bits _; rfl
  | cons b bs ih =>
    intro G bits h
    simp only [decLumaLoop, List.foldl_cons]
    have h0 := h 0 (by simp)
    simp only [shiftN, List.getElem_cons_zero] at h0
    rw [xfAt_congr _ _ _ _ (step b) (h0 _)]
    apply ih
    intro j hj p
    have := h (j + 1) (by simp; omega) p
    simpa [shiftN] using this

theorem doTransform_zero (K : Kernels) (c : Coeffs) (p : Blk4) : doTransform K 0 c p = p := by
  unfold doTransform; rfl

theorem decLumaLoop_zero (K : Kernels) (m : MBModes) (r : ResData) :
    ∀ (bs : List (Fin 16)) (G : Grid), decLumaLoop K m r false bs G 0 = G := by
  intro bs
  induction bs with
  | nil => intro G; rfl
  | cons b bs ih =>
    intro G
    simp only [decLumaLoop, Bool.false_eq_true, if_false]
    rw [xfAt_id _ _ _ _ (doTransform_zero K _ _)]
    exact ih G

theorem decCode_lt (K : Kernels) (qm : QuantMatrix) (d : MBDesc) (b : Nat) : decCode K qm d b < 4 := by
  unfold decCode; apply nzCode_lt; split <;> omega

theorem decNz_ge (first n : Nat) : first ≤ decNz first n ∧ n ≤ decNz first n := by
  unfold decNz; split <;> omega

/-- the coefficient block the decoder holds for block `b < 24` is zero from its token count on -/
theorem decBlock_zero_beyond (K : Kernels) (qm : QuantMatrix) (d : MBDesc) (b : Nat) (hb : b < 24)
    (k : Nat) (hk : k < 16) (h : decNz (if (!d.isI4) = true ∧ b < 16 then 1 else 0) (d.nz b) ≤ k) :
    decBlock K qm d b (zz ⟨k, hk⟩) = 0 := by
  unfold decBlock
  unfold MBDesc.nz at h
  by_cases h16 : b < 16
  · simp only [h16, dite_true]
    cases hI : d.isI4
    · simp only [hI, Bool.not_false, h16, if_true, and_self] at h
      have hg := decNz_ge 1 (nzCountFrom 1 (d.levels b))
      simp only [Bool.false_eq_true, if_false]
      unfold Coeffs.set
      rw [if_neg (zz_ne_zero k hk (by omega))]
      exact dequant_zero_beyond 1 _ _ _ k hk (by omega) (by omega)
    · simp only [hI, Bool.not_true, Bool.false_eq_true, false_and, if_false] at h
      have hg := decNz_ge 0 (nzCountFrom 0 (d.levels b))
      simp only [if_true]
      exact dequant_zero_beyond 0 _ _ _ k hk (by omega) (by omega)
  · have hf : ¬ ((!d.isI4) = true ∧ b < 16) := fun x => h16 x.2
    simp only [hf, if_false] at h
    have hg := decNz_ge 0 (nzCountFrom 0 (d.levels b))
    simp only [h16, dite_false, hb, if_true]
    exact dequant_zero_beyond 0 _ _ _ k hk (by omega) (by omega)

/-- **per block**: with the code word `parseResiduals` stored, `doTransform` on the stored
    coefficients is the encoder's inverse transform of them -/
theorem block_dispatch (K : Kernels) {B Bw : Int} (F : KernelFacts K B Bw) (qm : QuantMatrix) (d : MBDesc)
    (hw : CoeffsWithin K qm d B Bw) (b : Nat) (hb : b < 24)
    (bits : Nat) (hbits : bits >>> 30 = decCode K qm d b) (p : Blk4) :
    doTransform K bits (decBlock K qm d b) p = K.encIdct (decBlock K qm d b) p :=
  nz_dispatch_sound K F _ (hw.1 b hb) _
    (fun k hk h => decBlock_zero_beyond K qm d b hb k hk h) p bits hbits

theorem finRange_get (j : Nat) (h : j < (List.finRange 16).length) :
    ((List.finRange 16)[j]).val = j := by
  rw [List.getElem_finRange]; rfl

theorem luma_loop_agree (K : Kernels) {B Bw : Int} (F : KernelFacts K B Bw) (qm : QuantMatrix) (d : MBDesc)
    (hw : CoeffsWithin K qm d B Bw) (m : MBModes) (pred : Bool) (G : Grid) :
    decLumaLoop K m (decCoeffs K qm d) pred (List.finRange 16) G (decCoeffs K qm d).nonZeroY =
      (List.finRange 16).foldl (fun G b =>
        xfAt (if pred then writeBlk4 G (b.val % 4) (b.val / 4) (K.pred4 (m.imodes b) (edge4 G (b.val % 4) (b.val / 4)))
              else G) (b.val % 4) (b.val / 4) (K.encIdct (decBlock K qm d b.val))) G := by
  apply decLumaLoop_eq K m _ pred (fun b => K.encIdct (decBlock K qm d b.val))
  intro j hj p
  have hj16 : j < 16 := by simpa using hj
  rw [finRange_get j hj]
  apply block_dispatch K F qm d hw j (by omega)
  have : (decCoeffs K qm d).nonZeroY = packedY (decCode K qm d) := nonZeroY_eq _ (decCode_lt K qm d)
  rw [this]
  exact unpackY _ (decCode_lt K qm d) j hj16

theorem checkMode_lt (x y mode : Nat) (h : mode < 4) : checkMode x y mode < 7 := by
  unfold checkMode
  split
  · split
    · split <;> omega
    · split <;> omega
  · omega

/-- coefficients of an I16 luma block: what the decoder stored is what `reconstructMB` uses -/
theorem decBlock_i16 (K : Kernels) {B Bw : Int} (F : KernelFacts K B Bw) (qm : QuantMatrix) (d : MBDesc)
    (hw : CoeffsWithin K qm d B Bw) (hI : d.isI4 = false) (b : Fin 16) : decBlock K qm d b.val = encCoeffsY16 K qm d b := by
  unfold decBlock encCoeffsY16
  simp only [b.isLt, dite_true, hI, Bool.false_eq_true, if_false]
  rw [wht_dc_only_shortcut K F qm _ (hw.2 hI)]

theorem decBlock_i4 (K : Kernels) (qm : QuantMatrix) (d : MBDesc) (hI : d.isI4 = true) (b : Fin 16) :
    decBlock K qm d b.val = dequant qm.y1dc qm.y1ac (d.levels b.val) := by
  unfold decBlock
  simp only [b.isLt, dite_true, hI, if_true]

theorem decBlock_uv (K : Kernels) (qm : QuantMatrix) (d : MBDesc) (b : Nat) (h1 : 16 ≤ b) (h2 : b < 24) :
    decBlock K qm d b = dequant qm.uvdc qm.uvac (d.levels b) := by
  unfold decBlock
  have : ¬ (b < 16) := by omega
  simp only [this, dite_false, h2, if_true]

theorem foldl_congr_fin {α : Type} {n : Nat} (f g : α → Fin n → α) (h : ∀ a b, f a b = g a b) (l : List (Fin n)) (a : α) :
    l.foldl f a = l.foldl g a := by
  have : f = g := by funext a b; exact h a b
  rw [this]

/-- luma of a macroblock whose tokens were parsed -/
theorem luma_agree (K : Kernels) {B Bw : Int} (F : KernelFacts K B Bw) (qm : QuantMatrix) (mbX mbY : Nat) (c : Ctx) (d : MBDesc)
    (wf : d.WF) (hw : CoeffsWithin K qm d B Bw) (m : MBModes) (hm1 : m.isI4 = d.isI4) (hm2 : d.isI4 = true → m.imodes = d.i4modes)
    (hm3 : d.isI4 = false → m.imodes 0 = d.i16mode) :
    decLuma K mbX mbY c m (decCoeffs K qm d) =
      (if d.isI4 then encLuma4 K qm c d else encLuma16 K qm mbX mbY c d) := by
  unfold decLuma
  cases hI : d.isI4
  · -- I16
    simp only [hm1, hI, Bool.false_eq_true, if_false]
    rw [hm3 hI, F.pred16_same _ _ (checkMode_lt _ _ _ wf.i16)]
    have hloop := luma_loop_agree K F qm d hw m false
      (write16 (loadY c) (K.encPred16 (checkMode mbX mbY d.i16mode) (edge16 (loadY c))))
    have hres : (if (decCoeffs K qm d).nonZeroY ≠ 0 then
          decLumaLoop K m (decCoeffs K qm d) false (List.finRange 16)
            (write16 (loadY c) (K.encPred16 (checkMode mbX mbY d.i16mode) (edge16 (loadY c)))) (decCoeffs K qm d).nonZeroY
        else write16 (loadY c) (K.encPred16 (checkMode mbX mbY d.i16mode) (edge16 (loadY c)))) =
        decLumaLoop K m (decCoeffs K qm d) false (List.finRange 16)
          (write16 (loadY c) (K.encPred16 (checkMode mbX mbY d.i16mode) (edge16 (loadY c)))) (decCoeffs K qm d).nonZeroY := by
      by_cases h0 : (decCoeffs K qm d).nonZeroY = 0
      · simp only [h0, ne_eq, not_true_eq_false, if_false]
        rw [decLumaLoop_zero]
      · simp only [h0, ne_eq, not_false_eq_true, if_true]
    rw [hres, hloop]
    unfold encLuma16
    apply foldl_congr_fin
    intro G b
    simp only [Bool.false_eq_true, if_false, decBlock_i16 K F qm d hw hI b]
  · simp only [hm1, hI, if_true]
    rw [luma_loop_agree K F qm d hw m true (loadY c)]
    unfold encLuma4
    apply foldl_congr_fin
    intro G b
    simp only [if_true, decBlock_i4 K qm d hI b, hm2 hI]

/-! ### chroma -/

theorem and_ff (x : Nat) : x &&& 0xff = x % 256 := by
  have e : (0xff : Nat) = 2 ^ 8 - 1 := by decide
  rw [e, Nat.and_two_pow_sub_one_eq_mod]

theorem and_aa (x : Nat) : x &&& 0xaa = (x % 256) &&& 0xaa := by
  rw [← and_ff, Nat.and_assoc]
  have : (0xff : Nat) &&& 0xaa = 0xaa := by decide
  rw [this]

/-- on a byte, `& 0xaa` tests whether one of the four 2-bit fields is ≥ 2 -/
theorem aa_fields : ∀ p : Fin 256, (p.val &&& 0xaa ≠ 0) ↔
    (p.val / 64 ≥ 2 ∨ p.val / 16 % 4 ≥ 2 ∨ p.val / 4 % 4 ≥ 2 ∨ p.val % 4 ≥ 2) := by decide +kernel

/-- the byte `doUVTransform` looks at is the plane's four packed codes -/
theorem uv_byte (K : Kernels) (qm : QuantMatrix) (d : MBDesc) :
    ((decCoeffs K qm d).nonZeroUV >>> 0) % 256 = packRow (decCode K qm d) 16 ∧
    ((decCoeffs K qm d).nonZeroUV >>> 8) % 256 = packRow (decCode K qm d) 20 := by
  have hu := packRow_lt _ (decCode_lt K qm d) 16
  have hv := packRow_lt _ (decCode_lt K qm d) 20
  have e : (decCoeffs K qm d).nonZeroUV = packRow (decCode K qm d) 16 + packRow (decCode K qm d) 20 * 256 := by
    show (packRow (decCode K qm d) 16 <<< 0) % 4294967296 ||| (packRow (decCode K qm d) 20 <<< 8) % 4294967296 = _
    have e1 : (packRow (decCode K qm d) 16 <<< 0) % 4294967296 = packRow (decCode K qm d) 16 := by
      rw [Nat.shiftLeft_zero]; omega
    have e2 : (packRow (decCode K qm d) 20 <<< 8) % 4294967296 = packRow (decCode K qm d) 20 <<< 8 := by
      rw [Nat.shiftLeft_eq]; omega
    rw [e1, e2, Nat.or_comm, or_add _ _ 8 (by omega)]
    omega
  rw [e]
  simp only [Nat.shiftRight_eq_div_pow]
  constructor <;> omega

theorem nzCode_le_one (nz dc : Nat) (h : nzCode nz dc ≤ 1) (_hdc : dc ≤ 1) : nz ≤ 1 ∧ nzCode nz dc = dc := by
  unfold nzCode at h ⊢
  split at h
  · omega
  · split at h
    · omega
    · rename_i h3 h1
      simp only [h3, h1, if_false]
      exact ⟨by omega, trivial⟩

/-- per-block facts used by the chroma dispatch -/
theorem uv_block_cases (K : Kernels) {B Bw : Int} (F : KernelFacts K B Bw) (qm : QuantMatrix) (d : MBDesc)
    (hw : CoeffsWithin K qm d B Bw) (b : Nat) (hb : b < 24)
    (p : Blk4) :
    (decCode K qm d b = 0 → K.encIdct (decBlock K qm d b) p = p) ∧
    (decCode K qm d b ≤ 1 → decBlock K qm d b 0 ≠ 0 → K.encIdct (decBlock K qm d b) p = dcAdd (decBlock K qm d b 0) p) ∧
    (decCode K qm d b ≤ 1 → decBlock K qm d b 0 = 0 → K.encIdct (decBlock K qm d b) p = p) := by
  have hlt := decCode_lt K qm d b
  have hshift : ∀ c, c < 4 → (c <<< 30) >>> 30 = c := by
    intro c hc
    rw [Nat.shiftLeft_eq, Nat.shiftRight_eq_div_pow]; omega
  have hd := block_dispatch K F qm d hw b hb (decCode K qm d b <<< 30) (hshift _ hlt) p
  have hcode : decCode K qm d b ≤ 1 →
      decCode K qm d b = (if decBlock K qm d b 0 ≠ 0 then 1 else 0) := by
    intro h1
    unfold decCode at h1 ⊢
    exact (nzCode_le_one _ _ h1 (by split <;> omega)).2
  refine ⟨?_, ?_, ?_⟩
  · intro h0
    rw [← hd, h0]
    exact doTransform_zero K _ _
  · intro h1 hne
    rw [← hd, hcode h1]
    simp only [hne, ne_eq, not_false_eq_true, if_true]
    unfold doTransform
    rfl
  · intro h1 he
    rw [← hd, hcode h1]
    simp only [he, ne_eq, not_true_eq_false, if_false]
    exact doTransform_zero K _ _

theorem chroma_agree (K : Kernels) {B Bw : Int} (F : KernelFacts K B Bw) (qm : QuantMatrix) (mbX mbY : Nat) (e : Edge8) (d : MBDesc)
    (wf : d.WF) (hw : CoeffsWithin K qm d B Bw) (m : MBModes) (hm : m.uvmode = d.uvmode) (base shift : Nat)
    (hbs : (base = 16 ∧ shift = 0) ∨ (base = 20 ∧ shift = 8)) :
    decChroma K mbX mbY e m (decCoeffs K qm d) base shift = encChroma K qm mbX mbY e d base := by
  unfold decChroma encChroma
  dsimp only
  rw [hm, F.pred8_same _ _ (checkMode_lt _ _ _ wf.uv)]
  generalize write8 (loadUV e) (K.encPred8 (checkMode mbX mbY d.uvmode) (edge8 (loadUV e))) = G1
  have hbase : 16 ≤ base ∧ base + 3 < 24 := by rcases hbs with ⟨h, _⟩ | ⟨h, _⟩ <;> omega
  -- the encoder's side in terms of the stored blocks
  have henc : (List.finRange 4).foldl
        (fun G k => xfAt G (k.val % 2) (k.val / 2) (K.encIdct (dequant qm.uvdc qm.uvac (d.levels (base + k.val))))) G1 =
      (List.finRange 4).foldl
        (fun G k => xfAt G (k.val % 2) (k.val / 2) (K.encIdct (decBlock K qm d (base + k.val)))) G1 := by
    apply foldl_congr_fin
    intro G k
    rw [decBlock_uv K qm d (base + k.val) (by omega) (by have := k.isLt; omega)]
  rw [henc]
  -- the byte of codes
  have hbyte : ((decCoeffs K qm d).nonZeroUV >>> shift) % 256 = packRow (decCode K qm d) base := by
    rcases hbs with ⟨h1, h2⟩ | ⟨h1, h2⟩ <;> subst h1 <;> subst h2
    · exact (uv_byte K qm d).1
    · exact (uv_byte K qm d).2
  have hpk := packRow_eq _ (decCode_lt K qm d) base
  have c0 := decCode_lt K qm d (base + 0); have c1 := decCode_lt K qm d (base + 1)
  have c2 := decCode_lt K qm d (base + 2); have c3 := decCode_lt K qm d (base + 3)
  unfold doUVTransform
  simp only [(show (decCoeffs K qm d).coeffs = decBlock K qm d from rfl)]
  rw [and_ff, and_aa, hbyte]
  have hplt := packRow_lt _ (decCode_lt K qm d) base
  have haa := aa_fields ⟨packRow (decCode K qm d) base, hplt⟩
  simp only at haa
  by_cases hz : packRow (decCode K qm d) base = 0
  · -- all four codes are 0: nothing to do on either side
    simp only [hz, ne_eq, not_true_eq_false, if_false]
    have hall : ∀ k : Fin 4, decCode K qm d (base + k.val) = 0 := by
      intro k
      have : k.val = 0 ∨ k.val = 1 ∨ k.val = 2 ∨ k.val = 3 := by omega
      rcases this with h | h | h | h <;> rw [h] <;> omega
    symm
    have : ∀ (l : List (Fin 4)) (G : Grid),
        l.foldl (fun G k => xfAt G (k.val % 2) (k.val / 2) (K.encIdct (decBlock K qm d (base + k.val)))) G = G := by
      intro l
      induction l with
      | nil => intro G; rfl
      | cons k l ih =>
        intro G
        simp only [List.foldl_cons]
        rw [xfAt_id _ _ _ _ ((uv_block_cases K F qm d hw (base + k.val) (by have := k.isLt; omega) _).1 (hall k))]
        exact ih G
    exact this _ G1
  · simp only [hz, ne_eq, not_false_eq_true, if_true]
    by_cases ha : packRow (decCode K qm d) base &&& 0xaa = 0
    · -- every code ≤ 1: DC-only blocks
      simp only [ha, not_true_eq_false, if_false]
      have hle : ∀ k : Fin 4, decCode K qm d (base + k.val) ≤ 1 := by
        intro k
        have hn := (not_congr haa).mp (by simpa using ha)
        have : k.val = 0 ∨ k.val = 1 ∨ k.val = 2 ∨ k.val = 3 := by omega
        rcases this with h | h | h | h <;> rw [h] <;> omega
      apply foldl_congr_fin
      intro G k
      have hb : base + k.val < 24 := by have := k.isLt; omega
      by_cases h0 : decBlock K qm d (base + k.val) 0 = 0
      · simp only [h0, not_true_eq_false, if_false]
        rw [xfAt_id _ _ _ _ ((uv_block_cases K F qm d hw (base + k.val) hb _).2.2 (hle k) h0)]
      · simp only [h0, not_false_eq_true, if_true]
        exact xfAt_congr _ _ _ _ _ ((uv_block_cases K F qm d hw (base + k.val) hb _).2.1 (hle k) h0).symm
    · -- some block has AC coefficients: `TransformUV` on all four
      simp only [ha, not_false_eq_true, if_true]
      rw [F.idct_uv _ _ (fun k => hw.1 _ (by have := k.isLt; omega))]
      exact (uv_blocks_eq_write8 G1 (fun k => K.encIdct (decBlock K qm d (base + k.val)))).symm

/-! ### a macroblock without coefficients -/

theorem levels_zero_of_nz (first : Nat) (lv : Coeffs) (h : nzCountFrom first lv = 0) (i : Fin 16)
    (hi : first ≤ (zzInv i).val) : lv i = 0 := by
  have := (nzCountFrom_exact first lv).zeros (zzInv i).val (zzInv i).isLt hi (by omega)
  have e : zz ⟨(zzInv i).val, (zzInv i).isLt⟩ = i := zz_zzInv i
  rw [e] at this
  exact this

theorem dequant_zero_of_nz (a b : Int) (lv : Coeffs) (h : nzCountFrom 0 lv = 0) : dequant a b lv = Coeffs.zero := by
  funext i
  exact dequant_zero_of_level a b lv i (levels_zero_of_nz 0 lv h i (by omega))

theorem skip_nz (d : MBDesc) (h : d.skip = true) : (∀ b, b < 24 → d.nz b = 0) ∧ (d.isI4 = false → d.nz 24 = 0) := by
  unfold MBDesc.skip at h
  simp only [Bool.and_eq_true, List.all_eq_true, List.mem_range, decide_eq_true_eq, Bool.or_eq_true] at h
  refine ⟨h.1, ?_⟩
  intro hI
  rcases h.2 with h2 | h2
  · rw [hI] at h2; exact absurd h2 (by decide)
  · exact h2

/-- coefficients of every block of a macroblock the encoder marks as skipped are zero -/
theorem skip_coeffs (K : Kernels) {B Bw : Int} (F : KernelFacts K B Bw) (hBw : 0 ≤ Bw) (qm : QuantMatrix) (d : MBDesc)
    (h : d.skip = true) :
    (d.isI4 = false → ∀ b : Fin 16, encCoeffsY16 K qm d b = Coeffs.zero) ∧
    (d.isI4 = true → ∀ b : Fin 16, dequant qm.y1dc qm.y1ac (d.levels b.val) = Coeffs.zero) ∧
    (∀ b, 16 ≤ b → b < 24 → dequant qm.uvdc qm.uvac (d.levels b) = Coeffs.zero) := by
  obtain ⟨hnz, hdc⟩ := skip_nz d h
  refine ⟨?_, ?_, ?_⟩
  · intro hI b
    have h24 := hdc hI
    have hb := hnz b.val (by omega)
    unfold MBDesc.nz at h24 hb
    have : ¬ (24 < 16) := by omega
    simp only [hI, Bool.not_false, true_and, this, if_false, b.isLt, if_true] at h24 hb
    unfold encCoeffsY16
    rw [dequant_zero_of_nz _ _ _ h24]
    have hw := F.wht_dc Coeffs.zero (fun _ => by simp only [Coeffs.zero]; omega) (fun _ _ => rfl)
    rw [hw]
    funext i
    unfold Coeffs.set
    split
    · show wrap16 (((0 : Int) + 3) >>> 3) = 0
      decide
    · rename_i hi
      have hi' : i.val ≠ 0 := fun e => hi (Fin.ext e)
      have := zzInv_zero i
      exact dequant_zero_of_level _ _ _ i (levels_zero_of_nz 1 _ hb i (by omega))
  · intro hI b
    have hb := hnz b.val (by omega)
    unfold MBDesc.nz at hb
    simp only [hI, Bool.not_true, Bool.false_eq_true, false_and, if_false] at hb
    exact dequant_zero_of_nz _ _ _ hb
  · intro b h1 h2
    have hb := hnz b h2
    unfold MBDesc.nz at hb
    have : ¬ (b < 16) := by omega
    simp only [this, and_false, if_false] at hb
    exact dequant_zero_of_nz _ _ _ hb

theorem shiftN_zero (j : Nat) : shiftN j 0 = 0 := by
  induction j with
  | zero => rfl
  | succ j ih => unfold shiftN; simpa using ih

theorem foldl_xfAt_id {n : Nat} (f : Fin n → Blk4 → Blk4) (bx by' : Fin n → Nat) (h : ∀ k p, f k p = p) :
    ∀ (l : List (Fin n)) (G : Grid), l.foldl (fun G k => xfAt G (bx k) (by' k) (f k)) G = G := by
  intro l
  induction l with
  | nil => intro G; rfl
  | cons k l ih =>
    intro G
    simp only [List.foldl_cons]
    rw [xfAt_id _ _ _ _ (h k _)]
    exact ih G

/-- **`skip_consistent`** (reconstruction part): for a macroblock the encoder marks as skipped the
    decoder's skip path — prediction only, whatever the stale coefficient array holds — yields
    the encoder's reconstruction. -/
theorem skip_recon (K : Kernels) {B Bw : Int} (F : KernelFacts K B Bw) (hBw : 0 ≤ Bw) (qm : QuantMatrix) (mbX mbY : Nat) (c : Ctx)
    (d : MBDesc)
    (wf : d.WF) (hs : d.skip = true) (m : MBModes) (hm1 : m.isI4 = d.isI4) (hm2 : d.isI4 = true → m.imodes = d.i4modes)
    (hm3 : d.isI4 = false → m.imodes 0 = d.i16mode) (hm4 : m.uvmode = d.uvmode) (stale : Nat → Coeffs) :
    decRecon K mbX mbY c m (decSkipped stale) = encRecon K qm mbX mbY c d := by
  obtain ⟨z16, z4, zuv⟩ := skip_coeffs K F hBw qm d hs
  have hch : ∀ (e : Edge8) (base shift : Nat), 16 ≤ base → base + 3 < 24 →
      decChroma K mbX mbY e m (decSkipped stale) base shift = encChroma K qm mbX mbY e d base := by
    intro e base shift hb1 hb2
    unfold decChroma encChroma doUVTransform decSkipped
    dsimp only
    rw [hm4, F.pred8_same _ _ (checkMode_lt _ _ _ wf.uv)]
    simp only [Nat.zero_shiftRight, Nat.zero_and, ne_eq, not_true_eq_false, if_false]
    symm
    apply foldl_xfAt_id (fun k => K.encIdct (dequant qm.uvdc qm.uvac (d.levels (base + k.val))))
    intro k p
    rw [zuv (base + k.val) (by omega) (by have := k.isLt; omega), F.idct_zero]
  unfold decRecon encRecon
  rw [hch c.u 16 0 (by omega) (by omega), hch c.v 20 8 (by omega) (by omega)]
  congr 2
  unfold decLuma decSkipped
  cases hI : d.isI4
  · simp only [hm1, hI, Bool.false_eq_true, if_false, ne_eq, not_true_eq_false]
    rw [hm3 hI, F.pred16_same _ _ (checkMode_lt _ _ _ wf.i16)]
    unfold encLuma16
    symm
    apply foldl_xfAt_id (fun b => K.encIdct (encCoeffsY16 K qm d b))
    intro b p
    rw [z16 hI b, F.idct_zero]
  · simp only [hm1, hI, if_true]
    rw [decLumaLoop_eq K m _ true (fun _ p => p) (List.finRange 16) (loadY c) 0
      (fun j _ p => by rw [shiftN_zero]; exact doTransform_zero K _ _)]
    unfold encLuma4
    apply foldl_congr_fin
    intro G b
    simp only [if_true, hm2 hI]
    apply xfAt_congr
    rw [z4 hI b, F.idct_zero]

/-- **`recon_agree`** (reconstruction part, tokens parsed): `decRecon` on what `parseResiduals`
    stored equals `encRecon`. -/
theorem parsed_recon (K : Kernels) {B Bw : Int} (F : KernelFacts K B Bw) (qm : QuantMatrix) (mbX mbY : Nat) (c : Ctx) (d : MBDesc)
    (wf : d.WF) (hw : CoeffsWithin K qm d B Bw) (m : MBModes) (hm1 : m.isI4 = d.isI4) (hm2 : d.isI4 = true → m.imodes = d.i4modes)
    (hm3 : d.isI4 = false → m.imodes 0 = d.i16mode) (hm4 : m.uvmode = d.uvmode) :
    decRecon K mbX mbY c m (decCoeffs K qm d) = encRecon K qm mbX mbY c d := by
  unfold decRecon encRecon
  rw [luma_agree K F qm mbX mbY c d wf hw m hm1 hm2 hm3,
    chroma_agree K F qm mbX mbY c.u d wf hw m hm4 16 0 (Or.inl ⟨rfl, rfl⟩),
    chroma_agree K F qm mbX mbY c.v d wf hw m hm4 20 8 (Or.inr ⟨rfl, rfl⟩)]

/-- the row-parallel copy of the reconstruction is the serial one -/
theorem encReconPar_eq (K : Kernels) (qm : QuantMatrix) (mbX mbY : Nat) (c : Ctx) (d : MBDesc) :
    encReconPar K qm mbX mbY c d = encRecon K qm mbX mbY c d := rfl

end Webp.Proofs.VP8ReconXform
