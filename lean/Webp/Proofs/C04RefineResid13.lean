import Webp.Proofs.C04RefineResid12
/-
  C04 refinement, residuals, part 13: `parseResiduals` of a macroblock WITH a Y2 block (16×16 luma prediction) =
  `readResiduals`, on the reference decoder: the Y2 block (type 1) is `rStep … 24`, Go stores the inverse-WHT outputs in
  the sixteen luma DC slots (`ovI16`), the luma blocks are read from position 1 and leave them alone.
-/
namespace Webp.Proofs.C04RefineResid
open Webp.Spec.VP8
open Webp.Impl.VP8SyntaxBytes (P runR rd)
open Webp.Impl.VP8SyntaxBytes.T (YSt YSt2 UVSt)
open Webp.Impl.VP8Recon (Slot Coeffs QuantMatrix NzCtx)
open Webp.Proofs.C04RefineOps Webp.Proofs.C04RefineTokens
open Webp.Proofs.C04RefineHeader (pure_bind' runD_pure)
open Webp.Proofs.C04RefineModes (getD_setN)

/-- the DC values Go holds in the luma DC slots after the Y2 block: inverse WHT, or its DC-only shortcut -/
def ovI16 (K : Webp.Impl.VP8Recon.Kernels) (eob : Nat) (y2 : Coeffs) : Nat → Option Int := fun b =>
  if h : b < 16 then some ((if eob > 1 then K.iwht y2 else fun _ => Webp.Impl.VP8Recon.wrap16 ((y2 0 + 3) >>> 3)) ⟨b, h⟩) else none

theorem residuals_i16 (prob : Slot → UInt8) (probs : Array Nat) (hc0 : CoefOK prob probs 0) (hc1 : CoefOK prob probs 1)
    (hc2 : CoefOK prob probs 2) (hfix : FixedOK prob) (K : Webp.Impl.VP8Recon.Kernels) (q : DequantFactors) (n : NzCtx)
    (mbX : Nat) (A0 : Array Nat) (m : MBInfo) (cc : CoeffCtx) (hskip : m.skip = false) (hI : m.hasY2 = true)
    (h : NzRel mbX A0 n cc) (d : BoolDec) :
    ∃ res n' y2, runD prob (Webp.Impl.VP8SyntaxBytes.T.parseResiduals K (Webp.Proofs.C04RefineRecon.ofSpec q) false n) d =
        some ((res, n'), (readResiduals probs q mbX m cc d).2.2.2) ∧
      NzRel mbX A0 n' (readResiduals probs q mbX m cc d).2.2.1 ∧
      (∀ j : Fin 16, y2 j = (readBlock probs 1 0 (n.tnzDC + n.lnzDC) q.y2dc q.y2ac (24 * 16) (Array.replicate 400 0) d).2.1.getD
        (24 * 16 + j.val) 0) ∧
      StRel 24 (ovI16 K (readBlock probs 1 0 (n.tnzDC + n.lnzDC) q.y2dc q.y2ac (24 * 16) (Array.replicate 400 0) d).1 y2)
        res.coeffs (readResiduals probs q mbX m cc d).1 := by
  rw [readResiduals_eq]
  unfold specRes
  simp only [hskip, hI, Bool.false_eq_true, if_false, if_true]
  have htd := h.tdb; have hld := h.ldb
  have hasz : 9 * mbX + 9 ≤ cc.above.size := by have := h.asz; have := h.asz9; omega
  -- the Y2 block
  obtain ⟨y2, hrun, hst25⟩ := blk_sim prob probs 1 0 q.y2dc q.y2ac hc1 hfix (by omega) 25 (by omega) (9 * mbX + 8) 8 24 (by omega)
    (Array.replicate 400 0, cc.above, cc.left, d, 0, Array.replicate 25 0, false) (fun _ => none) (fun _ => Coeffs.zero)
    (stRel_zero 25) (fun hh => by cases hh) (n.tnzDC + n.lnzDC)
    (by show _ = cc.above.getD (9 * mbX + 8) 0 + cc.left.getD 8 0; rw [h.tdc, h.ldc]) (by omega)
  have e1 : rStep probs 1 0 q.y2dc q.y2ac (9 * mbX + 8) 8 24
      (Array.replicate 400 0, cc.above, cc.left, d, 0, Array.replicate 25 0, false) =
      ((readBlock probs 1 0 (n.tnzDC + n.lnzDC) q.y2dc q.y2ac (24 * 16) (Array.replicate 400 0) d).2.1,
       cc.above.setIfInBounds (9 * mbX + 8) (if (readBlock probs 1 0 (n.tnzDC + n.lnzDC) q.y2dc q.y2ac (24 * 16) (Array.replicate 400 0) d).1 > 0 then 1 else 0),
       cc.left.setIfInBounds 8 (if (readBlock probs 1 0 (n.tnzDC + n.lnzDC) q.y2dc q.y2ac (24 * 16) (Array.replicate 400 0) d).1 > 0 then 1 else 0),
       (rStep probs 1 0 q.y2dc q.y2ac (9 * mbX + 8) 8 24
        (Array.replicate 400 0, cc.above, cc.left, d, 0, Array.replicate 25 0, false)).2.2.2) := by
    unfold rStep
    simp only [h.tdc, h.ldc]
  generalize hR : readBlock probs 1 0 (n.tnzDC + n.lnzDC) q.y2dc q.y2ac (24 * 16) (Array.replicate 400 0) d = R at hrun e1 ⊢
  generalize hs1 : rStep probs 1 0 q.y2dc q.y2ac (9 * mbX + 8) 8 24
      (Array.replicate 400 0, cc.above, cc.left, d, 0, Array.replicate 25 0, false) = s1 at hrun hst25 e1 ⊢
  have hy2 : ∀ j : Fin 16, y2 j = s1.1.getD (24 * 16 + j.val) 0 := by
    intro j
    have := hst25.2 24 (by omega) j
    beta_reduce at this
    rw [if_pos rfl] at this
    rw [this]
    by_cases hj : j.val = 0
    · rw [if_pos hj, hj]; rfl
    · rw [if_neg hj]
  have hfr := readBlock_frame probs 1 0 (n.tnzDC + n.lnzDC) q.y2dc q.y2ac (24 * 16) (Array.replicate 400 0) d
  rw [hR] at hfr
  have hs11 : s1.1 = R.2.1 := by rw [e1]
  have hF1 : Flags mbX n.tnz n.lnz s1 := by
    rw [e1]
    refine ⟨fun k hk => ?_, fun k hk => ?_, by show 9 * mbX + 9 ≤ (cc.above.setIfInBounds _ _).size; rw [Array.size_setIfInBounds]; exact hasz,
      by show 9 ≤ (cc.left.setIfInBounds _ _).size; rw [Array.size_setIfInBounds]; exact h.lsz, h.tb, h.lb⟩
    · show (cc.above.setIfInBounds _ _).getD _ 0 = _
      rw [getD_setN, if_neg (by omega)]; exact h.t k hk
    · show (cc.left.setIfInBounds _ _).getD _ 0 = _
      rw [getD_setN, if_neg (by omega)]; exact h.l k hk
  have hst1 : StRel 24 (ovI16 K R.1 y2)
      (fun b => if h : b < 16 then Coeffs.zero.set 0 ((if R.1 > 1 then K.iwht y2 else fun _ => Webp.Impl.VP8Recon.wrap16 ((y2 0 + 3) >>> 3)) ⟨b, h⟩)
        else Coeffs.zero) s1.1 := by
    refine ⟨hst25.1, fun b hb j => ?_⟩
    have z1 : s1.1.getD (b * 16) 0 = 0 := by rw [hs11, hfr.2 _ (by omega), rep_getD]
    have z2 : s1.1.getD (b * 16 + j.val) 0 = 0 := by have := j.isLt; rw [hs11, hfr.2 _ (by omega), rep_getD]
    rw [z1, z2]
    unfold ovI16
    beta_reduce
    by_cases hb16 : b < 16
    · rw [dif_pos hb16, dif_pos hb16]
      by_cases hj : j.val = 0
      · rw [if_pos hj]
        have : j = 0 := Fin.ext hj
        subst this
        show (if (0 : Fin 16) = 0 then _ else _) = _
        rw [if_pos rfl]; rfl
      · rw [if_neg hj]
        show (if j = 0 then _ else Coeffs.zero j) = _
        rw [if_neg (fun e => hj (by rw [e]; rfl))]; rfl
    · rw [dif_neg hb16, dif_neg hb16]
      split <;> rfl
  obtain ⟨yr, ur, vr, hY, hU, hV, hF, hst, hfrm⟩ := planes_sim prob probs 0 1 q (Webp.Proofs.C04RefineRecon.ofSpec q) rfl rfl rfl rfl
    hc0 hc2 hfix (by omega) mbX (ovI16 K R.1 y2) (fun _ _ _ => Nat.le_refl 1)
    (fun b hb => by unfold ovI16; rw [dif_neg (by omega)]) n.tnz n.lnz _ s1 hF1 hst1
  generalize uvAll probs q mbX (yAll probs q mbX 0 1 s1) = S at hV hF hst hfrm ⊢
  generalize yFold probs q mbX 0 1 (List.range' 0 4) s1 = S1 at hY hU hV
  generalize uvFold probs q mbX 0 (List.range' 0 2) S1 = S2 at hU hV
  have hrun' : runD prob (Webp.Impl.VP8SyntaxBytes.T.getCoeffs 1 (n.tnzDC + n.lnzDC) q.y2dc q.y2ac 0 Coeffs.zero) d =
      some ((R.1, y2), s1.2.2.2.1) := hrun
  refine ⟨{ coeffs := vr.store, nonZeroY := yr.nonZeroY
            nonZeroUV := (ur.nzCoeffs <<< 0) % 4294967296 ||| (vr.nzCoeffs <<< 8) % 4294967296 },
    { tnz := (yr.tnz ||| ((ur.tnz <<< 4) <<< 0)) ||| ((vr.tnz <<< 4) <<< 2)
      lnz := ((yr.lnz >>> 4) ||| ((ur.lnz &&& 0xf0) <<< 0)) ||| ((vr.lnz &&& 0xf0) <<< 2)
      tnzDC := if R.1 > 0 then 1 else 0, lnzDC := if R.1 > 0 then 1 else 0 }, y2, ?_, ?_, ?_, hst⟩
  · unfold Webp.Impl.VP8SyntaxBytes.T.parseResiduals Webp.Impl.VP8SyntaxBytes.T.parseY2
    simp only [Bool.false_eq_true, ↓reduceIte]
    rw [runD_bind, runD_bind]
    show ((runD prob (Webp.Impl.VP8SyntaxBytes.T.getCoeffs 1 (n.tnzDC + n.lnzDC) q.y2dc q.y2ac 0 Coeffs.zero) d).bind _).bind _ = _
    rw [hrun']
    simp only [Option.bind_some, runD_pure]
    rw [runD_bind, show ([0, 1, 2, 3] : List Nat) = List.range' 0 4 from rfl]
    rw [hY]
    simp only [Option.bind_some]
    rw [runD_bind, show ([0, 1] : List Nat) = List.range' 0 2 from rfl, hU]
    simp only [Option.bind_some]
    rw [runD_bind, hV]
    rfl
  · refine ⟨hF.t, hF.l, ?_, ?_, fun i hi => ?_, ?_, h.asz9, hF.lsz, hF.tb, hF.lb, ite_le_one _, ite_le_one _⟩
    · rw [hfrm.a (9 * mbX + 8) (Or.inr (Nat.le_refl _)), e1]
      show (cc.above.setIfInBounds _ _).getD _ 0 = _
      rw [getD_setN]; exact if_pos ⟨rfl, by omega⟩
    · rw [hfrm.l 8 (Nat.le_refl _), e1]
      show (cc.left.setIfInBounds _ _).getD _ 0 = _
      rw [getD_setN]; exact if_pos ⟨rfl, by have := h.lsz; omega⟩
    · rw [hfrm.a i (by omega), e1]
      show (cc.above.setIfInBounds _ _).getD i 0 = _
      rw [getD_setN, if_neg (by omega)]; exact h.o i hi
    · rw [hfrm.asz, e1]
      show (cc.above.setIfInBounds _ _).size = _
      rw [Array.size_setIfInBounds]; exact h.asz
  · intro j; rw [hy2 j, hs11]

end Webp.Proofs.C04RefineResid
