import Webp.Proofs.ImportBasic
/-
  C19, /repo/encode.go: each fast path and each generic path equals its closed form.
-/
namespace Webp.Proofs.Import
open Webp.Go Webp.Impl.Import

/-- what a generic path needs from `NRGBAModel.Convert ∘ img.At`: on the picture it returns the
    colours `f` without panicking -/
def Shows (atFn : Int → Int → R RGBA8) (b : Rect) (w h : Nat) (f : Nat → Nat → RGBA8) : Prop :=
  b.dx = (w : Int) ∧ b.dy = (h : Int) ∧
  ∀ x y, x < w → y < h → atFn (b.minX + (x : Int)) (b.minY + (y : Int)) = .ok (f x y)

theorem shows_colorAt (img : Img) (v : Valid img) : Shows img.colorAt img.rect img.w img.h img.rel :=
  ⟨v.dx_eq, v.dy_eq, fun _ _ hx hy => colorAt_rel img v hx hy⟩

theorem wr_rowmajor {α : Type} (a : Array α) (w h x y : Nat) (hx : x < w) (hy : y < h)
    (hs : a.size = w * h) (v : α) :
    wr a ((y : Int) * (w : Int) + (x : Int)) v = .ok (a.setIfInBounds (y * w + x) v) := by
  have hlt : y * w + x < w * h := by
    have : (y + 1) * w ≤ h * w := Nat.mul_le_mul_right w hy
    rw [Nat.mul_comm w h]; rw [Nat.add_mul] at this; omega
  have : ((y : Int) * (w : Int) + (x : Int)) = ((y * w + x : Nat) : Int) := by push_cast; rfl
  rw [this, wr_ok _ _ _ (by omega)]

theorem Valid.bdx_eq {img : Img} (v : Valid img) : img.bounds.dx = (img.w : Int) := v.dx_eq
theorem Valid.bdy_eq {img : Img} (v : Valid img) : img.bounds.dy = (img.h : Int) := v.dy_eq

/-! ### lossless -/

theorem losslessDirect_spec (px : RGBA8 → RGBA8) (img : Img) (v : Valid img) (init : Array UInt32)
    (hsz : init.size = img.w * img.h) :
    losslessDirect px img init = .ok (argbOf (fun x y => px (img.rel x y)) img.w img.h) := by
  unfold losslessDirect argbOf
  simp only [rowOff_eq, Valid.bdx_eq v, Valid.bdy_eq v, Int.toNat_natCast]
  refine fill2D_spec img.w img.h _ (fun j => packARGB (px (img.rel (j % img.w) (j / img.w)))) ?_ init hsz
  intro x y a hx hy hs
  obtain ⟨e1, e2⟩ := divmod_rowmajor img.w x y hx
  simp only [ldPx_rel img v hx hy, Res.bind_ok, e1, e2]
  exact wr_rowmajor a _ _ x y hx hy hs _

theorem losslessGeneric_spec (atFn : Int → Int → R RGBA8) (b : Rect) (w h : Nat) (f : Nat → Nat → RGBA8)
    (hat : Shows atFn b w h f) (init : Array UInt32) (hsz : init.size = w * h) :
    losslessGeneric atFn b init = .ok (argbOf f w h) := by
  obtain ⟨hw, hh, hat⟩ := hat
  unfold losslessGeneric argbOf
  simp only [hw, hh, Int.toNat_natCast]
  refine fill2D_spec w h _ (fun j => packARGB (f (j % w) (j / w))) ?_ init hsz
  intro x y a hx hy hs
  obtain ⟨e1, e2⟩ := divmod_rowmajor w x y hx
  simp only [hat x y hx hy, Res.bind_ok, e1, e2]
  exact wr_rowmajor a _ _ x y hx hy hs _

/-! ### extractAlphaWith -/

theorem extractAlphaFast_spec (img : Img) (v : Valid img) (init : Array UInt8)
    (hsz : init.size = img.w * img.h) :
    extractAlphaFast img init = .ok (alphaOf img.rel img.w img.h) := by
  unfold extractAlphaFast alphaOf
  simp only [rowOff_eq, Valid.bdx_eq v, Valid.bdy_eq v, Int.toNat_natCast]
  refine rows_spec img.w img.h (fun j => (img.rel (j % img.w) (j / img.w)).a) _ ?_ init hsz
  intro y a hy ha
  refine forN_inv_proj
    (fun x (st : Array UInt8 × Int) =>
      Filled (fun j => (img.rel (j % img.w) (j / img.w)).a) (y * img.w + x) st.1 (img.w * img.h) ∧
      st.2 = (y : Int) * img.stride + (x : Int) * 4 + 3)
    ⟨by simpa using ha, by simp⟩ ?_ ?_
  · intro x st hx ⟨hf, ho⟩
    obtain ⟨e1, e2⟩ := divmod_rowmajor img.w x y hx
    have hlt : y * img.w + x < img.w * img.h := by
      have : (y + 1) * img.w ≤ img.h * img.w := Nat.mul_le_mul_right _ hy
      rw [Nat.mul_comm img.w img.h]; rw [Nat.add_mul] at this; omega
    refine ⟨(st.1.setIfInBounds (y * img.w + x) (img.rel x y).a, st.2 + 4), ?_, ?_, ?_⟩
    · simp only [ho, ld_a img v hx hy, Res.bind_ok, wr_rowmajor st.1 _ _ x y hx hy hf.1]
    · have := hf.set hlt
      simpa only [e1, e2, Nat.add_assoc] using this
    · simp only [ho]; omega
  · intro s' hs
    rw [Nat.add_mul, Nat.one_mul]; exact hs.1

theorem extractAlphaGeneric_spec (atFn : Int → Int → R RGBA8) (b : Rect) (w h : Nat) (f : Nat → Nat → RGBA8)
    (hat : Shows atFn b w h f) (init : Array UInt8) (hsz : init.size = w * h) :
    extractAlphaGeneric atFn b init = .ok (alphaOf f w h) := by
  obtain ⟨hw, hh, hat⟩ := hat
  unfold extractAlphaGeneric alphaOf
  simp only [hw, hh, Int.toNat_natCast]
  refine fill2D_spec w h _ (fun j => (f (j % w) (j / w)).a) ?_ init hsz
  intro x y a hx hy hs
  obtain ⟨e1, e2⟩ := divmod_rowmajor w x y hx
  simp only [hat x y hx hy, Res.bind_ok, e1, e2]
  exact wr_rowmajor a _ _ x y hx hy hs _

/-! ### imageHasAlpha (encode.go) -/

theorem forRangeI_eq {σ : Type} (lo hi : Int) (n : Nat) (hn : hi - lo = (n : Int))
    (body : Int → σ → R σ) (s : σ) :
    forRangeI lo hi body s = forN n (fun k s => body (lo + (k : Int)) s) s := by
  unfold forRangeI; rw [hn, Int.toNat_natCast]

theorem any_range_succ (n : Nat) (p : Nat → Bool) :
    (List.range (n + 1)).any p = ((List.range n).any p || p n) := by
  rw [List.range_succ, List.any_append]; simp

/-- a loop that returns `true` as soon as a row/pixel predicate holds computes `List.any` -/
theorem forN_any (n : Nat) (p : Nat → Bool) (body : Nat → Bool → R Bool)
    (hb : ∀ i, i < n → body i false = .ok (p i)) (hb' : ∀ i, body i true = .ok true) :
    forN n body false = .ok ((List.range n).any p) := by
  induction n with
  | zero => rfl
  | succ n ih =>
    rw [forN_succ, ih (fun i hi => hb i (by omega)), any_range_succ]
    cases h : (List.range n).any p
    · simpa using hb n (by omega)
    · simpa using hb' n

theorem alpha16NotOpaque_eq (c : RGBA8) : alpha16NotOpaque c = (c.a != 255) := by
  unfold alpha16NotOpaque
  generalize c.a = a
  revert a
  apply forall_uint8
  decide +kernel

theorem hasAlphaFast_spec (img : Img) (v : Valid img) :
    hasAlphaFast img = .ok (anyAlpha img.rel img.w img.h) := by
  unfold hasAlphaFast anyAlpha
  have hdy : img.bounds.maxY - img.bounds.minY = (img.h : Int) := v.dy_eq
  rw [forRangeI_eq _ _ img.h hdy]
  apply forN_any
  · intro y hy
    simp only [Bool.false_eq_true, if_false, Valid.bdx_eq v, Int.toNat_natCast]
    have hy' : img.bounds.minY + (y : Int) - img.bounds.minY = y := by omega
    rw [hy']
    refine forN_inv_eq
      (fun x (st : Bool × Int) =>
        st.1 = (List.range x).any (fun x' => (img.rel x' y).a != 255) ∧
        (st.1 = false → st.2 = (y : Int) * img.stride + (x : Int) * 4 + 3))
      ⟨by simp, by simp⟩ ?_ ?_
    · intro x st hx ⟨hf, ho⟩
      rw [any_range_succ, ← hf]
      cases hst : st.1
      · have ho' := ho hst
        simp only [Bool.false_eq_true, if_false, ho', ld_a img v hx hy, Res.bind_ok, Bool.false_or]
        by_cases ha : ((img.rel x y).a != 255) = true
        · exact ⟨_, by rw [if_pos ha], by simp only [ha], by simp⟩
        · refine ⟨_, by rw [if_neg ha], by simpa using ha, ?_⟩
          intro _; simp only; omega
      · exact ⟨st, by simp only [if_true], by simp [hst], by simp [hst]⟩
    · intro s' hs; exact hs.1
  · intro y; simp

theorem hasAlphaGeneric_spec (atFn : Int → Int → R RGBA8) (b : Rect) (w h : Nat) (f : Nat → Nat → RGBA8)
    (hat : Shows atFn b w h f) :
    hasAlphaGeneric atFn b = .ok (anyAlpha f w h) := by
  obtain ⟨hw, hh, hat⟩ := hat
  unfold hasAlphaGeneric anyAlpha
  unfold Rect.dx at hw
  unfold Rect.dy at hh
  rw [forRangeI_eq _ _ h hh]
  apply forN_any
  · intro y hy
    simp only [Bool.false_eq_true, if_false]
    rw [forRangeI_eq _ _ w hw]
    apply forN_any
    · intro x hx
      simp only [Bool.false_eq_true, if_false, hat x y hx hy, Res.bind_ok]
      congr 1
      exact alpha16NotOpaque_eq _
    · intro x; simp
  · intro y; simp

end Webp.Proofs.Import
