import Webp.Proofs.VP8LEntropyRev
/-
  The canonical prefix code of a length vector, as numbers:
    cnt l    number of symbols of length l
    first l  first code word of length l          first (l+1) = 2·(first l + cnt l)
    offs l   number of used symbols shorter than l
    idx s    rank of symbol s among the symbols of its own length
  and what the arrays of `Spec.buildCode` (`lengthCounts`, `lengthOffsets`, `sortSymbols`) contain.
-/
namespace Webp.Proofs.VP8LEntropyCanon
open Webp.Spec.VP8L

def cnt (lens : Array Nat) (l : Nat) : Nat := lens.toList.count l

/-- number of symbols of length `l`, none for "length 0" -/
def cnt' (lens : Array Nat) (l : Nat) : Nat := if l = 0 then 0 else cnt lens l

def first (lens : Array Nat) : Nat → Nat
  | 0 => 0
  | l + 1 => 2 * (first lens l + cnt' lens l)

def offs (lens : Array Nat) : Nat → Nat
  | 0 => 0
  | l + 1 => offs lens l + cnt' lens l

def idx (lens : Array Nat) (s : Nat) : Nat := (lens.toList.take s).count (lens.getD s 0)

/-- partial Kraft sums, scaled by 2^15 -/
def ks (lens : Array Nat) : Nat → Nat
  | 0 => 0
  | l + 1 => ks lens l + cnt' lens l * 2 ^ (15 - l)

/-! ## `lengthCounts` -/

theorem countFold_size (xs : List Nat) (init : Array Nat) :
    (xs.foldl (fun c l => c.modify l (· + 1)) init).size = init.size := by
  induction xs generalizing init with
  | nil => rfl
  | cons x r ih => simp [List.foldl, ih]

theorem countFold_getD (xs : List Nat) (init : Array Nat) (l : Nat) (hl : l < init.size) :
    (xs.foldl (fun c l => c.modify l (· + 1)) init).getD l 0 = init.getD l 0 + xs.count l := by
  induction xs generalizing init with
  | nil => simp
  | cons x r ih =>
    simp only [List.foldl]
    rw [ih _ (by simpa using hl), List.count_cons]
    have : (init.modify x (· + 1)).getD l 0 = init.getD l 0 + if (x == l) = true then 1 else 0 := by
      simp only [Array.getD_eq_getD_getElem?]
      rw [Array.getElem?_eq_getElem (by simpa using hl), Array.getElem?_eq_getElem hl, Array.getElem_modify]
      by_cases hx : x = l
      · simp [hx]
      · simp [hx]
    rw [this]; omega

theorem lengthCounts_size (lens : Array Nat) : (lengthCounts lens).size = 16 := by
  unfold lengthCounts
  rw [← Array.foldl_toList, countFold_size]
  simp [maxCodeLength]

theorem lengthCounts_getD (lens : Array Nat) (l : Nat) (hl : l < 16) :
    (lengthCounts lens).getD l 0 = cnt lens l := by
  unfold lengthCounts
  rw [← Array.foldl_toList, countFold_getD _ _ _ (by simpa [maxCodeLength] using hl)]
  simp [cnt, Array.getD_eq_getD_getElem?, maxCodeLength, hl]

theorem lengthCounts_getD_ge (lens : Array Nat) (l : Nat) (hl : 16 ≤ l) :
    (lengthCounts lens).getD l 0 = 0 := by
  have := lengthCounts_size lens
  simp only [Array.getD_eq_getD_getElem?]
  rw [Array.getElem?_eq_none (by omega)]
  rfl

/-! ## `lengthOffsets` -/

def offsC (counts : Array Nat) : Nat → Nat
  | 0 => 0
  | l + 1 => offsC counts l + (if l = 0 then 0 else counts.getD l 0)

def offsArr (counts : Array Nat) (n : Nat) : Array Nat :=
  Nat.fold n (fun l _ (offs : Array Nat) =>
      offs.push (offs.getD l 0 + (if l = 0 then 0 else counts.getD l 0))) #[0]

theorem offsArr_succ (counts : Array Nat) (n : Nat) :
    offsArr counts (n + 1) =
      (offsArr counts n).push ((offsArr counts n).getD n 0 + (if n = 0 then 0 else counts.getD n 0)) := by
  unfold offsArr; rw [Nat.fold_succ]

theorem lengthOffsets_aux (counts : Array Nat) (n : Nat) :
    (offsArr counts n).size = n + 1 ∧ ∀ l, l ≤ n → (offsArr counts n).getD l 0 = offsC counts l := by
  induction n with
  | zero =>
    refine ⟨rfl, ?_⟩
    intro l hl
    have : l = 0 := by omega
    subst this; rfl
  | succ n ih =>
    obtain ⟨hsz, hget⟩ := ih
    rw [offsArr_succ]
    generalize offsArr counts n = r at hsz hget
    refine ⟨by simp [hsz], ?_⟩
    intro l hl
    by_cases h : l = n + 1
    · subst h
      have e : (r.push (r.getD n 0 + if n = 0 then 0 else counts.getD n 0)).getD (n + 1) 0
          = r.getD n 0 + if n = 0 then 0 else counts.getD n 0 := by
        rw [Array.getD_eq_getD_getElem?, Array.getElem?_push, if_pos hsz.symm]; rfl
      rw [e, hget n (Nat.le_refl n), offsC]
    · have e : (r.push (r.getD n 0 + if n = 0 then 0 else counts.getD n 0)).getD l 0 = r.getD l 0 := by
        rw [Array.getD_eq_getD_getElem?, Array.getElem?_push, if_neg (by omega), ← Array.getD_eq_getD_getElem?]
      rw [e, hget l (by omega)]

theorem offsC_eq (lens : Array Nat) (l : Nat) (hl : l ≤ 16) :
    offsC (lengthCounts lens) l = offs lens l := by
  induction l with
  | zero => rfl
  | succ l ih =>
    rw [offsC, offs, ih (by omega), cnt']
    by_cases h0 : l = 0
    · simp [h0]
    · rw [if_neg h0, if_neg h0, lengthCounts_getD lens l (by omega)]

theorem lengthOffsets_getD (lens : Array Nat) (l : Nat) (hl : l ≤ 15) :
    (lengthOffsets (lengthCounts lens)).getD l 0 = offs lens l := by
  have := (lengthOffsets_aux (lengthCounts lens) 15).2 l hl
  rw [offsC_eq lens l (by omega)] at this
  exact this

theorem lengthOffsets_size (counts : Array Nat) : (lengthOffsets counts).size = 16 :=
  (lengthOffsets_aux counts 15).1

/-! ## facts about `offs`, `idx` -/

theorem offs_succ (lens : Array Nat) (l : Nat) : offs lens (l + 1) = offs lens l + cnt' lens l := rfl

theorem offs_mono (lens : Array Nat) {a b : Nat} (h : a ≤ b) : offs lens a ≤ offs lens b := by
  induction b with
  | zero => have : a = 0 := by omega
            subst this; exact Nat.le_refl _
  | succ b ih =>
    by_cases hab : a = b + 1
    · subst hab; exact Nat.le_refl _
    · have := ih (by omega)
      rw [offs_succ]; omega

theorem offs_add_cnt_le (lens : Array Nat) {a b : Nat} (h : a < b) :
    offs lens a + cnt' lens a ≤ offs lens b := by
  rw [← offs_succ]; exact offs_mono lens h

theorem take_count_le (xs : List Nat) (n v : Nat) : (xs.take n).count v ≤ xs.count v := by
  conv => rhs; rw [← List.take_append_drop n xs, List.count_append]
  omega

theorem getD_toList (lens : Array Nat) (s : Nat) : lens.toList.getD s 0 = lens.getD s 0 := by
  simp [Array.getD_eq_getD_getElem?, List.getD_eq_getElem?_getD]

theorem idx_lt_cnt (lens : Array Nat) (s : Nat) (hs : s < lens.size) : idx lens s < cnt lens (lens.getD s 0) := by
  unfold idx cnt
  have hx : lens.getD s 0 = lens.toList[s]'(by simpa using hs) := by
    simp [Array.getD_eq_getD_getElem?, hs]
  have h1 : lens.toList = lens.toList.take s ++ lens.toList[s]'(by simpa using hs) :: lens.toList.drop (s + 1) := by
    rw [List.getElem_cons_drop]; simp
  conv => rhs; rw [h1, List.count_append, List.count_cons]
  rw [hx]; simp

theorem idx_lt_idx (lens : Array Nat) (s n : Nat) (hsn : s < n) (hn : n < lens.size)
    (he : lens.getD s 0 = lens.getD n 0) : idx lens s < idx lens n := by
  unfold idx
  have hs : s < lens.size := by omega
  have hx : lens.getD s 0 = lens.toList[s]'(by simpa using hs) := by
    simp [Array.getD_eq_getD_getElem?, hs]
  have h1 : lens.toList.take n = lens.toList.take s ++ lens.toList[s]'(by simpa using hs) ::
      (lens.toList.take n).drop (s + 1) := by
    have h2 : (lens.toList.take n).take s = lens.toList.take s := by
      rw [List.take_take]; congr 1; omega
    have h3 : (lens.toList.take n)[s]'(by simp; omega) = lens.toList[s]'(by simpa using hs) := by simp
    rw [← h2, ← h3, List.getElem_cons_drop]; simp
  rw [← he]
  conv => rhs; rw [h1, List.count_append, List.count_cons]
  rw [hx]; simp

theorem idx_succ_count (lens : Array Nat) (n : Nat) (hn : n < lens.size) (v : Nat) :
    (lens.toList.take (n + 1)).count v = (lens.toList.take n).count v + if lens.getD n 0 = v then 1 else 0 := by
  rw [List.take_add_one, List.count_append]
  have : lens.toList[n]? = some (lens.getD n 0) := by
    simp [Array.getD_eq_getD_getElem?, hn]
  rw [this]
  simp [List.count_cons]

/-! ## every symbol is counted once -/

/-- `offs` on lists, to induct over the symbols -/
def offsL (xs : List Nat) : Nat → Nat
  | 0 => 0
  | l + 1 => offsL xs l + (if l = 0 then 0 else xs.count l)

theorem offsL_eq (lens : Array Nat) (l : Nat) : offsL lens.toList l = offs lens l := by
  induction l with
  | zero => rfl
  | succ l ih => rw [offsL, offs, ih, cnt', cnt]

theorem offsL_cons (x : Nat) (xs : List Nat) (l : Nat) :
    offsL (x :: xs) l = offsL xs l + (if 1 ≤ x ∧ x < l then 1 else 0) := by
  induction l with
  | zero => simp [offsL]
  | succ l ih =>
    rw [offsL, offsL, ih, List.count_cons]
    by_cases h0 : l = 0
    · subst h0
      have : ¬ (1 ≤ x ∧ x < 0 + 1) := by omega
      rw [if_neg this]; simp
    · rw [if_neg h0, if_neg h0]
      by_cases hx : x = l
      · subst hx
        have e1 : ¬ (1 ≤ x ∧ x < x) := by omega
        have e2 : (1 ≤ x ∧ x < x + 1) := by omega
        rw [if_neg e1, if_pos e2]; simp; omega
      · have : ¬ (x == l) = true := by simpa using hx
        rw [if_neg this]
        by_cases h1 : 1 ≤ x ∧ x < l
        · rw [if_pos h1, if_pos (by omega)]; omega
        · rw [if_neg h1, if_neg (by omega)]; omega

theorem length_eq_count_zero_add_offsL (xs : List Nat) (h : ∀ x ∈ xs, x ≤ 15) :
    xs.length = xs.count 0 + offsL xs 16 := by
  induction xs with
  | nil => simp [offsL]
  | cons x r ih =>
    have hr := ih (fun y hy => h y (List.mem_cons_of_mem _ hy))
    have hx := h x List.mem_cons_self
    rw [List.length_cons, offsL_cons, List.count_cons, hr]
    by_cases h0 : x = 0
    · subst h0; simp; omega
    · have : ¬ (x == 0) = true := by simpa using h0
      rw [if_neg this, if_pos (by omega)]; omega

theorem size_eq (lens : Array Nat) (h : ∀ x ∈ lens, x ≤ 15) : lens.size = cnt lens 0 + offs lens 16 := by
  have := length_eq_count_zero_add_offsL lens.toList (by simpa using h)
  rw [offsL_eq] at this
  simpa [cnt] using this

/-- number of used symbols -/
theorem used_eq (lens : Array Nat) (h : ∀ x ∈ lens, x ≤ 15) :
    lens.size - (lengthCounts lens).getD 0 0 = offs lens 16 := by
  rw [lengthCounts_getD lens 0 (by decide), size_eq lens h]; omega

/-! ## `sortSymbols` -/

/-- the state of the counting sort after the symbols `< n` -/
def sortState (lens : Array Nat) (n : Nat) : Array Nat × Array Nat :=
  Nat.fold n (fun s _ (acc : Array Nat × Array Nat) =>
    let l := lens.getD s 0
    if l = 0 then acc
    else
      let (sorted, offs) := acc
      let o := offs.getD l 0
      (sorted.setIfInBounds o s, offs.setIfInBounds l (o + 1)))
    (Array.replicate (lens.size - (lengthCounts lens).getD 0 0) 0, lengthOffsets (lengthCounts lens))

theorem sortState_succ (lens : Array Nat) (n : Nat) :
    sortState lens (n + 1) =
      (let acc := sortState lens n
       let l := lens.getD n 0
       if l = 0 then acc
       else
        let o := acc.2.getD l 0
        (acc.1.setIfInBounds o n, acc.2.setIfInBounds l (o + 1))) := by
  unfold sortState; rw [Nat.fold_succ]

theorem getD_setIfInBounds (a : Array Nat) (i j v : Nat) :
    (a.setIfInBounds i v).getD j 0 = if i = j ∧ i < a.size then v else a.getD j 0 := by
  simp only [Array.getD_eq_getD_getElem?, Array.getElem?_setIfInBounds]
  by_cases h : i = j
  · subst h
    by_cases h2 : i < a.size
    · simp [h2]
    · simp [h2]
  · simp [h]

theorem sortState_inv (lens : Array Nat) (h15 : ∀ x ∈ lens, x ≤ 15) (n : Nat) (hn : n ≤ lens.size) :
    (sortState lens n).1.size = offs lens 16 ∧ (sortState lens n).2.size = 16 ∧
    (∀ l, 1 ≤ l → l ≤ 15 → (sortState lens n).2.getD l 0 = offs lens l + (lens.toList.take n).count l) ∧
    (∀ s, s < n → lens.getD s 0 ≠ 0 →
        (sortState lens n).1.getD (offs lens (lens.getD s 0) + idx lens s) 0 = s) := by
  induction n with
  | zero =>
    refine ⟨?_, ?_, ?_, ?_⟩
    · simp only [sortState, Nat.fold_zero, Array.size_replicate]
      exact used_eq lens h15
    · simp [sortState, lengthOffsets_size]
    · intro l h1 h2
      simp only [sortState, Nat.fold_zero, List.take_zero, List.count_nil, Nat.add_zero]
      exact lengthOffsets_getD lens l h2
    · intro s hs; omega
  | succ n ih =>
    obtain ⟨hs1, hs2, hoffs, hsorted⟩ := ih (by omega)
    have hnlt : n < lens.size := by omega
    rw [sortState_succ]
    generalize sortState lens n = acc at hs1 hs2 hoffs hsorted
    simp only
    by_cases hl0 : lens.getD n 0 = 0
    · rw [if_pos hl0]
      refine ⟨hs1, hs2, ?_, ?_⟩
      · intro l h1 h2
        rw [hoffs l h1 h2, idx_succ_count lens n hnlt, if_neg (by omega)]; rfl
      · intro s hs hne
        have : s < n := by
          by_cases hsn : s = n
          · subst hsn; exact absurd hl0 hne
          · omega
        exact hsorted s this hne
    · rw [if_neg hl0]
      have hl15 : lens.getD n 0 ≤ 15 := by
        have : lens.getD n 0 = lens[n] := by simp [Array.getD_eq_getD_getElem?, hnlt]
        rw [this]; exact h15 _ (Array.getElem_mem hnlt)
      have hl1 : 1 ≤ lens.getD n 0 := by omega
      have ho : acc.2.getD (lens.getD n 0) 0 = offs lens (lens.getD n 0) + idx lens n := by
        rw [hoffs _ hl1 hl15]; rfl
      refine ⟨by simpa using hs1, by simpa using hs2, ?_, ?_⟩
      · intro l h1 h2
        simp only [getD_setIfInBounds]
        rw [idx_succ_count lens n hnlt]
        by_cases hll : lens.getD n 0 = l
        · rw [if_pos ⟨hll, by rw [hs2]; omega⟩, if_pos hll, ← hll, hoffs _ hl1 hl15]; omega
        · rw [if_neg (by intro hh; exact hll hh.1), if_neg hll, hoffs l h1 h2]; rfl
      · intro s hs hne
        simp only [getD_setIfInBounds, ho]
        have hbound : offs lens (lens.getD n 0) + idx lens n < acc.1.size := by
          rw [hs1]
          have h1 := idx_lt_cnt lens n hnlt
          have h2 : offs lens (lens.getD n 0) + cnt' lens (lens.getD n 0) ≤ offs lens 16 :=
            offs_add_cnt_le lens (by omega)
          rw [cnt', if_neg (by omega)] at h2
          omega
        by_cases hsn : s = n
        · subst hsn
          rw [if_pos ⟨rfl, hbound⟩]
        · have hslt : s < n := by omega
          have hsl : s < lens.size := by omega
          have hne2 : offs lens (lens.getD n 0) + idx lens n ≠ offs lens (lens.getD s 0) + idx lens s := by
            by_cases hll : lens.getD s 0 = lens.getD n 0
            · have := idx_lt_idx lens s n hslt hnlt hll
              rw [hll]; omega
            · have h1 := idx_lt_cnt lens n hnlt
              have h2 := idx_lt_cnt lens s hsl
              rcases Nat.lt_or_gt_of_ne hll with hlt | hgt
              · have := offs_add_cnt_le lens hlt
                rw [cnt', if_neg hne] at this; omega
              · have := offs_add_cnt_le lens hgt
                rw [cnt', if_neg hl0] at this; omega
          rw [if_neg (by intro hh; exact hne2 hh.1)]
          exact hsorted s hslt hne

theorem sortSymbols_eq (lens : Array Nat) :
    sortSymbols lens (lengthCounts lens) = (sortState lens lens.size).1 := rfl

/-- **the counting sort puts symbol `s` at position `offs (len s) + idx s`** -/
theorem sortSymbols_getD (lens : Array Nat) (h15 : ∀ x ∈ lens, x ≤ 15) (s : Nat) (hs : s < lens.size)
    (hne : lens.getD s 0 ≠ 0) :
    (sortSymbols lens (lengthCounts lens)).getD (offs lens (lens.getD s 0) + idx lens s) 0 = s := by
  rw [sortSymbols_eq]
  exact (sortState_inv lens h15 lens.size (Nat.le_refl _)).2.2.2 s hs hne

theorem sortSymbols_size (lens : Array Nat) (h15 : ∀ x ∈ lens, x ≤ 15) :
    (sortSymbols lens (lengthCounts lens)).size = offs lens 16 := by
  rw [sortSymbols_eq]
  exact (sortState_inv lens h15 lens.size (Nat.le_refl _)).1

/-! ## Kraft sums -/

def ksL (xs : List Nat) : Nat → Nat
  | 0 => 0
  | l + 1 => ksL xs l + (if l = 0 then 0 else xs.count l) * 2 ^ (15 - l)

theorem ksL_eq (lens : Array Nat) (l : Nat) : ksL lens.toList l = ks lens l := by
  induction l with
  | zero => rfl
  | succ l ih => rw [ksL, ks, ih, cnt', cnt]

theorem ksL_cons (x : Nat) (xs : List Nat) (l : Nat) :
    ksL (x :: xs) l = ksL xs l + (if 1 ≤ x ∧ x < l then 2 ^ (15 - x) else 0) := by
  induction l with
  | zero => simp [ksL]
  | succ l ih =>
    rw [ksL, ksL, ih, List.count_cons]
    by_cases h0 : l = 0
    · subst h0
      have : ¬ (1 ≤ x ∧ x < 0 + 1) := by omega
      rw [if_neg this]; simp
    · rw [if_neg h0, if_neg h0]
      by_cases hx : x = l
      · subst hx
        have e1 : ¬ (1 ≤ x ∧ x < x) := by omega
        have e2 : (1 ≤ x ∧ x < x + 1) := by omega
        rw [if_neg e1, if_pos e2]
        simp only [beq_self_eq_true, if_true, Nat.add_mul, Nat.one_mul]; omega
      · have : ¬ (x == l) = true := by simpa using hx
        rw [if_neg this]
        by_cases h1 : 1 ≤ x ∧ x < l
        · rw [if_pos h1, if_pos (by omega)]; simp only [Nat.add_zero]; omega
        · rw [if_neg h1, if_neg (by omega)]; simp only [Nat.add_zero]

theorem kraftFold (xs : List Nat) (init : Nat) (h : ∀ x ∈ xs, x ≤ 15) :
    xs.foldl (fun s l => if l = 0 then s else s + 2 ^ (maxCodeLength - l)) init = init + ksL xs 16 := by
  induction xs generalizing init with
  | nil => simp [ksL]
  | cons x r ih =>
    have hx := h x List.mem_cons_self
    rw [List.foldl, ih _ (fun y hy => h y (List.mem_cons_of_mem _ hy)), ksL_cons]
    by_cases h0 : x = 0
    · subst h0; simp
    · rw [if_neg h0, if_pos (by omega)]; simp [maxCodeLength]; omega

theorem kraftSum_eq (lens : Array Nat) (h : ∀ x ∈ lens, x ≤ 15) : kraftSum lens = ks lens 16 := by
  unfold kraftSum
  rw [← Array.foldl_toList, kraftFold _ _ (by simpa using h), ksL_eq]; simp

theorem ks_mono (lens : Array Nat) {a b : Nat} (h : a ≤ b) : ks lens a ≤ ks lens b := by
  induction b with
  | zero => have : a = 0 := by omega
            subst this; exact Nat.le_refl _
  | succ b ih =>
    by_cases hab : a = b + 1
    · subst hab; exact Nat.le_refl _
    · have := ih (by omega)
      rw [ks]; omega

/-- `first l`, left-aligned to 15 bits, is the Kraft sum of the shorter codes -/
theorem first_mul (lens : Array Nat) (l : Nat) (hl : l ≤ 15) : first lens l * 2 ^ (15 - l) = ks lens l := by
  induction l with
  | zero => simp [first, ks]
  | succ l ih =>
    rw [first, ks, ← ih (by omega)]
    have : 15 - l = (15 - (l + 1)) + 1 := by omega
    rw [this, Nat.pow_succ]
    generalize 2 ^ (15 - (l + 1)) = p
    rw [Nat.mul_comm 2, Nat.mul_assoc, Nat.mul_comm 2 p, ← Nat.add_mul]

theorem first_add_cnt_mul (lens : Array Nat) (l : Nat) (hl : l ≤ 15) :
    (first lens l + cnt' lens l) * 2 ^ (15 - l) = ks lens (l + 1) := by
  rw [Nat.add_mul, first_mul lens l hl, ks]

/-- in a code that is not over-subscribed all code words of length `l` are below `2^l` -/
theorem first_add_cnt_le (lens : Array Nat) (l : Nat) (hl : l ≤ 15) (hk : ks lens 16 ≤ 2 ^ 15) :
    first lens l + cnt' lens l ≤ 2 ^ l := by
  have h1 := first_add_cnt_mul lens l hl
  have h2 : ks lens (l + 1) ≤ ks lens 16 := ks_mono lens (by omega)
  have h3 : 2 ^ 15 = 2 ^ l * 2 ^ (15 - l) := by rw [← Nat.pow_add]; congr 1; omega
  have hp : 0 < 2 ^ (15 - l) := Nat.pow_pos (by decide)
  have : (first lens l + cnt' lens l) * 2 ^ (15 - l) ≤ 2 ^ l * 2 ^ (15 - l) := by omega
  exact Nat.le_of_mul_le_mul_right this hp

/-- the code words of length `l` all lie above the (shifted) shorter ones: the prefix property -/
theorem first_ge (lens : Array Nat) {j l : Nat} (h : j < l) :
    (first lens j + cnt' lens j) * 2 ^ (l - j) ≤ first lens l := by
  induction l with
  | zero => omega
  | succ l ih =>
    rw [first]
    by_cases hjl : j = l
    · subst hjl
      have : j + 1 - j = 1 := by omega
      rw [this]; omega
    · have := ih (by omega)
      have e : l + 1 - j = (l - j) + 1 := by omega
      rw [e, Nat.pow_succ, ← Nat.mul_assoc]
      omega

/-! ## what `buildCode` accepts -/

theorem buildCode_ok {lens : Array Nat} {code : Code} (h : buildCode lens = .ok code) :
    (∀ x ∈ lens, x ≤ 15) ∧ 0 < offs lens 16 ∧ (offs lens 16 = 1 ∨ ks lens 16 = 2 ^ 15) ∧
    code.counts = (lengthCounts lens).setIfInBounds 0 0 ∧
    code.symbols = sortSymbols lens (lengthCounts lens) := by
  unfold buildCode at h
  by_cases hany : lens.any (· > maxCodeLength) = true
  · rw [if_pos hany] at h; cases h
  · rw [if_neg hany] at h
    have h15 : ∀ x ∈ lens, x ≤ 15 := by
      intro x hx
      obtain ⟨i, hi, rfl⟩ := Array.mem_iff_getElem.mp hx
      by_cases hgt : lens[i] ≤ 15
      · exact hgt
      · exfalso; apply hany
        rw [Array.any_eq_true]
        exact ⟨i, hi, by simp [maxCodeLength]; omega⟩
    simp only at h
    rw [used_eq lens h15, kraftSum_eq lens h15] at h
    by_cases hu : offs lens 16 = 0
    · rw [if_pos hu] at h; cases h
    · rw [if_neg hu] at h
      by_cases h1 : offs lens 16 ≠ 1 ∧ ks lens 16 > 2 ^ maxCodeLength
      · rw [if_pos h1] at h; cases h
      · rw [if_neg h1] at h
        by_cases h2 : offs lens 16 ≠ 1 ∧ ks lens 16 < 2 ^ maxCodeLength
        · rw [if_pos h2] at h; cases h
        · rw [if_neg h2] at h
          injection h with h
          subst h
          refine ⟨h15, by omega, ?_, rfl, rfl⟩
          simp only [maxCodeLength] at h1 h2
          by_cases hone : offs lens 16 = 1
          · exact Or.inl hone
          · right; omega

end Webp.Proofs.VP8LEntropyCanon
