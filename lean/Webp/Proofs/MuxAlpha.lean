import Webp.Proofs.MuxDemuxExt
/-
  The muxer's VP8X alpha flag (`hasAlpha`) is set exactly when some frame carries an ALPH chunk or
  is a VP8L bitstream with the alpha bit.
-/
namespace Webp.Proofs.MuxAlpha
open Webp.Go Webp.Impl Webp.Impl.Mux Webp.Proofs.MuxBytes Webp.Proofs.MuxChunk
  Webp.Proofs.MuxAccepted Webp.Proofs.MuxCore Webp.Proofs.MuxExpect Webp.Proofs.MuxSimple Webp.Proofs.MuxDemuxExt
open Webp.Impl.Demux (splitAlphaAndBitstream frameDimensions)
open Webp.Impl.Parser (ccVP8 ccVP8L ccALPH)

/-- a frame carries transparency information -/
def frameAlpha (data : Bytes) : Bool :=
  (splitAlphaAndBitstream data).1.isSome || (isLossless data && vp8lA (splitAlphaAndBitstream data).2)

theorem le32_alph_byte0 {d : Bytes} (h : le32 d 0 = ccALPH) : byteAt d 0 = 65 := by
  have h1 := byteAt_lt d 0
  have h2 := byteAt_lt d 1
  have h3 := byteAt_lt d 2
  have h4 := byteAt_lt d 3
  rw [ccALPH_val] at h
  unfold le32 at h
  simp only [Nat.zero_add] at h
  omega

theorem frame_hasAlpha_eq (data : Bytes) (hok : frameOK data = true) :
    ((decide (data.length ≥ 12) && decide (le32 data 0 = ccALPH)) ||
      (decide (data.length ≥ 5) && decide (byteAt data 0 = 0x2f) &&
        (match Demux.parseVP8LDimensions data with
         | .ok (_, _, alpha) => alpha
         | _ => false))) = frameAlpha data := by
  unfold frameAlpha
  unfold frameOK at hok
  cases hα : (splitAlphaAndBitstream data).1 with
  | some a =>
    rw [hα] at hok
    simp only [Option.isSome_some, if_true] at hok
    have ff := vp8OK_facts hok
    have hsp := split_eq data
    have hcond : (data.length ≥ 8 ∧ le32 data 0 = ccALPH) ∧ 8 + le32 data 4 ≤ data.length := by
      by_cases hc : (data.length ≥ 8 ∧ le32 data 0 = ccALPH) ∧ 8 + le32 data 4 ≤ data.length
      · exact hc
      · rw [if_neg hc] at hsp
        rw [hsp] at hα
        simp at hα
    rw [if_pos hcond] at hsp
    have hbs : (splitAlphaAndBitstream data).2.length ≤ data.length - 8 := by
      rw [hsp]
      simp only [List.length_drop]
      split <;> omega
    have := ff.len
    have h12 : data.length ≥ 12 := by omega
    simp [h12, hcond.1.2]
  | none =>
    rw [hα] at hok
    have hbs := split_none hα
    rw [hbs] at hok ⊢
    simp only [Option.isSome_none, Bool.false_eq_true, if_false, Bool.or_eq_true] at hok
    simp only [Option.isSome_none, Bool.false_or]
    rcases hok with h8 | h8l
    · have ff := vp8OK_facts h8
      have hne : ¬ le32 data 0 = ccALPH := by
        intro h; have := le32_alph_byte0 h; have := ff.key; omega
      have hd := ff.detect
      simp [hne, ff.notVP8L, isLossless, hbs, hd, cc_img_ne.2.2.2.2.2.2.2.2.2.2.2.2.2.2.2.2.2.2.2]
    · have ff := vp8lOK_facts h8l
      have hne : ¬ le32 data 0 = ccALPH := by
        intro h; have := le32_alph_byte0 h; have := ff.sig; omega
      have hd := ff.detect
      have h5 : data.length ≥ 5 := ff.len
      simp [hne, ff.sig, h5, isLossless, hbs, hd, ff.demuxDims]

theorem any_congr_mem {α} (l : List α) (F G : α → Bool) (h : ∀ a ∈ l, F a = G a) : l.any F = l.any G := by
  induction l with
  | nil => rfl
  | cons a l ih =>
    simp only [List.any_cons]
    rw [h a (List.mem_cons_self), ih (fun b hb => h b (List.mem_cons_of_mem _ hb))]

/-- mux.go hasAlpha = "some frame carries transparency information" -/
theorem hasAlpha_eq (s : MuxState) (hok : ∀ f ∈ s.frames, frameOK f.data = true) :
    hasAlpha s = s.frames.any fun f => frameAlpha f.data := by
  unfold hasAlpha
  apply any_congr_mem
  intro f hf
  exact frame_hasAlpha_eq f.data (hok f hf)

end Webp.Proofs.MuxAlpha
