import Webp.Props.C04FuncsFilter
import Webp.Proofs.FuncsListOps
/-
  Helper definitions and lemmas for `Webp/Props/C04FuncsFilterApply.lean`: the eight samples
  across an edge read from a plane (`segAt`), the write-back terms produced by the translated
  `doFilter2/4/6` (`writeSeg2/4/6`), read-back and frame lemmas, and `forRangeM` as a fold.
-/
namespace Webp.Proofs.FuncsFilterApply
open Webp.Go Webp.Go.IntSem Webp.Proofs.FuncsBridge Webp.Proofs.FuncsListOps
open Webp.Props.C04FuncsFilter (toR)
open Webp.Impl.VP8Kernels (Seg)

/-! ## `toR` is a monad morphism -/

theorem toR_bind {α β : Type} (o : Option α) (f : α → Option β) :
    toR (o.bind f) = (toR o).bind fun a => toR (f a) := by cases o <;> rfl
theorem toR_some {α : Type} (a : α) : toR (some a) = .ok a := rfl
theorem toR_none {α : Type} : toR (none : Option α) = .panic := rfl
theorem toR_ite {α : Type} (c : Prop) [Decidable c] (x y : Option α) :
    toR (if c then x else y) = if c then toR x else toR y := by split <;> rfl
theorem res_bind_assoc {α β γ : Type} (x : R α) (f : α → R β) (g : β → R γ) :
    (x.bind f).bind g = x.bind fun a => (f a).bind g := by cases x <;> rfl
theorem res_ite_bind {α β : Type} (c : Prop) [Decidable c] (x y : R α) (g : α → R β) :
    (if c then x else y).bind g = if c then x.bind g else y.bind g := by split <;> rfl
theorem panic_bind {α β : Type} (f : α → R β) : (Res.panic : R α).bind f = .panic := rfl

/-! ## indices, reads, writes -/

/-- `0 ≤ i < len p`: the Go index `p[i]` does not panic -/
def InR (p : List Int) (i : Int) : Prop := 0 ≤ i ∧ i < (p.length : Int)

instance (p : List Int) (i : Int) : Decidable (InR p i) :=
  inferInstanceAs (Decidable (0 ≤ i ∧ i < (p.length : Int)))

/-- `p[i]` for an in-range index (0 outside) -/
def at' (p : List Int) (i : Int) : Int := if i < 0 then 0 else p.getD i.toNat 0

/-- the eight samples across the edge at `off`, spaced by `step` -/
def segAt (p : List Int) (off step : Int) : Seg :=
  { p3 := at' p (off - 4 * step), p2 := at' p (off - 3 * step), p1 := at' p (off - 2 * step),
    p0 := at' p (off - step), q0 := at' p off, q1 := at' p (off + step),
    q2 := at' p (off + 2 * step), q3 := at' p (off + 3 * step) }

/-- the writes of `doFilter2`, in program order -/
def writeSeg2 (p : List Int) (off step : Int) (s : Seg) : List Int :=
  (p.set (off - step).toNat s.p0).set off.toNat s.q0

/-- the writes of `doFilter4`, in program order -/
def writeSeg4 (p : List Int) (off step : Int) (s : Seg) : List Int :=
  (((p.set (off - 2 * step).toNat s.p1).set (off - step).toNat s.p0).set off.toNat s.q0).set
    (off + step).toNat s.q1

/-- the writes of `doFilter6`, in program order -/
def writeSeg6 (p : List Int) (off step : Int) (s : Seg) : List Int :=
  (((((p.set (off - 3 * step).toNat s.p2).set (off - 2 * step).toNat s.p1).set (off - step).toNat
    s.p0).set off.toNat s.q0).set (off + step).toNat s.q1).set (off + 2 * step).toNat s.q2

/-- indices read and written by `doFilter2` / `doFilter4` -/
structure Touch4 (p : List Int) (off step : Int) : Prop where
  p1 : InR p (off - 2 * step)
  p0 : InR p (off - step)
  q0 : InR p off
  q1 : InR p (off + step)

/-- indices read and written by `doFilter6` -/
structure Touch6 (p : List Int) (off step : Int) : Prop extends Touch4 p off step where
  p2 : InR p (off - 3 * step)
  q2 : InR p (off + 2 * step)

/-- indices read by one position of `filterLoop26` / `filterLoop24` -/
structure Touch8 (p : List Int) (off step : Int) : Prop extends Touch6 p off step where
  p3 : InR p (off - 4 * step)
  q3 : InR p (off + 3 * step)

theorem touch4_of_pos (p : List Int) (off step : Int) (hs : 0 < step) (h0 : 0 ≤ off - 2 * step)
    (h1 : off + step < p.length) : Touch4 p off step := by
  refine ⟨?_, ?_, ?_, ?_⟩ <;> unfold InR <;> omega

theorem touch6_of_pos (p : List Int) (off step : Int) (hs : 0 < step) (h0 : 0 ≤ off - 3 * step)
    (h1 : off + 2 * step < p.length) : Touch6 p off step := by
  refine ⟨⟨?_, ?_, ?_, ?_⟩, ?_, ?_⟩ <;> unfold InR <;> omega

theorem touch8_of_pos (p : List Int) (off step : Int) (hs : 0 < step) (h0 : 0 ≤ off - 4 * step)
    (h1 : off + 3 * step < p.length) : Touch8 p off step := by
  refine ⟨⟨⟨?_, ?_, ?_, ?_⟩, ?_, ?_⟩, ?_, ?_⟩ <;> unfold InR <;> omega

/-- the `Touch` predicates only depend on the length of the plane -/
theorem InR_congr {p q : List Int} (hl : p.length = q.length) (i : Int) : InR p i ↔ InR q i := by
  unfold InR; rw [hl]
theorem Touch4_congr {p q : List Int} (hl : p.length = q.length) {off step : Int}
    (h : Touch4 p off step) : Touch4 q off step :=
  ⟨(InR_congr hl _).1 h.p1, (InR_congr hl _).1 h.p0, (InR_congr hl _).1 h.q0, (InR_congr hl _).1 h.q1⟩
theorem Touch6_congr {p q : List Int} (hl : p.length = q.length) {off step : Int}
    (h : Touch6 p off step) : Touch6 q off step :=
  ⟨Touch4_congr hl h.toTouch4, (InR_congr hl _).1 h.p2, (InR_congr hl _).1 h.q2⟩
theorem Touch8_congr {p q : List Int} (hl : p.length = q.length) {off step : Int}
    (h : Touch8 p off step) : Touch8 q off step :=
  ⟨Touch6_congr hl h.toTouch6, (InR_congr hl _).1 h.p3, (InR_congr hl _).1 h.q3⟩

theorem idxI_inR (p : List Int) (i : Int) (h : InR p i) : idxI p i = .ok (at' p i) := by
  rw [idxI_ok p i h.1 h.2]; unfold at'; simp [Int.not_lt.mpr h.1]

theorem idxI_not_inR (p : List Int) (i : Int) (h : ¬ InR p i) : idxI p i = .panic := by
  unfold InR at h
  by_cases h0 : i < 0
  · exact idxI_neg p i h0
  · exact idxI_ge p i (by omega)

theorem setI_inR (p : List Int) (i v : Int) (h : InR p i) : setI p i v = .ok (p.set i.toNat v) :=
  setI_ok p i v h.1 h.2

@[simp] theorem inR_set_iff (p : List Int) (i : Int) (j : Nat) (v : Int) :
    InR (p.set j v) i ↔ InR p i := by
  unfold InR; rw [List.length_set]

/-- reading position `j` after a write at an in-range `i` -/
theorem at_set (p : List Int) (i j : Int) (v : Int) (hi : InR p i) :
    at' (p.set i.toNat v) j = if i = j then v else at' p j := by
  unfold at' InR at *
  by_cases hj : j < 0
  · have : ¬ i = j := by omega
    simp [hj, this]
  · rw [getD_set]
    by_cases h : i = j
    · subst h; simp [hj]; omega
    · have : ¬ i.toNat = j.toNat := by omega
      simp [h, this]

/-- two planes of the same length with the same in-range reads are equal -/
theorem ext_at' (p q : List Int) (hl : p.length = q.length)
    (h : ∀ j, InR p j → at' p j = at' q j) : p = q := by
  apply List.ext_getElem hl
  intro n h1 h2
  have := h (n : Int) ⟨by omega, by omega⟩
  unfold at' at this
  have hn : ¬ ((n : Int) < 0) := by omega
  simpa [hn, List.getD, List.getElem?_eq_getElem h1, List.getElem?_eq_getElem h2] using this

theorem length_writeSeg2 (p : List Int) (off step : Int) (s : Seg) :
    (writeSeg2 p off step s).length = p.length := by simp [writeSeg2]
theorem length_writeSeg4 (p : List Int) (off step : Int) (s : Seg) :
    (writeSeg4 p off step s).length = p.length := by simp [writeSeg4]
theorem length_writeSeg6 (p : List Int) (off step : Int) (s : Seg) :
    (writeSeg6 p off step s).length = p.length := by simp [writeSeg6]

/-- reads after the writes of `doFilter2` (the later write wins) -/
theorem at_writeSeg2 (p : List Int) (off step : Int) (s : Seg) (h : Touch4 p off step) (j : Int) :
    at' (writeSeg2 p off step s) j
      = if off = j then s.q0 else if off - step = j then s.p0 else at' p j := by
  unfold writeSeg2
  rw [at_set _ _ _ _ (by simp [h.q0]), at_set _ _ _ _ h.p0]

theorem at_writeSeg4 (p : List Int) (off step : Int) (s : Seg) (h : Touch4 p off step) (j : Int) :
    at' (writeSeg4 p off step s) j
      = if off + step = j then s.q1 else if off = j then s.q0 else if off - step = j then s.p0
        else if off - 2 * step = j then s.p1 else at' p j := by
  unfold writeSeg4
  rw [at_set _ _ _ _ (by simp [h.q1]), at_set _ _ _ _ (by simp [h.q0]),
    at_set _ _ _ _ (by simp [h.p0]), at_set _ _ _ _ h.p1]

theorem at_writeSeg6 (p : List Int) (off step : Int) (s : Seg) (h : Touch6 p off step) (j : Int) :
    at' (writeSeg6 p off step s) j
      = if off + 2 * step = j then s.q2 else if off + step = j then s.q1 else if off = j then s.q0
        else if off - step = j then s.p0 else if off - 2 * step = j then s.p1
        else if off - 3 * step = j then s.p2 else at' p j := by
  unfold writeSeg6
  rw [at_set _ _ _ _ (by simp [h.q2]), at_set _ _ _ _ (by simp [h.q1]),
    at_set _ _ _ _ (by simp [h.q0]), at_set _ _ _ _ (by simp [h.p0]),
    at_set _ _ _ _ (by simp [h.p1]), at_set _ _ _ _ h.p2]

/-! ## frame lemmas of the model filters -/

namespace K
open Webp.Impl.VP8Kernels
theorem doFilter2_frame (s s' : Seg) (h : doFilter2 s = some s') :
    s' = { s with p0 := s'.p0, q0 := s'.q0 } := by
  simp only [doFilter2, Option.bind_eq_bind, Option.pure_def, Option.bind_eq_some_iff] at h
  obtain ⟨_, _, _, _, _, _, _, _, _, _, h⟩ := h
  cases h; rfl
theorem doFilter4_frame (s s' : Seg) (h : doFilter4 s = some s') :
    s' = { s with p1 := s'.p1, p0 := s'.p0, q0 := s'.q0, q1 := s'.q1 } := by
  simp only [doFilter4, Option.bind_eq_bind, Option.pure_def, Option.bind_eq_some_iff] at h
  obtain ⟨_, _, _, _, _, _, _, _, _, _, _, _, h⟩ := h
  cases h; rfl
theorem doFilter6_frame (s s' : Seg) (h : doFilter6 s = some s') :
    s' = { s with p2 := s'.p2, p1 := s'.p1, p0 := s'.p0, q0 := s'.q0, q1 := s'.q1, q2 := s'.q2 } := by
  simp only [doFilter6, Option.bind_eq_bind, Option.pure_def, Option.bind_eq_some_iff] at h
  obtain ⟨_, _, _, _, _, _, _, _, _, _, _, _, _, _, _, _, h⟩ := h
  cases h; rfl
end K

theorem segAt_writeSeg2 (p : List Int) (off step : Int) (h : Touch4 p off step) (hs : step ≠ 0)
    (s' : Seg) (hm : Webp.Impl.VP8Kernels.doFilter2 (segAt p off step) = some s') :
    segAt (writeSeg2 p off step s') off step = s' := by
  rw [K.doFilter2_frame _ _ hm]
  simp (disch := omega) only [segAt, at_writeSeg2 p off step _ h, if_neg, if_true]

theorem segAt_writeSeg4 (p : List Int) (off step : Int) (h : Touch4 p off step) (hs : step ≠ 0)
    (s' : Seg) (hm : Webp.Impl.VP8Kernels.doFilter4 (segAt p off step) = some s') :
    segAt (writeSeg4 p off step s') off step = s' := by
  rw [K.doFilter4_frame _ _ hm]
  simp (disch := omega) only [segAt, at_writeSeg4 p off step _ h, if_neg, if_true]

theorem segAt_writeSeg6 (p : List Int) (off step : Int) (h : Touch6 p off step) (hs : step ≠ 0)
    (s' : Seg) (hm : Webp.Impl.VP8Kernels.doFilter6 (segAt p off step) = some s') :
    segAt (writeSeg6 p off step s') off step = s' := by
  rw [K.doFilter6_frame _ _ hm]
  simp (disch := omega) only [segAt, at_writeSeg6 p off step _ h, if_neg, if_true]

/-- writing back what was read changes nothing -/
theorem writeSeg2_self (p : List Int) (off step : Int) (h : Touch4 p off step) :
    writeSeg2 p off step (segAt p off step) = p := by
  apply ext_at' _ _ (length_writeSeg2 ..)
  intro j _
  rw [at_writeSeg2 p off step _ h]
  simp only [segAt]
  split
  · subst_vars; rfl
  · split
    · subst_vars; rfl
    · rfl

/-- a segment that agrees with the plane outside `p0 q0`: the six writes are the two writes -/
theorem writeSeg6_eq_writeSeg2 (p : List Int) (off step : Int) (h : Touch6 p off step) (hs : step ≠ 0)
    (s : Seg) (e : s = { segAt p off step with p0 := s.p0, q0 := s.q0 }) :
    writeSeg6 p off step s = writeSeg2 p off step s := by
  apply ext_at' _ _ (by rw [length_writeSeg6, length_writeSeg2])
  intro j _
  rw [at_writeSeg2 p off step _ h.toTouch4, at_writeSeg6 p off step _ h, e]
  simp only [segAt]
  repeat' split
  all_goals first | rfl | omega | (subst_vars; rfl)

theorem writeSeg4_eq_writeSeg2 (p : List Int) (off step : Int) (h : Touch4 p off step) (hs : step ≠ 0)
    (s : Seg) (e : s = { segAt p off step with p0 := s.p0, q0 := s.q0 }) :
    writeSeg4 p off step s = writeSeg2 p off step s := by
  apply ext_at' _ _ (by rw [length_writeSeg4, length_writeSeg2])
  intro j _
  rw [at_writeSeg2 p off step _ h, at_writeSeg4 p off step _ h, e]
  simp only [segAt]
  repeat' split
  all_goals first | rfl | omega | (subst_vars; rfl)

theorem writeSeg6_self (p : List Int) (off step : Int) (h : Touch6 p off step) (hs : step ≠ 0) :
    writeSeg6 p off step (segAt p off step) = p := by
  rw [writeSeg6_eq_writeSeg2 p off step h hs _ rfl, writeSeg2_self p off step h.toTouch4]
theorem writeSeg4_self (p : List Int) (off step : Int) (h : Touch4 p off step) (hs : step ≠ 0) :
    writeSeg4 p off step (segAt p off step) = p := by
  rw [writeSeg4_eq_writeSeg2 p off step h hs _ rfl, writeSeg2_self p off step h]

/-! ## the loop bodies of `filter.go` (verbatim copies of the translated lambdas) -/

section bodies
open Generated.Funcs (needsFilter needsFilter2 hev doFilter2 doFilter4 doFilter6)

/-- one position of `simpleVFilter16Go` (`off = base + i`, step `stride`) and of `SimpleHFilter16`
    (`off = base + i*stride`, step 1): verbatim copy of the translated loop body -/
def bodySimple (thresh2 : Int) (p : List Int) (off stride : Int) : R (List Int) :=
      (idxI p (off - (2 * stride))).bind fun t1 =>
      let p1 : Int := t1
      (idxI p (off - stride)).bind fun t2 =>
      let p0 : Int := t2
      (idxI p off).bind fun t3 =>
      let q0 : Int := t3
      (idxI p (off + stride)).bind fun t4 =>
      let q1 : Int := t4
      (needsFilter p1 p0 q0 q1 thresh2).bind fun t5 =>
      (if t5 then
        (doFilter2 p off stride).bind fun p =>
        .ok p
      else
        .ok p
      ).bind fun p =>
      .ok p

theorem simpleVFilter16Go_unfold (p : List Int) (base stride thresh : Int) :
    Generated.Funcs.simpleVFilter16Go p base stride thresh
      = (forRangeM 0 16 1 p fun i p => bodySimple (2 * thresh + 1) p (base + i) stride).bind fun p => .ok p := rfl

theorem SimpleHFilter16_unfold (p : List Int) (base stride thresh : Int) :
    Generated.Funcs.SimpleHFilter16 p base stride thresh
      = (forRangeM 0 16 1 p fun i p => bodySimple (2 * thresh + 1) p (base + i * stride) 1).bind fun p => .ok p := by
  unfold Generated.Funcs.SimpleHFilter16 bodySimple
  simp only [Int.mul_one]

/-- one position of `filterLoop26`: verbatim copy of the translated loop body -/
def body26 (hstride vstride thresh2 ithresh hevT : Int) : List Int × Int → R (List Int × Int) :=
  fun (p, off) =>
      (idxI p (off - (4 * hstride))).bind fun t1 =>
      let p3 : Int := t1
      (idxI p (off - (3 * hstride))).bind fun t2 =>
      let p2 : Int := t2
      (idxI p (off - (2 * hstride))).bind fun t3 =>
      let p1 : Int := t3
      (idxI p (off - hstride)).bind fun t4 =>
      let p0 : Int := t4
      (idxI p off).bind fun t5 =>
      let q0 : Int := t5
      (idxI p (off + hstride)).bind fun t6 =>
      let q1 : Int := t6
      (idxI p (off + (2 * hstride))).bind fun t7 =>
      let q2 : Int := t7
      (idxI p (off + (3 * hstride))).bind fun t8 =>
      let q3 : Int := t8
      (needsFilter2 p3 p2 p1 p0 q0 q1 q2 q3 thresh2 ithresh).bind fun t9 =>
      (if t9 then
        (hev p1 p0 q0 q1 hevT).bind fun t10 =>
        (if t10 then
          (doFilter2 p off hstride).bind fun p =>
          .ok p
        else
          (doFilter6 p off hstride).bind fun p =>
          .ok p
        ).bind fun p =>
        .ok p
      else
        .ok p
      ).bind fun p =>
      let off : Int := (off + vstride)
      .ok (p, off)

theorem filterLoop26_unfold (p : List Int) (base hstride vstride size thresh ithresh hevT : Int) :
    Generated.Funcs.filterLoop26 p base hstride vstride size thresh ithresh hevT
      = (forRangeM 0 size 1 (p, base) fun _ st => body26 hstride vstride (2 * thresh + 1) ithresh hevT st).bind
          fun st => .ok st.1 := rfl
/-- one position of `filterLoop24` -/
def body24 (hstride vstride thresh2 ithresh hevT : Int) : List Int × Int → R (List Int × Int) :=
  fun (p, off) =>
      (idxI p (off - (4 * hstride))).bind fun t1 =>
      let p3 : Int := t1
      (idxI p (off - (3 * hstride))).bind fun t2 =>
      let p2 : Int := t2
      (idxI p (off - (2 * hstride))).bind fun t3 =>
      let p1 : Int := t3
      (idxI p (off - hstride)).bind fun t4 =>
      let p0 : Int := t4
      (idxI p off).bind fun t5 =>
      let q0 : Int := t5
      (idxI p (off + hstride)).bind fun t6 =>
      let q1 : Int := t6
      (idxI p (off + (2 * hstride))).bind fun t7 =>
      let q2 : Int := t7
      (idxI p (off + (3 * hstride))).bind fun t8 =>
      let q3 : Int := t8
      (needsFilter2 p3 p2 p1 p0 q0 q1 q2 q3 thresh2 ithresh).bind fun t9 =>
      (if t9 then
        (hev p1 p0 q0 q1 hevT).bind fun t10 =>
        (if t10 then
          (doFilter2 p off hstride).bind fun p =>
          .ok p
        else
          (doFilter4 p off hstride).bind fun p =>
          .ok p
        ).bind fun p =>
        .ok p
      else
        .ok p
      ).bind fun p =>
      let off : Int := (off + vstride)
      .ok (p, off)

theorem filterLoop24_unfold (p : List Int) (base hstride vstride size thresh ithresh hevT : Int) :
    Generated.Funcs.filterLoop24 p base hstride vstride size thresh ithresh hevT
      = (forRangeM 0 size 1 (p, base) fun _ st => body24 hstride vstride (2 * thresh + 1) ithresh hevT st).bind
          fun st => .ok st.1 := rfl


end bodies

/-! ## one position: the model on the segment at `off`, written back -/

/-- one position of the simple filter: the model on the segment at `off`, written back -/
def stepSimple (thresh : Int) (p : List Int) (off step : Int) : R (List Int) :=
  (toR (Webp.Impl.VP8Kernels.simpleFilterGo thresh (segAt p off step))).bind fun s' =>
    .ok (writeSeg2 p off step s')
/-- one position of `filterLoop26` -/
def step26 (thresh ithresh hevT : Int) (p : List Int) (off step : Int) : R (List Int) :=
  (toR (Webp.Impl.VP8Kernels.filterLoop26Go thresh ithresh hevT (segAt p off step))).bind fun s' =>
    .ok (writeSeg6 p off step s')
/-- one position of `filterLoop24` -/
def step24 (thresh ithresh hevT : Int) (p : List Int) (off step : Int) : R (List Int) :=
  (toR (Webp.Impl.VP8Kernels.filterLoop24Go thresh ithresh hevT (segAt p off step))).bind fun s' =>
    .ok (writeSeg4 p off step s')


/-! ## loops as folds -/

theorem tripCount_0_n_1 (n : Int) : tripCount 0 n 1 = n.toNat := by simp [tripCount]

/-- `for i := 0; i < n; i++` as a fold over `List.range n` -/
theorem forRangeM_eq_foldl {σ : Type} (n : Int) (s : σ) (f : Int → σ → R σ) :
    forRangeM 0 n 1 s f
      = (List.range n.toNat).foldl (fun (acc : R σ) (k : Nat) => acc.bind fun s => f (k : Int) s) (.ok s) := by
  unfold forRangeM
  rw [tripCount_0_n_1]
  simp only [Int.zero_add, Int.one_mul]

/-- two loop bodies that agree on all planes of length `L` (and keep the length) give the same loop -/
theorem foldl_bind_congr (L : Nat) (f g : Nat → List Int → R (List Int)) (n : Nat)
    (hfg : ∀ k p, k < n → p.length = L → f k p = g k p)
    (hlen : ∀ k p q, k < n → p.length = L → g k p = .ok q → q.length = L)
    (p0 : List Int) (h0 : p0.length = L) :
    (List.range n).foldl (fun (acc : R (List Int)) k => acc.bind (f k)) (.ok p0)
        = (List.range n).foldl (fun (acc : R (List Int)) k => acc.bind (g k)) (.ok p0)
      ∧ ∀ q, (List.range n).foldl (fun (acc : R (List Int)) k => acc.bind (g k)) (.ok p0) = .ok q →
          q.length = L := by
  induction n with
  | zero =>
    refine ⟨rfl, ?_⟩
    intro q hq
    simp only [List.range_zero, List.foldl_nil] at hq
    cases hq; exact h0
  | succ n ih =>
    have ih' := ih (fun k p hk => hfg k p (by omega)) (fun k p q hk => hlen k p q (by omega))
    simp only [List.range_succ, List.foldl_append, List.foldl_cons, List.foldl_nil]
    rw [ih'.1]
    cases hr : (List.range n).foldl (fun (acc : R (List Int)) k => acc.bind (g k)) (.ok p0) with
    | ok q =>
      have hq := ih'.2 q hr
      refine ⟨?_, ?_⟩
      · simp only [ok_bind']; exact hfg n q (by omega) hq
      · intro q' hq'; exact hlen n q q' (by omega) hq hq'
    | err e => exact ⟨rfl, fun q hq => by cases hq⟩
    | panic => exact ⟨rfl, fun q hq => by cases hq⟩
    | hang => exact ⟨rfl, fun q hq => by cases hq⟩

/-- a loop that carries `(plane, off)` with `off` advancing independently of the plane -/
theorem foldl_pair (L : Nat) (F : Nat → List Int × Int → R (List Int × Int))
    (g : Nat → List Int → R (List Int)) (o : Nat → Int) (n : Nat)
    (hF : ∀ k p, k < n → p.length = L → F k (p, o k) = (g k p).bind fun q => .ok (q, o (k + 1)))
    (hlen : ∀ k p q, k < n → p.length = L → g k p = .ok q → q.length = L)
    (p0 : List Int) (h0 : p0.length = L) :
    (List.range n).foldl (fun (acc : R (List Int × Int)) k => acc.bind (F k)) (.ok (p0, o 0))
        = (((List.range n).foldl (fun (acc : R (List Int)) k => acc.bind (g k)) (.ok p0)).bind fun q =>
            .ok (q, o n))
      ∧ ∀ q, (List.range n).foldl (fun (acc : R (List Int)) k => acc.bind (g k)) (.ok p0) = .ok q →
          q.length = L := by
  induction n with
  | zero =>
    refine ⟨rfl, ?_⟩
    intro q hq
    simp only [List.range_zero, List.foldl_nil] at hq
    cases hq; exact h0
  | succ n ih =>
    have ih' := ih (fun k p hk => hF k p (by omega)) (fun k p q hk => hlen k p q (by omega))
    simp only [List.range_succ, List.foldl_append, List.foldl_cons, List.foldl_nil]
    rw [ih'.1]
    cases hr : (List.range n).foldl (fun (acc : R (List Int)) k => acc.bind (g k)) (.ok p0) with
    | ok q =>
      have hq := ih'.2 q hr
      refine ⟨?_, ?_⟩
      · simp only [ok_bind']; exact hF n q (by omega) hq
      · intro q' hq'; exact hlen n q q' (by omega) hq hq'
    | err e => exact ⟨rfl, fun q hq => by cases hq⟩
    | panic => exact ⟨rfl, fun q hq => by cases hq⟩
    | hang => exact ⟨rfl, fun q hq => by cases hq⟩

theorem off_succ (base v : Int) (k : Nat) : base + (k : Int) * v + v = base + ((k + 1 : Nat) : Int) * v := by
  rw [Int.natCast_succ, Int.add_mul, Int.one_mul, Int.add_assoc]

/-- `for k := 1; k <= 3; k++` unrolled -/
theorem forRangeM_1_4 {σ : Type} (s : σ) (f : Int → σ → R σ) :
    forRangeM 1 (3 + 1) 1 s f = ((f 1 s).bind fun s => (f 2 s).bind fun s => f 3 s) := by
  have h : tripCount 1 (3 + 1) 1 = 3 := by decide
  unfold forRangeM
  rw [h]
  simp only [List.range_succ, List.range_zero, List.nil_append, List.cons_append, List.foldl_cons,
    List.foldl_nil, ok_bind', res_bind_assoc]
  rfl

theorem length_stepSimple (t : Int) (p : List Int) (off step : Int) (q : List Int)
    (h : stepSimple t p off step = .ok q) : q.length = p.length := by
  unfold stepSimple at h
  cases hm : Webp.Impl.VP8Kernels.simpleFilterGo t (segAt p off step) with
  | none => rw [hm] at h; cases h
  | some s' => rw [hm] at h; cases h; exact length_writeSeg2 ..
theorem length_step26 (t it hv : Int) (p : List Int) (off step : Int) (q : List Int)
    (h : step26 t it hv p off step = .ok q) : q.length = p.length := by
  unfold step26 at h
  cases hm : Webp.Impl.VP8Kernels.filterLoop26Go t it hv (segAt p off step) with
  | none => rw [hm] at h; cases h
  | some s' => rw [hm] at h; cases h; exact length_writeSeg6 ..
theorem length_step24 (t it hv : Int) (p : List Int) (off step : Int) (q : List Int)
    (h : step24 t it hv p off step = .ok q) : q.length = p.length := by
  unfold step24 at h
  cases hm : Webp.Impl.VP8Kernels.filterLoop24Go t it hv (segAt p off step) with
  | none => rw [hm] at h; cases h
  | some s' => rw [hm] at h; cases h; exact length_writeSeg4 ..

/-! ## frame lemmas of the one-position model filters; read-back after the writes -/

namespace K
open Webp.Impl.VP8Kernels

theorem simpleFilterGo_frame (t : Int) (s s' : Seg) (h : simpleFilterGo t s = some s') :
    s' = { s with p0 := s'.p0, q0 := s'.q0 } := by
  simp only [simpleFilterGo, Option.bind_eq_bind, Option.pure_def] at h
  cases hn : needsFilter s.p1 s.p0 s.q0 s.q1 (2 * t + 1) with
  | none => rw [hn] at h; cases h
  | some b =>
    rw [hn] at h
    cases b with
    | false => simp at h; subst h; rfl
    | true => simp at h; exact doFilter2_frame _ _ h

theorem filterLoop26Go_frame (t it hv : Int) (s s' : Seg) (h : filterLoop26Go t it hv s = some s') :
    s'.p3 = s.p3 ∧ s'.q3 = s.q3 := by
  simp only [filterLoop26Go, Option.bind_eq_bind, Option.pure_def] at h
  cases hn : needsFilter2 s.p3 s.p2 s.p1 s.p0 s.q0 s.q1 s.q2 s.q3 (2 * t + 1) it with
  | none => rw [hn] at h; cases h
  | some b =>
    rw [hn] at h
    cases b with
    | false => simp at h; subst h; exact ⟨rfl, rfl⟩
    | true =>
      simp only [Option.bind_some, if_true] at h
      cases hh : hev s.p1 s.p0 s.q0 s.q1 hv with
      | none => rw [hh] at h; cases h
      | some b2 =>
        rw [hh] at h
        cases b2 with
        | false =>
          simp at h
          have := doFilter6_frame _ _ h
          rw [this]; exact ⟨rfl, rfl⟩
        | true =>
          simp at h
          have := doFilter2_frame _ _ h
          rw [this]; exact ⟨rfl, rfl⟩

theorem filterLoop24Go_frame (t it hv : Int) (s s' : Seg) (h : filterLoop24Go t it hv s = some s') :
    s'.p3 = s.p3 ∧ s'.p2 = s.p2 ∧ s'.q2 = s.q2 ∧ s'.q3 = s.q3 := by
  simp only [filterLoop24Go, Option.bind_eq_bind, Option.pure_def] at h
  cases hn : needsFilter2 s.p3 s.p2 s.p1 s.p0 s.q0 s.q1 s.q2 s.q3 (2 * t + 1) it with
  | none => rw [hn] at h; cases h
  | some b =>
    rw [hn] at h
    cases b with
    | false => simp at h; subst h; exact ⟨rfl, rfl, rfl, rfl⟩
    | true =>
      simp only [Option.bind_some, if_true] at h
      cases hh : hev s.p1 s.p0 s.q0 s.q1 hv with
      | none => rw [hh] at h; cases h
      | some b2 =>
        rw [hh] at h
        cases b2 with
        | false =>
          simp at h
          have := doFilter4_frame _ _ h
          rw [this]; exact ⟨rfl, rfl, rfl, rfl⟩
        | true =>
          simp at h
          have := doFilter2_frame _ _ h
          rw [this]; exact ⟨rfl, rfl, rfl, rfl⟩
end K

/-- reading the segment back after the two / four / six writes -/
theorem segAt_writeSeg2' (p : List Int) (off step : Int) (h : Touch4 p off step) (hs : step ≠ 0)
    (s' : Seg) (e : s' = { segAt p off step with p0 := s'.p0, q0 := s'.q0 }) :
    segAt (writeSeg2 p off step s') off step = s' := by
  rw [e]
  simp (disch := omega) only [segAt, at_writeSeg2 p off step _ h, if_neg, if_true]
theorem segAt_writeSeg4' (p : List Int) (off step : Int) (h : Touch4 p off step) (hs : step ≠ 0)
    (s' : Seg) (e3 : s'.p3 = at' p (off - 4 * step)) (e2 : s'.p2 = at' p (off - 3 * step))
    (f2 : s'.q2 = at' p (off + 2 * step)) (f3 : s'.q3 = at' p (off + 3 * step)) :
    segAt (writeSeg4 p off step s') off step = s' := by
  cases s'
  simp only at e3 e2 f2 f3
  subst e3 e2 f2 f3
  simp (disch := omega) only [segAt, at_writeSeg4 p off step _ h, if_neg, if_true]
theorem segAt_writeSeg6' (p : List Int) (off step : Int) (h : Touch6 p off step) (hs : step ≠ 0)
    (s' : Seg) (e3 : s'.p3 = at' p (off - 4 * step)) (f3 : s'.q3 = at' p (off + 3 * step)) :
    segAt (writeSeg6 p off step s') off step = s' := by
  cases s'
  simp only at e3 f3
  subst e3 f3
  simp (disch := omega) only [segAt, at_writeSeg6 p off step _ h, if_neg, if_true]

end Webp.Proofs.FuncsFilterApply
