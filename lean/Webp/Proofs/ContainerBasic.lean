import Mathlib.Tactic.SplitIfs
import Webp.Impl.Parser
import Webp.Impl.Demux
import Webp.Impl.Config
/-
  Helper lemmas for C05 / C16 / C17 (container layer): Go-kit facts (`slice`, `sliceFrom`,
  little-endian readers on prefixes), numeric values of the FourCC constants, and the
  closed form of the common "read chunk header, bounds-check, slice payload" prologue.

  Style note: the size constants `maxChunkPayload`, `maxMetadataSize` are 9/10-digit literals;
  feeding (in)equalities about them to `simp` makes elaboration hang in this Lean version, so
  they are `generalize`d to variables right after `unfold`, and `if`s are resolved with
  `by_cases … rw [if_pos/if_neg]`.
-/
namespace Webp.Go

theorem slice_ok {ε} (l : Bytes) (a b : Nat) (h1 : a ≤ b) (h2 : b ≤ l.length) :
    (slice l a b : Res ε Bytes) = .ok ((l.take b).drop a) := by
  unfold slice; rw [if_pos ⟨h1, h2⟩]

theorem sliceFrom_ok {ε} (l : Bytes) (a : Nat) (h : a ≤ l.length) :
    (sliceFrom l a : Res ε Bytes) = .ok (l.drop a) := by
  unfold sliceFrom; rw [if_pos h]

theorem idx_ok {ε} (l : Bytes) (i : Nat) (h : i < l.length) :
    (idx l i : Res ε UInt8) = .ok (l.getD i 0) := by
  unfold idx
  rw [List.getElem?_eq_getElem h]
  simp [List.getD, List.getElem?_eq_getElem h]

theorem Res.safe_of_ok {ε α} {x : Res ε α} {a : α} (h : x = .ok a) : x.Safe := by
  rw [h]; trivial

theorem Res.safe_of_err {ε α} {x : Res ε α} {e : ε} (h : x = .err e) : x.Safe := by
  rw [h]; trivial

/-! ### byte readers only look at the bytes they name -/

theorem byteAt_prefix {p d : Bytes} (h : p <+: d) {i : Nat} (hi : i < p.length) :
    byteAt p i = byteAt d i := by
  obtain ⟨t, rfl⟩ := h
  unfold byteAt
  simp [List.getD, List.getElem?_append_left hi]

theorem le32_prefix {p d : Bytes} (h : p <+: d) {o : Nat} (ho : o + 4 ≤ p.length) :
    le32 p o = le32 d o := by
  unfold le32
  rw [byteAt_prefix h (by omega), byteAt_prefix h (by omega), byteAt_prefix h (by omega),
    byteAt_prefix h (by omega)]

theorem byteAt_drop (l : Bytes) (k i : Nat) : byteAt (l.drop k) i = byteAt l (k + i) := by
  unfold byteAt
  simp [List.getD, List.getElem?_drop]

theorem le32_drop (l : Bytes) (k o : Nat) : le32 (l.drop k) o = le32 l (k + o) := by
  unfold le32
  simp only [byteAt_drop, Nat.add_assoc]

theorem byteAt_lt (l : Bytes) (i : Nat) : byteAt l i < 256 := by
  unfold byteAt
  exact UInt8.toNat_lt _

theorem le24_lt (l : Bytes) (o : Nat) : le24 l o < 16777216 := by
  unfold le24
  have h0 := byteAt_lt l o
  have h1 := byteAt_lt l (o+1)
  have h2 := byteAt_lt l (o+2)
  omega

/-- `take` then `drop` of a prefix is a prefix of the same window -/
theorem window_prefix {p d : Bytes} (h : p <+: d) (a b : Nat) (hb : b ≤ p.length) :
    (p.take b).drop a = (d.take b).drop a := by
  obtain ⟨t, rfl⟩ := h
  rw [List.take_append_of_le_length hb]

theorem drop_prefix {p d : Bytes} (h : p <+: d) (k : Nat) : p.drop k <+: d.drop k := by
  obtain ⟨t, rfl⟩ := h
  by_cases hk : k ≤ p.length
  · rw [List.drop_append_of_le_length hk]; exact List.prefix_append _ _
  · rw [List.drop_eq_nil_of_le (by omega)]; exact List.nil_prefix

theorem take_prefix_of_prefix {p d : Bytes} (h : p <+: d) (k : Nat) : p.take k <+: d.take k := by
  obtain ⟨t, rfl⟩ := h
  by_cases hk : k ≤ p.length
  · rw [List.take_append_of_le_length hk]; exact List.prefix_refl _
  · have hk' : p.length ≤ k := by omega
    rw [List.take_of_length_le hk', List.take_append, List.take_of_length_le hk']
    exact List.prefix_append _ _

end Webp.Go

namespace Webp.Impl.Parser
open Webp.Go

/-! ### FourCC values -/
theorem ccRIFF_val : ccRIFF = 1179011410 := by decide +kernel
theorem ccWEBP_val : ccWEBP = 1346520407 := by decide +kernel
theorem ccVP8_val  : ccVP8  = 540561494  := by decide +kernel
theorem ccVP8L_val : ccVP8L = 1278758998 := by decide +kernel
theorem ccVP8X_val : ccVP8X = 1480085590 := by decide +kernel
theorem ccALPH_val : ccALPH = 1213221953 := by decide +kernel
theorem ccANIM_val : ccANIM = 1296649793 := by decide +kernel
theorem ccANMF_val : ccANMF = 1179471425 := by decide +kernel
theorem ccICCP_val : ccICCP = 1346585417 := by decide +kernel
theorem ccEXIF_val : ccEXIF = 1179211845 := by decide +kernel
theorem ccXMP_val  : ccXMP  = 542133592  := by decide +kernel

end Webp.Impl.Parser
