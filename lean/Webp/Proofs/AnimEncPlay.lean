import Webp.Proofs.AnimEncRect
import Webp.Proofs.AnimEncBlend
import Webp.Proofs.AnimDecPlay
/-
  Playback side of the animation-encoder proofs: how `Spec.Anim.play` grows when a frame is
  appended, and what one appended frame does to the canvas when its pixels play back as the
  (cleared) target pixels of its rectangle.
-/
namespace Webp.Proofs.AnimEncPlay
open Webp.Spec.Anim Webp.Impl.AnimEnc Webp.Impl.AnimDec Webp.Proofs.AnimDecLoops
open Webp.Proofs.AnimDecGeom Webp.Proofs.AnimDecPlay Webp.Proofs.AnimEncRect Webp.Proofs.AnimEncBlend

/-! ### the end of a playback -/

/-- canvas and last frame after playing `fs` from canvas `c` / previous frame `prev` -/
def endOf (bl : Px → Px → Px) (w h : Nat) : Canvas → Option Frame → List Frame → Canvas × Option Frame
  | c, prev, [] => (c, prev)
  | c, prev, f :: fs => endOf bl w h (draw bl w h f (disposePrev w h prev c)) (some f) fs

theorem endOf_snoc (bl : Px → Px → Px) (w h : Nat) (c : Canvas) (prev : Option Frame)
    (fs : List Frame) (f : Frame) :
    endOf bl w h c prev (fs ++ [f]) =
      (draw bl w h f (disposePrev w h (endOf bl w h c prev fs).2 (endOf bl w h c prev fs).1), some f) := by
  induction fs generalizing c prev with
  | nil => rfl
  | cons g gs ih => simp only [List.cons_append, endOf]; exact ih _ _

theorem playFrom_snoc (bl : Px → Px → Px) (w h : Nat) (c : Canvas) (prev : Option Frame)
    (fs : List Frame) (f : Frame) :
    playFrom bl w h c prev (fs ++ [f]) =
      playFrom bl w h c prev fs ++
        [draw bl w h f (disposePrev w h (endOf bl w h c prev fs).2 (endOf bl w h c prev fs).1)] := by
  induction fs generalizing c prev with
  | nil => rfl
  | cons g gs ih => simp only [List.cons_append, playFrom, endOf]; rw [ih]

theorem endOf_snd (bl : Px → Px → Px) (w h : Nat) (c : Canvas) (prev : Option Frame) (fs : List Frame) :
    (endOf bl w h c prev fs).2 = (fs.getLast?).or prev := by
  induction fs generalizing c prev with
  | nil => simp [endOf]
  | cons g gs ih =>
    simp only [endOf]
    rw [ih]
    cases gs with
    | nil => simp
    | cons a as =>
      rw [List.getLast?_cons_cons]
      cases hl : (a :: as).getLast? with
      | none => simp at hl
      | some x => simp

theorem endOf_size (bl : Px → Px → Px) (w h : Nat) (c : Canvas) (prev : Option Frame) (fs : List Frame)
    (hc : c.size = w * h) : (endOf bl w h c prev fs).1.size = w * h := by
  induction fs generalizing c prev with
  | nil => exact hc
  | cons g gs ih => simp only [endOf]; exact ih _ _ (draw_size _ _ _ _ _)

/-- the last canvas of a playback is the canvas of `endOf` -/
theorem playFrom_getLast (bl : Px → Px → Px) (w h : Nat) (c : Canvas) (prev : Option Frame)
    (fs : List Frame) (hne : fs ≠ []) :
    (playFrom bl w h c prev fs).getLast? = some (endOf bl w h c prev fs).1 := by
  induction fs generalizing c prev with
  | nil => exact absurd rfl hne
  | cons g gs ih =>
    cases gs with
    | nil => simp [playFrom, endOf]
    | cons a as =>
      have := ih (draw bl w h g (disposePrev w h prev c)) (some g) (by simp)
      simp only [playFrom, endOf] at this ⊢
      rw [List.getLast?_cons_cons]
      exact this

theorem playFrom_length (bl : Px → Px → Px) (w h : Nat) (c : Canvas) (prev : Option Frame)
    (fs : List Frame) : (playFrom bl w h c prev fs).length = fs.length := by
  induction fs generalizing c prev with
  | nil => rfl
  | cons g gs ih => simp only [playFrom, List.length_cons]; rw [ih]

/-- the dispose flag of a frame does not influence how the frame itself is drawn -/
theorem draw_setDispose (bl : Px → Px → Px) (w h : Nat) (f : Frame) (b : Bool) (c : Canvas) :
    draw bl w h { f with disposeBG := b } c = draw bl w h f c := rfl

/-! ### pixels -/

theorem px_eq_getD (c : Canvas) (i : Nat) : c.px i = c.getD i Px.zero := rfl

/-- a frame placed on a rectangle inside the canvas covers exactly that rectangle -/
theorem covers_iff_has (F : Frame) (r : Rect) (x y : Nat)
    (h1 : F.offX = r.minX) (h2 : F.offY = r.minY)
    (h3 : (F.fw : Int) = r.maxX - r.minX) (h4 : (F.fh : Int) = r.maxY - r.minY) :
    F.covers x y = r.has x y := by
  unfold Frame.covers Rect.has
  rw [h1, h2, h3, h4]
  have e1 : r.minX + (r.maxX - r.minX) = r.maxX := by omega
  have e2 : r.minY + (r.maxY - r.minY) = r.maxY := by omega
  rw [e1, e2]

/-- **one appended frame**: if the frame `F` sits on `rect`, its pixels play back (up to `r`) as
    the picture `img` whose pixels are the (cleared, when blended) pixels of the target `T` on
    `rect`, the canvas it is drawn on plays back as the encoder's base canvas `Pd`, blending was
    only chosen where the mode's condition holds, and `rect` contains every pixel where `Pd` and
    `T` differ — then the new canvas plays back as `T`. -/
theorem draw_rel {r ok : Px → Px → Bool}
    (hblend : ∀ s d P T, r s (clearPx T) = true → r d P = true → ok P T = true → r (blend s d) T = true)
    (w h : Nat) (F : Frame)
    (B Pd T : Canvas) (rect : Rect) (hrect : RectOK w h rect) (img : SubImage) (blnd : Bool)
    (h1 : F.offX = rect.minX) (h2 : F.offY = rect.minY)
    (h3 : F.fw = (rect.maxX - rect.minX).toNat) (h4 : F.fh = (rect.maxY - rect.minY).toNat)
    (hbn : F.blendNone = !blnd)
    (hdec : ∀ k, k < F.fw * F.fh → r (F.px.getD k Px.zero) (img.at k) = true)
    (himg : ∀ i j, i < F.fw → j < F.fh →
      img.at (j * F.fw + i) =
        (if blnd then clearPx (T.px ((rect.minY.toNat + j) * w + (rect.minX.toNat + i)))
         else T.px ((rect.minY.toNat + j) * w + (rect.minX.toNat + i))))
    (hB : ∀ i, i < w * h → r (B.px i) (Pd.px i) = true)
    (hok : blnd = true → ∀ x y, x < w → y < h → rect.has x y = true →
      ok (Pd.px (y * w + x)) (T.px (y * w + x)) = true)
    (hbbox : ∀ x y, x < w → y < h → pxDiff w Pd T x y = true → rect.has x y = true) :
    ∀ i, i < w * h → r ((draw blend w h F B).px i) (T.px i) = true := by
  intro i hi
  obtain ⟨a1, a2, a3, a4, a5, a6⟩ := hrect
  have hx := mod_lt_of_lt hi
  have hy := div_lt_of_lt hi
  have hidx : (i / w) * w + i % w = i := idx_eq
  rw [px_eq_getD, draw_get blend w h F B i hi]
  have hcov := covers_iff_has F rect (i % w) (i / w) h1 h2 (by rw [h3]; omega) (by rw [h4]; omega)
  by_cases hc : F.covers (i % w) (i / w) = true
  · rw [if_pos hc]
    rw [hcov] at hc
    have hc' := hc
    unfold Rect.has at hc'
    simp only [Bool.and_eq_true, decide_eq_true_eq] at hc'
    -- sub-image coordinates
    have hsx : (((i % w : Nat) : Int) - F.offX).toNat < F.fw := by rw [h1, h3]; omega
    have hsy : (((i / w : Nat) : Int) - F.offY).toNat < F.fh := by rw [h2, h4]; omega
    generalize hsxe : (((i % w : Nat) : Int) - F.offX).toNat = sx at hsx
    generalize hsye : (((i / w : Nat) : Int) - F.offY).toNat = sy at hsy
    have hk : sy * F.fw + sx < F.fw * F.fh := idx_lt hsx hsy
    have hd := hdec _ hk
    have hi' := himg sx sy hsx hsy
    have ex : rect.minX.toNat + sx = i % w := by rw [← hsxe, h1]; omega
    have ey : rect.minY.toNat + sy = i / w := by rw [← hsye, h2]; omega
    rw [ex, ey, hidx] at hi'
    simp only []
    unfold Frame.at
    rw [hbn]
    cases blnd with
    | false =>
      simp only [Bool.not_false, if_true]
      simp only [Bool.false_eq_true, if_false] at hi'
      rw [hi'] at hd
      exact hd
    | true =>
      simp only [Bool.not_true, Bool.false_eq_true, if_false]
      simp only [if_true] at hi'
      rw [hi'] at hd
      have hokk := hok rfl (i % w) (i / w) hx hy hc
      rw [hidx] at hokk
      exact hblend _ _ _ _ hd (hB i hi) hokk
  · rw [if_neg hc]
    have hnd : pxDiff w Pd T (i % w) (i / w) = false := by
      by_cases hd : pxDiff w Pd T (i % w) (i / w) = true
      · have := hbbox _ _ hx hy hd
        rw [← hcov] at this
        exact absurd this hc
      · simpa using hd
    unfold pxDiff at hnd
    rw [hidx] at hnd
    have heq : Pd.px i = T.px i := by simpa using hnd
    rw [← heq]
    exact hB i hi

/-- drawing an alpha-blended frame all of whose pixels are fully transparent changes nothing -/
theorem draw_transparent (w h : Nat) (F : Frame) (B : Canvas) (hB : B.size = w * h)
    (hbn : F.blendNone = false)
    (ha : ∀ sx sy, sx < F.fw → sy < F.fh → (F.at sx sy).a = 0) :
    draw blend w h F B = B := by
  apply canvas_ext (draw_size _ _ _ _ _) hB
  intro i hi
  rw [draw_get blend w h F B i hi]
  by_cases hc : F.covers (i % w) (i / w) = true
  · rw [if_pos hc]
    simp only [hbn, Bool.false_eq_true, if_false]
    unfold Frame.covers at hc
    simp only [Bool.and_eq_true, decide_eq_true_eq] at hc
    exact blend_src0 _ _ (ha _ _ (by omega) (by omega))
  · rw [if_neg hc]

/-- appending a frame to a playback appends its canvas -/
theorem play_snoc (w h : Nat) (fs : List Frame) (f : Frame) :
    play w h (fs ++ [f]) =
      play w h fs ++ [(endOf blend w h (transparent w h) none (fs ++ [f])).1] := by
  unfold play playWith
  rw [playFrom_snoc, endOf_snoc]

/-! ### dispose-to-background on both sides -/

/-- `fillRect(canvas, rect, transparent)` for a rectangle inside the canvas -/
theorem fillRect_rect_get (w h : Nat) (c : Canvas) (r : Rect) (hr : RectOK w h r)
    (hw : IsGoInt w) (hh : IsGoInt h) (hc : c.size = w * h) :
    (fillRect w h c r Px.zero).size = w * h ∧
    ∀ i, i < w * h →
      (fillRect w h c r Px.zero).px i = if r.has (i % w) (i / w) then Px.zero else c.px i := by
  obtain ⟨a1, a2, a3, a4, a5, a6⟩ := hr
  let f : Frame := { offX := r.minX, offY := r.minY, fw := (r.maxX - r.minX).toNat,
                     fh := (r.maxY - r.minY).toNat, px := #[], blendNone := false,
                     disposeBG := false, hasAlpha := false }
  have hw' := hw; have hh' := hh
  obtain ⟨w1, w2⟩ := hw'
  obtain ⟨g1, g2⟩ := hh'
  have hf : GoFrame f := by
    refine ⟨⟨?_, ?_⟩, ⟨?_, ?_⟩, ⟨?_, ?_⟩, ⟨?_, ?_⟩⟩ <;> simp only [f] <;> omega
  have hb : frameBounds f = r := by
    rw [frameBounds_eq f hf]
    obtain ⟨x0, y0, x1, y1⟩ := r
    simp only [f] at a1 a2 a3 a4 a5 a6 ⊢
    have e1 : x0 + (((x1 - x0).toNat : Nat) : Int) = x1 := by omega
    have e2 : y0 + (((y1 - y0).toNat : Nat) : Int) = y1 := by omega
    rw [e1, e2, if_pos (by unfold maxInt; omega), if_pos (by unfold maxInt; omega)]
  obtain ⟨s, g⟩ := fillRect_get w h f c hw hh hf hc
  rw [hb] at s g
  refine ⟨s, fun i hi => ?_⟩
  rw [px_eq_getD, g i hi]
  rw [covers_iff_has f r (i % w) (i / w) rfl rfl (by simp only [f]; omega) (by simp only [f]; omega)]
  rfl

end Webp.Proofs.AnimEncPlay
