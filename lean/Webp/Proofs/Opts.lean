import Mathlib.Tactic.SplitIfs
import Webp.Impl.Opts
/-
  Helper lemmas for property C20 (option front end).
-/
namespace Webp.Impl.Opts
open Webp.Go

/-! ### float32 truncation stays in range -/

theorem F32.magFloor_le_of_not_magGt (m : Nat) (e : Int) (k : Nat)
    (h : F32.magGt m e k = false) : F32.magFloor m e ≤ k := by
  unfold F32.magGt at h
  unfold F32.magFloor
  split_ifs at h ⊢ with he
  · simpa using h
  · have h' : m ≤ k * 2 ^ (-e).toNat := by simpa using h
    exact Nat.div_le_of_le_mul (by rw [Nat.mul_comm]; exact h')

theorem F32.toInt_range (x : F32) (h : x.InRange0to100) : 0 ≤ x.toInt ∧ x.toInt ≤ 100 := by
  obtain ⟨h0, h100, hn, hi⟩ := h
  cases x with
  | nan => simp [F32.isNaN] at hn
  | posInf => simp [F32.isInf] at hi
  | negInf => simp [F32.isInf] at hi
  | fin neg m e =>
    cases neg with
    | true =>
      have hm : m = 0 := by simpa [F32.ltZero] using h0
      subst hm
      simp [F32.toInt, F32.magFloor]
    | false =>
      have hk : F32.magGt m e 100 = false := by simpa [F32.gtNat] using h100
      have := F32.magFloor_le_of_not_magGt m e 100 hk
      simp only [F32.toInt, Bool.false_eq_true, if_false]
      omega

/-! ### validateConfig accepts exactly the documented domain -/

theorem docMeaning_qMax (v : Int) : docMeaning .qMax v = resolveQMax v := by
  simp [docMeaning, resolveQMax, docDefault]

theorem ite_some_eq_none {α : Type} (c : Prop) [Decidable c] (e : α) (r : Option α) :
    (if c then some e else r) = none ↔ ¬ c ∧ r = none := by
  split_ifs with h <;> simp [h]

/-- `validateConfig` as the conjunction of its negated checks -/
theorem validate_none_iff_checks (o : Opts) : validateConfig o = none ↔
    (¬ ((o.quality.ltZero || o.quality.gtNat 100 || o.quality.isNaN || o.quality.isInf) = true) ∧
     ¬ (o.method < 0 ∨ o.method > 6) ∧ ¬ (o.targetSize < 0) ∧
     ¬ ((o.targetPSNR.ltZero || o.targetPSNR.isNaN || o.targetPSNR.isInf) = true) ∧
     ¬ (o.preprocessing < 0 ∨ o.preprocessing > 3) ∧ ¬ (o.preset < 0 ∨ o.preset > 5) ∧
     ¬ (o.snsStrength > 100) ∧ ¬ (o.filterStrength > 100) ∧
     ¬ (o.filterSharpness < 0 ∨ o.filterSharpness > 7) ∧ ¬ (o.filterType > 1) ∧
     ¬ (o.partitions < 0 ∨ o.partitions > 3) ∧ ¬ (o.segments > 4) ∧ ¬ (o.pass > 10) ∧
     ¬ (o.qMin < 0 ∨ resolveQMax o.qMax > 100 ∨ o.qMin > resolveQMax o.qMax) ∧
     ¬ (o.alphaCompression > 1) ∧ ¬ (o.alphaFiltering > 2) ∧ ¬ (o.alphaQuality > 100) ∧
     ¬ (lenOf o.icc > maxEncoderMetadataSize) ∧ ¬ (lenOf o.exif > maxEncoderMetadataSize) ∧
     ¬ (lenOf o.xmp > maxEncoderMetadataSize)) := by
  unfold validateConfig
  simp only [ite_some_eq_none, and_true]

theorem validate_none_iff (o : Opts) : validateConfig o = none ↔ DocValid o := by
  rw [validate_none_iff_checks]
  constructor
  · rintro ⟨h1, h2, h3, h4, h5, h6, h7, h8, h9, h10, h11, h12, h13, h14, h15, h16, h17, h18, h19, h20⟩
    simp only [Bool.or_eq_true, not_or, Bool.not_eq_true] at h1 h4
    refine ⟨⟨h1.1.1.1, h1.1.1.2, h1.1.2, h1.2⟩, by omega, by omega, ⟨h4.1.1, h4.1.2, h4.2⟩, by omega,
      by omega, by omega, by omega, by omega, by omega, by omega, by omega, by omega, ?_, by omega,
      by omega, by omega, by omega, by omega, by omega⟩
    rw [docMeaning_qMax]; omega
  · intro h
    obtain ⟨⟨q1, q2, q3, q4⟩, hm, hts, ⟨p1, p2, p3⟩, hpp, hpr, hs, hf, hfs, hft, hpa, hsg, hps, hq,
      hac, haf, haq, hi, he, hx⟩ := h
    rw [docMeaning_qMax] at hq
    refine ⟨by simp [q1, q2, q3, q4], by omega, by omega, by simp [p1, p2, p3], by omega, by omega,
      by omega, by omega, by omega, by omega, by omega, by omega, by omega, by omega, by omega,
      by omega, by omega, by omega, by omega, by omega⟩

/-! ### shape of `front` -/

theorem front_none (d : ImgDims) : front none d = front (some defaultOptions) d := rfl

/-- two option values with the same validation outcome and the same dispatch result are
    indistinguishable to `front` -/
theorem front_congr (o o' : Opts) (d : ImgDims)
    (hv : validateConfig o = validateConfig o') (hd : dispatch o d = dispatch o' d) :
    front (some o) d = front (some o') d := by
  simp only [front, hv, hd]

theorem front_ok_of (o : Opts) (d : ImgDims) (hw : d.writerNil = false) (hi : d.imgNil = false)
    (hv : validateConfig o = none) (hd : DimsOk d.w d.h) : front (some o) d = .ok (dispatch o d) := by
  obtain ⟨h1, h2, h3, h4⟩ := hd
  have e1 : ¬ (d.w ≤ 0 ∨ d.h ≤ 0) := by omega
  have e2 : ¬ (d.w > maxDimension ∨ d.h > maxDimension) := by unfold maxDimension; omega
  simp [front, hw, hi, hv, e1, e2]

theorem front_ok_inv (o : Opts) (d : ImgDims) (r : Resolved) (h : front (some o) d = .ok r) :
    d.writerNil = false ∧ d.imgNil = false ∧ validateConfig o = none ∧ DimsOk d.w d.h ∧
      r = dispatch o d := by
  cases hw : d.writerNil with
  | true => simp [front, hw] at h
  | false =>
  cases hi : d.imgNil with
  | true => simp [front, hw, hi] at h
  | false =>
  cases hv : validateConfig o with
  | some e => simp [front, hw, hi, hv] at h
  | none =>
    by_cases h3 : d.w ≤ 0 ∨ d.h ≤ 0
    · simp [front, hw, hi, hv, h3] at h
    by_cases h4 : d.w > maxDimension ∨ d.h > maxDimension
    · simp [front, hw, hi, hv, h3, h4] at h
    simp only [front, hw, hi, hv, h3, h4, Bool.false_eq_true, if_false] at h
    unfold maxDimension at h4
    refine ⟨rfl, rfl, rfl, ⟨by omega, by omega, by omega, by omega⟩, ?_⟩
    injection h with h; exact h.symm

/-! ### closed form of the propagation block, field by field -/

/-- the clamp of `lossy.DefaultConfig` -/
def clampQ (q : Int) : Int := if (if q < 0 then 0 else q) > 100 then 100 else (if q < 0 then 0 else q)

theorem propagate_quality (o : Opts) (ha : Bool) :
    (propagate o ha).quality = (clampQ o.quality.toInt) := by
  simp only [propagate, apply_ite LossyCfg.quality, defaultConfig, clampQ]
  try simp

theorem propagate_targetSize (o : Opts) (ha : Bool) :
    (propagate o ha).targetSize = (if o.targetSize > 0 then o.targetSize else 0) := by
  simp only [propagate, apply_ite LossyCfg.targetSize, defaultConfig]
  try simp

theorem propagate_targetPSNR (o : Opts) (ha : Bool) :
    (propagate o ha).targetPSNR = (if o.targetPSNR.gtZero then o.targetPSNR else F32.zero) := by
  simp only [propagate, apply_ite LossyCfg.targetPSNR, defaultConfig]
  try simp

theorem propagate_method (o : Opts) (ha : Bool) :
    (propagate o ha).method = (o.method) := by
  simp only [propagate, apply_ite LossyCfg.method, defaultConfig]
  try simp

theorem propagate_snsStrength (o : Opts) (ha : Bool) :
    (propagate o ha).snsStrength = (if o.snsStrength ≥ 0 then o.snsStrength else 50) := by
  simp only [propagate, apply_ite LossyCfg.snsStrength, defaultConfig]
  try simp

theorem propagate_filterStrength (o : Opts) (ha : Bool) :
    (propagate o ha).filterStrength = (if o.filterStrength ≥ 0 then o.filterStrength else 60) := by
  simp only [propagate, apply_ite LossyCfg.filterStrength, defaultConfig]
  try simp

theorem propagate_filterSharpness (o : Opts) (ha : Bool) :
    (propagate o ha).filterSharpness = (o.filterSharpness) := by
  simp only [propagate, apply_ite LossyCfg.filterSharpness, defaultConfig]
  try simp

theorem propagate_filterType (o : Opts) (ha : Bool) :
    (propagate o ha).filterType = (if o.filterType ≥ 0 then o.filterType else 1) := by
  simp only [propagate, apply_ite LossyCfg.filterType, defaultConfig]
  try simp

theorem propagate_partitions (o : Opts) (ha : Bool) :
    (propagate o ha).partitions = (o.partitions) := by
  simp only [propagate, apply_ite LossyCfg.partitions, defaultConfig]
  try simp

theorem propagate_segments (o : Opts) (ha : Bool) :
    (propagate o ha).segments = (if o.segments > 0 then o.segments else 4) := by
  simp only [propagate, apply_ite LossyCfg.segments, defaultConfig]
  try simp

theorem propagate_pass (o : Opts) (ha : Bool) :
    (propagate o ha).pass = (if o.pass > 0 then o.pass else 1) := by
  simp only [propagate, apply_ite LossyCfg.pass, defaultConfig]
  try simp

theorem propagate_preprocessing (o : Opts) (ha : Bool) :
    (propagate o ha).preprocessing = (o.preprocessing) := by
  simp only [propagate, apply_ite LossyCfg.preprocessing, defaultConfig]
  try simp

theorem propagate_dithering (o : Opts) (ha : Bool) :
    (propagate o ha).dithering = (if bit1 o.preprocessing then some o.quality else none) := by
  simp only [propagate, apply_ite LossyCfg.dithering, defaultConfig]
  try simp

theorem propagate_qMin (o : Opts) (ha : Bool) :
    (propagate o ha).qMin = (o.qMin) := by
  simp only [propagate, apply_ite LossyCfg.qMin, defaultConfig]
  try simp

theorem propagate_qMax (o : Opts) (ha : Bool) :
    (propagate o ha).qMax = (resolveQMax o.qMax) := by
  simp only [propagate, apply_ite LossyCfg.qMax, defaultConfig]
  try simp

theorem propagate_hasAlpha (o : Opts) (ha : Bool) :
    (propagate o ha).hasAlpha = (if ha then 1 else 0) := by
  simp only [propagate, apply_ite LossyCfg.hasAlpha, defaultConfig]
  try simp

theorem LossyCfg.ext' (a b : LossyCfg)
    (h_quality : a.quality = b.quality)
    (h_targetSize : a.targetSize = b.targetSize)
    (h_targetPSNR : a.targetPSNR = b.targetPSNR)
    (h_method : a.method = b.method)
    (h_snsStrength : a.snsStrength = b.snsStrength)
    (h_filterStrength : a.filterStrength = b.filterStrength)
    (h_filterSharpness : a.filterSharpness = b.filterSharpness)
    (h_filterType : a.filterType = b.filterType)
    (h_partitions : a.partitions = b.partitions)
    (h_segments : a.segments = b.segments)
    (h_pass : a.pass = b.pass)
    (h_preprocessing : a.preprocessing = b.preprocessing)
    (h_dithering : a.dithering = b.dithering)
    (h_qMin : a.qMin = b.qMin)
    (h_qMax : a.qMax = b.qMax)
    (h_hasAlpha : a.hasAlpha = b.hasAlpha)
    : a = b := by
  cases a; cases b; simp_all

theorem propagate_eq (o : Opts) (ha : Bool) : propagate o ha =
    { quality := clampQ o.quality.toInt
      targetSize := if o.targetSize > 0 then o.targetSize else 0
      targetPSNR := if o.targetPSNR.gtZero then o.targetPSNR else F32.zero
      method := o.method
      snsStrength := if o.snsStrength ≥ 0 then o.snsStrength else 50
      filterStrength := if o.filterStrength ≥ 0 then o.filterStrength else 60
      filterSharpness := o.filterSharpness
      filterType := if o.filterType ≥ 0 then o.filterType else 1
      partitions := o.partitions
      segments := if o.segments > 0 then o.segments else 4
      pass := if o.pass > 0 then o.pass else 1
      preprocessing := o.preprocessing
      dithering := if bit1 o.preprocessing then some o.quality else none
      qMin := o.qMin
      qMax := resolveQMax o.qMax
      hasAlpha := if ha then 1 else 0 } := by
  apply LossyCfg.ext'
  · exact propagate_quality o ha
  · exact propagate_targetSize o ha
  · exact propagate_targetPSNR o ha
  · exact propagate_method o ha
  · exact propagate_snsStrength o ha
  · exact propagate_filterStrength o ha
  · exact propagate_filterSharpness o ha
  · exact propagate_filterType o ha
  · exact propagate_partitions o ha
  · exact propagate_segments o ha
  · exact propagate_pass o ha
  · exact propagate_preprocessing o ha
  · exact propagate_dithering o ha
  · exact propagate_qMin o ha
  · exact propagate_qMax o ha
  · exact propagate_hasAlpha o ha

/-! ### accepted options resolve into the codec domain -/

theorem clampQ_range (q : Int) : 0 ≤ clampQ q ∧ clampQ q ≤ 100 := by
  unfold clampQ; split_ifs <;> omega

theorem F32.zero_finiteNonneg : F32.zero.FiniteNonneg := by
  simp [F32.FiniteNonneg, F32.zero, F32.ltZero, F32.isNaN, F32.isInf]

theorem propagate_inDomain (o : Opts) (ha : Bool) (hv : DocValid o) : (propagate o ha).InDomain := by
  have hq := hv.qMinMax
  rw [docMeaning_qMax] at hq
  have := hv.method; have := hv.targetSize; have := hv.preprocessing
  have := hv.snsStrength; have := hv.filterStrength; have := hv.filterSharpness
  have := hv.filterType; have := hv.partitions; have := hv.segments; have := hv.pass
  constructor
  · rw [propagate_quality]; exact clampQ_range _
  · rw [propagate_targetSize]; split_ifs <;> omega
  · rw [propagate_targetPSNR]; split_ifs
    · exact hv.targetPSNR
    · exact F32.zero_finiteNonneg
  · rw [propagate_method]; omega
  · rw [propagate_snsStrength]; split_ifs <;> omega
  · rw [propagate_filterStrength]; split_ifs <;> omega
  · rw [propagate_filterSharpness]; omega
  · rw [propagate_filterType]; split_ifs <;> omega
  · rw [propagate_partitions]; omega
  · rw [propagate_segments]; split_ifs <;> omega
  · rw [propagate_pass]; split_ifs <;> omega
  · rw [propagate_preprocessing]; omega
  · rw [propagate_dithering, propagate_preprocessing]
    constructor
    · cases bit1 o.preprocessing <;> simp
    · intro q hq'
      split_ifs at hq' with hb
      cases hq'; exact hv.quality
  · rw [propagate_qMin, propagate_qMax]; omega
  · rw [propagate_hasAlpha]; cases ha <;> simp

theorem alphaConfig_inDomain (o : Opts) (hv : DocValid o) : (alphaConfig o).InDomain := by
  have := hv.method; have := hv.alphaQuality
  constructor
  · simp only [alphaConfig, resolveAlphaQuality]; split_ifs <;> omega
  · simp only [alphaConfig]; split_ifs <;> simp
  · simp only [alphaConfig]; split_ifs <;> simp
  · simp only [alphaConfig]; omega

theorem metaOk_of (o : Opts) (hv : DocValid o) :
    MetaOk (hasMetadata o) (lenOf o.icc) (lenOf o.exif) (lenOf o.xmp) := by
  refine ⟨?_, hv.icc, hv.exif, hv.xmp⟩
  simp only [hasMetadata, Bool.or_eq_true, decide_eq_true_eq]
  omega

theorem dispatch_inDomain (o : Opts) (d : ImgDims) (hv : DocValid o) (hd : DimsOk d.w d.h) :
    InCodecDomain (dispatch o d) := by
  unfold dispatch
  by_cases hl : o.lossless = true
  · rw [if_pos hl]
    exact ⟨hd, F32.toInt_range _ hv.quality, hv.method, rfl, metaOk_of o hv⟩
  · rw [if_neg hl]
    refine ⟨hd, propagate_inDomain o _ hv, ?_, ?_, metaOk_of o hv⟩
    · intro a h
      cases hA : d.hasAlpha with
      | true =>
        simp only [hA, if_true] at h
        cases h
        exact alphaConfig_inDomain o hv
      | false => simp [hA] at h
    · rw [propagate_hasAlpha]; cases d.hasAlpha <;> simp

/-- `front` never panics or hangs, and its error is determined by the first failing check -/
theorem front_cases (o : Opts) (d : ImgDims) :
    (∃ e, front (some o) d = .err e) ∨
    (front (some o) d = .ok (dispatch o d) ∧ d.writerNil = false ∧ d.imgNil = false ∧
      validateConfig o = none ∧ DimsOk d.w d.h) := by
  cases hw : d.writerNil with
  | true => left; exact ⟨.nilWriter, by simp [front, hw]⟩
  | false =>
  cases hi : d.imgNil with
  | true => left; exact ⟨.nilImage, by simp [front, hw, hi]⟩
  | false =>
  cases hv : validateConfig o with
  | some e => left; exact ⟨e, by simp [front, hw, hi, hv]⟩
  | none =>
    by_cases h3 : d.w ≤ 0 ∨ d.h ≤ 0
    · left; exact ⟨.dimsEmpty, by simp [front, hw, hi, hv, h3]⟩
    by_cases h4 : d.w > maxDimension ∨ d.h > maxDimension
    · left; exact ⟨.dimsTooLarge, by simp [front, hw, hi, hv, h3, h4]⟩
    right
    have hd : DimsOk d.w d.h := by unfold maxDimension at h4; exact ⟨by omega, by omega, by omega, by omega⟩
    exact ⟨front_ok_of o d hw hi hv hd, rfl, rfl, rfl, hd⟩
