import Webp.Proofs.MuxAccepted
/-
  What a passing `validate` guarantees: canvas within [1, 2^24]², offsets within [0, 2^25),
  every frame whose size can be read lies inside the canvas.
-/
namespace Webp.Proofs.MuxValidate
open Webp.Go Webp.Impl Webp.Impl.Mux Webp.Proofs.MuxAccepted
open Webp.Impl.Demux (splitAlphaAndBitstream frameDimensions)

theorem wrap64_id {x : Int} (h0 : -9223372036854775808 ≤ x) (h1 : x < 9223372036854775808) : wrap64 x = x := by
  unfold wrap64; omega

theorem vp8dims_le {bs : Bytes} {w h : Nat} (e : Demux.parseVP8Dimensions bs = .ok (w, h)) :
    w ≤ 16384 ∧ h ≤ 16384 := by
  unfold Demux.parseVP8Dimensions at e
  by_cases h1 : bs.length < 10
  · simp [h1] at e
  · by_cases h2 : byteAt bs 3 ≠ 0x9d ∨ byteAt bs 4 ≠ 0x01 ∨ byteAt bs 5 ≠ 0x2a
    · simp [h1, h2] at e
    · simp only [h1, h2, if_false, Res.ok.injEq, Prod.mk.injEq] at e
      omega

theorem vp8ldims_le {bs : Bytes} {w h : Nat} {a : Bool} (e : Demux.parseVP8LDimensions bs = .ok (w, h, a)) :
    w ≤ 16384 ∧ h ≤ 16384 := by
  unfold Demux.parseVP8LDimensions at e
  by_cases h1 : bs.length < 5
  · simp [h1] at e
  · by_cases h2 : byteAt bs 0 ≠ 0x2f
    · simp [h1, h2] at e
    · simp only [h1, h2, if_false, Res.ok.injEq, Prod.mk.injEq] at e
      omega

theorem frameDimensions_le (d : Bytes) : (frameDimensions d).1 ≤ 16384 ∧ (frameDimensions d).2 ≤ 16384 := by
  have tv : ∀ bs : Bytes,
      (if bs.length ≥ 10 then
        (match Demux.parseVP8Dimensions bs with
        | .ok (w, h) => (w, h)
        | _ => ((0, 0) : Nat × Nat)) else (0, 0)).1 ≤ 16384 ∧
      (if bs.length ≥ 10 then
        (match Demux.parseVP8Dimensions bs with
        | .ok (w, h) => (w, h)
        | _ => ((0, 0) : Nat × Nat)) else (0, 0)).2 ≤ 16384 := by
    intro bs
    split
    · cases hp : Demux.parseVP8Dimensions bs with
      | ok x => obtain ⟨w, h⟩ := x; exact vp8dims_le hp
      | err e => simp
      | panic => simp
      | hang => simp
    · simp
  unfold frameDimensions
  simp only
  split
  · cases hp : Demux.parseVP8LDimensions (splitAlphaAndBitstream d).2 with
    | ok x => obtain ⟨w, h, a⟩ := x; exact vp8ldims_le hp
    | err e => exact tv _
    | panic => exact tv _
    | hang => exact tv _
  · exact tv _

structure FrameBounds (cw ch : Int) (f : MuxFrame) : Prop where
  ox0 : 0 ≤ f.opts.offsetX
  oy0 : 0 ≤ f.opts.offsetY
  ox1 : Int.tdiv f.opts.offsetX 2 < 16777216
  oy1 : Int.tdiv f.opts.offsetY 2 < 16777216
  inside : (frameDimensions f.data).1 ≠ 0 → (frameDimensions f.data).2 ≠ 0 →
    f.opts.offsetX + (frameDimensions f.data).1 ≤ cw ∧ f.opts.offsetY + (frameDimensions f.data).2 ≤ ch
  noAlphL : (splitAlphaAndBitstream f.data).1.isSome →
    detectBitstreamType (splitAlphaAndBitstream f.data).2 ≠ Webp.Impl.Parser.ccVP8L

theorem validateFrames_ok (cw ch : Int) : ∀ (fs : List MuxFrame), validateFrames cw ch fs = .ok () →
    ∀ f ∈ fs, FrameBounds cw ch f := by
  intro fs
  induction fs with
  | nil => intro _ f hf; cases hf
  | cons g fs ih =>
    intro hv f hf
    unfold validateFrames validateFramesWith at hv
    have hm : maxPositionOff = 16777216 := rfl
    have e1 : (frameDims g.data).1 = ((frameDimensions g.data).1 : Int) := rfl
    have e2 : (frameDims g.data).2 = ((frameDimensions g.data).2 : Int) := rfl
    have hle := frameDimensions_le g.data
    split at hv
    · simp at hv
    · rename_i hal
      have hnal : (splitAlphaAndBitstream g.data).1.isSome →
          detectBitstreamType (splitAlphaAndBitstream g.data).2 ≠ Webp.Impl.Parser.ccVP8L := by
        intro h1 h2; exact hal ⟨rfl, h1, h2⟩
      have ih' : validateFramesWith true cw ch fs = .ok () → ∀ f ∈ fs, FrameBounds cw ch f := ih
      split at hv
      · simp at hv
      · rename_i hb
        have hox : Int.tdiv g.opts.offsetX 2 = g.opts.offsetX / 2 := Int.tdiv_eq_ediv_of_nonneg (by omega)
        have hoy : Int.tdiv g.opts.offsetY 2 = g.opts.offsetY / 2 := Int.tdiv_eq_ediv_of_nonneg (by omega)
        simp only at hv
        split at hv
        · rename_i hz
          rcases List.mem_cons.mp hf with h | h
          · subst h
            exact ⟨by omega, by omega, by omega, by omega, by intro h1 h2; omega, hnal⟩
          · exact ih' hv f h
        · rename_i hz
          have w1 : wrap64 (g.opts.offsetX + (frameDims g.data).1) =
              g.opts.offsetX + ((frameDimensions g.data).1 : Int) := by
            rw [e1]; exact wrap64_id (by omega) (by omega)
          have w2 : wrap64 (g.opts.offsetY + (frameDims g.data).2) =
              g.opts.offsetY + ((frameDimensions g.data).2 : Int) := by
            rw [e2]; exact wrap64_id (by omega) (by omega)
          split at hv
          · simp at hv
          · split at hv
            · simp at hv
            · rename_i h3 h4
              rw [w1, w2] at h4
              rcases List.mem_cons.mp hf with h | h
              · subst h
                exact ⟨by omega, by omega, by omega, by omega, by intro _ _; omega, hnal⟩
              · exact ih' hv f h

theorem canvasSize_pos (s : MuxState) : 1 ≤ (canvasSize s).1 ∧ 1 ≤ (canvasSize s).2 := by
  unfold canvasSize
  split
  · rename_i h; simp only; omega
  · split
    · simp
    · have key : ∀ (fs : List MuxFrame) (acc : Int × Int), 0 ≤ acc.1 → 0 ≤ acc.2 →
          0 ≤ (fs.foldl (fun (acc : Int × Int) f =>
            ((if (if (frameDims f.data).1 > 0 ∧ wrap64 (f.opts.offsetX + (frameDims f.data).1) < f.opts.offsetX then maxInt
                  else wrap64 (f.opts.offsetX + (frameDims f.data).1)) > acc.1 then
                (if (frameDims f.data).1 > 0 ∧ wrap64 (f.opts.offsetX + (frameDims f.data).1) < f.opts.offsetX then maxInt
                  else wrap64 (f.opts.offsetX + (frameDims f.data).1)) else acc.1),
             (if (if (frameDims f.data).2 > 0 ∧ wrap64 (f.opts.offsetY + (frameDims f.data).2) < f.opts.offsetY then maxInt
                  else wrap64 (f.opts.offsetY + (frameDims f.data).2)) > acc.2 then
                (if (frameDims f.data).2 > 0 ∧ wrap64 (f.opts.offsetY + (frameDims f.data).2) < f.opts.offsetY then maxInt
                  else wrap64 (f.opts.offsetY + (frameDims f.data).2)) else acc.2))) acc).1 ∧
          0 ≤ (fs.foldl (fun (acc : Int × Int) f =>
            ((if (if (frameDims f.data).1 > 0 ∧ wrap64 (f.opts.offsetX + (frameDims f.data).1) < f.opts.offsetX then maxInt
                  else wrap64 (f.opts.offsetX + (frameDims f.data).1)) > acc.1 then
                (if (frameDims f.data).1 > 0 ∧ wrap64 (f.opts.offsetX + (frameDims f.data).1) < f.opts.offsetX then maxInt
                  else wrap64 (f.opts.offsetX + (frameDims f.data).1)) else acc.1),
             (if (if (frameDims f.data).2 > 0 ∧ wrap64 (f.opts.offsetY + (frameDims f.data).2) < f.opts.offsetY then maxInt
                  else wrap64 (f.opts.offsetY + (frameDims f.data).2)) > acc.2 then
                (if (frameDims f.data).2 > 0 ∧ wrap64 (f.opts.offsetY + (frameDims f.data).2) < f.opts.offsetY then maxInt
                  else wrap64 (f.opts.offsetY + (frameDims f.data).2)) else acc.2))) acc).2 := by
        intro fs
        induction fs with
        | nil => intro acc h1 h2; exact ⟨h1, h2⟩
        | cons f fs ih =>
          intro acc h1 h2
          simp only [List.foldl_cons]
          apply ih
          · simp only; split <;> omega
          · simp only; split <;> omega
      have := key s.frames (0, 0) (by simp) (by simp)
      simp only
      constructor
      · split <;> omega
      · split <;> omega

structure ValidFacts (s : MuxState) : Prop where
  cw1 : 1 ≤ (canvasSize s).1
  cw2 : (canvasSize s).1 ≤ 16777216
  ch1 : 1 ≤ (canvasSize s).2
  ch2 : (canvasSize s).2 ≤ 16777216
  area : (canvasSize s).1 * (canvasSize s).2 < 1073741824
  icc : (s.iccData.getD []).length ≤ Webp.Impl.Parser.maxMetadataSize
  exif : (s.exifData.getD []).length ≤ Webp.Impl.Parser.maxMetadataSize
  xmp : (s.xmpData.getD []).length ≤ Webp.Impl.Parser.maxMetadataSize
  flen : ∀ f ∈ s.frames, f.data.length ≤ 4294967274
  frames : ∀ f ∈ s.frames, FrameBounds (canvasSize s).1 (canvasSize s).2 f

theorem validate_facts {s : MuxState} (hv : validate s = .ok ()) : ValidFacts s := by
  have hp := canvasSize_pos s
  unfold validate validateWith at hv
  have hm : maxCanvasSize = 16777216 := rfl
  split at hv
  · simp at hv
  · split at hv
    · simp at hv
    · rename_i hmeta
      split at hv
      · simp at hv
      · rename_i hfl
        split at hv
        · simp at hv
        · split at hv
          · simp at hv
          · simp only at hv
            split at hv
            · simp at hv
            · rename_i hc
              split at hv
              · simp at hv
              · rename_i ha
                have hmd : ¬ ((s.iccData.getD []).length > Webp.Impl.Parser.maxMetadataSize ∨
                    (s.exifData.getD []).length > Webp.Impl.Parser.maxMetadataSize ∨
                    (s.xmpData.getD []).length > Webp.Impl.Parser.maxMetadataSize) := fun h => hmeta ⟨rfl, h⟩
                have hfd : ∀ f ∈ s.frames, f.data.length ≤ 4294967274 := by
                  intro f hf
                  have hn : ¬ ((s.frames.any fun f => decide (f.data.length > maxFrameData)) = true) :=
                    fun h => hfl ⟨rfl, h⟩
                  simp only [List.any_eq_true, decide_eq_true_eq, not_exists, not_and] at hn
                  have := hn f hf
                  simp only [maxFrameData] at this
                  omega
                have h1 : u64 (canvasSize s).1 = (canvasSize s).1.toNat := by unfold u64; omega
                have h2 : u64 (canvasSize s).2 = (canvasSize s).2.toNat := by unfold u64; omega
                have hA : (canvasSize s).1.toNat * (canvasSize s).2.toNat < 1073741824 := by
                  have hle : (canvasSize s).1.toNat * (canvasSize s).2.toNat ≤ 16777216 * 16777216 :=
                    Nat.mul_le_mul (by omega) (by omega)
                  have hna : ¬ ((u64 (canvasSize s).1 * u64 (canvasSize s).2) % 18446744073709551616 ≥
                      Webp.Impl.Parser.maxImageArea) := fun h => ha ⟨trivial, h⟩
                  rw [h1, h2] at hna
                  simp only [Webp.Impl.Parser.maxImageArea] at hna
                  omega
                have e1 : (((canvasSize s).1.toNat : Nat) : Int) = (canvasSize s).1 := Int.toNat_of_nonneg (by omega)
                have e2 : (((canvasSize s).2.toNat : Nat) : Int) = (canvasSize s).2 := Int.toNat_of_nonneg (by omega)
                have hAi : (canvasSize s).1 * (canvasSize s).2 < 1073741824 := by
                  rw [← e1, ← e2, ← Int.natCast_mul]; omega
                exact ⟨hp.1, by omega, hp.2, by omega, hAi, by omega, by omega, by omega, hfd,
                  validateFrames_ok _ _ _ hv⟩

end Webp.Proofs.MuxValidate
