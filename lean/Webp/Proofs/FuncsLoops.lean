import Webp.Go.IntSem
import Webp.Proofs.FuncsBridge
/-
  Lemmas about the early-exit loop combinators of `Webp/Go/IntSem.lean` (`forRangeRet`).
-/
namespace Webp.Proofs.FuncsLoops
open Webp.Go Webp.Go.IntSem Webp.Proofs.FuncsBridge

/-- a stateless scanning loop: `for i := 0; i < n; i++ { if p(i) { return true } }` -/
theorem scan_fold (n : Nat) (p : Nat → Bool) (body : Int → Unit → R (Step Bool Unit))
    (hbody : ∀ k, k < n → body (0 + 1 * (k : Int)) () = .ok (if p k then Step.ret true else Step.next ())) :
    ∀ m, m ≤ n →
    (List.range m).foldl
      (fun (acc : R (Step Bool Unit)) (k : Nat) => Step.andThen acc (body (0 + 1 * (k : Int)))) (.ok (.next ()))
      = .ok (if (List.range m).any p then Step.ret true else Step.next ()) := by
  intro m
  induction m with
  | zero => intro _; rfl
  | succ m ih =>
    intro hm
    rw [List.range_succ, List.foldl_append, ih (by omega)]
    simp only [List.foldl_cons, List.foldl_nil, List.any_append, List.any_cons, List.any_nil, Bool.or_false]
    by_cases h : (List.range m).any p = true
    · simp [h, Step.andThen, Res.bind]
    · have h' : (List.range m).any p = false := by simpa using h
      rw [h']
      simp only [Bool.false_eq_true, if_false, Bool.false_or, Step.andThen, ok_bind']
      rw [hbody m (by omega)]

theorem scan_loop (n : Nat) (p : Nat → Bool) (body : Int → Unit → R (Step Bool Unit))
    (hbody : ∀ k, k < n → body (0 + 1 * (k : Int)) () = .ok (if p k then Step.ret true else Step.next ())) :
    (forRangeRet (ρ := Bool) 0 (n : Int) 1 () body).bind (fun
      | Exit.ret r => .ok r
      | Exit.fall _ => .ok false) = (.ok ((List.range n).any p) : R Bool) := by
  have htc : tripCount 0 (n : Int) 1 = n := by unfold tripCount; simp
  unfold forRangeRet
  rw [htc, scan_fold n p body hbody n (Nat.le_refl n)]
  by_cases h : (List.range n).any p = true
  · simp [h, Res.bind, Step.toExit]
  · have h' : (List.range n).any p = false := by simpa using h
    simp [h', Res.bind, Step.toExit]

/-! ## `for cond {…}` loops: invariant + variant -/

theorem whileFuel_inv {σ : Type} (cond : σ → Bool) (body : σ → R σ) (I : σ → Prop) (μ : σ → Nat)
    (hstep : ∀ s, I s → cond s = true → ∃ s', body s = .ok s' ∧ I s' ∧ μ s' < μ s) :
    ∀ fuel s, I s → μ s ≤ fuel → ∃ s', whileFuel fuel cond body s = .ok s' ∧ I s' ∧ cond s' = false := by
  intro fuel
  induction fuel with
  | zero =>
    intro s hI hμ
    by_cases hc : cond s = true
    · obtain ⟨s', _, _, hlt⟩ := hstep s hI hc; omega
    · refine ⟨s, ?_, hI, by simpa using hc⟩
      simp [whileFuel, hc]
  | succ n ih =>
    intro s hI hμ
    by_cases hc : cond s = true
    · obtain ⟨s', hb, hI', hlt⟩ := hstep s hI hc
      obtain ⟨s'', h1, h2, h3⟩ := ih s' hI' (by omega)
      refine ⟨s'', ?_, h2, h3⟩
      simp [whileFuel, hc, hb, Res.bind, h1]
    · refine ⟨s, ?_, hI, by simpa using hc⟩
      simp [whileFuel, hc]

theorem whileFuelRet_inv {ρ σ : Type} (cond : σ → Bool) (body : σ → R (Step ρ σ)) (I : σ → Prop) (μ : σ → Nat)
    (hstep : ∀ s, I s → cond s = true →
      (∃ s', body s = .ok (.next s') ∧ I s' ∧ μ s' < μ s) ∨ (∃ s', body s = .ok (.brk s') ∧ I s')) :
    ∀ fuel s, I s → μ s < fuel → ∃ s', whileFuelRet fuel cond body s = .ok (.fall s') ∧ I s' := by
  intro fuel
  induction fuel with
  | zero =>
    intro s hI hμ
    omega
  | succ n ih =>
    intro s hI hμ
    by_cases hc : cond s = true
    · rcases hstep s hI hc with ⟨s', hb, hI', hlt⟩ | ⟨s', hb, hI'⟩
      · obtain ⟨s'', h1, h2⟩ := ih s' hI' (by omega)
        exact ⟨s'', by simp [whileFuelRet, hc, hb, Res.bind, h1], h2⟩
      · exact ⟨s', by simp [whileFuelRet, hc, hb, Res.bind], hI'⟩
    · exact ⟨s, by simp [whileFuelRet, hc], hI⟩

theorem whileFuel_bind_ok {σ β : Type} (P : β → Prop) (cond : σ → Bool) (body : σ → R σ) (I : σ → Prop) (μ : σ → Nat)
    (fuel : Nat) (s : σ) (k : σ → R β)
    (hstep : ∀ s, I s → cond s = true → ∃ s', body s = .ok s' ∧ I s' ∧ μ s' < μ s)
    (hI : I s) (hμ : μ s ≤ fuel) (hk : ∀ s', I s' → ∃ r, k s' = .ok r ∧ P r) :
    ∃ r, (whileFuel fuel cond body s).bind k = .ok r ∧ P r := by
  obtain ⟨s', h1, h2, -⟩ := whileFuel_inv cond body I μ hstep fuel s hI hμ
  rw [h1]; exact hk s' h2

theorem whileFuelRet_bind_ok {ρ σ β : Type} (P : β → Prop) (cond : σ → Bool) (body : σ → R (Step ρ σ)) (I : σ → Prop)
    (μ : σ → Nat) (fuel : Nat) (s : σ) (k : Exit ρ σ → R β)
    (hstep : ∀ s, I s → cond s = true →
      (∃ s', body s = .ok (.next s') ∧ I s' ∧ μ s' < μ s) ∨ (∃ s', body s = .ok (.brk s') ∧ I s'))
    (hI : I s) (hμ : μ s < fuel) (hk : ∀ s', I s' → ∃ r, k (.fall s') = .ok r ∧ P r) :
    ∃ r, (whileFuelRet fuel cond body s).bind k = .ok r ∧ P r := by
  obtain ⟨s', h1, h2⟩ := whileFuelRet_inv cond body I μ hstep fuel s hI hμ
  rw [h1]; exact hk s' h2

end Webp.Proofs.FuncsLoops
