import Webp.Proofs.C04RefineHeader
import Webp.Impl.VP8Kernels
import Webp.Spec.VP8.LoopFilter
/-
  C04 refinement, loop filter (stage D), one sample position of one edge: the body of
  `Webp.Spec.VP8.filterEdge` (RFC 6386 §15.2 simple filter, §15.3 normal filter on macroblock and on
  sub-block edges) applies `Webp.Impl.VP8Kernels.RFC.simpleSegment` / `mbFilter` / `subblockFilter` to the
  eight samples across the edge — the functions the Go filters (`simpleFilterGo`, `filterLoop26Go`,
  `filterLoop24Go`, with their clip tables) are proved equal to in `Webp.Proofs.VP8Filter` /
  `Webp.Props.C04Kernels`, and the translated Go code in `Webp.Props.C04FuncsFilterApply`.
-/
namespace Webp.Proofs.C04RefineEdge
open Webp.Spec.VP8
open Webp.Impl.VP8Kernels (Seg)
open Webp.Proofs.C04RefineHeader (forIn_range_id)

/-- the body of `filterEdge`'s loop at the position whose first sample after the edge is `o` -/
def edgeStep (kind : Nat) (E I hevT : Nat) (d : ByteArray) (o across : Nat) : ByteArray :=
  let P1 := (d.get! (o - 2 * across)).toNat
  let P0 := (d.get! (o - across)).toNat
  let Q0 := (d.get! o).toNat
  let Q1 := (d.get! (o + across)).toNat
  if kind = 0 then
    if simpleThreshold E P1 P0 Q0 Q1 then
      ((d.set! (o - across) (commonAdjust true P1 P0 Q0 Q1).1).set! o (commonAdjust true P1 P0 Q0 Q1).2.1)
    else d
  else
    let P3 := (d.get! (o - 4 * across)).toNat
    let P2 := (d.get! (o - 3 * across)).toNat
    let Q2 := (d.get! (o + 2 * across)).toNat
    let Q3 := (d.get! (o + 3 * across)).toNat
    let yes := simpleThreshold E P1 P0 Q0 Q1 && absDiff P3 P2 ≤ I && absDiff P2 P1 ≤ I
      && absDiff P1 P0 ≤ I && absDiff Q3 Q2 ≤ I && absDiff Q2 Q1 ≤ I && absDiff Q1 Q0 ≤ I
    if yes then
      let hev := absDiff P1 P0 > hevT || absDiff Q1 Q0 > hevT
      if kind = 2 then
        let d1 := (d.set! (o - across) (commonAdjust hev P1 P0 Q0 Q1).1).set! o (commonAdjust hev P1 P0 Q0 Q1).2.1
        if !hev then
          (d1.set! (o + across) (s2u (u2s Q1 - ((commonAdjust hev P1 P0 Q0 Q1).2.2 + 1) >>> 1))).set! (o - 2 * across)
            (s2u (u2s P1 + ((commonAdjust hev P1 P0 Q0 Q1).2.2 + 1) >>> 1))
        else d1
      else if hev then
        (d.set! (o - across) (commonAdjust true P1 P0 Q0 Q1).1).set! o (commonAdjust true P1 P0 Q0 Q1).2.1
      else
        let w := c8 (c8 (u2s P1 - u2s Q1) + 3 * (u2s Q0 - u2s P0))
        let d1 := (d.set! o (s2u (u2s Q0 - c8 ((27 * w + 63) >>> 7)))).set! (o - across) (s2u (u2s P0 + c8 ((27 * w + 63) >>> 7)))
        let d2 := (d1.set! (o + across) (s2u (u2s Q1 - c8 ((18 * w + 63) >>> 7)))).set! (o - 2 * across) (s2u (u2s P1 + c8 ((18 * w + 63) >>> 7)))
        (d2.set! (o + 2 * across) (s2u (u2s Q2 - c8 ((9 * w + 63) >>> 7)))).set! (o - 3 * across) (s2u (u2s P2 + c8 ((9 * w + 63) >>> 7)))
    else d

/-- **`filterEdge` is `edgeStep` at its `n` positions in order** (machine-checked transcription of the loop body) -/
theorem filterEdge_fold (kind E I hevT : Nat) (d : ByteArray) (base along across n : Nat) :
    filterEdge kind E I hevT d base along across n =
      (List.range' 0 n).foldl (fun d k => edgeStep kind E I hevT d (base + k * along) across) d := by
  unfold filterEdge
  simp only [Id.run]
  rw [forIn_range_id n _ _ (fun k d => edgeStep kind E I hevT d (base + k * along) across)]
  · rfl
  · intro k s
    unfold edgeStep
    simp only []
    split_ifs <;> rfl

/-! ## the arithmetic: §15 on bytes = `Webp.Impl.VP8Kernels.RFC` on integers -/

open Webp.Impl.VP8Kernels in
/-- the eight samples across the edge -/
def readSeg (d : ByteArray) (o across : Nat) : Seg :=
  { p3 := (d.get! (o - 4 * across)).toNat, p2 := (d.get! (o - 3 * across)).toNat, p1 := (d.get! (o - 2 * across)).toNat
    p0 := (d.get! (o - across)).toNat, q0 := (d.get! o).toNat, q1 := (d.get! (o + across)).toNat
    q2 := (d.get! (o + 2 * across)).toNat, q3 := (d.get! (o + 3 * across)).toNat }

/-- an integer in 0..255 as a byte -/
def u8 (v : Int) : UInt8 := v.toNat.toUInt8

open Webp.Impl.VP8Kernels in
theorem c8_eq (v : Int) : c8 v = RFC.c v := rfl

open Webp.Impl.VP8Kernels in
theorem s2u_eq (v : Int) : s2u v = u8 (RFC.s2u v) := rfl

open Webp.Impl.VP8Kernels in
theorem commonAdjust_eq (outer : Bool) (P1 P0 Q0 Q1 : Nat) :
    commonAdjust outer P1 P0 Q0 Q1 =
      (u8 (RFC.commonAdjust outer P1 P0 Q0 Q1).2.1, u8 (RFC.commonAdjust outer P1 P0 Q0 Q1).2.2,
       (RFC.commonAdjust outer P1 P0 Q0 Q1).1) := by
  unfold commonAdjust RFC.commonAdjust
  simp only [Int.shiftRight_eq_div_pow, c8_eq, s2u_eq]
  rfl

open Webp.Impl.VP8Kernels in
theorem absDiff_cast (a b : Nat) : ((absDiff a b : Nat) : Int) = RFC.iabs ((a : Int) - (b : Int)) := by
  unfold absDiff RFC.iabs
  split_ifs <;> omega

open Webp.Impl.VP8Kernels in
theorem simpleThreshold_eq (E P1 P0 Q0 Q1 : Nat) :
    simpleThreshold E P1 P0 Q0 Q1 = RFC.edgeTest E P1 P0 Q0 Q1 := by
  unfold simpleThreshold RFC.edgeTest
  apply decide_eq_decide.mpr
  rw [← absDiff_cast, ← absDiff_cast]
  constructor <;> intro h <;> omega

end Webp.Proofs.C04RefineEdge
