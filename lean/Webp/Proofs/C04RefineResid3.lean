import Webp.Proofs.C04RefineResid2
import Webp.Proofs.C04RefineModes3
import Webp.Impl.VP8SyntaxBytes
/-
  C04 refinement, residuals, part 3: the non-zero contexts — Go's bit-packed words (`mb.Nz` / `left.Nz`: bits 0–3
  luma, 4–5 U, 6–7 V; `NzDC`) vs the specification's `above[9·mbX + k]` / `left[k]` arrays — and the skipped
  macroblock (`decodeMB` with the skip flag: nothing is read, contexts cleared, Y2 context kept for `B_PRED`).
-/
namespace Webp.Proofs.C04RefineResid
open Webp.Spec.VP8
open Webp.Impl.VP8Recon (NzCtx skipNz)
open Webp.Proofs.C04RefineModes (getD_setN)

/-- Go's packed non-zero context and the RFC arrays; `A0` = `above` before the macroblock -/
structure NzRel (mbX : Nat) (A0 : Array Nat) (n : NzCtx) (cc : CoeffCtx) : Prop where
  t : ∀ k, k < 8 → cc.above.getD (9 * mbX + k) 0 = (n.tnz >>> k) % 2
  l : ∀ k, k < 8 → cc.left.getD k 0 = (n.lnz >>> k) % 2
  tdc : cc.above.getD (9 * mbX + 8) 0 = n.tnzDC
  ldc : cc.left.getD 8 0 = n.lnzDC
  o : ∀ i, (i < 9 * mbX ∨ 9 * mbX + 9 ≤ i) → cc.above.getD i 0 = A0.getD i 0
  asz : cc.above.size = A0.size
  asz9 : 9 * mbX + 9 ≤ A0.size
  lsz : 9 ≤ cc.left.size
  tb : n.tnz < 256
  lb : n.lnz < 256
  tdb : n.tnzDC ≤ 1
  ldb : n.lnzDC ≤ 1

def clearN (mbX n : Nat) (above left : Array Nat) : Array Nat × Array Nat :=
  (List.range' 0 n).foldl (fun s k => (s.1.setIfInBounds (9 * mbX + k) 0, s.2.setIfInBounds k 0)) (above, left)

theorem clear8_eq (mbX : Nat) (above left : Array Nat) : clear8 mbX above left = clearN mbX 8 above left := rfl

theorem clearN_spec (mbX : Nat) (above left : Array Nat) (n : Nat) :
    (clearN mbX n above left).1.size = above.size ∧ (clearN mbX n above left).2.size = left.size ∧
    (∀ i, (clearN mbX n above left).1.getD i 0 =
      if 9 * mbX ≤ i ∧ i < 9 * mbX + n ∧ i < above.size then 0 else above.getD i 0) ∧
    (∀ i, (clearN mbX n above left).2.getD i 0 = if i < n ∧ i < left.size then 0 else left.getD i 0) := by
  induction n with
  | zero =>
    refine ⟨rfl, rfl, fun i => ?_, fun i => ?_⟩
    · rw [if_neg (by omega)]; rfl
    · rw [if_neg (by omega)]; rfl
  | succ n ih =>
    obtain ⟨h1, h2, h3, h4⟩ := ih
    have e : clearN mbX (n + 1) above left =
        ((clearN mbX n above left).1.setIfInBounds (9 * mbX + n) 0, (clearN mbX n above left).2.setIfInBounds n 0) := by
      unfold clearN
      rw [List.range'_concat, List.foldl_append]
      simp
    rw [e]
    refine ⟨by simp only [Array.size_setIfInBounds]; exact h1, by simp only [Array.size_setIfInBounds]; exact h2,
      fun i => ?_, fun i => ?_⟩
    · show ((clearN mbX n above left).1.setIfInBounds (9 * mbX + n) 0).getD i 0 = _
      rw [getD_setN, h3 i, h1]
      split_ifs <;> first | rfl | omega
    · show ((clearN mbX n above left).2.setIfInBounds n 0).getD i 0 = _
      rw [getD_setN, h4 i, h2]
      split_ifs <;> first | rfl | omega

/-- **the contexts a skipped macroblock leaves**: Go `skipNz` (`mb.Nz = left.Nz = 0`, `NzDC` cleared unless
    `B_PRED`) vs the specification's cleared flags -/
theorem skip_nzrel (mbX : Nat) (A0 : Array Nat) (n : NzCtx) (cc : CoeffCtx) (h : NzRel mbX A0 n cc) (isI4 : Bool) :
    NzRel mbX A0 (skipNz isI4 n)
      (if !isI4 then
        { above := (clear8 mbX cc.above cc.left).1.setIfInBounds (9 * mbX + 8) 0,
          left := (clear8 mbX cc.above cc.left).2.setIfInBounds 8 0 }
       else { above := (clear8 mbX cc.above cc.left).1, left := (clear8 mbX cc.above cc.left).2 }) := by
  obtain ⟨c1, c2, c3, c4⟩ := clearN_spec mbX cc.above cc.left 8
  rw [← clear8_eq] at c1 c2 c3 c4
  generalize clear8 mbX cc.above cc.left = C at c1 c2 c3 c4 ⊢
  have hasz := h.asz; have hasz9 := h.asz9; have hlsz := h.lsz
  cases isI4
  · -- a macroblock with a Y2 block: all nine flags cleared
    simp only [Bool.not_false, if_true]
    refine ⟨?_, ?_, ?_, ?_, ?_, ?_, hasz9, ?_, by show (0 : Nat) < 256; omega, by show (0 : Nat) < 256; omega,
      by show (0 : Nat) ≤ 1; omega, by show (0 : Nat) ≤ 1; omega⟩
    · intro k hk
      show (C.1.setIfInBounds (9 * mbX + 8) 0).getD (9 * mbX + k) 0 = (0 >>> k) % 2
      rw [getD_setN, c3, Nat.zero_shiftRight]
      split_ifs <;> first | rfl | omega
    · intro k hk
      show (C.2.setIfInBounds 8 0).getD k 0 = (0 >>> k) % 2
      rw [getD_setN, c4, Nat.zero_shiftRight]
      split_ifs <;> first | rfl | omega
    · show (C.1.setIfInBounds (9 * mbX + 8) 0).getD (9 * mbX + 8) 0 = 0
      rw [getD_setN, if_pos ⟨rfl, by omega⟩]
    · show (C.2.setIfInBounds 8 0).getD 8 0 = 0
      rw [getD_setN, if_pos ⟨rfl, by omega⟩]
    · intro i hi
      show (C.1.setIfInBounds (9 * mbX + 8) 0).getD i 0 = _
      rw [getD_setN, c3, if_neg (by omega), if_neg (by omega)]
      exact h.o i hi
    · show (C.1.setIfInBounds (9 * mbX + 8) 0).size = _
      rw [Array.size_setIfInBounds, c1]; exact hasz
    · show 9 ≤ (C.2.setIfInBounds 8 0).size
      rw [Array.size_setIfInBounds, c2]; exact hlsz
  · -- `B_PRED`: the Y2 flags stay
    simp only [Bool.not_true, Bool.false_eq_true, if_false]
    refine ⟨?_, ?_, ?_, ?_, ?_, ?_, hasz9, ?_, by show (0 : Nat) < 256; omega, by show (0 : Nat) < 256; omega, h.tdb, h.ldb⟩
    · intro k hk
      show C.1.getD (9 * mbX + k) 0 = (0 >>> k) % 2
      rw [c3, Nat.zero_shiftRight, if_pos ⟨by omega, by omega, by omega⟩]
    · intro k hk
      show C.2.getD k 0 = (0 >>> k) % 2
      rw [c4, Nat.zero_shiftRight, if_pos ⟨by omega, by omega⟩]
    · show C.1.getD (9 * mbX + 8) 0 = n.tnzDC
      rw [c3, if_neg (by omega)]; exact h.tdc
    · show C.2.getD 8 0 = n.lnzDC
      rw [c4, if_neg (by omega)]; exact h.ldc
    · intro i hi
      show C.1.getD i 0 = _
      rw [c3, if_neg (by omega)]; exact h.o i hi
    · show C.1.size = _
      rw [c1]; exact hasz
    · show 9 ≤ C.2.size
      rw [c2]; exact hlsz

end Webp.Proofs.C04RefineResid
