import Webp.Proofs.CodecFrontBasic
import Webp.Impl.AnimDec
/-
  C05 corollaries for the animation reader (model: Webp/Impl/AnimDec.lean, theorems of C09):
  canvas allocation bound of `NewAnimDecoder`, and "every canvas write is inside the canvas" for
  `compositeFrame` / `applyDispose` with arbitrary frame geometry.
-/
namespace Webp.Impl.CodecFront
open Webp.Go Webp.Impl.AnimDec
open Webp.Spec.Anim (Px Canvas Frame)

theorem newAnimDecoder_bounded (cw ch : Int) (hw : cw < 2 ^ 32) (hh : ch < 2 ^ 32) :
    (newAnimDecoder cw ch).Safe ∧
    ∀ st, newAnimDecoder cw ch = .ok st →
      0 < cw ∧ 0 < ch ∧ st.curr.size = cw.toNat * ch.toNat ∧ st.prevDisposed.size = cw.toNat * ch.toNat ∧
      cw.toNat * ch.toNat ≤ 2 ^ 30 := by
  unfold newAnimDecoder
  by_cases h0 : cw ≤ 0 ∨ ch ≤ 0
  · rw [if_pos h0]
    exact ⟨trivial, fun st e => by cases e⟩
  rw [if_neg h0]
  dsimp only
  have h1 : cw.toNat < 4294967296 := by omega
  have h2 : ch.toNat < 4294967296 := by omega
  have hp : cw.toNat * ch.toNat < 4294967296 * 4294967296 := Nat.mul_lt_mul'' h1 h2
  have hmod : cw.toNat * ch.toNat % 18446744073709551616 = cw.toNat * ch.toNat :=
    Nat.mod_eq_of_lt (by omega)
  rw [hmod]
  unfold maxCanvasArea
  by_cases ha : cw.toNat * ch.toNat > 1073741824
  · rw [if_pos ha]
    exact ⟨trivial, fun st e => by cases e⟩
  · rw [if_neg ha, if_neg ha]
    refine ⟨trivial, fun st e => ?_⟩
    injection e with e
    subst e
    have p30 : (2 : Nat) ^ 30 = 1073741824 := by decide
    refine ⟨by omega, by omega, ?_, ?_, by omega⟩
    · show (Array.replicate _ _).size = _
      rw [Array.size_replicate]
    · show (Array.replicate _ _).size = _
      rw [Array.size_replicate]

theorem inImage_index_lt (w h : Nat) (x y : Int) (hxy : inImage w h x y = true) :
    y.toNat * w + x.toNat < w * h := by
  unfold inImage at hxy
  simp only [Bool.and_eq_true, decide_eq_true_eq] at hxy
  obtain ⟨⟨⟨hx0, hxw⟩, hy0⟩, hyh⟩ := hxy
  have hx : x.toNat < w := by omega
  have hy : y.toNat < h := by omega
  have h1 : (y.toNat + 1) * w ≤ h * w := Nat.mul_le_mul_right w hy
  have h2 : (y.toNat + 1) * w = y.toNat * w + w := Nat.succ_mul _ _
  have h3 : h * w = w * h := Nat.mul_comm _ _
  omega

theorem setNRGBA_size (w h : Nat) (pix : Array Px) (x y : Int) (c : Px) :
    (setNRGBA w h pix x y c).size = pix.size := by
  unfold setNRGBA
  split
  · exact Array.size_setIfInBounds
  · rfl

theorem forRange_size (lo hi : Int) (body : Int → Array Px → Array Px)
    (hb : ∀ v s, (body v s).size = s.size) (s : Array Px) :
    (forRange lo hi body s).size = s.size := by
  unfold forRange
  generalize List.range (hi - lo).toNat = l
  induction l generalizing s with
  | nil => rfl
  | cons a l ih => rw [List.foldl_cons, ih, hb]

theorem fillRect_size (w h : Nat) (canvas : Canvas) (rect : Rect) (c : Px) :
    (fillRect w h canvas rect c).size = canvas.size := by
  unfold fillRect
  exact forRange_size _ _ _ (fun y s => forRange_size _ _ _ (fun x s => setNRGBA_size w h s x y c) s) canvas

theorem applyDispose_size (w h : Nat) (canvas : Canvas) (f : Frame) :
    (applyDispose w h canvas f).size = canvas.size := by
  unfold applyDispose
  split
  · exact fillRect_size w h canvas _ _
  · rfl

theorem compositeFrame_size (w h : Nat) (f : Frame) (curr : Canvas) :
    (compositeFrame w h f curr).size = curr.size := by
  unfold compositeFrame
  dsimp only
  split
  · rfl
  · refine forRange_size _ _ _ (fun y s => ?_) curr
    split
    · rfl
    · refine forRange_size _ _ _ (fun x s => ?_) s
      split
      · rfl
      · split
        · exact setNRGBA_size ..
        · exact setNRGBA_size ..

theorem step_sizes (allowKey : Bool) (w h : Nat) (f : Frame) (st : State)
    (h1 : st.curr.size = w * h) (h2 : st.prevDisposed.size = w * h) :
    (step allowKey w h f st).1.size = w * h ∧ (step allowKey w h f st).2.curr.size = w * h ∧
    (step allowKey w h f st).2.prevDisposed.size = w * h := by
  unfold step
  dsimp only
  have hc : (if (allowKey && isKeyFrame w h f st.pos st) = true then clearCanvas st.curr
      else st.prevDisposed).size = w * h := by
    split
    · unfold clearCanvas; rw [Array.size_replicate, h1]
    · exact h2
  refine ⟨?_, ?_, ?_⟩
  · rw [compositeFrame_size, hc]
  · rw [compositeFrame_size, hc]
  · rw [applyDispose_size, compositeFrame_size, hc]

end Webp.Impl.CodecFront
