import Webp.Proofs.VP8LEntropyCopy
/-
  The pixel loop of `decodeImageData` (model: `Webp.Impl.VP8LEntropy.pixelLoop`) refines the
  specification's pixel loop (`Webp.Spec.VP8L.decodePixelsLoop`).

  The implementation writes into a full-size zeroed buffer, keeps `(row, col)` next to `pos`,
  caches the prefix-code group across a tile, copies with `copyBlock32`, and inserts pixels into
  the colour cache LAZILY (at row ends, after copies, before a cache lookup).  The specification
  pushes pixels onto `out`, recomputes the group from `pos`, copies pixel by pixel and inserts
  every pixel EAGERLY.  `Rel` is the simulation relation; `stepToken_refines` one token;
  `pixelLoop_eq_refLoop` the loop; `decodePixelLoop_eq_spec` the result.
-/
namespace Webp.Proofs.VP8LEntropyLoop
open Webp.Impl.VP8LEntropy Webp.Proofs.VP8LEntropyCopy
open Webp.Go (Res)
open Webp.Spec.VP8L (Token Err BitReader EntropyParams execToken copyLoop cacheInsert cacheNew groupIndexAt)

/-- the group the implementation uses at pixel `pos` (out-of-range indices fall back to 0) -/
def groupAt (p : LoopParams) (pos : Nat) : Nat := (getHTreeGroup p (pos % p.width) (pos / p.width)).getD 0

/-- the loop-top refresh `if (col & mask) == 0 { htreeGroup = getHTreeGroup(col, row) }` -/
def refresh (p : LoopParams) (s : LoopSt) : LoopSt :=
  if colMaskZero p s.col then { s with group := (getHTreeGroup p s.col s.row).getD 0 } else s

/-! ### arithmetic -/

theorem xy_unique {w pos row col : Nat} (h : pos = row * w + col) (hc : col < w) :
    pos % w = col ∧ pos / w = row := by
  subst h
  rw [Nat.mul_comm, Nat.add_comm]
  constructor
  · rw [Nat.add_mul_mod_self_left, Nat.mod_eq_of_lt hc]
  · rw [Nat.add_mul_div_left _ _ (by omega), Nat.div_eq_of_lt hc, Nat.zero_add]

theorem wrapXY_eq (w : Nat) (hw : 0 < w) (fuel x y : Nat) (hf : x / w < fuel) :
    wrapXY w fuel x y = (x % w, y + x / w) := by
  induction fuel generalizing x y with
  | zero => exact absurd hf (Nat.not_lt_zero _)
  | succ f ih =>
    unfold wrapXY
    by_cases hx : x ≥ w
    · rw [if_pos hx]
      have hdiv : x / w = (x - w) / w + 1 := Nat.div_eq_sub_div hw hx
      rw [ih (x - w) (y + 1) (by omega), ← Nat.mod_eq_sub_mod hx, hdiv]
      congr 1; omega
    · rw [if_neg hx, Nat.mod_eq_of_lt (by omega), Nat.div_eq_of_lt (by omega)]; rfl

/-- the `for col >= width` loop after a copy of `len` pixels -/
theorem wrapXY_copy (w len col row : Nat) (hc : col < w) :
    wrapXY w (len + 1) (col + len) row = ((col + len) % w, row + (col + len) / w) := by
  apply wrapXY_eq w (by omega)
  rw [Nat.div_lt_iff_lt_mul (by omega), Nat.add_mul, Nat.one_mul]
  have : len ≤ len * w := Nat.le_mul_of_pos_right len (by omega)
  omega

theorem succ_div_of_mod_ne (x m : Nat) (h : (x + 1) % m ≠ 0) : (x + 1) / m = x / m := by
  rw [Nat.succ_div, if_neg (by rw [Nat.dvd_iff_mod_eq_zero]; exact h), Nat.add_zero]

theorem colMaskZero_zero (p : LoopParams) : colMaskZero p 0 = true := by
  unfold colMaskZero; split <;> simp

/-- inside a tile (mask test fails) the next column has the same group -/
theorem getHTreeGroup_succ (p : LoopParams) (col row : Nat) (h : colMaskZero p (col + 1) = false) :
    getHTreeGroup p (col + 1) row = getHTreeGroup p col row := by
  unfold getHTreeGroup
  by_cases hb : p.subsampleBits = 0
  · simp only [hb, if_true]
  · unfold colMaskZero at h
    rw [if_neg hb, Nat.one_shiftLeft, Nat.and_two_pow_sub_one_eq_mod] at h
    have h' : (col + 1) % 2 ^ p.subsampleBits ≠ 0 := by simpa using h
    have e : (col + 1) >>> p.subsampleBits = col >>> p.subsampleBits := by
      rw [Nat.shiftRight_eq_div_pow, Nat.shiftRight_eq_div_pow]
      exact succ_div_of_mod_ne _ _ h'
    simp only [e]

/-! ### `flush` -/

@[simp] theorem flush_data (p : LoopParams) (s : LoopSt) : (LoopSt.flush p s).data = s.data := by
  unfold LoopSt.flush; split <;> rfl
@[simp] theorem flush_pos (p : LoopParams) (s : LoopSt) : (LoopSt.flush p s).pos = s.pos := by
  unfold LoopSt.flush; split <;> rfl
@[simp] theorem flush_row (p : LoopParams) (s : LoopSt) : (LoopSt.flush p s).row = s.row := by
  unfold LoopSt.flush; split <;> rfl
@[simp] theorem flush_col (p : LoopParams) (s : LoopSt) : (LoopSt.flush p s).col = s.col := by
  unfold LoopSt.flush; split <;> rfl
@[simp] theorem flush_group (p : LoopParams) (s : LoopSt) : (LoopSt.flush p s).group = s.group := by
  unfold LoopSt.flush; split <;> rfl

theorem flush_lastCached_le (p : LoopParams) (s : LoopSt) (h : s.lastCached ≤ s.pos) :
    (LoopSt.flush p s).lastCached ≤ s.pos := by
  unfold LoopSt.flush; split
  · exact h
  · show max s.lastCached s.pos ≤ s.pos
    omega

/-- the pending-flush cache: what the cache WOULD be if everything written so far were inserted -/
theorem flush_cache (p : LoopParams) (s : LoopSt) :
    (LoopSt.flush p s).cache =
      if p.cacheBits = 0 then s.cache
      else flushCache p.cacheBits s.data (s.pos - s.lastCached) s.lastCached s.cache := by
  unfold LoopSt.flush; split <;> rfl

theorem flush_lastCached (p : LoopParams) (s : LoopSt) :
    (LoopSt.flush p s).lastCached = if p.cacheBits = 0 then s.lastCached else max s.lastCached s.pos := by
  unfold LoopSt.flush; split <;> rfl

/-- flushing twice is flushing once -/
theorem flush_flush_cache (p : LoopParams) (s : LoopSt) (h : s.lastCached ≤ s.pos) :
    (LoopSt.flush p (LoopSt.flush p s)).cache = (LoopSt.flush p s).cache := by
  rw [flush_cache p (LoopSt.flush p s)]
  by_cases hb : p.cacheBits = 0
  · rw [if_pos hb]
  · rw [if_neg hb, flush_pos, flush_lastCached, if_neg hb, show s.pos - max s.lastCached s.pos = 0 by omega]
    rfl

/-! ### B.1 the simulation relation -/

/-- implementation state `s` against the specification state `(out, cache)`.
    `tail` (the buffer is still zero from `pos` on) is an addition to the obvious list: it makes the
    relation strong enough for ILLEGAL copy distances too (`dist = 0`), so that the loop theorem
    holds for every token source. -/
structure Rel (p : LoopParams) (s : LoopSt) (out cache : Array UInt32) : Prop where
  size : s.data.size = p.width * p.height
  pos : s.pos = out.size
  le : out.size ≤ p.width * p.height
  pre : ∀ i, i < s.pos → s.data[i]? = out[i]?
  tail : ∀ i, s.pos ≤ i → s.data.getD i 0 = 0
  lc : s.lastCached ≤ s.pos
  /-- the PENDING-FLUSH equation: the deferred cache catches up with the eager one at a flush -/
  cache : (LoopSt.flush p s).cache = cache
  xy : s.pos = s.row * p.width + s.col
  col : s.col < p.width
  /-- the cached group is right whenever it is not about to be refreshed -/
  group : colMaskZero p s.col = false → s.group = groupAt p s.pos

theorem Rel.col_row {p : LoopParams} {s : LoopSt} {out cache : Array UInt32} (h : Rel p s out cache) :
    s.pos % p.width = s.col ∧ s.pos / p.width = s.row := xy_unique h.xy h.col

/-- after the loop-top refresh the cached group is the group of the current pixel -/
theorem Rel.refresh {p : LoopParams} {s : LoopSt} {out cache : Array UInt32} (h : Rel p s out cache) :
    Rel p (refresh p s) out cache ∧ (refresh p s).group = groupAt p s.pos := by
  unfold VP8LEntropyLoop.refresh
  by_cases hm : colMaskZero p s.col = true
  · rw [if_pos hm]
    refine ⟨⟨h.size, h.pos, h.le, h.pre, h.tail, h.lc, ?_, h.xy, h.col, ?_⟩, ?_⟩
    · rw [flush_cache]; have := h.cache; rw [flush_cache] at this; exact this
    · intro _; show _ = groupAt p s.pos
      unfold groupAt; rw [h.col_row.1, h.col_row.2]
    · show _ = groupAt p s.pos
      unfold groupAt; rw [h.col_row.1, h.col_row.2]
  · rw [if_neg hm]
    exact ⟨h, h.group (by simpa using hm)⟩

theorem Rel.flush {p : LoopParams} {s : LoopSt} {out cache : Array UInt32} (h : Rel p s out cache) :
    Rel p (LoopSt.flush p s) out cache := by
  refine ⟨?_, ?_, h.le, ?_, ?_, ?_, ?_, ?_, ?_, ?_⟩
  · rw [flush_data]; exact h.size
  · rw [flush_pos]; exact h.pos
  · rw [flush_pos, flush_data]; exact h.pre
  · rw [flush_pos, flush_data]; exact h.tail
  · rw [flush_pos]; exact flush_lastCached_le p s h.lc
  · rw [flush_flush_cache p s h.lc]; exact h.cache
  · rw [flush_pos, flush_row, flush_col]; exact h.xy
  · rw [flush_col]; exact h.col
  · rw [flush_col, flush_group, flush_pos]; exact h.group

/-! ### one pixel (literal or cache hit) -/

/-- the pending-flush cache after writing one pixel `v` at `pos`: the eager insertion of `v` -/
theorem pending_push {p : LoopParams} {s : LoopSt} {out cache : Array UInt32} (h : Rel p s out cache)
    (hlt : s.pos < p.width * p.height) (v : UInt32) (x : LoopSt)
    (hd : x.data = s.data.setIfInBounds s.pos v) (hp : x.pos = s.pos + 1)
    (hl : x.lastCached = s.lastCached) (hc : x.cache = s.cache) :
    (LoopSt.flush p x).cache = cacheInsert p.cacheBits cache v := by
  have hcache := h.cache
  rw [flush_cache] at hcache
  rw [flush_cache, hd, hp, hl, hc]
  by_cases hb : p.cacheBits = 0
  · rw [if_pos hb] at hcache ⊢
    unfold cacheInsert
    rw [if_pos hb, hcache]
  · rw [if_neg hb] at hcache ⊢
    have hlc := h.lc
    rw [show s.pos + 1 - s.lastCached = (s.pos - s.lastCached) + 1 by omega, flushCache_succ_end,
      flushCache_congr _ _ s.data _ _ _ (fun j h1 h2 => Array.getElem?_setIfInBounds_ne (by omega)), hcache,
      show s.lastCached + (s.pos - s.lastCached) = s.pos by omega, Array.getD_eq_getD_getElem?,
      Array.getElem?_setIfInBounds_self, if_pos (by rw [h.size]; exact hlt)]
    rfl

theorem Rel.advance {p : LoopParams} {s : LoopSt} {out cache : Array UInt32} (h : Rel p s out cache)
    (hlt : s.pos < p.width * p.height) (hg : s.group = groupAt p s.pos) (v : UInt32) :
    Rel p (LoopSt.advanceByOne p { s with data := s.data.setIfInBounds s.pos v }) (out.push v)
      (cacheInsert p.cacheBits cache v) := by
  have hpre : ∀ i, i < s.pos + 1 → (s.data.setIfInBounds s.pos v)[i]? = (out.push v)[i]? := by
    intro i hi
    rw [Array.getElem?_setIfInBounds, Array.getElem?_push, ← h.pos]
    by_cases hi' : s.pos = i
    · rw [if_pos hi', if_pos hi'.symm, if_pos (by rw [h.size]; exact hlt)]
    · rw [if_neg hi', if_neg (fun e => hi' e.symm)]; exact h.pre i (by omega)
  have htail : ∀ i, s.pos + 1 ≤ i → (s.data.setIfInBounds s.pos v).getD i 0 = 0 := by
    intro i hi
    rw [Array.getD_eq_getD_getElem?, Array.getElem?_setIfInBounds_ne (by omega), ← Array.getD_eq_getD_getElem?]
    exact h.tail i (by omega)
  have hsize : (s.data.setIfInBounds s.pos v).size = p.width * p.height := by
    rw [Array.size_setIfInBounds]; exact h.size
  have hpos : s.pos + 1 = (out.push v).size := by rw [Array.size_push, h.pos]
  have hle : (out.push v).size ≤ p.width * p.height := by rw [← hpos]; omega
  unfold LoopSt.advanceByOne
  by_cases hwrap : s.col + 1 ≥ p.width
  · simp only [if_pos hwrap]
    refine ⟨?_, ?_, hle, ?_, ?_, ?_, ?_, ?_, ?_, ?_⟩
    · rw [flush_data]; exact hsize
    · rw [flush_pos]; exact hpos
    · rw [flush_pos, flush_data]; exact hpre
    · rw [flush_pos, flush_data]; exact htail
    · rw [flush_pos]; apply flush_lastCached_le; show s.lastCached ≤ s.pos + 1; have := h.lc; omega
    · rw [flush_flush_cache _ _ (by show s.lastCached ≤ s.pos + 1; have := h.lc; omega)]
      exact pending_push h hlt v _ rfl rfl rfl rfl
    · rw [flush_pos, flush_row, flush_col]
      show s.pos + 1 = (s.row + 1) * p.width + 0
      have := h.xy; have := h.col
      rw [Nat.add_mul, Nat.one_mul]; omega
    · rw [flush_col]; show 0 < p.width; have := h.col; omega
    · rw [flush_col]; intro hc
      have : colMaskZero p 0 = true := colMaskZero_zero p
      exact absurd hc (by rw [this]; decide)
  · simp only [if_neg hwrap]
    refine ⟨hsize, hpos, hle, hpre, htail, ?_, ?_, ?_, ?_, ?_⟩
    · show s.lastCached ≤ s.pos + 1; have := h.lc; omega
    · exact pending_push h hlt v _ rfl rfl rfl rfl
    · show s.pos + 1 = s.row * p.width + (s.col + 1); have := h.xy; omega
    · show s.col + 1 < p.width; omega
    · intro hc
      show s.group = groupAt p (s.pos + 1)
      have hxy' : s.pos + 1 = s.row * p.width + (s.col + 1) := by have := h.xy; omega
      have hcr := xy_unique hxy' (by omega : s.col + 1 < p.width)
      rw [hg]; unfold groupAt
      rw [hcr.1, hcr.2, h.col_row.1, h.col_row.2, getHTreeGroup_succ p _ _ hc]

/-! ### a backward reference -/

/-- the state after `copyBlock32` + `for col >= width` + the conditional group refresh + the flush,
    against the specification's `copyLoop` -/
theorem Rel.copy {p : LoopParams} {s : LoopSt} {out cache : Array UInt32} (h : Rel p s out cache)
    (len dist : Nat) (hdist : dist ≤ s.pos) (hlen : len ≤ p.width * p.height - s.pos) (s' : LoopSt)
    (hs' : s' =
      (let data := copyBlock32 s.data s.pos dist len
       let cr := wrapXY p.width (len + 1) (s.col + len) s.row
       let s1 : LoopSt := { s with data := data, pos := s.pos + len, col := cr.1, row := cr.2 }
       let s2 := if colMaskZero p cr.1 then s1 else { s1 with group := (getHTreeGroup p cr.1 cr.2).getD 0 }
       LoopSt.flush p s2)) :
    Rel p s' (copyLoop p.cacheBits dist len out cache).1 (copyLoop p.cacheBits dist len out cache).2 := by
  have hposle : s.pos ≤ p.width * p.height := by rw [h.pos]; exact h.le
  have hfit : s.pos + len ≤ s.data.size := by rw [h.size]; omega
  have hcb : copyBlock32 s.data s.pos dist len = seqCopy s.data s.pos dist len :=
    copyBlock_eq_spec' _ _ _ _ hdist hfit
  have hcl := seqCopy_copyLoop p.cacheBits s.data out cache s.pos dist len h.pos.symm h.pre (.inr h.tail) hfit
  have hwr := wrapXY_copy p.width len s.col s.row h.col
  rw [hcl]
  rw [hcb, hwr] at hs'
  simp only [] at hs'
  have hw : 0 < p.width := by have := h.col; omega
  have hcol' : (s.col + len) % p.width < p.width := Nat.mod_lt _ hw
  have hxy' : s.pos + len = (s.row + (s.col + len) / p.width) * p.width + (s.col + len) % p.width := by
    have h1 := Nat.div_add_mod (s.col + len) p.width
    rw [Nat.add_mul, Nat.mul_comm ((s.col + len) / p.width)]
    have := h.xy; omega
  -- the fields of `s'` that do not depend on the group refresh
  have hdata : s'.data = seqCopy s.data s.pos dist len := by
    rw [hs', flush_data]; split <;> rfl
  have hpos : s'.pos = s.pos + len := by rw [hs', flush_pos]; split <;> rfl
  have hcolE : s'.col = (s.col + len) % p.width := by rw [hs', flush_col]; split <;> rfl
  have hrowE : s'.row = s.row + (s.col + len) / p.width := by rw [hs', flush_row]; split <;> rfl
  have hsz : ((seqCopy s.data s.pos dist len).extract 0 (s.pos + len)).size = s.pos + len := by
    rw [Array.size_extract, seqCopy_size]; omega
  refine ⟨?_, ?_, ?_, ?_, ?_, ?_, ?_, ?_, ?_, ?_⟩
  · rw [hdata, seqCopy_size]; exact h.size
  · rw [hpos, hsz]
  · show ((seqCopy s.data s.pos dist len).extract 0 (s.pos + len)).size ≤ _
    rw [hsz]; omega
  · intro i hi
    rw [hpos] at hi
    show s'.data[i]? = ((seqCopy s.data s.pos dist len).extract 0 (s.pos + len))[i]?
    rw [hdata, Array.getElem?_extract, if_pos (by rw [seqCopy_size]; omega), Nat.zero_add]
  · intro i hi
    rw [hpos] at hi
    rw [hdata, Array.getD_eq_getD_getElem?, seqCopy_getElem?_outside _ _ _ _ _ (.inr hi),
      ← Array.getD_eq_getD_getElem?]
    exact h.tail i (by omega)
  · rw [hpos, hs']
    have hlc := h.lc
    have : ∀ x : LoopSt, x.pos = s.pos + len → x.lastCached = s.lastCached →
        (LoopSt.flush p x).lastCached ≤ s.pos + len := by
      intro x hx hl
      have := flush_lastCached_le p x (by rw [hx, hl]; omega)
      rw [hx] at this; exact this
    split
    · exact this _ rfl rfl
    · exact this _ rfl rfl
  · show (LoopSt.flush p s').cache = flushCache p.cacheBits (seqCopy s.data s.pos dist len) len s.pos cache
    have hlc := h.lc
    have hcache := h.cache
    rw [flush_cache] at hcache
    have key : ∀ x : LoopSt, x.data = seqCopy s.data s.pos dist len → x.pos = s.pos + len →
        x.lastCached = s.lastCached → x.cache = s.cache →
        (LoopSt.flush p (LoopSt.flush p x)).cache =
          flushCache p.cacheBits (seqCopy s.data s.pos dist len) len s.pos cache := by
      intro x hxd hxp hxl hxc
      rw [flush_flush_cache _ _ (by rw [hxp, hxl]; omega), flush_cache, hxd, hxp, hxl, hxc]
      by_cases hb : p.cacheBits = 0
      · rw [if_pos hb] at hcache ⊢
        rw [hb, flushCache_bits_zero, hcache]
      · rw [if_neg hb] at hcache ⊢
        rw [show s.pos + len - s.lastCached = (s.pos - s.lastCached) + len by omega, flushCache_add,
          flushCache_congr p.cacheBits (seqCopy s.data s.pos dist len) s.data (s.pos - s.lastCached)
            s.lastCached s.cache (fun j h1 h2 => seqCopy_getElem?_outside _ _ _ _ _ (.inl (by omega))),
          hcache, show s.lastCached + (s.pos - s.lastCached) = s.pos by omega]
    rw [hs']
    split
    · exact key _ rfl rfl rfl rfl
    · exact key _ rfl rfl rfl rfl
  · rw [hpos, hcolE, hrowE]; exact hxy'
  · rw [hcolE]; exact hcol'
  · rw [hcolE, hpos]
    intro hc
    have hcr := xy_unique hxy' hcol'
    rw [hs', flush_group]
    rw [if_neg (by rw [hc]; decide)]
    show (getHTreeGroup p _ _).getD 0 = groupAt p (s.pos + len)
    unfold groupAt
    rw [hcr.1, hcr.2]

/-! ### B.2 one token -/

/-- **One token.**  After the loop-top group refresh, the implementation's step and the
    specification's `execToken` either fail with the same error or both succeed in related states.
    (`0 < p.width` is part of `Rel`: `col < width`.) -/
theorem stepToken_refines {p : LoopParams} {s : LoopSt} {out cache : Array UInt32} (t : Token)
    (hR : Rel p s out cache) (hlt : s.pos < p.width * p.height) :
    (∃ s' out' cache', stepToken p t (refresh p s) = .ok s' ∧
        execToken (p.width * p.height) p.cacheBits t out cache = .ok (out', cache') ∧
        Rel p s' out' cache') ∨
    (∃ e, stepToken p t (refresh p s) = .err e ∧
        execToken (p.width * p.height) p.cacheBits t out cache = .err e) := by
  obtain ⟨h, hg⟩ := hR.refresh
  have hposr : (refresh p s).pos = s.pos := by
    unfold refresh; split <;> rfl
  rw [← hposr] at hlt hg
  generalize refresh p s = r at h hg hlt
  cases t with
  | literal argb =>
    left
    exact ⟨_, _, _, rfl, rfl, h.advance hlt hg argb⟩
  | copy len dist =>
    unfold stepToken execToken
    simp only []
    rw [← h.pos]
    by_cases h1 : r.pos < dist
    · right; exact ⟨.copyBeforeStart, by rw [if_pos h1], by rw [if_pos h1]⟩
    · by_cases h2 : p.width * p.height - r.pos < len
      · right; exact ⟨.copyPastEnd, by rw [if_neg h1, if_pos h2], by rw [if_neg h1, if_pos h2]⟩
      · left
        rw [if_neg h1, if_neg h2, if_neg h1, if_neg h2]
        exact ⟨_, _, _, rfl, rfl, h.copy len dist (by omega) (by omega) _ rfl⟩
  | cache key =>
    unfold stepToken execToken
    simp only []
    have hf := h.flush
    have hc := h.cache
    subst hc
    by_cases hk : key < (LoopSt.flush p r).cache.size
    · left
      rw [dif_pos hk, dif_pos hk]
      have hlt' : (LoopSt.flush p r).pos < p.width * p.height := by rw [flush_pos]; exact hlt
      have hg' : (LoopSt.flush p r).group = groupAt p (LoopSt.flush p r).pos := by
        rw [flush_group, flush_pos]; exact hg
      exact ⟨_, _, _, rfl, rfl, hf.advance hlt' hg' _⟩
    · right
      exact ⟨.cacheIndex, by rw [dif_neg hk], by rw [dif_neg hk]⟩

/-! ### B.3 the deferred cache at a lookup -/

@[simp] theorem advanceByOne_data (p : LoopParams) (s : LoopSt) : (LoopSt.advanceByOne p s).data = s.data := by
  unfold LoopSt.advanceByOne
  simp only []
  split
  · rw [flush_data]
  · rfl

/-- **Deferred = eager at every lookup.**  Under `Rel`, the cache the implementation indexes at a
    cache token (its own cache after the pending flush) IS the specification's eagerly maintained
    cache; the lookup succeeds in the same cases and the pixel written at `pos` is `cache[key]`. -/
theorem deferredCache_eq_eager {p : LoopParams} {s : LoopSt} {out cache : Array UInt32}
    (hR : Rel p s out cache) (hlt : s.pos < p.width * p.height) (key : Nat) :
    (LoopSt.flush p s).cache = cache ∧
    ((∃ s', stepToken p (.cache key) s = .ok s') ↔ key < cache.size) ∧
    ∀ s', stepToken p (.cache key) s = .ok s' → s'.data[s.pos]? = cache[key]? ∧ cache[key]?.isSome := by
  refine ⟨hR.cache, ?_, ?_⟩
  · have hc := hR.cache
    subst hc
    unfold stepToken
    simp only []
    by_cases hk : key < (LoopSt.flush p s).cache.size
    · rw [dif_pos hk]; exact ⟨fun _ => hk, fun _ => ⟨_, rfl⟩⟩
    · rw [dif_neg hk]
      refine ⟨?_, fun h => absurd h hk⟩
      rintro ⟨_, h⟩
      cases h
  · intro s' hs'
    have hc := hR.cache
    subst hc
    unfold stepToken at hs'
    simp only [] at hs'
    by_cases hk : key < (LoopSt.flush p s).cache.size
    · rw [dif_pos hk] at hs'
      injection hs' with hs'
      subst hs'
      rw [advanceByOne_data]
      show ((LoopSt.flush p s).data.setIfInBounds (LoopSt.flush p s).pos _)[s.pos]? = _ ∧ _
      rw [flush_pos, flush_data, Array.getElem?_setIfInBounds_self, if_pos (by rw [hR.size]; exact hlt),
        Array.getElem?_eq_getElem hk]
      exact ⟨rfl, rfl⟩
    · rw [dif_neg hk] at hs'; cases hs'

/-! ### B.4 the loop -/

/-- forget everything but the pixel buffer -/
def dataOf {σ : Type} : Res Err (LoopSt × σ) → Res Err (Array UInt32 × σ)
  | .ok (s, st) => .ok (s.data, st)
  | .err e => .err e
  | .panic => .panic
  | .hang => .hang

theorem pixelLoop_succ {σ : Type} (src : TokenSource σ) (p : LoopParams) (fuel : Nat) (s : LoopSt) (st : σ) :
    pixelLoop src p (fuel + 1) s st =
      if s.pos < p.width * p.height then
        match src.next (refresh p s).group st with
        | .ok (t, st) =>
          match stepToken p t (refresh p s) with
          | .ok s => pixelLoop src p fuel s st
          | .err e => .err e
          | .panic => .panic
          | .hang => .hang
        | .err e => .err e
        | .panic => .panic
        | .hang => .hang
      else .ok (s, st) := rfl

theorem refLoop_succ {σ : Type} (src : TokenSource σ) (g : Nat → Nat) (npix cb fuel : Nat)
    (out cache : Array UInt32) (st : σ) :
    refLoop src g npix cb (fuel + 1) out cache st =
      if out.size ≥ npix then .ok (out, st)
      else
        match src.next (g out.size) st with
        | .ok (t, st) =>
          match execToken npix cb t out cache with
          | .ok (out, cache) => refLoop src g npix cb fuel out cache st
          | .err e => .err e
          | .panic => .panic
          | .hang => .hang
        | .err e => .err e
        | .panic => .panic
        | .hang => .hang := rfl

/-- at the end of the loop the buffer IS the specification's output -/
theorem Rel.data_eq {p : LoopParams} {s : LoopSt} {out cache : Array UInt32} (h : Rel p s out cache)
    (hend : ¬ s.pos < p.width * p.height) : s.data = out := by
  have hle := h.le
  have hpos := h.pos
  apply Array.ext_getElem?
  intro i
  by_cases hi : i < s.pos
  · exact h.pre i hi
  · rw [Array.getElem?_eq_none (by rw [h.size]; omega), Array.getElem?_eq_none (by omega)]

/-- **The loops agree**, for every token source, from any related pair of states, with any fuel. -/
theorem pixelLoop_eq_refLoop {σ : Type} (src : TokenSource σ) (p : LoopParams) (fuel : Nat)
    (s : LoopSt) (out cache : Array UInt32) (st : σ) (hR : Rel p s out cache) :
    dataOf (pixelLoop src p fuel s st) =
      refLoop src (groupAt p) (p.width * p.height) p.cacheBits fuel out cache st := by
  induction fuel generalizing s out cache st with
  | zero => rfl
  | succ fuel ih =>
    rw [pixelLoop_succ, refLoop_succ]
    by_cases hlt : s.pos < p.width * p.height
    · rw [if_pos hlt, if_neg (by rw [← hR.pos]; omega), hR.refresh.2, hR.pos]
      cases hnext : src.next (groupAt p out.size) st with
      | ok x =>
        obtain ⟨t, st'⟩ := x
        simp only []
        rcases stepToken_refines t hR hlt with ⟨s', out', cache', h1, h2, hR'⟩ | ⟨e, h1, h2⟩
        · rw [h1, h2]; exact ih s' out' cache' st' hR'
        · rw [h1, h2]; rfl
      | err e => rfl
      | panic => rfl
      | hang => rfl
    · rw [if_neg hlt, if_pos (by rw [← hR.pos]; omega)]
      show Res.ok (s.data, st) = _
      rw [hR.data_eq hlt]

/-- the initial state of `decodeImageData` against the specification's empty output -/
theorem Rel.init (p : LoopParams) (hw : 0 < p.width) :
    Rel p { data := Array.replicate (p.width * p.height) 0, cache := cacheNew p.cacheBits,
            group := (getHTreeGroup p 0 0).getD 0 } #[] (cacheNew p.cacheBits) := by
  refine ⟨Array.size_replicate, rfl, Nat.zero_le _, ?_, ?_, Nat.le_refl _, ?_, ?_, hw, ?_⟩
  · intro i hi; exact absurd hi (Nat.not_lt_zero _)
  · intro i _
    show (Array.replicate (p.width * p.height) (0 : UInt32)).getD i 0 = 0
    rw [Array.getD_eq_getD_getElem?, Array.getElem?_replicate]
    split <;> rfl
  · rw [flush_cache]; split <;> rfl
  · show 0 = 0 * p.width + 0
    rw [Nat.zero_mul]
  · intro hc
    have hz : colMaskZero p 0 = true := colMaskZero_zero p
    exact absurd hc (by rw [hz]; decide)

theorem decodePixelLoop_eq_dataOf {σ : Type} (src : TokenSource σ) (p : LoopParams) (st : σ)
    (h : ¬ (p.width * p.height > 0 ∧ p.numGroups = 0)) :
    decodePixelLoop src p st =
      dataOf (pixelLoop src p (p.width * p.height + 1)
        { data := Array.replicate (p.width * p.height) 0, cache := cacheNew p.cacheBits,
          group := (getHTreeGroup p 0 0).getD 0 } st) := by
  unfold decodePixelLoop
  simp only [if_neg h]
  generalize pixelLoop src p _ _ st = r
  cases r with
  | ok x => rfl
  | err e => rfl
  | panic => rfl
  | hang => rfl

/-- no pixels: both return the empty image without reading anything (whatever `numGroups` is) -/
theorem decodePixelLoop_npix_zero {σ : Type} (src : TokenSource σ) (p : LoopParams) (st : σ)
    (h0 : p.width * p.height = 0) :
    decodePixelLoop src p st = .ok (#[], st) ∧
    refDecode src (groupAt p) p.width p.height p.cacheBits st = .ok (#[], st) := by
  constructor
  · rw [decodePixelLoop_eq_dataOf _ _ _ (by omega), pixelLoop_succ, h0]
    rfl
  · unfold refDecode
    rw [refLoop_succ, h0]
    rfl

/-- pixels but no prefix-code group (`len(htreeGroups) == 0`): the implementation refuses before the
    loop.  The reference loop has no such test: `groupAt p = 0` everywhere and it asks the source
    for a token of group 0 (for `specSource` that is `.err .groupIndex` as well, see
    `decodePixelLoop_eq_spec'`). -/
theorem decodePixelLoop_noGroups {σ : Type} (src : TokenSource σ) (p : LoopParams) (st : σ)
    (hn : 0 < p.width * p.height) (hg : p.numGroups = 0) :
    decodePixelLoop src p st = .err .groupIndex ∧
    (∀ pos, groupAt p pos = 0) ∧
    refDecode src (groupAt p) p.width p.height p.cacheBits st =
      refLoop src (fun _ => 0) (p.width * p.height) p.cacheBits (p.width * p.height + 1) #[]
        (cacheNew p.cacheBits) st := by
  have hga : ∀ pos, groupAt p pos = 0 := by
    intro pos; unfold groupAt getHTreeGroup; rw [if_pos hg]; rfl
  refine ⟨?_, hga, ?_⟩
  · unfold decodePixelLoop
    simp only [if_pos (show p.width * p.height > 0 ∧ p.numGroups = 0 from ⟨hn, hg⟩)]
  · have : groupAt p = fun _ => 0 := funext hga
    rw [this]; rfl

/-- **The implementation's pixel loop is the reference loop**, for every token source and all
    parameters except "pixels but no groups". -/
theorem decodePixelLoop_eq_ref' {σ : Type} (src : TokenSource σ) (p : LoopParams) (st : σ)
    (h : p.width * p.height = 0 ∨ 0 < p.numGroups) :
    decodePixelLoop src p st = refDecode src (groupAt p) p.width p.height p.cacheBits st := by
  by_cases h0 : p.width * p.height = 0
  · have := decodePixelLoop_npix_zero src p st h0
    rw [this.1, this.2]
  · have hw : 0 < p.width := by
      apply Nat.pos_of_ne_zero; intro hw; apply h0; rw [hw, Nat.zero_mul]
    rw [decodePixelLoop_eq_dataOf _ _ _ (by omega)]
    exact pixelLoop_eq_refLoop src p _ _ _ _ st (Rel.init p hw)

set_option linter.unusedVariables false in
theorem decodePixelLoop_eq_ref {σ : Type} (src : TokenSource σ) (p : LoopParams) (st : σ)
    (hw : 0 < p.width) (hg : 0 < p.numGroups) :
    decodePixelLoop src p st = refDecode src (groupAt p) p.width p.height p.cacheBits st :=
  decodePixelLoop_eq_ref' src p st (.inr hg)

/-! ### B.5 the reference loop is the specification's loop -/

theorem decodePixelsLoop_succ (ep : EntropyParams) (npix fuel : Nat) (out cache : Array UInt32) (br : BitReader) :
    Webp.Spec.VP8L.decodePixelsLoop ep npix (fuel + 1) out cache br =
      if out.size ≥ npix then .ok (out, br)
      else
        if h : groupIndexAt ep out.size < ep.groups.size then
          match Webp.Spec.VP8L.readToken ep.groups[groupIndexAt ep out.size] ep.width br with
          | .ok (t, br) =>
            match execToken npix ep.cacheBits t out cache with
            | .ok (out, cache) => Webp.Spec.VP8L.decodePixelsLoop ep npix fuel out cache br
            | .err e => .err e
            | .panic => .panic
            | .hang => .hang
          | .err e => .err e
          | .panic => .panic
          | .hang => .hang
        else .err .groupIndex := rfl

theorem refLoop_spec (ep : EntropyParams) (npix fuel : Nat) (out cache : Array UInt32) (br : BitReader) :
    Webp.Spec.VP8L.decodePixelsLoop ep npix fuel out cache br =
      refLoop (specSource ep) (groupIndexAt ep) npix ep.cacheBits fuel out cache br := by
  induction fuel generalizing out cache br with
  | zero => rfl
  | succ fuel ih =>
    rw [decodePixelsLoop_succ, refLoop_succ]
    by_cases hdone : out.size ≥ npix
    · rw [if_pos hdone, if_pos hdone]
    · rw [if_neg hdone, if_neg hdone]
      by_cases hgi : groupIndexAt ep out.size < ep.groups.size
      · have hnext : (specSource ep).next (groupIndexAt ep out.size) br =
            Webp.Spec.VP8L.readToken ep.groups[groupIndexAt ep out.size] ep.width br := by
          show (if h : _ < ep.groups.size then _ else _) = _
          rw [dif_pos hgi]
        rw [dif_pos hgi, hnext]
        cases Webp.Spec.VP8L.readToken ep.groups[groupIndexAt ep out.size] ep.width br with
        | ok x =>
          obtain ⟨t, br'⟩ := x
          simp only []
          cases execToken npix ep.cacheBits t out cache with
          | ok y => obtain ⟨out', cache'⟩ := y; exact ih out' cache' br'
          | err e => rfl
          | panic => rfl
          | hang => rfl
        | err e => rfl
        | panic => rfl
        | hang => rfl
      · have hnext : (specSource ep).next (groupIndexAt ep out.size) br = .err .groupIndex := by
          show (if h : _ < ep.groups.size then _ else _) = _
          rw [dif_neg hgi]
        rw [dif_neg hgi, hnext]

/-- **The reference loop over `specSource` is the specification's `decodePixels`.** -/
theorem refDecode_spec (ep : EntropyParams) (br : BitReader) :
    Webp.Spec.VP8L.decodePixels ep br =
      refDecode (specSource ep) (groupIndexAt ep) ep.width ep.height ep.cacheBits br := by
  unfold Webp.Spec.VP8L.decodePixels refDecode
  simp only [Array.emptyWithCapacity_eq]
  exact refLoop_spec ep _ _ _ _ br

/-! ### B.6 against the real specification -/

/-- Go's range fallbacks (`i ≥ len(huffmanImage) → 0`, `idx ≥ len(htreeGroups) → 0`) are invisible when
    every entry of the entropy image is a valid group index. -/
theorem groupAt_ofSpec (ep : EntropyParams) (hidx : ∀ e ∈ ep.entropy, e < ep.groups.size) (pos : Nat) :
    groupAt (LoopParams.ofSpec ep) pos = groupIndexAt ep pos := by
  unfold groupAt getHTreeGroup groupIndexAt LoopParams.ofSpec
  simp only []
  generalize (pos / ep.width) >>> ep.prefixBits = ty
  generalize (pos % ep.width) >>> ep.prefixBits = tx
  rw [Nat.mul_comm ty]
  generalize Webp.Spec.VP8L.subSampleSize ep.width ep.prefixBits * ty + tx = i
  have hget : ∀ j, ep.entropy.getD j 0 < ep.groups.size ∨ ep.entropy.getD j 0 = 0 := by
    intro j
    rw [Array.getD_eq_getD_getElem?]
    cases hj : ep.entropy[j]? with
    | none => right; rfl
    | some e => left; exact hidx e (Array.mem_of_getElem? hj)
  by_cases hg : ep.groups.size = 0
  · rw [if_pos hg]
    show 0 = _
    by_cases hb : ep.prefixBits = 0
    · rw [if_pos hb]
    · rw [if_neg hb]
      rcases hget i with h | h
      · omega
      · exact h.symm
  · rw [if_neg hg]
    show (if _ then 0 else _) = _
    by_cases hb : ep.prefixBits = 0
    · rw [if_pos hb, if_pos hb]; split <;> rfl
    · rw [if_neg hb, if_neg hb]
      by_cases hi : i ≥ ep.entropy.size
      · rw [if_pos hi, Array.getD_eq_getD_getElem?, Array.getElem?_eq_none hi]
        split <;> rfl
      · rw [if_neg hi]
        rcases hget i with h | h
        · rw [if_neg (by omega)]
        · rw [h]; split <;> rfl

/-- **The implementation's pixel loop computes the specification's `decodePixels`** — same pixels,
    same final reader, same error — whenever the entropy image only names existing groups.
    (No hypothesis on `width` or the number of groups is needed.) -/
theorem decodePixelLoop_eq_spec' (ep : EntropyParams) (br : BitReader)
    (hidx : ∀ e ∈ ep.entropy, e < ep.groups.size) :
    decodePixelLoop (specSource ep) (LoopParams.ofSpec ep) br = Webp.Spec.VP8L.decodePixels ep br := by
  have hga : groupAt (LoopParams.ofSpec ep) = groupIndexAt ep := funext (groupAt_ofSpec ep hidx)
  by_cases h : ep.width * ep.height = 0 ∨ 0 < ep.groups.size
  · rw [decodePixelLoop_eq_ref' _ _ _ h, hga, refDecode_spec]
    rfl
  · have hn : 0 < ep.width * ep.height := by omega
    have hg : ep.groups.size = 0 := by omega
    rw [(decodePixelLoop_noGroups (specSource ep) (LoopParams.ofSpec ep) br hn hg).1]
    unfold Webp.Spec.VP8L.decodePixels
    simp only []
    rw [decodePixelsLoop_succ, if_neg (by simp only [Array.emptyWithCapacity_eq]; show ¬ 0 ≥ _; omega),
      dif_neg (by omega)]

set_option linter.unusedVariables false in
theorem decodePixelLoop_eq_spec (ep : EntropyParams) (br : BitReader) (hw : 0 < ep.width)
    (hg : 0 < ep.groups.size) (hidx : ∀ e ∈ ep.entropy, e < ep.groups.size) :
    decodePixelLoop (specSource ep) (LoopParams.ofSpec ep) br = Webp.Spec.VP8L.decodePixels ep br :=
  decodePixelLoop_eq_spec' ep br hidx

/-! ### non-vacuity, and the deferred cache is really deferred -/

/-- 3×2 image, 1-bit colour cache, one group -/
def pEx : LoopParams := { width := 3, height := 2, cacheBits := 1 }

def s0Ex : LoopSt :=
  { data := Array.replicate (pEx.width * pEx.height) 0, cache := cacheNew pEx.cacheBits,
    group := (getHTreeGroup pEx 0 0).getD 0 }

/-- the state after the literal `5` at pixel 0: written, but NOT yet in the implementation's cache -/
def s1Ex : LoopSt := LoopSt.advanceByOne pEx { s0Ex with data := s0Ex.data.setIfInBounds s0Ex.pos 5 }

theorem rel0Ex : Rel pEx s0Ex #[] (cacheNew 1) := Rel.init pEx (by decide)
theorem rel1Ex : Rel pEx s1Ex #[5] (cacheInsert 1 (cacheNew 1) 5) :=
  rel0Ex.advance (by decide) (by decide) 5

/-- info: (#[5, 0, 0, 0, 0, 0], 1, 0, #[0, 0]) -/
#guard_msgs in #eval (s1Ex.data, s1Ex.pos, s1Ex.lastCached, s1Ex.cache)
/-- info: #[0, 5] -/
#guard_msgs in #eval cacheInsert 1 (cacheNew 1) 5
/-- info: #[0, 5] -/
#guard_msgs in #eval (LoopSt.flush pEx s1Ex).cache

-- between flushes the implementation's cache is NOT the specification's cache …
example : s1Ex.cache ≠ cacheInsert 1 (cacheNew 1) 5 := by decide
-- … but the pending-flush cache is (this is `Rel.cache`), and a lookup reads from that one:
example : (LoopSt.flush pEx s1Ex).cache = cacheInsert 1 (cacheNew 1) 5 := rel1Ex.cache
example : (LoopSt.flush pEx s1Ex).cache = cacheInsert 1 (cacheNew 1) 5 ∧
    ((∃ s', stepToken pEx (.cache 1) s1Ex = .ok s') ↔ 1 < (cacheInsert 1 (cacheNew 1) 5).size) ∧
    ∀ s', stepToken pEx (.cache 1) s1Ex = .ok s' →
      s'.data[s1Ex.pos]? = (cacheInsert 1 (cacheNew 1) 5)[1]? ∧ (cacheInsert 1 (cacheNew 1) 5)[1]?.isSome :=
  deferredCache_eq_eager rel1Ex (by decide) 1
/-- info: some 5 -/
#guard_msgs in #eval (match stepToken pEx (.cache 1) s1Ex with | .ok s' => s'.data[1]? | _ => none)
-- reading the stale cache instead would have produced 0:
/-- info: some 0 -/
#guard_msgs in #eval s1Ex.cache[1]?

-- `stepToken_refines` at a related pair of states, for each kind of token
example := stepToken_refines (.literal 7) rel1Ex (by decide)
example := stepToken_refines (.copy 4 1) rel1Ex (by decide)      -- overlapping copy across the row end
example := stepToken_refines (.copy 9 1) rel1Ex (by decide)      -- `copyPastEnd` on both sides
example := stepToken_refines (.copy 1 2) rel1Ex (by decide)      -- `copyBeforeStart` on both sides
example := stepToken_refines (.cache 1) rel1Ex (by decide)
example := stepToken_refines (.cache 2) rel1Ex (by decide)       -- `cacheIndex` on both sides

example : dataOf (pixelLoop listSource pEx 7 s1Ex [.copy 4 1, .cache 1]) =
    refLoop listSource (groupAt pEx) (pEx.width * pEx.height) pEx.cacheBits 7 #[5] (cacheInsert 1 (cacheNew 1) 5)
      [.copy 4 1, .cache 1] :=
  pixelLoop_eq_refLoop listSource pEx 7 s1Ex _ _ _ rel1Ex

example (ts : List Token) :
    decodePixelLoop listSource pEx ts = refDecode listSource (groupAt pEx) 3 2 1 ts :=
  decodePixelLoop_eq_ref listSource pEx ts (by decide) (by decide)

/-- info: Webp.Go.Res.ok (#[5, 5, 5, 5, 5, 5], []) -/
#guard_msgs in #eval decodePixelLoop listSource pEx [.literal 5, .copy 4 1, .cache 1]
/-- info: Webp.Go.Res.ok (#[5, 5, 5, 5, 5, 5], []) -/
#guard_msgs in #eval refDecode listSource (groupAt pEx) 3 2 1 [.literal 5, .copy 4 1, .cache 1]

-- one group, no entropy image
example (g : Webp.Spec.VP8L.Group) (br : BitReader) :=
  decodePixelLoop_eq_spec { width := 3, height := 2, cacheBits := 1, groups := #[g] } br
    (by simp) (by simp) (by intro e he; simp at he)
-- two groups selected by a 2×1 entropy image (tiles of 4×4 pixels)
example (g0 g1 : Webp.Spec.VP8L.Group) (br : BitReader) :=
  decodePixelLoop_eq_spec
    { width := 8, height := 4, cacheBits := 0, prefixBits := 2, entropy := #[0, 1], groups := #[g0, g1] } br
    (by simp) (by simp) (by intro e he; simp at he; rcases he with rfl | rfl <;> simp)

-- `hidx` cannot be dropped: an out-of-range entry is group 0 for Go, `groupIndex` for the specification
/-- info: (0, 7) -/
#guard_msgs in #eval
  let ep : EntropyParams := { width := 8, height := 4, cacheBits := 0, prefixBits := 2, entropy := #[7, 1],
                              groups := #[default, default] }
  (groupAt (LoopParams.ofSpec ep) 0, groupIndexAt ep 0)

/-- info: 'Webp.Proofs.VP8LEntropyCopy.copyBlock_eq_spec' depends on axioms: [propext, Classical.choice, Quot.sound] -/
#guard_msgs in #print axioms copyBlock_eq_spec
/-- info: 'Webp.Proofs.VP8LEntropyLoop.deferredCache_eq_eager' depends on axioms: [propext] -/
#guard_msgs in #print axioms deferredCache_eq_eager
/-- info: 'Webp.Proofs.VP8LEntropyLoop.decodePixelLoop_eq_ref' depends on axioms: [propext, Classical.choice, Quot.sound] -/
#guard_msgs in #print axioms decodePixelLoop_eq_ref
/-- info: 'Webp.Proofs.VP8LEntropyLoop.decodePixelLoop_eq_spec' depends on axioms: [propext, Classical.choice, Quot.sound] -/
#guard_msgs in #print axioms decodePixelLoop_eq_spec

end Webp.Proofs.VP8LEntropyLoop
