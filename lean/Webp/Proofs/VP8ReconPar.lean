import Webp.Proofs.VP8ReconAgree
/-
  C06 helper: the row-parallel encoder (`encodeRow` with its local left context, the shared
  `topY/topU/topV`, `fillPredContextParallel`, `reconstructMBParallel`, `exportParallel`) leaves
  the same planes as the serial iterator.
-/
namespace Webp.Proofs.VP8ReconPar
open Webp.Impl.VP8Recon Webp.Proofs.VP8ReconFrame Webp.Proofs.VP8ReconAgree

/-- the shared arrays after the rows `< y` -/
def rowsDone (K : Kernels) (f : EncFrame) (srcY srcU srcV : Plane) (y : Nat) : ParShared :=
  (List.range y).foldl (fun sh y => parRow K f y sh)
    { topY := fun _ => 127, topU := fun _ => 127, topV := fun _ => 127, yPlane := srcY, uPlane := srcU, vPlane := srcV }

def parStep (K : Kernels) (f : EncFrame) (y : Nat) (s : ParShared × ParRow) (x : Nat) : ParShared × ParRow :=
  let d := f.descs (y * f.mbW + x)
  let b := encReconPar K (encQuantMatrix f.quant (segFin d.segment)) x y (parFillCtx s.1 s.2 x y f.mbW) d
  parExport f s.1 x y b

/-- the parallel encoder after the rows `< k / mbW` and the first `k % mbW` macroblocks of the next -/
def parAt (K : Kernels) (f : EncFrame) (srcY srcU srcV : Plane) (k : Nat) : ParShared × ParRow :=
  (List.range (k % f.mbW)).foldl (parStep K f (k / f.mbW)) (rowsDone K f srcY srcU srcV (k / f.mbW), ParRow.init)

/-- the serial iterator's state as the pair the parallel encoder splits it into -/
structure Rel (st : EncSt) (s : ParShared × ParRow) (x : Nat) : Prop where
  ty : st.y.top = s.1.topY
  tu : st.u.top = s.1.topU
  tv : st.v.top = s.1.topV
  py : st.y.plane = s.1.yPlane
  pu : st.u.plane = s.1.uPlane
  pv : st.v.plane = s.1.vPlane
  ly : 0 < x → st.y.left = s.2.leftY ∧ st.y.tl = s.2.tlY
  lu : 0 < x → st.u.left = s.2.leftU ∧ st.u.tl = s.2.tlU
  lv : 0 < x → st.v.left = s.2.leftV ∧ st.v.tl = s.2.tlV

theorem rowsDone_succ (K : Kernels) (f : EncFrame) (srcY srcU srcV : Plane) (y : Nat) :
    rowsDone K f srcY srcU srcV (y + 1) = parRow K f y (rowsDone K f srcY srcU srcV y) := by
  unfold rowsDone
  rw [List.range_succ, List.foldl_append]
  rfl

/-- one macroblock: serial step on the joined state = parallel step -/
theorem step_rel (K : Kernels) (f : EncFrame) (st : EncSt) (s : ParShared × ParRow) (k : Nat)
    (_hk : k < f.mbW * f.mbH) (r : Rel st s (k % f.mbW))
    (hrow : k % f.mbW = 0 → s.2 = ParRow.init) :
    Rel (encStep K f st k) (parStep K f (k / f.mbW) s (k % f.mbW)) (k % f.mbW + 1) := by
  obtain ⟨ty, tu, tv, py, pu, pv, ly, lu, lv⟩ := r
  have hidx : k / f.mbW * f.mbW + k % f.mbW = k := idx_self f.mbW k
  -- the contexts agree
  have hctx : encFillCtx (if k % f.mbW = 0 then { y := st.y.resetLeft, u := st.u.resetLeft, v := st.v.resetLeft } else st)
      (k % f.mbW) (k / f.mbW) f.mbW = parFillCtx s.1 s.2 (k % f.mbW) (k / f.mbW) f.mbW := by
    by_cases hx0 : k % f.mbW = 0
    · have hs := hrow hx0
      simp only [hx0, if_true]
      unfold encFillCtx parFillCtx EncPlane.tlOf EncPlane.topOf EncPlane.leftOf EncPlane.topRightOf EncPlane.resetLeft
      simp only [hs, ParRow.init, ty, tu, tv, Nat.lt_irrefl, false_and, if_false]
    · have h1 : 0 < k % f.mbW := by omega
      obtain ⟨a1, a2⟩ := ly h1
      obtain ⟨b1, b2⟩ := lu h1
      obtain ⟨c1, c2⟩ := lv h1
      simp only [hx0, if_false]
      unfold encFillCtx parFillCtx EncPlane.tlOf EncPlane.topOf EncPlane.leftOf EncPlane.topRightOf
      simp only [ty, tu, tv, a1, a2, b1, b2, c1, c2]
  unfold encStep parStep
  dsimp only
  rw [hctx, hidx]
  have ey : (if k % f.mbW = 0 then ({ y := st.y.resetLeft, u := st.u.resetLeft, v := st.v.resetLeft } : EncSt) else st).y.top = s.1.topY := by
    split <;> simp [EncPlane.resetLeft, ty]
  have eu : (if k % f.mbW = 0 then ({ y := st.y.resetLeft, u := st.u.resetLeft, v := st.v.resetLeft } : EncSt) else st).u.top = s.1.topU := by
    split <;> simp [EncPlane.resetLeft, tu]
  have ev : (if k % f.mbW = 0 then ({ y := st.y.resetLeft, u := st.u.resetLeft, v := st.v.resetLeft } : EncSt) else st).v.top = s.1.topV := by
    split <;> simp [EncPlane.resetLeft, tv]
  have fy : (if k % f.mbW = 0 then ({ y := st.y.resetLeft, u := st.u.resetLeft, v := st.v.resetLeft } : EncSt) else st).y.plane = s.1.yPlane := by
    split <;> simp [EncPlane.resetLeft, py]
  have fu : (if k % f.mbW = 0 then ({ y := st.y.resetLeft, u := st.u.resetLeft, v := st.v.resetLeft } : EncSt) else st).u.plane = s.1.uPlane := by
    split <;> simp [EncPlane.resetLeft, pu]
  have fv : (if k % f.mbW = 0 then ({ y := st.y.resetLeft, u := st.u.resetLeft, v := st.v.resetLeft } : EncSt) else st).v.plane = s.1.vPlane := by
    split <;> simp [EncPlane.resetLeft, pv]
  refine ⟨?_, ?_, ?_, ?_, ?_, ?_, ?_, ?_, ?_⟩ <;>
    simp only [EncPlane.export, parExport, encReconPar, encRecon, ey, eu, ev, fy, fu, fv, show (16 - 1 : Nat) = 15 from rfl, show (8 - 1 : Nat) = 7 from rfl] <;>
    first | rfl | (intro _; constructor <;> trivial)

theorem parRow_eq (K : Kernels) (f : EncFrame) (y : Nat) (sh : ParShared) :
    parRow K f y sh = ((List.range f.mbW).foldl (parStep K f y) (sh, ParRow.init)).1 := rfl

theorem par_rel (K : Kernels) (f : EncFrame) (srcY srcU srcV : Plane) (hw : 0 < f.mbW) : ∀ k, k ≤ f.mbW * f.mbH →
    Rel (encAt K f srcY srcU srcV k) (parAt K f srcY srcU srcV k) (k % f.mbW) ∧
    (k % f.mbW = 0 → (parAt K f srcY srcU srcV k).2 = ParRow.init) := by
  intro k
  induction k with
  | zero =>
    intro _
    have h0 : parAt K f srcY srcU srcV 0 = (rowsDone K f srcY srcU srcV 0, ParRow.init) := by
      unfold parAt
      simp only [Nat.zero_mod, Nat.zero_div, List.range_zero, List.foldl_nil]
    rw [h0]
    refine ⟨?_, fun _ => rfl⟩
    simp only [Nat.zero_mod]
    refine ⟨rfl, rfl, rfl, rfl, rfl, rfl, ?_, ?_, ?_⟩ <;> (intro h; omega)
  | succ k ih =>
    intro hk
    have hk' : k < f.mbW * f.mbH := by omega
    obtain ⟨r, hinit⟩ := ih (by omega)
    have hs := step_rel K f _ _ k hk' r hinit
    rw [encAt_succ]
    by_cases hsame : k % f.mbW + 1 < f.mbW
    · obtain ⟨e1, e2⟩ := next_same f.mbW k hsame
      have hpar : parAt K f srcY srcU srcV (k + 1) =
          parStep K f (k / f.mbW) (parAt K f srcY srcU srcV k) (k % f.mbW) := by
        unfold parAt
        rw [e1, e2, List.range_succ, List.foldl_append]
        rfl
      rw [hpar, e1]
      exact ⟨hs, fun h => by omega⟩
    · obtain ⟨e1, e2⟩ := next_wrap f.mbW k hw hsame
      have hxw : k % f.mbW + 1 = f.mbW := by have := Nat.mod_lt k hw; omega
      have hpar : parAt K f srcY srcU srcV (k + 1) =
          ((parStep K f (k / f.mbW) (parAt K f srcY srcU srcV k) (k % f.mbW)).1, ParRow.init) := by
        have hfold : List.foldl (parStep K f (k / f.mbW)) (rowsDone K f srcY srcU srcV (k / f.mbW), ParRow.init)
            (List.range f.mbW) = parStep K f (k / f.mbW) (parAt K f srcY srcU srcV k) (k % f.mbW) := by
          unfold parAt
          rw [show List.range f.mbW = List.range (k % f.mbW + 1) from by rw [hxw], List.range_succ, List.foldl_append]
          rfl
        unfold parAt
        rw [e1, e2, rowsDone_succ, parRow_eq, hfold]
        simp only [List.range_zero, List.foldl_nil]
        rfl
      rw [hpar, e1]
      obtain ⟨ty, tu, tv, py, pu, pv, _, _, _⟩ := hs
      exact ⟨⟨ty, tu, tv, py, pu, pv, fun h => by omega, fun h => by omega, fun h => by omega⟩, fun _ => rfl⟩

/-- **`serial_eq_parallel_recon`** — see `Webp.Props.C06`. -/
theorem serial_eq_parallel_recon (K : Kernels) (f : EncFrame) (srcY srcU srcV : Plane) (hw : 0 < f.w) :
    (encodeFrameReconPar K f srcY srcU srcV).yPlane = (encodeFrameRecon K f srcY srcU srcV).y.plane ∧
    (encodeFrameReconPar K f srcY srcU srcV).uPlane = (encodeFrameRecon K f srcY srcU srcV).u.plane ∧
    (encodeFrameReconPar K f srcY srcU srcV).vPlane = (encodeFrameRecon K f srcY srcU srcV).v.plane := by
  have hmw : 0 < f.mbW := by unfold EncFrame.mbW mbCount; omega
  obtain ⟨r, _⟩ := par_rel K f srcY srcU srcV hmw (f.mbW * f.mbH) (Nat.le_refl _)
  have e1 : f.mbW * f.mbH % f.mbW = 0 := Nat.mul_mod_right _ _
  have e2 : f.mbW * f.mbH / f.mbW = f.mbH := Nat.mul_div_cancel_left _ hmw
  have hp : (parAt K f srcY srcU srcV (f.mbW * f.mbH)).1 = encodeFrameReconPar K f srcY srcU srcV := by
    unfold parAt
    rw [e1, e2]
    rfl
  have he : encAt K f srcY srcU srcV (f.mbW * f.mbH) = encodeFrameRecon K f srcY srcU srcV := rfl
  rw [← hp, ← he]
  exact ⟨r.py.symm, r.pu.symm, r.pv.symm⟩

end Webp.Proofs.VP8ReconPar
